#!/usr/bin/env python3
"""Regenerates /verif/MANIFEST.json from the table below. Properties without an entry are listed under not_applicable."""
import json, os, subprocess
V = os.path.dirname(os.path.dirname(os.path.abspath(__file__)))
BASE = json.load(open('/root/.vp/BASELINE.json'))['cmd']
HOOK_COMMITS = ["3bf9676"]
C = {}
def add(pid, cat, technique, text, note, design):
    C[pid] = dict(cat=cat, technique=technique, text=text, note=note, design=design)

add("C01", "exploration", "runtime monitor: ground-truth authenticity oracle over forged endorsements at every entry point",
    "Every entry point that takes an endorsement (library verifier, validator closures, SevValidate, TdxValidate, CLI verify / sev validate / tdx validate driven in-process) is executed on thousands of forgeries of a genuinely signed endorsement x trust-root sets x verification times; an independent oracle (own PSS check, own chain and time check) decides whether acceptance was allowed. Held on the executions observed; sampling of an unbounded forgery space, with every byte position of payload/signature/certificate flipped in the thorough tier.",
    "Trusts Go's crypto/rsa, crypto/x509 parsing and the protobuf runtime; oracle is one-directional and weaker than crypto/x509 on every axis so it cannot over-demand; RSA keys are fresh per run.", "DESIGN.md section 3 C01")


TB_GO = "Trusts the Go toolchain/runtime, crypto and protobuf libraries, and the harness's own doubles and reference models (independent code by the same reader of the specifications). Verdict = held on the executions this run produced."
add("C02", "exploration", "runtime monitor: membership oracle over generated signed measurement tables at every validation entry point",
    "Thousands of generated measurement tables (any VMSA-count subset, colliding / wrong-length values, optional SVSM, 0..6 TDX rows) are genuinely signed and validated with endorsed values, their one-bit neighbours, foreign, zero and wrong-length measurements under every request (VMSA count, RAM size incl. values beyond 32 bits, expected digest, pre-populated base policies with overwrite); the oracle allows acceptance only for a member of the set listed for the named configuration and requires derived policies to carry exactly that constraint.",
    TB_GO, "DESIGN.md section 3 C02")
add("C03", "exploration", "runtime monitor: verifier + independent PSS/chain oracle (+ openssl in thorough) over every file the real pipeline writes across generated key histories",
    "Generated histories of bootstrap / rotate(flags) / endorse(request) over six key-manager x authority assemblies; every endorsement written is verified at five instants spanning the common validity window, every listed SNP/TDX measurement is validated for its own configuration, the emitted payload/signature/certificate bytes are re-verified independently, and every earlier endorsement is re-verified after every later command.",
    TB_GO + " Image generator reuses the repository's fakeovmf layout writers (workload only).", "DESIGN.md section 3 C03")
add("C04", "exploration", "differential runtime monitor against an independent SNP launch-digest model (snpref) over generated and boundary-directed images",
    "An independent model of SNP_LAUNCH_UPDATE (PAGE_INFO chaining, page order, VMSA contents, GPA width per product) written from the ABI text decides equality for every accepted image, and its malformed-class predicate (64-bit arithmetic) decides which images must be refused; images come from an own byte-level builder incl. a directed enumeration of overlap/misalignment/duplicate/missing/unknown classes at 32-bit boundaries.",
    TB_GO + " The GCE VMSA reset-state constants are taken from the repository's documentation and pinned by one digest in its tests.", "DESIGN.md section 3 C04")
add("C05", "exploration", "differential runtime monitor against an independent TDVF/TD-HOB/MRTD model (tdxref) incl. an exhaustively enumerated small grid",
    "An independent model (TDVF metadata reader, RAM-minus-sections sweep, TD-HOB builder, MEM.PAGE.ADD/MR.EXTEND stream, own table of the six machine shapes) is compared with tdx.MRTD, the extracted regions and TD-HOB bytes (decoded by an own PI-HOB decoder) and every row of tdx.UnsignedTDX, over generated section layouts and RAM bank lists in all three modes, plus every configuration of a 6-point page grid (30k configurations, enumerated completely).",
    TB_GO, "DESIGN.md section 3 C05")
add("C09", "exploration", "Go race detector + isolation oracle over recorded call histories of shared validators",
    "Validators created once (one closure, two closures sharing one *verify.Options, SevValidate with one shared options/base-policy value) are invoked from 2..16 goroutines and successively on endorsed / unendorsed / wrong-length measurements from two firmware builds on the -race build; any race report with a repository frame, any call whose result differs from the same call on private options, and any modification of the caller's options is a violation. Evidence counts histories in which endorsed and unendorsed calls really overlapped.",
    TB_GO + " Interleavings are those the Go scheduler produced.", "DESIGN.md section 3 C09")
add("C10", "fault_enumeration", "fault and crash injection at every call of the recorded rotation trace, with post-state invariants and an event-order checker",
    "For each assembly the fault-free rotation's call trace over key manager, signer, certificate authority and storage is recorded; then every position x {error, crash before, crash after} (and sampled pairs in thorough) is injected from a restored snapshot. After each run the authority is reloaded like a fresh process and must name a live, certified, signing primary; the call log must not show the old key destroyed before the new primary is recorded; a later fault-free --overwrite rotation must succeed.",
    TB_GO + " Crash granularity = call boundaries of the repository's interfaces.", "DESIGN.md section 3 C10")
add("C11", "fault_enumeration", "offline checker replaying every prefix (and upload permutation) of the recorded storage write log",
    "A recording store logs every completed object write of bootstrap and rotations (incl. a rotation retried in-process after an injected upload fault); every prefix of every command's writes, under every order of the certificate uploads that precede the manifest write, is materialised and reloaded by a fresh gcsca authority: manifest parses, every listed key version resolves to a parseable certificate, the recorded primary verifies under the stored root.",
    TB_GO + " Object-granularity crashes (no torn objects).", "DESIGN.md section 3 C11")
add("C14", "fault_enumeration", "offline checker over the call log of a scripted version-control double, all scripts up to the retry budget",
    "Every script of per-attempt outcomes (workspace / read / write / chmod / commit failing retriably or permanently, concurrent writer committing between attempts, genuine commit conflicts) for budgets -2..3 is run through endorse.VirtualFirmware and RetrySubmit (also two and three back ends); the checker judges attempts <= budget+1, retry only after retriable errors, fresh workspace and manifest re-read per attempt, concurrent entries preserved, every failed workspace released once, success iff a commit succeeded, Result recorded once.",
    TB_GO + " Exhaustive for the stated operation alphabet and budgets.", "DESIGN.md section 3 C14")
add("C15", "exploration", "call-log emptiness monitor over recording doubles + stdout-vs-signed-table comparison",
    "All 256 combinations of dry-run, measurement-only, SNP, TDX, snapshot, candidate, overwrite and explicit VMSA count per generated image are executed with version control, signer, key manager, CA and storage behind recording doubles: dry-run must log no workspace/write/commit call and must return; measurement-only additionally no signer/CA/key/storage call; the printed measurements must equal what a real run over the same request signs.",
    TB_GO, "DESIGN.md section 3 C15")
add("C16", "exploration", "URL-log checker, byte-equality and confinement monitors (in-process, plus strace path monitor in thorough)",
    "Object names/URLs are checked against an own model (injective, technology-separated); the SP800-155 events a real snapshot endorse run emits are decoded by an independent TCG codec; the full product of evidence sources (event-log shapes x quote formats x providers x getters x force-fetch) is run with a recording getter and every requested URL must be derived from a full-length measurement of the quote in hand or be the selected URI locator; efivarfs resolution is run against hostile directory trees with outside canaries, and under strace every path-taking syscall must stay inside the root.",
    TB_GO + " TOCTOU symlink swaps are not generated.", "DESIGN.md section 3 C16")
add("C17", "exploration", "field-wise reference-model monitor over protoreflect-generated base policies",
    "Base policies with every field independently set/unset (incl. unknown fields and spare slice capacity) x generated endorsements x options are pushed through SevPolicy and TdxPolicy; the monitor checks the base is byte-identical afterwards, the result shares no memory with it, guarded fields survive or the call fails, written values are the endorsement's, key lists are base ++ bundle, malformed bundles are refused and every unrelated field is carried over.",
    TB_GO, "DESIGN.md section 3 C17")
add("C19", "exploration", "differential runtime monitor against an independent protoreflect walker (pathref) + resource monitor + rendering decoders",
    "Grammar-directed path texts (all key kinds, number bases, quote styles and escapes), neighbour edits and token soups are parsed and evaluated on the source message, a random message, the empty message and a copy with the addressed element removed; results must equal the independently walked value or be an error when absent, never a panic or an out-of-proportion allocation; raw/hex/base64 renderings of payload, signature and bytes fields through the API and the in-process CLI must decode to the exact field bytes.",
    TB_GO, "DESIGN.md section 3 C19")
add("C20", "fault_enumeration", "in-process Cloud KMS model with RPC call budget, state invariants and response corruption at the transport",
    "gcpkms.Manager and gcpkms.Signer run against a model KeyManagementService (versions in all states, seven legal AIP-158 paging behaviours, an error at the N-th RPC for every N): wipeout/bootstrap/rotation must finish within a logical RPC budget and leave no enabled/disabled version, select an enabled (or polled pending) version, return only enabled versions; Sign must refuse every single-bit corruption of signature/checksum/flags and every non-PSS-SHA256 option.",
    TB_GO + " The service is a model producing only behaviours the public API contract allows.", "DESIGN.md section 3 C20")

add("C07", "exploration", "resource monitor (panic / thread CPU / allocated bytes, child-process death attribution) over mutated genuine objects at 27 decoder entry points",
    "Genuine endorsements, attestations in every format, certificate tables, event logs and events are mutated (every truncation, field-aware boundary values for every length/count field, protobuf wire-level edits, removed sub-messages, bit flips, re-encodings, inputs near 1 MiB) and pushed through every relying-party decoder under core.Guard: a panic, a call exceeding 2 s + 1 s/MiB of thread CPU, or allocating more than 64 MiB + 4 KiB per input byte is a violation; fatal allocations kill a child under ulimit -v and are attributed to the case logged before the call.",
    TB_GO + " CPU budgets use per-thread user time; budgets are 2-3 orders of magnitude above genuine cost (reported as maxima).", "DESIGN.md section 3 C07")
add("C12", "exploration", "invariant monitor evaluated after every command of generated key-management histories",
    "Generated histories over {bootstrap, rotate, wipeout ca|keys|all} with CN / serial / timestamp / overwrite / keep-going flags on six key-manager x authority assemblies; after every command the authority is read back like a fresh process and the certificate-profile, lifetime, serial, issued-by-root, only-the-primary-signs, fresh-name, no-clobber and wipeout invariants are evaluated.",
    TB_GO + " Freshness and signing-ability clauses are scoped to the current epoch (since the last bootstrap or wipeout); keep-going is generated together with overwrite only.", "DESIGN.md section 3 C12")
add("C13", "exploration", "manifest invariant monitor after every run of real endorse histories, with BFS closure of abstract manifest states",
    "Real endorse.VirtualFirmware runs (sign + commit) over an in-memory transactional VCS double, a write-through double and localnonvcs: breadth-first closure over abstract store states for a pool of 3 images x 3 candidates x overwrite on/off (+ snapshot runs) until no new state appears, plus random histories over larger pools with scripted commit conflicts and write faults; after every run the manifest must parse, list each path and digest once, every entry's file must be an endorsement signing that digest, the latest run's digest must map to the file it wrote, and without overwrite no existing endorsement file changes.",
    TB_GO + " The oracle is a pure function over the store before/after a run and does not know the merge rules.", "DESIGN.md section 3 C13")
add("C18", "exploration", "reference codecs (own offset tables / decoders) + round-trip, strictness, truncation and re-encode monitors over 26 binary structures",
    "For each structure (EFI GUID, GUID-table entries, SEV/TDX metadata records, SEV-ES reset block, VMSA, PAGE_INFO, PI HOBs, TCG event-log records, SP800-155 events) boundary-biased values are encoded and compared byte for byte with an independent layout model, decoded back, truncated at every length, extended, and given non-zero reserved bytes one at a time through three reader kinds; whatever a decoder accepts must re-encode to the consumed bytes.",
    TB_GO, "DESIGN.md section 3 C18")

add("C06", "exploration", "field-by-field recomputation monitor (independent snpref/tdxref models, own sha384, own count list) over generated endorsement requests",
    "Generated requests (images 64 KiB..2 MiB, technology subsets, explicit/default/non-GCE VMSA counts, both products, machine-shape lists with and without early accept incl. unknown names, SVN, IDs, SVSM, provenance, timestamps; images with SNP-only or TDX-only valid metadata) are run through endorse.GoldenMeasurement and endorse.SignDoc with a bootstrapped authority; every field of the message and of the re-parsed signed payload is compared with an independent recomputation, and requests that cannot be measured must fail instead of yielding placeholder or left-over entries.",
    TB_GO + " Measurement values rely on the C04/C05 reference models.", "DESIGN.md section 3 C06")

add("C08", "exploration", "resource monitor (panic / thread CPU / allocated bytes, allocation watchdog, child-process death attribution) over hostile firmware images at 12 entry points",
    "An own byte-level image builder (validated byte for byte against the repository's example image) produces well-formed specs whose GUID-table, SEV-metadata and TDVF-metadata fields are replaced by boundary values (0, 1, size+-1, 2^31, 2^32-1, wrapping counts, 2^40..2^64-4096, misalignments), plus directed cases and blind byte edits; every parsing / measuring entry point runs under core.Guard with budgets proportional to the image size (10 s + 2 s/MiB CPU, 256 MiB + 512 B/byte allocation, times the number of measurements requested); panics, budget excess, non-termination and fatal out-of-memory deaths (attributed to the logged case) are violations.",
    TB_GO + " Budgets are at least 7x above the worst legitimate case measured.", "DESIGN.md section 3 C08")

EXT = (" Since it was first built the workload was extended against five rounds of independently seeded property-breaking changes and by an audit of seven recurring blind-spot classes "
       "(caller-kept state, process-wide state, flag combinations, faults other than a clean crash, environment, non-canonical encodings and exact boundaries, sizes not divisible by an internal chunk): DESIGN.md sections 8.3 and 8.6. "
       "The rule text of what actually ran, with the counters, cells and floors showing that each family was exercised, is in the evidence file (coverage.rule / counters / floors); a run in which a family was not exercised is INCONCLUSIVE, not a pass.")
props = [json.loads(l) for l in open(os.path.join(V, 'properties.jsonl'))]
checks, na = [], []
for p in props:
    pid = p['id']
    if pid in C:
        c = C[pid]
        checks.append({
            "property_id": pid, "quick_cmd": f"./check {pid} quick", "thorough_cmd": f"./check {pid} thorough",
            "evidence_file": f"/verif/evidence/{pid}.json", "replay_cmd_template": f"./check {pid} --replay {{path}}",
            "engine": "vcheck", "level_claimed": {"category": c['cat'], "text": c['text'] + EXT, "design_ref": c['design'] + "; as built: section 8.1; extensions: sections 8.3 and 8.6"},
            "level_note": c['note'], "technique": c['technique']})
    else:
        na.append({"property_id": pid, "reason": "check not built yet in this phase (planned in DESIGN.md section 3); not claimed until its monitor exists and is silent on the unchanged tree"})
m = {"version": 1, "setup_cmd": "./setup.sh",
     "hooks": {"guard": "verif", "enable": "go build -tags verif (the harness module /verif/harness replaces the repository modules with /repo and builds with -tags verif)",
               "baseline_off_cmd": BASE, "source_commits": HOOK_COMMITS, "add_only": True},
     "engines": [{"name": "vcheck", "path": "/verif/check", "serves_properties": sorted(C),
                  "kind_free_text": "Python supervisor + Go worker (harness/): runs the real repository code in child processes under seeded hostile workloads with recording/fault-injecting doubles; in-process monitors (reference models, invariants, resource monitor) and offline checkers over the event log decide; Go race detector for C09"}],
     "checks": checks, "not_applicable": na,
     "notes": "Exit codes: 0 held on everything observed, 1 violation (VIOLATION line), 3 inconclusive (INCONCLUSIVE line; never a pass). VERIF_SEED selects the PRNG stream; VERIF_REPO may point at a scratch copy of the repository. Known findings: /verif/known_findings.json."}
json.dump(m, open(os.path.join(V, 'MANIFEST.json'), 'w'), indent=1)
print("checks:", len(checks), "not_applicable:", len(na))
