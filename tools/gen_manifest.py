#!/usr/bin/env python3
"""Regenerates /verif/MANIFEST.json from the table below. Properties without an entry are listed under not_applicable."""
import json, os, subprocess
V = os.path.dirname(os.path.dirname(os.path.abspath(__file__)))
BASE = json.load(open('/root/.vp/BASELINE.json'))['cmd']
HOOK_COMMITS = ["3bf9676"]
C = {}
def add(pid, cat, technique, text, note, design):
    C[pid] = dict(cat=cat, technique=technique, text=text, note=note, design=design)

add("C01", "exploration", "runtime monitor: ground-truth authenticity oracle over forged endorsements at every entry point",
    "Every entry point that takes an endorsement (library verifier, validator closures, SevValidate, TdxValidate, CLI verify / sev validate / tdx validate driven in-process) is executed on thousands of forgeries of a genuinely signed endorsement x trust-root sets x verification times; an independent oracle (own PSS check, own chain and time check) decides whether acceptance was allowed. Held on the executions observed; sampling of an unbounded forgery space, with every byte position of payload/signature/certificate flipped in the thorough tier.",
    "Trusts Go's crypto/rsa, crypto/x509 parsing and the protobuf runtime; oracle is one-directional and weaker than crypto/x509 on every axis so it cannot over-demand; RSA keys are fresh per run.", "DESIGN.md section 3 C01")

props = [json.loads(l) for l in open(os.path.join(V, 'properties.jsonl'))]
checks, na = [], []
for p in props:
    pid = p['id']
    if pid in C:
        c = C[pid]
        checks.append({
            "property_id": pid, "quick_cmd": f"./check {pid} quick", "thorough_cmd": f"./check {pid} thorough",
            "evidence_file": f"/verif/evidence/{pid}.json", "replay_cmd_template": f"./check {pid} --replay {{path}}",
            "engine": "vcheck", "level_claimed": {"category": c['cat'], "text": c['text'], "design_ref": c['design']},
            "level_note": c['note'], "technique": c['technique']})
    else:
        na.append({"property_id": pid, "reason": "check not built yet in this phase (planned in DESIGN.md section 3); not claimed until its monitor exists and is silent on the unchanged tree"})
m = {"version": 1, "setup_cmd": "./setup.sh",
     "hooks": {"guard": "verif", "enable": "go build -tags verif (the harness module /verif/harness replaces the repository modules with /repo and builds with -tags verif)",
               "baseline_off_cmd": BASE, "source_commits": HOOK_COMMITS, "add_only": True},
     "engines": [{"name": "vcheck", "path": "/verif/check", "serves_properties": sorted(C),
                  "kind_free_text": "Python supervisor + Go worker (harness/): runs the real repository code in child processes under seeded hostile workloads with recording/fault-injecting doubles; in-process monitors (reference models, invariants, resource monitor) and offline checkers over the event log decide; Go race detector for C09"}],
     "checks": checks, "not_applicable": na,
     "notes": "Exit codes: 0 held on everything observed, 1 violation (VIOLATION line), 3 inconclusive (INCONCLUSIVE line; never a pass). VERIF_SEED selects the PRNG stream; VERIF_REPO may point at a scratch copy of the repository. Known findings: /verif/known_findings.json."}
json.dump(m, open(os.path.join(V, 'MANIFEST.json'), 'w'), indent=1)
print("checks:", len(checks), "not_applicable:", len(na))
