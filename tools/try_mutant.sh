#!/bin/bash
# usage: tools/try_mutant.sh <patch.diff> <Cxx> [tier]  — applies the patch to a scratch worktree of /repo HEAD
# (never to /repo itself), runs the check against it and removes the worktree. Prints the check's verdict lines.
set -u
P=$(readlink -f $1); C=$2; T=${3:-quick}
W=/tmp/mw/$(basename $P .diff)-$$
mkdir -p /tmp/mw
git -C /repo worktree add -q --detach $W HEAD || exit 2
if ! git -C $W apply $P; then echo "PATCH DOES NOT APPLY"; git -C /repo worktree remove --force $W; exit 2; fi
cd "$(dirname "$0")/.."
VERIF_REPO=$W ./check $C $T 2>&1 | grep -a -E "VIOLATION|KNOWN-FINDING|INCONCLUSIVE|verdict=|^  (oracle|panic|race|budget|death)" | cut -c1-400
rc=${PIPESTATUS[0]}
git -C /repo worktree remove --force $W
rm -rf /verif/.build/$(python3 -c "import hashlib,sys;print(hashlib.sha1('$W'.encode()).hexdigest()[:10])")
exit $rc
