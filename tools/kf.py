#!/usr/bin/env python3
"""usage: tools/kf.py <Fid> <Cxx> fixed <commit> "<what failed>"   |   tools/kf.py <Fid> <Cxx> open '<signature json>' "<what>"
Adds or replaces an entry of /verif/known_findings.json."""
import json, sys, os
V = os.path.dirname(os.path.dirname(os.path.abspath(__file__)))
p = os.path.join(V, 'known_findings.json')
d = json.load(open(p))
fid, prop, status = sys.argv[1:4]
d['findings'] = [f for f in d['findings'] if f['id'] != fid]
if status == 'fixed':
    commit, what = sys.argv[4:6]
    e = {"id": fid, "property": prop, "status": "fixed", "commit": commit, "what": what,
         "record": f"fixed: property={prop} {commit} {what}", "detected": f"findings/{fid}.detect.txt"}
else:
    sig, what = json.loads(sys.argv[4]), sys.argv[5]
    e = {"id": fid, "property": prop, "status": "open", "signature": sig, "what": what, "record": f"KNOWN-FINDING: property={prop} {what}"}
d['findings'].append(e)
d['findings'].sort(key=lambda f: f['id'])
json.dump(d, open(p, 'w'), indent=1)
print(len(d['findings']), "findings")
