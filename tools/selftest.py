#!/usr/bin/env python3
"""usage: tools/selftest.py [ids...]  — runs every kept seeded change (seeded/<id>/patch.diff) against its property's quick
check on a scratch worktree (tools/try_mutant.sh) and records what detected it in seeded/<id>/meta.json and seeded/RESULTS.json."""
import json, os, subprocess, sys, re, glob
from concurrent.futures import ThreadPoolExecutor
V = os.path.dirname(os.path.dirname(os.path.abspath(__file__)))
ids = sys.argv[1:] or sorted(os.path.basename(d) for d in glob.glob(os.path.join(V, 'seeded', 'C*-*m*')))
def run(i):
    meta_p = os.path.join(V, 'seeded', i, 'meta.json')
    meta = json.load(open(meta_p))
    prop = meta.get('detect_with', meta['breaks_property'])  # a change may break a clause that another property's check owns
    r = subprocess.run([os.path.join(V, 'tools/try_mutant.sh'), os.path.join(V, 'seeded', i, 'patch.diff'), prop, 'quick'], capture_output=True, text=True, errors='replace')
    out = r.stdout
    sites = sorted(set(re.findall(r'^  (\w[\w-]*) entry=(.*?) site=(.*?) x\d+', out, re.M)))
    if 'verdict=' not in out and 'VIOLATION' not in out and 'INCONCLUSIVE' not in out and 'PATCH DOES NOT APPLY' not in out:
        out = 'INCONCLUSIVE (the check did not run: scratch worktree could not be set up)'  # never count a run that did not happen as a miss
    verdict = 'detected' if 'VIOLATION' in out else ('patch-does-not-apply' if 'PATCH DOES NOT APPLY' in out else ('inconclusive' if 'INCONCLUSIVE' in out else 'missed'))
    meta['detected_by'] = {'check': f'./check {prop} quick', 'verdict': verdict, 'rules': [f'{k}:{e}:{s}' for k, e, s in sites][:8],
                           'repo_commit': subprocess.run(['git', '-C', '/repo', 'rev-parse', '--short', 'HEAD'], capture_output=True, text=True).stdout.strip()}
    json.dump(meta, open(meta_p, 'w'), indent=1)
    print(i, verdict, [s for _, _, s in sites][:3], flush=True)
    return i, verdict, meta['detected_by']['rules']
with ThreadPoolExecutor(max_workers=int(os.environ.get('SELFTEST_JOBS', '3'))) as ex:
    res = list(ex.map(run, ids))
p = os.path.join(V, 'seeded', 'RESULTS.json')
allr = json.load(open(p)) if os.path.exists(p) else {}
for i, v, rules in res:
    allr[i] = {'verdict': v, 'rules': rules}
json.dump(dict(sorted(allr.items())), open(p, 'w'), indent=1)
print(sum(1 for v in allr.values() if v['verdict'] == 'detected'), 'of', len(allr), 'detected')
