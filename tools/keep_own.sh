#!/bin/bash
# usage: tools/keep_own.sh <Cxx> <k> <srcdir>  — keeps a "teeth" change written by the author of a check extension
# (NOT an independent seeded change): confirms in a scratch worktree of /repo HEAD that own<k>.diff applies, builds and
# passes the repository's own suite like the unchanged tree, then stores it under /verif/seeded/own/<Cxx>-own<k>/.
set -u
C=$1; K=$2; SRC=$3; ID=$C-own$K
V=$(cd "$(dirname "$0")/.." && pwd)
W=/tmp/mw/own-$ID-$$
export GOPROXY=off GOSUMDB=off GOTOOLCHAIN=local GOFLAGS=
mkdir -p /tmp/mw
git -C /repo worktree add -q --detach $W HEAD || exit 2
trap "git -C /repo worktree remove --force $W 2>/dev/null" EXIT
git -C $W apply $SRC/own$K.diff || { echo "$ID: patch does not apply to HEAD"; exit 2; }
( cd $W && go build ./... && cd gcetcbendorsement && go build ./... ) >/tmp/mw/$ID.build.log 2>&1; build_rc=$?
$V/tools/baseline.sh $W > /tmp/mw/$ID.suite.log 2>&1; suite_rc=$?
echo "$ID: build rc=$build_rc suite rc=$suite_rc ($(head -1 /tmp/mw/$ID.suite.log))"
if [ $build_rc -eq 0 ] && [ $suite_rc -eq 0 ]; then
  mkdir -p $V/seeded/own/$ID
  cp $SRC/own$K.diff $V/seeded/own/$ID/patch.diff
  [ -f $SRC/own$K.md ] && cp $SRC/own$K.md $V/seeded/own/$ID/notes.md
  python3 - "$V/seeded/own/$ID/meta.json" "$C" "$ID" "$(git -C /repo rev-parse --short HEAD)" "$(head -1 /tmp/mw/$ID.suite.log)" "$SRC/own$K.md" <<'PY'
import json,sys,os
out,prop,mid,commit,suite,md=sys.argv[1:7]
notes=open(md).read() if os.path.exists(md) else ""
json.dump({"id":mid,"breaks_property":prop,"origin":"written by the sub-agent that audited and extended this property's check, to prove that a new workload dimension has teeth; NOT independent of /verif (kept as a regression seed, not counted in the first-attempt statistics)",
 "needs_to_manifest":notes.strip(),
 "validated":{"repo_commit":commit,"applies_and_builds":True,"repo_suite_with_patch":suite,"commands":["git worktree add (scratch)","git apply patch.diff","go build ./... (both modules)","tools/baseline.sh <worktree>"]},
 "detected_by":None},open(out,"w"),indent=1)
PY
  echo "$ID: KEPT"
else
  echo "$ID: REJECTED (see /tmp/mw/$ID.*.log)"
fi
