#!/bin/bash
# usage: tools/record_finding.sh <Fid> <Cxx> [tier]  — runs the check on the current (unrepaired) tree and
# stores what it reported under findings/<Fid>.detect.txt (evidence that the check found the defect before the fix).
set -u
cd "$(dirname "$0")/.."
F=$1; P=$2; T=${3:-quick}
mkdir -p findings
{
  echo "# $F detected by ./check $P $T on repo commit $(git -C ${VERIF_REPO:-/repo} rev-parse --short HEAD) (before the fix)"
  ./check $P $T 2>&1 | cut -c1-600
  echo "# exit=$?"
} > findings/$F.detect.txt
grep -c VIOLATION findings/$F.detect.txt
