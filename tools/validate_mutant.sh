#!/bin/bash
# usage: tools/validate_mutant.sh <Cxx> <k> <srcdir> <seeded-id>
# Confirms in a scratch worktree of /repo HEAD that mut<k>.diff (a) applies and builds, (b) passes the repository's
# own suite like the unchanged tree, (c) makes demo<k>_test.go fail while the unchanged tree passes it; then stores
# patch.diff, the demo and meta.json under /verif/seeded/<seeded-id>/. Never touches /repo's working tree.
set -u
C=$1; K=$2; SRC=$3; ID=$4
V=$(cd "$(dirname "$0")/.." && pwd)
W=/tmp/mw/val-$ID-$$
export GOPROXY=off GOSUMDB=off GOTOOLCHAIN=local GOFLAGS=
mkdir -p /tmp/mw
git -C /repo worktree add -q --detach $W HEAD || exit 2
cleanup() { git -C /repo worktree remove --force $W 2>/dev/null; }
trap cleanup EXIT
demo=$SRC/demo${K}_test.go
place=$(grep -m1 -o "place in: *[^ ]*" $demo | sed 's/place in: *//; s#/$##')
[ -z "$place" ] && { echo "no 'place in:' header in $demo"; exit 2; }
pkgdir=$W/$place
moddir=$W; case "$place" in gcetcbendorsement*) moddir=$W/gcetcbendorsement;; esac
name=verif_demo_${ID//-/_}_test.go
tests=$(grep -o "^func Test[A-Za-z0-9_]*" $demo | sed 's/func //' | paste -sd'|')
RUN="-run ^($tests)\$"
# demo on the unchanged tree
cp $demo $pkgdir/$name
( cd $pkgdir && go test -vet=off -count=1 $RUN . >/tmp/mw/$ID.clean.log 2>&1 ); clean_rc=$?
rm $pkgdir/$name
git -C $W apply $SRC/mut$K.diff || { echo "patch does not apply to HEAD"; exit 2; }
( cd $W && go build ./... && cd gcetcbendorsement && go build ./... ) >/tmp/mw/$ID.build.log 2>&1; build_rc=$?
$V/tools/baseline.sh $W > /tmp/mw/$ID.suite.log 2>&1; suite_rc=$?
cp $demo $pkgdir/$name
( cd $pkgdir && go test -vet=off -count=1 $RUN . >/tmp/mw/$ID.mut.log 2>&1 ); mut_rc=$?
rm $pkgdir/$name
echo "$ID: demo-on-clean rc=$clean_rc build rc=$build_rc suite rc=$suite_rc ($(head -1 /tmp/mw/$ID.suite.log)) demo-on-mutant rc=$mut_rc"
if [ $clean_rc -eq 0 ] && [ $build_rc -eq 0 ] && [ $suite_rc -eq 0 ] && [ $mut_rc -ne 0 ]; then
  mkdir -p $V/seeded/$ID
  cp $SRC/mut$K.diff $V/seeded/$ID/patch.diff
  cp $demo $V/seeded/$ID/demo_test.go
  [ -f $SRC/mut$K.md ] && cp $SRC/mut$K.md $V/seeded/$ID/notes.md
  python3 - "$V/seeded/$ID/meta.json" "$C" "$ID" "$place" "$(git -C /repo rev-parse --short HEAD)" "$(head -1 /tmp/mw/$ID.suite.log)" "$SRC/mut$K.md" <<'PY'
import json,sys,os
out,prop,mid,place,commit,suite,md=sys.argv[1:8]
notes=open(md).read() if os.path.exists(md) else ""
json.dump({"id":mid,"breaks_property":prop,"origin":"independent sub-agent given only the property text and a scratch worktree",
 "needs_to_manifest":notes.strip(),"demo":{"file":"demo_test.go","place_in":place},
 "validated":{"repo_commit":commit,"applies_and_builds":True,"repo_suite_with_patch":suite,"demo_on_unchanged_tree":"pass","demo_with_patch":"fail",
   "commands":["git worktree add (scratch)","git apply patch.diff","go build ./... (both modules)","tools/baseline.sh <worktree>","go test -run . <demo package> with and without the patch"]},
 "detected_by":None},open(out,"w"),indent=1)
PY
  echo "$ID: KEPT"
else
  echo "$ID: REJECTED (see /tmp/mw/$ID.*.log)"
fi
