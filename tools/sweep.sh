#!/bin/bash
# usage: tools/sweep.sh <tier> <seed...>   — runs every claimed check at the given seeds, prints verdict and wall time.
cd "$(dirname "$0")/.."
T=$1; shift
props=$(python3 -c "import json;print(' '.join(c['property_id'] for c in json.load(open('MANIFEST.json'))['checks']))")
for s in "$@"; do for p in $props; do
  t0=$(date +%s); out=$(VERIF_SEED=$s ./check $p $T 2>&1); rc=$?; t1=$(date +%s)
  echo "seed=$s $p $T rc=$rc wall=$((t1-t0))s :: $(echo "$out" | grep -E 'verdict=' | tail -1 | sed 's/.*verdict=/verdict=/')"
  [ $rc -ne 0 ] && echo "$out" | grep -E "VIOLATION|INCONCLUSIVE|^  " | head -6 | cut -c1-300
done; done
