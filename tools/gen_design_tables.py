#!/usr/bin/env python3
"""Regenerates the tables of DESIGN.md section 8 from known_findings.json and seeded/."""
import json, os, re, glob
V = os.path.dirname(os.path.dirname(os.path.abspath(__file__)))
kf = json.load(open(os.path.join(V, 'known_findings.json')))['findings']
rows = ["| # | Prop | Status | Commit | What failed on the unchanged tree |", "|---|------|--------|--------|-----------------------------------|"]
for f in kf:
    rows.append(f"| {f['id']} | {f['property']} | {f['status']} | {f.get('commit','')} | {f['what']} |")
findings = "\n".join(rows)
first = json.load(open(os.path.join(V, 'seeded', 'FIRST_ATTEMPT.json')))
res = json.load(open(os.path.join(V, 'seeded', 'RESULTS.json'))) if os.path.exists(os.path.join(V, 'seeded', 'RESULTS.json')) else {}
rows = ["| Seeded change | Property | What it does (short) | First attempt | Now (quick check of the property, or of the named one) | Rule(s) that fire |", "|---|---|---|---|---|---|"]
for d in sorted(glob.glob(os.path.join(V, 'seeded', 'C*-*m*'))):
    i = os.path.basename(d)
    m = json.load(open(os.path.join(d, 'meta.json')))
    short = ''.join(ch if ch.isprintable() else repr(ch)[1:-1] for ch in (m.get('needs_to_manifest') or '').strip().split('\n')[0][:140]).replace('|', '/')
    r = res.get(i, {})
    rules = ", ".join(sorted(set(x.split(':')[-1] for x in r.get('rules', []))))[:160]
    chk = m.get('detect_with', m['breaks_property'])
    now = r.get('verdict', 'not run') + ('' if chk == m['breaks_property'] else f' (by {chk})')
    rows.append(f"| {i} | {m['breaks_property']} | {short} | {first.get(i, '?')} | {now} | {rules} |")
seeded = "\n".join(rows)
p = os.path.join(V, 'DESIGN.md')
s = open(p).read()
s = re.sub(r'<!-- BEGIN:findings -->.*?<!-- END:findings -->', lambda _m: '<!-- BEGIN:findings -->\n' + findings + '\n<!-- END:findings -->', s, flags=re.S)
s = re.sub(r'<!-- BEGIN:seeded -->.*?<!-- END:seeded -->', lambda _m: '<!-- BEGIN:seeded -->\n' + seeded + '\n<!-- END:seeded -->', s, flags=re.S)
open(p, 'w').write(s)
print("tables regenerated:", len(kf), "findings,", len(rows) - 2, "seeded changes")
