#!/bin/bash
# usage: tools/baseline.sh [repo]  — runs the repository's own test suite with the verif guard OFF and
# compares the set of passing tests with /root/.vp/BASELINE.json stable_pass. Exit 0 iff every stable test passes.
R=${1:-/repo}
export GOPROXY=off GOSUMDB=off GOTOOLCHAIN=local GOFLAGS=
out=$(mktemp)
for m in . ./gcetcbendorsement; do (cd $R/$m && go test -json -vet=off -count=1 -timeout 25m ./... 2>/dev/null); done > $out
python3 - $out <<'PY'
import json,sys
passed=set(); failed=set()
for l in open(sys.argv[1]):
    try: e=json.loads(l)
    except: continue
    if e.get('Test') and e.get('Action') in('pass','fail'):
        (passed if e['Action']=='pass' else failed).add(e['Package']+'::'+e['Test'])
b=json.load(open('/root/.vp/BASELINE.json'))
stable=set(b['stable_pass']) if isinstance(b['stable_pass'],list) else set()
missing=sorted(stable-passed)
print(f"passed={len(passed)} failed={len(failed)} stable={len(stable)} stable_not_passing={len(missing)}")
for m in missing[:20]: print("  MISSING",m)
for f in sorted(failed-set(b.get('always_fail',[])))[:20]: print("  FAILED",f)
sys.exit(1 if missing else 0)
PY
rc=$?; rm -f $out; exit $rc
