// Package authref is the ground-truth authenticity oracle of C01, independent of the
// repository's verify package and deliberately the weakest reading of the property.
package authref

import (
	"bytes"
	"crypto"
	"crypto/rsa"
	"crypto/sha256"
	"crypto/x509"
	"time"

	epb "github.com/google/gce-tcb-verifier/proto/endorsement"
	"google.golang.org/protobuf/proto"
)

// Result explains the verdict.
type Result struct {
	Authentic bool
	Why       string // first failed clause, "" when authentic
}

// Bytes decides authenticity of a serialized VMLaunchEndorsement.
func Bytes(b []byte, roots []*x509.Certificate, now time.Time) Result {
	e := &epb.VMLaunchEndorsement{}
	if err := proto.Unmarshal(b, e); err != nil {
		return Result{false, "endorsement does not parse"}
	}
	return Proto(e, roots, now)
}

// Proto decides authenticity of an endorsement message.
func Proto(e *epb.VMLaunchEndorsement, roots []*x509.Certificate, now time.Time) Result {
	if e == nil {
		return Result{false, "nil endorsement"}
	}
	g := &epb.VMGoldenMeasurement{}
	if err := proto.Unmarshal(e.GetSerializedUefiGolden(), g); err != nil {
		return Result{false, "payload does not parse"}
	}
	cert, err := x509.ParseCertificate(g.GetCert())
	if err != nil {
		return Result{false, "certificate does not parse"}
	}
	chained := false
	for _, r := range roots {
		if bytes.Equal(r.Raw, cert.Raw) {
			chained = true
			break
		}
		// crypto-only: signature over the TBS bytes verifies under the root's key.
		if r.CheckSignature(cert.SignatureAlgorithm, cert.RawTBSCertificate, cert.Signature) == nil {
			chained = true
			break
		}
	}
	if !chained {
		return Result{false, "certificate not issued by (nor equal to) any trusted root"}
	}
	if now.Before(cert.NotBefore) || now.After(cert.NotAfter) {
		return Result{false, "certificate not valid at verification time"}
	}
	pub, ok := cert.PublicKey.(*rsa.PublicKey)
	if !ok {
		return Result{false, "certificate key is not RSA"}
	}
	d := sha256.Sum256(e.GetSerializedUefiGolden())
	if err := rsa.VerifyPSS(pub, crypto.SHA256, d[:], e.GetSignature(), &rsa.PSSOptions{SaltLength: rsa.PSSSaltLengthAuto}); err != nil {
		return Result{false, "signature is not a PSS/SHA-256 signature of the payload under the certificate key"}
	}
	return Result{true, ""}
}
