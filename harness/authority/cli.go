package authority

import (
	"context"
	crand "crypto/rand"
	"io"
	"os"
	"path/filepath"

	"github.com/google/gce-tcb-verifier/cmd"
	"github.com/google/gce-tcb-verifier/sign/nonprod"
	"github.com/google/gce-tcb-verifier/storage/local"
	"github.com/google/gce-tcb-verifier/testing/nonprod/localca"
	"github.com/google/gce-tcb-verifier/testing/nonprod/localkm"
	"github.com/google/gce-tcb-verifier/testing/nonprod/localnonvcs"
	"github.com/google/gce-tcb-verifier/testing/nonprod/memkm"
)

// CLIable reports whether the assembly's state lives where the shipped nonprod command line keeps it
// (localkm key directory + localca/gcsca on storage/local), so that commands can be run through cmd.MakeApp.
func (a *Assembly) CLIable() bool { return a.KM == LocalKM && a.CA == GcscaDisk && a.Dir != "" }

// OutRoot is the directory the CLI's endorse command writes under.
func (a *Assembly) OutRoot() string {
	p := filepath.Join(a.Dir, "out")
	os.MkdirAll(p, 0o755)
	return p
}

// CLI runs one command of the signing command line (the composition testing/nonprod ships: localkm + localca +
// localnonvcs) in-process over the assembly's directories: a fresh cobra tree and fresh components per command,
// exactly like one process invocation. args start with the sub-command (bootstrap | rotate | wipeout | endorse).
func (a *Assembly) CLI(args ...string) error {
	app := &cmd.AppComponents{
		Endorse:         &localnonvcs.T{},
		Bootstrap:       &cmd.PartialComponent{},
		Global:          cmd.Compose(&localkm.T{T: memkm.T{Signer: &nonprod.Signer{Rand: crand.Reader}}}, &localca.T{}),
		SignatureRandom: crand.Reader,
		Storage:         &local.StorageClient{},
	}
	root := cmd.MakeApp(context.Background(), app)
	full := append([]string{}, args...)
	full = append(full, "--key_dir", a.keyDir(), "--bucket_root", a.caDir(), "--bucket", Bucket, "--root_path", RootPath, "--cert_dir", CertDir, "--quiet")
	root.SetArgs(full)
	root.SetOut(io.Discard)
	root.SetErr(io.Discard)
	root.SilenceErrors = true
	root.SilenceUsage = true
	a.DropLongLived()
	return root.Execute()
}
