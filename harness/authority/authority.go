// Package authority assembles the repository's key managers and certificate authorities behind
// recording / fault-injecting doubles, runs bootstrap / rotate / wipeout / endorse at library level,
// snapshots and restores their state, and holds the shared health oracle used by C03, C10, C11, C12, C15.
package authority

import (
	"context"
	"crypto"
	crand "crypto/rand"
	"crypto/rsa"
	"crypto/sha256"
	"crypto/x509"
	"encoding/pem"
	"fmt"
	"io"
	"math/big"
	"os"
	"path/filepath"
	"time"

	"github.com/google/gce-tcb-verifier/cmd/output"
	"github.com/google/gce-tcb-verifier/endorse"
	"github.com/google/gce-tcb-verifier/keys"
	epb "github.com/google/gce-tcb-verifier/proto/endorsement"
	"github.com/google/gce-tcb-verifier/rotate"
	"github.com/google/gce-tcb-verifier/sign/gcsca"
	"github.com/google/gce-tcb-verifier/sign/memca"
	"github.com/google/gce-tcb-verifier/sign/nonprod"
	sops "github.com/google/gce-tcb-verifier/sign/ops"
	styp "github.com/google/gce-tcb-verifier/sign/types"
	"github.com/google/gce-tcb-verifier/storage/local"
	"github.com/google/gce-tcb-verifier/storage/storagei"
	"github.com/google/gce-tcb-verifier/testing/nonprod/localkm"
	"github.com/google/gce-tcb-verifier/testing/nonprod/memkm"

	"google.golang.org/protobuf/proto"

	"verifharness/doubles"
)

// Kinds of key managers and certificate authorities shipped in the repository.
const (
	MemKM     = "memkm"
	LocalKM   = "localkm"
	MemCA     = "memca"
	GcscaMem  = "gcsca-mem"  // gcsca over an in-memory object store
	GcscaDisk = "gcsca-disk" // gcsca over storage/local (what localca uses)
	Bucket    = "b"
	RootPath  = "root.crt"
	CertDir   = "certs"
)

// Assembly is one combination of key manager and certificate authority with its persistent state.
type Assembly struct {
	KM, CA string
	Dir    string // scratch directory for disk-backed parts ("" when none)

	MemSigner *nonprod.Signer             // memkm: the in-memory key set (persists across commands)
	MemCAObj  *memca.CertificateAuthority // memca: the in-memory authority (persists across commands)
	MemStore  *doubles.MemStore           // gcsca-mem

	// LongLived models a long-running process that keeps ONE gcsca authority value (and its manifest
	// cache) across commands instead of reloading it per command like the CLI does.
	LongLived bool
	llCA      *gcsca.CertificateAuthority
	llStore   *doubles.FStore
	// LongLivedKM keeps ONE localkm manager value (and its in-memory view of the key directory) across commands
	// while other commands may run in fresh processes on the same directory.
	LongLivedKM bool
	llSigner    *nonprod.Signer
	llManager   keys.ManagerInterface

	// per-command state (set by Context)
	F      *doubles.FCtl
	signer *nonprod.Signer
}

// Name is the assembly's display name.
func (a *Assembly) Name() string { return a.KM + "+" + a.CA }

// New creates an empty assembly. dir is used only by disk-backed parts.
func New(km, ca, dir string) *Assembly {
	a := &Assembly{KM: km, CA: ca, Dir: dir}
	if km == MemKM {
		a.MemSigner = &nonprod.Signer{Rand: crand.Reader}
	}
	switch ca {
	case MemCA:
		a.MemCAObj = memca.Create()
	case GcscaMem:
		a.MemStore = doubles.NewMemStore()
	}
	if dir != "" {
		os.MkdirAll(a.keyDir(), 0o755)
		os.MkdirAll(filepath.Join(a.caDir(), Bucket, CertDir), 0o755)
	}
	return a
}

func (a *Assembly) keyDir() string { return filepath.Join(a.Dir, "keys") }
func (a *Assembly) caDir() string  { return filepath.Join(a.Dir, "ca") }

// Pairs lists the assemblies of a tier.
func Pairs() [][2]string {
	return [][2]string{{MemKM, MemCA}, {MemKM, GcscaMem}, {LocalKM, GcscaDisk}, {LocalKM, MemCA}, {MemKM, GcscaDisk}, {LocalKM, GcscaMem}}
}

func (a *Assembly) rawStore() storagei.Client {
	switch a.CA {
	case GcscaMem:
		return a.MemStore
	case GcscaDisk:
		return &local.StorageClient{Root: a.caDir()}
	}
	return nil
}

// freshSigner models what a new process sees: memkm keeps its keys, localkm reloads them from disk.
func (a *Assembly) freshSigner() (*nonprod.Signer, keys.ManagerInterface, error) {
	if a.KM == MemKM {
		return a.MemSigner, &memkm.T{Signer: a.MemSigner}, nil
	}
	s := &nonprod.Signer{Rand: crand.Reader}
	t := &localkm.T{T: memkm.T{Signer: s}, KeyDir: a.keyDir()}
	if err := t.Init(context.Background()); err != nil {
		return nil, nil, err
	}
	return s, t, nil
}

// commandSigner is what a command uses: the retained manager value when LongLivedKM is set, else a fresh load.
func (a *Assembly) commandSigner() (*nonprod.Signer, keys.ManagerInterface, error) {
	if a.KM == LocalKM && a.LongLivedKM {
		if a.llManager == nil {
			s, m, err := a.freshSigner()
			if err != nil {
				return nil, nil, err
			}
			a.llSigner, a.llManager = s, m
		}
		return a.llSigner, a.llManager, nil
	}
	return a.freshSigner()
}

// DropLongLivedKM forgets the retained key manager value (that process ended).
func (a *Assembly) DropLongLivedKM() { a.llSigner, a.llManager = nil, nil }

// FreshCA returns an unwrapped authority as a new process would load it.
func (a *Assembly) FreshCA() styp.CertificateAuthority {
	if a.CA == MemCA {
		return a.MemCAObj
	}
	return &gcsca.CertificateAuthority{Storage: a.rawStore(), PrivateBucket: Bucket, RootPath: RootPath, SigningCertDirInGCS: CertDir}
}

// DropLongLived forgets the long-lived authority value (the process restarted, or a careful caller
// discarded / flushed it after an error).
func (a *Assembly) DropLongLived() { a.llCA, a.llStore = nil, nil }

// Opts are the global flags of one command.
type Opts struct {
	Overwrite bool
	KeepGoing bool
	Out       io.Writer
	Random    io.Reader // randomness handed to the command (default crypto/rand)
}

// Context builds the keys/output context of one command with every component wrapped by f.
func (a *Assembly) Context(f *doubles.FCtl, o Opts) (context.Context, error) {
	a.F = f
	s, mgr, err := a.commandSigner()
	if err != nil {
		return nil, err
	}
	a.signer = s
	var ca styp.CertificateAuthority
	switch {
	case a.CA == MemCA:
		ca = a.MemCAObj
	case a.LongLived:
		if a.llCA == nil {
			a.llStore = &doubles.FStore{Inner: a.rawStore(), F: f}
			a.llCA = &gcsca.CertificateAuthority{Storage: a.llStore, PrivateBucket: Bucket, RootPath: RootPath, SigningCertDirInGCS: CertDir}
		}
		a.llStore.F = f
		ca = a.llCA
	default:
		ca = &gcsca.CertificateAuthority{Storage: &doubles.FStore{Inner: a.rawStore(), F: f}, PrivateBucket: Bucket, RootPath: RootPath, SigningCertDirInGCS: CertDir}
	}
	var rnd io.Reader = crand.Reader
	if o.Random != nil {
		rnd = o.Random
	}
	kc := &keys.Context{CA: &doubles.FCA{Inner: ca, F: f}, Manager: &doubles.FManager{Inner: mgr, F: f}, Signer: &doubles.FSigner{Inner: s, F: f}, Random: rnd}
	oo := &output.Options{Quiet: o.Out == nil, Overwrite: o.Overwrite, KeepGoing: o.KeepGoing, Out: o.Out}
	return output.NewContext(keys.NewContext(context.Background(), kc), oo), nil
}

// Bootstrap runs rotate.Bootstrap.
func (a *Assembly) Bootstrap(f *doubles.FCtl, o Opts, bc *rotate.BootstrapContext) error {
	ctx, err := a.Context(f, o)
	if err != nil {
		return err
	}
	return rotate.Bootstrap(rotate.NewBootstrapContext(ctx, bc))
}

// Rotate runs rotate.Key the way the CLI does (serial 0 or nil = predecessor's subject serial + 1).
func (a *Assembly) Rotate(f *doubles.FCtl, o Opts, skc *rotate.SigningKeyContext) (string, error) {
	ctx, err := a.Context(f, o)
	if err != nil {
		return "", err
	}
	c := *skc
	ctx = rotate.NewSigningKeyContext(ctx, &c)
	if c.SigningKeySerial == nil || c.SigningKeySerial.Sign() == 0 {
		c.SigningKeySerial, err = sops.NextSigningKeySerial(ctx)
		if err != nil {
			return "", err
		}
	}
	return rotate.Key(ctx)
}

// Wipeout runs rotate.Wipeout.
func (a *Assembly) Wipeout(f *doubles.FCtl, o Opts, ca, ks bool) error {
	ctx, err := a.Context(f, o)
	if err != nil {
		return err
	}
	return rotate.Wipeout(rotate.NewWipeoutContext(ctx, &rotate.WipeoutContext{CA: ca, Keys: ks}))
}

// Endorse runs endorse.VirtualFirmware with ec.
func (a *Assembly) Endorse(f *doubles.FCtl, o Opts, ec *endorse.Context) error {
	ctx, err := a.Context(f, o)
	if err != nil {
		return err
	}
	return endorse.VirtualFirmware(endorse.NewContext(ctx, ec))
}

// ---- snapshots ----

// Snap is a deep copy of an assembly's persistent state.
type Snap struct {
	keys  map[string]*rsa.PrivateKey
	certs map[string]*x509.Certificate
	root  string
	prim  string
	store *doubles.MemStore
	files map[string][]byte // relative path -> content (disk parts)
}

func readTree(root string) map[string][]byte {
	out := map[string][]byte{}
	filepath.Walk(root, func(p string, info os.FileInfo, err error) error {
		if err != nil || info.IsDir() {
			return nil
		}
		rel, _ := filepath.Rel(root, p)
		b, _ := os.ReadFile(p)
		out[rel] = b
		return nil
	})
	return out
}

// Snapshot copies the state.
func (a *Assembly) Snapshot() *Snap {
	s := &Snap{}
	if a.MemSigner != nil {
		s.keys = map[string]*rsa.PrivateKey{}
		for k, v := range a.MemSigner.Keys {
			s.keys[k] = v
		}
	}
	if a.MemCAObj != nil {
		s.certs = map[string]*x509.Certificate{}
		for k, v := range a.MemCAObj.Certs {
			s.certs[k] = v
		}
		s.root, s.prim = a.MemCAObj.RootName, a.MemCAObj.PrimarySigningKey
	}
	if a.MemStore != nil {
		s.store = a.MemStore.Clone()
	}
	if a.Dir != "" {
		s.files = readTree(a.Dir)
	}
	return s
}

// Restore puts a snapshot back (the snapshot stays reusable).
func (a *Assembly) Restore(s *Snap) {
	a.DropLongLived()
	a.DropLongLivedKM()
	if a.MemSigner != nil {
		a.MemSigner.Keys = map[string]*rsa.PrivateKey{}
		for k, v := range s.keys {
			a.MemSigner.Keys[k] = v
		}
	}
	if a.MemCAObj != nil {
		a.MemCAObj.Certs = map[string]*x509.Certificate{}
		for k, v := range s.certs {
			a.MemCAObj.Certs[k] = v
		}
		a.MemCAObj.RootName, a.MemCAObj.PrimarySigningKey = s.root, s.prim
	}
	if a.MemStore != nil {
		a.MemStore.Objs = s.store.Clone().Objs
	}
	if a.Dir != "" {
		os.RemoveAll(a.keyDir())
		os.RemoveAll(a.caDir())
		os.MkdirAll(a.keyDir(), 0o755)
		os.MkdirAll(filepath.Join(a.caDir(), Bucket, CertDir), 0o755)
		for rel, b := range s.files {
			p := filepath.Join(a.Dir, rel)
			os.MkdirAll(filepath.Dir(p), 0o755)
			os.WriteFile(p, b, 0o644)
		}
	}
}

// ---- observation ----

// State is what a fresh process would observe of the authority.
type State struct {
	Root, Primary string
	RootCert      *x509.Certificate
	PrimaryCert   *x509.Certificate
	Signer        *nonprod.Signer
	CA            styp.CertificateAuthority
	Err           string // first observation problem, "" if none
}

// Observe reloads the authority the way a new process would.
func (a *Assembly) Observe() *State {
	st := &State{}
	ctx := context.Background()
	s, _, err := a.freshSigner()
	if err != nil {
		st.Err = "key manager cannot load its keys: " + err.Error()
		return st
	}
	st.Signer = s
	ca := a.FreshCA()
	st.CA = ca
	if st.Root, err = ca.PrimaryRootKeyVersion(ctx); err != nil {
		st.Err = "manifest unreadable: " + err.Error()
		return st
	}
	if st.Primary, err = ca.PrimarySigningKeyVersion(ctx); err != nil {
		st.Err = "manifest unreadable: " + err.Error()
		return st
	}
	if st.Primary != "" {
		if der, err := ca.Certificate(ctx, st.Primary); err == nil {
			st.PrimaryCert, _ = x509.ParseCertificate(der)
		}
		if b, err := ca.CABundle(ctx, st.Primary); err == nil {
			if blk, _ := pem.Decode(b); blk != nil {
				st.RootCert, _ = x509.ParseCertificate(blk.Bytes)
			}
		}
	}
	return st
}

// Health returns "" when the recorded primary signing key is live, certified under the stored root
// and able to produce a verifying PSS signature.
func (a *Assembly) Health() string {
	st := a.Observe()
	if st.Err != "" {
		return st.Err
	}
	if st.Primary == "" {
		return "no primary signing key recorded"
	}
	key, ok := st.Signer.Keys[st.Primary]
	if !ok {
		return fmt.Sprintf("recorded primary %q is not a live key of the key manager", st.Primary)
	}
	if st.PrimaryCert == nil {
		return fmt.Sprintf("recorded primary %q has no stored, parseable certificate", st.Primary)
	}
	pk, ok := st.PrimaryCert.PublicKey.(*rsa.PublicKey)
	if !ok || pk.N.Cmp(key.N) != 0 {
		return fmt.Sprintf("certificate of recorded primary %q is for another key", st.Primary)
	}
	if st.RootCert == nil {
		return "no stored, parseable root certificate"
	}
	if err := st.RootCert.CheckSignature(st.PrimaryCert.SignatureAlgorithm, st.PrimaryCert.RawTBSCertificate, st.PrimaryCert.Signature); err != nil {
		return fmt.Sprintf("certificate of recorded primary %q does not verify under the stored root", st.Primary)
	}
	d := sha256.Sum256([]byte("health probe"))
	sig, err := st.Signer.Sign(context.Background(), st.Primary, styp.Digest{SHA256: d[:]}, &rsa.PSSOptions{SaltLength: rsa.PSSSaltLengthEqualsHash, Hash: crypto.SHA256})
	if err != nil {
		return "primary cannot sign: " + err.Error()
	}
	if err := rsa.VerifyPSS(pk, crypto.SHA256, d[:], sig, nil); err != nil {
		return "signature of primary does not verify under its certificate"
	}
	return ""
}

// SignProbe signs a minimal document through the same wiring an endorse run uses (endorse.SignDoc) with the
// authority value of this process (the long-lived one when LongLived is set) and checks the signature under the
// embedded certificate. It returns "" when endorsing works.
func (a *Assembly) SignProbe(now time.Time) string {
	ctx, err := a.Context(&doubles.FCtl{}, Opts{})
	if err != nil {
		return "context: " + err.Error()
	}
	e, err := endorse.SignDoc(endorse.NewContext(ctx, &endorse.Context{Timestamp: now}), &epb.VMGoldenMeasurement{Digest: make([]byte, 48), ClSpec: 1})
	if err != nil {
		return "endorse.SignDoc: " + err.Error()
	}
	g := &epb.VMGoldenMeasurement{}
	if err := proto.Unmarshal(e.SerializedUefiGolden, g); err != nil {
		return "payload: " + err.Error()
	}
	cert, err := x509.ParseCertificate(g.Cert)
	if err != nil {
		return "embedded certificate: " + err.Error()
	}
	d := sha256.Sum256(e.SerializedUefiGolden)
	if err := rsa.VerifyPSS(cert.PublicKey.(*rsa.PublicKey), crypto.SHA256, d[:], e.Signature, nil); err != nil {
		return "signature does not verify under the embedded certificate"
	}
	return ""
}

// DefaultBootstrap is a convenient bootstrap context.
func DefaultBootstrap(now time.Time) *rotate.BootstrapContext {
	return &rotate.BootstrapContext{RootKeyCommonName: "rootCn", SigningKeyCommonName: "signingKeyCn", RootKeySerial: big.NewInt(1), SigningKeySerial: big.NewInt(2), Now: now}
}
