// Package endreq generates endorsement requests (endorse.Context values) for the pipeline workloads.
package endreq

import (
	"fmt"
	"math/rand/v2"
	"time"

	"github.com/google/gce-tcb-verifier/endorse"
	"github.com/google/gce-tcb-verifier/sev"
	"github.com/google/gce-tcb-verifier/tdx"
	spb "github.com/google/go-sev-guest/proto/sevsnp"
	"github.com/google/uuid"

	"verifharness/gen/fw"
)

// Shapes are the machine shapes the repository knows.
var Shapes = []string{"c3-standard-4", "c3-standard-8", "c3-standard-22", "c3-standard-44", "c3-standard-88", "c3-standard-176"}

// GCECounts is an own copy of the VMSA counts sold on GCE (sev.AllSupportedVmsaCounts is the repository's).
var GCECounts = []uint32{1, 2, 4, 8, 16, 24, 32, 48, 64, 80, 96, 112, 128, 224, 240}

// Opts steer the generator.
type Opts struct {
	MaxImage   int  // largest image size
	AllowNoTDX bool // allow SNP-only / TDX-only requests (at least one technology is always set)
	CheapTDX   bool // keep shape lists short (legacy TDX mode hashes every region: expensive)
}

func rbytes(r *rand.Rand, n int) []byte {
	b := make([]byte, n)
	for i := range b {
		b[i] = byte(r.IntN(256))
	}
	return b
}

// ReleaseChange is the date after which the verifier demands provenance.
var ReleaseChange = time.Date(2024, time.August, 2, 0, 0, 0, 0, time.UTC)

// Random returns a request that always carries provenance (a changelist number or a commit).
func Random(r *rand.Rand, o Opts, seq int) *endorse.Context {
	ec := &endorse.Context{Image: fw.Image(r, o.MaxImage), ImageName: fmt.Sprintf("fw%d.fd", seq), CandidateName: fmt.Sprintf("cand-%d", seq), CommitRetries: 2}
	tech := r.IntN(4) // 0,1: both; 2: snp only; 3: tdx only
	if !o.AllowNoTDX {
		tech = 0
	}
	if tech != 3 {
		req := &sev.SnpEndorsementRequest{Product: spb.SevProduct_SEV_PRODUCT_MILAN}
		if r.IntN(2) == 0 {
			req.Product = spb.SevProduct_SEV_PRODUCT_GENOA
		}
		if r.IntN(2) == 0 {
			req.LaunchVmsas = GCECounts[r.IntN(len(GCECounts))]
		} else if r.IntN(6) == 0 {
			req.LaunchVmsas = uint32(3 + r.IntN(20)) // a count GCE does not sell
		}
		if r.IntN(3) == 0 {
			req.Svn = uint32(r.IntN(50))
		}
		if r.IntN(3) == 0 {
			req.FamilyID = uuid.Must(uuid.FromBytes(rbytes(r, 16))).String()
		}
		if r.IntN(3) == 0 {
			req.ImageID = uuid.Must(uuid.FromBytes(rbytes(r, 16))).String()
		}
		ec.SevSnp = req
		if r.IntN(4) == 0 {
			ec.SvsmSnpMeasurement = rbytes(r, 48)
		}
	}
	if tech != 2 {
		req := &tdx.EndorsementRequest{}
		n := r.IntN(4)
		if o.CheapTDX && n > 2 {
			n = 2
		}
		perm := r.Perm(len(Shapes))
		for i := 0; i < n; i++ {
			req.MachineShapes = append(req.MachineShapes, Shapes[perm[i]])
		}
		req.IncludeEarlyAccept = r.IntN(2) == 0
		if r.IntN(3) == 0 {
			req.Svn = uint32(r.IntN(50))
		}
		ec.Tdx = req
	}
	switch r.IntN(3) {
	case 0:
		ec.ClSpec = 1 + uint64(r.IntN(1<<30))
	case 1:
		ec.Commit = rbytes(r, 20)
	default:
		ec.ClSpec = 1 + uint64(r.IntN(1<<30))
		ec.Commit = rbytes(r, 20)
	}
	// timestamps on both sides of the provenance date
	ec.Timestamp = ReleaseChange.Add(time.Duration(r.IntN(400)-200) * 24 * time.Hour).Add(time.Duration(r.IntN(1e9)))
	return ec
}
