// Package gen holds seeded generators shared by the property workloads.
package gen

import (
	"crypto"
	crand "crypto/rand"
	"crypto/rsa"
	"crypto/sha256"
	"crypto/x509"
	"crypto/x509/pkix"
	"math/big"
	"time"

	epb "github.com/google/gce-tcb-verifier/proto/endorsement"
	"google.golang.org/protobuf/proto"
)

// Identity is a key with a certificate.
type Identity struct {
	Key  *rsa.PrivateKey
	Cert *x509.Certificate
}

// PKI is a world of keys and certificates minted directly with crypto/x509
// (never with the repository's code).
type PKI struct {
	NotBefore    time.Time
	Root         *Identity // genuine root R
	Signer       *Identity // genuine signer S1 issued by R
	Signer2      *Identity // genuine signer S2 issued by R
	Attacker     *Identity // attacker root A (self-signed CA)
	AttackerSign *Identity // signer issued by A
	Inter        *Identity // intermediate CA issued by R
	InterLeaf    *Identity // leaf issued by Inter
	SelfLeaf     *Identity // self-signed non-CA leaf
	RootOtherKey *Identity // certificate issued by R for AttackerSign's subject name but for a different key (Key is that key)
	ExpiredRoot  *Identity // root whose validity ended before NotBefore+1y, with a leaf valid longer
	ExpiredLeaf  *Identity
	SignerPKCS1  *Identity // leaf issued by R with SHA256-RSA (PKCS#1 v1.5) as the certificate's signature algorithm
	SignerPSS384 *Identity // leaf issued by R with SHA384-RSAPSS as the certificate's signature algorithm
}

// CertSpec parameterises certificate creation.
type CertSpec struct {
	CN        string
	Serial    int64
	NotBefore time.Time
	NotAfter  time.Time
	IsCA      bool
	KeyUsage  x509.KeyUsage
	SigAlg    x509.SignatureAlgorithm
}

// NewKey generates a 2048-bit RSA key.
func NewKey() *rsa.PrivateKey {
	k, err := rsa.GenerateKey(crand.Reader, 2048)
	if err != nil {
		panic(err)
	}
	return k
}

// Mint creates a certificate for pub signed by issuer (nil issuer = self-signed with key).
func Mint(spec CertSpec, key *rsa.PrivateKey, issuer *Identity) *Identity {
	if spec.SigAlg == 0 {
		spec.SigAlg = x509.SHA256WithRSAPSS
	}
	t := &x509.Certificate{SerialNumber: big.NewInt(spec.Serial), Subject: pkix.Name{CommonName: spec.CN},
		NotBefore: spec.NotBefore, NotAfter: spec.NotAfter, IsCA: spec.IsCA, BasicConstraintsValid: true,
		KeyUsage: spec.KeyUsage, SignatureAlgorithm: spec.SigAlg}
	parent := t
	signKey := key
	if issuer != nil {
		parent = issuer.Cert
		signKey = issuer.Key
	}
	der, err := x509.CreateCertificate(crand.Reader, t, parent, &key.PublicKey, signKey)
	if err != nil {
		panic(err)
	}
	c, err := x509.ParseCertificate(der)
	if err != nil {
		panic(err)
	}
	return &Identity{Key: key, Cert: c}
}

// NewPKI mints the world. nb is the common notBefore.
func NewPKI(nb time.Time) *PKI {
	p := &PKI{NotBefore: nb}
	ca := x509.KeyUsageCertSign
	ds := x509.KeyUsageDigitalSignature
	p.Root = Mint(CertSpec{CN: "genuine root", Serial: 1, NotBefore: nb, NotAfter: nb.AddDate(25, 0, 0), IsCA: true, KeyUsage: ca}, NewKey(), nil)
	p.Signer = Mint(CertSpec{CN: "genuine signer 1", Serial: 2, NotBefore: nb, NotAfter: nb.AddDate(5, 0, 1), KeyUsage: ds}, NewKey(), p.Root)
	p.Signer2 = Mint(CertSpec{CN: "genuine signer 2", Serial: 3, NotBefore: nb, NotAfter: nb.AddDate(5, 0, 1), KeyUsage: ds}, NewKey(), p.Root)
	p.Attacker = Mint(CertSpec{CN: "attacker root", Serial: 1, NotBefore: nb, NotAfter: nb.AddDate(25, 0, 0), IsCA: true, KeyUsage: ca}, NewKey(), nil)
	p.AttackerSign = Mint(CertSpec{CN: "genuine signer 1", Serial: 2, NotBefore: nb, NotAfter: nb.AddDate(5, 0, 1), KeyUsage: ds}, NewKey(), p.Attacker)
	p.Inter = Mint(CertSpec{CN: "intermediate", Serial: 10, NotBefore: nb, NotAfter: nb.AddDate(10, 0, 0), IsCA: true, KeyUsage: ca}, NewKey(), p.Root)
	p.InterLeaf = Mint(CertSpec{CN: "leaf of intermediate", Serial: 11, NotBefore: nb, NotAfter: nb.AddDate(5, 0, 1), KeyUsage: ds}, NewKey(), p.Inter)
	p.SelfLeaf = Mint(CertSpec{CN: "self-signed leaf", Serial: 12, NotBefore: nb, NotAfter: nb.AddDate(5, 0, 1), KeyUsage: ds}, NewKey(), nil)
	other := Mint(CertSpec{CN: "genuine signer 1", Serial: 2, NotBefore: nb, NotAfter: nb.AddDate(5, 0, 1), KeyUsage: ds}, NewKey(), p.Root)
	p.RootOtherKey = &Identity{Key: p.AttackerSign.Key, Cert: other.Cert} // cert does not match the key that signs
	p.ExpiredRoot = Mint(CertSpec{CN: "short root", Serial: 1, NotBefore: nb, NotAfter: nb.AddDate(0, 6, 0), IsCA: true, KeyUsage: ca}, NewKey(), nil)
	p.ExpiredLeaf = Mint(CertSpec{CN: "leaf of short root", Serial: 2, NotBefore: nb, NotAfter: nb.AddDate(5, 0, 1), KeyUsage: ds}, NewKey(), p.ExpiredRoot)
	p.SignerPKCS1 = Mint(CertSpec{CN: "signer pkcs1 cert", Serial: 20, NotBefore: nb, NotAfter: nb.AddDate(5, 0, 1), KeyUsage: ds, SigAlg: x509.SHA256WithRSA}, NewKey(), p.Root)
	p.SignerPSS384 = Mint(CertSpec{CN: "signer pss384 cert", Serial: 21, NotBefore: nb, NotAfter: nb.AddDate(5, 0, 1), KeyUsage: ds, SigAlg: x509.SHA384WithRSAPSS}, NewKey(), p.Root)
	return p
}

// Pool builds a cert pool.
func Pool(ids ...*Identity) *x509.CertPool {
	p := x509.NewCertPool()
	for _, i := range ids {
		p.AddCert(i.Cert)
	}
	return p
}

// SignPSS signs payload with PSS-SHA256 and the given salt length.
func SignPSS(key *rsa.PrivateKey, payload []byte, salt int) []byte {
	d := sha256.Sum256(payload)
	sig, err := rsa.SignPSS(crand.Reader, key, crypto.SHA256, d[:], &rsa.PSSOptions{SaltLength: salt})
	if err != nil {
		panic(err)
	}
	return sig
}

// Endorse marshals golden with id's certificate embedded and signs it (PSS, salt = hash length).
func Endorse(id *Identity, golden *epb.VMGoldenMeasurement) *epb.VMLaunchEndorsement {
	g := proto.Clone(golden).(*epb.VMGoldenMeasurement)
	g.Cert = id.Cert.Raw
	b, err := proto.MarshalOptions{Deterministic: true}.Marshal(g)
	if err != nil {
		panic(err)
	}
	return &epb.VMLaunchEndorsement{SerializedUefiGolden: b, Signature: SignPSS(id.Key, b, rsa.PSSSaltLengthEqualsHash)}
}
