// Package fw generates well-formed OVMF-like firmware images for the pipeline workloads (C03, C06,
// C13, C15). It uses the repository's testing/fakeovmf layout writers, so it is a workload generator
// only: no oracle about measurement values may be derived from it (C04/C05 own those with their own builders).
package fw

import (
	"math/rand/v2"

	"github.com/google/gce-tcb-verifier/ovmf/abi"
	"github.com/google/gce-tcb-verifier/testing/fakeovmf"
)

// Spec describes a generated image.
type Spec struct {
	Size      int
	ResetAddr uint32
	Sections  []abi.SevMetadataSection
	Tdx       *abi.TDXMetadata
}

// Sizes are the image sizes used (all multiples of 64 KiB so that the TDX layout below is page aligned).
var Sizes = []int{64 << 10, 128 << 10, 256 << 10, 1 << 20, 2 << 20}

// Build lays the image out; filler bytes come from r.
func Build(r *rand.Rand, s *Spec) ([]byte, error) {
	fwb := make([]byte, s.Size)
	// filler content away from the metadata areas (first 4 KiB hold SEV + TDX metadata, last 4 KiB the GUID table)
	for i := 0x1000; i < s.Size-0x1000; i += 1 + r.IntN(97) {
		fwb[i] = byte(r.IntN(256))
	}
	fns := append(fakeovmf.InitializeSevGUIDTableFns(fwb, s.ResetAddr, s.Sections), fakeovmf.InitializeTdxGUIDTableFns(fwb, 0x100, s.Tdx)...)
	err := fakeovmf.InitializeGUIDTable(fwb, abi.FwGUIDTableEndOffset,
		[]uint16{abi.SizeofSevEsResetBlock, abi.SizeofMetadataOffset, abi.SizeofMetadataOffset}, fns)
	return fwb, err
}

// Random returns a random well-formed spec: valid for both SEV-SNP and TDX.
func Random(r *rand.Rand, maxSize int) *Spec {
	var sizes []int
	for _, s := range Sizes {
		if s <= maxSize {
			sizes = append(sizes, s)
		}
	}
	size := sizes[r.IntN(len(sizes))]
	s := &Spec{Size: size, ResetAddr: 0xff000000 | uint32(r.IntN(1<<16))}
	// SNP: unmeasured, CPUID, secrets (mandatory) plus optional extra unmeasured / zero pages, any order
	page := uint32(0xff001000)
	next := func(n uint32) uint32 { a := page; page += n * 0x1000; return a }
	secs := []abi.SevMetadataSection{
		{Address: next(1 + uint32(r.IntN(2))), Kind: abi.SevUnmeasuredSection},
		{Address: next(1), Kind: abi.SevCpuidSection},
		{Address: next(1), Kind: abi.SevSecretSection},
	}
	secs[0].Length = secs[1].Address - secs[0].Address
	secs[1].Length, secs[2].Length = 0x1000, 0x1000
	for i := r.IntN(3); i > 0; i-- {
		n := 1 + uint32(r.IntN(2))
		secs = append(secs, abi.SevMetadataSection{Address: next(n), Length: n * 0x1000, Kind: abi.SevUnmeasuredSection})
	}
	r.Shuffle(len(secs), func(i, j int) { secs[i], secs[j] = secs[j], secs[i] })
	s.Sections = secs
	// TDX: CFV + BFV covering the image, TD-HOB and temp memory below
	cfv := uint64(size / 16)
	base := uint64(1<<32) - uint64(size)
	tsecs := []*abi.TDXMetadataSection{
		{DataOffset: uint32(cfv), DataSize: uint32(uint64(size) - cfv), MemoryBase: abi.EFIPhysicalAddress(base + cfv), MemorySize: uint64(size) - cfv, SectionType: abi.TDXMetadataSectionTypeBFV, Attributes: 1},
		{DataOffset: 0, DataSize: uint32(cfv), MemoryBase: abi.EFIPhysicalAddress(base), MemorySize: cfv, SectionType: abi.TDXMetadataSectionTypeCFV},
		{MemoryBase: 0x810000, MemorySize: 0x10000, SectionType: abi.TDXMetadataSectionTypeTempMem},
		{MemoryBase: 0x809000, MemorySize: 0x2000, SectionType: abi.TDXMetadataSectionTypeTDHOB},
		{MemoryBase: 0x800000, MemorySize: 0x6000, SectionType: abi.TDXMetadataSectionTypeTempMem},
	}
	if r.IntN(2) == 0 {
		tsecs = append(tsecs, &abi.TDXMetadataSection{MemoryBase: 0x80b000, MemorySize: 0x2000, SectionType: abi.TDXMetadataSectionTypeTempMem})
	}
	// empty temporary-memory sections (legal: they occupy nothing) and any order of the sections
	for k := r.IntN(3); k > 0 && r.IntN(2) == 0; k-- {
		tsecs = append(tsecs, &abi.TDXMetadataSection{MemoryBase: abi.EFIPhysicalAddress(0x820000 + 0x1000*uint64(r.IntN(16))), MemorySize: 0, SectionType: abi.TDXMetadataSectionTypeTempMem})
	}
	if r.IntN(2) == 0 {
		r.Shuffle(len(tsecs), func(i, j int) { tsecs[i], tsecs[j] = tsecs[j], tsecs[i] })
	}
	s.Tdx = &abi.TDXMetadata{Header: &abi.TDXMetadataDescriptor{Signature: abi.TDXMetadataDescriptorMagic, Length: uint32(16 + 32*len(tsecs)),
		Version: abi.TDXMetadataVersion, SectionCount: uint32(len(tsecs))}, Sections: tsecs}
	return s
}

// Image builds a random well-formed image.
func Image(r *rand.Rand, maxSize int) []byte {
	b, err := Build(r, Random(r, maxSize))
	if err != nil {
		panic(err)
	}
	return b
}
