package gen

import (
	"encoding/binary"
	"time"

	sgabi "github.com/google/go-sev-guest/abi"
	spb "github.com/google/go-sev-guest/proto/sevsnp"
	sgtest "github.com/google/go-sev-guest/testing"
	"github.com/google/go-tdx-guest/testing/testdata"
)

// ProdPolicy is the guest policy the GCE endorsements carry (SMT | MigrateMA).
func ProdPolicy() uint64 {
	return sgabi.SnpPolicyToBytes(sgabi.SnpPolicy{SMT: true, MigrateMA: true})
}

// SnpAttestation builds a synthetic SEV-SNP attestation that go-sev-guest's
// validate.SnpAttestation accepts structurally, carrying the given measurement.
// vcek is the DER of a VCEK certificate (see Vcek).
func SnpAttestation(measurement []byte, vcek []byte) *spb.Attestation {
	rep := &spb.Report{Signature: make([]byte, sgabi.SignatureSize), Version: 2, ReportData: make([]byte, 64),
		FamilyId: make([]byte, 16), ImageId: make([]byte, 16), Measurement: append([]byte(nil), measurement...),
		IdKeyDigest: make([]byte, 48), AuthorKeyDigest: make([]byte, 48), HostData: make([]byte, 32),
		ReportId: make([]byte, 32), ReportIdMa: make([]byte, 32), ChipId: make([]byte, 64), Policy: ProdPolicy()}
	return &spb.Attestation{Report: rep, CertificateChain: &spb.CertificateChain{VcekCert: vcek}}
}

// Vcek returns a test VCEK certificate DER valid at now.
func Vcek(now time.Time) []byte {
	s, err := sgtest.DefaultTestOnlyCertChain("Milan", now)
	if err != nil {
		panic(err)
	}
	return s.Vcek.Raw
}

// MrtdOffset is the byte offset of MRTD inside a raw TDX v4 quote.
const MrtdOffset = 184

// TdxQuote returns go-tdx-guest's sample raw quote with the MRTD replaced.
func TdxQuote(mrtd []byte) []byte {
	raw := append([]byte(nil), testdata.RawQuote...)
	copy(raw[MrtdOffset:MrtdOffset+48], mrtd)
	return raw
}

// RawSnpQuote builds a raw extended-report style SNP quote: a 0x4A0-byte report (unsigned:
// nothing in this repository verifies the report signature) followed by an AMD certificate
// table with ARK/ASK/VCEK (go-sev-guest test chain) and the given extra entries.
func RawSnpQuote(measurement []byte, extras map[string][]byte, now time.Time) []byte {
	report := make([]byte, 0x4A0)
	binary.LittleEndian.PutUint32(report[0x00:], 2)
	binary.LittleEndian.PutUint64(report[0x08:], ProdPolicy())
	binary.LittleEndian.PutUint32(report[0x34:], 1)
	copy(report[0x90:0x90+48], measurement)
	b := &sgtest.AmdSignerBuilder{Keys: sgtest.DefaultAmdKeys(), ProductName: "Milan", CSPID: "go-sev-guest",
		ArkCreationTime: now, AskCreationTime: now, AsvkCreationTime: now, VcekCreationTime: now, VlekCreationTime: now, Extras: extras}
	s, err := b.TestOnlyCertChain()
	if err != nil {
		panic(err)
	}
	tbl, err := s.CertTableBytes()
	if err != nil {
		panic(err)
	}
	return append(report, tbl...)
}
