// Command c13 is the worker binary of property C13 (one binary per property, so that a
// build problem in one workload cannot take down the other checks).
package main

import (
	"verifharness/core"
	_ "verifharness/props/c13"
)

func main() { core.Main() }
