// Command c10 is the worker binary of property C10 (one binary per property, so that a
// build problem in one workload cannot take down the other checks).
package main

import (
	"verifharness/core"
	_ "verifharness/props/c10"
)

func main() { core.Main() }
