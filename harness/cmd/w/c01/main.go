// Command c01 is the worker binary of property C01 (one binary per property, so that a
// build problem in one workload cannot take down the other checks).
package main

import (
	"verifharness/core"
	_ "verifharness/props/c01"
)

func main() { core.Main() }
