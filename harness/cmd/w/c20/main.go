// Command c20 is the worker binary of property C20 (one binary per property, so that a
// build problem in one workload cannot take down the other checks).
package main

import (
	"verifharness/core"
	_ "verifharness/props/c20"
)

func main() { core.Main() }
