// Command worker runs one property workload shard against the repository code and
// writes a JSONL event log. It never decides exit status by itself beyond "ran to the end".
package main

import (
	"encoding/json"
	"flag"
	"fmt"
	"os"

	"verifharness/core"
	_ "verifharness/props"
)

func main() {
	prop := flag.String("prop", "", "property id")
	seed := flag.Int64("seed", 1, "seed")
	tier := flag.String("tier", "quick", "quick|thorough")
	shard := flag.Int("shard", 0, "shard index")
	nshards := flag.Int("nshards", 1, "number of shards")
	logp := flag.String("log", "", "event log path")
	only := flag.Int("only", -1, "run only this case")
	skipTo := flag.Int("skip-to", 0, "skip cases below this index")
	describe := flag.Bool("describe", false, "print property info as JSON")
	flag.Parse()
	if *describe {
		out := map[string]*core.Info{}
		for _, id := range core.IDs() {
			out[id] = core.Lookup(id)
		}
		b, _ := json.Marshal(out)
		fmt.Println(string(b))
		return
	}
	info := core.Lookup(*prop)
	if info == nil {
		fmt.Fprintln(os.Stderr, "unknown property", *prop)
		os.Exit(2)
	}
	c, err := core.NewCtx(*prop, *seed, *tier, *shard, *nshards, *logp)
	if err != nil {
		fmt.Fprintln(os.Stderr, err)
		os.Exit(2)
	}
	c.Only = *only
	c.SkipTo = *skipTo
	info.Run(c)
	c.Finish()
}
