package c12

// Added workload dimensions (cases appended after the original histories, which keep their numbers and streams):
//
//	kept   one process keeps ONE key-manager value, ONE signer, ONE authority value, ONE keys/output context and
//	       ONE BootstrapContext / SigningKeyContext / WipeoutContext struct for the whole history, edits them between
//	       commands, and the invariants are evaluated through the kept values as well as through a fresh reload
//	pair   two independent authorities are operated in ONE process at the same time: free-running goroutines, or
//	       handed over at every key-manager / signer / authority call ("baton": deterministic fine interleaving)
//	flags  the command line with every form of a flag: left unset (documented default), explicit default,
//	       --f v / --f=v, --b / --b=true / --b=false, explicit zero serial override, all overwrite x keep-going pairs
//	bounds serial numbers next to encoding and word boundaries followed by a default rotation, timestamps on the first
//	       and last instant of the root's validity, common names of length 0 / 1 / 64 / 200 and with DN meta characters,
//	       re-bootstraps that replace stored objects by much shorter / longer ones
//	chain  one epoch with more than ten rotations (key version suffix and manifest grow past one digit / ten entries)
//	subsec command timestamps that carry a fraction of a second (X.509 times have one-second resolution), through the
//	       library and the command line (--timestamp in RFC 3339 with nanoseconds)
//	faults a fault-free prefix, then ONE command run once per component-call position with a single error injected at
//	       that position (the state is restored in between). C12 quantifies over fault-free histories, so a command that
//	       FAILS under its fault is not judged at all; one that REPORTS SUCCESS although a call failed is judged by every rule
//
// Every command of these histories goes through hist.step, i.e. is judged by the rules of the original histories.

import (
	"bytes"
	"context"
	crand "crypto/rand"
	"crypto/x509"
	"encoding/pem"
	"fmt"
	"math/big"
	"math/rand/v2"
	"os"
	"path/filepath"
	"strings"
	"sync"
	"sync/atomic"
	"time"

	"github.com/google/gce-tcb-verifier/cmd/output"
	"github.com/google/gce-tcb-verifier/keys"
	"github.com/google/gce-tcb-verifier/rotate"
	"github.com/google/gce-tcb-verifier/sign/nonprod"
	sops "github.com/google/gce-tcb-verifier/sign/ops"
	styp "github.com/google/gce-tcb-verifier/sign/types"
	"github.com/google/gce-tcb-verifier/testing/nonprod/localkm"
	"github.com/google/gce-tcb-verifier/testing/nonprod/memkm"

	"verifharness/authority"
	"verifharness/core"
	"verifharness/doubles"
)

// ---- a process of the added families: fresh components per command, or kept for the whole history ----

type proc struct {
	a    *authority.Assembly
	kept bool
	f    *doubles.FCtl // non-nil: every component call passes f.Hook first (the baton)

	signer *nonprod.Signer
	mgr    keys.ManagerInterface
	ca     styp.CertificateAuthority
	kc     *keys.Context
	oo     *output.Options
	base   context.Context
	bc     *rotate.BootstrapContext
	skc    *rotate.SigningKeyContext
	wc     *rotate.WipeoutContext
	serial *big.Int // the ONE number the kept process types its serial overrides into (refilled in place)
}

func (p *proc) wrapCA(ca styp.CertificateAuthority) styp.CertificateAuthority {
	if p.f == nil {
		return ca
	}
	return &doubles.FCA{Inner: ca, F: p.f}
}

// load builds the components the way a starting process does.
func (p *proc) load() error {
	a := p.a
	if a.KM == authority.MemKM {
		p.signer, p.mgr = a.MemSigner, &memkm.T{Signer: a.MemSigner}
	} else {
		s := &nonprod.Signer{Rand: crand.Reader}
		t := &localkm.T{T: memkm.T{Signer: s}, KeyDir: filepath.Join(a.Dir, "keys")}
		if err := t.Init(context.Background()); err != nil {
			return err
		}
		p.signer, p.mgr = s, t
	}
	p.ca = a.FreshCA()
	var mgr keys.ManagerInterface = p.mgr
	var signer styp.Signer = p.signer
	if p.f != nil {
		mgr, signer = &doubles.FManager{Inner: p.mgr, F: p.f}, &doubles.FSigner{Inner: p.signer, F: p.f}
	}
	p.kc = &keys.Context{CA: p.wrapCA(p.ca), Manager: mgr, Signer: signer, Random: crand.Reader}
	p.oo = &output.Options{Quiet: true}
	p.base = output.NewContext(keys.NewContext(context.Background(), p.kc), p.oo)
	p.bc, p.skc, p.wc = &rotate.BootstrapContext{}, &rotate.SigningKeyContext{}, &rotate.WipeoutContext{}
	return nil
}

// run executes one command. A kept process edits the structs it already handed to the library before.
func (p *proc) run(cm *command) (err error) {
	if !p.kept || p.kc == nil {
		if err := p.load(); err != nil {
			return err
		}
	}
	p.oo.Overwrite, p.oo.KeepGoing = cm.overwrite, cm.keepGoing
	switch cm.op {
	case opBootstrap:
		b := p.bc
		b.RootKeyCommonName, b.SigningKeyCommonName, b.RootKeySerial, b.SigningKeySerial, b.Now = cm.bc.RootKeyCommonName, cm.bc.SigningKeyCommonName, cm.bc.RootKeySerial, cm.bc.SigningKeySerial, cm.bc.Now
		err = rotate.Bootstrap(rotate.NewBootstrapContext(p.base, b))
	case opRotate:
		s := p.skc
		s.SigningKeyCommonName, s.SigningKeySerial, s.Now = cm.skc.SigningKeyCommonName, cm.skc.SigningKeySerial, cm.skc.Now
		if p.kept && s.SigningKeySerial != nil && s.SigningKeySerial.Sign() != 0 {
			if p.serial == nil {
				p.serial = new(big.Int)
			}
			s.SigningKeySerial = p.serial.Set(s.SigningKeySerial) // the value handed to earlier commands changes under them
		}
		ctx := rotate.NewSigningKeyContext(p.base, s)
		// what cmd.RotateCommand.InitContext does: no serial (nil) or 0 = the current key's serial + 1
		if s.SigningKeySerial == nil || s.SigningKeySerial.Sign() == 0 {
			if s.SigningKeySerial, err = sops.NextSigningKeySerial(ctx); err != nil {
				break
			}
		}
		_, err = rotate.Key(ctx)
	default:
		w := p.wc
		w.CA, w.Keys = cm.wca, cm.wkeys
		err = rotate.Wipeout(rotate.NewWipeoutContext(p.base, w))
	}
	if err != nil && p.kept && p.a.CA != authority.MemCA {
		// a careful service discards its authority value after a failed command (C10 owns the other kind)
		p.ca = p.a.FreshCA()
		p.kc.CA = p.wrapCA(p.ca)
	}
	return err
}

// ---- the baton: two histories in one process, handed over at every component call ----

type baton struct {
	mu       sync.Mutex
	cond     *sync.Cond
	turn     int
	alive    [2]bool
	at       [2]int  // the command each history is at
	done     [2]bool // ... and whether it has completed it
	tmpl     [2]int  // certificate templates requested in the current command
	handoffs int
	meetings int
}

func newBaton() *baton {
	b := &baton{alive: [2]bool{true, true}, at: [2]int{-1, -1}}
	b.cond = sync.NewCond(&b.mu)
	return b
}

func (b *baton) start(me int) {
	b.mu.Lock()
	for b.turn != me {
		b.cond.Wait()
	}
	b.mu.Unlock()
}

func (b *baton) pass(me int) {
	b.turn = 1 - me
	b.handoffs++
	b.cond.Broadcast()
	for b.turn != me {
		b.cond.Wait()
	}
}

// yield hands over to the other history before a component call. A history that is about to ask its key manager for
// the n-th certificate template of its command first lets the other one get to the same point of its own command (if
// it gets there at all): from there on both build, sign and store their certificates one component call at a time in turn.
func (b *baton) yield(me int, name string) {
	b.mu.Lock()
	o := 1 - me
	if name == "manager.CertificateTemplate" {
		b.tmpl[me]++
		waited := false
		for b.alive[o] && b.at[o] == b.at[me] && !b.done[o] && b.tmpl[o] < b.tmpl[me] {
			b.pass(me)
			waited = true
		}
		if waited && b.alive[o] && !b.done[o] && b.tmpl[o] == b.tmpl[me] {
			b.meetings++
		}
	}
	if b.alive[o] {
		b.pass(me)
	}
	b.mu.Unlock()
}

// stepDone marks the history's current command as completed.
func (b *baton) stepDone(me int) {
	b.mu.Lock()
	b.done[me] = true
	b.mu.Unlock()
}

// align makes both histories begin their step-th command together (the other one catches up first).
func (b *baton) align(me, step int) {
	b.mu.Lock()
	b.at[me], b.done[me], b.tmpl[me] = step, false, 0
	for b.alive[1-me] && b.at[1-me] < step {
		b.pass(me)
	}
	b.mu.Unlock()
}

func (b *baton) finish(me int) {
	b.mu.Lock()
	b.alive[me] = false
	b.turn = 1 - me
	b.cond.Broadcast()
	b.mu.Unlock()
}

// ---- generators of the added families ----

// tally feeds the floors of the added families (one per shard run; histories of a pair update it concurrently).
type tally struct {
	keptProbes, sweeps, zeroSerial, shorter, maxChain, handoffs, meetings atomic.Int64
	subsecHalf, faultFailed, faultSwallowed, faultDestroy, faultCases     atomic.Int64
}

type extra struct {
	fam    string
	t      *tally
	p      *proc // nil: the history runs through the command line
	bounds bool
	forms  bool
	chain  bool
	sweep  bool // serials: every boundary serial in turn, each followed by a default rotation
	swept  int
	drill  bool // pair-baton: bootstrap first, then mostly rotations, so that both histories are often inside the same kind of command

	longNames    bool   // the epoch's common names are long (a directed re-bootstrap then uses short ones, and vice versa)
	forceDefault string // label of the boundary serial just planted: the next command is a default rotation
	pending      string // label of the boundary serial the running command plants
	bseq         int    // next boundary serial to plant
	atTimeBound  string
	rotations    int // successful rotations in the current epoch

	subsec  bool          // command timestamps carry a fraction of a second
	frac    time.Duration // ... the fraction of the running command
	faults  bool          // commands run through the fault-injecting doubles
	fctl    *doubles.FCtl // ... the controller of the running command (no fault planned: a fault-free command)
	forced  bool          // the next command's kind is fixed to forceOp
	forceOp int
}

// fractions of a second the subsec family puts on its timestamps: next to 0, 1/2 and 1, and ordinary ones
var fractions = []time.Duration{1, 250 * time.Millisecond, 499999999, 500 * time.Millisecond, 500000001, 750 * time.Millisecond, 999 * time.Millisecond, 999999999}

// stamp renders a command time for the command line.
func (h *hist) stamp(t time.Time) string {
	if h.x != nil && h.x.subsec {
		return t.Format(time.RFC3339Nano)
	}
	return t.Format(time.RFC3339)
}

var (
	one          = big.NewInt(1)
	pow2         = func(n uint) *big.Int { return new(big.Int).Lsh(one, n) }
	pow2m1       = func(n uint) *big.Int { return new(big.Int).Sub(pow2(n), one) }
	boundSerials = []struct {
		label string
		v     *big.Int
	}{
		{"1", big.NewInt(1)}, {"127", big.NewInt(127)}, {"255", big.NewInt(255)}, {"32767", big.NewInt(32767)}, {"65535", big.NewInt(65535)},
		{"2^31-1", pow2m1(31)}, {"2^32-1", pow2m1(32)}, {"2^63-1", pow2m1(63)}, {"2^63", pow2(63)}, {"2^64-1", pow2m1(64)}, {"2^64", pow2(64)},
		{"2^127-1", pow2m1(127)}, {"2^128-1", pow2m1(128)}, {"2^159-1", pow2m1(159)},
	}
	shortCNs   = []string{"", "s", "signingKeyCn", "a b,c=d+e", "dir/sub", "rootCn"}
	longCNs    = []string{strings.Repeat("S", 64), strings.Repeat("L", 200), "ünï-漢字-" + strings.Repeat("é", 40), "signer with spaces " + strings.Repeat("x", 60)}
	shortRoots = []string{"rootCn", "r", ""}
	longRoots  = []string{strings.Repeat("R", 64), strings.Repeat("Q", 200)}
)

func pick(r *rand.Rand, l []string) string { return l[r.IntN(len(l))] }

func short(s string) string {
	if len(s) > 12 {
		return fmt.Sprintf("%s…(%d)", s[:8], len(s))
	}
	return s
}

// flag renders one valued flag of the command line in one of its accepted forms.
func (h *hist) flag(name, value string, isDefault, numeric bool) []string {
	r := h.r
	if !h.x.forms {
		return []string{"--" + name, value}
	}
	if isDefault && r.IntN(2) == 0 {
		h.c.Count("flags: left unset (documented default applies)", 1)
		return nil
	}
	if isDefault {
		h.c.Count("flags: explicit default value", 1)
	}
	if numeric && r.IntN(3) == 0 {
		value = strings.Repeat("0", 1+r.IntN(3)) + value
		h.c.Count("zero-padded-decimal-serial-flags", 1)
	}
	if r.IntN(2) == 0 || strings.HasPrefix(value, "-") {
		return []string{"--" + name + "=" + value}
	}
	return []string{"--" + name, value}
}

func (h *hist) boolFlag(name string, v bool) []string {
	if !h.x.forms {
		if v {
			return []string{"--" + name}
		}
		return nil
	}
	switch k := h.r.IntN(2); {
	case v && k == 0:
		return []string{"--" + name}
	case v:
		return []string{"--" + name + "=true"}
	case k == 0:
		return nil
	}
	h.c.Count("flags: explicit --flag=false", 1)
	return []string{"--" + name + "=false"}
}

const (
	defRootCN = "GCE-cc-tcb-root" // documented defaults of the command line
	defSignCN = "GCE-uefi-signer"
)

func (h *hist) xTime(step int) {
	h.xTimeWhole(step)
	if x := h.x; x.subsec {
		x.frac = fractions[h.r.IntN(len(fractions))]
		if h.r.IntN(3) == 0 {
			x.frac = time.Duration(1 + h.r.IntN(999999999))
		}
		h.now = h.now.Truncate(time.Second).Add(x.frac)
	}
}

func (h *hist) xTimeWhole(step int) {
	x := h.x
	x.atTimeBound = ""
	if x.chain || x.sweep {
		h.now = h.now.Add(time.Duration(1+h.r.IntN(90)) * day).Add(time.Duration(h.r.IntN(86400)) * time.Second).In(h.zone)
		return
	}
	h.legacyTime(step)
	if x.bounds && h.ep.active && !h.rootNotAfter.IsZero() && h.r.IntN(4) == 0 {
		switch h.r.IntN(4) {
		case 0:
			h.now, x.atTimeBound = h.rootNotAfter.In(h.zone), "root.NotAfter"
		case 1:
			h.now, x.atTimeBound = h.rootNotAfter.Add(-time.Second).In(h.zone), "root.NotAfter-1s"
		case 2:
			h.now, x.atTimeBound = h.rootNotBefore.In(h.zone), "root.NotBefore"
		default:
			h.now, x.atTimeBound = h.rootNotBefore.Add(time.Second).In(h.zone), "root.NotBefore+1s"
		}
	}
}

func (h *hist) xGen(step int, pre *authority.State) *command {
	r, x, now := h.r, h.x, h.now
	cli := x.p == nil
	cm := &command{overwrite: r.IntN(2) == 0, keepGoing: r.IntN(3) == 0}
	k := r.IntN(20)
	op := opWipeout
	switch {
	case x.forced:
		op, x.forced = x.forceOp, false
	case (x.chain || x.drill || x.sweep) && step == 0:
		op = opBootstrap
	case x.sweep:
		op = opRotate
	case x.drill && !h.ep.active:
		op, cm.overwrite = opBootstrap, true
	case x.drill && k < 15:
		op = opRotate
	case x.chain || (x.forceDefault != "" && h.ep.active):
		op = opRotate
	case !h.ep.active && k < 13, h.ep.active && k < 3:
		op = opBootstrap
	case k < 16:
		op = opRotate
	}
	if x.chain {
		cm.keepGoing = false
		cm.overwrite = step > 0 && r.IntN(3) == 0
	}
	if x.sweep {
		cm.keepGoing, cm.overwrite = false, false
	}
	directed := x.bounds && op != opWipeout && h.ep.active && r.IntN(5) == 0
	if directed {
		// re-bootstrap over the epoch with names of the other length class: the stored objects of the key versions
		// "root" / "primarySigningKey" are replaced by much shorter (longer) content
		op, cm.overwrite, cm.keepGoing = opBootstrap, true, false
		x.longNames = !x.longNames
		x.forceDefault = ""
	} else if op == opBootstrap && x.bounds {
		x.longNames = r.IntN(2) == 0
	}
	signCN := func() string {
		switch {
		case x.bounds && x.longNames:
			return pick(r, longCNs)
		case x.bounds:
			return pick(r, shortCNs)
		case x.sweep:
			return fmt.Sprintf("signer-%d", step) // no two certificate objects of the sweep share a name
		case x.forms && r.IntN(2) == 0:
			return defSignCN
		case r.IntN(4) == 0:
			return fmt.Sprintf("signer-%d", step)
		}
		return "signingKeyCn"
	}
	sweepSerial := func(i int) *big.Int {
		x.pending = boundSerials[i].label
		return new(big.Int).Set(boundSerials[i].v)
	}
	bigSerial := func() *big.Int {
		return new(big.Int).Add(new(big.Int).Lsh(big.NewInt(int64(1+r.IntN(1000))), uint(63+r.IntN(40))), big.NewInt(int64(r.IntN(1000))))
	}
	boundary := func() *big.Int {
		b := boundSerials[x.bseq%len(boundSerials)] // in turn, so that a run plants every boundary
		x.bseq++
		x.pending = b.label
		return new(big.Int).Set(b.v)
	}
	switch op {
	case opBootstrap:
		cm.op, cm.kind = opBootstrap, "bootstrap"
		bc := &rotate.BootstrapContext{RootKeyCommonName: "rootCn", SigningKeyCommonName: signCN(), RootKeySerial: big.NewInt(1), SigningKeySerial: big.NewInt(2), Now: now}
		switch {
		case x.bounds && x.longNames:
			bc.RootKeyCommonName = pick(r, longRoots)
		case x.bounds:
			bc.RootKeyCommonName = pick(r, shortRoots)
		case x.forms && r.IntN(2) == 0:
			bc.RootKeyCommonName = defRootCN
		}
		x.forceDefault = ""
		switch s := r.IntN(6); {
		case x.sweep:
			bc.SigningKeySerial = sweepSerial(0)
			cm.kind = "bootstrap(serial at a boundary)"
		case x.bounds && s < 3:
			bc.RootKeySerial, bc.SigningKeySerial = big.NewInt(int64(1+r.IntN(500))), boundary()
			cm.kind = "bootstrap(serial at a boundary)"
		case s < 2:
			bc.RootKeySerial, bc.SigningKeySerial = big.NewInt(int64(1+r.IntN(500))), big.NewInt(int64(1000+r.IntN(500)))
			cm.kind = "bootstrap(serials)"
		case s == 2:
			bc.SigningKeySerial = bigSerial()
			cm.kind = "bootstrap(serials)"
		}
		if directed {
			cm.kind += "+other-name-lengths"
		}
		cm.bc = bc
		cm.note = fmt.Sprintf(" [root cn=%q serial=%v, signing cn=%q serial=%v]", short(bc.RootKeyCommonName), bc.RootKeySerial, short(bc.SigningKeyCommonName), bc.SigningKeySerial)
		if cli {
			args := []string{"bootstrap", "--timestamp", h.stamp(now)}
			args = append(args, h.flag("root_key_cn", bc.RootKeyCommonName, bc.RootKeyCommonName == defRootCN, false)...)
			args = append(args, h.flag("signing_key_cn", bc.SigningKeyCommonName, bc.SigningKeyCommonName == defSignCN, false)...)
			args = append(args, h.flag("root_key_serial", bc.RootKeySerial.String(), bc.RootKeySerial.Cmp(one) == 0, true)...)
			args = append(args, h.flag("initial_signing_key_serial", bc.SigningKeySerial.String(), bc.SigningKeySerial.Cmp(big.NewInt(2)) == 0, true)...)
			cm.args = args
		}
	case opRotate:
		cm.op, cm.kind = opRotate, "rotate"
		skc := &rotate.SigningKeyContext{SigningKeyCommonName: signCN(), Now: now}
		if h.ep.active && pre.PrimaryCert != nil {
			if ps, ok := new(big.Int).SetString(pre.PrimaryCert.Subject.SerialNumber, 10); ok {
				cm.want = new(big.Int).Add(ps, one)
			}
		}
		planted := x.forceDefault
		x.forceDefault = ""
		zeroForm := ""
		switch s := r.IntN(12); {
		case planted != "":
			cm.kind = "rotate(default after serial " + planted + ")"
		case x.sweep:
			skc.SigningKeySerial = sweepSerial((step / 2) % len(boundSerials))
			cm.kind = "rotate(serial-override at a boundary)"
		case x.chain && s >= 2:
		case x.bounds && s < 4:
			skc.SigningKeySerial = boundary()
			cm.kind = "rotate(serial-override at a boundary)"
		case s < 2:
			skc.SigningKeySerial = big.NewInt(int64(5000 + 100*step + r.IntN(50)))
			cm.kind = "rotate(serial-override)"
		case s == 4:
			skc.SigningKeySerial = bigSerial()
			cm.kind = "rotate(serial-override>64bit)"
		case s == 5 && len(h.usedSerials[skc.SigningKeyCommonName]) > 0:
			used := h.usedSerials[skc.SigningKeyCommonName]
			skc.SigningKeySerial = new(big.Int).Set(used[r.IntN(len(used))])
			cm.kind = "rotate(serial-override=existing)"
		case s < 8 && (x.forms || !cli):
			// "0 is default behavior": spelled out instead of left unset
			skc.SigningKeySerial = new(big.Int)
			zeroForm = strings.Repeat("0", 1+r.IntN(2))
			cm.kind = "rotate(explicit zero serial)"
		}
		if skc.SigningKeySerial != nil && skc.SigningKeySerial.Sign() != 0 {
			cm.want = skc.SigningKeySerial
		}
		cm.skc = skc
		cm.note = fmt.Sprintf(" [cn=%q serial=%v]", short(skc.SigningKeyCommonName), skc.SigningKeySerial)
		if cli {
			args := []string{"rotate", "--timestamp", h.stamp(now)}
			args = append(args, h.flag("signing_key_cn", skc.SigningKeyCommonName, skc.SigningKeyCommonName == defSignCN, false)...)
			switch {
			case zeroForm != "":
				if r.IntN(2) == 0 {
					args = append(args, "--rotated_key_serial_override="+zeroForm)
				} else {
					args = append(args, "--rotated_key_serial_override", zeroForm)
				}
				h.c.Count("flags: explicit zero serial override", 1)
			case skc.SigningKeySerial != nil:
				args = append(args, h.flag("rotated_key_serial_override", skc.SigningKeySerial.String(), false, true)...)
			}
			cm.args = args
		}
	default:
		cm.op, cm.wca, cm.wkeys, cm.kind = opWipeout, true, true, "wipeout"
		switch r.IntN(3) {
		case 0:
			cm.wkeys, cm.kind = false, "wipeout ca"
		case 1:
			cm.wca, cm.kind = false, "wipeout keys"
		}
		if cli {
			cm.args = []string{"wipeout"}
			if !cm.wkeys {
				cm.args = append(cm.args, "ca")
			} else if !cm.wca {
				cm.args = append(cm.args, "keys")
			}
		}
	}
	if cli {
		cm.args = append(cm.args, h.boolFlag("overwrite", cm.overwrite)...)
		cm.args = append(cm.args, h.boolFlag("keep_going", cm.keepGoing)...)
	}
	if x.atTimeBound != "" {
		cm.note += " [at " + x.atTimeBound + "]"
	}
	return cm
}

func (h *hist) xExec(cm *command) error {
	if h.x.p == nil {
		return h.a.CLI(cm.args...)
	}
	return h.x.p.run(cm)
}

// ---- the kept values' view, judged by the rules of the fresh view ----

// afterCertifying: when the authority value the process kept answers differently from a fresh reload, the certificates
// it answers with are held against the same clauses.
func (x *extra) afterCertifying(h *hist, cm *command, st *authority.State, existed map[string]bool, what string) {
	if cm.op == opRotate && h.ep.active {
		x.rotations++
		h.c.Max("longest chain of successful rotations in one epoch", int64(x.rotations))
		if int64(x.rotations) > x.t.maxChain.Load() {
			x.t.maxChain.Store(int64(x.rotations)) // only the chain family gets this far, one history at a time
		}
		if n := len(h.ep.names); n > 0 {
			h.c.Max("most key version names in one epoch", int64(n))
		}
	} else if cm.op == opBootstrap {
		x.rotations = 0
	}
	if x.p == nil || !x.p.kept || x.p.ca == nil || st.PrimaryCert == nil {
		return
	}
	ctx := context.Background()
	what += " (read through the authority value the process kept)"
	prim, _ := x.p.ca.PrimarySigningKeyVersion(ctx)
	der, _ := x.p.ca.Certificate(ctx, prim)
	h.c.Count("kept: certificates read through the kept authority value", 1)
	if prim == st.Primary && bytes.Equal(der, st.PrimaryCert.Raw) {
		return
	}
	h.c.Count("kept: kept authority value answered differently from a fresh reload", 1)
	var cert, root *x509.Certificate
	if der != nil {
		cert, _ = x509.ParseCertificate(der)
	}
	if b, err := x.p.ca.CABundle(ctx, prim); err == nil {
		if blk, _ := pem.Decode(b); blk != nil {
			root, _ = x509.ParseCertificate(blk.Bytes)
		}
	}
	want := cm.want
	if cm.op == opBootstrap {
		want = cm.bc.SigningKeySerial
	}
	if cm.op == opRotate && !h.ep.active {
		want = nil
	}
	if cm.keepGoing && cert != nil && existed[string(cert.Raw)] {
		return // keep-going legitimately certified nothing
	}
	h.checkSigning(cert, root, h.now, want, what)
}

func (x *extra) afterWipeout(h *hist, cm *command, known []string, what string) {
	x.rotations = 0
	if x.p == nil || !x.p.kept || x.p.signer == nil {
		return
	}
	what += " (through the values the process kept)"
	kst := &authority.State{Signer: x.p.signer}
	for _, n := range known {
		if n == "" {
			continue
		}
		h.c.Count("kept: probes of the kept signer / authority after wipeout", 1)
		if cm.wkeys && canSign(kst, n) {
			h.viol("key-usable-after-wipeout", "%s: key %q can still sign", what, n)
		}
		if cm.wca {
			if _, cerr := x.p.ca.Certificate(context.Background(), n); cerr == nil {
				h.viol("certificate-resolves-after-wipeout", "%s: certificate of %q still resolves", what, n)
			}
		}
	}
}

func (x *extra) afterEvery(h *hist, cm *command, st *authority.State, names []string, err error, what string) {
	if x.p == nil || !x.p.kept || x.p.signer == nil {
		return
	}
	kst := &authority.State{Signer: x.p.signer}
	for _, n := range names {
		h.c.Count("kept: sign probes through the kept signer", 1)
		x.t.keptProbes.Add(1)
		if n != st.Primary && n != st.Root && canSign(kst, n) {
			h.viol("non-primary-key-can-sign", "%s: key %q (not the primary %q) can still sign through the signer the process kept", what, n, st.Primary)
		}
	}
	if st.Primary != "" && err == nil && !canSign(kst, st.Primary) {
		h.viol("primary-cannot-sign", "%s: primary %q cannot sign through the signer the process kept", what, st.Primary)
	}
}

// evidence records what the added dimensions really produced.
func (x *extra) evidence(h *hist, cm *command, before map[string][]byte, err error) {
	c := h.c
	ok := map[bool]string{true: "ok", false: "refused"}[err == nil]
	c.Count("added: commands of family "+x.fam, 1)
	if err == nil && x.pending != "" && cm.op != opWipeout {
		x.forceDefault = x.pending
	}
	x.pending = ""
	if x.p != nil && x.p.kept {
		c.Count("kept: commands run by a process that keeps its manager, signer, authority, contexts and request structs", 1)
	}
	if cm.op == opRotate && strings.HasPrefix(cm.kind, "rotate(default after serial ") {
		c.Cell("bounds|%s|%s", cm.kind, ok)
		if err == nil {
			c.Count("bounds: default rotations judged right after a boundary serial", 1)
			if x.swept++; x.sweep && x.swept == len(boundSerials) {
				x.t.sweeps.Add(1)
			}
		}
	}
	if cm.op == opRotate && cm.skc.SigningKeySerial != nil && cm.skc.SigningKeySerial.Sign() == 0 && err == nil {
		c.Count("flags: rotations with an explicit zero serial (library: zero value instead of nil) judged as default", 1)
		if cm.args != nil {
			c.Count("flags: rotations with --rotated_key_serial_override=0 spelled out judged as default", 1)
			x.t.zeroSerial.Add(1)
		}
	}
	if x.atTimeBound != "" {
		c.Cell("bounds|command at %s|%s|%s", x.atTimeBound, cm.kind, ok)
		c.Count("bounds: commands on the first / last instants of the root's validity", 1)
	}
	if x.bounds && cm.op != opWipeout {
		cn := ""
		if cm.bc != nil {
			cn = cm.bc.SigningKeyCommonName
		} else {
			cn = cm.skc.SigningKeyCommonName
		}
		class := "plain"
		switch {
		case cn == "":
			class = "empty"
		case len(cn) == 1:
			class = "1 char"
		case len(cn) == 64:
			class = "64 chars"
		case len(cn) >= 200:
			class = "200 chars"
		case strings.ContainsAny(cn, " ,=+/"):
			class = "DN / path meta characters"
		case strings.IndexFunc(cn, func(r rune) bool { return r > 127 }) >= 0:
			class = "non-ASCII"
		case cn == "rootCn":
			class = "same as a root's"
		}
		c.Cell("bounds|signing common name %s|%s|%s", class, h.a.Name(), ok)
	}
	if x.forms && cm.args != nil {
		c.Cell("flags|%s|overwrite=%v keep_going=%v|%s", strings.SplitN(cm.kind, "(", 2)[0], cm.overwrite, cm.keepGoing, ok)
	}
	if x.subsec && cm.op != opWipeout {
		class := "below one half"
		switch {
		case x.frac == 500*time.Millisecond:
			class = "exactly one half"
		case x.frac > 500*time.Millisecond:
			class = "above one half"
		}
		mode := map[bool]string{true: "command line", false: "library"}[cm.args != nil]
		c.Cell("subsec|%s|fraction %s|%s|%s|%s", strings.SplitN(cm.kind, "(", 2)[0], class, h.a.KM, mode, ok)
		if err == nil {
			c.Count("subsec: certifying commands at a time with a fraction of a second that succeeded (certificates judged)", 1)
			// a rotation inside an epoch: its certificate was made from its predecessor's
			if cm.op == opRotate && h.ep.active && x.frac >= 500*time.Millisecond {
				c.Count("subsec: rotations inside an epoch at a fraction of one half or more judged", 1)
				x.t.subsecHalf.Add(1)
			}
		}
	}
	if x.faults && x.fctl != nil {
		if pos, name := injectedAt(x.fctl); pos > 0 && err == nil {
			// reached only when the command reported success: step has judged it by every rule
			c.Count("faults: commands that REPORTED SUCCESS although a call failed (judged by every rule)", 1)
			c.Cell("faults|%s|overwrite=%v keep_going=%v|error at %s|reported success: judged|%s", strings.SplitN(cm.kind, "(", 2)[0], cm.overwrite, cm.keepGoing, name, h.a.Name())
			x.t.faultSwallowed.Add(1)
			h.cmds[len(h.cmds)-1] += fmt.Sprintf(" [call %d %s failed]", pos, name)
		}
	}
	if cm.overwrite && cm.op == opBootstrap && err == nil {
		after := certObjects(h.a)
		for n, b := range before {
			if nb, found := after[n]; found && len(nb)+8 < len(b) {
				c.Count("bounds: stored objects replaced by content at least 8 bytes shorter", 1)
				x.t.shorter.Add(1)
			} else if found && len(nb) > len(b)+8 {
				c.Count("bounds: stored objects replaced by content at least 8 bytes longer", 1)
			}
		}
	}
}

// ---- the added cases ----

func newX(c *core.Ctx, t *tally, idx int, r *rand.Rand, fam string, pair [2]string, cli, kept bool, f *doubles.FCtl) (*hist, string) {
	dir, _ := os.MkdirTemp("", "verif-c12x-")
	a := authority.New(pair[0], pair[1], dir)
	x := &extra{fam: fam, t: t}
	if !cli {
		x.p = &proc{a: a, kept: kept, f: f}
	}
	mode := map[bool]string{true: "command line", false: "library, fresh components per command"}[cli]
	if kept {
		mode = "library, ONE process keeps all its values"
	}
	h := &hist{c: c, idx: idx, gname: fmt.Sprintf("%s#%d %s (%s)", fam, idx, a.Name(), mode), a: a, r: r, tag: fam, now: t0, usedSerials: map[string][]*big.Int{}, x: x}
	if kept {
		h.tag += "+kept"
	}
	h.pickTime, h.gen, h.exec = h.xTime, h.xGen, h.xExec
	h.zone = drawZone(r)
	return h, dir
}

func (h *hist) finish(dir string) int {
	if h.idx%7 == 0 {
		h.c.Sample(map[string]any{"history": h.gname, "commands": h.cmds})
	}
	if os.Getenv("VERIF_C12_TRACE") != "" {
		h.c.Note("trace %s :: %s", h.gname, strings.Join(h.cmds, " ; "))
	}
	os.RemoveAll(dir)
	return h.ncmd
}

// runExtra runs the added families; case numbers start at base.
func runExtra(c *core.Ctx, base int) int {
	pairs := authority.Pairs()
	cliPair := [2]string{authority.LocalKM, authority.GcscaDisk}
	total, idx, t := 0, base, &tally{}
	single := func(n, ncmd int, mk func(k int, r *rand.Rand) (*hist, string)) {
		for k := 0; k < n; k, idx = k+1, idx+1 {
			if !c.Mine(idx) {
				continue
			}
			h, dir := mk(k, c.Rand(idx))
			c.Begin(idx, h.gname, "bootstrap/rotate/wipeout", nil)
			for step := 0; step < ncmd; step++ {
				h.step(step)
			}
			total += h.finish(dir)
			c.End(idx)
		}
	}
	// kept: every assembly
	single(c.N(12, 36), c.N(8, 10), func(k int, r *rand.Rand) (*hist, string) {
		return newX(c, t, idx, r, "kept", pairs[k%len(pairs)], false, true, nil)
	})
	// pair: two authorities operated in one process at the same time
	free := 0
	for k, n := 0, c.N(8, 24); k < n; k, idx = k+1, idx+1 {
		if !c.Mine(idx) {
			continue
		}
		r := c.Rand(idx)
		rs := [2]*rand.Rand{rand.New(rand.NewPCG(r.Uint64(), r.Uint64())), rand.New(rand.NewPCG(r.Uint64(), r.Uint64()))}
		useBaton := k%2 == 0
		fam := map[bool]string{true: "pair-baton", false: "pair-free"}[useBaton]
		bt := newBaton()
		var hs [2]*hist
		var dirs [2]string
		for me := 0; me < 2; me++ {
			me := me
			var f *doubles.FCtl
			if useBaton {
				f = &doubles.FCtl{Hook: func(_ int, name string) { bt.yield(me, name) }}
			}
			hs[me], dirs[me] = newX(c, t, idx, rs[me], fam, pairs[(k/2+me*(1+k/12))%len(pairs)], false, (k/2+me)%2 == 0, f)
			hs[me].gname += fmt.Sprintf(" [member %d]", me)
			hs[me].x.drill = useBaton
		}
		c.Begin(idx, hs[0].gname+" || "+hs[1].gname, "bootstrap/rotate/wipeout", nil)
		ncmd := c.N(6, 8)
		var wg sync.WaitGroup
		for me := 0; me < 2; me++ {
			wg.Add(1)
			go func(me int) {
				defer wg.Done()
				if useBaton {
					bt.start(me)
					defer bt.finish(me)
				}
				for step := 0; step < ncmd; step++ {
					if useBaton {
						bt.align(me, step)
					}
					hs[me].step(step)
					if useBaton {
						bt.stepDone(me)
					}
				}
			}(me)
		}
		wg.Wait()
		for me := 0; me < 2; me++ {
			total += hs[me].finish(dirs[me])
		}
		if useBaton {
			t.handoffs.Add(int64(bt.handoffs))
			t.meetings.Add(int64(bt.meetings))
		} else {
			free++
		}
		c.End(idx)
	}
	c.Count("pair: hand-overs between two histories at component calls", int(t.handoffs.Load()))
	c.Count("pair: cases with two free-running histories", free)
	c.Count("pair: certificates built by two histories in turn, one component call at a time", int(t.meetings.Load()))
	// flags: the command line in all its spellings
	single(c.N(8, 18), c.N(8, 10), func(k int, r *rand.Rand) (*hist, string) {
		h, dir := newX(c, t, idx, r, "flags", cliPair, true, false, nil)
		h.x.forms, h.viaCLI = true, true
		return h, dir
	})
	// bounds: every assembly; the command line where it applies
	single(c.N(12, 36), c.N(8, 10), func(k int, r *rand.Rand) (*hist, string) {
		p := pairs[k%len(pairs)]
		cli := p == cliPair && (k/len(pairs))%2 == 1
		h, dir := newX(c, t, idx, r, "bounds", p, cli, !cli && (k/len(pairs))%3 == 2, nil)
		h.x.bounds, h.x.forms, h.viaCLI, h.x.bseq = true, cli, cli, 3*k
		return h, dir
	})
	// serials: every boundary serial, each followed by a default rotation (library on memory, command line on disk; thorough: every assembly)
	single(c.N(2, 12), 2*len(boundSerials), func(k int, r *rand.Rand) (*hist, string) {
		p, cli := pairs[(k/2)%len(pairs)], false
		if k%2 == 1 {
			p, cli = cliPair, true
		}
		h, dir := newX(c, t, idx, r, "serials", p, cli, false, nil)
		h.x.sweep, h.x.forms, h.viaCLI = true, cli, cli
		return h, dir
	})
	// chain: more than ten rotations in one epoch
	single(c.N(4, 12), c.N(12, 14), func(k int, r *rand.Rand) (*hist, string) {
		h, dir := newX(c, t, idx, r, "chain", pairs[(2+k)%len(pairs)], false, k%2 == 1, nil)
		h.x.chain = true
		return h, dir
	})
	// subsec: timestamps with a fraction of a second; every assembly, the command line where it applies
	single(c.N(6, 24), c.N(7, 9), func(k int, r *rand.Rand) (*hist, string) {
		p := pairs[k%len(pairs)]
		cli := p == cliPair && (k/len(pairs))%2 == 0
		h, dir := newX(c, t, idx, r, "subsec", p, cli, !cli && k%3 == 1, nil)
		h.x.subsec, h.viaCLI = true, cli
		return h, dir
	})
	// faults: one command, a single error at every call position in turn
	for k, n := 0, c.N(14, 48); k < n; k, idx = k+1, idx+1 {
		if !c.Mine(idx) {
			continue
		}
		total += runFaultCase(c, t, idx, k, c.Rand(idx), pairs[k%len(pairs)])
	}
	c.Count("faults: cases (one command faulted at every call position in turn)", int(t.faultCases.Load()))
	c.Floor("subsec: a rotation inside an epoch at a time with a fraction of one half of a second or more was judged", t.subsecHalf.Load() > 0)
	c.Floor("faults: a rotation was run with the destruction of the previous key failing, and commands failing under their fault were left unjudged", t.faultDestroy.Load() > 0 && t.faultFailed.Load() > 0)
	c.Floor("kept: the signer a process kept across its commands was probed", t.keptProbes.Load() > 0)
	c.Floor("pair: two histories were handed over at component calls and built certificates in turn", t.handoffs.Load() > 0 && t.meetings.Load() > 0)
	c.Floor("flags: a rotation with --rotated_key_serial_override=0 spelled out was judged as default", t.zeroSerial.Load() > 0)
	c.Floor(fmt.Sprintf("serials: one history judged a default rotation right after each of the %d boundary serials", len(boundSerials)), t.sweeps.Load() > 0)
	c.Floor("bounds: a stored object was replaced by shorter content", t.shorter.Load() > 0)
	c.Floor("chain: an epoch with ten or more rotations", t.maxChain.Load() >= 10)
	return total
}

// ---- faults: one command, a single error at every component-call position in turn ----

// injectedAt returns the position and the name (without its argument) of the call that was answered with the injected error.
func injectedAt(f *doubles.FCtl) (int, string) {
	for _, call := range f.Log {
		if call.Result == "injected-error" {
			return call.Seq, strings.SplitN(call.Name, ":", 2)[0]
		}
	}
	return 0, ""
}

// faultExec runs the command through the library entry points with every component behind the fault-injecting doubles.
func (h *hist) faultExec(cm *command) (err error) {
	a, f := h.a, h.x.fctl
	opts := authority.Opts{Overwrite: cm.overwrite, KeepGoing: cm.keepGoing}
	switch cm.op {
	case opBootstrap:
		bc := *cm.bc
		return a.Bootstrap(f, opts, &bc)
	case opRotate:
		_, err = a.Rotate(f, opts, cm.skc)
		return err
	}
	return a.Wipeout(f, opts, cm.wca, cm.wkeys)
}

// faultNotJudged: a command that failed and had a call answered with the injected error claimed nothing. C12 states its
// invariants over fault-free histories; what a failing command leaves behind under a fault is C10's and C11's subject.
func (x *extra) faultNotJudged(h *hist, cm *command, err error) bool {
	pos, name := injectedAt(x.fctl)
	if name == "manager.DestroyKeyVersion" && cm.op == opRotate {
		x.t.faultDestroy.Add(1)
		h.c.Count("faults: rotations run with the destruction of the previous key failing", 1)
	}
	if err == nil || pos == 0 {
		return false
	}
	x.t.faultFailed.Add(1)
	h.ncmd++
	h.c.Count("faults: commands that failed under their injected fault (nothing judged)", 1)
	h.c.Count("added: commands of family "+x.fam, 1)
	h.c.Cell("faults|%s|overwrite=%v keep_going=%v|error at %s|command failed: not judged|%s", strings.SplitN(cm.kind, "(", 2)[0], cm.overwrite, cm.keepGoing, name, h.a.Name())
	h.cmds = append(h.cmds, fmt.Sprintf("%s overwrite=%v keep_going=%v [call %d %s failed] -> %v (not judged)", cm.kind, cm.overwrite, cm.keepGoing, pos, name, err))
	return true
}

// save returns a function that puts the history's bookkeeping back to what it is now.
func (h *hist) save() func() {
	ep := h.ep
	names := map[string]bool{}
	for n := range h.ep.names {
		names[n] = true
	}
	used := map[string][]*big.Int{}
	for cn, l := range h.usedSerials {
		used[cn] = append([]*big.Int(nil), l...)
	}
	now, na, nb, ncmds, x := h.now, h.rootNotAfter, h.rootNotBefore, len(h.cmds), *h.x
	return func() {
		h.ep = ep
		h.ep.names = map[string]bool{}
		for n := range names {
			h.ep.names[n] = true
		}
		h.usedSerials = map[string][]*big.Int{}
		for cn, l := range used {
			h.usedSerials[cn] = append([]*big.Int(nil), l...)
		}
		h.now, h.rootNotAfter, h.rootNotBefore, h.cmds = now, na, nb, h.cmds[:ncmds:ncmds]
		*h.x = x
	}
}

var faultOps = []int{opRotate, opWipeout, opBootstrap}

func runFaultCase(c *core.Ctx, t *tally, idx, k int, r *rand.Rand, pair [2]string) int {
	h, dir := newX(c, t, idx, r, "faults", pair, false, false, nil)
	x := h.x
	x.faults, x.chain, x.fctl = true, true, &doubles.FCtl{}
	h.exec = h.faultExec
	c.Begin(idx, h.gname, "bootstrap/rotate/wipeout", nil)
	// fault-free prefix (judged like every history): bootstrap and up to two rotations
	step, np := 0, 1+r.IntN(3)
	for ; step < np; step++ {
		x.fctl = &doubles.FCtl{}
		h.step(step)
	}
	// the command under test, generated once
	x.chain = false
	h.xTime(step)
	x.forced, x.forceOp = true, faultOps[(k/len(authority.Pairs()))%len(faultOps)]
	cm := h.xGen(step, h.a.Observe())
	h.pickTime = func(int) {}
	h.gen = func(int, *authority.State) *command { cp := *cm; return &cp }
	snap, restore := h.a.Snapshot(), h.save()
	var trace []string
	for pos := 1; pos < 200; pos++ {
		h.a.Restore(snap)
		restore()
		x.fctl = &doubles.FCtl{Faults: map[int]string{pos: doubles.FaultError}}
		h.step(step)
		if len(h.cmds) > 0 {
			trace = append(trace, h.cmds[len(h.cmds)-1])
		}
		if x.fctl.N() < pos {
			break // the position lies beyond the command's last call: this was the fault-free run, judged as such
		}
		c.Count("faults: call positions faulted", 1)
	}
	t.faultCases.Add(1)
	h.cmds = append(h.cmds[:min(len(h.cmds), np)], trace...)
	n := h.finish(dir)
	c.End(idx)
	return n
}
