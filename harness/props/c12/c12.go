// Package c12: chain-of-trust invariants hold over every key-management history.
package c12

import (
	"bytes"
	"context"
	"crypto"
	"crypto/rsa"
	"crypto/sha256"
	"crypto/x509"
	"encoding/pem"
	"fmt"
	"math/big"
	"math/rand/v2"
	"os"
	"path/filepath"
	"sort"
	"strings"
	"time"
	_ "time/tzdata" // the command timestamps are drawn in several zones, including ones with daylight saving

	"github.com/google/gce-tcb-verifier/rotate"
	styp "github.com/google/gce-tcb-verifier/sign/types"

	"verifharness/authority"
	"verifharness/core"
	"verifharness/doubles"
)

func init() {
	core.Register(&core.Info{
		ID: "C12", Level: "exploration",
		Rule: "history = generated sequence over {bootstrap, rotate, wipeout ca|keys|all} with common-name, serial-override, timestamp and overwrite / keep-going flags, over every shipped combination of key manager (memkm, localkm) and certificate authority (memca, gcsca on memory and on storage/local). " +
			"After EVERY command the authority is read back like a fresh process and the invariants are evaluated: root = self-signed CA with certSign and a 9131-day lifetime; each signing certificate created = non-CA, digitalSignature, PSS/SHA-256, issued by and verifying under the stored root, valid 1826 days from the command's timestamp, certificate serial == subject serial == predecessor+1 unless overridden; " +
			"only the primary (and the root) can sign among the key names of the current epoch; rotate creates a fresh name; certificate objects present before a command without overwrite are byte-identical after it; after wipeout no key signs / no certificate resolves. " +
			"Epoch = since the last successful bootstrap or wipeout. non-trivial = distinct (assembly, command kind, flags, outcome, position-in-epoch) cells. " +
			"Appended families, judged by the same rules (ext.go): kept = one process keeps ONE manager / signer / authority value, ONE keys+output context and ONE request struct per command kind for the whole history and the invariants are also evaluated through the kept signer and authority; " +
			"pair = two authorities operated in one process at once (free-running goroutines, or handed over at every key-manager / signer / authority call and meeting where both ask for a certificate template); " +
			"flags = the command line with flags left unset, spelled as their documented default (--rotated_key_serial_override=0), --f v / --f=v, --b / --b=true / --b=false, every overwrite x keep-going pair; " +
			"bounds = common names of length 0 / 1 / 64 / 200, with DN or path meta characters, equal to the root's; timestamps on the first and last instants of the root's validity; re-bootstraps replacing stored objects by much shorter / longer ones; " +
			"serials = 14 serial numbers next to DER, 32/64-bit and 20-octet boundaries, each followed by a default rotation; chain = more than ten rotations in one epoch; " +
			"subsec = command timestamps with a fraction of a second (1 ns ... 999999999 ns, around one half), library and command line: 'from its creation time' = notBefore is the second the creation time lies in; " +
			"faults = after a fault-free prefix ONE command (rotate / wipeout / bootstrap, any flags) is run once per component-call position with a single error injected at that position (state restored in between): " +
			"a command that fails under its fault claims nothing and is not judged, a command that REPORTS SUCCESS although a call failed is judged by all rules above",
		Assumptions: []string{"freshness of names and 'only the primary signs' are scoped to the current epoch: after bootstrap --overwrite the previous epoch's last key legitimately survives",
			"timestamps are inside the root's validity, whole seconds except in the subsec family; RSA keys are 2048-bit nonprod keys",
			"faults family: single error faults at the granularity of the key-manager / signer / authority / storage interfaces; C12's own quantifier is fault-free, so only commands that reported success are judged"},
		ShardsQuick: 8, ShardsThor: 16, TimeoutS: 1800, TimeoutThor: 5400, Run: run,
	})
}

const day = 24 * time.Hour

type epoch struct {
	active     bool
	names      map[string]bool
	lastSerial *big.Int
	n          int // commands in this epoch
}

type hist struct {
	c     *core.Ctx
	idx   int
	gname string
	a     *authority.Assembly
	ep    epoch
	cmds  []string

	r      *rand.Rand
	tag    string // evidence tag of the history's family ("cli=false", "cli=true" for the original histories)
	viaCLI bool
	longCA bool
	llKM   bool
	llLoad int
	zone   *time.Location
	now    time.Time
	// serials of the certificates created so far, by subject common name (certificate object names are CN-serial)
	usedSerials   map[string][]*big.Int
	rootNotAfter  time.Time
	rootNotBefore time.Time
	ncmd          int

	// the three stages of one step; the original histories use the legacy implementations
	pickTime func(step int)
	gen      func(step int, pre *authority.State) *command
	exec     func(cm *command) error
	x        *extra // state of the added families (nil for the original histories)
}

// command is one generated command, complete before the repository is called.
type command struct {
	op                   int // opBootstrap | opRotate | opWipeout
	kind                 string
	overwrite, keepGoing bool
	bc                   *rotate.BootstrapContext
	skc                  *rotate.SigningKeyContext
	want                 *big.Int // rotate: the serial the new certificate must carry (nil = not judged)
	wca, wkeys           bool
	args                 []string // command-line form
	note                 string   // what the added families chose (evidence only)
}

const (
	opBootstrap = iota
	opRotate
	opWipeout
)

func (h *hist) viol(rule, format string, a ...any) {
	h.c.Violate(core.Violation{Kind: "oracle", Entry: "bootstrap/rotate/wipeout", Site: rule, Gen: h.gname, Case: h.idx, Detail: fmt.Sprintf(format, a...),
		Witness: map[string]any{"commands_so_far": append([]string(nil), h.cmds...)}})
}

// certObjects lists every stored certificate object (name -> bytes).
func certObjects(a *authority.Assembly) map[string][]byte {
	out := map[string][]byte{}
	switch {
	case a.MemCAObj != nil:
		for n, c := range a.MemCAObj.Certs {
			out["memca:"+n] = append([]byte(nil), c.Raw...)
		}
	case a.MemStore != nil:
		for _, k := range a.MemStore.Keys() {
			if strings.HasSuffix(k, ".crt") {
				out[k] = append([]byte(nil), a.MemStore.Objs[k]...)
			}
		}
	default:
		root := filepath.Join(a.Dir, "ca")
		filepath.Walk(root, func(p string, info os.FileInfo, err error) error {
			if err == nil && !info.IsDir() && strings.HasSuffix(p, ".crt") {
				rel, _ := filepath.Rel(root, p)
				b, _ := os.ReadFile(p)
				out[rel] = b
			}
			return nil
		})
	}
	return out
}

func canSign(st *authority.State, name string) bool {
	if st.Signer == nil {
		return false
	}
	d := sha256.Sum256([]byte("probe"))
	_, err := st.Signer.Sign(context.Background(), name, styp.Digest{SHA256: d[:]}, &rsa.PSSOptions{SaltLength: rsa.PSSSaltLengthEqualsHash, Hash: crypto.SHA256})
	return err == nil
}

func (h *hist) checkRoot(root *x509.Certificate, now time.Time, what string) {
	if root == nil {
		h.viol("root-certificate-missing", "%s: no stored, parseable root certificate", what)
		return
	}
	if err := root.CheckSignature(root.SignatureAlgorithm, root.RawTBSCertificate, root.Signature); err != nil || !bytes.Equal(root.RawIssuer, root.RawSubject) {
		h.viol("root-not-self-signed", "%s: %v", what, err)
	}
	if !root.IsCA || !root.BasicConstraintsValid {
		h.viol("root-not-a-ca", "%s: IsCA=%v", what, root.IsCA)
	}
	if root.KeyUsage&x509.KeyUsageCertSign == 0 {
		h.viol("root-without-cert-sign-usage", "%s: key usage %v", what, root.KeyUsage)
	}
	if got := root.NotAfter.Sub(root.NotBefore); got != time.Duration(styp.RootValidDays)*day || styp.RootValidDays != 9131 {
		h.viol("root-lifetime-not-25-years", "%s: root valid for %v days, documented %d", what, got.Hours()/24, 9131)
	}
	// certificate times have one-second resolution: "from the command time" = from the second the command time lies in
	// (a certificate must not begin after its own creation); the generated whole-second timestamps are unchanged by this
	if !root.NotBefore.Equal(now.Truncate(time.Second)) {
		h.viol("root-not-valid-from-command-time", "%s: notBefore %v, command time %v", what, root.NotBefore, now)
	}
}

func (h *hist) checkSigning(cert, root *x509.Certificate, now time.Time, wantSerial *big.Int, what string) {
	if cert == nil {
		h.viol("signing-certificate-missing", "%s: the primary signing key has no stored, parseable certificate", what)
		return
	}
	if cert.IsCA {
		h.viol("signing-certificate-is-ca", "%s", what)
	}
	if cert.KeyUsage&x509.KeyUsageDigitalSignature == 0 {
		h.viol("signing-certificate-without-digital-signature-usage", "%s: key usage %v", what, cert.KeyUsage)
	}
	if cert.SignatureAlgorithm != x509.SHA256WithRSAPSS {
		h.viol("signing-certificate-not-pss-sha256", "%s: %v", what, cert.SignatureAlgorithm)
	}
	if root != nil {
		if err := root.CheckSignature(cert.SignatureAlgorithm, cert.RawTBSCertificate, cert.Signature); err != nil || !bytes.Equal(cert.RawIssuer, root.RawSubject) {
			h.viol("signing-certificate-not-issued-by-root", "%s: %v", what, err)
		}
	}
	if got := cert.NotAfter.Sub(cert.NotBefore); got != 1826*day || !cert.NotBefore.Equal(now.Truncate(time.Second)) {
		h.viol("signing-certificate-lifetime", "%s: valid [%v, %v] (%v days), want 1826 days from the command time %v", what, cert.NotBefore.Format(time.RFC3339Nano), cert.NotAfter.Format(time.RFC3339Nano), got.Hours()/24, now.Format(time.RFC3339Nano))
	}
	subj, ok := new(big.Int).SetString(cert.Subject.SerialNumber, 10)
	if !ok || cert.SerialNumber.Cmp(subj) != 0 {
		h.viol("certificate-serial-differs-from-subject-serial", "%s: certificate serial %v, subject serial %q", what, cert.SerialNumber, cert.Subject.SerialNumber)
	}
	if ok && wantSerial != nil && subj.Cmp(wantSerial) != 0 {
		h.viol("serial-not-predecessor-plus-one-or-override", "%s: subject serial %v, want %v", what, subj, wantSerial)
	}
}

var t0 = time.Date(2025, 1, 1, 0, 0, 0, 0, time.UTC)

var zoneNames = []string{"UTC", "America/New_York", "Europe/Berlin", "Australia/Lord_Howe", "Asia/Kolkata"}

// drawZone: the operator's clock may be in any zone; lifetimes are absolute durations whatever the zone.
func drawZone(r *rand.Rand) *time.Location {
	zone, zerr := time.LoadLocation(zoneNames[r.IntN(5)])
	if zerr != nil {
		zone = time.UTC
	}
	return zone
}

// legacyTime advances the history's clock: days to years forward, biased to daylight-saving switches, always
// inside the root's validity.
func (h *hist) legacyTime(step int) {
	r, now := h.r, h.now
	now = now.Add(time.Duration(1+r.IntN(400)) * day).Add(time.Duration(r.IntN(86400)) * time.Second).In(h.zone)
	if r.IntN(3) == 0 {
		// land near the zone's next daylight-saving switch (calendar arithmetic and absolute durations differ there)
		for d := 0; d < 400; d++ {
			t := now.Add(time.Duration(d) * day)
			_, o1 := t.Zone()
			_, o2 := t.Add(day).Zone()
			if o1 != o2 {
				now = t.Add(time.Duration(r.IntN(5)-2) * day).Add(time.Duration(r.IntN(7200)) * time.Second)
				break
			}
		}
	}
	if r.IntN(8) == 0 {
		now = now.Add(time.Duration(5*365+r.IntN(15*365)) * day) // years later: still inside a 25-year root
	}
	if !h.rootNotAfter.IsZero() && !now.Before(h.rootNotAfter.Add(-2*day)) {
		now = h.rootNotAfter.Add(-time.Duration(2+r.IntN(1500)) * day).In(h.zone) // timestamps stay inside the root's validity
	}
	h.now = now
}

func boolFlags(overwrite, keepGoing bool) []string {
	var fl []string
	if overwrite {
		fl = append(fl, "--overwrite")
	}
	if keepGoing {
		fl = append(fl, "--keep_going")
	}
	return fl
}

// legacyGen draws one command of an original history.
func (h *hist) legacyGen(step int, pre *authority.State) *command {
	r, c, viaCLI, longCA, now := h.r, h.c, h.viaCLI, h.longCA, h.now
	// the documented form of a serial flag is a decimal number; operators pad them ("007"), which is still decimal
	dec := func(n *big.Int) string {
		s := n.String()
		if viaCLI && r.IntN(2) == 0 {
			s = strings.Repeat("0", 1+r.IntN(3)) + s
			c.Count("zero-padded-decimal-serial-flags", 1)
		}
		return s
	}
	overwrite := r.IntN(3) == 0
	// keep-going turns refusals to replace an object into silent skips: without overwrite a command over existing
	// objects may legitimately certify nothing and still succeed. The creation clauses are therefore applied
	// to certificates that were actually created by the command (the stored bytes changed).
	keepGoing := r.IntN(4) == 0
	x := r.IntN(10)
	if longCA && h.ep.active && step%3 == 1 {
		// the value that served the first epoch now re-bootstraps over it (new serials, new root), and goes on rotating
		x, overwrite, keepGoing = 0, true, false
	} else if longCA && h.ep.active && step%3 == 2 {
		x = 6 // rotate
	}
	cm := &command{}
	switch {
	case x < 2 || (!h.ep.active && x < 6):
		cm.op, cm.kind = opBootstrap, "bootstrap"
		bc := &rotate.BootstrapContext{RootKeyCommonName: "rootCn", SigningKeyCommonName: "signingKeyCn", RootKeySerial: big.NewInt(1), SigningKeySerial: big.NewInt(2), Now: now}
		if r.IntN(3) == 0 || (longCA && h.ep.active) || (viaCLI && r.IntN(2) == 0) {
			bc.RootKeySerial, bc.SigningKeySerial = big.NewInt(int64(1+r.IntN(500))), big.NewInt(int64(1000+r.IntN(500)))
			cm.kind = "bootstrap(serials)"
			if r.IntN(3) == 0 { // serial numbers are arbitrary-precision: beyond 64 bits
				bc.SigningKeySerial = new(big.Int).Add(new(big.Int).Lsh(big.NewInt(int64(1+r.IntN(1000))), uint(63+r.IntN(40))), big.NewInt(int64(r.IntN(1000))))
			}
		}
		if r.IntN(4) == 0 {
			bc.SigningKeyCommonName = fmt.Sprintf("signer-%d", step)
		}
		cm.bc = bc
		if viaCLI {
			cm.args = append([]string{"bootstrap", "--timestamp", now.Format(time.RFC3339), "--root_key_cn", bc.RootKeyCommonName, "--signing_key_cn", bc.SigningKeyCommonName,
				"--root_key_serial", dec(bc.RootKeySerial), "--initial_signing_key_serial", dec(bc.SigningKeySerial)}, boolFlags(overwrite, keepGoing)...)
		}
	case x < 8:
		cm.op, cm.kind = opRotate, "rotate"
		skc := &rotate.SigningKeyContext{SigningKeyCommonName: "signingKeyCn", Now: now}
		if h.ep.active && pre.PrimaryCert != nil {
			// "one greater than its predecessor's": the predecessor is the certificate of the primary before the command
			if ps, ok := new(big.Int).SetString(pre.PrimaryCert.Subject.SerialNumber, 10); ok {
				cm.want = new(big.Int).Add(ps, big.NewInt(1))
			}
		}
		xs := r.IntN(12)
		if viaCLI && r.IntN(3) == 0 {
			xs = 0 // the command line is where serial overrides are typed
		}
		used := h.usedSerials["signingKeyCn"]
		switch x := xs; {
		case x < 2:
			skc.SigningKeySerial = big.NewInt(int64(5000 + 100*step + r.IntN(50)))
			cm.kind = "rotate(serial-override)"
		case x == 2: // beyond 64 bits
			skc.SigningKeySerial = new(big.Int).Add(new(big.Int).Lsh(big.NewInt(int64(1+r.IntN(1000))), uint(63+r.IntN(40))), big.NewInt(int64(r.IntN(1000))))
			cm.kind = "rotate(serial-override>64bit)"
		case x == 3 && len(used) > 0: // a serial (hence a certificate object name) that is already taken in this authority
			skc.SigningKeySerial = new(big.Int).Set(used[r.IntN(len(used))])
			cm.kind = "rotate(serial-override=existing)"
		}
		if skc.SigningKeySerial != nil {
			cm.want = skc.SigningKeySerial
		}
		if cm.kind != "rotate(serial-override=existing)" && r.IntN(4) == 0 {
			skc.SigningKeyCommonName = fmt.Sprintf("signer-%d", step)
		}
		cm.skc = skc
		if viaCLI {
			args := []string{"rotate", "--timestamp", now.Format(time.RFC3339), "--signing_key_cn", skc.SigningKeyCommonName}
			if skc.SigningKeySerial != nil {
				args = append(args, "--rotated_key_serial_override", dec(skc.SigningKeySerial))
			}
			cm.args = append(args, boolFlags(overwrite, keepGoing)...)
		}
	default:
		cm.op, cm.wca, cm.wkeys, cm.kind = opWipeout, true, true, "wipeout"
		switch r.IntN(3) {
		case 0:
			cm.wkeys, cm.kind = false, "wipeout ca"
		case 1:
			cm.wca, cm.kind = false, "wipeout keys"
		}
		if viaCLI {
			args := []string{"wipeout"}
			if !cm.wkeys {
				args = append(args, "ca")
			} else if !cm.wca {
				args = append(args, "keys")
			}
			cm.args = append(args, boolFlags(overwrite, keepGoing)...)
		}
	}
	cm.overwrite, cm.keepGoing = overwrite, keepGoing
	return cm
}

// legacyExec runs the command through the library entry points (fresh components per command, like a new
// process) or through cmd.MakeApp.
func (h *hist) legacyExec(cm *command) (err error) {
	a, f := h.a, &doubles.FCtl{}
	opts := authority.Opts{Overwrite: cm.overwrite, KeepGoing: cm.keepGoing}
	if cm.op == opWipeout && h.llKM {
		a.LongLivedKM = true // this command is run by the long-lived manager value
		defer func() {
			a.LongLivedKM = false
			h.c.Count("wipeouts-run-by-a-long-lived-key-manager-value", 1)
		}()
	}
	if h.viaCLI {
		return a.CLI(cm.args...)
	}
	switch cm.op {
	case opBootstrap:
		return a.Bootstrap(f, opts, cm.bc)
	case opRotate:
		_, err = a.Rotate(f, opts, cm.skc)
		return err
	}
	return a.Wipeout(f, opts, cm.wca, cm.wkeys)
}

func (h *hist) noteSerial(cert *x509.Certificate) {
	if cert == nil {
		return
	}
	if ser, ok := new(big.Int).SetString(cert.Subject.SerialNumber, 10); ok {
		h.ep.lastSerial = ser
		h.usedSerials[cert.Subject.CommonName] = append(h.usedSerials[cert.Subject.CommonName], ser)
	}
}

// step runs one command of the history and evaluates the invariants after it.
func (h *hist) step(step int) {
	c, a := h.c, h.a
	h.pickTime(step)
	now := h.now
	pre := a.Observe()
	if h.llKM && step == h.llLoad {
		a.LongLivedKM = true
		a.Context(&doubles.FCtl{}, authority.Opts{}) // the long-lived process starts now and loads the key directory
		a.LongLivedKM = false
	}
	cm := h.gen(step, pre)
	kind, overwrite, keepGoing := cm.kind, cm.overwrite, cm.keepGoing
	before := certObjects(a)
	existed := map[string]bool{}
	for _, b := range before {
		if blk, _ := pem.Decode(b); blk != nil {
			existed[string(blk.Bytes)] = true
		} else {
			existed[string(b)] = true
		}
	}
	var known []string
	if cm.op == opWipeout {
		for n := range h.ep.names {
			known = append(known, n)
		}
		if pst := a.Observe(); pst.Err == "" {
			known = append(known, pst.Root, pst.Primary)
		}
	}
	err := h.exec(cm)
	c.Eval(1)
	if h.x != nil && h.x.faults && h.x.faultNotJudged(h, cm, err) {
		return // the command failed under its injected fault: it claimed nothing, nothing is judged
	}
	what := fmt.Sprintf("after %s at step %d", kind, step)
	switch {
	case err != nil:
	case cm.op == opBootstrap:
		bc := cm.bc
		st := a.Observe()
		h.ep = epoch{active: true, names: map[string]bool{st.Root: true, st.Primary: true}, lastSerial: bc.SigningKeySerial, n: 0}
		// created by this command = not among the certificates stored before it
		rootCreated := st.RootCert != nil && !existed[string(st.RootCert.Raw)]
		signCreated := st.PrimaryCert != nil && !existed[string(st.PrimaryCert.Raw)]
		if rootCreated {
			h.checkRoot(st.RootCert, now, what)
		}
		if signCreated {
			h.checkSigning(st.PrimaryCert, st.RootCert, now, bc.SigningKeySerial, what)
		}
		if (!rootCreated || !signCreated) && !keepGoing {
			h.viol("bootstrap-succeeded-without-certifying", "%s: root created=%v signing certificate created=%v although keep-going was not given", what, rootCreated, signCreated)
		}
		if !rootCreated || !signCreated {
			c.Count("commands-that-certified-nothing-under-keep-going", 1)
		}
		h.noteSerial(st.PrimaryCert)
		if st.RootCert != nil {
			h.rootNotAfter, h.rootNotBefore = st.RootCert.NotAfter, st.RootCert.NotBefore
		}
		if h.x != nil {
			h.x.afterCertifying(h, cm, st, existed, what)
		}
	case cm.op == opRotate:
		st := a.Observe()
		if h.ep.active {
			if h.ep.names[st.Primary] {
				h.viol("key-version-name-reused", "%s: rotation named the new key %q which was already used in this epoch", what, st.Primary)
			}
			if st.Primary == pre.Primary {
				h.viol("rotation-did-not-change-primary", "%s: primary still %q", what, st.Primary)
			}
			h.ep.names[st.Primary] = true
			if st.PrimaryCert != nil && existed[string(st.PrimaryCert.Raw)] {
				h.viol("rotation-succeeded-without-certifying", "%s: the new primary %q carries a certificate that was stored before the rotation", what, st.Primary)
			}
			h.checkSigning(st.PrimaryCert, st.RootCert, now, cm.want, what)
			h.noteSerial(st.PrimaryCert)
		} else {
			// rotation on an authority that is not in a known epoch (after a partial wipeout): profile only
			h.checkSigning(st.PrimaryCert, st.RootCert, now, nil, what)
		}
		if h.x != nil {
			h.x.afterCertifying(h, cm, st, existed, what)
		}
	default:
		st := a.Observe()
		for _, n := range known {
			if n == "" {
				continue
			}
			if cm.wkeys && canSign(st, n) {
				h.viol("key-usable-after-wipeout", "%s: key %q can still sign", what, n)
			}
			if cm.wca {
				if _, cerr := st.CA.Certificate(context.Background(), n); cerr == nil {
					h.viol("certificate-resolves-after-wipeout", "%s: certificate of %q still resolves", what, n)
				}
			}
		}
		if cm.wca && (st.Primary != "" || st.Root != "") {
			h.viol("authority-still-names-keys-after-wipeout", "%s: root=%q primary=%q", what, st.Root, st.Primary)
		}
		if cm.wca && len(certObjects(a)) != 0 {
			h.viol("certificate-objects-left-after-wipeout", "%s: %d objects", what, len(certObjects(a)))
		}
		if h.x != nil {
			h.x.afterWipeout(h, cm, known, what)
		}
		h.ep = epoch{}
	}
	h.ncmd++
	outcome := "ok"
	if err != nil {
		outcome = "refused"
		a.DropLongLived() // a careful service discards its authority value after a failed command (C10 owns the other kind)
	}
	if h.longCA {
		c.Count("commands-run-by-a-long-lived-authority-value", 1)
	}
	h.cmds = append(h.cmds, fmt.Sprintf("%s overwrite=%v keep_going=%v now=%s -> %v", kind, overwrite, keepGoing, now.Format("2006-01-02"), err)+cm.note)
	// every command: certificates present before and not allowed to be overwritten are unchanged
	if !overwrite && cm.op != opWipeout {
		after := certObjects(a)
		for n, b := range before {
			if nb, ok := after[n]; !ok || !bytes.Equal(nb, b) {
				h.viol("certificate-object-changed-without-overwrite", "after %s at step %d: object %s %s", kind, step, n, map[bool]string{true: "changed", false: "disappeared"}[ok])
			}
		}
		h.c.Count("certificate-objects-compared-for-no-clobber", len(before))
	}
	// every command inside an epoch: only the primary and the root can sign
	if h.ep.active {
		st := a.Observe()
		var names []string
		for n := range h.ep.names {
			names = append(names, n)
		}
		sort.Strings(names)
		for _, n := range names {
			if n != st.Primary && n != st.Root && canSign(st, n) {
				h.viol("non-primary-key-can-sign", "after %s at step %d: key %q (not the primary %q) can still sign", kind, step, n, st.Primary)
			}
		}
		if st.Primary != "" && err == nil && !canSign(st, st.Primary) {
			h.viol("primary-cannot-sign", "after %s at step %d: primary %q cannot sign", kind, step, st.Primary)
		}
		if h.x != nil {
			h.x.afterEvery(h, cm, st, names, err, what)
		}
		h.ep.n++
	}
	if h.x == nil {
		c.Cell("%s|%s|%s|overwrite=%v|%s|epoch-pos=%d", a.Name(), h.tag, kind, overwrite, outcome, min(h.ep.n, 5))
	} else {
		c.Cell("%s|%s|%s|overwrite=%v keep_going=%v|%s|epoch-pos=%d", a.Name(), h.tag, kind, overwrite, keepGoing, outcome, min(h.ep.n, 3))
		h.x.evidence(h, cm, before, err)
	}
	if h.viaCLI {
		c.Count("commands-run-through-the-command-line", 1)
	}
}

func run(c *core.Ctx) {
	pairs := authority.Pairs()
	nh := c.N(48, 240)
	cmdCount := 0
	for hi := 0; hi < nh; hi++ {
		if !c.Mine(hi) {
			continue
		}
		r := c.Rand(hi)
		p := pairs[hi%len(pairs)]
		dir, _ := os.MkdirTemp("", "verif-c12-")
		a := authority.New(p[0], p[1], dir)
		// where the shipped nonprod command line keeps its state the same way, half of the histories run their commands
		// through cmd.MakeApp (flag parsing and component composition included) instead of the library entry points
		viaCLI := a.CLIable() && (hi/len(pairs))%2 == 1
		// a service that keeps ONE certificate-authority value across its commands (storage-backed authorities, library path)
		longCA := a.CA != authority.MemCA && !viaCLI && (hi/len(pairs))%4 == 2
		a.LongLived = longCA
		h := &hist{c: c, idx: hi, gname: fmt.Sprintf("history#%d %s cli=%v long-lived-ca=%v", hi, a.Name(), viaCLI, longCA), a: a,
			r: r, tag: fmt.Sprintf("cli=%v", viaCLI), viaCLI: viaCLI, longCA: longCA, now: t0, usedSerials: map[string][]*big.Int{}}
		h.pickTime, h.gen, h.exec = h.legacyTime, h.legacyGen, h.legacyExec
		c.Begin(hi, h.gname, "bootstrap/rotate/wipeout", nil)
		h.zone = drawZone(r)
		// a localkm manager value that outlives commands run by other processes on the same key directory: it is loaded
		// at some point of the history and later used for wipeout commands only
		h.llKM = a.KM == authority.LocalKM && !viaCLI && (hi/len(pairs))%3 == 2
		h.llLoad = r.IntN(4)
		ncmd := c.N(8, 12)
		for step := 0; step < ncmd; step++ {
			h.step(step)
		}
		cmdCount += h.ncmd
		if os.Getenv("VERIF_C12_TRACE") != "" {
			c.Note("trace %s :: %s :: %x", h.gname, strings.Join(h.cmds, " ; "), r.Uint64())
		}
		if hi < 5 {
			c.Sample(map[string]any{"history": h.gname, "commands": h.cmds})
		}
		c.End(hi)
		os.RemoveAll(dir)
	}
	cmdCount += runExtra(c, nh)
	c.Count("commands-run", cmdCount)
	c.Floor("commands-run", cmdCount > 0)
}
