package c11

// Workload dimensions added after the audit of the seeded-change misses. Every family below produces bootstraps of an
// empty store and later rotations only (the property's entry points), and every command is judged by the same
// store-level rules as before: after every prefix of the object writes the command completed (checkWrites) and at its
// end (consistent on the store as a fresh process reads it) the reloaded authority must be consistent. No family
// demands that a command succeeds.
//
//   10000+  rotations that continue a history after an interrupted rotation (crash or reported error at six points):
//           the interrupted run's leftovers (orphan certificate object, unrecorded key) are in the store, the follow-up
//           rotations use the same / the default / a new / a zero serial, every overwrite x keep-going combination, a
//           fresh process or the authority value that saw the error.
//   20000+  fault-free histories whose rotations draw every overwrite x keep-going combination and serial numbers that
//           are unset, zero, new, beyond 64 bits or COLLIDING with a stored certificate object, run by fresh processes,
//           by one long-lived authority value, or by a mix of both (the long-lived value is then stale), with one
//           SigningKeyContext value re-used and edited in place between commands.
//   30000+  a second, complete command on ANOTHER store and authority nested at every call position of a bootstrap and
//           of a rotation (two commands in flight in one process; process-wide state inside the library would leak).
//   40000+  groups of authorities on disjoint stores bootstrapping and rotating in parallel goroutines.
//   50000+  storage weather: pairs, bursts and persistent outages of failing storage calls (all calls or object writes
//           only), failing at open / write / commit, with plain, status-coded and context errors.
//   60000+  bootstraps of an empty store under every overwrite x keep-going combination with equal, zero, unset and >64-bit
//           serials, nested and empty common names, and both certificates mapping to one object name; then one rotation.

import (
	"context"
	"errors"
	"fmt"
	"io"
	"math/big"
	"os"
	"sort"
	"strings"
	"sync"
	"time"

	"github.com/google/gce-tcb-verifier/keys"
	"github.com/google/gce-tcb-verifier/rotate"
	"github.com/google/gce-tcb-verifier/sign/gcsca"
	sops "github.com/google/gce-tcb-verifier/sign/ops"
	"github.com/google/gce-tcb-verifier/storage/storagei"
	"google.golang.org/grpc/codes"
	"google.golang.org/grpc/status"

	"verifharness/authority"
	"verifharness/core"
	"verifharness/doubles"
)

const signerCN = "signingKeyCn"

// ---- shared, bootstrapped base authorities (restored from a snapshot per case) ----

type world struct {
	a      *authority.Assembly
	snap   *authority.Snap
	dir    string
	btrace []string
	rtrace []string
}

type worlds struct {
	c  *core.Ctx
	t0 time.Time
	m  map[string]*world
}

func (w *worlds) get(slot, km, caKind string) *world {
	key := slot + "|" + km + "|" + caKind
	if x, ok := w.m[key]; ok {
		return x
	}
	dir, _ := os.MkdirTemp("", "verif-c11x-")
	a := authority.New(km, caKind, dir)
	f0 := &doubles.FCtl{}
	if err := a.Bootstrap(f0, authority.Opts{}, authority.DefaultBootstrap(w.t0)); err != nil {
		w.c.Oracle(9999, "rotate.Bootstrap", "fault-free-bootstrap-failed", a.Name(), "%v", err)
		os.RemoveAll(dir)
		w.m[key] = nil
		return nil
	}
	x := &world{a: a, dir: dir, btrace: f0.Names(), snap: a.Snapshot()}
	f1 := &doubles.FCtl{}
	if _, err := a.Rotate(f1, authority.Opts{}, &rotate.SigningKeyContext{SigningKeyCommonName: signerCN, Now: w.t0.Add(24 * time.Hour)}); err != nil {
		w.c.Oracle(9999, "rotate.Key", "fault-free-rotation-failed", a.Name(), "%v", err)
	}
	x.rtrace = f1.Names()
	a.Restore(x.snap)
	w.m[key] = x
	return x
}

func (w *worlds) close() {
	for _, x := range w.m {
		if x != nil {
			os.RemoveAll(x.dir)
		}
	}
}

// ---- helpers ----

func flagsOf(v int) authority.Opts { return authority.Opts{Overwrite: v&1 != 0, KeepGoing: v&2 != 0} }

// nextDefaultSerial is the serial the command line would pick: the stored primary's subject serial + 1 (nil if unknown).
func nextDefaultSerial(a *authority.Assembly) *big.Int {
	st := a.Observe()
	if st.PrimaryCert == nil {
		return nil
	}
	z, ok := new(big.Int).SetString(st.PrimaryCert.Subject.SerialNumber, 0)
	if !ok {
		return nil
	}
	return z.Add(z, big.NewInt(1))
}

func certObject(cn string, serial *big.Int) string {
	return authority.Bucket + "/" + authority.CertDir + "/" + cn + "-" + serial.String() + ".crt"
}

func wroteManifest(ws []doubles.Write) bool {
	for _, w := range ws {
		if w.Object == gcsca.ManifestObjectName {
			return true
		}
	}
	return false
}

// wrapStore puts wrap(...) between the command's gcsca value and its (recording) store.
func wrapStore(ctx context.Context, wrap func(storagei.Client) storagei.Client) bool {
	kc, err := keys.FromContext(ctx)
	if err != nil {
		return false
	}
	fca, ok := kc.CA.(*doubles.FCA)
	if !ok {
		return false
	}
	g, ok := fca.Inner.(*gcsca.CertificateAuthority)
	if !ok {
		return false
	}
	g.Storage = wrap(g.Storage)
	return true
}

// rotateWith runs rotate.Key the way the command line does and hands the caller's *SigningKeyContext ITSELF (not a
// copy) to the repository: an unset or zero serial is replaced, in that struct, by the predecessor's serial + 1.
func rotateWith(a *authority.Assembly, f *doubles.FCtl, o authority.Opts, skc *rotate.SigningKeyContext, wrap func(storagei.Client) storagei.Client) (string, error) {
	ctx, err := a.Context(f, o)
	if err != nil {
		return "", err
	}
	if wrap != nil && !wrapStore(ctx, wrap) {
		return "", errors.New("harness: cannot wrap the store")
	}
	ctx = rotate.NewSigningKeyContext(ctx, skc)
	if skc.SigningKeySerial == nil || skc.SigningKeySerial.Sign() == 0 {
		s, err := sops.NextSigningKeySerial(ctx)
		if err != nil {
			return "", err
		}
		skc.SigningKeySerial = s
	}
	return rotate.Key(ctx)
}

func bootstrapWith(a *authority.Assembly, f *doubles.FCtl, o authority.Opts, bc *rotate.BootstrapContext, wrap func(storagei.Client) storagei.Client) error {
	ctx, err := a.Context(f, o)
	if err != nil {
		return err
	}
	if wrap != nil && !wrapStore(ctx, wrap) {
		return errors.New("harness: cannot wrap the store")
	}
	return rotate.Bootstrap(rotate.NewBootstrapContext(ctx, bc))
}

// judge applies the store rules to one command: every prefix of its completed writes, and the store at its end.
func (k *checker) judge(idx int, gname, label, store string, pre *doubles.MemStore, writes []doubles.Write, final *doubles.MemStore, err error) bool {
	k.checkWrites(idx, gname, label, store, pre, writes)
	if msg := consistent(final); msg != "" {
		k.c.Violate(core.Violation{Kind: "oracle", Entry: label, Site: "inconsistent-store-after-command", Gen: gname, Case: idx,
			Detail:  fmt.Sprintf("%s on %s returned %v; the authority reloaded from the store it left is inconsistent: %s", label, store, err, msg),
			Witness: map[string]any{"writes": names(writes), "objects": final.Keys()}})
		return false
	}
	return true
}

func errTag(err error, crashed bool) string {
	switch {
	case crashed:
		return "crashed"
	case err == nil:
		return "ok"
	case status.Code(err) == codes.AlreadyExists:
		return "refused-already-exists"
	}
	return "error"
}

func extra(c *core.Ctx, k *checker, t0 time.Time) {
	w := &worlds{c: c, t0: t0, m: map[string]*world{}}
	defer w.close()
	afterInterruption(c, k, w, t0)
	flagHistories(c, k, w, t0)
	interleaved(c, k, w, t0)
	parallel(c, k, t0)
	weatherFamily(c, k, w, t0)
	bootstrapOptions(c, k, t0)
	configured(c, k, t0)
	shortWrites(c, k, w, t0)
	commandLine(c, k, t0)
	longHistories(c, k, t0)
}

// ---- 10000+: a history continues after an interrupted rotation ----

var interruptions = []struct{ name, match, kind string }{
	{"crash-after-certificate-upload", "storage.Write:" + authority.CertDir + "/", doubles.FaultCrashAfter},
	{"error-at-manifest-write", "storage.Write:" + gcsca.ManifestObjectName, doubles.FaultError},
	{"error-at-certificate-upload", "storage.Write:" + authority.CertDir + "/", doubles.FaultError},
	{"crash-before-manifest-write", "storage.Write:" + gcsca.ManifestObjectName, doubles.FaultCrashBefore},
	{"crash-after-manifest-write", "storage.Write:" + gcsca.ManifestObjectName, doubles.FaultCrashAfter},
	{"error-at-destroy-previous-key", "manager.DestroyKeyVersion", doubles.FaultError},
}

func afterInterruption(c *core.Ctx, k *checker, w *worlds, t0 time.Time) {
	n := c.N(72, 288)
	var followUps, collided, collidedRefused, collidedReplaced, sameValue, flagsChanged int
	for i := 0; i < n; i++ {
		idx := 10000 + i
		if !c.Mine(idx) {
			continue
		}
		r := c.Rand(idx)
		caKind := authority.GcscaMem
		if i%2 == 1 {
			caKind = authority.GcscaDisk
		}
		km := authority.MemKM
		if c.Thorough() && (i/12)%2 == 1 {
			km = authority.LocalKM
		}
		in := interruptions[(i/2)%len(interruptions)]
		b := w.get("main", km, caKind)
		if b == nil {
			continue
		}
		a := b.a
		a.Restore(b.snap)
		isCrash := in.kind != doubles.FaultError
		keepValue := !isCrash && r.IntN(2) == 0 // the authority value that saw the error goes on serving
		gname := fmt.Sprintf("after-interruption#%d %s %s same-authority-value=%v", i, a.Name(), in.name, keepValue)
		c.Begin(idx, gname, "rotate.Key", nil)
		day := 0
		now := func() time.Time { day++; return t0.Add(time.Duration(day) * 24 * time.Hour) }
		var hist []string
		// some depth first
		for d := r.IntN(2); d > 0; d-- {
			f := &doubles.FCtl{}
			pre := storeOf(a)
			_, err := a.Rotate(f, authority.Opts{}, &rotate.SigningKeyContext{SigningKeyCommonName: signerCN, Now: now()})
			c.Eval(1)
			k.judge(idx, gname, "rotate", caKind, pre, f.Writes, storeOf(a), err)
		}
		a.LongLived = keepValue
		// the interrupted rotation
		S := nextDefaultSerial(a)
		if S == nil {
			c.Oracle(idx, "rotate.Key", "harness-cannot-read-primary", gname, "no primary certificate after fault-free commands")
			c.End(idx)
			continue
		}
		explicit := r.IntN(2) == 0
		if explicit {
			S = big.NewInt(int64(700 + r.IntN(20)))
		}
		flags0 := 0
		if r.IntN(3) == 0 {
			flags0 = r.IntN(4)
		}
		{
			f := &doubles.FCtl{Match: in.match, MatchKind: in.kind}
			skc := &rotate.SigningKeyContext{SigningKeyCommonName: signerCN, Now: now()}
			if explicit {
				skc.SigningKeySerial = new(big.Int).Set(S)
			}
			pre := storeOf(a)
			err, crashed := doubles.RunCrashable(func() error { _, e := rotateWith(a, f, flagsOf(flags0), skc, nil); return e })
			c.Eval(1)
			if crashed {
				a.DropLongLived()
			}
			k.judge(idx, gname, "interrupted-rotation", caKind, pre, f.Writes, storeOf(a), err)
			hist = append(hist, fmt.Sprintf("interrupted(%s, serial %v, flags %d) -> %s writes=%v", in.name, S, flags0, errTag(err, crashed), names(f.Writes)))
		}
		// the history goes on
		m := 1 + r.IntN(2)
		for j := 0; j < m; j++ {
			fl := r.IntN(4)
			mode := []string{"same", "same", "default", "new", "zero"}[r.IntN(5)]
			if j > 0 {
				mode = []string{"same", "default", "new", "zero"}[r.IntN(4)]
			}
			skc := &rotate.SigningKeyContext{SigningKeyCommonName: signerCN, Now: now()}
			eff := nextDefaultSerial(a)
			switch mode {
			case "same":
				skc.SigningKeySerial = new(big.Int).Set(S)
				eff = S
			case "new":
				skc.SigningKeySerial = big.NewInt(int64(900 + 10*j + r.IntN(5)))
				eff = skc.SigningKeySerial
			case "zero":
				skc.SigningKeySerial = big.NewInt(0)
			}
			useValue := keepValue && r.IntN(4) != 0
			a.LongLived = useValue
			pre := storeOf(a)
			collides := false
			if eff != nil {
				_, collides = pre.Objs[certObject(signerCN, eff)]
			}
			f := &doubles.FCtl{}
			_, err := rotateWith(a, f, flagsOf(fl), skc, nil)
			c.Eval(1)
			k.judge(idx, gname, "rotate-after-interruption", caKind, pre, f.Writes, storeOf(a), err)
			followUps++
			if useValue {
				sameValue++
			}
			if fl != flags0 {
				flagsChanged++
			}
			if collides {
				collided++
				switch {
				case err != nil && !wroteManifest(f.Writes):
					collidedRefused++
				case len(f.Writes) > 0:
					collidedReplaced++
				}
			}
			val := "fresh-process"
			if useValue {
				val = "same-authority-value"
			}
			c.Cell("after|%s|%s|%s|serial=%s|ow=%v|kg=%v|leftover-object-collision=%v|%s|manifest-written=%v", caKind, in.name, val, mode,
				fl&1 != 0, fl&2 != 0, collides, errTag(err, false), wroteManifest(f.Writes))
			hist = append(hist, fmt.Sprintf("rotate(serial %s, flags %d, %s) collides=%v -> %s writes=%v", mode, fl, val, collides, errTag(err, false), names(f.Writes)))
		}
		a.LongLived = false
		a.DropLongLived()
		if i < 6 {
			c.Sample(map[string]any{"history": gname, "commands": hist})
		}
		c.End(idx)
	}
	c.Count("after-interruption/follow-up-rotations", followUps)
	c.Count("after-interruption/follow-ups-whose-certificate-object-name-was-taken-by-a-leftover", collided)
	c.Count("after-interruption/collisions-refused-without-a-manifest-write", collidedRefused)
	c.Count("after-interruption/collisions-that-replaced-the-object", collidedReplaced)
	c.Count("after-interruption/follow-ups-on-the-authority-value-that-saw-the-error", sameValue)
	c.Count("after-interruption/follow-ups-with-other-flags-than-the-interrupted-run", flagsChanged)
	c.Floor("some-follow-up-rotation-met-a-leftover-object", collided > 0)
	c.Floor("some-follow-up-rotation-on-the-same-authority-value", sameValue > 0)
}

// ---- 20000+: flag x serial x process-model histories ----

func flagHistories(c *core.Ctx, k *checker, w *worlds, t0 time.Time) {
	n := c.N(36, 144)
	var rots, stale, collOw, collNoOw, reused, shorter, shorterDisk int
	for i := 0; i < n; i++ {
		idx := 20000 + i
		if !c.Mine(idx) {
			continue
		}
		r := c.Rand(idx)
		caKind := authority.GcscaMem
		if i%2 == 1 {
			caKind = authority.GcscaDisk
		}
		km := authority.MemKM
		if c.Thorough() && (i/6)%2 == 1 {
			km = authority.LocalKM
		}
		procs := []string{"fresh-processes", "one-long-lived-value", "mixed", "mixed"}[(i/2)%4]
		b := w.get("main", km, caKind)
		if b == nil {
			continue
		}
		a := b.a
		a.Restore(b.snap)
		reuse := r.IntN(2) == 0
		gname := fmt.Sprintf("flag-history#%d %s %s reused-signing-key-context=%v", i, a.Name(), procs, reuse)
		c.Begin(idx, gname, "rotate.Key", nil)
		shared := &rotate.SigningKeyContext{SigningKeyCommonName: signerCN}
		nrot := 3 + r.IntN(c.N(2, 4))
		if procs == "mixed" {
			nrot = 5
		}
		llExists, llFresh := false, true // the long-lived value exists / has seen every write so far
		// mixed: which commands the long-lived value (L) runs and which fresh processes (F) run; two F in a row let the stale
		// value rewrite the manifest SHORTER than the stored one. The first pattern is directed: its first four commands cannot
		// collide (unset serials, then a new one), so the stale value's rewrite always happens.
		mixed := []string{"LFFLF", "LFLFL", "LFFFL", "FLFFL"}[(i/8)%4]
		directed := procs == "mixed" && (i/8)%4 == 0
		var hist []string
		for j := 0; j < nrot; j++ {
			fl := r.IntN(4)
			mode := []string{"unset", "zero", "new", "collides-with-stored-certificate", "collides-with-stored-certificate", "beyond-64-bits", "equals-root-serial"}[r.IntN(7)]
			if directed && j < 4 {
				mode = []string{"unset", "unset", "unset", "new"}[j]
			}
			pre := storeOf(a)
			var serial *big.Int
			collides := false
			switch mode {
			case "zero":
				serial = big.NewInt(0)
			case "new":
				serial = big.NewInt(int64(300 + 10*j + r.IntN(5)))
			case "collides-with-stored-certificate":
				var have []string
				for o := range pre.Objs {
					if strings.HasPrefix(o, authority.Bucket+"/"+authority.CertDir+"/"+signerCN+"-") {
						have = append(have, strings.TrimSuffix(strings.TrimPrefix(o, authority.Bucket+"/"+authority.CertDir+"/"+signerCN+"-"), ".crt"))
					}
				}
				sort.Strings(have)
				if len(have) > 0 {
					serial, _ = new(big.Int).SetString(have[r.IntN(len(have))], 10)
					collides = serial != nil
				}
			case "beyond-64-bits":
				serial = new(big.Int).Add(new(big.Int).Lsh(big.NewInt(1), 70), big.NewInt(int64(j)))
			case "equals-root-serial":
				serial = big.NewInt(1)
			}
			if serial != nil && !collides {
				_, collides = pre.Objs[certObject(signerCN, serial)]
			}
			skc := &rotate.SigningKeyContext{SigningKeyCommonName: signerCN}
			if reuse {
				skc = shared
				reused++
			}
			skc.Now = t0.Add(time.Duration(j+1) * 24 * time.Hour)
			if serial == nil {
				skc.SigningKeySerial = nil
			} else if reuse && skc.SigningKeySerial != nil {
				skc.SigningKeySerial.Set(serial) // the caller refills its big.Int in place
			} else {
				skc.SigningKeySerial = serial
			}
			long := procs == "one-long-lived-value" || (procs == "mixed" && mixed[j%len(mixed)] == 'L')
			a.LongLived = long
			val := "fresh-process"
			if long {
				val = "long-lived-value"
				if !llExists {
					llExists, llFresh = true, true // created now: it reads the stored manifest
				}
				if !llFresh {
					val = "stale-long-lived-value"
					stale++
				}
			}
			f := &doubles.FCtl{}
			_, err := rotateWith(a, f, flagsOf(fl), skc, nil)
			c.Eval(1)
			rots++
			k.judge(idx, gname, "rotate-in-flag-history", caKind, pre, f.Writes, storeOf(a), err)
			shrank := false
			for _, wr := range f.Writes {
				if old, ok := pre.Objs[authority.Bucket+"/"+wr.Object]; ok && len(wr.Data) < len(old) {
					shrank = true
				}
			}
			if shrank {
				shorter++
				if caKind == authority.GcscaDisk {
					shorterDisk++
				}
			}
			if long {
				if wroteManifest(f.Writes) {
					llFresh = true // its cache is the manifest it just wrote
				}
			} else if len(f.Writes) > 0 {
				llFresh = false // a fresh process wrote behind the long-lived value's back
			}
			if collides && fl&1 != 0 {
				collOw++
			}
			if collides && fl&1 == 0 {
				collNoOw++
			}
			c.Cell("flag-history|%s|%s|serial=%s|ow=%v|kg=%v|object-name-taken=%v|%s|writes=%d|object-shrank=%v", caKind, val, mode, fl&1 != 0, fl&2 != 0, collides, errTag(err, false), len(f.Writes), shrank)
			hist = append(hist, fmt.Sprintf("rotate(serial %s=%v, flags %d, %s) -> %s writes=%v", mode, serial, fl, val, errTag(err, false), names(f.Writes)))
		}
		a.LongLived = false
		a.DropLongLived()
		if i < 4 {
			c.Sample(map[string]any{"history": gname, "commands": hist})
		}
		c.End(idx)
	}
	c.Count("flag-history/rotations", rots)
	c.Count("flag-history/rotations-by-a-stale-long-lived-authority-value", stale)
	c.Count("flag-history/rotations-onto-a-taken-object-name-with-overwrite", collOw)
	c.Count("flag-history/rotations-onto-a-taken-object-name-without-overwrite", collNoOw)
	c.Count("flag-history/rotations-through-a-reused-signing-key-context", reused)
	c.Count("flag-history/rotations-that-rewrote-an-object-shorter-than-stored", shorter)
	c.Count("flag-history/rotations-that-rewrote-a-file-shorter-than-stored-on-storage-local", shorterDisk)
	c.Floor("some-rotation-onto-a-taken-object-name-with-overwrite", collOw > 0)
	c.Floor("some-rotation-by-a-stale-long-lived-authority-value", stale > 0)
	c.Floor("some-rotation-rewrote-a-stored-file-shorter-on-storage-local", shorterDisk > 0)
}

// ---- 30000+: a second command on another store nested at every call position ----

func interleaved(c *core.Ctx, k *checker, w *worlds, t0 time.Time) {
	nested := 0
	idx := 30000
	kms := []string{authority.MemKM}
	if c.Thorough() {
		kms = append(kms, authority.LocalKM)
	}
	for _, km := range kms {
		for _, xcmd := range []string{"rotate", "bootstrap"} {
			// the trace length comes from the in-memory world; positions beyond a store's own trace are simply not reached
			ref := w.get("main", km, authority.GcscaMem)
			if ref == nil {
				continue
			}
			tr := ref.rtrace
			if xcmd == "bootstrap" {
				tr = ref.btrace
			}
			for pos := 1; pos <= len(tr); pos++ {
				idx++
				if !c.Mine(idx) {
					continue
				}
				r := c.Rand(idx)
				xKind, yKind := authority.GcscaMem, authority.GcscaDisk
				if pos%2 == 0 {
					xKind, yKind = authority.GcscaDisk, authority.GcscaMem
				}
				if r.IntN(3) == 0 {
					yKind = xKind
				}
				ycmd := []string{"rotate", "rotate-with-failing-upload", "bootstrap"}[r.IntN(3)]
				gname := fmt.Sprintf("nested %s on %s+%s inside %s on %s+%s at call %d (%s)", ycmd, km, yKind, xcmd, km, xKind, pos, tr[pos-1])
				c.Begin(idx, gname, "rotate.Bootstrap/rotate.Key", nil)
				bc := authority.DefaultBootstrap(t0) // shared by both commands when both are bootstraps
				var tmp []string
				mk := func(slot, kind, cmd string) *authority.Assembly {
					if cmd == "bootstrap" {
						d, _ := os.MkdirTemp("", "verif-c11n-")
						tmp = append(tmp, d)
						return authority.New(km, kind, d)
					}
					b := w.get(slot, km, kind)
					if b == nil {
						return nil
					}
					b.a.Restore(b.snap)
					return b.a
				}
				xa, ya := mk("main", xKind, xcmd), mk("other", yKind, ycmd)
				if xa == nil || ya == nil {
					c.End(idx)
					continue
				}
				run := func(a *authority.Assembly, f *doubles.FCtl, cmd string) error {
					if cmd == "bootstrap" {
						return bootstrapWith(a, f, authority.Opts{}, bc, nil)
					}
					_, err := rotateWith(a, f, authority.Opts{}, &rotate.SigningKeyContext{SigningKeyCommonName: signerCN, Now: t0.Add(24 * time.Hour)}, nil)
					return err
				}
				var ypre, yfinal *doubles.MemStore
				var yerr error
				yf := &doubles.FCtl{}
				if ycmd == "rotate-with-failing-upload" {
					yf.Match, yf.MatchKind = "storage.Write:"+authority.CertDir+"/", doubles.FaultError
				}
				ran := false
				xf := &doubles.FCtl{}
				xf.Hook = func(seq int, name string) {
					if seq != pos || ran {
						return
					}
					ran = true
					ypre = storeOf(ya)
					yerr = run(ya, yf, ycmd)
					yfinal = storeOf(ya)
				}
				xpre := storeOf(xa)
				xerr := run(xa, xf, xcmd)
				c.Eval(1)
				k.judge(idx, gname, "command-around-a-nested-command", xKind, xpre, xf.Writes, storeOf(xa), xerr)
				if ran {
					c.Eval(1)
					nested++
					k.judge(idx, gname, "command-nested-in-another", yKind, ypre, yf.Writes, yfinal, yerr)
				}
				name := tr[pos-1]
				if j := strings.Index(name, ":"); j > 0 {
					name = name[:j]
				}
				c.Cell("nested|%s|%s|at=%s|%s|%s|reached=%v|outer=%s|inner=%s", xcmd, xKind, name, ycmd, yKind, ran, errTag(xerr, false), errTag(yerr, false))
				for _, d := range tmp {
					os.RemoveAll(d)
				}
				c.End(idx)
			}
		}
	}
	c.Count("nested/commands-run-inside-another-command", nested)
	c.Floor("some-command-nested-inside-another", nested > 0)
}

// ---- 40000+: authorities on disjoint stores working in parallel ----

type prec struct {
	label, store string
	pre, final   *doubles.MemStore
	writes       []doubles.Write
	err          error
}

func parallel(c *core.Ctx, k *checker, t0 time.Time) {
	groups := c.N(3, 12)
	width := 4
	cmds, done := 0, 0
	for g := 0; g < groups; g++ {
		idx := 40000 + g
		if !c.Mine(idx) {
			continue
		}
		r := c.Rand(idx)
		gname := fmt.Sprintf("parallel-group#%d of %d authorities on disjoint stores", g, width)
		c.Begin(idx, gname, "rotate.Bootstrap/rotate.Key", nil)
		recs := make([][]prec, width)
		kinds := make([]string, width)
		nrots := make([]int, width)
		for t := 0; t < width; t++ {
			kinds[t] = []string{authority.GcscaMem, authority.GcscaDisk}[(t+g)%2]
			nrots[t] = 1 + r.IntN(2)
		}
		var wg sync.WaitGroup
		start := make(chan struct{})
		for t := 0; t < width; t++ {
			wg.Add(1)
			go func(t int) {
				defer wg.Done()
				dir, _ := os.MkdirTemp("", "verif-c11p-")
				defer os.RemoveAll(dir)
				a := authority.New(authority.MemKM, kinds[t], dir)
				<-start
				f := &doubles.FCtl{}
				pre := storeOf(a)
				err := a.Bootstrap(f, authority.Opts{}, authority.DefaultBootstrap(t0))
				recs[t] = append(recs[t], prec{"bootstrap-in-parallel", kinds[t], pre, storeOf(a), f.Writes, err})
				for j := 0; j < nrots[t]; j++ {
					f := &doubles.FCtl{}
					pre := storeOf(a)
					_, err := a.Rotate(f, authority.Opts{}, &rotate.SigningKeyContext{SigningKeyCommonName: signerCN, Now: t0.Add(time.Duration(j+1) * 24 * time.Hour)})
					recs[t] = append(recs[t], prec{"rotate-in-parallel", kinds[t], pre, storeOf(a), f.Writes, err})
				}
			}(t)
		}
		close(start)
		wg.Wait()
		for t := range recs {
			for _, p := range recs[t] {
				c.Eval(1)
				cmds++
				k.judge(idx, gname, p.label, p.store, p.pre, p.writes, p.final, p.err)
				if p.err == nil && wroteManifest(p.writes) {
					done++
				}
				c.Cell("parallel|%s|%s|%s|writes=%d", p.label, p.store, errTag(p.err, false), len(p.writes))
			}
		}
		c.End(idx)
	}
	c.Count("parallel/commands-run-beside-others", cmds)
	c.Count("parallel/commands-that-completed-and-wrote-a-manifest", done)
	c.Floor("some-commands-completed-in-parallel", done > 0)
}

// ---- 50000+: storage weather ----

// weather decides which storage calls of one command fail, where an object write reports its failure, and with what error.
type weather struct {
	mu       sync.Mutex
	n, wn    int
	writes   bool // positions count object writes only
	fail     func(pos int) bool
	site     string // open | write | commit
	mkErr    func(op string) error
	hits     int
	hitNames []string
}

func (w *weather) op(name string, isWrite bool) error {
	w.mu.Lock()
	defer w.mu.Unlock()
	w.n++
	pos := w.n
	if w.writes {
		if !isWrite {
			return nil
		}
		w.wn++
		pos = w.wn
	}
	if !w.fail(pos) {
		return nil
	}
	w.hits++
	w.hitNames = append(w.hitNames, name)
	return w.mkErr(name)
}

type wstore struct {
	inner storagei.Client
	w     *weather
}

func (s *wstore) Reader(ctx context.Context, b, o string) (io.ReadCloser, error) {
	if err := s.w.op("read:"+o, false); err != nil {
		return nil, err
	}
	return s.inner.Reader(ctx, b, o)
}
func (s *wstore) Exists(ctx context.Context, b, o string) (bool, error) {
	if err := s.w.op("exists:"+o, false); err != nil {
		return false, err
	}
	return s.inner.Exists(ctx, b, o)
}
func (s *wstore) IsNotExists(err error) bool { return s.inner.IsNotExists(err) }
func (s *wstore) EnsureBucketExists(ctx context.Context, b string) error {
	if err := s.w.op("ensure-bucket", false); err != nil {
		return err
	}
	return s.inner.EnsureBucketExists(ctx, b)
}
func (s *wstore) Wipeout(ctx context.Context, b string) error { return s.inner.Wipeout(ctx, b) }

// Writer: one object write is one storage call; a failing one reports at open, at Write (short write) or at Close, and
// in every case nothing reaches the store (objects are committed whole at Close).
func (s *wstore) Writer(ctx context.Context, b, o string) (io.WriteCloser, error) {
	err := s.w.op("write:"+o, true)
	if err != nil && s.w.site == "open" {
		return nil, err
	}
	return &wwriter{s: s, ctx: ctx, b: b, o: o, err: err}, nil
}

type wwriter struct {
	s    *wstore
	ctx  context.Context
	b, o string
	buf  []byte
	err  error
}

func (w *wwriter) Write(p []byte) (int, error) {
	if w.err != nil && w.s.w.site == "write" {
		return len(p) / 2, w.err
	}
	w.buf = append(w.buf, p...)
	return len(p), nil
}

func (w *wwriter) Close() error {
	if w.err != nil {
		return w.err
	}
	iw, err := w.s.inner.Writer(w.ctx, w.b, w.o)
	if err != nil {
		return err
	}
	if _, err := iw.Write(w.buf); err != nil {
		iw.Close()
		return err
	}
	return iw.Close()
}

var flavours = []struct {
	name string
	mk   func(op string) error
}{
	{"plain", func(op string) error { return fmt.Errorf("storage weather at %s", op) }},
	{"status-AlreadyExists", func(op string) error { return status.Errorf(codes.AlreadyExists, "storage weather at %s", op) }},
	{"status-NotFound", func(op string) error { return status.Errorf(codes.NotFound, "storage weather at %s", op) }},
	{"status-Unavailable", func(op string) error { return status.Errorf(codes.Unavailable, "storage weather at %s", op) }},
	{"status-FailedPrecondition", func(op string) error { return status.Errorf(codes.FailedPrecondition, "storage weather at %s", op) }},
	{"wrapped-status-AlreadyExists", func(op string) error {
		return fmt.Errorf("commit %s: %w", op, status.Errorf(codes.AlreadyExists, "storage weather"))
	}},
	{"context-canceled", func(op string) error { return fmt.Errorf("%s: %w", op, context.Canceled) }},
	{"context-deadline-exceeded", func(op string) error { return fmt.Errorf("%s: %w", op, context.DeadlineExceeded) }},
}

// wspec is one directed or drawn weather case; flavour < 0, site == "" and p == 0 mean "draw it".
type wspec struct {
	cmd     string
	writes  bool
	p       int
	pattern string
	site    string
	flavour int
}

// weatherSpecs: (A) every error flavour x reporting site x command as ONE failure of the first certificate write, everything
// after it working; (B) pairs, bursts of two and three and outages starting at every object write of either command, once
// reported at commit and once at a drawn site; (C) drawn weather over all storage calls (reads and existence checks too).
func weatherSpecs() []wspec {
	var out []wspec
	for fv := range flavours {
		for _, site := range []string{"commit", "open", "write"} {
			for _, cmd := range []string{"rotate", "bootstrap"} {
				out = append(out, wspec{cmd, true, 1, "single", site, fv})
			}
		}
	}
	for _, site := range []string{"commit", ""} {
		for _, pattern := range []string{"pair", "burst2", "burst3", "outage"} {
			for _, cp := range []struct {
				cmd string
				p   int
			}{{"rotate", 1}, {"rotate", 2}, {"bootstrap", 1}, {"bootstrap", 2}, {"bootstrap", 3}, {"bootstrap", 4}} {
				out = append(out, wspec{cp.cmd, true, cp.p, pattern, site, -1})
			}
		}
	}
	for j := 0; j < 16; j++ {
		out = append(out, wspec{[]string{"rotate", "bootstrap"}[j%2], false, 0, "", "", -1})
	}
	return out
}

func weatherFamily(c *core.Ctx, k *checker, w *worlds, t0 time.Time) {
	specs := weatherSpecs()
	n := len(specs) * c.N(1, 4)
	reached, multi, coded, spans := 0, 0, 0, 0
	for i := 0; i < n; i++ {
		idx := 50000 + i
		if !c.Mine(idx) {
			continue
		}
		r := c.Rand(idx)
		sp := specs[i%len(specs)]
		cmd := sp.cmd
		caKind := []string{authority.GcscaMem, authority.GcscaDisk}[r.IntN(2)]
		km := authority.MemKM
		if c.Thorough() && (i/len(specs)) == 3 {
			km = authority.LocalKM
		}
		fl := r.IntN(4)
		if sp.flavour < 0 {
			sp.flavour = r.IntN(len(flavours))
		}
		fv := flavours[sp.flavour]
		if sp.site == "" {
			sp.site = []string{"commit", "open", "write"}[r.IntN(3)]
		}
		wt := &weather{mkErr: fv.mk, site: sp.site, writes: sp.writes}
		p, pattern := sp.p, sp.pattern
		if p == 0 {
			p = 1 + r.IntN(14)
			pattern = []string{"single", "pair", "burst2", "burst3", "outage"}[r.IntN(5)]
		}
		switch pattern {
		case "single":
			wt.fail = func(pos int) bool { return pos == p }
		case "pair":
			q := p + 2 + r.IntN(2)
			wt.fail = func(pos int) bool { return pos == p || pos == q }
		case "burst2":
			wt.fail = func(pos int) bool { return pos >= p && pos < p+2 }
		case "burst3":
			wt.fail = func(pos int) bool { return pos >= p && pos < p+3 }
		case "outage":
			wt.fail = func(pos int) bool { return pos >= p }
		}
		dom := "all-storage-calls"
		if wt.writes {
			dom = "object-writes"
		}
		var a *authority.Assembly
		var tmp string
		if cmd == "bootstrap" {
			tmp, _ = os.MkdirTemp("", "verif-c11w-")
			a = authority.New(km, caKind, tmp)
		} else {
			b := w.get("main", km, caKind)
			if b == nil {
				continue
			}
			a = b.a
			a.Restore(b.snap)
		}
		gname := fmt.Sprintf("weather#%d %s %s %s %s@%d of %s reported-at=%s error=%s keep_going=%v overwrite=%v", i, cmd, a.Name(), pattern, dom, p, dom, wt.site, fv.name, fl&2 != 0, fl&1 != 0)
		c.Begin(idx, gname, "rotate.Bootstrap/rotate.Key", nil)
		wrap := func(in storagei.Client) storagei.Client { return &wstore{inner: in, w: wt} }
		f := &doubles.FCtl{}
		pre := storeOf(a)
		var err error
		if cmd == "bootstrap" {
			err = bootstrapWith(a, f, flagsOf(fl), authority.DefaultBootstrap(t0), wrap)
		} else {
			_, err = rotateWith(a, f, flagsOf(fl), &rotate.SigningKeyContext{SigningKeyCommonName: signerCN, Now: t0.Add(24 * time.Hour)}, wrap)
		}
		c.Eval(1)
		k.judge(idx, gname, cmd+"-in-storage-weather", caKind, pre, f.Writes, storeOf(a), err)
		if wt.hits > 0 {
			reached++
			if fv.name != "plain" {
				coded++
			}
			if pattern != "single" {
				spans++
			}
		}
		if wt.hits > 1 {
			multi++
		}
		hits := wt.hits
		if hits > 2 {
			hits = 3
		}
		c.Cell("weather|%s|%s|%s|%s|at=%s|%s|kg=%v|ow=%v|failed-calls=%d|returned-error=%v|writes=%d", cmd, caKind, pattern, dom, wt.site, fv.name, fl&2 != 0, fl&1 != 0, hits, err != nil, len(f.Writes))
		if i < 4 {
			c.Sample(map[string]any{"weather": gname, "failed_calls": wt.hitNames, "error": fmt.Sprint(err), "writes": names(f.Writes)})
		}
		if tmp != "" {
			os.RemoveAll(tmp)
		}
		c.End(idx)
	}
	c.Count("weather/commands-where-a-failing-storage-call-was-reached", reached)
	c.Count("weather/commands-with-two-or-more-failed-storage-calls", multi)
	c.Count("weather/commands-that-reached-a-pair-burst-or-outage", spans)
	c.Count("weather/commands-hit-by-a-status-coded-or-context-error", coded)
	c.Floor("some-storage-weather-reached", reached > 0)
	c.Floor("some-pair-burst-or-outage-reached", spans > 0)
}

// ---- 60000+: bootstrap of an empty store under every flag combination and unusual names / serials ----

func bootstrapOptions(c *core.Ctx, k *checker, t0 time.Time) {
	modes := []string{"default", "equal-serials", "same-name-and-serial", "zero-serials", "unset-signing-serial", "beyond-64-bits", "nested-common-names", "empty-common-names",
		"same-name-and-serial"} // twice: which of the two certificates is uploaded first is a map order
	idx := 60000
	done, sameObject := 0, 0
	for rep := 0; rep < c.N(1, 3); rep++ {
		for _, mode := range modes {
			for fl := 0; fl < 4; fl++ {
				idx++
				if !c.Mine(idx) {
					continue
				}
				r := c.Rand(idx)
				caKind := []string{authority.GcscaMem, authority.GcscaDisk}[r.IntN(2)]
				km := authority.MemKM
				if rep == 2 {
					km = authority.LocalKM
				}
				bc := authority.DefaultBootstrap(t0)
				signer := signerCN
				switch mode {
				case "equal-serials":
					bc.SigningKeySerial = big.NewInt(1)
				case "same-name-and-serial": // both pending certificates map to ONE object name
					bc.SigningKeyCommonName, bc.SigningKeySerial = bc.RootKeyCommonName, big.NewInt(1)
					signer = bc.RootKeyCommonName
				case "zero-serials":
					bc.RootKeySerial, bc.SigningKeySerial = big.NewInt(0), big.NewInt(0)
				case "unset-signing-serial":
					bc.SigningKeySerial = nil
				case "beyond-64-bits":
					bc.RootKeySerial = new(big.Int).Lsh(big.NewInt(1), 80)
					bc.SigningKeySerial = new(big.Int).Add(bc.RootKeySerial, big.NewInt(1))
				case "nested-common-names":
					bc.RootKeyCommonName, bc.SigningKeyCommonName = "roots/rootCn", "signers/2025/signingKeyCn"
					signer = bc.SigningKeyCommonName
				case "empty-common-names":
					bc.RootKeyCommonName, bc.SigningKeyCommonName = "", ""
					signer = ""
				}
				dir, _ := os.MkdirTemp("", "verif-c11o-")
				a := authority.New(km, caKind, dir)
				gname := fmt.Sprintf("bootstrap-options %s %s keep_going=%v overwrite=%v", a.Name(), mode, fl&2 != 0, fl&1 != 0)
				c.Begin(idx, gname, "rotate.Bootstrap/rotate.Key", nil)
				f := &doubles.FCtl{}
				pre := storeOf(a)
				err := bootstrapWith(a, f, flagsOf(fl), bc, nil)
				c.Eval(1)
				k.judge(idx, gname, "bootstrap-with-options", caKind, pre, f.Writes, storeOf(a), err)
				if mode == "same-name-and-serial" {
					sameObject++
				}
				rot := "not-run"
				if err == nil && wroteManifest(f.Writes) {
					done++
					// the history goes on with the command-line default serial
					f2 := &doubles.FCtl{}
					pre := storeOf(a)
					_, rerr := rotateWith(a, f2, flagsOf(fl), &rotate.SigningKeyContext{SigningKeyCommonName: signer, Now: t0.Add(24 * time.Hour)}, nil)
					c.Eval(1)
					k.judge(idx, gname, "rotate-after-bootstrap-with-options", caKind, pre, f2.Writes, storeOf(a), rerr)
					rot = errTag(rerr, false)
				}
				c.Cell("bootstrap-options|%s|%s|kg=%v|ow=%v|%s|writes=%d|next-rotation=%s", caKind, mode, fl&2 != 0, fl&1 != 0, errTag(err, false), len(f.Writes), rot)
				os.RemoveAll(dir)
				c.End(idx)
			}
		}
	}
	c.Count("bootstrap-options/bootstraps-that-completed", done)
	c.Count("bootstrap-options/bootstraps-whose-two-certificates-share-one-object-name", sameObject)
	c.Floor("some-bootstrap-with-unusual-options-completed", done > 0)
}
