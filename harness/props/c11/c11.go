// Package c11: the certificate-authority store is consistent at every crash point.
package c11

import (
	"context"
	"crypto/x509"
	"encoding/pem"
	"fmt"
	"math/big"
	"os"
	"path/filepath"
	"strings"
	"time"

	cpb "github.com/google/gce-tcb-verifier/proto/certificates"
	"github.com/google/gce-tcb-verifier/rotate"
	"github.com/google/gce-tcb-verifier/sign/gcsca"
	"google.golang.org/protobuf/encoding/prototext"

	"verifharness/authority"
	"verifharness/core"
	"verifharness/doubles"
)

func init() {
	core.Register(&core.Info{
		ID: "C11", Level: "fault_enumeration",
		Rule: "history = first bootstrap of an empty store followed by 1..5 rotations (any serial/time flags, some after an injected storage fault with an in-process retry) over gcsca on an in-memory object store and on storage/local; a recording store logs every completed object write; " +
			"the offline checker replays EVERY prefix of every command's write log onto the command's pre-state (and every permutation of the certificate uploads that precede the manifest write, because pending certificates are uploaded in Go map order), reloads a fresh gcsca.CertificateAuthority from each such store and checks: manifest parses, every listed key version resolves to a stored parseable certificate, a recorded primary signing key has a certificate that verifies under the stored root. " +
			"further families (extra.go), judged by the same prefix and end-of-command rules: rotations continuing a history after a rotation interrupted at six points (leftover objects, same/default/new/zero serial, every overwrite x keep-going combination, fresh process or the authority value that saw the error); fault-free histories over flag x serial (unset, zero, new, >64 bit, colliding with a stored object) x process model (fresh, one long-lived authority value, mixed = stale value) with a re-used SigningKeyContext; a complete second command on another store nested at every call position of a bootstrap and a rotation; authorities on disjoint stores in parallel goroutines; storage weather (pairs, bursts, outages of failing storage calls reported at open/write/commit with plain, status-coded and context errors); bootstraps of an empty store under every flag combination with equal / zero / unset / >64-bit serials, nested and empty common names and both certificates on one object name. " +
			"fourth-round families (config.go): configured authorities, i.e. bucket / root path / certificate directory (next to the bucket, nested, empty, dot segments, trailing slash, absolute, not UTF-8, characters the text format escapes), key version names of the key manager (not UTF-8, quotes / newlines / control characters, Unicode, KMS style, counters) and common names, singly on both stores and in drawn combinations, reloaded through the store's real client (storage/local's reader on the real directory) before every object write and after every command, a later rotation possibly with another certificate directory; storage that takes fewer bytes than it is given without an error (0, 1, half, all but one, at most 512) at the k-th object write of a bootstrap / rotation, keeping the accepted part of a new non-manifest object or dropping it, then a follow-up rotation; the nonprod command line under --bucket / --cert_dir / --root_path / common-name option combinations, judged after every command. " +
			"fifth-round family (long.go): long histories, i.e. a bootstrap followed by 10..60 (thorough: up to 120) rotations under key version names / certificate directories / common names of growing length (harness and command-line defaults, Cloud-KMS resource names, names at the length limits of KMS and of object names) so that the manifest grows through 4, 8, 16, 32 and 64 KiB, by fresh processes or one long-lived authority value, reloaded through the store's real client before every object write and after every command, the reloading process's storage possibly returning its data in pieces of at most 3 / 100 / 1000 / 4096 bytes per read. " +
			"non-trivial = prefixes whose store differs from the previous prefix; distinct = (command kind, store, number of writes applied, object written last, permutation id) cells; upload orders actually observed are counted",
		Assumptions: []string{"crash granularity is one completed object write (the property's granularity); torn files are not modelled", "memca has no store and is outside C11", "a storage writer that reports fewer accepted bytes than given leaves either the accepted part (only of a new object that is not the manifest) or nothing: a torn manifest or a torn replacement of a referenced object is below the property's object granularity"},
		ShardsQuick: 8, ShardsThor: 16, TimeoutS: 1800, TimeoutThor: 3600, Exhaustive: true, Run: run,
	})
}

// consistent checks one store state; returns "" when consistent.
func consistent(st *doubles.MemStore) string {
	ctx := context.Background()
	raw, ok := st.Objs[authority.Bucket+"/"+gcsca.ManifestObjectName]
	if !ok {
		return "" // no authority recorded yet
	}
	m := &cpb.GCECertificateManifest{}
	if err := prototext.Unmarshal(raw, m); err != nil {
		return "manifest does not parse: " + err.Error()
	}
	ca := &gcsca.CertificateAuthority{Storage: st, PrivateBucket: authority.Bucket, RootPath: authority.RootPath, SigningCertDirInGCS: authority.CertDir}
	for _, e := range m.Entries {
		der, err := ca.Certificate(ctx, e.KeyVersionName)
		if err != nil {
			return fmt.Sprintf("manifest entry %q -> %q does not resolve to a stored, parseable certificate: %v", e.KeyVersionName, e.ObjectPath, err)
		}
		if _, err := x509.ParseCertificate(der); err != nil {
			return fmt.Sprintf("manifest entry %q certificate unparseable", e.KeyVersionName)
		}
	}
	prim := m.PrimarySigningKeyVersionName
	if prim == "" {
		return ""
	}
	der, err := ca.Certificate(ctx, prim)
	if err != nil {
		return fmt.Sprintf("recorded primary signing key %q has no certificate: %v", prim, err)
	}
	cert, _ := x509.ParseCertificate(der)
	bundle, err := ca.CABundle(ctx, prim)
	if err != nil {
		return fmt.Sprintf("recorded primary signing key %q but the stored root certificate is unreadable: %v", prim, err)
	}
	blk, _ := pem.Decode(bundle)
	if blk == nil {
		return "stored root certificate is not PEM"
	}
	root, err := x509.ParseCertificate(blk.Bytes)
	if err != nil {
		return "stored root certificate unparseable"
	}
	if err := root.CheckSignature(cert.SignatureAlgorithm, cert.RawTBSCertificate, cert.Signature); err != nil {
		return fmt.Sprintf("certificate of recorded primary %q does not verify under the stored root", prim)
	}
	return ""
}

func storeOf(a *authority.Assembly) *doubles.MemStore {
	if a.MemStore != nil {
		return a.MemStore.Clone()
	}
	st := doubles.NewMemStore()
	root := filepath.Join(a.Dir, "ca")
	filepath.Walk(root, func(p string, info os.FileInfo, err error) error {
		if err != nil || info.IsDir() {
			return nil
		}
		rel, _ := filepath.Rel(root, p)
		b, _ := os.ReadFile(p)
		st.Objs[filepath.ToSlash(rel)] = b
		return nil
	})
	return st
}

func permutations(n int) [][]int {
	if n <= 1 {
		return [][]int{nil}
	}
	var out [][]int
	var rec func(cur []int, used []bool)
	rec = func(cur []int, used []bool) {
		if len(cur) == n {
			out = append(out, append([]int(nil), cur...))
			return
		}
		for i := 0; i < n; i++ {
			if !used[i] {
				used[i] = true
				rec(append(cur, i), used)
				used[i] = false
			}
		}
	}
	rec(nil, make([]bool, n))
	return out
}

type checker struct {
	c        *core.Ctx
	prefixes int
}

// checkWrites replays prefixes (and upload permutations) of one command's writes onto pre.
func (k *checker) checkWrites(idx int, gname, cmd, store string, pre *doubles.MemStore, writes []doubles.Write) {
	c := k.c
	// the certificate uploads that precede the first manifest write commute
	firstManifest := len(writes)
	for i, w := range writes {
		if w.Object == gcsca.ManifestObjectName {
			firstManifest = i
			break
		}
	}
	var certIdx []int
	for i := 0; i < firstManifest; i++ {
		if strings.HasPrefix(writes[i].Object, authority.CertDir+"/") {
			certIdx = append(certIdx, i)
		}
	}
	perms := [][]int{nil}
	if len(certIdx) >= 2 && len(certIdx) <= 4 {
		perms = permutations(len(certIdx))
	}
	for pi, perm := range perms {
		seq := append([]doubles.Write(nil), writes...)
		if perm != nil {
			for j, src := range perm {
				seq[certIdx[j]] = writes[certIdx[src]]
			}
		}
		for p := 0; p <= len(seq); p++ {
			st := pre.Clone()
			last := "(none)"
			for _, w := range seq[:p] {
				st.Objs[authority.Bucket+"/"+w.Object] = w.Data
				last = w.Object
			}
			c.Eval(1)
			k.prefixes++
			if msg := consistent(st); msg != "" {
				var order []string
				for _, w := range seq[:p] {
					order = append(order, w.Object)
				}
				c.Violate(core.Violation{Kind: "oracle", Entry: cmd, Site: "inconsistent-store-at-write-prefix", Gen: gname, Case: idx,
					Detail:  fmt.Sprintf("%s on %s: after %d of %d writes (permutation %d) the reloaded authority is inconsistent: %s", cmd, store, p, len(seq), pi, msg),
					Witness: map[string]any{"writes_applied": order, "all_writes": names(seq)}})
			}
			if p > 0 {
				if strings.HasPrefix(last, authority.CertDir+"/") {
					last = authority.CertDir + "/*"
				}
				c.Cell("%s|%s|%d/%d|%s|perm%d", cmd, store, p, len(seq), last, pi)
			}
		}
	}
}

func normOrder(objs []string) string {
	var o []string
	for _, n := range objs {
		switch {
		case strings.HasPrefix(n, authority.CertDir+"/rootCn"):
			o = append(o, "cert(root)")
		case strings.HasPrefix(n, authority.CertDir+"/"):
			o = append(o, "cert(signer)")
		default:
			o = append(o, n)
		}
	}
	return strings.Join(o, ",")
}

func names(ws []doubles.Write) []string {
	var o []string
	for _, w := range ws {
		o = append(o, w.Object)
	}
	return o
}

func run(c *core.Ctx) {
	t0 := time.Date(2025, 1, 1, 0, 0, 0, 0, time.UTC)
	nh := c.N(24, 96)
	k := &checker{c: c}
	orders := map[string]bool{}
	for h := 0; h < nh; h++ {
		if !c.Mine(h) {
			continue
		}
		r := c.Rand(h)
		caKind := authority.GcscaMem
		if h%2 == 1 {
			caKind = authority.GcscaDisk
		}
		km := authority.MemKM
		if h%4 >= 2 {
			km = authority.LocalKM
		}
		dir, _ := os.MkdirTemp("", "verif-c11-")
		a := authority.New(km, caKind, dir)
		gname := fmt.Sprintf("history#%d %s", h, a.Name())
		c.Begin(h, gname, "rotate.Bootstrap/rotate.Key", nil)
		// first bootstrap of an empty store
		pre := storeOf(a)
		f := &doubles.FCtl{}
		bc := authority.DefaultBootstrap(t0)
		if r.IntN(2) == 0 {
			bc.RootKeySerial, bc.SigningKeySerial = big.NewInt(int64(10+r.IntN(50))), big.NewInt(int64(100+r.IntN(50)))
		}
		err := a.Bootstrap(f, authority.Opts{}, bc)
		if err != nil {
			c.Oracle(h, "rotate.Bootstrap", "fault-free-bootstrap-failed", gname, "%v", err)
		}
		orders["bootstrap:"+normOrder(names(f.Writes))] = true
		k.checkWrites(h, gname, "bootstrap", caKind, pre, f.Writes)
		var hist []string
		hist = append(hist, fmt.Sprintf("bootstrap writes=%v", names(f.Writes)))
		// rotations
		nrot := 1 + r.IntN(c.N(3, 5))
		for j := 0; j < nrot; j++ {
			pre = storeOf(a)
			skc := &rotate.SigningKeyContext{SigningKeyCommonName: "signingKeyCn", Now: t0.Add(time.Duration(j+1) * 24 * time.Hour)}
			if r.IntN(4) == 0 {
				skc.SigningKeySerial = big.NewInt(int64(1000 + 10*j + r.IntN(5)))
			}
			if r.IntN(3) == 0 && caKind == authority.GcscaMem {
				// a rotation whose certificate upload fails, then a retry in the same process on the same CA instance
				ws, ferr := retryInProcess(a, skc, r.IntN(2) == 0)
				hist = append(hist, fmt.Sprintf("rotate(upload fault + in-process retry) err=%v writes=%v", ferr, names(ws)))
				k.checkWrites(h, gname, "rotate-retry-in-process", caKind, pre, ws)
				if msg := consistent(storeOf(a)); msg != "" {
					c.Oracle(h, "rotate.Key", "inconsistent-store-after-retry", gname, "%s", msg)
				}
				continue
			}
			f := &doubles.FCtl{}
			_, err := a.Rotate(f, authority.Opts{}, skc)
			if err != nil {
				c.Oracle(h, "rotate.Key", "fault-free-rotation-failed", gname, "rotation %d: %v", j, err)
			}
			hist = append(hist, fmt.Sprintf("rotate writes=%v", names(f.Writes)))
			k.checkWrites(h, gname, "rotate", caKind, pre, f.Writes)
		}
		if h < 4 {
			c.Sample(map[string]any{"history": gname, "commands": hist})
		}
		c.End(h)
		os.RemoveAll(dir)
	}
	faulted(c, k, t0)
	extra(c, k, t0)
	c.Count("write-prefixes-checked", k.prefixes)
	c.Count("distinct-bootstrap-upload-orders-observed", len(orders))
	for o := range orders {
		c.Note("observed write order %s", o)
	}
	c.Floor("prefixes-checked", k.prefixes > 0)
}

// retryInProcess runs a rotation whose certificate upload fails and retries it with the SAME gcsca instance
// (a long-running process that does not flush its manifest cache). Returns all completed writes in order.
func retryInProcess(a *authority.Assembly, skc *rotate.SigningKeyContext, newSerial bool) ([]doubles.Write, error) {
	f := &doubles.FCtl{Match: "storage.Write:" + authority.CertDir + "/", MatchKind: doubles.FaultError}
	ctx, err := a.Context(f, authority.Opts{})
	if err != nil {
		return nil, err
	}
	c1 := *skc
	if c1.SigningKeySerial == nil {
		c1.SigningKeySerial = big.NewInt(int64(5000 + skc.Now.Unix()%1000))
	}
	ctx = rotate.NewSigningKeyContext(ctx, &c1)
	_, err1 := rotate.Key(ctx)
	// retry on the same context: same CA instance, same cached manifest; the operator may pick a new serial
	if newSerial {
		c1.SigningKeySerial = new(big.Int).Add(c1.SigningKeySerial, big.NewInt(1))
	}
	_, err2 := rotate.Key(ctx)
	_ = err2
	return f.Writes, err1
}

// faulted enumerates single error faults (a call of the key manager, signer or object store that fails and is
// reported to the command) at every position of a first bootstrap and of a rotation, under every combination of the
// keep-going and overwrite flags. The object writes the command still performed are then checked like any other write
// sequence: after every prefix of them (and at the end) the reloaded authority must be consistent. A command that
// carries on after a failed upload, or that records a primary it could not certify, writes its manifest ahead of a
// certificate it references.
func faulted(c *core.Ctx, k *checker, t0 time.Time) {
	type flags struct{ kg, ow bool }
	combos := []flags{{false, false}, {true, false}, {false, true}, {true, true}}
	stores := []string{authority.GcscaMem, authority.GcscaDisk}
	kms := []string{authority.MemKM}
	if c.Thorough() {
		kms = append(kms, authority.LocalKM)
	}
	reached := 0
	base := 1000
	for _, km := range kms {
		for _, caKind := range stores {
			// fault-free traces
			dir, _ := os.MkdirTemp("", "verif-c11f-")
			a := authority.New(km, caKind, dir)
			f0 := &doubles.FCtl{}
			if err := a.Bootstrap(f0, authority.Opts{}, authority.DefaultBootstrap(t0)); err != nil {
				c.Oracle(base, "rotate.Bootstrap", "fault-free-bootstrap-failed", a.Name(), "%v", err)
				os.RemoveAll(dir)
				continue
			}
			btrace := f0.Names()
			snap := a.Snapshot()
			skc := func() *rotate.SigningKeyContext {
				return &rotate.SigningKeyContext{SigningKeyCommonName: "signingKeyCn", Now: t0.Add(24 * time.Hour)}
			}
			f1 := &doubles.FCtl{}
			if _, err := a.Rotate(f1, authority.Opts{}, skc()); err != nil {
				c.Oracle(base, "rotate.Key", "fault-free-rotation-failed", a.Name(), "%v", err)
			}
			rtrace := f1.Names()
			c.Max("faulted/bootstrap-trace-length", int64(len(btrace)))
			c.Max("faulted/rotation-trace-length", int64(len(rtrace)))
			// the upload order of a bootstrap's two certificates is a map order: repeat the upload faults a few times
			reps := func(name string) int {
				if strings.HasPrefix(name, "storage.Write:"+authority.CertDir+"/") {
					return 3
				}
				return 1
			}
			idx := base
			for _, cmd := range []string{"bootstrap", "rotate"} {
				trace := btrace
				if cmd == "rotate" {
					trace = rtrace
				}
				for pos := 1; pos <= len(trace); pos++ {
					for _, fl := range combos {
						for rep := 0; rep < reps(trace[pos-1]); rep++ {
							idx++
							if !c.Mine(idx) {
								continue
							}
							gname := fmt.Sprintf("faulted %s %s+%s error@%d(%s) keep_going=%v overwrite=%v", cmd, km, caKind, pos, trace[pos-1], fl.kg, fl.ow)
							c.Begin(idx, gname, "rotate.Bootstrap/rotate.Key", nil)
							f := &doubles.FCtl{Faults: map[int]string{pos: doubles.FaultError}}
							var pre *doubles.MemStore
							var b *authority.Assembly
							var bdir string
							var err error
							if cmd == "bootstrap" {
								bdir, _ = os.MkdirTemp("", "verif-c11b-")
								b = authority.New(km, caKind, bdir)
								pre = storeOf(b)
								err = b.Bootstrap(f, authority.Opts{KeepGoing: fl.kg, Overwrite: fl.ow}, authority.DefaultBootstrap(t0))
							} else {
								a.Restore(snap)
								b = a
								pre = storeOf(b)
								_, err = b.Rotate(f, authority.Opts{KeepGoing: fl.kg, Overwrite: fl.ow}, skc())
							}
							c.Eval(1)
							injected := false
							for _, l := range f.Log {
								if l.Result == "injected-error" {
									injected = true
								}
							}
							if injected {
								reached++
							}
							k.checkWrites(idx, gname, cmd+"-with-error-fault", caKind, pre, f.Writes)
							outcome := "consistent"
							// the final state: in memory it is exactly pre + completed writes (checked above); on disk read it back
							if msg := consistent(storeOf(b)); msg != "" {
								outcome = "INCONSISTENT"
								c.Violate(core.Violation{Kind: "oracle", Entry: cmd + "-with-error-fault", Site: "inconsistent-store-after-failed-call", Gen: gname, Case: idx,
									Detail:  fmt.Sprintf("%s returned %v; the reloaded authority is inconsistent: %s", cmd, err, msg),
									Witness: map[string]any{"writes": names(f.Writes), "log": f.Log}})
							}
							name := trace[pos-1]
							if j := strings.Index(name, ":"); j > 0 {
								name = name[:j]
							}
							c.Cell("faulted|%s|%s|%s|kg=%v|ow=%v|reached=%v|returned-error=%v|%s", cmd, caKind, name, fl.kg, fl.ow, injected, err != nil, outcome)
							if bdir != "" {
								os.RemoveAll(bdir)
							}
							c.End(idx)
						}
					}
				}
			}
			os.RemoveAll(dir)
			base += 1000
		}
	}
	c.Count("faulted-commands-where-the-fault-was-reached", reached)
	c.Floor("some-error-fault-reached", reached > 0)
}
