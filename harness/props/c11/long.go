package c11

// Workload dimension added after the fifth round of seeded-change misses: the LENGTH of the history, i.e. the size of the
// state a reload has to take in.
//
//   100000+ long histories: a bootstrap of an empty store followed by tens (thorough: more than a hundred) of rotations, so
//           that the append-only manifest grows through 4, 8, 16, 32 and 64 KiB and the certificate directory holds as
//           many objects. How fast it grows is the operator's configuration: the key manager's key version names (its
//           defaults, Cloud-KMS resource names, resource names at the length limits of KMS), the certificate directory and
//           the common names (harness / command-line defaults, nested, at the length limits of object names). Commands are
//           run by a fresh process each (the command line) or by one long-lived authority value. The reload is made through
//           the store's real client (storage/local's reader on the real directory), before every object write and after
//           every command, and the reloading process's storage may hand out its data in pieces (a reader that returns at
//           most n bytes per call, as network object stores do). Judged by the property's store rule only (consistentAt):
//           the manifest parses, every listed key version resolves through a FRESH gcsca authority to a stored parseable
//           certificate, the recorded primary's certificate verifies under the stored root. No command is required to
//           succeed; a history ends at its first failing command or first violation.

import (
	"context"
	"fmt"
	"io"
	"math/rand/v2"
	"os"
	"strings"
	"time"

	"github.com/google/gce-tcb-verifier/rotate"
	"github.com/google/gce-tcb-verifier/sign/gcsca"
	sops "github.com/google/gce-tcb-verifier/sign/ops"
	"github.com/google/gce-tcb-verifier/storage/storagei"

	"verifharness/authority"
	"verifharness/core"
	"verifharness/doubles"
)

// pieceStore is a store whose readers return at most n bytes per Read call (legal io.Reader behaviour).
type pieceStore struct {
	storagei.Client
	n int
}

type pieceReader struct {
	io.ReadCloser
	n int
}

func (p *pieceReader) Read(b []byte) (int, error) {
	if len(b) > p.n {
		b = b[:p.n]
	}
	return p.ReadCloser.Read(b)
}

func (s *pieceStore) Reader(ctx context.Context, b, o string) (io.ReadCloser, error) {
	r, err := s.Client.Reader(ctx, b, o)
	if err != nil {
		return nil, err
	}
	return &pieceReader{ReadCloser: r, n: s.n}, nil
}

func word(r *rand.Rand, n int) string {
	const first = "abcdefghijklmnopqrstuvwxyz"
	const rest = "abcdefghijklmnopqrstuvwxyz0123456789-"
	b := make([]byte, n)
	for i := range b {
		if i == 0 || i == n-1 {
			b[i] = first[r.IntN(len(first))]
		} else {
			b[i] = rest[r.IntN(len(rest))]
		}
	}
	return string(b)
}

func kmsName(project, location, ring, key string) string {
	return "projects/" + project + "/locations/" + location + "/keyRings/" + ring + "/cryptoKeys/" + key + "/cryptoKeyVersions/1"
}

// nameProfiles: how many bytes one rotation adds to the manifest.
var nameProfiles = map[string]func(r *rand.Rand) conf{
	"harness-defaults": func(r *rand.Rand) conf { return defaultConf() },
	"command-line-defaults": func(r *rand.Rand) conf {
		return conf{bucket: "certs-dev", certDir: "signer_certs", rootPath: "GCE-cc-tcb-root.crt", rootCN: "GCE-cc-tcb-root", signCN: "GCE-uefi-signer"}
	},
	"kms-resource-names": func(r *rand.Rand) conf {
		p := "gce-tcb-" + word(r, 6)
		return conf{bucket: "certs-dev", certDir: "signer_certs", rootPath: "GCE-cc-tcb-root.crt", rootCN: "GCE-cc-tcb-root", signCN: "GCE-uefi-signing-key",
			rootKey: kmsName(p, "global", "tcb-signing", "root"), signKey: kmsName(p, "global", "tcb-signing", "uefi-signer")}
	},
	"long-names": func(r *rand.Rand) conf {
		p, ring := word(r, 30), word(r, 63)
		return conf{bucket: "certs-" + word(r, 20), certDir: "signer_certs/" + word(r, 40) + "/" + word(r, 40), rootPath: "roots/" + word(r, 40) + ".crt",
			rootCN: word(r, 64), signCN: word(r, 64),
			rootKey: kmsName(p, "northamerica-northeast1", ring, word(r, 63)), signKey: kmsName(p, "northamerica-northeast1", ring, word(r, 63))}
	},
	"names-at-the-length-limits": func(r *rand.Rand) conf {
		p, ring := word(r, 30), word(r, 63)
		dir := []string{word(r, 200), word(r, 200), word(r, 200), word(r, 200)}
		return conf{bucket: "certs-" + word(r, 50), certDir: strings.Join(dir, "/"), rootPath: word(r, 200) + "/" + word(r, 200) + ".crt",
			rootCN: word(r, 64), signCN: word(r, 64),
			rootKey: kmsName(p, "northamerica-northeast1", ring, word(r, 63)), signKey: kmsName(p, "northamerica-northeast1", ring, word(r, 63))}
	},
}

type longSpec struct {
	profile   string
	store     string
	longLived bool
	rotations int
}

// longSpecs is the fixed case list of a tier. Quick: about a hundred rotations in all (RSA key generation dominates).
func longSpecs(thorough bool) []longSpec {
	out := []longSpec{
		{"names-at-the-length-limits", authority.GcscaDisk, false, 60}, // ~1.2 KB per entry: through 4, 8, 16, 32, 64 KiB
		{"kms-resource-names", authority.GcscaMem, false, 24},          // ~0.2 KB per entry: through 4 KiB
		{"long-names", authority.GcscaMem, true, 12},                   // ~0.5 KB per entry: through 4 KiB
		{"names-at-the-length-limits", authority.GcscaMem, false, 10},  // through 4 and 8 KiB
	}
	if thorough {
		out = append(out,
			longSpec{"harness-defaults", authority.GcscaDisk, false, 45},
			longSpec{"command-line-defaults", authority.GcscaMem, false, 45},
			longSpec{"kms-resource-names", authority.GcscaDisk, false, 45},
			longSpec{"long-names", authority.GcscaDisk, false, 80},
			longSpec{"names-at-the-length-limits", authority.GcscaMem, true, 60},
			longSpec{"names-at-the-length-limits", authority.GcscaDisk, false, 120},
			longSpec{"long-names", authority.GcscaMem, false, 40},
			longSpec{"kms-resource-names", authority.GcscaMem, true, 30},
		)
	}
	return out
}

func kib(n int) string {
	for _, k := range []int{1, 2, 4, 8, 16, 32, 64, 128} {
		if n <= k<<10 {
			return fmt.Sprintf("<=%dKiB", k)
		}
	}
	return ">128KiB"
}

func manifestSize(st storagei.Client, bucket string) int {
	r, err := st.Reader(context.Background(), bucket, gcsca.ManifestObjectName)
	if err != nil {
		return -1
	}
	defer r.Close()
	b, err := io.ReadAll(r)
	if err != nil {
		return -1
	}
	return len(b)
}

func longHistories(c *core.Ctx, k *checker, t0 time.Time) {
	specs := longSpecs(c.Thorough())
	var cmds, rotationsDone, unjudged, pieces int
	var largest int64
	for i, sp := range specs {
		idx := 100000 + i
		if !c.Mine(idx) {
			continue
		}
		r := c.Rand(idx)
		cf := nameProfiles[sp.profile](r)
		fl := r.IntN(4)
		piece := []int{0, 0, 4096, 1000, 100, 3}[r.IntN(6)]
		dir, _ := os.MkdirTemp("", "verif-c11h-")
		a := authority.New(authority.MemKM, sp.store, dir)
		a.LongLived = sp.longLived
		var st storagei.Client = realStore(a)
		reads := "whole"
		if piece > 0 {
			st = &pieceStore{Client: st, n: piece}
			reads = fmt.Sprintf("at-most-%d-bytes-per-read", piece)
		}
		procs := "fresh-processes"
		if sp.longLived {
			procs = "one-long-lived-value"
		}
		gname := fmt.Sprintf("long-history#%d %s %s %s up to %d rotations, reload reads %s, keep_going=%v overwrite=%v name lengths: bucket %d root_path %d cert_dir %d key names %d,%d common names %d,%d",
			i, a.Name(), sp.profile, procs, sp.rotations, reads, fl&2 != 0, fl&1 != 0, len(cf.bucket), len(cf.rootPath), len(cf.certDir), len(cf.rootKey), len(cf.signKey), len(cf.rootCN), len(cf.signCN))
		c.Begin(idx, gname, "rotate.Bootstrap/rotate.Key", nil)
		var hist []string
		done, size := 0, 0
		end := "completed"
		// bootstrap of the empty store
		bad := false
		{
			bc := authority.DefaultBootstrap(t0)
			bc.RootKeyCommonName, bc.SigningKeyCommonName = cf.rootCN, cf.signCN
			f := &doubles.FCtl{}
			p := &probes{k: k, idx: idx, gname: gname, label: "bootstrap-of-a-long-history", store: sp.store, st: st, cf: cf, f: f}
			f.Hook = p.hook
			ctx, err := a.Context(f, flagsOf(fl))
			if err == nil {
				err = cf.apply(ctx)
			}
			if err != nil {
				c.Oracle(idx, "rotate.Bootstrap", "harness-cannot-configure", gname, "%v", err)
				os.RemoveAll(dir)
				c.End(idx)
				continue
			}
			err = rotate.Bootstrap(rotate.NewBootstrapContext(ctx, bc))
			c.Eval(1)
			cmds++
			p.finish(err)
			unjudged += p.unjudged
			hist = append(hist, fmt.Sprintf("bootstrap -> %s writes=%d", errTag(err, false), len(f.Writes)))
			if err != nil || !wroteManifest(f.Writes) {
				end = "bootstrap-" + errTag(err, false)
				bad = true
			}
			if p.bad {
				end = "violation"
				bad = true
			}
		}
		for j := 0; j < sp.rotations && !bad; j++ {
			f := &doubles.FCtl{}
			p := &probes{k: k, idx: idx, gname: gname, label: "rotate-in-a-long-history", store: sp.store, st: st, cf: cf, f: f}
			f.Hook = p.hook
			ctx, err := a.Context(f, flagsOf(fl))
			if err == nil {
				err = cf.apply(ctx)
			}
			if err != nil {
				c.Oracle(idx, "rotate.Key", "harness-cannot-configure", gname, "%v", err)
				break
			}
			skc := &rotate.SigningKeyContext{SigningKeyCommonName: cf.signCN, Now: t0.Add(time.Duration(j+1) * 24 * time.Hour)}
			ctx = rotate.NewSigningKeyContext(ctx, skc)
			skc.SigningKeySerial, err = sops.NextSigningKeySerial(ctx)
			if err == nil {
				_, err = rotate.Key(ctx)
			}
			c.Eval(1)
			cmds++
			p.finish(err)
			unjudged += p.unjudged
			size = manifestSize(st, cf.bucket)
			if piece > 0 {
				pieces += len(p.at)
			}
			switch {
			case p.bad:
				end = "violation"
				bad = true
			case err != nil:
				// not demanded to succeed; the history ends here
				end = fmt.Sprintf("rotation-%s", errTag(err, false))
				hist = append(hist, fmt.Sprintf("rotation %d -> %v", j+1, err))
				bad = true
			default:
				done++
				rotationsDone++
				if int64(size) > largest {
					largest = int64(size)
				}
				c.Cell("long-history|%s|%s|%s|reads=%s|kg=%v|ow=%v|manifest%s|ok", sp.store, sp.profile, procs, reads, fl&2 != 0, fl&1 != 0, kib(size))
			}
		}
		hist = append(hist, fmt.Sprintf("%d rotations completed, manifest of %d bytes, history %s", done, size, end))
		c.Cell("long-history|%s|%s|%s|reads=%s|end=%s", sp.store, sp.profile, procs, reads, end)
		if i < 2 {
			c.Sample(map[string]any{"history": gname, "commands": hist})
		}
		a.LongLived = false
		a.DropLongLived()
		os.RemoveAll(dir)
		c.End(idx)
	}
	c.Count("long-history/commands", cmds)
	c.Count("long-history/rotations-that-completed", rotationsDone)
	c.Count("long-history/reloads-through-a-reader-that-returns-pieces", pieces)
	c.Count("long-history/reloads-not-judged-manifest-unreadable", unjudged)
	c.Max("long-history/largest-manifest-bytes-reloaded-and-judged", largest)
	c.Floor("some-long-history-grew-its-manifest-beyond-8KiB", largest > 8<<10)
}
