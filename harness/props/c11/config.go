package c11

// Workload dimensions added after the fourth round of seeded-change misses. As before, every family produces bootstraps
// of an empty store and later rotations only, and every command is judged by the property's store rule alone: after every
// prefix of the object writes the command completed, and at its end, an authority reloaded from the store must find a
// manifest that parses, every listed key version resolving to a stored parseable certificate, and the recorded primary
// signing key's certificate verifying under the stored root. No family demands that a command succeeds.
//
//   70000+  configured authorities: the strings that END UP IN the manifest and in object names are no longer the harness
//           constants. Bucket, root path and certificate directory (next to the bucket, nested, empty, ".", dot segments,
//           trailing slash, absolute, bytes that are not UTF-8, characters the text format must escape), the key manager's
//           key version names (not UTF-8, quotes / newlines / control characters, Unicode, KMS resource style, counters)
//           and the certificates' common names, singly and in drawn combinations, on the in-memory object store and on
//           storage/local. The reload goes through the REAL storage client of the store (storage/local's Reader on the
//           real directory), online before every object write and after the command, so that a writer and a reader that
//           resolve one object name differently, or a manifest text that its own reader refuses, are seen. A later
//           rotation may use another certificate directory than the bootstrap (the manifest records full object names).
//   80000+  storage that takes fewer bytes than it is given and says so WITHOUT an error (size-limited or chunking back
//           end): the k-th object write of a bootstrap / rotation accepts 0, 1, half, all-but-one or at most 512 bytes;
//           the store then holds the accepted part ("keeps", never for the manifest or an object that already exists:
//           torn manifests are outside the property's object granularity) or nothing ("drops"). Then the history goes on.
//   90000+  the shipped nonprod command line (localkm + localca on storage/local), one fresh application per command, under
//           option combinations of --bucket / --cert_dir / --root_path / --root_key_cn / --signing_key_cn (defaults of the
//           tool included); judged at the end of every command.

import (
	"context"
	crand "crypto/rand"
	"crypto/x509"
	"encoding/pem"
	"errors"
	"fmt"
	"io"
	"os"
	"path/filepath"
	"strings"
	"time"

	"github.com/google/gce-tcb-verifier/cmd"
	"github.com/google/gce-tcb-verifier/keys"
	cpb "github.com/google/gce-tcb-verifier/proto/certificates"
	"github.com/google/gce-tcb-verifier/rotate"
	"github.com/google/gce-tcb-verifier/sign/gcsca"
	"github.com/google/gce-tcb-verifier/sign/nonprod"
	sops "github.com/google/gce-tcb-verifier/sign/ops"
	"github.com/google/gce-tcb-verifier/storage/local"
	"github.com/google/gce-tcb-verifier/storage/storagei"
	"github.com/google/gce-tcb-verifier/testing/nonprod/localca"
	"github.com/google/gce-tcb-verifier/testing/nonprod/localkm"
	"github.com/google/gce-tcb-verifier/testing/nonprod/localnonvcs"
	"github.com/google/gce-tcb-verifier/testing/nonprod/memkm"
	"google.golang.org/protobuf/encoding/prototext"

	"verifharness/authority"
	"verifharness/core"
	"verifharness/doubles"
)

// conf is everything an operator configures that reaches object names or the manifest's text.
type conf struct {
	bucket, rootPath, certDir string
	rootKey, signKey          string // key version names handed out by the key manager ("" = its defaults)
	rootCN, signCN            string
}

func defaultConf() conf {
	return conf{bucket: authority.Bucket, rootPath: authority.RootPath, certDir: authority.CertDir, rootCN: "rootCn", signCN: signerCN}
}

// consistentAt is the property's store rule for an authority reloaded through st with the given layout. judged is false
// when the manifest object could not be read for another reason than its absence (nothing is concluded then).
func consistentAt(st storagei.Client, cf conf) (msg string, judged bool) {
	ctx := context.Background()
	r, err := st.Reader(ctx, cf.bucket, gcsca.ManifestObjectName)
	if err != nil {
		if st.IsNotExists(err) {
			return "", true // no authority recorded yet
		}
		return "", false
	}
	raw, err := io.ReadAll(r)
	r.Close()
	if err != nil {
		return "", false
	}
	m := &cpb.GCECertificateManifest{}
	if err := prototext.Unmarshal(raw, m); err != nil {
		return "manifest does not parse: " + err.Error(), true
	}
	ca := &gcsca.CertificateAuthority{Storage: st, PrivateBucket: cf.bucket, RootPath: cf.rootPath, SigningCertDirInGCS: cf.certDir}
	for _, e := range m.Entries {
		der, err := ca.Certificate(ctx, e.KeyVersionName)
		if err != nil {
			return fmt.Sprintf("manifest entry %q -> %q does not resolve to a stored, parseable certificate: %v", e.KeyVersionName, e.ObjectPath, err), true
		}
		if _, err := x509.ParseCertificate(der); err != nil {
			return fmt.Sprintf("manifest entry %q certificate unparseable", e.KeyVersionName), true
		}
	}
	prim := m.PrimarySigningKeyVersionName
	if prim == "" {
		return "", true
	}
	der, err := ca.Certificate(ctx, prim)
	if err != nil {
		return fmt.Sprintf("recorded primary signing key %q has no certificate: %v", prim, err), true
	}
	cert, err := x509.ParseCertificate(der)
	if err != nil {
		return fmt.Sprintf("certificate of recorded primary %q unparseable", prim), true
	}
	bundle, err := ca.CABundle(ctx, prim)
	if err != nil {
		return fmt.Sprintf("recorded primary signing key %q but the stored root certificate is unreadable: %v", prim, err), true
	}
	blk, _ := pem.Decode(bundle)
	if blk == nil {
		return "stored root certificate is not PEM", true
	}
	root, err := x509.ParseCertificate(blk.Bytes)
	if err != nil {
		return "stored root certificate unparseable", true
	}
	if err := root.CheckSignature(cert.SignatureAlgorithm, cert.RawTBSCertificate, cert.Signature); err != nil {
		return fmt.Sprintf("certificate of recorded primary %q does not verify under the stored root", prim), true
	}
	return "", true
}

// realStore is the store as a new process opens it: the in-memory object store itself, or a new storage/local client on
// the directory.
func realStore(a *authority.Assembly) storagei.Client {
	if a.MemStore != nil {
		return a.MemStore
	}
	return &local.StorageClient{Root: filepath.Join(a.Dir, "ca")}
}

// apply configures the command's authority and key manager values (the command line's flags would).
func (cf *conf) apply(ctx context.Context) error {
	kc, err := keys.FromContext(ctx)
	if err != nil {
		return err
	}
	fca, ok := kc.CA.(*doubles.FCA)
	if !ok {
		return errors.New("harness: unexpected authority wrapper")
	}
	g, ok := fca.Inner.(*gcsca.CertificateAuthority)
	if !ok {
		return errors.New("harness: unexpected authority")
	}
	g.PrivateBucket, g.RootPath, g.SigningCertDirInGCS = cf.bucket, cf.rootPath, cf.certDir
	fm, ok := kc.Manager.(*doubles.FManager)
	if !ok {
		return errors.New("harness: unexpected manager wrapper")
	}
	switch m := fm.Inner.(type) {
	case *memkm.T:
		m.RootKeyName, m.PrimarySigningKeyName = cf.rootKey, cf.signKey
	case *localkm.T:
		m.T.RootKeyName, m.T.PrimarySigningKeyName = cf.rootKey, cf.signKey
	default:
		return errors.New("harness: unexpected manager")
	}
	return nil
}

// probes judges one configured command online: before every object write (= after the writes completed so far) and, by
// finish, after the command.
type probes struct {
	k            *checker
	idx          int
	gname, label string
	store        string
	st           storagei.Client
	cf           conf
	f            *doubles.FCtl
	at           []int // number of completed writes at each probe
	unjudged     int
	bad          bool
}

func (p *probes) check(site string, err error, final bool) {
	c := p.k.c
	msg, judged := consistentAt(p.st, p.cf)
	c.Eval(1)
	p.k.prefixes++
	done := names(p.f.Writes)
	p.at = append(p.at, len(done))
	if !judged {
		p.unjudged++
		return
	}
	if msg == "" {
		return
	}
	p.bad = true
	detail := fmt.Sprintf("%s on %s: after %d completed object writes the reloaded authority is inconsistent: %s", p.label, p.store, len(done), msg)
	if final {
		detail = fmt.Sprintf("%s on %s returned %v; the authority reloaded from the store it left is inconsistent: %s", p.label, p.store, err, msg)
	}
	c.Violate(core.Violation{Kind: "oracle", Entry: p.label, Site: site, Gen: p.gname, Case: p.idx, Detail: detail,
		Witness: map[string]any{"writes_applied": fmt.Sprintf("%q", done), "bucket": p.cf.bucket, "root_path": p.cf.rootPath, "cert_dir": p.cf.certDir,
			"key_names": fmt.Sprintf("%q %q", p.cf.rootKey, p.cf.signKey), "common_names": fmt.Sprintf("%q %q", p.cf.rootCN, p.cf.signCN)}})
}

func (p *probes) hook(seq int, name string) {
	if strings.HasPrefix(name, "storage.Write:") {
		p.check("inconsistent-store-at-write-prefix", nil, false)
	}
}

func (p *probes) finish(err error) { p.check("inconsistent-store-after-command", err, true) }

func objClass(cf conf, o string) string {
	switch {
	case o == gcsca.ManifestObjectName:
		return "manifest"
	case o == cf.rootPath:
		return "root"
	}
	return "certificate"
}

// cells: one per write position of the command.
func (p *probes) cells(c *core.Ctx, tag string, err error) {
	ws := p.f.Writes
	for i, w := range ws {
		c.Cell("configured|%s|%s|%s|%d/%d|%s|%s", p.label, p.store, tag, i+1, len(ws), objClass(p.cf, w.Object), errTag(err, false))
	}
	if len(ws) == 0 {
		c.Cell("configured|%s|%s|%s|no-writes|%s", p.label, p.store, tag, errTag(err, false))
	}
}

// ---- 70000+: configured authorities ----

type oddity struct {
	name  string
	field string // one oddity per field in a combination
	set   func(*conf)
}

var oddities = []oddity{
	// first: the other fields' oddities are applied on top of it in a combination
	{"command-line-defaults", "bucket", func(c *conf) {
		c.bucket, c.certDir, c.rootPath, c.rootCN, c.signCN = "certs-dev", "signer_certs", "GCE-cc-tcb-root.crt", "GCE-cc-tcb-root", "GCE-uefi-signer"
	}},
	{"cert-dir-next-to-the-bucket", "certDir", func(c *conf) { c.certDir = "../certs" }},
	{"cert-dir-trailing-slash", "certDir", func(c *conf) { c.certDir = "certs/" }},
	{"cert-dir-empty", "certDir", func(c *conf) { c.certDir = "" }},
	{"cert-dir-dot", "certDir", func(c *conf) { c.certDir = "." }},
	{"cert-dir-nested", "certDir", func(c *conf) { c.certDir = "signers/2025/q1" }},
	{"cert-dir-dot-segments", "certDir", func(c *conf) { c.certDir = "./certs/../certs2//x" }},
	{"cert-dir-absolute", "certDir", func(c *conf) { c.certDir = "/certs" }},
	{"cert-dir-not-utf8", "certDir", func(c *conf) { c.certDir = "certs-cl\xe9" }},
	{"cert-dir-needs-escaping", "certDir", func(c *conf) { c.certDir = "ce\"rts\n#1 {\\" }},
	{"cert-dir-unicode", "certDir", func(c *conf) { c.certDir = "zertifikäte-証明書" }},
	{"root-path-nested", "rootPath", func(c *conf) { c.rootPath = "roots/2025/root.crt" }},
	{"root-path-next-to-the-bucket", "rootPath", func(c *conf) { c.rootPath = "../root.crt" }},
	{"root-path-space-and-unicode", "rootPath", func(c *conf) { c.rootPath = "wurzel zertifikat ä.pem" }},
	{"bucket-nested", "bucket", func(c *conf) { c.bucket = "deep/bucket" }},
	{"signing-key-name-not-utf8", "signKey", func(c *conf) { c.signKey = "signer-cl\xe9" }},
	{"signing-key-name-needs-escaping", "signKey", func(c *conf) { c.signKey = "sign\"er\n'k\\ey\x01" }},
	{"signing-key-name-unicode", "signKey", func(c *conf) { c.signKey = "подпись-ключ" }},
	{"signing-key-name-kms-style", "signKey", func(c *conf) {
		c.signKey = "projects/p/locations/global/keyRings/r/cryptoKeys/signer/cryptoKeyVersions/1"
	}},
	{"signing-key-name-with-counter", "signKey", func(c *conf) { c.signKey = "signer_41" }},
	{"root-key-name-not-utf8", "rootKey", func(c *conf) { c.rootKey = "root-\xff\xfe" }},
	{"root-key-name-needs-escaping", "rootKey", func(c *conf) { c.rootKey = "ro\tot \"1\"" }},
	{"root-key-name-unicode", "rootKey", func(c *conf) { c.rootKey = "根-ключ" }},
	{"signer-common-name-climbs-out-of-the-cert-dir", "signCN", func(c *conf) { c.signCN = "../signingKeyCn" }},
	{"signer-common-name-dot-segments", "signCN", func(c *conf) { c.signCN = "a/../b/./signingKeyCn" }},
	{"signer-common-name-unicode-and-space", "signCN", func(c *conf) { c.signCN = "GCE UEFI Signierschlüssel" }},
	{"signer-common-name-needs-escaping", "signCN", func(c *conf) { c.signCN = "sign\"er\\cn\n" }},
	{"signer-common-name-not-utf8", "signCN", func(c *conf) { c.signCN = "signer-cl\xe9" }},
	{"root-common-name-next-to-the-cert-dir", "rootCN", func(c *conf) { c.rootCN = "../roots/rootCn" }},
	{"root-common-name-unicode", "rootCN", func(c *conf) { c.rootCN = "Wurzel ä" }},
}

// certDirsForLater are certificate directories a later rotation may be configured with.
var certDirsForLater = []string{"certs", "../certs", "certs2/", "", "later/2026", "../other-certs"}

func configured(c *core.Ctx, k *checker, t0 time.Time) {
	directed := 2 * len(oddities) // every oddity alone, on either store
	n := directed + c.N(20, 120)
	var cmds, completed, rotations, refused, unjudged, movedDir int
	for i := 0; i < n; i++ {
		idx := 70000 + i
		if !c.Mine(idx) {
			continue
		}
		r := c.Rand(idx)
		caKind := []string{authority.GcscaDisk, authority.GcscaMem}[i%2]
		km := authority.MemKM
		cf := defaultConf()
		var tags []string
		if i < directed {
			o := oddities[i/2]
			o.set(&cf)
			tags = []string{o.name}
			if c.Thorough() && r.IntN(3) == 0 {
				km = authority.LocalKM
			}
		} else {
			if r.IntN(3) == 0 {
				km = authority.LocalKM
			}
			used := map[string]bool{}
			for j := 2 + r.IntN(3); j > 0; j-- {
				o := oddities[r.IntN(len(oddities))]
				if used[o.field] {
					continue
				}
				used[o.field] = true
				tags = append(tags, o.name)
			}
			// apply in list order: "command-line-defaults" (first) sets several fields, later oddities refine them
			for _, o := range oddities {
				for _, t := range tags {
					if t == o.name {
						o.set(&cf)
					}
				}
			}
		}
		tag := strings.Join(tags, "+")
		fl := r.IntN(4)
		dir, _ := os.MkdirTemp("", "verif-c11c-")
		a := authority.New(km, caKind, dir)
		st := realStore(a)
		gname := fmt.Sprintf("configured#%d %s %s keep_going=%v overwrite=%v bucket=%q root_path=%q cert_dir=%q key-names=%q,%q common-names=%q,%q",
			i, a.Name(), tag, fl&2 != 0, fl&1 != 0, cf.bucket, cf.rootPath, cf.certDir, cf.rootKey, cf.signKey, cf.rootCN, cf.signCN)
		c.Begin(idx, gname, "rotate.Bootstrap/rotate.Key", nil)
		var hist []string
		// bootstrap of the empty store
		bc := authority.DefaultBootstrap(t0)
		bc.RootKeyCommonName, bc.SigningKeyCommonName = cf.rootCN, cf.signCN
		f := &doubles.FCtl{}
		p := &probes{k: k, idx: idx, gname: gname, label: "bootstrap-configured", store: caKind, st: st, cf: cf, f: f}
		f.Hook = p.hook
		ctx, err := a.Context(f, flagsOf(fl))
		if err == nil {
			err = cf.apply(ctx)
		}
		if err != nil {
			c.Oracle(idx, "rotate.Bootstrap", "harness-cannot-configure", gname, "%v", err)
			os.RemoveAll(dir)
			c.End(idx)
			continue
		}
		err = rotate.Bootstrap(rotate.NewBootstrapContext(ctx, bc))
		c.Eval(1)
		cmds++
		p.finish(err)
		p.cells(c, tag, err)
		unjudged += p.unjudged
		hist = append(hist, fmt.Sprintf("bootstrap -> %s writes=%q", errTag(err, false), names(f.Writes)))
		if err != nil {
			refused++
		}
		if err == nil && wroteManifest(f.Writes) && !p.bad {
			completed++
			nrot := 1 + r.IntN(2)
			for j := 0; j < nrot; j++ {
				rc := cf
				moved := false
				if j == nrot-1 && r.IntN(3) == 0 {
					rc.certDir = certDirsForLater[r.IntN(len(certDirsForLater))]
					moved = rc.certDir != cf.certDir
				}
				f := &doubles.FCtl{}
				p := &probes{k: k, idx: idx, gname: gname, label: "rotate-configured", store: caKind, st: st, cf: rc, f: f}
				f.Hook = p.hook
				ctx, err := a.Context(f, flagsOf(fl))
				if err == nil {
					err = rc.apply(ctx)
				}
				if err != nil {
					c.Oracle(idx, "rotate.Key", "harness-cannot-configure", gname, "%v", err)
					break
				}
				skc := &rotate.SigningKeyContext{SigningKeyCommonName: cf.signCN, Now: t0.Add(time.Duration(j+1) * 24 * time.Hour)}
				ctx = rotate.NewSigningKeyContext(ctx, skc)
				skc.SigningKeySerial, err = sops.NextSigningKeySerial(ctx)
				if err == nil {
					_, err = rotate.Key(ctx)
				}
				c.Eval(1)
				cmds++
				rotations++
				if moved {
					movedDir++
				}
				p.finish(err)
				rtag := tag
				if moved {
					rtag += "+cert-dir-changed-since-bootstrap"
				}
				p.cells(c, rtag, err)
				unjudged += p.unjudged
				hist = append(hist, fmt.Sprintf("rotate(cert_dir %q) -> %s writes=%q", rc.certDir, errTag(err, false), names(f.Writes)))
				if p.bad {
					break
				}
			}
		}
		if i%7 == 0 {
			c.Sample(map[string]any{"history": gname, "commands": hist})
		}
		os.RemoveAll(dir)
		c.End(idx)
	}
	c.Count("configured/commands", cmds)
	c.Count("configured/bootstraps-that-completed", completed)
	c.Count("configured/bootstraps-that-were-refused", refused)
	c.Count("configured/rotations", rotations)
	c.Count("configured/rotations-with-another-cert-dir-than-the-bootstrap", movedDir)
	c.Count("configured/reloads-not-judged-manifest-unreadable", unjudged)
	c.Floor("some-configured-bootstrap-completed", completed > 0)
	c.Floor("some-configured-rotation-ran", rotations > 0)
}

// ---- 80000+: storage that takes fewer bytes than it is given, without an error ----

type shortStore struct {
	storagei.Client
	target int // the ordinal of the object write that is short
	accept func(n int) int
	keeps  bool
	wn     int
	hit    string
	took   int
	of     int
	stored bool
}

type shortW struct {
	s     *shortStore
	ctx   context.Context
	b, o  string
	buf   []byte
	short bool
	keep  bool
}

func (s *shortStore) Writer(ctx context.Context, b, o string) (io.WriteCloser, error) {
	s.wn++
	if s.wn != s.target {
		return s.Client.Writer(ctx, b, o)
	}
	keep := s.keeps && o != gcsca.ManifestObjectName
	if keep {
		// an object that exists is never replaced by a part of its successor: a torn object is outside the property
		if ex, err := s.Client.Exists(ctx, b, o); err != nil || ex {
			keep = false
		}
	}
	s.hit = o
	return &shortW{s: s, ctx: ctx, b: b, o: o, keep: keep}, nil
}

func (w *shortW) Write(p []byte) (int, error) {
	n := w.s.accept(len(p))
	if n > len(p) {
		n = len(p)
	}
	if n < 0 {
		n = 0
	}
	w.buf = append(w.buf, p[:n]...)
	if n < len(p) {
		w.short = true
	}
	w.s.took += n
	w.s.of += len(p)
	return n, nil
}

func (w *shortW) Close() error {
	if w.short && !w.keep {
		return nil // the incomplete object is dropped
	}
	iw, err := w.s.Client.Writer(w.ctx, w.b, w.o)
	if err != nil {
		return err
	}
	if _, err := iw.Write(w.buf); err != nil {
		iw.Close()
		return err
	}
	if err := iw.Close(); err != nil {
		return err
	}
	w.s.stored = true
	return nil
}

var accepts = []struct {
	name string
	f    func(n int) int
}{
	{"half", func(n int) int { return n / 2 }},
	{"nothing", func(n int) int { return 0 }},
	{"all-but-one", func(n int) int { return n - 1 }},
	{"one", func(n int) int { return 1 }},
	{"at-most-512", func(n int) int {
		if n > 512 {
			return 512
		}
		return n
	}},
}

func shortWrites(c *core.Ctx, k *checker, w *worlds, t0 time.Time) {
	type tgt struct {
		cmd string
		pos int
	}
	targets := []tgt{{"rotate", 1}, {"rotate", 2}, {"bootstrap", 1}, {"bootstrap", 2}, {"bootstrap", 3}, {"bootstrap", 4}}
	stores := []string{authority.GcscaMem, authority.GcscaDisk}
	per := len(targets) * 2 * len(stores)
	n := per * c.N(1, len(accepts))
	var reached, shortened, keptPart, followUps, refusedCmd int
	for i := 0; i < n; i++ {
		idx := 80000 + i
		if !c.Mine(idx) {
			continue
		}
		r := c.Rand(idx)
		tg := targets[i%len(targets)]
		keeps := (i/len(targets))%2 == 0
		caKind := stores[(i/(2*len(targets)))%len(stores)]
		acc := accepts[(i/per+r.IntN(len(accepts)))%len(accepts)]
		if c.Thorough() {
			acc = accepts[(i/per)%len(accepts)]
		}
		km := authority.MemKM
		fl := r.IntN(4)
		var a *authority.Assembly
		var tmp string
		if tg.cmd == "bootstrap" {
			tmp, _ = os.MkdirTemp("", "verif-c11s-")
			a = authority.New(km, caKind, tmp)
		} else {
			b := w.get("main", km, caKind)
			if b == nil {
				continue
			}
			a = b.a
			a.Restore(b.snap)
		}
		flavour := "drops-the-incomplete-object"
		if keeps {
			flavour = "keeps-what-it-took"
		}
		gname := fmt.Sprintf("short-write#%d %s %s object write %d takes %s of its bytes without an error, store %s, keep_going=%v overwrite=%v", i, tg.cmd, a.Name(), tg.pos, acc.name, flavour, fl&2 != 0, fl&1 != 0)
		c.Begin(idx, gname, "rotate.Bootstrap/rotate.Key", nil)
		ss := &shortStore{target: tg.pos, accept: acc.f, keeps: keeps}
		wrap := func(in storagei.Client) storagei.Client { ss.Client = in; return ss }
		f := &doubles.FCtl{}
		pre := storeOf(a)
		var err error
		if tg.cmd == "bootstrap" {
			err = bootstrapWith(a, f, flagsOf(fl), authority.DefaultBootstrap(t0), wrap)
		} else {
			_, err = rotateWith(a, f, flagsOf(fl), &rotate.SigningKeyContext{SigningKeyCommonName: signerCN, Now: t0.Add(24 * time.Hour)}, wrap)
		}
		c.Eval(1)
		ok := k.judge(idx, gname, tg.cmd+"-on-storage-taking-fewer-bytes", caKind, pre, f.Writes, storeOf(a), err)
		class := "not-reached"
		if ss.hit != "" {
			reached++
			class = objClass(defaultConf(), ss.hit)
			if ss.took < ss.of {
				shortened++
			}
			if ss.stored && ss.took < ss.of {
				keptPart++
			}
		}
		if err != nil {
			refusedCmd++
		}
		next := "not-run"
		_, had := pre.Objs[authority.Bucket+"/"+gcsca.ManifestObjectName]
		if ok && (had || wroteManifest(f.Writes)) {
			// the history goes on with healthy storage and the command line's default serial
			f2 := &doubles.FCtl{}
			pre := storeOf(a)
			_, rerr := rotateWith(a, f2, flagsOf(r.IntN(4)), &rotate.SigningKeyContext{SigningKeyCommonName: signerCN, Now: t0.Add(48 * time.Hour)}, nil)
			c.Eval(1)
			followUps++
			k.judge(idx, gname, "rotate-after-storage-took-fewer-bytes", caKind, pre, f2.Writes, storeOf(a), rerr)
			next = errTag(rerr, false)
		}
		c.Cell("short-write|%s|%s|write-%d=%s|takes=%s|%s|kg=%v|ow=%v|shortened=%v|part-stored=%v|%s|writes=%d|next-rotation=%s", tg.cmd, caKind, tg.pos, class, acc.name, flavour,
			fl&2 != 0, fl&1 != 0, ss.took < ss.of, ss.stored && ss.took < ss.of, errTag(err, false), len(f.Writes), next)
		if i < 4 {
			c.Sample(map[string]any{"short_write": gname, "object": ss.hit, "took": ss.took, "of": ss.of, "error": fmt.Sprint(err), "writes": names(f.Writes), "next_rotation": next})
		}
		if tmp != "" {
			os.RemoveAll(tmp)
		}
		c.End(idx)
	}
	c.Count("short-write/commands-whose-targeted-object-write-was-reached", reached)
	c.Count("short-write/object-writes-that-took-fewer-bytes-than-given", shortened)
	c.Count("short-write/partial-objects-left-in-the-store", keptPart)
	c.Count("short-write/commands-that-reported-an-error", refusedCmd)
	c.Count("short-write/follow-up-rotations", followUps)
	c.Floor("some-object-write-took-fewer-bytes-than-given", shortened > 0)
	c.Floor("some-partial-object-was-left-in-the-store", keptPart > 0)
}

// ---- 90000+: the nonprod command line under option combinations ----

type cliCase struct {
	name                      string
	bucket, certDir, rootPath string // "" = the flag is not given
	rootCN, signCN            string // "" = the flag is not given
}

var cliCases = []cliCase{
	{name: "all-defaults"},
	{name: "cert-dir-next-to-the-bucket", certDir: "../signer_certs"},
	{name: "cert-dir-next-to-the-bucket-and-bucket", bucket: "b", certDir: "../certs", rootPath: "root.crt"},
	{name: "cert-dir-trailing-slash", certDir: "signer_certs/"},
	{name: "cert-dir-dot", certDir: "."},
	{name: "root-path-nested", rootPath: "roots/root.crt"},
	{name: "root-path-next-to-the-bucket", rootPath: "../root.crt"},
	{name: "common-names-unicode", rootCN: "Wurzel ä", signCN: "GCE UEFI Signierschlüssel"},
	{name: "signer-common-name-climbs-out-of-the-cert-dir", signCN: "../signer"},
	{name: "cert-dir-needs-escaping", certDir: "ce\"rts #1"},
	{name: "cert-dir-not-utf8", certDir: "certs-cl\xe9"},
	{name: "bucket-with-dot-segment", bucket: "./certs-dev"},
}

func runCLI(args []string) error {
	app := &cmd.AppComponents{
		Endorse:         &localnonvcs.T{},
		Bootstrap:       &cmd.PartialComponent{},
		Global:          cmd.Compose(&localkm.T{T: memkm.T{Signer: &nonprod.Signer{Rand: crand.Reader}}}, &localca.T{}),
		SignatureRandom: crand.Reader,
		Storage:         &local.StorageClient{},
	}
	root := cmd.MakeApp(context.Background(), app)
	root.SetArgs(args)
	root.SetOut(io.Discard)
	root.SetErr(io.Discard)
	root.SilenceErrors = true
	root.SilenceUsage = true
	return root.Execute()
}

func commandLine(c *core.Ctx, k *checker, t0 time.Time) {
	n := len(cliCases) * c.N(1, 3)
	var cmds, completed, rotated int
	for i := 0; i < n; i++ {
		idx := 90000 + i
		if !c.Mine(idx) {
			continue
		}
		r := c.Rand(idx)
		cc := cliCases[i%len(cliCases)]
		dir, _ := os.MkdirTemp("", "verif-c11l-")
		keyDir, caDir := filepath.Join(dir, "keys"), filepath.Join(dir, "ca")
		os.MkdirAll(keyDir, 0o755)
		os.MkdirAll(caDir, 0o755)
		// what a reloading process is configured with: the flags given, else the tool's defaults
		cf := conf{bucket: "certs-dev", certDir: "signer_certs", rootCN: "GCE-cc-tcb-root", signCN: "GCE-uefi-signer"}
		common := []string{"--key_dir", keyDir, "--bucket_root", caDir, "--quiet"}
		if cc.bucket != "" {
			cf.bucket = cc.bucket
			common = append(common, "--bucket", cc.bucket)
		}
		if cc.certDir != "" {
			cf.certDir = cc.certDir
			common = append(common, "--cert_dir="+cc.certDir)
		}
		var bargs []string
		if cc.rootCN != "" {
			cf.rootCN = cc.rootCN
			bargs = append(bargs, "--root_key_cn", cc.rootCN)
		}
		sargs := []string{}
		if cc.signCN != "" {
			cf.signCN = cc.signCN
			sargs = append(sargs, "--signing_key_cn="+cc.signCN)
		}
		cf.rootPath = cf.rootCN + ".crt" // derived by the bootstrap command when --root_path is not given
		rootFlag := []string{}
		if cc.rootPath != "" {
			cf.rootPath = cc.rootPath
			rootFlag = []string{"--root_path", cc.rootPath}
		}
		fl := r.IntN(4)
		if fl&1 != 0 {
			common = append(common, "--overwrite")
		}
		if fl&2 != 0 {
			common = append(common, "--keep_going")
		}
		st := &local.StorageClient{Root: caDir}
		gname := fmt.Sprintf("command-line#%d %s flags=%q", i, cc.name, append(append(append([]string{}, bargs...), sargs...), common[4:]...))
		c.Begin(idx, gname, "cmd bootstrap/rotate", nil)
		judge := func(label string, err error) bool {
			msg, judged := consistentAt(st, cf)
			c.Eval(1)
			k.prefixes++
			if judged && msg != "" {
				c.Violate(core.Violation{Kind: "oracle", Entry: label, Site: "inconsistent-store-after-command", Gen: gname, Case: idx,
					Detail:  fmt.Sprintf("%s returned %v; the authority reloaded from the directory it left is inconsistent: %s", label, err, msg),
					Witness: map[string]any{"files": fmt.Sprintf("%q", treeOf(dir))}})
				return false
			}
			return true
		}
		args := append([]string{"bootstrap", "--timestamp", t0.Format(time.RFC3339)}, bargs...)
		args = append(append(append(args, sargs...), rootFlag...), common...)
		berr := runCLI(args)
		c.Eval(1)
		cmds++
		ok := judge("command-line-bootstrap", berr)
		next := "not-run"
		if ok && berr == nil {
			completed++
			nrot := 1 + r.IntN(2)
			for j := 0; j < nrot; j++ {
				args := append([]string{"rotate", "--timestamp", t0.Add(time.Duration(j+1) * 24 * time.Hour).Format(time.RFC3339), "--root_path", cf.rootPath}, sargs...)
				args = append(args, common...)
				rerr := runCLI(args)
				c.Eval(1)
				cmds++
				rotated++
				next = errTag(rerr, false)
				if !judge("command-line-rotate", rerr) {
					break
				}
			}
		}
		c.Cell("command-line|%s|kg=%v|ow=%v|bootstrap=%s|last-rotation=%s", cc.name, fl&2 != 0, fl&1 != 0, errTag(berr, false), next)
		os.RemoveAll(dir)
		c.End(idx)
	}
	c.Count("command-line/commands", cmds)
	c.Count("command-line/bootstraps-that-completed", completed)
	c.Count("command-line/rotations", rotated)
	c.Floor("some-command-line-bootstrap-completed", completed > 0)
}

func treeOf(root string) []string {
	var out []string
	filepath.Walk(root, func(p string, info os.FileInfo, err error) error {
		if err == nil && !info.IsDir() {
			rel, _ := filepath.Rel(root, p)
			out = append(out, rel)
		}
		return nil
	})
	return out
}
