package c03

// One more workload dimension (fifth review round). The oracle is unchanged (checkFresh / recheck); what is new is
// WHAT is produced:
//
//   serial-flag histories  the quantifier says "all key histories of bootstrap plus n rotations with ANY serial/time
//                          flags". Until now every serial number of a history was a small positive integer (1..9999).
//                          The flags are arbitrary-precision decimal integers (--root_key_serial,
//                          --initial_signing_key_serial, --rotated_key_serial_override; BootstrapContext /
//                          SigningKeyContext hold *big.Int), the serial number is used three times (certificate serial
//                          number, subject serialNumber attribute in decimal, object name of the stored certificate)
//                          and the default of a rotation is computed from it (predecessor + 1). The histories here
//                          put the serial flags on the arithmetic and encoding boundaries of those uses:
//                            0                       taken literally by bootstrap (for the rotate FLAG 0 means
//                                                    "default"; through the library a rotation to 0 is literal too)
//                            1, 0x7f, 0x80           DER sign-padding boundary of a one-octet integer
//                            2^63-1, 2^63, 2^64-1, 2^64   machine-word boundaries
//                            16 random octets        what a random-serial authority would hand out
//                            2^159-1, 2^159          20 content octets without / with a DER padding octet
//                            2^160-1, 2^160, 2^160+x, 21 random octets, 2^255+x   at and beyond 20 octets
//                          for the root key, the first signing key and the rotation overrides, and let DEFAULT
//                          rotations (predecessor + 1) follow boundary values so that the tool itself computes the
//                          value across the boundary (0 -> 1, 2^64-1 -> 2^64, 2^160-1 -> 2^160). The library path, the
//                          long-lived authority value and the shipped command line are all used.
//                          What is judged: every file an endorse run commits verifies (all rules of checkFresh) and
//                          earlier endorsements keep verifying after every later command. A bootstrap or rotation that
//                          the tool REFUSES for such a serial is counted, never judged (then nothing was written; the
//                          floors below say whether serial-0 and beyond-20-octet keys were reached at all).

import (
	"crypto/x509"
	"fmt"
	"math/big"
	mrand "math/rand/v2"
	"os"
	"path/filepath"
	"time"

	epb "github.com/google/gce-tcb-verifier/proto/endorsement"
	"github.com/google/gce-tcb-verifier/rotate"
	"google.golang.org/protobuf/proto"

	"verifharness/authority"
	"verifharness/core"
	"verifharness/doubles"
	"verifharness/gen/endreq"
)

var (
	serialKinds     = []string{"zero", "one", "0x7f", "0x80", "2^63-1", "2^63", "2^64-1", "2^64", "16-random-octets", "2^159-1", "2^159", "2^160-1", "2^160", "2^160+x", "21-random-octets", "2^255+x"}
	serialLongKinds = []string{"2^160", "2^160+x", "21-random-octets", "2^255+x"}
	// boundary values after which a DEFAULT rotation makes the tool compute the value on the other side
	serialBeforeBoundary = []string{"zero", "0x7f", "2^63-1", "2^64-1", "2^159-1", "2^160-1"}
)

func pow2(n uint) *big.Int { return new(big.Int).Lsh(big.NewInt(1), n) }

func randOctets(r *mrand.Rand, n int) *big.Int {
	b := prbytes(r, n)
	b[0] |= 0x80 // exactly n octets, top bit set
	return new(big.Int).SetBytes(b)
}

func serialOf(r *mrand.Rand, kind string) *big.Int {
	one := big.NewInt(1)
	switch kind {
	case "zero":
		return big.NewInt(0)
	case "one":
		return big.NewInt(1)
	case "0x7f":
		return big.NewInt(0x7f)
	case "0x80":
		return big.NewInt(0x80)
	case "2^63-1":
		return new(big.Int).Sub(pow2(63), one)
	case "2^63":
		return pow2(63)
	case "2^64-1":
		return new(big.Int).Sub(pow2(64), one)
	case "2^64":
		return pow2(64)
	case "16-random-octets":
		return randOctets(r, 16)
	case "2^159-1":
		return new(big.Int).Sub(pow2(159), one)
	case "2^159":
		return pow2(159)
	case "2^160-1":
		return new(big.Int).Sub(pow2(160), one)
	case "2^160":
		return pow2(160)
	case "2^160+x":
		return new(big.Int).Add(pow2(160), big.NewInt(int64(1+r.IntN(1000))))
	case "21-random-octets":
		return randOctets(r, 21)
	default: // 2^255+x
		return new(big.Int).Add(pow2(255), big.NewInt(int64(1+r.IntN(1000))))
	}
}

// serialClass names the encoding class of a certificate serial number as it is found in an issued certificate.
func serialClass(s *big.Int) string {
	n := len(s.Bytes())
	switch {
	case s.Sign() == 0:
		return "zero"
	case n > 20:
		return "longer-than-20-octets"
	case n == 20 && s.Bytes()[0]&0x80 != 0:
		return "20-octets-top-bit-set"
	case n > 8:
		return "9-to-20-octets"
	}
	return "machine-word"
}

// runRound5 runs the family on case numbers base, base+1, ... and returns the number of endorsements issued and
// checked.
func runRound5(c *core.Ctx, base int) int {
	var t serialTotals
	i := base
	for k := 0; k < c.N(12, 36); k, i = k+1, i+1 {
		if c.Mine(i) {
			serialHistory(c, i, k, &t)
		}
	}
	c.Floor("serial-flag-histories-issued-endorsements", t.issued > 0)
	c.Floor("serial-flag-histories-issued-endorsements-under-a-signing-certificate-with-serial-0", t.zero > 0)
	c.Floor("serial-flag-histories-issued-endorsements-under-a-signing-certificate-whose-serial-is-longer-than-20-octets", t.long > 0)
	c.Floor("serial-flag-histories-re-verified-such-endorsements-after-a-later-rotation", t.reverified > 0)
	return t.issued
}

type serialTotals struct{ issued, zero, long, reverified int }

func serialHistory(c *core.Ctx, idx, k int, tot *serialTotals) {
	r := c.Rand(idx)
	pairs := authority.Pairs()
	p := pairs[k%len(pairs)]
	pass := k / len(pairs)
	dir, _ := os.MkdirTemp("", "verif-c03-serial-")
	defer os.RemoveAll(dir)
	a := authority.New(p[0], p[1], dir)
	a.LongLived = pass%2 == 1
	viaCLI := a.CLIable() && !a.LongLived
	h := newHist(c, idx, fmt.Sprintf("serial-flag history#%d %s long-lived-ca=%v cli=%v", k, a.Name(), a.LongLived, viaCLI), a)
	c.Begin(idx, h.gname, "bootstrap/rotate/endorse", nil)
	defer c.End(idx)

	// the plan: serial kinds of the root key and of the first signing key, then the rotations
	var rootKind, firstKind string
	var rots []string // a serial kind (override), "default", "explicit-0-flag(default)" or "literal-zero-through-the-library"
	drawRot := func() string {
		switch x := r.IntN(8); {
		case x < 2:
			return "default"
		case x == 2:
			if viaCLI {
				return "explicit-0-flag(default)"
			}
			return "literal-zero-through-the-library"
		}
		return serialKinds[1+r.IntN(len(serialKinds)-1)]
	}
	switch pass {
	case 0: // first signing key 0, default rotation (the tool computes 1), then an override beyond 20 octets
		rootKind, firstKind = "one", "zero"
		rots = []string{"default", serialLongKinds[r.IntN(len(serialLongKinds))]}
	case 1: // first signing key right before a boundary, default rotation across it, then a drawn one
		rootKind, firstKind = serialKinds[r.IntN(len(serialKinds))], serialBeforeBoundary[1+r.IntN(len(serialBeforeBoundary)-1)]
		if k%2 == 1 {
			firstKind = "2^160-1"
		}
		rots = []string{"default", drawRot()}
	case 2: // first signing key beyond 20 octets, root key 0
		rootKind, firstKind = "zero", serialLongKinds[r.IntN(len(serialLongKinds))]
		rots = []string{drawRot(), "default"}
	default:
		rootKind, firstKind = serialKinds[r.IntN(len(serialKinds))], serialKinds[r.IntN(len(serialKinds))]
		rots = []string{drawRot(), drawRot()}
	}
	for j, m := 0, r.IntN(c.N(1, 3)); j < m; j++ {
		rots = append(rots, drawRot())
	}

	t0 := time.Date(2024, 3, 1, 0, 0, 0, 0, time.UTC)
	bc := authority.DefaultBootstrap(t0)
	bc.RootKeySerial, bc.SigningKeySerial = serialOf(r, rootKind), serialOf(r, firstKind)
	var berr error
	if viaCLI {
		berr = a.CLI("bootstrap", "--timestamp", t0.Format(time.RFC3339), "--root_key_cn", bc.RootKeyCommonName, "--signing_key_cn", bc.SigningKeyCommonName,
			"--root_key_serial", bc.RootKeySerial.String(), "--initial_signing_key_serial", bc.SigningKeySerial.String())
	} else {
		berr = a.Bootstrap(&doubles.FCtl{}, authority.Opts{}, bc)
	}
	c.Eval(1)
	h.logf("bootstrap(root_key_serial=%v [%s] initial_signing_key_serial=%v [%s]) -> %v", bc.RootKeySerial, rootKind, bc.SigningKeySerial, firstKind, berr)
	if berr != nil {
		c.Count("serial-flag-histories-bootstrap-refused(not judged)", 1)
		return
	}
	c.Cell("%s|serial-flags|bootstrap|root=%s|first-signing-key=%s", a.Name(), rootKind, firstKind)

	var all []*issued
	special := 0 // endorsements in all whose signing certificate has serial 0 or a serial longer than 20 octets
	step := 0
	now := t0
	doEndorse := func(after string) {
		step++
		ec := endreq.Random(r, endreq.Opts{MaxImage: 64 << 10, AllowNoTDX: true, CheapTDX: true}, step)
		ec.VCS, ec.OutDir = h.vcs, "out"
		shape := fmt.Sprintf("snp=%v(vmsas=%d) tdx=%v(shapes=%d early=%v) svsm=%v after=%s", ec.SevSnp != nil, vm(ec), ec.Tdx != nil, shapes(ec), early(ec), len(ec.SvsmSnpMeasurement) > 0, after)
		var err error
		if viaCLI {
			err = h.endorseCLI(ec, step)
		} else {
			err = a.Endorse(&doubles.FCtl{}, authority.Opts{}, ec)
		}
		c.Eval(1)
		h.logf("endorse(%s) -> %v", shape, err)
		if err != nil {
			h.viol("fault-free-endorse-failed", "step %d (%s): %v", step, shape, err)
			return
		}
		path := "out/" + ec.CandidateName + ".binarypb"
		raw, ok := h.vcs.Head[path]
		if viaCLI {
			b, rerr := os.ReadFile(filepath.Join(a.OutRoot(), path))
			raw, ok = b, rerr == nil
		}
		if !ok {
			h.viol("endorsement-file-missing", "step %d: %s not among the written files", step, path)
			return
		}
		// which signing certificate does the written file carry (evidence and floors; judged by checkFresh)
		class := "unparsed"
		e, g := &epb.VMLaunchEndorsement{}, &epb.VMGoldenMeasurement{}
		if proto.Unmarshal(raw, e) == nil && proto.Unmarshal(e.SerializedUefiGolden, g) == nil {
			if leaf, err := x509.ParseCertificate(g.Cert); err == nil {
				class = serialClass(leaf.SerialNumber)
				h.logf("  (signing certificate serial %v: %s)", leaf.SerialNumber, class)
			}
		}
		is := h.checkFresh(raw, step, shape+" signing-certificate-serial="+class, c.Thorough())
		if is != nil {
			all = append(all, is)
			tot.issued++
			c.Count("serial-flag-endorsements-checked", 1)
			c.Count("serial-flag-endorsements-checked|signing-certificate-serial="+class, 1)
			c.Cell("%s|serial-flags|endorse|signing-certificate-serial=%s|after=%s", a.Name(), class, after)
			switch class {
			case "zero":
				tot.zero++
				special++
			case "longer-than-20-octets":
				tot.long++
				special++
			}
		}
		h.recheck(all, step, "endorse")
	}

	doEndorse("bootstrap(first-signing-key=" + firstKind + ")")
	for _, kind := range rots {
		step++
		now = now.Add(time.Duration(1+r.IntN(150)) * 24 * time.Hour)
		skc := &rotate.SigningKeyContext{SigningKeyCommonName: "signingKeyCn", Now: now}
		var err error
		switch kind {
		case "default", "explicit-0-flag(default)":
		case "literal-zero-through-the-library":
			skc.SigningKeySerial = big.NewInt(0)
		default:
			skc.SigningKeySerial = serialOf(r, kind)
		}
		switch {
		case viaCLI:
			args := []string{"rotate", "--timestamp", now.Format(time.RFC3339), "--signing_key_cn", skc.SigningKeyCommonName}
			if kind == "explicit-0-flag(default)" {
				args = append(args, "--rotated_key_serial_override", "0")
			} else if skc.SigningKeySerial != nil {
				args = append(args, "--rotated_key_serial_override", skc.SigningKeySerial.String())
			}
			err = a.CLI(args...)
		case kind == "literal-zero-through-the-library": // rotate.Key with the serial the caller put into the context, no default substituted
			ctx, cerr := a.Context(&doubles.FCtl{}, authority.Opts{})
			if err = cerr; err == nil {
				_, err = rotate.Key(rotate.NewSigningKeyContext(ctx, skc))
			}
		default:
			_, err = a.Rotate(&doubles.FCtl{}, authority.Opts{}, skc)
		}
		c.Eval(1)
		h.logf("rotate(now=%s serial=%v [%s]) -> %v", now.Format("2006-01-02"), skc.SigningKeySerial, kind, err)
		if err != nil {
			// refused (the object name of an earlier certificate, or a serial the tool does not take): nothing was issued
			a.DropLongLived()
			if refused(err) {
				c.Count("rotation-refused-existing-object", 1)
			} else {
				c.Count("serial-flag-histories-rotation-refused(not judged)", 1)
			}
			h.recheck(all, step, "failed-rotate")
			continue
		}
		c.Cell("%s|serial-flags|rotation|%s", a.Name(), kind)
		h.recheck(all, step, "rotate")
		if h.nviol == 0 {
			tot.reverified += special
			c.Count("serial-flag-endorsements-of-serial-0-or-long-serial-keys-re-verified-after-a-later-rotation", special)
		}
		doEndorse("rotation(" + kind + ")")
		if r.IntN(3) == 0 {
			doEndorse("rotation(" + kind + ")+1")
		}
	}
	if k < 6 || (k >= 6 && k < 8) {
		c.Sample(map[string]any{"history": h.gname, "commands": *h.cmds})
	}
}
