package c03

// Workload dimensions added by the class audit of the check (DESIGN section 8.6). The oracle is the one of the
// generated histories (checkFresh / recheck); what is new is WHAT is produced:
//
//   reused-request histories  one endorse.Context value serves every endorse run of a history (fields replaced or
//                             buffers refilled in place, same candidate name again under overwrite, a run that fails
//                             and is repeated with the request repaired in place, two version-control back ends,
//                             snapshot with an SVSM image), one localkm manager / gcsca value lives across the
//                             commands, and rotations carry hostile time flags: backwards (also before the bootstrap
//                             instant), the same instant again, sub-second and zoned instants, and an instant so late
//                             in the root's life that the signing certificate outlives the root (the common validity
//                             window then ENDS at the root's NotAfter)
//   parallel batches          several endorse runs of one process at the same time on one authority and one
//                             version-control back end, then concurrent verification on one shared pool
//   faulted endorse runs      an error (not a crash) injected at every call position of an endorse run, plain /
//                             under keep-going / with a back end whose errors are all retriable; then the SAME
//                             request is run again with other flags. Whatever file is committed must verify
//   environment histories     the shipped command line on disk: output directories that do not exist yet or are
//                             symbolic links, longer left-overs (garbage, an older longer endorsement, a symbolic
//                             link to a longer file) at the very paths the run writes under --overwrite, a longer
//                             left-over at the object name the next signing certificate lands on, zoned timestamps

import (
	"crypto/x509"
	"fmt"
	"math/big"
	mrand "math/rand/v2"
	"os"
	"path/filepath"
	"strings"
	"sync"
	"time"

	"github.com/google/gce-tcb-verifier/endorse"
	"github.com/google/gce-tcb-verifier/rotate"
	"github.com/google/gce-tcb-verifier/verify"

	"verifharness/authority"
	"verifharness/core"
	"verifharness/doubles"
	"verifharness/gen/endreq"
)

// runAudit runs the added families on case numbers base, base+1, ... (after every case that existed before) and
// returns the number of endorsements issued and checked and the first case number after its own.
func runAudit(c *core.Ctx, base int) (int, int) {
	issued := 0
	i := base
	var nReuse, nPar, nFault, nEnv int
	for k := 0; k < c.N(12, 36); k, i = k+1, i+1 {
		if c.Mine(i) {
			n := reuseHistory(c, i, k)
			issued, nReuse = issued+n, nReuse+n
		}
	}
	for k := 0; k < c.N(6, 18); k, i = k+1, i+1 {
		if c.Mine(i) {
			n := parallelBatch(c, i, k)
			issued, nPar = issued+n, nPar+n
		}
	}
	for k := 0; k < c.N(6, 18); k, i = k+1, i+1 {
		if c.Mine(i) {
			n := faultedEndorse(c, i, k)
			issued, nFault = issued+n, nFault+n
		}
	}
	for k := 0; k < c.N(4, 12); k, i = k+1, i+1 {
		if c.Mine(i) {
			n := envHistory(c, i, k)
			issued, nEnv = issued+n, nEnv+n
		}
	}
	c.Floor("reused-request-histories-issued-endorsements", nReuse > 0)
	c.Floor("parallel-batches-issued-endorsements", nPar > 0)
	c.Floor("faulted-endorse-runs-issued-endorsements", nFault > 0)
	c.Floor("environment-histories-issued-endorsements", nEnv > 0)
	return issued, i
}

func newHist(c *core.Ctx, idx int, gname string, a *authority.Assembly) *hist {
	h := &hist{c: c, idx: idx, gname: gname, a: a, vcs: doubles.NewMemVCS(nil), vcek: map[int64][]byte{}}
	h.cmds = new([]string)
	return h
}

func (h *hist) logf(format string, a ...any) { *h.cmds = append(*h.cmds, fmt.Sprintf(format, a...)) }

func refused(err error) bool {
	s := err.Error()
	return strings.Contains(s, "AlreadyExists") || strings.Contains(s, "overwrite") || strings.Contains(s, "exists")
}

func prbytes(r *mrand.Rand, n int) []byte {
	b := make([]byte, n)
	for i := range b {
		b[i] = byte(r.IntN(256))
	}
	return b
}

// ---------------------------------------------------------------------------------------------------------------
// reused-request histories

// refill puts the generated request nw into the kept request value ec.
func refill(r *mrand.Rand, ec, nw *endorse.Context, mode int) string {
	switch mode {
	case 0: // every field replaced by a new value
		ec.Image, ec.SevSnp, ec.Tdx, ec.Commit, ec.SvsmSnpMeasurement = nw.Image, nw.SevSnp, nw.Tdx, nw.Commit, nw.SvsmSnpMeasurement
	case 1: // buffers and sub-requests refilled in place
		if cap(ec.Image) >= len(nw.Image) {
			ec.Image = ec.Image[:len(nw.Image)]
			copy(ec.Image, nw.Image)
		} else {
			ec.Image = nw.Image
		}
		if ec.SevSnp != nil && nw.SevSnp != nil {
			*ec.SevSnp = *nw.SevSnp
		} else {
			ec.SevSnp = nw.SevSnp
		}
		if ec.Tdx != nil && nw.Tdx != nil {
			shapes := append(ec.Tdx.MachineShapes[:0], nw.Tdx.MachineShapes...)
			*ec.Tdx = *nw.Tdx
			ec.Tdx.MachineShapes = shapes
		} else {
			ec.Tdx = nw.Tdx
		}
		ec.Commit = append(ec.Commit[:0], nw.Commit...)
		if len(ec.Commit) == 0 {
			ec.Commit = nil
		}
		if len(nw.SvsmSnpMeasurement) > 0 && ec.SevSnp != nil {
			ec.SvsmSnpMeasurement = append(ec.SvsmSnpMeasurement[:0], nw.SvsmSnpMeasurement...)
		} else {
			ec.SvsmSnpMeasurement = nil
		}
	default: // only the image changes, the request stays as it is
		ec.Image = nw.Image
		if ec.SevSnp == nil {
			ec.SvsmSnpMeasurement = nil
		}
	}
	ec.ClSpec, ec.Timestamp, ec.ImageName = nw.ClSpec, nw.Timestamp, nw.ImageName
	if ec.ClSpec == 0 && len(ec.Commit) == 0 {
		ec.ClSpec = 1 + uint64(r.IntN(1<<30)) // requests always carry provenance
	}
	return [...]string{"fields-replaced", "refilled-in-place", "image-only"}[mode]
}

func reuseHistory(c *core.Ctx, idx, k int) int {
	r := c.Rand(idx)
	pairs := authority.Pairs()
	p := pairs[k%len(pairs)]
	dir, _ := os.MkdirTemp("", "verif-c03-ru-")
	defer os.RemoveAll(dir)
	a := authority.New(p[0], p[1], dir)
	keep := (k/len(pairs))%2 == 0
	a.LongLived = keep                              // one gcsca value (and its manifest cache) for all commands
	a.LongLivedKM = keep && a.KM == authority.LocalKM // one localkm manager value for all commands
	twoVCS := k%3 == 1
	h := newHist(c, idx, fmt.Sprintf("reused-request history#%d %s long-lived-ca=%v long-lived-km=%v two-vcs=%v", k, a.Name(), a.LongLived, a.LongLivedKM, twoVCS), a)
	c.Begin(idx, h.gname, "bootstrap/rotate/endorse", nil)
	defer c.End(idx)

	// bootstrap instant: whole second / sub-second / in a zone
	t0 := time.Date(2024, 3, 1, 0, 0, 0, 0, time.UTC).Add(time.Duration(r.IntN(86400)) * time.Second)
	zone := time.FixedZone("", (r.IntN(27)-12)*3600+1800*r.IntN(2))
	switch k % 3 {
	case 1:
		t0 = t0.Add(time.Duration(1 + r.IntN(999_999_999)))
	case 2:
		t0 = t0.In(zone)
	}
	bc := authority.DefaultBootstrap(t0)
	if err := a.Bootstrap(&doubles.FCtl{}, authority.Opts{}, bc); err != nil {
		h.viol("bootstrap-failed", "%v", err)
		return 0
	}
	root, why := h.root()
	if root == nil {
		h.viol("authority-root-unavailable", "%s", why)
		return 0
	}
	lastSerial, lastCN := big.NewInt(2), "signingKeyCn"
	second := doubles.NewMemVCS(nil)

	// THE request value of this history
	ec := endreq.Random(r, endreq.Opts{MaxImage: 256 << 10, AllowNoTDX: true, CheapTDX: !c.Thorough()}, 0)
	ec.VCS, ec.OutDir = h.vcs, "out"
	if twoVCS {
		ec.VCS, ec.VCSs = nil, []endorse.VersionControl{h.vcs, second}
	}
	firstUse := true
	var all []*issued
	n := 0
	now := t0
	farDone := false
	rotations := 0
	directed := [...]string{"same-object-name", "leaf-outlives-root", "backwards", "sub-second-zoned"}[k%4]
	ncmd := 7 + r.IntN(c.N(3, 6))
	for step := 1; step <= ncmd; step++ {
		if step == 3 || (step > 1 && step != 4 && r.IntN(5) < 2) {
			kind := [...]string{"forward", "forward", "backwards", "same-instant", "leaf-outlives-root", "sub-second-zoned", "same-object-name"}[r.IntN(7)]
			if step == 3 {
				kind = directed
			}
			if kind == "leaf-outlives-root" && farDone {
				kind = "forward"
			}
			skc := &rotate.SigningKeyContext{SigningKeyCommonName: "signingKeyCn"}
			ropts := authority.Opts{}
			switch kind {
			case "forward":
				now = now.Add(time.Duration(1+r.IntN(200)) * 24 * time.Hour)
			case "backwards": // earlier than the previous command, possibly earlier than the bootstrap
				now = now.Add(-time.Duration(1+r.IntN(400)) * 24 * time.Hour)
			case "same-instant":
			case "leaf-outlives-root": // so late that NotBefore + 5 years lies beyond the root's NotAfter
				now = root.NotAfter.Add(-time.Duration(2+r.IntN(1500)) * 24 * time.Hour).Add(-time.Duration(r.IntN(86400)) * time.Second)
				farDone = true
			case "sub-second-zoned":
				now = now.Add(time.Duration(1+r.IntN(200))*24*time.Hour + time.Duration(1+r.IntN(999_999_999))).In(zone)
			case "same-object-name": // serial and common name of the current certificate again: allowed by --overwrite
				now = now.Add(time.Duration(1+r.IntN(200)) * 24 * time.Hour)
				skc.SigningKeySerial, skc.SigningKeyCommonName = new(big.Int).Set(lastSerial), lastCN
				ropts.Overwrite = true
			}
			if !now.Before(root.NotAfter.Add(-48 * time.Hour)) { // stay inside the root's life: outside it no common validity exists
				now = t0.Add(time.Duration(1+r.IntN(1000)) * 24 * time.Hour)
				kind += "(wrapped-back)"
			}
			if kind != "same-object-name" && r.IntN(5) == 0 {
				skc.SigningKeySerial = big.NewInt(int64(7000 + 10*step + r.IntN(5)))
			}
			skc.Now = now
			_, err := a.Rotate(&doubles.FCtl{}, ropts, skc)
			h.logf("rotate(%s now=%s serial=%v overwrite=%v) -> %v", kind, now.Format(time.RFC3339Nano), skc.SigningKeySerial, ropts.Overwrite, err)
			if st := a.Observe(); st.PrimaryCert != nil {
				if s, ok := new(big.Int).SetString(st.PrimaryCert.Subject.SerialNumber, 10); ok {
					lastSerial, lastCN = s, st.PrimaryCert.Subject.CommonName
				}
			}
			if err != nil {
				a.DropLongLived()
				a.DropLongLivedKM()
				if refused(err) {
					c.Count("rotation-refused-existing-object", 1)
				} else {
					h.viol("fault-free-rotation-failed", "step %d (%s): %v", step, kind, err)
				}
			} else {
				rotations++
				c.Cell("%s|rotation-time-flag|%s", a.Name(), kind)
				c.Count("rotations-with-time-flag:"+strings.TrimSuffix(kind, "(wrapped-back)"), 1)
			}
			h.recheck(all, step, "rotate")
			continue
		}
		// ---- an endorse run with THE request value, changed in place ----
		nw := endreq.Random(r, endreq.Opts{MaxImage: 256 << 10, AllowNoTDX: true, CheapTDX: !c.Thorough()}, step)
		how := "first-use"
		prevName := ec.CandidateName
		if !firstUse {
			how = refill(r, ec, nw, r.IntN(3))
			ec.CandidateName = nw.CandidateName
		}
		eo := authority.Opts{}
		if !firstUse && r.IntN(3) == 0 { // the same candidate again: its file is replaced under overwrite
			ec.CandidateName = prevName
			eo.Overwrite = true
			how += "+same-candidate-overwritten"
		}
		firstUse = false
		ec.SnapshotDir, ec.SvsmImage = "", nil
		if r.IntN(4) == 0 {
			ec.SnapshotDir = "snap"
			if r.IntN(2) == 0 {
				ec.SvsmImage = prbytes(r, 64+r.IntN(64))
			}
			eo.Overwrite = true // snapshot paths carry the image name; harmless when nothing is there
		}
		shape := fmt.Sprintf("snp=%v(vmsas=%d) tdx=%v(shapes=%d early=%v) svsm=%v snapshot=%v after-provenance-date=%v", ec.SevSnp != nil, vm(ec), ec.Tdx != nil, shapes(ec), early(ec),
			len(ec.SvsmSnpMeasurement) > 0, ec.SnapshotDir != "", ec.Timestamp.After(endreq.ReleaseChange))
		// a run that fails (a machine shape nobody knows), then the same value repaired in place and run again
		if ec.Tdx != nil && r.IntN(5) == 0 {
			ec.Tdx.MachineShapes = append(ec.Tdx.MachineShapes, "c3-standard-5")
			err := a.Endorse(&doubles.FCtl{}, eo, ec)
			c.Eval(1)
			h.logf("endorse(%s, request value reused: %s, with an unknown machine shape) -> %v", shape, how, err)
			ec.Tdx.MachineShapes = ec.Tdx.MachineShapes[:len(ec.Tdx.MachineShapes)-1]
			if err != nil {
				c.Count("failed-endorse-then-same-request-repaired-in-place", 1)
				how += "+after-a-failed-run"
			} else {
				eo.Overwrite = true
			}
		}
		err := a.Endorse(&doubles.FCtl{}, eo, ec)
		c.Eval(1)
		h.logf("endorse(%s, request value reused: %s, overwrite=%v) -> %v", shape, how, eo.Overwrite, err)
		if err != nil {
			h.viol("fault-free-endorse-failed", "step %d (%s; the one request value of the history, %s): %v", step, shape, how, err)
			continue
		}
		paths := []string{"out/" + ec.CandidateName + ".binarypb"}
		if ec.SnapshotDir != "" {
			paths = []string{"snap/" + ec.ImageName + ".signed"}
			if len(ec.SvsmImage) != 0 {
				paths = append(paths, "snap/svsm.igvm.signed")
			}
		}
		heads := []*doubles.MemVCS{h.vcs}
		if twoVCS {
			heads = append(heads, second)
		}
		var first []byte
		for vi, v := range heads {
			for _, path := range paths {
				raw, ok := v.Head[path]
				if !ok {
					h.viol("endorsement-file-missing", "step %d: %s not in the committed head of version control %d", step, path, vi)
					continue
				}
				if first != nil && string(first) == string(raw) {
					c.Count("further-files-of-one-run-identical-to-the-first", 1)
					c.Cell("%s|further-file-of-the-run|vcs=%d|svsm-path=%v", a.Name(), vi, strings.Contains(path, "svsm"))
					continue
				}
				if is := h.checkFresh(raw, step, shape, c.Thorough()); is != nil {
					all = append(all, is)
					n++
					c.Count("reused-request-endorsements-checked", 1)
					c.Cell("%s|reused-request|%s|after-%d-rotations", a.Name(), how, min(rotations, 4))
				}
				if first == nil {
					first = raw
				}
			}
		}
		h.recheck(all, step, "endorse")
	}
	if k < 4 {
		c.Sample(map[string]any{"history": h.gname, "commands": *h.cmds})
	}
	return n
}

// ---------------------------------------------------------------------------------------------------------------
// parallel batches

func parallelBatch(c *core.Ctx, idx, k int) int {
	r := c.Rand(idx)
	pairs := authority.Pairs()
	p := pairs[k%len(pairs)]
	dir, _ := os.MkdirTemp("", "verif-c03-par-")
	defer os.RemoveAll(dir)
	a := authority.New(p[0], p[1], dir)
	h := newHist(c, idx, fmt.Sprintf("parallel batch#%d %s", k, a.Name()), a)
	c.Begin(idx, h.gname, "endorse x N at the same time", nil)
	defer c.End(idx)
	t0 := time.Date(2024, 3, 1, 0, 0, 0, 0, time.UTC)
	if err := a.Bootstrap(&doubles.FCtl{}, authority.Opts{}, authority.DefaultBootstrap(t0)); err != nil {
		h.viol("bootstrap-failed", "%v", err)
		return 0
	}
	if _, err := a.Rotate(&doubles.FCtl{}, authority.Opts{}, &rotate.SigningKeyContext{SigningKeyCommonName: "signingKeyCn", Now: t0.Add(time.Duration(1+r.IntN(300)) * 24 * time.Hour)}); err != nil {
		h.viol("fault-free-rotation-failed", "%v", err)
		return 0
	}
	workers, per := 6, c.N(3, 5)
	type job struct {
		ec    *endorse.Context
		shape string
		err   error
		pan   any
	}
	jobs := make([][]*job, workers)
	ctxs := make([]func(*endorse.Context) error, workers)
	for g := 0; g < workers; g++ {
		// every worker gets its own command context (own authority value and key manager view, like one request handler each)
		ctx, err := a.Context(&doubles.FCtl{}, authority.Opts{})
		if err != nil {
			h.viol("fault-free-endorse-failed", "command context: %v", err)
			return 0
		}
		ctxs[g] = func(ec *endorse.Context) error { return endorse.VirtualFirmware(endorse.NewContext(ctx, ec)) }
		for j := 0; j < per; j++ {
			ec := endreq.Random(r, endreq.Opts{MaxImage: 64 << 10, AllowNoTDX: true, CheapTDX: true}, g*per+j)
			ec.VCS, ec.OutDir = h.vcs, "out"
			jobs[g] = append(jobs[g], &job{ec: ec, shape: fmt.Sprintf("snp=%v(vmsas=%d) tdx=%v(shapes=%d early=%v) svsm=%v", ec.SevSnp != nil, vm(ec), ec.Tdx != nil, shapes(ec), early(ec), len(ec.SvsmSnpMeasurement) > 0)})
		}
	}
	var wg sync.WaitGroup
	start := make(chan struct{})
	for g := 0; g < workers; g++ {
		wg.Add(1)
		go func(g int) {
			defer wg.Done()
			<-start
			for _, j := range jobs[g] {
				func() {
					defer func() { j.pan = recover() }()
					j.err = ctxs[g](j.ec)
				}()
			}
		}(g)
	}
	close(start)
	wg.Wait()
	c.Eval(workers * per)
	n := 0
	var all []*issued
	for g := range jobs {
		for _, j := range jobs[g] {
			h.logf("worker %d: endorse(%s %s) -> %v", g, j.ec.CandidateName, j.shape, j.err)
			if j.pan != nil {
				h.c.Violate(core.Violation{Kind: "panic", Entry: "endorse pipeline", Site: "concurrent-endorse-panicked", Gen: h.gname, Case: idx, Detail: fmt.Sprint(j.pan)})
				continue
			}
			if j.err != nil {
				h.viol("fault-free-endorse-failed", "one of %d endorse runs at the same time (%s %s): %v", workers, j.ec.CandidateName, j.shape, j.err)
				continue
			}
			raw, ok := h.vcs.Head["out/"+j.ec.CandidateName+".binarypb"]
			if !ok {
				h.viol("endorsement-file-missing", "%s not in the committed head after %d endorse runs at the same time", j.ec.CandidateName, workers)
				continue
			}
			if is := h.checkFresh(raw, g+1, j.shape+" parallel", c.Thorough()); is != nil {
				all = append(all, is)
				n++
				c.Count("endorsements-written-by-runs-at-the-same-time", 1)
				c.Cell("%s|parallel-endorse|%s", a.Name(), j.shape)
			}
		}
	}
	// concurrent verification of everything on ONE pool object, every goroutine with its own Options value
	if root, _ := h.root(); root != nil && len(all) > 0 {
		pool := x509.NewCertPool()
		pool.AddCert(root)
		errs := make([][]string, workers)
		for g := 0; g < workers; g++ {
			wg.Add(1)
			go func(g int) {
				defer wg.Done()
				for round := 0; round < 2; round++ {
					for i := range all {
						is := all[(i+g)%len(all)]
						mid := is.window[0].Add(is.window[1].Sub(is.window[0]) / 2)
						if err := verify.Endorsement(is.raw, &verify.Options{RootsOfTrust: pool, Now: mid}); err != nil {
							errs[g] = append(errs[g], fmt.Sprintf("%s: %v", is.name, err))
						}
					}
				}
			}(g)
		}
		wg.Wait()
		c.Eval(2 * workers * len(all))
		for g := range errs {
			for _, e := range errs[g] {
				h.viol("pipeline-endorsement-rejected", "one of %d verifying goroutines on one pool: %s", workers, e)
			}
		}
		c.Cell("%s|parallel-verify|%d-goroutines", a.Name(), workers)
	}
	if k < 1 {
		c.Sample(map[string]any{"history": h.gname, "commands": *h.cmds})
	}
	return n
}

// ---------------------------------------------------------------------------------------------------------------
// faulted endorse runs

func callKind(name string) string {
	if i := strings.IndexByte(name, ':'); i >= 0 {
		name = name[:i]
	}
	return name
}

func faultedEndorse(c *core.Ctx, idx, k int) int {
	r := c.Rand(idx)
	pairs := authority.Pairs()
	p := pairs[k%len(pairs)]
	dir, _ := os.MkdirTemp("", "verif-c03-flt-")
	defer os.RemoveAll(dir)
	a := authority.New(p[0], p[1], dir)
	a.LongLived = (k/len(pairs))%2 == 1
	h := newHist(c, idx, fmt.Sprintf("faulted endorse runs#%d %s long-lived-ca=%v", k, a.Name(), a.LongLived), a)
	c.Begin(idx, h.gname, "endorse with an error injected at call k", nil)
	defer c.End(idx)
	t0 := time.Date(2024, 3, 1, 0, 0, 0, 0, time.UTC)
	if err := a.Bootstrap(&doubles.FCtl{}, authority.Opts{}, authority.DefaultBootstrap(t0)); err != nil {
		h.viol("bootstrap-failed", "%v", err)
		return 0
	}
	if _, err := a.Rotate(&doubles.FCtl{}, authority.Opts{}, &rotate.SigningKeyContext{SigningKeyCommonName: "signingKeyCn", Now: t0.Add(time.Duration(1+r.IntN(300)) * 24 * time.Hour)}); err != nil {
		h.viol("fault-free-rotation-failed", "%v", err)
		return 0
	}
	n := 0
	var all []*issued
	snapshot := k%3 == 2
	mk := func(name string, step int) (*endorse.Context, string, string) {
		ec := endreq.Random(r, endreq.Opts{MaxImage: 64 << 10, AllowNoTDX: true, CheapTDX: true}, step)
		ec.VCS, ec.OutDir, ec.CandidateName = h.vcs, "out", name
		path := "out/" + name + ".binarypb"
		if snapshot {
			ec.SnapshotDir, ec.ImageName = "snap", name+".fd"
			path = "snap/" + name + ".fd.signed"
		}
		return ec, path, fmt.Sprintf("snp=%v(vmsas=%d) tdx=%v(shapes=%d early=%v) svsm=%v snapshot=%v", ec.SevSnp != nil, vm(ec), ec.Tdx != nil, shapes(ec), early(ec), len(ec.SvsmSnpMeasurement) > 0, snapshot)
	}
	check := func(raw []byte, step int, shape string) bool {
		if is := h.checkFresh(raw, step, shape, false); is != nil {
			all = append(all, is)
			n++
			return true
		}
		return false
	}
	// the unfaulted run gives the call trace
	f0 := &doubles.FCtl{}
	h.vcs.F = f0
	ec0, path0, shape0 := mk("trace", 0)
	err := a.Endorse(f0, authority.Opts{}, ec0)
	h.vcs.F = nil
	c.Eval(1)
	if err != nil {
		h.viol("fault-free-endorse-failed", "%s: %v", shape0, err)
		return 0
	}
	if raw, ok := h.vcs.Head[path0]; ok {
		check(raw, 0, shape0)
	}
	names := f0.Names()
	variants := []string{"plain", "keep-going", "retriable-back-end", "keep-going+overwrite"}
	step := 0
	for pos := 1; pos <= len(names); pos++ {
		vs := []string{variants[(pos+k)%len(variants)]}
		if c.Thorough() {
			vs = variants
		}
		for _, variant := range vs {
			step++
			f := &doubles.FCtl{Faults: map[int]string{pos: doubles.FaultError}}
			ec, path, shape := mk(fmt.Sprintf("flt-%d-%s", pos, variant), step)
			h.vcs.F, h.vcs.Retriable = f, variant == "retriable-back-end"
			o := authority.Opts{KeepGoing: strings.HasPrefix(variant, "keep-going"), Overwrite: strings.HasSuffix(variant, "overwrite")}
			err := a.Endorse(f, o, ec)
			h.vcs.F, h.vcs.Retriable = nil, false
			c.Eval(1)
			at := callKind(names[pos-1])
			h.logf("endorse(%s %s, error injected at call %d %s) -> %v", variant, shape, pos, at, err)
			outcome := "failed"
			if err == nil {
				outcome = "succeeded"
			}
			// whatever the run committed under its path must verify, whether it reported success or not
			raw, ok := h.vcs.Head[path]
			switch {
			case ok:
				if check(raw, step, shape+" faulted") {
					c.Count("endorsements-written-by-faulted-runs-verified", 1)
					c.Cell("%s|faulted-endorse|%s|%s|run-%s-file-verifies", a.Name(), at, variant, outcome)
				}
			case err == nil:
				h.viol("endorsement-file-missing", "step %d: run with an error injected at call %d (%s, %s) reported success but %s is not in the committed head", step, pos, at, variant, path)
			default:
				c.Count("faulted-endorse-runs-that-failed-without-a-file", 1)
				c.Cell("%s|faulted-endorse|%s|%s|run-failed-nothing-written", a.Name(), at, variant)
			}
			if err != nil {
				// the caller drops the authority value of the failed command and runs THE SAME request value again with other flags
				a.DropLongLived()
				err2 := a.Endorse(&doubles.FCtl{}, authority.Opts{Overwrite: true}, ec)
				c.Eval(1)
				h.logf("  same request again with overwrite, no fault -> %v", err2)
				if err2 != nil {
					h.viol("fault-free-endorse-failed", "step %d: the request of a run that failed at call %d (%s, %s) run again without a fault, with overwrite: %v", step, pos, at, variant, err2)
				} else if raw, ok := h.vcs.Head[path]; !ok {
					h.viol("endorsement-file-missing", "step %d: %s not in the committed head after the repeated run", step, path)
				} else if check(raw, step, shape+" repeated-after-failure") {
					c.Count("endorsements-written-by-the-run-repeated-after-a-failure", 1)
					c.Cell("%s|repeated-after-failure-at|%s|%s", a.Name(), at, variant)
				}
			}
		}
		h.recheck(all, step, "faulted-endorse")
	}
	c.Max("call-positions-of-an-endorse-run-faulted", int64(len(names)))
	if k < 1 {
		c.Sample(map[string]any{"history": h.gname, "commands": *h.cmds})
	}
	return n
}

// ---------------------------------------------------------------------------------------------------------------
// environment histories (shipped command line, real files)

func envHistory(c *core.Ctx, idx, k int) int {
	r := c.Rand(idx)
	dir, _ := os.MkdirTemp("", "verif-c03-env-")
	defer os.RemoveAll(dir)
	a := authority.New(authority.LocalKM, authority.GcscaDisk, dir)
	h := newHist(c, idx, fmt.Sprintf("environment history#%d %s cli=true", k, a.Name()), a)
	c.Begin(idx, h.gname, "bootstrap/rotate/endorse through cmd.MakeApp", nil)
	defer c.End(idx)
	zone := time.FixedZone("", (r.IntN(27)-12)*3600+1800*r.IntN(2))
	ts := func(t time.Time) string { return t.In(zone).Format(time.RFC3339) }
	now := time.Date(2024, 3, 1, 0, 0, 0, 0, time.UTC).Add(time.Duration(r.IntN(86400)) * time.Second)
	if err := a.CLI("bootstrap", "--timestamp", ts(now), "--root_key_cn", "rootCn", "--signing_key_cn", "signingKeyCn", "--root_key_serial", "1", "--initial_signing_key_serial", "2"); err != nil {
		h.viol("bootstrap-failed", "%v", err)
		return 0
	}
	h.logf("bootstrap --timestamp %s", ts(now))
	n := 0
	var all []*issued
	step := 0
	garbage := func(min int) []byte {
		b := make([]byte, min+1+r.IntN(3*min+1))
		for i := range b {
			b[i] = byte(r.IntN(256))
		}
		return b
	}
	// run endorses ec through the command line into outDir (relative to --out_root) and checks the file at rel
	run := func(what string, ec *endorse.Context, rel string, extra ...string) []byte {
		step++
		err := h.endorseCLI(ec, step, extra...)
		c.Eval(1)
		shape := fmt.Sprintf("snp=%v(vmsas=%d) tdx=%v(shapes=%d early=%v) svsm=%v snapshot=%v %s", ec.SevSnp != nil, vm(ec), ec.Tdx != nil, shapes(ec), early(ec), len(ec.SvsmSnpMeasurement) > 0, ec.SnapshotDir != "", what)
		h.logf("endorse(%s --timestamp %s %v) -> %v", shape, ec.Timestamp.Format(time.RFC3339), extra, err)
		if err != nil {
			h.viol("fault-free-endorse-failed", "step %d (%s): %v", step, shape, err)
			return nil
		}
		raw, rerr := os.ReadFile(filepath.Join(a.OutRoot(), rel))
		if rerr != nil {
			h.viol("endorsement-file-missing", "step %d (%s): %v", step, shape, rerr)
			return nil
		}
		if is := h.checkFresh(raw, step, shape, c.Thorough()); is != nil {
			all = append(all, is)
			n++
			c.Count("endorsements-written-into-a-prepared-environment", 1)
			c.Cell("%s|environment|%s", a.Name(), what)
		}
		h.recheck(all, step, "endorse")
		return raw
	}
	req := func(big bool) *endorse.Context {
		ec := endreq.Random(r, endreq.Opts{MaxImage: 64 << 10, AllowNoTDX: !big, CheapTDX: true}, step+1)
		ec.Timestamp = ec.Timestamp.In(zone)
		if big && ec.Tdx != nil {
			ec.Tdx.MachineShapes, ec.Tdx.IncludeEarlyAccept = []string{endreq.Shapes[r.IntN(3)], endreq.Shapes[3+r.IntN(3)]}, true
		}
		return ec
	}
	small := func() *endorse.Context { // a request whose endorsement is much shorter than that of req(true)
		ec := req(false)
		ec.Tdx, ec.SvsmSnpMeasurement = nil, nil
		if ec.SevSnp == nil {
			ec.SevSnp = req(true).SevSnp
		}
		ec.SevSnp.LaunchVmsas = 1
		return ec
	}
	must := func(err error) {
		if err != nil {
			panic(fmt.Sprintf("environment preparation: %v", err))
		}
	}

	// 1. output directory whose parents do not exist yet
	ec := req(false)
	ec.OutDir = fmt.Sprintf("rel%d/a/b", k)
	run("out-dir-with-missing-parents", ec, ec.OutDir+"/"+ec.CandidateName+".binarypb")

	// 2. an older, LONGER endorsement of the same candidate is replaced under --overwrite by a shorter one
	ec = req(true)
	ec.OutDir = "out"
	ec.CandidateName = "recut"
	long := run("first-cut-of-a-candidate", ec, "out/recut.binarypb")
	ec = small()
	ec.OutDir, ec.CandidateName = "out", "recut"
	extra := []string{"--overwrite"}
	if r.IntN(2) == 0 {
		extra = append(extra, "--keep_going")
	}
	short := run("shorter-recut-over-a-longer-file", ec, "out/recut.binarypb", extra...)
	if long != nil && short != nil {
		c.Max("bytes-by-which-the-replaced-file-was-longer", int64(len(long)-len(short)))
		if len(long) > len(short) {
			c.Count("overwritten-files-that-were-longer-than-the-new-endorsement", 1)
		}
	}

	// 3. garbage left at the path (longer than any endorsement)
	ec = req(false)
	ec.OutDir = "out"
	must(os.WriteFile(filepath.Join(a.OutRoot(), "out", ec.CandidateName+".binarypb"), garbage(16<<10), 0o644))
	c.Count("overwritten-files-that-were-longer-than-the-new-endorsement", 1)
	run("garbage-left-over-at-the-path", ec, "out/"+ec.CandidateName+".binarypb", "--overwrite")

	// 4. rotation: a longer left-over sits at the object name the next signing certificate lands on
	now = now.Add(time.Duration(1+r.IntN(200)) * 24 * time.Hour)
	obj := filepath.Join(dir, "ca", authority.Bucket, authority.CertDir, "signingKeyCn-3.crt")
	must(os.WriteFile(obj, garbage(4<<10), 0o644))
	rerr := a.CLI("rotate", "--timestamp", ts(now), "--signing_key_cn", "signingKeyCn", "--overwrite")
	h.logf("rotate --timestamp %s --overwrite (longer left-over at %s) -> %v", ts(now), filepath.Base(obj), rerr)
	if rerr != nil {
		if refused(rerr) {
			c.Count("rotation-refused-existing-object", 1)
		} else {
			h.viol("fault-free-rotation-failed", "rotate --overwrite over a left-over certificate object: %v", rerr)
		}
	} else {
		c.Count("rotations-onto-a-longer-left-over-object", 1)
		c.Cell("%s|environment|rotation-onto-longer-left-over-object", a.Name())
	}
	h.recheck(all, step, "rotate")
	ec = req(false)
	ec.OutDir = "out"
	run("after-rotation-onto-left-over-object", ec, "out/"+ec.CandidateName+".binarypb")

	// 5. the output directory is a symbolic link, and the file is a symbolic link to a longer file elsewhere
	real := filepath.Join(a.OutRoot(), fmt.Sprintf("real%d", k))
	must(os.MkdirAll(real, 0o755))
	must(os.Symlink(real, filepath.Join(a.OutRoot(), "lnk")))
	ec = req(false)
	ec.OutDir = "lnk"
	run("out-dir-is-a-symlink", ec, "lnk/"+ec.CandidateName+".binarypb")
	ec = req(false)
	ec.OutDir = "lnk"
	elsewhere := filepath.Join(dir, "elsewhere.bin")
	must(os.WriteFile(elsewhere, garbage(16<<10), 0o644))
	must(os.Symlink(elsewhere, filepath.Join(real, ec.CandidateName+".binarypb")))
	c.Count("overwritten-files-that-were-longer-than-the-new-endorsement", 1)
	run("file-is-a-symlink-to-a-longer-file", ec, "lnk/"+ec.CandidateName+".binarypb", "--overwrite")

	// 6. snapshot next to a longer left-over .signed file (snapshot paths are written without an existence check)
	ec = req(false)
	ec.SnapshotDir, ec.OutDir = "snap", "out"
	must(os.MkdirAll(filepath.Join(a.OutRoot(), "snap"), 0o755))
	must(os.WriteFile(filepath.Join(a.OutRoot(), "snap", ec.ImageName+".signed"), garbage(16<<10), 0o644))
	c.Count("overwritten-files-that-were-longer-than-the-new-endorsement", 1)
	run("snapshot-over-a-longer-left-over", ec, "snap/"+ec.ImageName+".signed")

	if k < 1 {
		c.Sample(map[string]any{"history": h.gname, "commands": *h.cmds})
	}
	return n
}
