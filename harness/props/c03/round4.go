package c03

// Two more workload dimensions (fourth review round). The oracle is unchanged (checkFresh / recheck); what is new is
// WHAT is produced:
//
//   provenance grid        the quantifier says "requests that carry provenance (a changelist number or a commit)".
//                          Until now every commit was 20 bytes long (what the command line insists on) and every
//                          changelist number was below 2^30. Through the library endorse.Context.Commit is any byte
//                          string and ClSpec any uint64, so the grid crosses
//                            changelist  none / 1 / typical / above 2^32 / top bit set / 2^64-1
//                            commit      none / 1..19 / 20 / 21 / 28 / 32 (SHA-256 object name) / 40 (hex text) / 48 / 64 / 255 bytes
//                            timestamp   long before the provenance date / the date itself (last instant at which nothing
//                                        is demanded) / 1 ns, 1 s, days, years after it / after it in a zone whose local
//                                        calendar still shows 1 August
//                          always with at least one of the two provenance fields set; commit-only and changelist-only
//                          requests dated after the date are directed into every history.
//
//   one-process histories  every command of a history (bootstrap, rotations, endorse runs) goes through ONE
//                          keys.Context value: one signer, one key manager, one certificate authority (wrapper and inner
//                          values alike), the way a long-running signing service or an embedding program holds them.
//                          The values are NOT dropped when a command fails. Rotations that fail part-way are generated
//                          on purpose - refused by the certificate store (serial and common name of the current
//                          certificate without overwrite permission) or cut by an injected error at a call position /
//                          call kind of the rotation trace - and are then run again until one succeeds (default serial,
//                          fresh serial, or the same serial with overwrite). nonprod key managers name the next key
//                          after the current primary, so the retried rotation creates ANOTHER key under the name the
//                          failed attempt used: anything remembered per (value, key version name) across commands is
//                          stale at that point. What is judged: every file an endorse run commits verifies (all rules of
//                          checkFresh) and earlier endorsements keep verifying. Failed commands themselves, and commands
//                          that fail after a fault was injected into the history, are counted, never judged (that is
//                          C10's subject).

import (
	"context"
	crand "crypto/rand"
	"fmt"
	"math"
	"math/big"
	mrand "math/rand/v2"
	"os"
	"path/filepath"
	"time"

	"github.com/google/gce-tcb-verifier/cmd/output"
	"github.com/google/gce-tcb-verifier/endorse"
	"github.com/google/gce-tcb-verifier/keys"
	"github.com/google/gce-tcb-verifier/rotate"
	"github.com/google/gce-tcb-verifier/sign/gcsca"
	"github.com/google/gce-tcb-verifier/sign/nonprod"
	sops "github.com/google/gce-tcb-verifier/sign/ops"
	styp "github.com/google/gce-tcb-verifier/sign/types"
	"github.com/google/gce-tcb-verifier/storage/local"
	"github.com/google/gce-tcb-verifier/storage/storagei"
	"github.com/google/gce-tcb-verifier/testing/nonprod/localkm"
	"github.com/google/gce-tcb-verifier/testing/nonprod/memkm"

	"verifharness/authority"
	"verifharness/core"
	"verifharness/doubles"
	"verifharness/gen/endreq"
)

// runRound4 runs the two families on case numbers base, base+1, ... and returns the number of endorsements issued
// and checked.
func runRound4(c *core.Ctx, base int) int {
	issued := 0
	i := base
	var nProv, nProvCommitOnly, nProc, nAfterRetry int
	for k := 0; k < c.N(6, 18); k, i = k+1, i+1 {
		if c.Mine(i) {
			n, co := provenanceGrid(c, i, k)
			issued, nProv, nProvCommitOnly = issued+n, nProv+n, nProvCommitOnly+co
		}
	}
	for k := 0; k < c.N(12, 36); k, i = k+1, i+1 {
		if c.Mine(i) {
			n, ar := oneProcessHistory(c, i, k)
			issued, nProc, nAfterRetry = issued+n, nProc+n, nAfterRetry+ar
		}
	}
	c.Floor("provenance-grid-issued-endorsements", nProv > 0)
	c.Floor("provenance-grid-issued-commit-only-endorsements-dated-after-the-provenance-date", nProvCommitOnly > 0)
	c.Floor("one-process-histories-issued-endorsements", nProc > 0)
	c.Floor("one-process-histories-endorsed-after-a-failed-and-retried-rotation", nAfterRetry > 0)
	return issued
}

// ---------------------------------------------------------------------------------------------------------------
// provenance grid

var (
	provClKinds     = []string{"none", "one", "typical", "above-2^32", "top-bit-set", "max-uint64"}
	provCommitLens  = []int{0, 1, 4, 7, 19, 20, 21, 28, 32, 40, 48, 64, 255}
	provStampKinds  = []string{"long-before", "the-date-itself", "1ns-before", "1ns-after", "1s-after", "days-after", "years-after", "after-in-a-zone-still-on-1-august"}
	provDirectedSet = [][3]string{ // changelist kind, commit length ("short" / "long" are drawn), timestamp kind
		{"none", "32", "days-after"},
		{"none", "short", "1ns-after"},
		{"none", "20", "after-in-a-zone-still-on-1-august"},
		{"big", "0", "days-after"},
		{"none", "long", "years-after"},
		{"typical", "32", "1s-after"},
		{"none", "32", "the-date-itself"},
	}
)

func provCl(r *mrand.Rand, kind string) uint64 {
	switch kind {
	case "one":
		return 1
	case "typical":
		return 1 + uint64(r.IntN(1<<30))
	case "above-2^32":
		return 1<<32 + uint64(r.IntN(1<<30))
	case "top-bit-set":
		return 1<<63 | uint64(r.IntN(1<<30))
	case "max-uint64":
		return math.MaxUint64
	}
	return 0
}

func provStamp(r *mrand.Rand, kind string) time.Time {
	rc := endreq.ReleaseChange
	switch kind {
	case "long-before":
		return rc.Add(-time.Duration(100+r.IntN(200)) * 24 * time.Hour).Add(time.Duration(r.IntN(1e9)))
	case "the-date-itself":
		return rc
	case "1ns-before":
		return rc.Add(-1)
	case "1ns-after":
		return rc.Add(1)
	case "1s-after":
		return rc.Add(time.Second)
	case "days-after":
		return rc.Add(time.Duration(1+r.IntN(400)) * 24 * time.Hour).Add(time.Duration(r.IntN(1e9)))
	case "years-after":
		return rc.Add(time.Duration(800+r.IntN(1800)) * 24 * time.Hour).Add(time.Duration(r.IntN(86400)) * time.Second)
	default: // an instant after the date, written in a western zone where the local calendar still shows 1 August 2024
		off := -(1 + r.IntN(11)) // UTC-1 .. UTC-11
		return rc.Add(time.Duration(1+r.IntN(-off*3600-1)) * time.Second).In(time.FixedZone("", off*3600))
	}
}

func provenanceGrid(c *core.Ctx, idx, k int) (int, int) {
	r := c.Rand(idx)
	pairs := authority.Pairs()
	p := pairs[k%len(pairs)]
	dir, _ := os.MkdirTemp("", "verif-c03-prov-")
	defer os.RemoveAll(dir)
	a := authority.New(p[0], p[1], dir)
	a.LongLived = (k/len(pairs))%2 == 1
	h := newHist(c, idx, fmt.Sprintf("provenance grid#%d %s long-lived-ca=%v", k, a.Name(), a.LongLived), a)
	c.Begin(idx, h.gname, "bootstrap/rotate/endorse", nil)
	defer c.End(idx)
	t0 := time.Date(2024, 3, 1, 0, 0, 0, 0, time.UTC)
	if err := a.Bootstrap(&doubles.FCtl{}, authority.Opts{}, authority.DefaultBootstrap(t0)); err != nil {
		h.viol("bootstrap-failed", "%v", err)
		return 0, 0
	}
	type cell struct {
		cl, ts string
		clen   int
	}
	var cells []cell
	for _, d := range provDirectedSet {
		cl, ts := d[0], d[2]
		if cl == "big" {
			cl = provClKinds[3+r.IntN(3)]
		}
		var clen int
		switch d[1] {
		case "short":
			clen = 1 + r.IntN(19)
		case "long":
			clen = []int{40, 48, 64, 255}[r.IntN(4)]
		default:
			fmt.Sscan(d[1], &clen)
		}
		cells = append(cells, cell{cl, ts, clen})
	}
	for j := 0; j < c.N(4, 10); j++ {
		ce := cell{provClKinds[r.IntN(len(provClKinds))], provStampKinds[r.IntN(len(provStampKinds))], provCommitLens[r.IntN(len(provCommitLens))]}
		if ce.cl == "none" && ce.clen == 0 { // requests always carry provenance
			if r.IntN(2) == 0 {
				ce.cl = provClKinds[1+r.IntN(len(provClKinds)-1)]
			} else {
				ce.clen = provCommitLens[1+r.IntN(len(provCommitLens)-1)]
			}
		}
		cells = append(cells, ce)
	}
	r.Shuffle(len(cells), func(i, j int) { cells[i], cells[j] = cells[j], cells[i] })
	rotateAt := 1 + r.IntN(len(cells)-1) // one rotation somewhere inside the history
	n, commitOnlyAfter := 0, 0
	var all []*issued
	for step, ce := range cells {
		if step == rotateAt {
			_, err := a.Rotate(&doubles.FCtl{}, authority.Opts{}, &rotate.SigningKeyContext{SigningKeyCommonName: "signingKeyCn", Now: t0.Add(time.Duration(1+r.IntN(300)) * 24 * time.Hour)})
			h.logf("rotate -> %v", err)
			if err != nil {
				h.viol("fault-free-rotation-failed", "step %d: %v", step, err)
				a.DropLongLived()
			}
			h.recheck(all, step, "rotate")
		}
		ec := endreq.Random(r, endreq.Opts{MaxImage: 64 << 10, AllowNoTDX: true, CheapTDX: true}, step)
		ec.VCS, ec.OutDir = h.vcs, "out"
		ec.ClSpec, ec.Commit, ec.Timestamp = provCl(r, ce.cl), nil, provStamp(r, ce.ts)
		if ce.clen > 0 {
			ec.Commit = prbytes(r, ce.clen)
			if ec.Commit[0] == 0 && ec.Commit[ce.clen-1] == 0 {
				ec.Commit[0] = 1 // never a value that could pass for "unset"
			}
		}
		after := ec.Timestamp.After(endreq.ReleaseChange)
		shape := fmt.Sprintf("provenance changelist=%s commit-bytes=%d timestamp=%s snp=%v tdx=%v", ce.cl, ce.clen, ce.ts, ec.SevSnp != nil, ec.Tdx != nil)
		err := a.Endorse(&doubles.FCtl{}, authority.Opts{}, ec)
		c.Eval(1)
		h.logf("endorse(%s cl_spec=%d commit=%x timestamp=%s) -> %v", shape, ec.ClSpec, ec.Commit, ec.Timestamp.Format(time.RFC3339Nano), err)
		if err != nil {
			h.viol("fault-free-endorse-failed", "step %d (%s): %v", step, shape, err)
			continue
		}
		raw, ok := h.vcs.Head["out/"+ec.CandidateName+".binarypb"]
		if !ok {
			h.viol("endorsement-file-missing", "step %d: out/%s.binarypb not in the committed head", step, ec.CandidateName)
			continue
		}
		if is := h.checkFresh(raw, step, shape, c.Thorough()); is != nil {
			all = append(all, is)
			n++
			c.Count("provenance-grid-endorsements-checked", 1)
			c.Cell("%s|provenance|changelist=%s|commit-bytes=%d|timestamp=%s", a.Name(), ce.cl, ce.clen, ce.ts)
			if after && ce.cl == "none" {
				commitOnlyAfter++
				c.Count("commit-only-requests-dated-after-the-provenance-date", 1)
				if ce.clen != 20 {
					c.Count("commit-only-requests-dated-after-the-provenance-date-whose-commit-is-not-20-bytes", 1)
				}
			}
			if after && ce.clen == 0 {
				c.Count("changelist-only-requests-dated-after-the-provenance-date", 1)
			}
		}
		h.recheck(all, step, "endorse")
	}
	if k < 2 {
		c.Sample(map[string]any{"history": h.gname, "commands": *h.cmds})
	}
	return n, commitOnlyAfter
}

// ---------------------------------------------------------------------------------------------------------------
// one-process histories

// proc is what ONE long-running process holds: one keys.Context whose signer, manager and authority values (and the
// recording wrappers around them) stay the same for every command. Only the fault controller behind the wrappers and
// the global flags change from command to command.
type proc struct {
	kc  *keys.Context
	fs  *doubles.FSigner
	fm  *doubles.FManager
	fca *doubles.FCA
	fst *doubles.FStore // nil for memca
}

func newProc(a *authority.Assembly) (*proc, error) {
	var signer *nonprod.Signer
	var mgr keys.ManagerInterface
	if a.KM == authority.MemKM {
		signer = a.MemSigner
		mgr = &memkm.T{Signer: signer}
	} else {
		signer = &nonprod.Signer{Rand: crand.Reader}
		t := &localkm.T{T: memkm.T{Signer: signer}, KeyDir: filepath.Join(a.Dir, "keys")}
		if err := t.Init(context.Background()); err != nil {
			return nil, err
		}
		mgr = t
	}
	p := &proc{}
	var ca styp.CertificateAuthority
	var inner storagei.Client
	switch a.CA {
	case authority.MemCA:
		ca = a.MemCAObj
	case authority.GcscaMem:
		inner = a.MemStore
	default:
		inner = &local.StorageClient{Root: filepath.Join(a.Dir, "ca")}
	}
	if inner != nil {
		p.fst = &doubles.FStore{Inner: inner}
		ca = &gcsca.CertificateAuthority{Storage: p.fst, PrivateBucket: authority.Bucket, RootPath: authority.RootPath, SigningCertDirInGCS: authority.CertDir}
	}
	p.fs, p.fm, p.fca = &doubles.FSigner{Inner: signer}, &doubles.FManager{Inner: mgr}, &doubles.FCA{Inner: ca}
	p.kc = &keys.Context{CA: p.fca, Manager: p.fm, Signer: p.fs, Random: crand.Reader}
	return p, nil
}

// ctx is the context of one command of the process: the SAME keys.Context value, this command's flags and fault controller.
func (p *proc) ctx(f *doubles.FCtl, o authority.Opts) context.Context {
	p.fs.F, p.fm.F, p.fca.F = f, f, f
	if p.fst != nil {
		p.fst.F = f
	}
	return output.NewContext(keys.NewContext(context.Background(), p.kc), &output.Options{Quiet: true, Overwrite: o.Overwrite, KeepGoing: o.KeepGoing})
}

func (p *proc) rotate(f *doubles.FCtl, o authority.Opts, skc *rotate.SigningKeyContext) (err error) {
	cp := *skc
	ctx := rotate.NewSigningKeyContext(p.ctx(f, o), &cp)
	if cp.SigningKeySerial == nil || cp.SigningKeySerial.Sign() == 0 { // what the command line does for an unset serial flag
		if cp.SigningKeySerial, err = sops.NextSigningKeySerial(ctx); err != nil {
			return err
		}
	}
	_, err = rotate.Key(ctx)
	return err
}

func (p *proc) endorse(o authority.Opts, ec *endorse.Context) error {
	return endorse.VirtualFirmware(endorse.NewContext(p.ctx(&doubles.FCtl{}, o), ec))
}

func oneProcessHistory(c *core.Ctx, idx, k int) (int, int) {
	r := c.Rand(idx)
	pairs := authority.Pairs()
	pr := pairs[k%len(pairs)]
	dir, _ := os.MkdirTemp("", "verif-c03-proc-")
	defer os.RemoveAll(dir)
	a := authority.New(pr[0], pr[1], dir)
	h := newHist(c, idx, fmt.Sprintf("one-process history#%d %s", k, a.Name()), a)
	c.Begin(idx, h.gname, "bootstrap/rotate/endorse on one keys.Context value", nil)
	defer c.End(idx)
	p, err := newProc(a)
	if err != nil {
		h.viol("bootstrap-failed", "key manager: %v", err)
		return 0, 0
	}
	t0 := time.Date(2024, 3, 1, 0, 0, 0, 0, time.UTC)
	if err := rotate.Bootstrap(rotate.NewBootstrapContext(p.ctx(&doubles.FCtl{}, authority.Opts{}), authority.DefaultBootstrap(t0))); err != nil {
		h.viol("bootstrap-failed", "%v", err)
		return 0, 0
	}
	h.logf("bootstrap")
	now := t0
	step := 0
	n, afterRetry := 0, 0
	var all []*issued
	faulted := false // an error was injected somewhere in this history: later command failures are C10's subject
	retried := false // a rotation failed and a later one succeeded in this process
	current := func() (*big.Int, string) {
		if st := a.Observe(); st.PrimaryCert != nil {
			if s, ok := new(big.Int).SetString(st.PrimaryCert.Subject.SerialNumber, 10); ok {
				return s, st.PrimaryCert.Subject.CommonName
			}
		}
		return nil, "signingKeyCn"
	}
	doEndorse := func(what string) {
		step++
		ec := endreq.Random(r, endreq.Opts{MaxImage: 64 << 10, AllowNoTDX: true, CheapTDX: true}, step)
		ec.VCS, ec.OutDir = h.vcs, "out"
		shape := fmt.Sprintf("snp=%v(vmsas=%d) tdx=%v(shapes=%d early=%v) svsm=%v %s", ec.SevSnp != nil, vm(ec), ec.Tdx != nil, shapes(ec), early(ec), len(ec.SvsmSnpMeasurement) > 0, what)
		err := p.endorse(authority.Opts{}, ec)
		c.Eval(1)
		h.logf("endorse(%s) -> %v", shape, err)
		raw, ok := h.vcs.Head["out/"+ec.CandidateName+".binarypb"]
		if err != nil {
			if faulted || what == "between-failed-rotation-and-retry" {
				c.Count("one-process-endorse-runs-that-failed-after-a-failed-command(not judged)", 1)
			} else {
				h.viol("fault-free-endorse-failed", "step %d (%s): %v", step, shape, err)
			}
			if !ok {
				return
			}
		} else if !ok {
			h.viol("endorsement-file-missing", "step %d: out/%s.binarypb not in the committed head", step, ec.CandidateName)
			return
		}
		if is := h.checkFresh(raw, step, shape, c.Thorough()); is != nil {
			all = append(all, is)
			n++
			c.Count("one-process-endorsements-checked", 1)
			c.Cell("%s|one-process|endorse|%s", a.Name(), what)
			if retried {
				afterRetry++
				c.Count("one-process-endorsements-after-a-failed-and-retried-rotation", 1)
			}
		}
		h.recheck(all, step, "endorse")
	}
	// okRotate runs a rotation that is expected to succeed; it returns the call trace when it did.
	okRotate := func(what string, o authority.Opts, serial *big.Int, cn string) ([]string, error) {
		step++
		now = now.Add(time.Duration(1+r.IntN(150)) * 24 * time.Hour)
		f := &doubles.FCtl{}
		err := p.rotate(f, o, &rotate.SigningKeyContext{SigningKeyCommonName: cn, SigningKeySerial: serial, Now: now})
		c.Eval(1)
		h.logf("rotate(%s now=%s serial=%v overwrite=%v) -> %v", what, now.Format("2006-01-02"), serial, o.Overwrite, err)
		h.recheck(all, step, "rotate")
		if err != nil {
			return nil, err
		}
		return f.Names(), nil
	}
	var trace []string
	rotateJudged := func(what string) bool {
		names, err := okRotate(what, authority.Opts{}, big.NewInt(int64(9000+10*step+r.IntN(5))), "signingKeyCn")
		if err != nil {
			switch {
			case refused(err):
				c.Count("rotation-refused-existing-object", 1)
			case faulted:
				c.Count("one-process-rotations-that-failed-after-an-injected-error(not judged)", 1)
			default:
				h.viol("fault-free-rotation-failed", "step %d (%s): %v", step, what, err)
			}
			return false
		}
		trace = names
		c.Cell("%s|one-process|rotation|%s", a.Name(), what)
		return true
	}
	// failThenRetry: a rotation that fails part-way, optionally an endorse run on the same values, then the rotation again.
	failThenRetry := func(kind string) {
		step++
		now = now.Add(time.Duration(1+r.IntN(150)) * 24 * time.Hour)
		skc := &rotate.SigningKeyContext{SigningKeyCommonName: "signingKeyCn", Now: now}
		f := &doubles.FCtl{}
		o := authority.Opts{}
		at := ""
		switch kind {
		case "refused-by-the-certificate-store": // serial and common name of the current certificate, no overwrite permission
			s, cn := current()
			if s == nil {
				return
			}
			skc.SigningKeySerial, skc.SigningKeyCommonName = s, cn
			at = "certificate-object-name-taken"
		default: // an injected error
			if r.IntN(3) == 0 {
				skc.SigningKeySerial = big.NewInt(int64(9000 + 10*step + r.IntN(5)))
			}
			if len(trace) > 0 && r.IntN(2) == 0 { // at the first call of a kind seen in the later half of a rotation trace
				f.Match, f.MatchKind = callKind(trace[len(trace)/2+r.IntN(len(trace)-len(trace)/2)]), doubles.FaultError
				at = "first-" + f.Match
			} else { // at a call position
				pos := 1 + r.IntN(max(len(trace), 12))
				f.Faults = map[int]string{pos: doubles.FaultError}
				at = "call-position"
			}
			faulted = true
		}
		err := p.rotate(f, o, skc)
		c.Eval(1)
		h.logf("rotate(%s %s now=%s serial=%v) -> %v", kind, at, now.Format("2006-01-02"), skc.SigningKeySerial, err)
		h.recheck(all, step, "failed-rotate")
		if err == nil { // the attempt went through (memca keeps certificates per key name; a fault position beyond the trace): a plain rotation
			c.Count("one-process-rotation-attempts-meant-to-fail-that-succeeded", 1)
			return
		}
		if kind == "refused-by-the-certificate-store" && !refused(err) {
			h.viol("fault-free-rotation-failed", "step %d (%s): %v", step, kind, err)
		}
		if kind != "refused-by-the-certificate-store" {
			for _, cl := range f.Log {
				if cl.Result == "injected-error" {
					at = callKind(cl.Name)
				}
			}
		}
		c.Count("one-process-rotations-that-failed-part-way", 1)
		c.Cell("%s|one-process|failed-rotation|%s|%s", a.Name(), kind, at)
		if r.IntN(2) == 0 {
			doEndorse("between-failed-rotation-and-retry")
		}
		// the rotation again, on the same values
		how := [...]string{"default-serial", "fresh-serial", "same-serial-with-overwrite"}[r.IntN(3)]
		if how == "same-serial-with-overwrite" && skc.SigningKeySerial == nil {
			how = "default-serial"
		}
		for try := 0; try < 2; try++ {
			var serial *big.Int
			ro := authority.Opts{}
			switch how {
			case "fresh-serial":
				serial = big.NewInt(int64(9000 + 10*step + 5 + r.IntN(5)))
			case "same-serial-with-overwrite":
				serial, ro.Overwrite = skc.SigningKeySerial, true
			}
			names, err := okRotate("retry-after-"+kind+":"+how, ro, serial, skc.SigningKeyCommonName)
			if err == nil {
				trace = names
				retried = true
				c.Count("one-process-rotations-retried-successfully", 1)
				c.Cell("%s|one-process|retried-rotation|%s|%s|%s", a.Name(), kind, at, how)
				return
			}
			switch {
			case refused(err):
				c.Count("rotation-refused-existing-object", 1)
			case faulted:
				c.Count("one-process-rotations-that-failed-after-an-injected-error(not judged)", 1)
			default:
				h.viol("fault-free-rotation-failed", "step %d (retry %s after a rotation %s): %v", step, how, kind, err)
			}
			how = "fresh-serial"
		}
	}

	kinds := []string{"refused-by-the-certificate-store", "injected-error"}
	// directed head: endorse, (rotate), failing rotation, retry, endorse
	doEndorse("first")
	if k%4 >= 2 {
		rotateJudged("plain")
	}
	kind := kinds[k%2]
	if a.CA == authority.MemCA {
		kind = "injected-error" // memca files certificates under the key name: it has no object name to collide with
	}
	if kind == "injected-error" && trace == nil {
		rotateJudged("plain") // gives the call trace to choose fault positions from
	}
	failThenRetry(kind)
	doEndorse("after-failed-and-retried-rotation")
	// generated tail
	for j, m := 0, 3+r.IntN(c.N(3, 6)); j < m; j++ {
		switch x := r.IntN(10); {
		case x < 5:
			doEndorse("tail")
		case x < 7:
			rotateJudged("plain")
		case x < 9:
			kd := kinds[r.IntN(2)]
			if a.CA == authority.MemCA {
				kd = "injected-error"
			}
			failThenRetry(kd)
			doEndorse("after-failed-and-retried-rotation")
		default: // the process restarts: new values, same stored state
			np, err := newProc(a)
			if err != nil {
				h.viol("authority-root-unavailable", "process restart: key manager cannot load its keys: %v", err)
				return n, afterRetry
			}
			p = np
			h.logf("(process restarted)")
			c.Count("one-process-histories-process-restarts", 1)
		}
	}
	doEndorse("last")
	if k < 4 {
		c.Sample(map[string]any{"history": h.gname, "commands": *h.cmds})
	}
	return n, afterRetry
}
