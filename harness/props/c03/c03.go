// Package c03: whatever the signer produces verifies, also after key rotations.
package c03

import (
	"bytes"
	"context"
	"crypto/x509"
	"encoding/base64"
	"encoding/hex"
	"encoding/pem"
	"fmt"
	"math/big"
	"os"
	"os/exec"
	"path/filepath"
	"strings"
	"time"

	"github.com/google/gce-tcb-verifier/endorse"
	"github.com/google/gce-tcb-verifier/gcetcbendorsement"
	epb "github.com/google/gce-tcb-verifier/proto/endorsement"
	"github.com/google/gce-tcb-verifier/rotate"
	"github.com/google/gce-tcb-verifier/sev"
	"github.com/google/gce-tcb-verifier/verify"
	spb "github.com/google/go-sev-guest/proto/sevsnp"
	"google.golang.org/protobuf/proto"
	fmpb "google.golang.org/protobuf/types/known/fieldmaskpb"

	"verifharness/authority"
	"verifharness/core"
	"verifharness/doubles"
	"verifharness/gen"
	"verifharness/gen/endreq"
	"verifharness/ref/authref"
)

func init() {
	core.Register(&core.Info{
		ID: "C03", Level: "exploration",
		Rule: "history = bootstrap, then a generated sequence of rotate(serial/time flags) and endorse(request) commands over each assembly of key manager x certificate authority (library path with recording doubles; in-memory and disk-backed). " +
			"After every endorse the file the pipeline wrote is checked: (a) verify.Endorsement accepts it under the authority's stored root at five times spanning the common validity window of both certificates (first instant, +1s, middle, last-1s, last instant); " +
			"(b) every listed SNP (count -> measurement) is accepted by the verifier, the validator closure and SevValidate for that count and for count 0, and every TDX (ram, mrtd) row by TdxValidate for that RAM size and for 0; " +
			"(c) the bytes emitted by InspectPayload / InspectSignature / InspectMask(cert) in raw, hex and base64 form equal the stored fields and pass an independent RSA-PSS + chain check (plus openssl pkeyutl/verify in the thorough tier); " +
			"(d) every endorsement issued earlier in the history is re-verified after every later command. " +
			"Every verification is made twice: with freshly built options and through ONE pool / verify.Options / SevValidateOptions / TdxValidateOptions value kept for the whole history (fields rewritten in place), re-verification right after a call on those values that is rejected (outside validity, unlisted measurement, truncated bytes; counted, never judged). " +
			"Added families judged by the same rules (audit.go): reused-request histories (one endorse.Context value for every run of a history, changed or refilled in place, same candidate under overwrite, failed run repaired in place, two version-control back ends, snapshot + SVSM image, long-lived localkm / gcsca values, rotation time flags backwards / same instant / sub-second / zoned / so late that the leaf outlives the root); " +
			"parallel batches (6 workers x endorse runs at the same time on one authority, then concurrent verification on one pool); faulted endorse runs (an error at every call position x plain / keep-going / retriable back end / keep-going+overwrite, then the same request again with overwrite: whatever is committed must verify); " +
			"environment histories through the shipped command line (missing parent directories, symlinked directory and file, longer left-overs at the written paths and at the next certificate's object name, zoned timestamps); the wall-clock history uses its long-lived validators and Options value before AND after the rotation. " +
			"Serial-flag histories (round5.go): root key, first signing key and rotation overrides with serial numbers on the arithmetic / encoding boundaries of the flags (0 taken literally by bootstrap, 0x7f/0x80, 2^63, 2^64, 2^159, 2^160-1, 2^160 and beyond, 16 / 21 random octets), default rotations (predecessor + 1) across those boundaries, library path, long-lived authority value and command line; refused bootstraps / rotations are counted, never judged. " +
			"non-trivial = distinct (assembly, request shape, check kind, position in history) cells",
		Assumptions: []string{"requests always carry provenance (the verifier demands it after 2024-08-02)", "histories contain no re-bootstrap (C03 speaks about one authority's root)", "rotation time flags stay inside the root certificate's life (outside it no instant is inside the validity of both certificates)",
			"runs at the same time use one command context each (own authority value / key manager view), the way separate request handlers would; calls expected to be rejected are never judged",
			"image generator uses the repository's fakeovmf layout writers (workload only; measurement values are judged by C04-C06)"},
		ShardsQuick: 8, ShardsThor: 16, TimeoutS: 900, TimeoutThor: 3600, Run: run,
	})
}

// staleKeyTag marks the violations of ONE constellation of the generated histories, which is a genuine, recorded and
// unrepaired defect of the unchanged tree (known_findings.json F38): (1) a rotation fails AFTER the key manager created
// the new key (for example the refusal that fix F32 introduced for "rotate onto the current certificate's object name
// with overwrite"), which localkm leaves on disk as an unrecorded key named BumpName(primary); (2) an endorse command
// loads its key snapshot (localkm loads every key file at start), then a whole rotation of another process lands before
// the endorse run's first call; that rotation generates ANOTHER key under the same name and records it; (3) the endorse
// run reads the new primary's name and certificate from the authority, finds a key of that name in its OLD snapshot (the
// orphan) and signs with it: the file is written and its signature does not verify under the embedded certificate.
// Without the orphan the run fails cleanly ("key not found"), which is allowed. The violations of exactly these steps
// carry this tag in their rule name, so that the known-findings entry matches them and nothing else; an endorsement
// issued in such a step is not carried into later re-checks.
const staleKeyTag = "(stale-key-snapshot-after-failed-rotation)"

type issued struct {
	raw    []byte
	at     int // command index
	name   string
	window [2]time.Time
}

type hist struct {
	c     *core.Ctx
	idx   int
	gname string
	a     *authority.Assembly
	vcs   *doubles.MemVCS
	vcek  map[int64][]byte
	cmds  *[]string
	kv    *kept // verifier-side values kept for the whole history (see kept.go)
	tag   string // appended to the rule name of every violation reported while it is set (see staleKeyTag)
	nviol int
}

func (h *hist) root() (*x509.Certificate, string) {
	st := h.a.Observe()
	if st.Err != "" {
		return nil, st.Err
	}
	if st.RootCert == nil {
		return nil, "no stored root certificate"
	}
	return st.RootCert, ""
}

func window(root, leaf *x509.Certificate) (time.Time, time.Time) {
	nb, na := root.NotBefore, root.NotAfter
	if leaf.NotBefore.After(nb) {
		nb = leaf.NotBefore
	}
	if leaf.NotAfter.Before(na) {
		na = leaf.NotAfter
	}
	return nb, na
}

func (h *hist) viol(rule, format string, a ...any) {
	h.nviol++
	h.c.Violate(core.Violation{Kind: "oracle", Entry: "endorse pipeline", Site: rule + h.tag, Gen: h.gname, Case: h.idx, Detail: fmt.Sprintf(format, a...),
		Witness: map[string]any{"commands_so_far": append([]string(nil), *h.cmds...)}})
}

// checkFresh runs (a), (b), (c) on an endorsement just written.
func (h *hist) checkFresh(raw []byte, step int, shape string, thorough bool) *issued {
	c := h.c
	e := &epb.VMLaunchEndorsement{}
	if err := proto.Unmarshal(raw, e); err != nil {
		h.viol("written-endorsement-does-not-parse", "step %d: %v", step, err)
		return nil
	}
	g := &epb.VMGoldenMeasurement{}
	if err := proto.Unmarshal(e.SerializedUefiGolden, g); err != nil {
		h.viol("written-payload-does-not-parse", "step %d: %v", step, err)
		return nil
	}
	root, why := h.root()
	if root == nil {
		h.viol("authority-root-unavailable", "step %d: %s", step, why)
		return nil
	}
	leaf, err := x509.ParseCertificate(g.Cert)
	if err != nil {
		h.viol("embedded-certificate-does-not-parse", "step %d: %v", step, err)
		return nil
	}
	pool := x509.NewCertPool()
	pool.AddCert(root)
	nb, na := window(root, leaf)
	if !nb.Before(na) {
		h.viol("empty-validity-window", "step %d: root [%v,%v] leaf [%v,%v]", step, root.NotBefore, root.NotAfter, leaf.NotBefore, leaf.NotAfter)
		return nil
	}
	mid := nb.Add(na.Sub(nb) / 2)
	times := map[string]time.Time{"first-instant": nb, "first+1s": nb.Add(time.Second), "middle": mid, "last-1s": na.Add(-time.Second), "last-instant": na}
	// (a)
	for tn, t := range times {
		err := verify.Endorsement(raw, &verify.Options{RootsOfTrust: pool, Now: t})
		c.Eval(1)
		if err != nil {
			h.viol("pipeline-endorsement-rejected", "step %d (%s): verify.Endorsement at %s (%v) under the authority's root: %v", step, shape, tn, t.UTC().Format(time.RFC3339), err)
		} else {
			c.Cell("%s|%s|verify@%s", h.a.Name(), shape, tn)
		}
		// independent check too
		if res := authref.Proto(e, []*x509.Certificate{root}, t); !res.Authentic {
			h.viol("independent-check-failed", "step %d (%s) at %s: %s", step, shape, tn, res.Why)
		}
		h.keptVerify(root, raw, t, nil, 0, "pipeline-endorsement-rejected", fmt.Sprintf("step %d (%s) at %s", step, shape, tn), "fresh@"+tn)
	}
	if na.Equal(root.NotAfter) && leaf.NotAfter.After(root.NotAfter) {
		c.Count("endorsements-whose-window-is-closed-by-the-root-certificate", 1)
		c.Cell("%s|window-closed-by-root-notafter", h.a.Name())
	}
	if nb.Equal(root.NotBefore) && leaf.NotBefore.Before(root.NotBefore) {
		c.Count("endorsements-whose-window-is-opened-by-the-root-certificate", 1)
		c.Cell("%s|window-opened-by-root-notbefore", h.a.Name())
	}
	// (b) SNP
	ctx := context.Background()
	if g.SevSnp != nil {
		for k, m := range g.SevSnp.Measurements {
			for _, req := range []uint32{k, 0} {
				err := verify.Endorsement(raw, &verify.Options{RootsOfTrust: pool, Now: mid, SNP: &verify.SNPOptions{Measurement: m, ExpectedLaunchVMSAs: req}})
				c.Eval(1)
				if err != nil {
					h.viol("listed-snp-measurement-rejected", "step %d: measurement listed for %d VMSAs rejected by verify.Endorsement with ExpectedLaunchVMSAs=%d: %v", step, k, req, err)
				}
				h.keptVerify(root, raw, mid, m, req, "listed-snp-measurement-rejected", fmt.Sprintf("step %d: measurement listed for %d VMSAs, ExpectedLaunchVMSAs=%d", step, k, req), "snp-row")
			}
			if k <= 4 || k == 240 || thorough {
				f := verify.SNPValidateFunc(&verify.Options{RootsOfTrust: pool, Now: mid, SNP: &verify.SNPOptions{ExpectedLaunchVMSAs: k}})
				if err := f(gen.SnpAttestation(m, nil), raw); err != nil {
					h.viol("listed-snp-measurement-rejected", "step %d: measurement listed for %d VMSAs rejected by the validator closure for that count: %v", step, k, err)
				}
				v, ok := h.vcek[mid.Unix()]
				if !ok {
					v = gen.Vcek(mid)
					h.vcek[mid.Unix()] = v
				}
				for _, req := range []uint32{k, 0} {
					err := gcetcbendorsement.SevValidate(ctx, gen.SnpAttestation(m, v), &gcetcbendorsement.SevValidateOptions{Endorsement: e, RootsOfTrust: pool, Now: mid, ExpectedLaunchVmsas: req})
					c.Eval(1)
					if err != nil {
						h.viol("listed-snp-measurement-rejected", "step %d: measurement listed for %d VMSAs rejected by SevValidate with ExpectedLaunchVmsas=%d: %v", step, k, req, err)
					}
					h.keptSev(ctx, root, e, gen.SnpAttestation(m, v), mid, k, req, step)
				}
			}
			c.Cell("%s|snp-row|vmsas=%d", h.a.Name(), k)
		}
		if m := g.SevSnp.SvsmMeasurement; len(m) > 0 {
			for _, req := range []uint32{1, 0} {
				if err := verify.Endorsement(raw, &verify.Options{RootsOfTrust: pool, Now: mid, SNP: &verify.SNPOptions{Measurement: m, ExpectedLaunchVMSAs: req}}); err != nil {
					h.viol("listed-svsm-measurement-rejected", "step %d: SVSM measurement rejected with ExpectedLaunchVMSAs=%d: %v", step, req, err)
				}
			}
			c.Cell("%s|snp-row|svsm", h.a.Name())
		}
	}
	if g.Tdx != nil {
		for _, row := range g.Tdx.Measurements {
			for _, ram := range []int{int(row.RamGib), 0} {
				err := gcetcbendorsement.TdxValidate(ctx, gen.TdxQuote(row.Mrtd), &gcetcbendorsement.TdxValidateOptions{Endorsement: e, RootsOfTrust: pool, Now: mid, ExpectedRAMGiB: ram})
				c.Eval(1)
				if err != nil {
					h.viol("listed-tdx-measurement-rejected", "step %d: MRTD listed for ram_gib=%d early_accept=%v rejected by TdxValidate with ExpectedRAMGiB=%d: %v", step, row.RamGib, row.EarlyAccept, ram, err)
				}
				h.keptTdx(ctx, root, e, row, mid, ram, step)
			}
			c.Cell("%s|tdx-row|ram=%d|early=%v", h.a.Name(), row.RamGib, row.EarlyAccept)
		}
	}
	// (c) emitted bytes
	emit := func(form string, f func(ctx context.Context) error) []byte {
		bf, err := gcetcbendorsement.ParseBytesForm(form)
		if err != nil {
			panic(err)
		}
		var buf bytes.Buffer
		ictx := gcetcbendorsement.WithInspect(ctx, &gcetcbendorsement.Inspect{Writer: gcetcbendorsement.NonterminalWriter{Writer: &buf}, Form: bf})
		if err := f(ictx); err != nil {
			h.viol("inspect-failed", "step %d form %s: %v", step, form, err)
			return nil
		}
		out := buf.Bytes()
		switch form {
		case "hex":
			d, err := hex.DecodeString(strings.TrimSpace(string(out)))
			if err != nil {
				h.viol("inspect-output-not-decodable", "step %d: hex: %v", step, err)
			}
			return d
		case "base64":
			d, err := base64.StdEncoding.DecodeString(strings.TrimSpace(string(out)))
			if err != nil {
				h.viol("inspect-output-not-decodable", "step %d: base64: %v", step, err)
			}
			return d
		}
		return out
	}
	for _, form := range []string{"bin", "hex", "base64"} {
		pl := emit(form, func(x context.Context) error { return gcetcbendorsement.InspectPayload(x, e) })
		sg := emit(form, func(x context.Context) error { return gcetcbendorsement.InspectSignature(x, e) })
		ct := emit(form, func(x context.Context) error {
			return gcetcbendorsement.InspectMask(x, e, &fmpb.FieldMask{Paths: []string{"cert"}})
		})
		c.Eval(3)
		if !bytes.Equal(pl, e.SerializedUefiGolden) || !bytes.Equal(sg, e.Signature) || !bytes.Equal(ct, g.Cert) {
			h.viol("emitted-bytes-differ-from-stored-fields", "step %d form %s: payload equal=%v signature equal=%v cert equal=%v", step, form,
				bytes.Equal(pl, e.SerializedUefiGolden), bytes.Equal(sg, e.Signature), bytes.Equal(ct, g.Cert))
			continue
		}
		gg := &epb.VMGoldenMeasurement{}
		proto.Unmarshal(pl, gg)
		gg.Cert = ct
		if res := authref.Proto(&epb.VMLaunchEndorsement{SerializedUefiGolden: pl, Signature: sg}, []*x509.Certificate{root}, mid); !res.Authentic {
			h.viol("emitted-bytes-fail-independent-pss-check", "step %d form %s: %s", step, form, res.Why)
		}
		c.Cell("%s|emit|%s", h.a.Name(), form)
		if form == "bin" && thorough {
			h.openssl(step, pl, sg, ct, root)
		}
	}
	return &issued{raw: raw, at: step, name: shape, window: [2]time.Time{nb, na}}
}

// openssl re-verifies with the external tool when it is installed (thorough tier).
func (h *hist) openssl(step int, payload, sig, cert []byte, root *x509.Certificate) {
	path, err := exec.LookPath("openssl")
	if err != nil {
		h.c.Count("openssl-not-installed", 1)
		return
	}
	dir, _ := os.MkdirTemp("", "verif-c03-ossl-")
	defer os.RemoveAll(dir)
	w := func(n string, b []byte) string { p := filepath.Join(dir, n); os.WriteFile(p, b, 0o644); return p }
	certPem := w("cert.pem", pem.EncodeToMemory(&pem.Block{Type: "CERTIFICATE", Bytes: cert}))
	rootPem := w("root.pem", pem.EncodeToMemory(&pem.Block{Type: "CERTIFICATE", Bytes: root.Raw}))
	pl, sg := w("payload.bin", payload), w("sig.bin", sig)
	sh := fmt.Sprintf(`set -e; %[1]s x509 -pubkey -nocert -in %[2]s -out %[5]s/pub.pem; %[1]s dgst -sha256 -binary -out %[5]s/dgst.bin %[3]s; `+
		`%[1]s pkeyutl -verify -pkeyopt rsa_padding_mode:pss -pkeyopt rsa_pss_saltlen:32 -pkeyopt digest:sha256 -pkeyopt rsa_mgf1_md:sha256 -pubin -inkey %[5]s/pub.pem -sigfile %[4]s -in %[5]s/dgst.bin`,
		path, certPem, pl, sg, dir)
	out, err := exec.Command("bash", "-c", sh).CombinedOutput()
	h.c.Count("openssl-pkeyutl-runs", 1)
	if err != nil {
		h.viol("openssl-pkeyutl-rejects-emitted-bytes", "step %d: %v: %s", step, err, out)
	}
	_ = rootPem
}

func (h *hist) recheck(all []*issued, step int, what string) {
	root, why := h.root()
	if root == nil {
		h.viol("authority-root-unavailable", "after step %d (%s): %s", step, what, why)
		return
	}
	pool := x509.NewCertPool()
	pool.AddCert(root)
	for _, is := range all {
		mid := is.window[0].Add(is.window[1].Sub(is.window[0]) / 2)
		err := verify.Endorsement(is.raw, &verify.Options{RootsOfTrust: pool, Now: mid})
		h.c.Eval(1)
		if err != nil {
			h.viol("earlier-endorsement-no-longer-verifies", "endorsement issued at step %d stopped verifying after step %d (%s): %v", is.at, step, what, err)
		} else if step > is.at {
			h.c.Cell("%s|reverify|%s-after-%d-commands", h.a.Name(), what, min(step-is.at, 6))
		}
		h.keptRecheck(root, is, step, what)
	}
}

func run(c *core.Ctx) {
	pairs := authority.Pairs()
	nh := c.N(24, 72)
	t0 := time.Date(2024, 3, 1, 0, 0, 0, 0, time.UTC) // before the provenance date so that timestamps fall on both sides
	issuedTotal := 0
	for hi := 0; hi < nh; hi++ {
		if !c.Mine(hi) {
			continue
		}
		r := c.Rand(hi)
		p := pairs[hi%len(pairs)]
		dir, _ := os.MkdirTemp("", "verif-c03-")
		a := authority.New(p[0], p[1], dir)
		a.LongLived = (hi/len(pairs))%2 == 1 // every other pass over the assemblies keeps one CA value alive across commands
		// on the assembly whose state lives where the shipped nonprod command line keeps it, the reload-per-command passes
		// run every command through cmd.MakeApp (flags, composition, localnonvcs writing real files)
		viaCLI := a.CLIable() && !a.LongLived
		h := &hist{c: c, idx: hi, gname: fmt.Sprintf("history#%d %s long-lived-ca=%v cli=%v", hi, a.Name(), a.LongLived, viaCLI), a: a, vcs: doubles.NewMemVCS(nil), vcek: map[int64][]byte{}}
		c.Begin(hi, h.gname, "bootstrap/rotate/endorse", nil)
		bc := authority.DefaultBootstrap(t0)
		if r.IntN(2) == 0 {
			bc.RootKeySerial, bc.SigningKeySerial = big.NewInt(int64(1+r.IntN(1000))), big.NewInt(int64(2000+r.IntN(1000)))
		}
		var berr error
		if viaCLI {
			berr = a.CLI("bootstrap", "--timestamp", t0.Format(time.RFC3339), "--root_key_cn", bc.RootKeyCommonName, "--signing_key_cn", bc.SigningKeyCommonName,
				"--root_key_serial", bc.RootKeySerial.String(), "--initial_signing_key_serial", bc.SigningKeySerial.String())
		} else {
			berr = a.Bootstrap(&doubles.FCtl{}, authority.Opts{}, bc)
		}
		if err := berr; err != nil {
			h.viol("bootstrap-failed", "%v", err)
			os.RemoveAll(dir)
			c.End(hi)
			continue
		}
		var all []*issued
		var cmds []string
		h.cmds = &cmds
		var lastSerial *big.Int
		lastCN := "signingKeyCn"
		orphanKey := false // a rotation of this history failed after creating its key: the key manager holds an unrecorded key under the NEXT key's name
		if st := a.Observe(); st.PrimaryCert != nil {
			lastSerial, _ = new(big.Int).SetString(st.PrimaryCert.Subject.SerialNumber, 10)
		}
		ncmd := 5 + r.IntN(c.N(3, 8))
		now := t0
		for step := 1; step <= ncmd; step++ {
			forceSame := a.LongLived && step == 2 // directed: a rotation that re-uses the certificate object name, then an endorse
			if forceSame || (step > 1 && step != 3 && r.IntN(5) < 2) {
				now = now.Add(time.Duration(1+r.IntN(200)) * 24 * time.Hour)
				skc := &rotate.SigningKeyContext{SigningKeyCommonName: "signingKeyCn", Now: now}
				if r.IntN(4) == 0 {
					skc.SigningKeySerial = big.NewInt(int64(5000 + 10*step + r.IntN(5)))
				}
				if r.IntN(4) == 0 {
					skc.SigningKeyCommonName = fmt.Sprintf("signingKeyCn-%d", step)
				}
				ropts := authority.Opts{}
				if (forceSame || r.IntN(4) == 0) && lastSerial != nil {
					// re-use the serial (hence the certificate object name) of the previous signing certificate, allowed by --overwrite
					skc.SigningKeySerial, skc.SigningKeyCommonName = new(big.Int).Set(lastSerial), lastCN
					ropts.Overwrite = true
					if !forceSame && r.IntN(3) == 0 {
						// ... or attempted with --keep_going instead: the rotation may refuse, but if it reports success the
						// authority must still produce verifiable endorsements
						ropts.Overwrite, ropts.KeepGoing = false, true
					}
				}
				var err error
				if viaCLI {
					args := []string{"rotate", "--timestamp", now.Format(time.RFC3339), "--signing_key_cn", skc.SigningKeyCommonName}
					if skc.SigningKeySerial != nil {
						args = append(args, "--rotated_key_serial_override", skc.SigningKeySerial.String())
					}
					if ropts.Overwrite {
						args = append(args, "--overwrite")
					}
					if ropts.KeepGoing {
						args = append(args, "--keep_going")
					}
					err = a.CLI(args...)
				} else {
					_, err = a.Rotate(&doubles.FCtl{}, ropts, skc)
				}
				if st := a.Observe(); st.PrimaryCert != nil {
					lastSerial, _ = new(big.Int).SetString(st.PrimaryCert.Subject.SerialNumber, 10)
					lastCN = st.PrimaryCert.Subject.CommonName
				}
				cmds = append(cmds, fmt.Sprintf("rotate(now=%s serial=%v overwrite=%v keep_going=%v) -> %v", now.Format("2006-01-02"), skc.SigningKeySerial, ropts.Overwrite, ropts.KeepGoing, err))
				if err != nil {
					// a refusal to replace an existing certificate object (a default serial that collides with an earlier
					// override) is legitimate; C03 is about histories of successful rotations. The caller drops the authority value.
					a.DropLongLived()
					orphanKey = true
					if strings.Contains(err.Error(), "AlreadyExists") || strings.Contains(err.Error(), "overwrite") || strings.Contains(err.Error(), "exists") {
						c.Count("rotation-refused-existing-object", 1)
					} else {
						h.viol("fault-free-rotation-failed", "step %d: %v", step, err)
					}
				}
				if err == nil {
					orphanKey = false // the successful rotation recorded a key under that name
				}
				h.recheck(all, step, "rotate")
				continue
			}
			ec := endreq.Random(r, endreq.Opts{MaxImage: 256 << 10, AllowNoTDX: true, CheapTDX: !c.Thorough()}, step)
			if c.Thorough() && r.IntN(12) == 0 {
				ec = endreq.Random(r, endreq.Opts{MaxImage: 2 << 20, AllowNoTDX: true, CheapTDX: true}, step)
			}
			ec.VCS = h.vcs
			ec.OutDir = "out"
			snapshot := r.IntN(4) == 0
			if snapshot {
				ec.SnapshotDir = "snap"
			}
			shape := fmt.Sprintf("snp=%v(vmsas=%d) tdx=%v(shapes=%d early=%v) svsm=%v snapshot=%v after-provenance-date=%v", ec.SevSnp != nil, vm(ec), ec.Tdx != nil, shapes(ec), early(ec),
				len(ec.SvsmSnpMeasurement) > 0, snapshot, ec.Timestamp.After(endreq.ReleaseChange))
			ef := &doubles.FCtl{}
			interleave := 0
			if step > 1 && !viaCLI && r.IntN(5) == 0 {
				// a rotation lands in the middle of this endorse run, right before its k-th call to CA / signer / VCS
				interleave = 1 + r.IntN(8)
				now = now.Add(24 * time.Hour)
				rnow := now
				ef.Hook = func(seq int, name string) {
					if seq == interleave {
						_, rerr := a.Rotate(&doubles.FCtl{}, authority.Opts{Overwrite: true}, &rotate.SigningKeyContext{SigningKeyCommonName: "signingKeyCn", Now: rnow})
						cmds = append(cmds, fmt.Sprintf("  (rotation interleaved before endorse call %d %s -> %v)", seq, name, rerr))
					}
				}
			}
			var err error
			if viaCLI {
				err = h.endorseCLI(ec, step)
				c.Count("endorse-runs-through-the-command-line", 1)
			} else {
				err = a.Endorse(ef, authority.Opts{}, ec)
			}
			c.Eval(1)
			cmds = append(cmds, fmt.Sprintf("endorse(%s) -> %v", shape, err))
			if err != nil {
				if interleave != 0 {
					// failing cleanly while the key changes underneath is allowed; nothing may have been written
					c.Count("endorse-failed-cleanly-under-interleaved-rotation", 1)
					if _, ok := h.vcs.Head["out/"+ec.CandidateName+".binarypb"]; ok {
						h.viol("failed-endorse-left-a-file", "step %d: endorse failed (%v) but its file is in the committed head", step, err)
					}
					h.recheck(all, step, "endorse+interleaved-rotate")
					continue
				}
				h.viol("fault-free-endorse-failed", "step %d (%s): %v", step, shape, err)
				continue
			}
			stale := interleave != 0 && orphanKey && a.KM == authority.LocalKM
			if stale {
				c.Count("endorse-runs-with-a-key-snapshot-older-than-the-interleaved-rotation-after-a-failed-rotation", 1)
				h.tag = staleKeyTag
			}
			if interleave != 0 {
				c.Cell("%s|endorse-with-interleaved-rotation|at-call-%d", a.Name(), interleave)
			}
			path := "out/" + ec.CandidateName + ".binarypb"
			if snapshot {
				path = "snap/" + ec.ImageName + ".signed"
			}
			raw, ok := h.vcs.Head[path]
			if viaCLI {
				b, rerr := os.ReadFile(filepath.Join(a.OutRoot(), path))
				raw, ok = b, rerr == nil
			}
			if !ok {
				h.viol("endorsement-file-missing", "step %d: %s not in the committed head (have %d files)", step, path, len(h.vcs.Head))
				continue
			}
			before := h.nviol
			is := h.checkFresh(raw, step, shape, c.Thorough())
			h.tag = ""
			if is != nil && !(stale && h.nviol != before) {
				all = append(all, is)
				issuedTotal++
			}
			h.recheck(all, step, "endorse")
		}
		// the stored bytes are taken verbatim: an endorsement whose last bytes happen to be zero (the signature is the last
		// field on the wire and ends in 0x00 once in 256 signatures) must verify like any other. Sign until one does.
		if !viaCLI {
			h.trailingZeroProbe(ncmd + 1)
		}
		if hi < 6 {
			c.Sample(map[string]any{"history": h.gname, "commands": cmds})
		}
		c.End(hi)
		os.RemoveAll(dir)
	}
	// one history on the real clock, the way the command line runs without --timestamp: validators built with an
	// unset verification time ("the time of the call") BEFORE a rotation must accept what is endorsed after it
	if wc := nh; c.Mine(wc) {
		c.Begin(wc, "wall-clock history", "bootstrap/rotate/endorse", nil)
		wallClockHistory(c, wc)
		c.End(wc)
	}
	na, next := runAudit(c, nh+1)
	issuedTotal += na
	issuedTotal += runRound4(c, next) // round4.go: provenance grid, one-process histories with failed and retried rotations
	// round5.go: serial-flag histories, on the case numbers after the ones of runRound4 (its two loop counts)
	issuedTotal += runRound5(c, next+c.N(6, 18)+c.N(12, 36))
	c.Count("endorsements-issued-and-checked", issuedTotal)
	c.Floor("issued-some-endorsements", issuedTotal > 0)
}

// endorseCLI translates the request into the flags of the endorse command and runs it through cmd.MakeApp.
func (h *hist) endorseCLI(ec *endorse.Context, step int, extra ...string) error {
	a := h.a
	img := filepath.Join(a.Dir, ec.ImageName)
	if err := os.WriteFile(img, ec.Image, 0o644); err != nil {
		return err
	}
	args := []string{"endorse", "--uefi", img, "--out_root", a.OutRoot(), "--out_dir", ec.OutDir, "--candidate_name", ec.CandidateName, "--timestamp", ec.Timestamp.Format(time.RFC3339Nano)}
	if ec.ClSpec != 0 {
		args = append(args, "--clspec", fmt.Sprint(ec.ClSpec))
	}
	if len(ec.Commit) != 0 {
		args = append(args, "--commit", hex.EncodeToString(ec.Commit))
	}
	if ec.SnapshotDir != "" {
		args = append(args, "--snapshot_dir", ec.SnapshotDir)
	}
	if ec.SevSnp != nil {
		args = append(args, "--add_snp", "--snp_launch_vmsas", fmt.Sprint(ec.SevSnp.LaunchVmsas))
		if ec.SevSnp.Product == spb.SevProduct_SEV_PRODUCT_GENOA {
			args = append(args, "--snp_product", "Genoa")
		}
		if ec.SevSnp.FamilyID != "" {
			args = append(args, "--snp_family_id", ec.SevSnp.FamilyID)
		}
		if ec.SevSnp.ImageID != "" {
			args = append(args, "--snp_image_id", ec.SevSnp.ImageID)
		}
		if len(ec.SvsmSnpMeasurement) > 0 {
			mp := filepath.Join(a.Dir, fmt.Sprintf("svsm-%d.txt", step))
			os.WriteFile(mp, []byte(hex.EncodeToString(ec.SvsmSnpMeasurement)+"\n"), 0o644)
			args = append(args, "--svsm_snp_measurement_path", mp)
		}
	}
	if ec.Tdx != nil {
		args = append(args, "--add_tdx")
		if len(ec.Tdx.MachineShapes) > 0 {
			args = append(args, "--tdx_machine_shapes", strings.Join(ec.Tdx.MachineShapes, ","))
		}
		if ec.Tdx.IncludeEarlyAccept {
			args = append(args, "--tdx_include_early_accept")
		}
	}
	return a.CLI(append(args, extra...)...)
}

// trailingZeroProbe signs a small document through endorse.SignDoc until the signature ends in a zero byte and
// verifies the serialized endorsement (bytes) and the message (proto) under the authority's root.
func (h *hist) trailingZeroProbe(step int) {
	root, why := h.root()
	if root == nil {
		h.viol("authority-root-unavailable", "trailing-zero probe: %s", why)
		return
	}
	pool := x509.NewCertPool()
	pool.AddCert(root)
	st := h.a.Observe()
	if st.PrimaryCert == nil {
		return
	}
	nb, na := window(root, st.PrimaryCert)
	mid := nb.Add(na.Sub(nb) / 2)
	for try := 0; try < 3000; try++ {
		ctx, err := h.a.Context(&doubles.FCtl{}, authority.Opts{})
		if err != nil {
			return
		}
		e, err := endorse.SignDoc(endorse.NewContext(ctx, &endorse.Context{Timestamp: nb}), &epb.VMGoldenMeasurement{Digest: make([]byte, 48), ClSpec: uint64(1 + try)})
		if err != nil {
			h.viol("fault-free-signing-failed", "trailing-zero probe: %v", err)
			return
		}
		if n := len(e.Signature); n == 0 || e.Signature[n-1] != 0 {
			continue
		}
		raw, _ := proto.Marshal(e)
		h.c.Eval(2)
		h.c.Count("endorsements-ending-in-a-zero-byte-verified", 1)
		if raw[len(raw)-1] != 0 {
			return // wire order changed: nothing to probe
		}
		if err := verify.Endorsement(raw, &verify.Options{RootsOfTrust: pool, Now: mid}); err != nil {
			h.viol("pipeline-endorsement-rejected", "an endorsement whose serialized form ends in a zero byte (signature ...%x) is rejected by verify.Endorsement: %v (verify.EndorsementProto on the same message: %v)",
				e.Signature[len(e.Signature)-4:], err, verify.EndorsementProto(e, &verify.Options{RootsOfTrust: pool, Now: mid}))
		}
		h.c.Cell("%s|trailing-zero-endorsement", h.a.Name())
		return
	}
	h.c.Count("trailing-zero-probe-gave-up", 1)
}

func vm(ec *endorse.Context) uint32 {
	if ec.SevSnp == nil {
		return 0
	}
	return ec.SevSnp.LaunchVmsas
}
func shapes(ec *endorse.Context) int {
	if ec.Tdx == nil {
		return 0
	}
	return len(ec.Tdx.MachineShapes)
}
func early(ec *endorse.Context) bool { return ec.Tdx != nil && ec.Tdx.IncludeEarlyAccept }

// wallClockHistory: bootstrap an hour ago, build long-lived validators with Now unset, wait past a second
// boundary, rotate at time.Now(), endorse, and validate with the validators built before the rotation and with
// fresh ones. Acceptance is expected whatever the clock reads (time only moves forward; certificates are valid
// from their creation second), so the verdict does not depend on the clock value.
func wallClockHistory(c *core.Ctx, idx int) {
	dir, _ := os.MkdirTemp("", "verif-c03-wc-")
	defer os.RemoveAll(dir)
	a := authority.New(authority.MemKM, authority.GcscaMem, dir)
	h := &hist{c: c, idx: idx, gname: "wall-clock history memkm+gcsca-mem", a: a, vcs: doubles.NewMemVCS(nil), vcek: map[int64][]byte{}}
	var cmds []string
	h.cmds = &cmds
	start := time.Now().Add(-time.Hour).Truncate(time.Second)
	if err := a.Bootstrap(&doubles.FCtl{}, authority.Opts{}, authority.DefaultBootstrap(start)); err != nil {
		h.viol("bootstrap-failed", "%v", err)
		return
	}
	root, why := h.root()
	if root == nil {
		h.viol("authority-root-unavailable", "%s", why)
		return
	}
	pool := x509.NewCertPool()
	pool.AddCert(root)
	old1 := verify.SNPValidateFunc(&verify.Options{RootsOfTrust: pool})                            // Now unset
	old2 := verify.SNPFamilyValidateFunc(sev.GCEUefiFamilyID, &verify.Options{RootsOfTrust: pool}) // Now unset
	keptOpts := &verify.Options{RootsOfTrust: pool}                                                // Now unset, one value for every verify.Endorsement call of this history
	r := c.Rand(idx)
	ec := endreq.Random(r, endreq.Opts{MaxImage: 64 << 10}, 1)   // endorsed after the rotation (first draw, as before the audit)
	ecPre := endreq.Random(r, endreq.Opts{MaxImage: 64 << 10}, 2) // endorsed before the rotation
	validators := map[string]func(*spb.Attestation, []byte) error{"validator built before the rotation (SNPValidateFunc, Now unset)": old1,
		"validator built before the rotation (SNPFamilyValidateFunc, Now unset)": old2}
	// measurement returns one listed SNP measurement of a written endorsement.
	measurement := func(raw []byte) []byte {
		e := &epb.VMLaunchEndorsement{}
		proto.Unmarshal(raw, e)
		g := &epb.VMGoldenMeasurement{}
		proto.Unmarshal(e.SerializedUefiGolden, g)
		var m []byte
		for _, v := range g.GetSevSnp().GetMeasurements() {
			m = v
		}
		return m
	}
	// the long-lived validators and the kept Options value are USED before the rotation (an unset time that is
	// resolved at the first call instead of at every call would be pinned here), ...
	ecPre.Timestamp = time.Now()
	ecPre.VCS, ecPre.OutDir = h.vcs, "out"
	var rawPre []byte
	if err := a.Endorse(&doubles.FCtl{}, authority.Opts{}, ecPre); err != nil {
		h.viol("fault-free-endorse-failed", "wall-clock endorse before the rotation: %v", err)
	} else if rawPre = h.vcs.Head["out/"+ecPre.CandidateName+".binarypb"]; rawPre != nil {
		if m := measurement(rawPre); m != nil {
			for name, f := range validators {
				err := f(gen.SnpAttestation(m, nil), rawPre)
				c.Eval(1)
				if err != nil {
					h.viol("pipeline-endorsement-rejected", "%s rejects the endorsement issued before the rotation, when called before the rotation: %v", name, err)
				} else {
					c.Cell("wall-clock|used-before-the-rotation|%s", name)
				}
			}
		}
		if err := verify.Endorsement(rawPre, keptOpts); err != nil {
			h.viol("pipeline-endorsement-rejected", "verify.Endorsement with Now unset rejects the endorsement issued before the rotation: %v", err)
		}
		c.Eval(1)
	}
	time.Sleep(1200 * time.Millisecond)
	if _, err := a.Rotate(&doubles.FCtl{}, authority.Opts{}, &rotate.SigningKeyContext{SigningKeyCommonName: "signingKeyCn", Now: time.Now()}); err != nil {
		h.viol("fault-free-rotation-failed", "wall-clock rotation: %v", err)
		return
	}
	ec.Timestamp = time.Now()
	ec.VCS, ec.OutDir = h.vcs, "out"
	if err := a.Endorse(&doubles.FCtl{}, authority.Opts{}, ec); err != nil {
		h.viol("fault-free-endorse-failed", "wall-clock endorse: %v", err)
		return
	}
	raw := h.vcs.Head["out/"+ec.CandidateName+".binarypb"]
	m := measurement(raw)
	if m == nil {
		return
	}
	validators["fresh validator (Now unset)"] = verify.SNPValidateFunc(&verify.Options{RootsOfTrust: pool})
	// ... and again after it, on the endorsement of the new key and on the one of the old key
	for name, f := range validators {
		err := f(gen.SnpAttestation(m, nil), raw)
		c.Eval(1)
		if err != nil {
			h.viol("pipeline-endorsement-rejected", "%s rejects the endorsement issued after the rotation: %v", name, err)
		} else {
			c.Cell("wall-clock|%s", name)
		}
		if mp := measurement(rawPre); mp != nil {
			if err := f(gen.SnpAttestation(mp, nil), rawPre); err != nil {
				h.viol("earlier-endorsement-no-longer-verifies", "%s rejects, after the rotation, the endorsement issued before it: %v", name, err)
			}
			c.Eval(1)
		}
	}
	for _, o := range []*verify.Options{keptOpts, {RootsOfTrust: pool}} {
		if err := verify.Endorsement(raw, o); err != nil {
			h.viol("pipeline-endorsement-rejected", "verify.Endorsement with Now unset (options value first used before the rotation: %v) rejects the endorsement issued after the rotation: %v", o == keptOpts, err)
		} else {
			c.Cell("wall-clock|verify.Endorsement Now unset|options-used-before-the-rotation=%v", o == keptOpts)
		}
		c.Eval(1)
	}
}
