package c03

import (
	"bytes"
	"context"
	"crypto/x509"
	"fmt"
	"time"

	"github.com/google/gce-tcb-verifier/gcetcbendorsement"
	epb "github.com/google/gce-tcb-verifier/proto/endorsement"
	"github.com/google/gce-tcb-verifier/verify"
	spb "github.com/google/go-sev-guest/proto/sevsnp"

	"verifharness/gen"
)

// kept is what a long-running relying party keeps between verifications: ONE certificate pool object, ONE
// verify.Options value (its Now / SNP fields are rewritten in place before every call, the way a server fills a
// request-scoped field of a long-lived struct), ONE SevValidateOptions and ONE TdxValidateOptions value. Every
// endorsement of the history - issued before and after rotations, fresh and re-verified - goes through these same
// values in addition to the freshly built ones, so that anything the verifier remembers per pool / per options value
// (or process-wide) across calls, including across REJECTED calls, shows as a rejection of a pipeline endorsement.
// The values are only touched from the goroutine that runs the history.
type kept struct {
	rootRaw []byte
	pool    *x509.CertPool
	opts    *verify.Options
	snp     *verify.SNPOptions
	sev     *gcetcbendorsement.SevValidateOptions
	tdx     *gcetcbendorsement.TdxValidateOptions
	calls   int
	reject  int
}

func (h *hist) keptFor(root *x509.Certificate) *kept {
	if h.kv == nil || !bytes.Equal(h.kv.rootRaw, root.Raw) {
		if h.kv != nil {
			h.c.Count("kept-verifier-rebuilt-for-another-root", 1)
		}
		pool := x509.NewCertPool()
		pool.AddCert(root)
		h.kv = &kept{rootRaw: append([]byte(nil), root.Raw...), pool: pool, opts: &verify.Options{RootsOfTrust: pool}, snp: &verify.SNPOptions{},
			sev: &gcetcbendorsement.SevValidateOptions{RootsOfTrust: pool}, tdx: &gcetcbendorsement.TdxValidateOptions{RootsOfTrust: pool}}
	}
	return h.kv
}

// keptVerify runs verify.Endorsement through the kept Options value. m == nil means no SNP options.
func (h *hist) keptVerify(root *x509.Certificate, raw []byte, t time.Time, m []byte, vmsas uint32, rule, what, cell string) {
	k := h.keptFor(root)
	k.opts.Now = t
	if m != nil {
		k.snp.Measurement, k.snp.ExpectedLaunchVMSAs = m, vmsas
		k.opts.SNP = k.snp
	} else {
		k.opts.SNP = nil
	}
	err := verify.Endorsement(raw, k.opts)
	h.c.Eval(1)
	k.calls++
	if err != nil {
		h.viol(rule, "%s: rejected by verify.Endorsement through the Options value and certificate pool kept since the start of the history (call %d on them, %d rejected calls before): %v",
			what, k.calls, k.reject, err)
		return
	}
	h.c.Cell("%s|kept-verifier|%s", h.a.Name(), cell)
}

func (h *hist) keptSev(ctx context.Context, root *x509.Certificate, e *epb.VMLaunchEndorsement, att *spb.Attestation, t time.Time, listed, req uint32, step int) {
	k := h.keptFor(root)
	k.sev.Endorsement, k.sev.Now, k.sev.ExpectedLaunchVmsas = e, t, req
	err := gcetcbendorsement.SevValidate(ctx, att, k.sev)
	h.c.Eval(1)
	if err != nil {
		h.viol("listed-snp-measurement-rejected", "step %d: measurement listed for %d VMSAs rejected by SevValidate with ExpectedLaunchVmsas=%d through the SevValidateOptions value kept since the start of the history: %v", step, listed, req, err)
		return
	}
	h.c.Cell("%s|kept-verifier|sevvalidate", h.a.Name())
}

func (h *hist) keptTdx(ctx context.Context, root *x509.Certificate, e *epb.VMLaunchEndorsement, row *epb.VMTdx_Measurement, t time.Time, ram int, step int) {
	k := h.keptFor(root)
	k.tdx.Endorsement, k.tdx.Now, k.tdx.ExpectedRAMGiB = e, t, ram
	err := gcetcbendorsement.TdxValidate(ctx, gen.TdxQuote(row.Mrtd), k.tdx)
	h.c.Eval(1)
	if err != nil {
		h.viol("listed-tdx-measurement-rejected", "step %d: MRTD listed for ram_gib=%d early_accept=%v rejected by TdxValidate with ExpectedRAMGiB=%d through the TdxValidateOptions value kept since the start of the history: %v", step, row.RamGib, row.EarlyAccept, ram, err)
		return
	}
	h.c.Cell("%s|kept-verifier|tdxvalidate", h.a.Name())
}

var poisonKinds = []string{"before-validity", "after-validity", "unlisted-measurement", "truncated-bytes"}

// keptRecheck re-verifies an earlier endorsement through the kept values right after a call on the same values that
// is expected to be REJECTED (never judged, only counted): the outcome of a verification must not depend on the calls
// before it, a failed one included.
func (h *hist) keptRecheck(root *x509.Certificate, is *issued, step int, what string) {
	k := h.keptFor(root)
	mid := is.window[0].Add(is.window[1].Sub(is.window[0]) / 2)
	kind := poisonKinds[(step+is.at)%len(poisonKinds)]
	bad := is.raw
	k.opts.Now, k.opts.SNP = mid, nil
	switch kind {
	case "before-validity":
		k.opts.Now = is.window[0].Add(-time.Second)
	case "after-validity":
		k.opts.Now = is.window[1].Add(time.Second)
	case "unlisted-measurement":
		k.snp.Measurement, k.snp.ExpectedLaunchVMSAs = bytes.Repeat([]byte{0xA5}, 48), 0
		k.opts.SNP = k.snp
	case "truncated-bytes":
		bad = is.raw[:len(is.raw)-1]
	}
	if err := verify.Endorsement(bad, k.opts); err != nil {
		k.reject++
		h.c.Count("rejected-calls-placed-before-a-good-call", 1)
	} else {
		h.c.Count(fmt.Sprintf("call-meant-to-be-rejected-was-accepted(%s)", kind), 1)
	}
	h.c.Eval(1)
	k.opts.Now, k.opts.SNP = mid, nil
	err := verify.Endorsement(is.raw, k.opts)
	h.c.Eval(1)
	k.calls += 2
	if err != nil {
		h.viol("earlier-endorsement-no-longer-verifies", "endorsement issued at step %d is rejected after step %d (%s) through the Options value and pool kept since the start of the history, right after a rejected call on them (%s): %v",
			is.at, step, what, kind, err)
		return
	}
	h.c.Cell("%s|kept-verifier|good-call-after-rejected-call|%s", h.a.Name(), kind)
}
