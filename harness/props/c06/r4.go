package c06

// Two families appended after the "command" family (fourth round of seeded changes). Both add a dimension the
// earlier families held constant because the generators they share hold it constant:
//
//	layouts  the SEV-SNP metadata of the image: sections of EVERY kind (unmeasured, secrets, CPUID, SVSM calling
//	         area) spanning 1..16 pages, gaps between them, low and high guest-physical regions, any order, up to a
//	         dozen sections, reset-block addresses anywhere in the 32-bit space. (fw.Random writes the secrets and the
//	         CPUID section as exactly one page each, as the repository's own fixtures do.)
//	ids      ID values and byte fields that are *legal requested values* but coincide with what some other
//	         representation uses for "not set": the nil UUID, the all-ones UUID, the GCE family ID spelled out, the
//	         same ID for family and image, non-version-4 UUIDs, respellings of the nil UUID; an all-zero SVSM
//	         measurement / commit. Handed in through the library (one call), through the library on a request value
//	         that an earlier call already completed in place (and the reverse: special value first, then cleared), and
//	         through the flags of the shipped endorse command.
//
// Both are judged by judge.checkGolden and the signed-payload rules, always against a copy of the request taken BEFORE
// the call: the library completes the caller's request in place, so the live request cannot say what was asked for.

import (
	"bytes"
	"fmt"
	"math/rand/v2"
	"os"
	"path/filepath"
	"strings"
	"time"

	"github.com/google/gce-tcb-verifier/endorse"
	"github.com/google/gce-tcb-verifier/ovmf/abi"
	epb "github.com/google/gce-tcb-verifier/proto/endorsement"
	"github.com/google/gce-tcb-verifier/sev"
	spb "github.com/google/go-sev-guest/proto/sevsnp"
	"github.com/google/uuid"
	"google.golang.org/protobuf/proto"

	"verifharness/authority"
	"verifharness/core"
	"verifharness/doubles"
	"verifharness/gen/endreq"
	"verifharness/gen/fw"
)

type r4 struct {
	layoutCompared, layoutMultiCpuid, layoutMultiSecrets, layoutCaa, layoutCLI int
	idsCompared, idsSpecialFamily, idsSpecialImage, idsReused, idsCLI          int
	idsZeroBytes                                                              int
}

func (x *ext) runRound4(i int) {
	c := x.c
	nLayout, nIDs := c.N(48, 384), c.N(64, 512)
	for k := 0; k < nLayout; k, i = k+1, i+1 {
		if c.Mine(i) {
			x.layout(i, k)
		}
	}
	for k := 0; k < nIDs; k, i = k+1, i+1 {
		if c.Mine(i) {
			x.ids(i, k)
		}
	}
	x.runRound5(i)
	q := &x.r4
	c.Count("layout/documents-compared", q.layoutCompared)
	c.Count("layout/images-with-a-multi-page-cpuid-section", q.layoutMultiCpuid)
	c.Count("layout/images-with-a-multi-page-secrets-section", q.layoutMultiSecrets)
	c.Count("layout/images-with-an-svsm-calling-area-section", q.layoutCaa)
	c.Count("layout/documents-through-the-command", q.layoutCLI)
	c.Count("ids/documents-compared", q.idsCompared)
	c.Count("ids/documents-with-a-special-family-id", q.idsSpecialFamily)
	c.Count("ids/documents-with-a-special-image-id", q.idsSpecialImage)
	c.Count("ids/documents-on-a-request-completed-by-an-earlier-call", q.idsReused)
	c.Count("ids/documents-through-the-command", q.idsCLI)
	c.Count("ids/documents-with-all-zero-svsm-or-commit", q.idsZeroBytes)
	c.Floor("layout-multi-page-cpuid-and-secrets-compared", q.layoutMultiCpuid > 0 && q.layoutMultiSecrets > 0)
	c.Floor("layout-svsm-calling-area-compared", q.layoutCaa > 0)
	c.Floor("ids-special-values-compared", q.idsSpecialFamily > 0 && q.idsSpecialImage > 0)
	c.Floor("ids-reused-request-and-command-compared", q.idsReused > 0 && q.idsCLI > 0)
}

// ---------------------------------------------------------------------------------------------------------------
// layouts

type layoutInfo struct {
	cpuidPages, secretPages, caa, unmeasured int
	maxUnmeasured                            int
	regions                                  string
	reset                                    string
}

func (l layoutInfo) String() string {
	return fmt.Sprintf("cpuid=%dp secrets=%dp svsm-caa=%d unmeasured=%d(max %dp) regions=%s reset=%s", l.cpuidPages, l.secretPages, l.caa, l.unmeasured, l.maxUnmeasured, l.regions, l.reset)
}

func bucket(n int) string {
	switch {
	case n <= 4:
		return fmt.Sprint(n)
	case n <= 8:
		return "5-8"
	}
	return ">8"
}

// snpLayout draws a section list that is well-formed by the property C04 words (every kind known, ranges page
// aligned and non-empty, exactly one secrets and one CPUID section, at least one unmeasured one, no overlap), all
// below the lowest ROM base of the generated image sizes. k steers which of the two single-instance kinds spans
// more than one page, so that every combination occurs in every tier.
func snpLayout(r *rand.Rand, k int) ([]abi.SevMetadataSection, layoutInfo) {
	multi := func() int {
		switch r.IntN(8) {
		case 0:
			return 8
		case 1:
			return 16
		}
		return 2 + r.IntN(3)
	}
	var li layoutInfo
	li.cpuidPages, li.secretPages = 1, 1
	if k&1 != 0 {
		li.cpuidPages = multi()
	}
	if k&2 != 0 {
		li.secretPages = multi()
	}
	type want struct {
		kind  uint32
		pages int
	}
	ws := []want{{abi.SevCpuidSection, li.cpuidPages}, {abi.SevSecretSection, li.secretPages}}
	li.unmeasured = 1 + r.IntN(4)
	for n := 0; n < li.unmeasured; n++ {
		p := 1 + r.IntN(4)
		if r.IntN(8) == 0 {
			p = 16 + r.IntN(48)
		}
		li.maxUnmeasured = max(li.maxUnmeasured, p)
		ws = append(ws, want{abi.SevUnmeasuredSection, p})
	}
	if r.IntN(2) == 0 {
		li.caa = 1 + r.IntN(2)
		for n := 0; n < li.caa; n++ {
			ws = append(ws, want{abi.SevSvsmCaaSection, 1 + r.IntN(2)})
		}
	}
	r.Shuffle(len(ws), func(a, b int) { ws[a], ws[b] = ws[b], ws[a] })
	// two regions, as in shipped firmware (low memory work area; just below the flash)
	cursor := [2]uint32{0x800000 + 0x1000*uint32(r.IntN(16)), 0xff000000 + 0x1000*uint32(r.IntN(16))}
	mode := r.IntN(3) // 0: low only, 1: high only, 2: mixed
	li.regions = []string{"low", "high", "mixed"}[mode]
	var secs []abi.SevMetadataSection
	for _, w := range ws {
		reg := mode
		if mode == 2 {
			reg = r.IntN(2)
		}
		addr := cursor[reg] + 0x1000*uint32(r.IntN(3))
		length := 0x1000 * uint32(w.pages)
		cursor[reg] = addr + length
		secs = append(secs, abi.SevMetadataSection{Address: addr, Length: length, Kind: w.kind})
	}
	r.Shuffle(len(secs), func(a, b int) { secs[a], secs[b] = secs[b], secs[a] })
	return secs, li
}

func layoutImage(r *rand.Rand, k, maxSize int) ([]byte, layoutInfo) {
	for {
		spec := fw.Random(r, maxSize)
		secs, li := snpLayout(r, k)
		spec.Sections = secs
		li.reset = "below-flash"
		switch r.IntN(4) {
		case 0:
			spec.ResetAddr = 0x800000 | uint32(r.IntN(1<<16))
			li.reset = "low-memory"
		case 1:
			spec.ResetAddr = r.Uint32()
			li.reset = "anywhere"
		}
		if img, err := fw.Build(r, spec); err == nil {
			return img, li
		}
	}
}

func (x *ext) layout(i, k int) {
	c := x.c
	r := c.Rand(i)
	ec := endreq.Random(r, endreq.Opts{MaxImage: 64 << 10, AllowNoTDX: true, CheapTDX: true}, i)
	img, li := layoutImage(r, k, 128<<10)
	ec.Image = img
	if ec.SevSnp == nil {
		ec.SevSnp = randSnp(r)
	}
	viaCLI := k%4 == (k/4)%4 // every (k&3) class goes through the command once in four
	via := "library"
	if viaCLI {
		via = "command"
	}
	gname := fmt.Sprintf("layout#%d %s via %s on %s", i, li, via, describe(ec))
	entry := "endorse.GoldenMeasurement/layout"
	if viaCLI {
		entry = "cmd endorse/layout"
	}
	c.Begin(i, gname, entry, nil)
	defer c.End(i)
	j := &judge{c: c, i: i, gname: gname}
	ok := false
	if viaCLI {
		ok = x.judgeThroughCommand(j, r, i, entry, ec)
	} else {
		_, ok = x.judgeThroughLibrary(j, i, entry, "endorse.SignDoc/layout", ec, false)
	}
	if ok {
		q := &x.r4
		q.layoutCompared++
		if li.cpuidPages > 1 {
			q.layoutMultiCpuid++
		}
		if li.secretPages > 1 {
			q.layoutMultiSecrets++
		}
		if li.caa > 0 {
			q.layoutCaa++
		}
		if viaCLI {
			q.layoutCLI++
		}
	}
	explicit := ec.SevSnp.LaunchVmsas != 0
	c.Cell("layout|cpuid=%sp|secrets=%sp|caa=%d|unmeasured=%d|%s|reset=%s|explicit=%v|via=%s|ok=%v", bucket(li.cpuidPages), bucket(li.secretPages), li.caa, li.unmeasured, li.regions, li.reset, explicit, via, ok)
}

// ---------------------------------------------------------------------------------------------------------------
// shared runners

// judgeThroughLibrary runs GoldenMeasurement and SignDoc on ec and judges message and payload against a copy of the
// request taken before the call. lenient: a refusal is counted, not judged. Returns the message and whether
// everything compared equal.
func (x *ext) judgeThroughLibrary(j *judge, i int, entry, sentry string, ec *endorse.Context, lenient bool) (*epb.VMGoldenMeasurement, bool) {
	c := x.c
	want := cloneRequest(ec)
	want.Image = ec.Image
	reqImageID := ""
	if want.SevSnp != nil {
		reqImageID = want.SevSnp.ImageID
	}
	imgBefore := append([]byte(nil), ec.Image...)
	kctx, kerr := x.a.Context(&doubles.FCtl{}, authority.Opts{})
	if kerr != nil {
		panic(kerr)
	}
	ctx := endorse.NewContext(kctx, ec)
	var g *epb.VMGoldenMeasurement
	var err error
	if m := c.Guard(i, entry, j.gname, core.Budget{PanicNotJudged: true}, func() { g, err = endorse.GoldenMeasurement(ctx) }); m.Panicked {
		return nil, false
	}
	if !bytes.Equal(imgBefore, ec.Image) {
		j.bad(entry, "image-bytes-changed", "the request's image was modified")
	}
	if err != nil {
		if lenient {
			c.Count("refused-not-judged/"+entry, 1)
			return nil, false
		}
		j.bad(entry, "well-formed-request-refused", "%v", err)
		return nil, false
	}
	before := j.n
	j.checkGolden(entry, g, want, reqImageID)
	if j.n != before {
		return g, false
	}
	unsigned := proto.Clone(g).(*epb.VMGoldenMeasurement)
	var e *epb.VMLaunchEndorsement
	c.Guard(i, sentry, j.gname, core.Budget{PanicNotJudged: true}, func() { e, err = endorse.SignDoc(ctx, g) })
	if !x.checkSigned(j, sentry, e, err, unsigned, want.Timestamp) {
		return unsigned, false
	}
	p := &epb.VMGoldenMeasurement{}
	proto.Unmarshal(e.SerializedUefiGolden, p)
	signedID := reqImageID
	if signedID == "" {
		signedID = uuidString(unsigned.GetSevSnp().GetImageId())
	}
	j.checkGolden(sentry, p, want, signedID)
	return unsigned, j.n == before
}

// judgeThroughCommand renders the intent onto a plain image file, an SVN side file and the flags of the shipped
// endorse command, runs it, parses the endorsement it wrote and judges the payload against the intent. The SVN of
// the intent is replaced by the one written to the side file (the command has no other source). A refused command
// signs nothing: counted, not judged.
func (x *ext) judgeThroughCommand(j *judge, r *rand.Rand, i int, entry string, intent *endorse.Context) bool {
	c := x.c
	w := x.world()
	imgDir := filepath.Join(w.dir, fmt.Sprintf("r4-img-%d", i))
	os.MkdirAll(imgDir, 0o755)
	defer os.RemoveAll(imgDir)
	uefi := filepath.Join(imgDir, fmt.Sprintf("ovmf_x64_%d.fd", i))
	os.WriteFile(uefi, intent.Image, 0o644)
	svn := uint32(r.IntN(300))
	if svn != 0 {
		os.WriteFile(uefi+".scrtm.pb", append([]byte{0x08}, uvarint(uint64(svn), 0)...), 0o644)
	}
	if intent.SevSnp != nil {
		intent.SevSnp.Svn = svn
	}
	if intent.Tdx != nil {
		intent.Tdx.Svn = svn
	}
	want := cloneRequest(intent)
	want.Image = intent.Image
	v := &argv{r: r}
	v.a = append(v.a, "endorse")
	v.kv("uefi", uefi)
	v.kv("out_root", w.a.OutRoot())
	outDir := fmt.Sprintf("r4-case-%d", i)
	defer os.RemoveAll(filepath.Join(w.a.OutRoot(), outDir))
	v.kv("out_dir", outDir)
	v.kv("candidate_name", intent.CandidateName)
	v.kv("timestamp", intent.Timestamp.UTC().Format(time.RFC3339Nano))
	if intent.ClSpec != 0 {
		v.kv("clspec", fmt.Sprint(intent.ClSpec))
	}
	if len(intent.Commit) != 0 {
		v.kv("commit", hexSpell(r, intent.Commit))
	}
	if req := intent.SevSnp; req != nil {
		v.on("add_snp")
		if req.LaunchVmsas != 0 {
			v.kv("snp_launch_vmsas", fmt.Sprint(req.LaunchVmsas))
		}
		switch req.Product {
		case spb.SevProduct_SEV_PRODUCT_GENOA:
			v.kv("snp_product", "Genoa")
		case spb.SevProduct_SEV_PRODUCT_TURIN: // only the "products" family asks for it
			v.kv("snp_product", "Turin")
		}
		if req.FamilyID != "" {
			v.kv("snp_family_id", req.FamilyID)
		}
		if req.ImageID != "" {
			v.kv("snp_image_id", req.ImageID)
		}
		if len(intent.SvsmSnpMeasurement) > 0 {
			mp := filepath.Join(imgDir, "svsm-measurement.txt")
			os.WriteFile(mp, []byte(hexSpell(r, intent.SvsmSnpMeasurement)+"\n"), 0o644)
			v.kv("svsm_snp_measurement_path", mp)
		}
	}
	if req := intent.Tdx; req != nil {
		v.on("add_tdx")
		if len(req.MachineShapes) > 0 {
			v.kv("tdx_machine_shapes", strings.Join(req.MachineShapes, ","))
		}
		if req.IncludeEarlyAccept {
			v.on("tdx_include_early_accept")
		}
	}
	var cerr error
	if m := c.Guard(i, entry, j.gname, core.Budget{PanicNotJudged: true}, func() { cerr = w.a.CLI(v.a...) }); m.Panicked {
		return false
	}
	if cerr != nil {
		c.Count("refused-not-judged/"+entry, 1)
		if x.cliRefused++; x.cliRefused <= 3 {
			c.Note("command refused (not judged): %s: %v", j.gname, strings.ReplaceAll(cerr.Error(), w.dir, "<dir>"))
		}
		return false
	}
	raw, rerr := os.ReadFile(filepath.Join(w.a.OutRoot(), outDir, intent.CandidateName+".binarypb"))
	if rerr != nil {
		c.Count("command/no-endorsement-file-not-judged", 1)
		return false
	}
	e := &epb.VMLaunchEndorsement{}
	p := &epb.VMGoldenMeasurement{}
	if err := proto.Unmarshal(raw, e); err != nil {
		j.bad(entry, "payload-does-not-parse", "endorsement file: %v", err)
		return false
	}
	if err := proto.Unmarshal(e.SerializedUefiGolden, p); err != nil {
		j.bad(entry, "payload-does-not-parse", "%v", err)
		return false
	}
	before := j.n
	reqImageID := ""
	if want.SevSnp != nil {
		reqImageID = want.SevSnp.ImageID
	}
	j.checkGolden(entry, p, want, reqImageID)
	if !bytes.Equal(p.Cert, w.st.PrimaryCert.Raw) {
		j.bad(entry, "certificate-is-not-the-primary-signing-certificate", "%d bytes", len(p.Cert))
	}
	if !bytes.Equal(p.CaBundle, w.bundle) {
		j.bad(entry, "ca-bundle-differs", "%d bytes", len(p.CaBundle))
	}
	x.checkTimestamp(j, entry, p, want.Timestamp)
	return j.n == before
}

// ---------------------------------------------------------------------------------------------------------------
// ids

const (
	nilUUID = "00000000-0000-0000-0000-000000000000"
	maxUUID = "ffffffff-ffff-ffff-ffff-ffffffffffff"
)

var idKinds = []string{"absent", "nil-uuid", "all-ones-uuid", "gce-family-id", "random-bytes", "version-4", "same-as-the-other", "nil-uuid-respelled"}

// idValue returns the request string of one ID kind; lenient when the spelling is not the canonical one (the
// property does not promise that every spelling google/uuid reads is accepted).
func idValue(r *rand.Rand, kind int) (val string, lenient bool) {
	switch idKinds[kind] {
	case "absent":
		return "", false
	case "nil-uuid":
		return nilUUID, false
	case "all-ones-uuid":
		return maxUUID, false
	case "gce-family-id":
		return strings.ToLower(sev.GCEUefiFamilyID), false
	case "random-bytes":
		return randUUID(r), false
	case "version-4":
		b := randBytes(r, 16)
		b[6] = b[6]&0x0f | 0x40
		b[8] = b[8]&0x3f | 0x80
		return uuid.Must(uuid.FromBytes(b)).String(), false
	case "nil-uuid-respelled":
		s, _ := respell(nilUUID, 1+r.IntN(3)) // braced, urn, no dashes (upper case is the same text)
		return s, true
	}
	return "", false // same-as-the-other: resolved by the caller
}

func special(kind int) bool {
	switch idKinds[kind] {
	case "nil-uuid", "all-ones-uuid", "gce-family-id", "same-as-the-other", "nil-uuid-respelled":
		return true
	}
	return false
}

// ids is one case of the "ids" family. k fixes the (family kind, image kind) pair and the way the request reaches
// the code, so that each tier covers every pair; the PRNG fills in the rest.
func (x *ext) ids(i, k int) {
	c := x.c
	r := c.Rand(i)
	ec := endreq.Random(r, endreq.Opts{MaxImage: 64 << 10, AllowNoTDX: true, CheapTDX: true}, i)
	if ec.SevSnp == nil {
		ec.SevSnp = randSnp(r)
	}
	if ec.SevSnp.LaunchVmsas == 0 && r.IntN(2) == 0 {
		ec.SevSnp.LaunchVmsas = endreq.GCECounts[r.IntN(len(endreq.GCECounts))] // keep most cases cheap
	}
	n := len(idKinds)
	fk, ik := k%n, (k/n)%n
	mode := []string{"one-call", "after-a-call-that-completed-the-request", "then-cleared-again", "command"}[(fk+ik+k/(n*n))%4]
	fam, len1 := idValue(r, fk)
	img, len2 := idValue(r, ik)
	if idKinds[fk] == "same-as-the-other" {
		fam = img
		if idKinds[ik] == "same-as-the-other" {
			fam = randUUID(r)
			img = fam
		}
	} else if idKinds[ik] == "same-as-the-other" {
		img = fam
	}
	lenient := len1 || len2
	zero := ""
	switch r.IntN(6) {
	case 0:
		ec.SvsmSnpMeasurement, zero = make([]byte, 48), "svsm-all-zero"
	case 1:
		ec.Commit, zero = make([]byte, 20), "commit-all-zero"
	case 2:
		ec.SvsmSnpMeasurement, zero = bytes.Repeat([]byte{0xff}, 48), "svsm-all-ones"
	}
	gname := fmt.Sprintf("ids#%d family=%s(%q) image=%s(%q) %s %s on %s", i, idKinds[fk], fam, idKinds[ik], img, mode, zero, describe(ec))
	entry, sentry := "endorse.GoldenMeasurement/ids", "endorse.SignDoc/ids"
	if mode == "command" {
		entry = "cmd endorse/ids"
	}
	c.Begin(i, gname, entry, nil)
	defer c.End(i)
	j := &judge{c: c, i: i, gname: gname}
	ok := false
	switch mode {
	case "one-call":
		ec.SevSnp.FamilyID, ec.SevSnp.ImageID = fam, img
		_, ok = x.judgeThroughLibrary(j, i, entry, sentry, ec, lenient)
	case "after-a-call-that-completed-the-request":
		// first call: whatever endreq drew (often absent IDs, which the library writes into the request); then the
		// caller sets the IDs it wants on the SAME request value and calls again
		if _, ok = x.judgeThroughLibrary(j, i, entry, sentry, ec, false); ok {
			ec.SevSnp.FamilyID, ec.SevSnp.ImageID = fam, img
			_, ok = x.judgeThroughLibrary(j, i, entry, sentry, ec, lenient)
		}
	case "then-cleared-again":
		// the reverse: the special values first, then the IDs are cleared on the same request value: defaults again,
		// and a fresh random image id
		ec.SevSnp.FamilyID, ec.SevSnp.ImageID = fam, img
		var g1, g2 *epb.VMGoldenMeasurement
		if g1, ok = x.judgeThroughLibrary(j, i, entry, sentry, ec, lenient); ok {
			ec.SevSnp.FamilyID, ec.SevSnp.ImageID = "", ""
			if g2, ok = x.judgeThroughLibrary(j, i, entry, sentry, ec, false); ok && bytes.Equal(g1.GetSevSnp().GetImageId(), g2.GetSevSnp().GetImageId()) {
				j.bad(entry, "snp-image-id-not-a-random-uuid", "a request without an image id got %x, the id of the previous request on the same value", g2.GetSevSnp().GetImageId())
				ok = false
			}
		}
	default:
		ec.SevSnp.FamilyID, ec.SevSnp.ImageID = fam, img
		ok = x.judgeThroughCommand(j, r, i, entry, ec)
	}
	if ok {
		q := &x.r4
		q.idsCompared++
		if special(fk) {
			q.idsSpecialFamily++
		}
		if special(ik) {
			q.idsSpecialImage++
		}
		switch mode {
		case "command":
			q.idsCLI++
		case "one-call":
		default:
			q.idsReused++
		}
		if zero != "" {
			q.idsZeroBytes++
		}
	}
	outcome := fmt.Sprintf("ok=%v", ok)
	if !ok && j.n == 0 {
		outcome = "refused-or-not-judged"
	}
	c.Cell("ids|family=%s|image=%s|%s|%s", idKinds[fk], idKinds[ik], mode, outcome)
	if zero != "" {
		c.Cell("ids|%s|%s|%s", zero, mode, outcome)
	}
}
