package c06

import (
	"fmt"
	"math"
	"strings"
	"time"

	"github.com/google/gce-tcb-verifier/endorse"
	epb "github.com/google/gce-tcb-verifier/proto/endorsement"
	"github.com/google/gce-tcb-verifier/sev"
	"github.com/google/gce-tcb-verifier/tdx"
	spb "github.com/google/go-sev-guest/proto/sevsnp"
	"github.com/google/uuid"
	"google.golang.org/protobuf/proto"

	"verifharness/authority"
	"verifharness/core"
	"verifharness/doubles"
	"verifharness/gen/endreq"
)

var (
	svnEdges    = []uint32{0, 1, 127, 128, 255, 256, 65535, 65536, 1<<31 - 1, 1 << 31, math.MaxUint32}
	clspecEdges = []uint64{1, 1<<31 - 1, 1 << 31, 1<<32 - 1, 1 << 32, 1<<53 + 1, 1<<63 - 1, 1 << 63, math.MaxUint64}
	commitLens  = []int{1, 19, 20, 21, 32, 64}
	svsmLens    = []int{1, 32, 47, 48, 49, 64}
	vmsaEdges   = []uint32{1, 2, 240, 241, 255, 256, 257, 512}
)

// respell writes a canonical UUID string in another spelling google/uuid (and so the request's documented "some GUID
// format") accepts.
func respell(id string, how int) (string, string) {
	switch how {
	case 0:
		return strings.ToUpper(id), "upper-case"
	case 1:
		return "{" + id + "}", "braced"
	case 2:
		return "urn:uuid:" + id, "urn"
	case 3:
		return strings.ReplaceAll(id, "-", ""), "no-dashes"
	}
	return id, "canonical"
}

const nValueDims = 9

// values is one case of the "values" family; k selects the dimension (fixed rotation), the PRNG the value.
func (x *ext) values(i, k int) {
	c := x.c
	r := c.Rand(i)
	ec := endreq.Random(r, endreq.Opts{MaxImage: 64 << 10, AllowNoTDX: true, CheapTDX: true}, i)
	dim, val, cellVal := "", "", ""
	lenient := false // a refusal is counted, not judged (the spelling is legal for the parser the request documents, but the property does not promise acceptance)
	switch k % nValueDims {
	case 0:
		dim = "svn"
		a, b := svnEdges[r.IntN(len(svnEdges))], svnEdges[r.IntN(len(svnEdges))]
		if ec.SevSnp == nil {
			ec.SevSnp = &sev.SnpEndorsementRequest{Product: spb.SevProduct_SEV_PRODUCT_MILAN, LaunchVmsas: 1}
		}
		if ec.Tdx == nil {
			ec.Tdx = &tdx.EndorsementRequest{}
		}
		ec.SevSnp.Svn, ec.Tdx.Svn = a, b
		val = fmt.Sprintf("snp=%d,tdx=%d", a, b)
	case 1:
		dim = "clspec"
		ec.ClSpec = clspecEdges[r.IntN(len(clspecEdges))]
		val = fmt.Sprint(ec.ClSpec)
	case 2:
		dim = "commit"
		switch r.IntN(4) {
		case 0:
			ec.Commit, val = nil, "nil"
		case 1:
			ec.Commit, val = []byte{}, "empty"
		default:
			n := commitLens[r.IntN(len(commitLens))]
			ec.Commit, val = randBytes(r, n), fmt.Sprintf("%d-bytes", n)
		}
		if r.IntN(2) == 0 {
			ec.ClSpec = 0
			val += ",no-clspec"
		}
	case 3:
		dim = "svsm"
		if ec.SevSnp == nil {
			ec.SevSnp = randSnp(r)
			ec.SevSnp.LaunchVmsas = 2
		}
		switch r.IntN(4) {
		case 0:
			ec.SvsmSnpMeasurement, val = nil, "nil"
		case 1:
			ec.SvsmSnpMeasurement, val = []byte{}, "empty"
		default:
			n := svsmLens[r.IntN(len(svsmLens))]
			ec.SvsmSnpMeasurement, val = randBytes(r, n), fmt.Sprintf("%d-bytes", n)
		}
	case 4:
		dim = "uuid-spelling"
		if ec.SevSnp == nil {
			ec.SevSnp = randSnp(r)
			ec.SevSnp.LaunchVmsas = 2
		}
		var a, b string
		ec.SevSnp.FamilyID, a = respell(randUUID(r), r.IntN(5))
		ec.SevSnp.ImageID, b = respell(randUUID(r), r.IntN(5))
		val = "family=" + a + ",image=" + b
		lenient = a != "canonical" || b != "canonical"
	case 5:
		dim = "shape-list"
		if ec.Tdx == nil {
			ec.Tdx = &tdx.EndorsementRequest{Svn: uint32(r.IntN(50))}
		}
		ec.Tdx.IncludeEarlyAccept = r.IntN(2) == 0
		switch n := r.IntN(8); n {
		case 0:
			ec.Tdx.MachineShapes, val = nil, "nil"
		case 1:
			ec.Tdx.MachineShapes, val = []string{}, "empty"
		case 2:
			ec.Tdx.MachineShapes, val = make([]string, 0, 8), "empty-with-capacity"
		default:
			n = []int{4, 5, 5, 6, 6}[n-3]
			ec.Tdx.MachineShapes = randShapes(r, n)
			val = fmt.Sprintf("%d-shapes", n)
		}
		val += fmt.Sprintf(",early=%v", ec.Tdx.IncludeEarlyAccept)
	case 6:
		dim = "vmsa-count"
		if ec.SevSnp == nil {
			ec.SevSnp = randSnp(r)
		}
		ec.SevSnp.LaunchVmsas = vmsaEdges[r.IntN(len(vmsaEdges))]
		val = fmt.Sprint(ec.SevSnp.LaunchVmsas)
	case 7:
		dim = "no-provenance"
		ec.ClSpec, ec.Commit = 0, nil
		val = "none"
	default:
		dim = "timestamp"
		base := ec.Timestamp
		switch r.IntN(11) {
		case 0:
			ec.Timestamp, val = base.Truncate(time.Second), "whole-second"
		case 1:
			ec.Timestamp, val = base.Truncate(time.Second).Add(999999999), "nanos-999999999"
		case 2:
			ec.Timestamp, val = base.In(time.FixedZone("IST", 5*3600+1800)), "zone+05:30"
		case 3:
			ec.Timestamp, val = base.In(time.FixedZone("PST", -8*3600)), "zone-08:00"
		case 4:
			ec.Timestamp, val = time.Unix(0, 0).UTC(), "epoch"
		case 5:
			ec.Timestamp, val = time.Unix(-int64(1+r.IntN(1e9)), 0).UTC(), "before-1970-whole-second"
		case 6:
			ec.Timestamp, val = time.Unix(-int64(1+r.IntN(1e9)), int64(1+r.IntN(999999999))).UTC(), "before-1970-fraction"
		case 7:
			ec.Timestamp, val = time.Unix(0, math.MaxInt64).UTC(), "last-unixnano"
		case 8:
			ec.Timestamp, val = time.Date(2300+r.IntN(500), 5, 6, 7, 8, 9, r.IntN(1e9), time.UTC), "after-2262"
		case 9:
			ec.Timestamp, val = time.Date(1000+r.IntN(600), 5, 6, 7, 8, 9, 0, time.UTC), "before-1678"
		default:
			ec.Timestamp, val = time.Date(2038, 1, 19, 3, 14, 8, r.IntN(1e9), time.UTC), "after-2^31-seconds"
		}
	}
	if cellVal == "" {
		cellVal = val
	}
	gname := fmt.Sprintf("values#%d %s=%s on %s", i, dim, val, describe(ec))
	const entry, sentry = "endorse.GoldenMeasurement/values", "endorse.SignDoc/values"
	c.Begin(i, gname, entry, nil)
	defer c.End(i)
	j := &judge{c: c, i: i, gname: gname}
	reqImageID := ""
	if ec.SevSnp != nil {
		reqImageID = ec.SevSnp.ImageID
	}
	want := cloneRequest(ec)
	kctx, kerr := x.a.Context(&doubles.FCtl{}, authority.Opts{})
	if kerr != nil {
		panic(kerr)
	}
	ctx := endorse.NewContext(kctx, ec)
	var g *epb.VMGoldenMeasurement
	var err error
	if m := c.Guard(i, entry, gname, core.Budget{PanicNotJudged: true}, func() { g, err = endorse.GoldenMeasurement(ctx) }); m.Panicked {
		return
	}
	if err != nil {
		if lenient {
			c.Count("values/refused-not-judged/"+dim, 1)
			c.Cell("values|%s|%s|refused", dim, cellVal)
			return
		}
		j.bad(entry, "well-formed-request-refused", "%v", err)
		return
	}
	// judged against the request as it was handed in (the copy), so that a library that rewrites the caller's
	// request cannot move the goalposts; the IDs are the exception the library documents (defaults filled in)
	if want.SevSnp != nil {
		if u, perr := uuid.Parse(reqImageID); perr == nil {
			reqImageID = u.String()
		}
	}
	j.checkGolden(entry, g, want, reqImageID)
	if j.n != 0 {
		return
	}
	unsigned := proto.Clone(g).(*epb.VMGoldenMeasurement)
	var e *epb.VMLaunchEndorsement
	c.Guard(i, sentry, gname, core.Budget{PanicNotJudged: true}, func() { e, err = endorse.SignDoc(ctx, g) })
	if x.checkSigned(j, sentry, e, err, unsigned, want.Timestamp) {
		// the re-parsed payload once more field by field: what survives the wire format is what counts here
		p := &epb.VMGoldenMeasurement{}
		proto.Unmarshal(e.SerializedUefiGolden, p)
		j.checkGolden(sentry, p, want, uuidString(g.GetSevSnp().GetImageId()))
	}
	if j.n == 0 {
		x.valCompared++
		c.Count("values/compared/"+dim, 1)
	}
	c.Cell("values|%s|%s|ok=%v", dim, cellVal, j.n == 0)
}

var _ = endorse.GoldenMeasurement
