package c06

// Case families appended after the original request cases (their numbers start at the original case count, so the
// original cases keep their numbers and PRNG streams):
//
//	sequences   one endorse.Context value (and one keys context) driven through 3..6 calls with fields changed in place
//	            between the calls — same image with another configuration, result scribbled by the caller, a failing
//	            call repaired and retried, a signing fault followed by a retry under a later timestamp
//	concurrent  4..8 independent requests (some of which must fail) measured and signed at the same time
//	values      field values at their boundaries and in equivalent encodings: 8/16/32/64-bit limits of SVN and
//	            changelist, commit and SVSM lengths, UUID spellings, nil vs empty lists, every shape at once,
//	            VMSA counts around 255, time zones and the ends of the timestamp range
//	command     the shipped `endorse` command line over files: SVN side files (both names, non-canonical protobuf
//	            encodings), SVSM measurement files (case, line ends), flag spellings, explicit defaults, flags of a
//	            technology that is not added, image behind a symlink / on a pipe
//
// All of them are judged by judge.checkGolden and the signed-payload rules of the original cases.

import (
	"bytes"
	"fmt"
	"math/rand/v2"
	"time"

	"github.com/google/gce-tcb-verifier/endorse"
	"github.com/google/gce-tcb-verifier/ovmf/abi"
	epb "github.com/google/gce-tcb-verifier/proto/endorsement"
	"google.golang.org/protobuf/proto"

	"verifharness/authority"
	"verifharness/core"
	"verifharness/gen/fw"
)

// Observations on the unchanged tree that the property text covers but that are reported, not judged, until the
// coordinator decides (see the report of the audit): flip to true to judge them.
const (
	// timeproto.To computes Nanos as UnixNano()%1e9: negative for an instant before 1970 that is not a whole second
	// (the signed time is then one second early), and garbage once UnixNano overflows (years < 1678 or > 2262).
	judgeTimestampsOutsideUnixNano = true
	// cmd/endorse.go scrtmMain replaces the FIRST ".fd" of the whole path, so the side file <name>_scrtm_ver.pb is
	// not found when a directory of the path contains ".fd"; the SVN is then signed as 0.
	judgeSideFileUnderFdDirectory = true
)

type ext struct {
	c      *core.Ctx
	a      *authority.Assembly
	st     *authority.State
	bundle []byte

	seqSteps, seqSameImage, seqScribbled, seqRetried, seqSignRetried int
	concCalls, concMustFail                                          int
	valCompared                                                      int
	cliCompared, cliSideFile, cliOddFile, cliRefused, tsNotes        int

	cli *cliWorld
	r4  r4
	r5  r5
}

func runExtended(c *core.Ctx, base int, a *authority.Assembly, st *authority.State, bundle []byte) {
	x := &ext{c: c, a: a, st: st, bundle: bundle}
	defer x.closeCLI()
	nSeq, nConc, nVal, nCLI := c.N(120, 900), c.N(32, 240), c.N(99, 594), c.N(64, 400)
	i := base
	for k := 0; k < nSeq; k, i = k+1, i+1 {
		if c.Mine(i) {
			x.sequence(i)
		}
	}
	for k := 0; k < nConc; k, i = k+1, i+1 {
		if c.Mine(i) {
			x.concurrent(i)
		}
	}
	for k := 0; k < nVal; k, i = k+1, i+1 {
		if c.Mine(i) {
			x.values(i, k)
		}
	}
	for k := 0; k < nCLI; k, i = k+1, i+1 {
		if c.Mine(i) {
			x.command(i, k)
		}
	}
	x.runRound4(i)
	c.Count("sequence/steps-judged", x.seqSteps)
	c.Count("sequence/steps-with-the-image-unchanged", x.seqSameImage)
	c.Count("sequence/results-scribbled-before-the-next-call", x.seqScribbled)
	c.Count("sequence/failed-calls-repaired-and-retried", x.seqRetried)
	c.Count("sequence/signing-faults-retried", x.seqSignRetried)
	c.Count("concurrent/calls-judged", x.concCalls)
	c.Count("concurrent/calls-that-must-fail", x.concMustFail)
	c.Count("values/documents-compared", x.valCompared)
	c.Count("command/documents-compared", x.cliCompared)
	c.Count("command/documents-with-svn-from-a-side-file", x.cliSideFile)
	c.Count("command/images-behind-symlink-or-pipe", x.cliOddFile)
	c.Floor("sequence-same-image-other-configuration-seen", x.seqSameImage > 0)
	c.Floor("sequence-scribbled-result-seen", x.seqScribbled > 0)
	c.Floor("sequence-retry-after-failure-seen", x.seqRetried > 0 && x.seqSignRetried > 0)
	c.Floor("concurrent-calls-judged", x.concCalls > 0 && x.concMustFail > 0)
	c.Floor("boundary-values-compared", x.valCompared > 0)
	c.Floor("command-line-documents-compared", x.cliCompared > 0 && x.cliSideFile > 0)
}

// partWayImage builds an image whose TDX measurement fails after earlier sections were absorbed (as in the original
// cases): a temporary-memory section flagged for extension has no contents to extend.
func partWayImage(r *rand.Rand, max int) []byte {
	spec := fw.Random(r, max)
	spec.Tdx.Sections = append(spec.Tdx.Sections, &abi.TDXMetadataSection{MemoryBase: 0x830000, MemorySize: 0x2000, SectionType: abi.TDXMetadataSectionTypeTempMem, Attributes: 1})
	spec.Tdx.Header.SectionCount++
	spec.Tdx.Header.Length += 32
	img, err := fw.Build(r, spec)
	if err != nil {
		return nil
	}
	return img
}

// sameSizeImage returns a fresh well-formed image of exactly n bytes (n is one of fw.Sizes).
func sameSizeImage(r *rand.Rand, n int) []byte {
	for {
		s := fw.Random(r, n)
		if s.Size != n {
			continue
		}
		if img, err := fw.Build(r, s); err == nil {
			return img
		}
	}
}

// outsideUnixNano reports whether timeproto.To is known to misreport t (see judgeTimestampsOutsideUnixNano).
func outsideUnixNano(t time.Time) bool {
	if t.Year() < 1678 || t.Year() > 2261 {
		return true
	}
	return t.Unix() < 0 && t.Nanosecond() != 0
}

// checkSigned judges the payload of a signed endorsement: it must be the judged golden measurement g plus the
// primary signing certificate, its bundle and the request's timestamp. g is the message as it was BEFORE signing.
func (x *ext) checkSigned(j *judge, entry string, e *epb.VMLaunchEndorsement, err error, g *epb.VMGoldenMeasurement, ts time.Time) bool {
	if err != nil || e == nil {
		j.bad(entry, "signing-failed", "%v", err)
		return false
	}
	p := &epb.VMGoldenMeasurement{}
	if uerr := proto.Unmarshal(e.SerializedUefiGolden, p); uerr != nil {
		j.bad(entry, "payload-does-not-parse", "%v", uerr)
		return false
	}
	before := j.n
	if !bytes.Equal(p.Cert, x.st.PrimaryCert.Raw) {
		j.bad(entry, "certificate-is-not-the-primary-signing-certificate", "%d bytes", len(p.Cert))
	}
	if !bytes.Equal(p.CaBundle, x.bundle) {
		j.bad(entry, "ca-bundle-differs", "%d bytes", len(p.CaBundle))
	}
	x.checkTimestamp(j, entry, p, ts)
	q := proto.Clone(p).(*epb.VMGoldenMeasurement)
	q.Cert, q.CaBundle, q.Timestamp = nil, nil, nil
	if !proto.Equal(q, g) {
		j.bad(entry, "signed-payload-differs-from-computed-message", "payload (without cert/bundle/timestamp) != GoldenMeasurement result")
	}
	return j.n == before
}

func (x *ext) checkTimestamp(j *judge, entry string, p *epb.VMGoldenMeasurement, ts time.Time) {
	got := p.GetTimestamp().AsTime()
	if p.GetTimestamp() != nil && got.Equal(ts) {
		return
	}
	if outsideUnixNano(ts) && !judgeTimestampsOutsideUnixNano {
		x.c.Count("observed-not-judged/timestamp-outside-unixnano-range-signed-differently", 1)
		if ts.Year() >= 1678 && ts.Year() <= 2261 {
			x.c.Note("observed, not judged: a request time before 1970 that is not a whole second is signed one second early with negative nanos (e.g. 1961-08-01T04:02:35.471591236Z as seconds=-265665445 nanos=-528408764)")
		} else {
			x.c.Note("observed, not judged: a request time before 1678 or after 2261 is signed with nanos unrelated to the request (UnixNano overflow), up to a second off")
		}
		return
	}
	j.bad(entry, "timestamp-differs-from-request", "%v vs requested %v", got, ts.UTC())
}

// cloneRequest deep-copies the parts of a request the judge reads, so that a later edit of the live request cannot
// change what an earlier call is compared with.
func cloneRequest(ec *endorse.Context) *endorse.Context {
	o := *ec
	if ec.SevSnp != nil {
		s := *ec.SevSnp
		o.SevSnp = &s
	}
	if ec.Tdx != nil {
		t := *ec.Tdx
		t.MachineShapes = append([]string(nil), ec.Tdx.MachineShapes...)
		o.Tdx = &t
	}
	o.Commit = append([]byte(nil), ec.Commit...)
	o.SvsmSnpMeasurement = append([]byte(nil), ec.SvsmSnpMeasurement...)
	return &o
}

func describe(ec *endorse.Context) string {
	vm, nshape, early := uint32(0), 0, false
	if ec.SevSnp != nil {
		vm = ec.SevSnp.LaunchVmsas
	}
	if ec.Tdx != nil {
		nshape, early = len(ec.Tdx.MachineShapes), ec.Tdx.IncludeEarlyAccept
	}
	return fmt.Sprintf("image=%dKiB snp=%v(vmsas=%d) tdx=%v(shapes=%d early=%v)", len(ec.Image)>>10, ec.SevSnp != nil, vm, ec.Tdx != nil, nshape, early)
}
