// Package c06: the signed document describes exactly the supplied image.
package c06

import (
	"bytes"
	"context"
	"crypto/sha512"
	"fmt"
	"os"
	"sort"
	"time"

	"github.com/google/gce-tcb-verifier/endorse"
	"github.com/google/gce-tcb-verifier/ovmf/abi"
	epb "github.com/google/gce-tcb-verifier/proto/endorsement"
	"github.com/google/gce-tcb-verifier/sev"
	"github.com/google/gce-tcb-verifier/tdx"
	spb "github.com/google/go-sev-guest/proto/sevsnp"
	"github.com/google/uuid"
	"google.golang.org/protobuf/proto"

	"verifharness/authority"
	"verifharness/core"
	"verifharness/doubles"
	"verifharness/gen"
	"verifharness/gen/endreq"
	"verifharness/gen/fw"
	"verifharness/props/c04/snpref"
	"verifharness/props/c05/tdxref"
)

func init() {
	core.Register(&core.Info{
		ID: "C06", Level: "exploration",
		Rule: "case = generated endorsement request (image 64 KiB..2 MiB, technology subset, explicit / default / non-GCE VMSA count, product, machine-shape list with and without early accept incl. unknown shape names, SVN, family/image IDs, SVSM measurement, changelist/commit, timestamp) run through endorse.GoldenMeasurement and, with a bootstrapped authority, endorse.SignDoc. " +
			"Every field of the message and of the re-parsed signed payload is compared with an independent recomputation: sha384(image); SNP table keys == requested set (own list of the 15 GCE counts) and each value == the snpref digest; TDX rows == per shape (ram, legacy[, legacy-early]) + default row with each MRTD == the tdxref value; SVN, IDs, policy, SVSM, provenance, certificate, bundle, timestamp. " +
			"A request naming a configuration that cannot be measured (unknown shape, image without valid TDX or SNP metadata) must fail instead of producing placeholder entries. " +
			"Appended families, judged by the same rules: sequences (one request value and one keys context through 3..6 calls with fields edited in place: same image under another configuration, caller scribbling over the previous result, failing call repaired and retried, signing fault then retry under a later timestamp); concurrent (4..8 independent requests, some unmeasurable, measured and signed at once, two rounds); values (8/16/32/64-bit limits of SVN and changelist, commit / SVSM lengths, nil vs empty, UUID spellings, 4..6 shapes, VMSA counts around 255, time zones and timestamp range ends); command (the shipped endorse command over files: SVN side files under both names and in non-canonical protobuf encodings, SVSM measurement files, flag spellings, explicit defaults, flags of a technology that is not added, image behind a symlink / on a pipe; the written endorsement is parsed back); layouts (SEV-SNP metadata with sections of every kind incl. secrets, CPUID and SVSM calling area spanning 1..16 pages, gaps, low/high regions, any order, reset block anywhere; library and command); ids (legal requested values that coincide with another representation's \"not set\": nil / all-ones UUID, the GCE family id spelled out, family == image, non-v4 UUIDs, respelled nil UUID, all-zero SVSM measurement / commit; one call, on a request an earlier call completed in place, cleared again afterwards, through the command's flags; always judged against a copy of the request taken before the call); edges (SEV-SNP metadata sections of every kind at the ends and the sign boundary of the 32-bit address field: ending exactly at 4 GiB, crossing 4 GiB, one page below, starting at 0, ending at / starting at / crossing 2 GiB, 1..2048 pages; a refusal of a section inside the ROM's own range or beyond 4 GiB is counted, not judged); products (the product line over the whole enum of the dependency: Milan, Genoa, Turin, unset, beyond the enum, negative; one call, a call on a request value used for another product line before, the command's --snp_product; only Milan and Genoa must be answered, an answer for Turin must use its 52-bit VMSA GPA, an answer for a value naming no product line must be the launch measurement for one product line throughout). " +
			"non-trivial = distinct (request shape, field group, outcome) cells",
		Assumptions: []string{"snpref (C04) and tdxref (C05) are the independent measurement models; their agreement with the code on accepted images is itself checked by C04/C05",
			"the default family id is the repository's documented GCE constant; a missing image id must come back as a random version-4 UUID",
			"guest-physical address width per AMD product line: Milan 48 bits, Genoa and Turin 52 bits (CPUID Fn8000_0008 EAX[7:0]); the property names no default product line"},
		ShardsQuick: 8, ShardsThor: 16, TimeoutS: 900, TimeoutThor: 3600, Run: run,
	})
}

// productName names the product line of a request; productWidths lists the guest-physical address widths the VMSA
// GPA of its launch can have. Milan: 48. Genoa and Turin: 52 (CPUID Fn8000_0008 EAX[7:0] of families 19h/10h-1Fh and
// 1Ah). Any other value (unset, beyond the enum) names no product line: the property promises no default product,
// so a document produced for it is only required to be the launch measurement of the image for SOME product line,
// the same one in every entry.
func productName(p spb.SevProduct_SevProductName) string {
	switch p {
	case spb.SevProduct_SEV_PRODUCT_MILAN:
		return "Milan"
	case spb.SevProduct_SEV_PRODUCT_GENOA:
		return "Genoa"
	case spb.SevProduct_SEV_PRODUCT_TURIN:
		return "Turin"
	}
	return fmt.Sprintf("no-product-line(%d)", int32(p))
}

func productWidths(p spb.SevProduct_SevProductName) []uint {
	switch p {
	case spb.SevProduct_SEV_PRODUCT_MILAN:
		return []uint{48}
	case spb.SevProduct_SEV_PRODUCT_GENOA, spb.SevProduct_SEV_PRODUCT_TURIN:
		return []uint{52}
	}
	return []uint{48, 52}
}

type judge struct {
	c     *core.Ctx
	i     int
	gname string
	n     int
}

func (j *judge) bad(entry, rule, format string, a ...any) {
	j.n++
	j.c.Violate(core.Violation{Kind: "oracle", Entry: entry, Site: rule, Gen: j.gname, Case: j.i, Detail: fmt.Sprintf(format, a...)})
}

// checkGolden compares every field with the recomputation. entry names the producer.
func (j *judge) checkGolden(entry string, g *epb.VMGoldenMeasurement, ec *endorse.Context, reqImageID string) {
	img := ec.Image
	d := sha512.Sum384(img)
	if !bytes.Equal(g.Digest, d[:]) {
		j.bad(entry, "digest-is-not-sha384-of-image", "digest %x, sha384(image) %x", g.Digest, d)
	}
	if g.ClSpec != ec.ClSpec || !bytes.Equal(g.Commit, ec.Commit) {
		j.bad(entry, "provenance-differs-from-request", "cl %d commit %x, requested %d %x", g.ClSpec, g.Commit, ec.ClSpec, ec.Commit)
	}
	if (g.SevSnp != nil) != (ec.SevSnp != nil) || (g.Tdx != nil) != (ec.Tdx != nil) {
		j.bad(entry, "technology-set-differs-from-request", "snp=%v tdx=%v, requested snp=%v tdx=%v", g.SevSnp != nil, g.Tdx != nil, ec.SevSnp != nil, ec.Tdx != nil)
	}
	if g.SevSnp != nil && ec.SevSnp != nil {
		req := ec.SevSnp
		want := endreq.GCECounts
		if req.LaunchVmsas != 0 {
			want = []uint32{req.LaunchVmsas}
		}
		var got []uint32
		for k := range g.SevSnp.Measurements {
			got = append(got, k)
		}
		sort.Slice(got, func(a, b int) bool { return got[a] < got[b] })
		if fmt.Sprint(got) != fmt.Sprint(want) {
			j.bad(entry, "snp-vmsa-counts-differ-from-request", "table has counts %v, request means %v", got, want)
		}
		parsed, err := snpref.Parse(img)
		if err != nil {
			j.bad(entry, "snp-measured-for-image-the-model-cannot-parse", "%v", err)
		} else if cls := snpref.Classify(parsed.Secs); len(cls) > 0 {
			j.bad(entry, "snp-measured-for-malformed-image", "%v", cls)
		} else {
			prefix := snpref.Prefix(img, parsed.Secs)
			widths := productWidths(req.Product)
			bits := widths[0]
			if len(widths) > 1 && len(got) > 0 {
				// no product line named: the width the first entry was measured with must hold for all entries
				for _, w := range widths {
					if bytes.Equal(g.SevSnp.Measurements[got[0]], snpref.Finish(prefix, parsed.Reset, int(got[0]), w)) {
						bits = w
					}
				}
			}
			seen := map[string]uint32{}
			for _, k := range got {
				m := g.SevSnp.Measurements[k]
				ref := snpref.Finish(prefix, parsed.Reset, int(k), bits)
				if !bytes.Equal(m, ref) {
					j.bad(entry, "snp-measurement-differs-from-recomputation", "count %d (%s, VMSA GPA of %d bits): %x, recomputed %x", k, productName(req.Product), bits, m, ref)
				}
				if bytes.Equal(m, make([]byte, len(m))) {
					j.bad(entry, "placeholder-entry", "SNP measurement for %d VMSAs is all zero / empty", k)
				}
				if prev, dup := seen[string(m)]; dup {
					j.bad(entry, "duplicated-entry", "SNP measurements for %d and %d VMSAs are identical", prev, k)
				}
				seen[string(m)] = k
			}
			j.c.Count("snp-values-compared", len(got))
		}
		if g.SevSnp.Svn != req.Svn {
			j.bad(entry, "snp-svn-differs", "%d vs requested %d", g.SevSnp.Svn, req.Svn)
		}
		if g.SevSnp.Policy != gen.ProdPolicy() {
			j.bad(entry, "snp-policy-differs", "%#x", g.SevSnp.Policy)
		}
		wantFam := req.FamilyID
		if wantFam == "" {
			wantFam = sev.GCEUefiFamilyID
		}
		if fu, err := uuid.Parse(wantFam); err == nil && !bytes.Equal(g.SevSnp.FamilyId, fu[:]) {
			j.bad(entry, "snp-family-id-differs", "%x vs %s", g.SevSnp.FamilyId, wantFam)
		}
		if reqImageID != "" {
			if iu, err := uuid.Parse(reqImageID); err == nil && !bytes.Equal(g.SevSnp.ImageId, iu[:]) {
				j.bad(entry, "snp-image-id-differs", "%x vs %s", g.SevSnp.ImageId, reqImageID)
			}
		} else {
			id := g.SevSnp.ImageId
			if len(id) != 16 || id[6]>>4 != 4 || bytes.Equal(id, make([]byte, 16)) {
				j.bad(entry, "snp-image-id-not-a-random-uuid", "%x", id)
			}
		}
		if !bytes.Equal(g.SevSnp.SvsmMeasurement, ec.SvsmSnpMeasurement) {
			j.bad(entry, "svsm-measurement-differs", "%x vs %x", g.SevSnp.SvsmMeasurement, ec.SvsmSnpMeasurement)
		}
	}
	if g.Tdx != nil && ec.Tdx != nil {
		req := ec.Tdx
		type row struct {
			ram   uint32
			early bool
			mode  tdxref.Mode
			banks []tdxref.Range
			label string
		}
		var want []row
		for _, name := range req.MachineShapes {
			sh := tdxref.ShapeByName(name)
			if sh == nil {
				j.bad(entry, "unknown-shape-measured", "request names shape %q which does not exist, yet a TDX table with %d rows was produced", name, len(g.Tdx.Measurements))
				return
			}
			want = append(want, row{sh.RAMGiB, false, tdxref.ModeLegacy, sh.Banks, name + "/legacy"})
			if req.IncludeEarlyAccept {
				want = append(want, row{sh.RAMGiB, true, tdxref.ModeLegacyEarly, sh.Banks, name + "/legacy-early"})
			}
		}
		want = append(want, row{0, false, tdxref.ModeDefault, nil, "default"})
		if len(g.Tdx.Measurements) != len(want) {
			j.bad(entry, "tdx-rows-differ-from-request", "%d rows, request means %d", len(g.Tdx.Measurements), len(want))
		} else {
			for k, w := range want {
				r := g.Tdx.Measurements[k]
				exp, err := tdxref.Measure(img, w.banks, w.mode)
				if err != nil {
					j.bad(entry, "tdx-measured-for-image-the-model-rejects", "row %d (%s): %v", k, w.label, err)
					break
				}
				if r.RamGib != w.ram || r.EarlyAccept != w.early || !bytes.Equal(r.Mrtd, exp.MRTD[:]) {
					j.bad(entry, "tdx-row-differs-from-recomputation", "row %d (%s): ram_gib=%d early=%v mrtd=%x, recomputed ram_gib=%d early=%v mrtd=%x", k, w.label, r.RamGib, r.EarlyAccept, r.Mrtd, w.ram, w.early, exp.MRTD)
				}
				if bytes.Equal(r.Mrtd, make([]byte, len(r.Mrtd))) {
					j.bad(entry, "placeholder-entry", "TDX row %d is all zero / empty", k)
				}
			}
			j.c.Count("tdx-rows-compared", len(want))
		}
		if g.Tdx.Svn != req.Svn {
			j.bad(entry, "tdx-svn-differs", "%d vs %d", g.Tdx.Svn, req.Svn)
		}
	}
}

func breakTDX(img []byte) []byte {
	o := append([]byte(nil), img...)
	// the TDVF descriptor written by the generator sits at 0x110 ("TDVF" after the 16-byte GUID at 0x100)
	copy(o[0x110:], "XDVF")
	return o
}

func breakSNP(img []byte) []byte {
	o := append([]byte(nil), img...)
	copy(o[0:4], "XSEV") // SEV metadata header signature at the image start
	return o
}

func run(c *core.Ctx) {
	t0 := time.Date(2025, 1, 1, 0, 0, 0, 0, time.UTC)
	dir, _ := os.MkdirTemp("", "verif-c06-")
	defer os.RemoveAll(dir)
	a := authority.New(authority.MemKM, authority.GcscaMem, dir)
	if err := a.Bootstrap(&doubles.FCtl{}, authority.Opts{}, authority.DefaultBootstrap(t0)); err != nil {
		panic(err)
	}
	st := a.Observe()
	bundle, _ := st.CA.CABundle(context.Background(), st.Primary)
	n := c.N(480, 4000)
	okGolden, okSigned, mustFail := 0, 0, 0
	for i := 0; i < n; i++ {
		if !c.Mine(i) {
			continue
		}
		r := c.Rand(i)
		maxImg := 256 << 10
		if r.IntN(20) == 0 {
			maxImg = 2 << 20
		}
		ec := endreq.Random(r, endreq.Opts{MaxImage: maxImg, AllowNoTDX: true, CheapTDX: !c.Thorough() || maxImg > 256<<10}, i)
		kind := "well-formed"
		switch r.IntN(10) {
		case 0:
			if ec.Tdx != nil {
				ec.Tdx.MachineShapes = append(ec.Tdx.MachineShapes, []string{"bogus-shape", "c3-standard-5", "", "C3-STANDARD-4"}[r.IntN(4)])
				r.Shuffle(len(ec.Tdx.MachineShapes), func(x, y int) {
					ec.Tdx.MachineShapes[x], ec.Tdx.MachineShapes[y] = ec.Tdx.MachineShapes[y], ec.Tdx.MachineShapes[x]
				})
				kind = "unknown-shape"
			}
		case 1:
			if ec.Tdx != nil {
				ec.Image = breakTDX(ec.Image)
				kind = "image-without-valid-tdx-metadata"
			}
		case 2:
			if ec.SevSnp != nil {
				ec.Image = breakSNP(ec.Image)
				kind = "image-without-valid-snp-metadata"
			}
		case 3, 4:
			if ec.Tdx != nil {
				// an image whose TDX measurement fails part-way: a temporary-memory section flagged for extension has no
				// contents to extend, which the measurement only notices after the earlier sections were absorbed
				spec := fw.Random(r, 256<<10)
				spec.Tdx.Sections = append(spec.Tdx.Sections, &abi.TDXMetadataSection{MemoryBase: 0x830000, MemorySize: 0x2000, SectionType: abi.TDXMetadataSectionTypeTempMem, Attributes: 1})
				spec.Tdx.Header.SectionCount++
				spec.Tdx.Header.Length += 32
				if img, berr := fw.Build(r, spec); berr == nil {
					ec.Image = img
					kind = "tdx-measurement-fails-part-way"
				}
			}
		}
		reqImageID := ""
		vm := uint32(0)
		if ec.SevSnp != nil {
			reqImageID = ec.SevSnp.ImageID
			vm = ec.SevSnp.LaunchVmsas
		}
		nshape, early := 0, false
		if ec.Tdx != nil {
			nshape, early = len(ec.Tdx.MachineShapes), ec.Tdx.IncludeEarlyAccept
		}
		gname := fmt.Sprintf("request#%d %s image=%dKiB snp=%v(vmsas=%d) tdx=%v(shapes=%d early=%v) svsm=%v", i, kind, len(ec.Image)>>10, ec.SevSnp != nil, vm, ec.Tdx != nil, nshape, early, len(ec.SvsmSnpMeasurement) > 0)
		shape := fmt.Sprintf("%s|snp=%v|explicit=%v|tdx=%v|shapes=%d|early=%v", kind, ec.SevSnp != nil, vm != 0, ec.Tdx != nil, min(nshape, 3), early)
		c.Begin(i, gname, "endorse.GoldenMeasurement", nil)
		j := &judge{c: c, i: i, gname: gname}
		imgBefore := append([]byte(nil), ec.Image...)
		var g *epb.VMGoldenMeasurement
		var err error
		ctx := endorse.NewContext(context.Background(), ec)
		m := c.Guard(i, "endorse.GoldenMeasurement", gname, core.Budget{PanicNotJudged: true}, func() { g, err = endorse.GoldenMeasurement(ctx) })
		if m.Panicked {
			c.End(i)
			continue
		}
		if !bytes.Equal(imgBefore, ec.Image) {
			j.bad("endorse.GoldenMeasurement", "image-bytes-changed", "the request's image was modified")
		}
		if kind != "well-formed" {
			mustFail++
			if err == nil {
				// the configuration cannot be measured: whatever came back contains entries for it
				switch kind {
				case "unknown-shape":
					j.bad("endorse.GoldenMeasurement", "unknown-shape-measured", "shapes %v: no error, %d TDX rows: %v", ec.Tdx.MachineShapes, len(g.GetTdx().GetMeasurements()), rows(g))
				default:
					j.bad("endorse.GoldenMeasurement", "unmeasurable-image-measured", "%s: no error (snp entries %d, tdx rows %d)", kind, len(g.GetSevSnp().GetMeasurements()), len(g.GetTdx().GetMeasurements()))
				}
				c.Cell("%s|ACCEPTED", shape)
			} else {
				c.Cell("%s|refused", shape)
			}
			c.End(i)
			continue
		}
		if err != nil {
			j.bad("endorse.GoldenMeasurement", "well-formed-request-refused", "%v", err)
			c.End(i)
			continue
		}
		j.checkGolden("endorse.GoldenMeasurement", g, ec, reqImageID)
		if j.n == 0 {
			okGolden++
		}
		// the SAME request value serves the next image (a release loop that swaps Image, or refills its buffer):
		// whatever the request object remembers from the first call, the result is about the bytes supplied now
		if j.n == 0 && r.IntN(3) == 0 {
			next := fw.Image(r, 256<<10)
			how := "image-replaced"
			if len(next) == len(ec.Image) && r.IntN(2) == 0 {
				copy(ec.Image, next)
				how = "image-buffer-refilled"
			} else {
				ec.Image = next
			}
			var g2 *epb.VMGoldenMeasurement
			m2 := c.Guard(i, "endorse.GoldenMeasurement/reused-request", gname, core.Budget{PanicNotJudged: true}, func() { g2, err = endorse.GoldenMeasurement(ctx) })
			if m2.Panicked {
				c.End(i)
				continue
			}
			{
				if err != nil {
					j.bad("endorse.GoldenMeasurement/reused-request", "well-formed-request-refused", "%s: %v", how, err)
				} else {
					j.checkGolden("endorse.GoldenMeasurement/reused-request", g2, ec, reqImageID)
					g = g2
					c.Count("requests-reused-for-a-second-image/"+how, 1)
					shape += "|reused"
				}
			}
			if j.n != 0 {
				c.End(i)
				continue
			}
		}
		// the signed payload
		var e *epb.VMLaunchEndorsement
		kctx, kerr := a.Context(&doubles.FCtl{}, authority.Opts{})
		if kerr != nil {
			panic(kerr)
		}
		sctx := endorse.NewContext(kctx, ec)
		doc := proto.Clone(g).(*epb.VMGoldenMeasurement)
		c.Guard(i, "endorse.SignDoc", gname, core.Budget{PanicNotJudged: true}, func() { e, err = endorse.SignDoc(sctx, doc) })
		if err != nil || e == nil {
			j.bad("endorse.SignDoc", "signing-failed", "%v", err)
			c.End(i)
			continue
		}
		p := &epb.VMGoldenMeasurement{}
		if uerr := proto.Unmarshal(e.SerializedUefiGolden, p); uerr != nil {
			j.bad("endorse.SignDoc", "payload-does-not-parse", "%v", uerr)
			c.End(i)
			continue
		}
		before := j.n
		j.checkGolden("endorse.SignDoc", p, ec, uuidString(g.GetSevSnp().GetImageId()))
		if !bytes.Equal(p.Cert, st.PrimaryCert.Raw) {
			j.bad("endorse.SignDoc", "certificate-is-not-the-primary-signing-certificate", "%d bytes", len(p.Cert))
		}
		if !bytes.Equal(p.CaBundle, bundle) {
			j.bad("endorse.SignDoc", "ca-bundle-differs", "%d bytes", len(p.CaBundle))
		}
		if ts := p.Timestamp.AsTime(); !ts.Equal(ec.Timestamp) {
			j.bad("endorse.SignDoc", "timestamp-differs-from-request", "%v vs %v", ts, ec.Timestamp)
		}
		// the signed message is the computed message plus the signing fields
		q := proto.Clone(p).(*epb.VMGoldenMeasurement)
		q.Cert, q.CaBundle, q.Timestamp = nil, nil, nil
		if !proto.Equal(q, g) {
			j.bad("endorse.SignDoc", "signed-payload-differs-from-computed-message", "payload (without cert/bundle/timestamp) != GoldenMeasurement result")
		}
		// signing the SAME document again for a later request (a retry, a second key) must carry that request's
		// timestamp and signing fields: SignDoc fills them in right before marshalling, whatever the document held
		ec2 := *ec
		ec2.Timestamp = ec.Timestamp.Add(time.Duration(1+r.IntN(100000)) * time.Second)
		kctx2, _ := a.Context(&doubles.FCtl{}, authority.Opts{})
		var e2 *epb.VMLaunchEndorsement
		c.Guard(i, "endorse.SignDoc", gname, core.Budget{PanicNotJudged: true}, func() { e2, err = endorse.SignDoc(endorse.NewContext(kctx2, &ec2), doc) })
		if err != nil || e2 == nil {
			j.bad("endorse.SignDoc", "re-signing-failed", "%v", err)
		} else {
			p2 := &epb.VMGoldenMeasurement{}
			proto.Unmarshal(e2.SerializedUefiGolden, p2)
			if ts := p2.Timestamp.AsTime(); !ts.Equal(ec2.Timestamp) {
				j.bad("endorse.SignDoc", "timestamp-differs-from-request", "document signed a second time for a request at %v carries timestamp %v", ec2.Timestamp, ts)
			}
			if !bytes.Equal(p2.Cert, st.PrimaryCert.Raw) || !bytes.Equal(p2.CaBundle, bundle) {
				j.bad("endorse.SignDoc", "certificate-is-not-the-primary-signing-certificate", "on re-signing")
			}
			c.Count("documents-signed-twice", 1)
		}
		if j.n == before {
			okSigned++
		}
		c.Cell("%s|golden-ok=%v|signed-ok=%v", shape, before == 0, j.n == before)
		if i%23 == 0 {
			c.Sample(map[string]any{"request": gname, "snp_counts": len(g.GetSevSnp().GetMeasurements()), "tdx_rows": rows(g)})
		}
		c.End(i)
	}
	runExtended(c, n, a, st, bundle)
	c.Count("golden-measurements-equal-to-recomputation", okGolden)
	c.Count("signed-payloads-equal-to-recomputation", okSigned)
	c.Count("requests-that-must-fail", mustFail)
	c.Floor("some-golden-measurement-recomputed", okGolden > 0)
	c.Floor("some-signed-payload-recomputed", okSigned > 0)
	c.Floor("some-unmeasurable-request-seen", mustFail > 0)
}

func rows(g *epb.VMGoldenMeasurement) []string {
	var o []string
	for _, r := range g.GetTdx().GetMeasurements() {
		o = append(o, fmt.Sprintf("ram=%d early=%v mrtd=%x…", r.RamGib, r.EarlyAccept, r.Mrtd[:min(6, len(r.Mrtd))]))
	}
	return o
}

func uuidString(b []byte) string {
	u, err := uuid.FromBytes(b)
	if err != nil {
		return ""
	}
	return u.String()
}

var _ = tdx.MRTD
