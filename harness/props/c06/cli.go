package c06

import (
	"context"
	"encoding/hex"
	"fmt"
	"io"
	"math/rand/v2"
	"os"
	"path/filepath"
	"strings"
	"syscall"
	"time"

	epb "github.com/google/gce-tcb-verifier/proto/endorsement"
	"github.com/google/gce-tcb-verifier/sev"
	"github.com/google/gce-tcb-verifier/tdx"
	spb "github.com/google/go-sev-guest/proto/sevsnp"
	"google.golang.org/protobuf/proto"

	"verifharness/authority"
	"verifharness/core"
	"verifharness/doubles"
	"verifharness/gen/endreq"
)

// cliWorld is the on-disk authority the shipped command line works on (localkm key directory + gcsca on storage/local).
type cliWorld struct {
	dir    string
	a      *authority.Assembly
	st     *authority.State
	bundle []byte
}

func (x *ext) world() *cliWorld {
	if x.cli != nil {
		return x.cli
	}
	dir, err := os.MkdirTemp("", "verif-c06-cli-")
	if err != nil {
		panic(err)
	}
	a := authority.New(authority.LocalKM, authority.GcscaDisk, dir)
	if err := a.Bootstrap(&doubles.FCtl{}, authority.Opts{}, authority.DefaultBootstrap(time.Date(2025, 1, 1, 0, 0, 0, 0, time.UTC))); err != nil {
		panic(err)
	}
	st := a.Observe()
	if st.Err != "" || st.PrimaryCert == nil {
		panic("c06: command-line authority not usable: " + st.Err)
	}
	bundle, _ := st.CA.CABundle(context.Background(), st.Primary)
	x.cli = &cliWorld{dir: dir, a: a, st: st, bundle: bundle}
	return x.cli
}

func (x *ext) closeCLI() {
	if x.cli != nil {
		os.RemoveAll(x.cli.dir)
	}
}

func uvarint(v uint64, pad int) []byte {
	var b []byte
	for v >= 0x80 {
		b = append(b, byte(v)|0x80)
		v >>= 7
	}
	b = append(b, byte(v))
	for ; pad > 0 && len(b) < 10; pad-- { // non-minimal: continuation bits and zero groups
		b[len(b)-1] |= 0x80
		b = append(b, 0)
	}
	return b
}

// scrtmFile encodes SCRTMVersion{version: v} (field 1, varint) in one of several encodings every protobuf parser
// must read as the same message.
func scrtmFile(r *rand.Rand, v uint32) ([]byte, string) {
	canon := append([]byte{0x08}, uvarint(uint64(v), 0)...)
	switch r.IntN(6) {
	case 0:
		if v == 0 {
			return []byte{}, "canonical(empty)"
		}
		return canon, "canonical"
	case 1:
		return canon, "explicit-field" // for v == 0 an explicitly encoded default
	case 2:
		return append([]byte{0x08}, uvarint(uint64(v), 1+r.IntN(4))...), "non-minimal-varint"
	case 3:
		return append(append([]byte{0x08}, uvarint(uint64(v)+1+uint64(r.IntN(100)), 0)...), canon...), "field-repeated-last-wins"
	case 4:
		return append([]byte{0x10, byte(r.IntN(128)), 0x7a, 0x03, 'a', 'b', 'c'}, canon...), "unknown-fields-before"
	default:
		return append(append([]byte{}, canon...), 0x10, byte(r.IntN(128))), "unknown-field-after"
	}
}

type argv struct {
	r *rand.Rand
	a []string
}

func (v *argv) kv(name, val string) {
	if v.r.IntN(2) == 0 {
		v.a = append(v.a, "--"+name+"="+val)
	} else {
		v.a = append(v.a, "--"+name, val)
	}
}

func (v *argv) on(name string) {
	if v.r.IntN(2) == 0 {
		v.a = append(v.a, "--"+name)
	} else {
		v.a = append(v.a, "--"+name+"=true")
	}
}

func hexSpell(r *rand.Rand, b []byte) string {
	s := hex.EncodeToString(b)
	switch r.IntN(3) {
	case 0:
		return strings.ToUpper(s)
	case 1:
		o := []byte(s)
		for i := range o {
			if r.IntN(2) == 0 {
				o[i] = byte(strings.ToUpper(string(o[i]))[0])
			}
		}
		return string(o)
	}
	return s
}

// command is one case of the "command" family: the intent (an endorse.Context as a library caller would fill it) is
// rendered onto files and flags of the shipped `endorse` command; the endorsement file the command writes is parsed
// and its payload compared with the intent field by field.
func (x *ext) command(i, k int) {
	c := x.c
	r := c.Rand(i)
	w := x.world()
	intent := endreq.Random(r, endreq.Opts{MaxImage: 128 << 10, AllowNoTDX: true, CheapTDX: true}, i)
	var tags []string
	tag := func(format string, a ...any) { tags = append(tags, fmt.Sprintf(format, a...)) }

	// ---- files ----
	dirName := fmt.Sprintf("img-%d", i)
	fdDir := k%8 == 5
	if fdDir {
		dirName = fmt.Sprintf("release.fd.d-%d", i)
	}
	imgDir := filepath.Join(w.dir, dirName)
	os.MkdirAll(imgDir, 0o755)
	defer os.RemoveAll(imgDir)
	base := fmt.Sprintf("ovmf_x64_%d", i)
	uefi := filepath.Join(imgDir, base+".fd")
	kind := "regular"
	switch k % 8 {
	case 3:
		kind = "symlink"
		blob := filepath.Join(imgDir, "blob.bin")
		os.WriteFile(blob, intent.Image, 0o644)
		if err := os.Symlink("blob.bin", uefi); err != nil {
			panic(err)
		}
	case 6:
		kind = "pipe"
		if err := syscall.Mkfifo(uefi, 0o600); err != nil {
			panic(err)
		}
	default:
		os.WriteFile(uefi, intent.Image, 0o644)
	}
	tag("image=%s", kind)
	// SVN side file(s): the request's SVN on the command line is whatever the build left next to the image
	svn := uint32(0)
	sideOld := filepath.Join(imgDir, base+"_scrtm_ver.pb")
	sideNew := uefi + ".scrtm.pb"
	sideMode := []string{"none", "name_scrtm_ver.pb", "name.fd.scrtm.pb", "both-agreeing", "first-is-a-directory", "name_scrtm_ver.pb", "name.fd.scrtm.pb"}[r.IntN(7)]
	if fdDir {
		sideMode = "name_scrtm_ver.pb"
	}
	if sideMode != "none" {
		svn = svnEdges[r.IntN(9)] // up to 2^31-1: the field is a 32-bit enum
		if r.IntN(3) == 0 {
			svn = uint32(r.IntN(300))
		}
		b, enc := scrtmFile(r, svn)
		switch sideMode {
		case "name_scrtm_ver.pb":
			os.WriteFile(sideOld, b, 0o644)
		case "name.fd.scrtm.pb":
			os.WriteFile(sideNew, b, 0o644)
		case "both-agreeing":
			b2, enc2 := scrtmFile(r, svn)
			os.WriteFile(sideOld, b, 0o644)
			os.WriteFile(sideNew, b2, 0o644)
			enc += "+" + enc2
		case "first-is-a-directory":
			os.Mkdir(sideOld, 0o755)
			os.WriteFile(sideNew, b, 0o644)
		}
		tag("svn=%d from %s (%s)", svn, sideMode, enc)
	} else {
		tag("svn=none")
	}
	if intent.SevSnp != nil {
		intent.SevSnp.Svn = svn
	}
	if intent.Tdx != nil {
		intent.Tdx.Svn = svn
	}

	// ---- flags ----
	v := &argv{r: r}
	v.a = append(v.a, "endorse")
	v.kv("uefi", uefi)
	v.kv("out_root", w.a.OutRoot())
	outDir := fmt.Sprintf("case-%d", i)
	v.kv("out_dir", outDir)
	v.kv("candidate_name", intent.CandidateName)
	switch r.IntN(3) {
	case 0:
		v.kv("timestamp", intent.Timestamp.UTC().Format(time.RFC3339Nano))
	case 1:
		v.kv("timestamp", intent.Timestamp.In(time.FixedZone("", 5*3600+1800)).Format(time.RFC3339Nano))
		tag("timestamp+05:30")
	default:
		v.kv("timestamp", intent.Timestamp.In(time.FixedZone("", -8*3600)).Format(time.RFC3339Nano))
		tag("timestamp-08:00")
	}
	if intent.ClSpec != 0 {
		v.kv("clspec", fmt.Sprint(intent.ClSpec))
	} else if r.IntN(2) == 0 {
		v.kv("clspec", "0")
		tag("explicit-clspec-0")
	}
	if len(intent.Commit) != 0 {
		v.kv("commit", hexSpell(r, intent.Commit))
	} else if r.IntN(2) == 0 {
		v.a = append(v.a, "--commit=")
		tag("explicit-empty-commit")
	}
	snpFlags := func(req *sev.SnpEndorsementRequest, svsm []byte) {
		if req.LaunchVmsas != 0 || r.IntN(2) == 0 {
			v.kv("snp_launch_vmsas", fmt.Sprint(req.LaunchVmsas))
		}
		if req.Product == spb.SevProduct_SEV_PRODUCT_GENOA {
			v.kv("snp_product", "Genoa")
		} else if r.IntN(2) == 0 {
			v.kv("snp_product", "Milan")
		}
		if req.FamilyID != "" {
			v.kv("snp_family_id", req.FamilyID)
		}
		if req.ImageID != "" {
			v.kv("snp_image_id", req.ImageID)
		}
		if len(svsm) > 0 {
			mp := filepath.Join(imgDir, "svsm-measurement.txt")
			pre := []string{"", "", "\n", "  ", "\t"}[r.IntN(5)]
			post := []string{"", "\n", "\r\n", "  \n", "\n\n"}[r.IntN(5)]
			os.WriteFile(mp, []byte(pre+hexSpell(r, svsm)+post), 0o644)
			v.kv("svsm_snp_measurement_path", mp)
			tag("svsm-file %q…%q", pre, post)
		}
	}
	tdxFlags := func(req *tdx.EndorsementRequest) {
		if len(req.MachineShapes) > 0 {
			if r.IntN(2) == 0 {
				v.kv("tdx_machine_shapes", strings.Join(req.MachineShapes, ","))
			} else {
				for _, s := range req.MachineShapes {
					v.kv("tdx_machine_shapes", s)
				}
				tag("shapes-flag-repeated")
			}
		}
		if req.IncludeEarlyAccept {
			v.on("tdx_include_early_accept")
		} else if r.IntN(2) == 0 {
			v.a = append(v.a, "--tdx_include_early_accept=false")
		}
	}
	if intent.SevSnp != nil {
		v.on("add_snp")
		snpFlags(intent.SevSnp, intent.SvsmSnpMeasurement)
	} else if r.IntN(2) == 0 {
		// flags of a technology that is not added: their values must not reach the document
		if r.IntN(2) == 0 {
			v.a = append(v.a, "--add_snp=false")
		}
		snpFlags(randSnp(r), randBytes(r, 48))
		tag("snp-flags-without-add_snp")
	}
	if intent.Tdx != nil {
		v.on("add_tdx")
		tdxFlags(intent.Tdx)
	} else if r.IntN(2) == 0 {
		if r.IntN(2) == 0 {
			v.a = append(v.a, "--add_tdx=false")
		}
		tdxFlags(&tdx.EndorsementRequest{IncludeEarlyAccept: r.IntN(2) == 0, MachineShapes: randShapes(r, 1+r.IntN(2))})
		tag("tdx-flags-without-add_tdx")
	}
	gname := fmt.Sprintf("command#%d %s [%s]", i, describe(intent), strings.Join(tags, "; "))
	const entry = "cmd endorse"
	c.Begin(i, gname, entry, nil)
	defer c.End(i)
	defer os.RemoveAll(filepath.Join(w.a.OutRoot(), outDir))

	var cerr error
	var writerDone chan struct{}
	if kind == "pipe" {
		writerDone = make(chan struct{})
		go func() {
			defer close(writerDone)
			f, err := os.OpenFile(uefi, os.O_WRONLY, 0)
			if err != nil {
				return
			}
			f.Write(intent.Image)
			f.Close()
		}()
	}
	m := c.Guard(i, entry, gname, core.Budget{PanicNotJudged: true}, func() { cerr = w.a.CLI(v.a...) })
	if writerDone != nil {
		select {
		case <-writerDone:
		default:
			// the command never opened (or never drained) the pipe: let the writer go
			if rf, err := os.OpenFile(uefi, os.O_RDONLY|syscall.O_NONBLOCK, 0); err == nil {
				io.Copy(io.Discard, rf)
				rf.Close()
			}
			<-writerDone
		}
	}
	if m.Panicked {
		return
	}
	if cerr != nil {
		// a refused command signs nothing: counted, not judged (the floors below demand that documents were compared)
		c.Count("command/refused-not-judged", 1)
		if x.cliRefused++; x.cliRefused <= 3 {
			c.Note("command refused (not judged): %s: %v", strings.Join(tags, "; "), strings.ReplaceAll(cerr.Error(), w.dir, "<dir>"))
		}
		c.Cell("command|%s|side=%s|refused", kind, sideMode)
		return
	}
	raw, rerr := os.ReadFile(filepath.Join(w.a.OutRoot(), outDir, intent.CandidateName+".binarypb"))
	if rerr != nil {
		c.Count("command/no-endorsement-file-not-judged", 1)
		return
	}
	e := &epb.VMLaunchEndorsement{}
	p := &epb.VMGoldenMeasurement{}
	j := &judge{c: c, i: i, gname: gname}
	if err := proto.Unmarshal(raw, e); err != nil {
		j.bad(entry, "payload-does-not-parse", "endorsement file: %v", err)
		return
	}
	if err := proto.Unmarshal(e.SerializedUefiGolden, p); err != nil {
		j.bad(entry, "payload-does-not-parse", "%v", err)
		return
	}
	reqImageID := ""
	if intent.SevSnp != nil {
		reqImageID = intent.SevSnp.ImageID
	}
	svnWrong := false
	if fdDir && !judgeSideFileUnderFdDirectory {
		// see judgeSideFileUnderFdDirectory: compare everything but the SVN, report the SVN as an observation
		for _, got := range []*uint32{svnOf(p.GetSevSnp()), tdxSvnOf(p.GetTdx())} {
			if got != nil && *got != svn {
				svnWrong = true
				*got = svn
			}
		}
		if svnWrong {
			c.Count("observed-not-judged/side-file-under-a-directory-with-.fd-in-its-name-ignored", 1)
			c.Note("observed, not judged: --uefi <dir>/release.fd.d-N/ovmf_x64_N.fd with side file <dir>/release.fd.d-N/ovmf_x64_N_scrtm_ver.pb (a version other than 0): the signed SVN is 0")
		}
	}
	j.checkGolden(entry, p, intent, reqImageID)
	if string(p.Cert) != string(w.st.PrimaryCert.Raw) {
		j.bad(entry, "certificate-is-not-the-primary-signing-certificate", "%d bytes", len(p.Cert))
	}
	if string(p.CaBundle) != string(w.bundle) {
		j.bad(entry, "ca-bundle-differs", "%d bytes", len(p.CaBundle))
	}
	x.checkTimestamp(j, entry, p, intent.Timestamp)
	if j.n == 0 {
		x.cliCompared++
		if sideMode != "none" && !svnWrong {
			x.cliSideFile++
		}
		if kind != "regular" {
			x.cliOddFile++
		}
		c.Count("command/image-file/"+kind, 1)
		c.Count("command/side-file/"+sideMode, 1)
	}
	c.Cell("command|%s|side=%s|snp=%v|tdx=%v|ok=%v", kind, sideMode, intent.SevSnp != nil, intent.Tdx != nil, j.n == 0)
	for _, t := range tags {
		if !strings.HasPrefix(t, "svn=") && !strings.HasPrefix(t, "svsm-file") && !strings.HasPrefix(t, "image=") {
			c.Cell("command|variant|%s|ok=%v", t, j.n == 0)
		}
	}
}

func svnOf(s *epb.VMSevSnp) *uint32 {
	if s == nil {
		return nil
	}
	return &s.Svn
}

func tdxSvnOf(t *epb.VMTdx) *uint32 {
	if t == nil {
		return nil
	}
	return &t.Svn
}
