package c06

import (
	"bytes"
	"context"
	"fmt"
	"sync"
	"time"

	"github.com/google/gce-tcb-verifier/endorse"
	epb "github.com/google/gce-tcb-verifier/proto/endorsement"
	spb "github.com/google/go-sev-guest/proto/sevsnp"
	"google.golang.org/protobuf/proto"

	"verifharness/authority"
	"verifharness/doubles"
	"verifharness/gen/endreq"
	"verifharness/gen/fw"
)

const concRounds = 2

// concResult is what one goroutine recorded for one round; it is judged by the case's own goroutine after the join.
type concResult struct {
	req        *endorse.Context // the request as it stood for this round (deep copy)
	reqImageID string
	g          *epb.VMGoldenMeasurement // as returned, before signing
	gerr       error
	e          *epb.VMLaunchEndorsement
	eerr       error
	ran        bool
}

type concSlot struct {
	ec       *endorse.Context
	kind     string
	kctx     context.Context
	res      [concRounds]concResult
	panicked string
}

// concurrent is one case of the "concurrent" family: independent requests, each owned by one goroutine, measured and
// signed at the same time. No request value is shared between goroutines (the library completes a request's IDs in
// place); image BYTES may be shared, they are input only.
func (x *ext) concurrent(i int) {
	c := x.c
	r := c.Rand(i)
	k := 4 + r.IntN(5)
	shared := fw.Image(r, 128<<10)
	sharedBefore := append([]byte(nil), shared...)
	slots := make([]*concSlot, k)
	nfail := 0
	for s := range slots {
		ec := endreq.Random(r, endreq.Opts{MaxImage: 128 << 10, AllowNoTDX: true, CheapTDX: true}, i*16+s)
		sl := &concSlot{ec: ec, kind: "well-formed"}
		if r.IntN(2) == 0 {
			ec.Image = shared // the same build endorsed under several configurations at once
			sl.kind = "well-formed/shared-image"
		}
		if ec.Tdx != nil {
			switch r.IntN(8) {
			case 0:
				ec.Tdx.MachineShapes = append(ec.Tdx.MachineShapes, bogusShapes[r.IntN(len(bogusShapes))])
				sl.kind = "unknown-shape"
			case 1:
				if img := partWayImage(r, 128<<10); img != nil {
					ec.Image = img
					sl.kind = "tdx-measurement-fails-part-way"
				}
			case 2:
				ec.Image = breakTDX(ec.Image)
				sl.kind = "image-without-valid-tdx-metadata"
			}
		}
		if sl.kind[0] != 'w' {
			nfail++
		}
		kctx, err := x.a.Context(&doubles.FCtl{}, authority.Opts{})
		if err != nil {
			panic(err)
		}
		sl.kctx = kctx
		slots[s] = sl
	}
	gname := fmt.Sprintf("concurrent#%d: %d requests at once (%d of them unmeasurable)", i, k, nfail)
	c.Begin(i, gname, "endorse.GoldenMeasurement/concurrent", nil)
	defer c.End(i)
	// second-round changes are drawn here, on the case's goroutine, so that the PRNG stream stays deterministic
	type change struct {
		flipProduct, toggleEarly, dropCount bool
		dt                                  time.Duration
	}
	changes := make([]change, k)
	for s := range changes {
		changes[s] = change{r.IntN(2) == 0, r.IntN(2) == 0, r.IntN(2) == 0, time.Duration(1+r.IntN(100000)) * time.Second}
	}
	start := make(chan struct{})
	var wg sync.WaitGroup
	for s, sl := range slots {
		wg.Add(1)
		go func(s int, sl *concSlot) {
			defer wg.Done()
			defer func() {
				if p := recover(); p != nil {
					sl.panicked = fmt.Sprint(p)
				}
			}()
			ctx := endorse.NewContext(sl.kctx, sl.ec)
			<-start
			for round := 0; round < concRounds; round++ {
				res := &sl.res[round]
				if round > 0 {
					ch := changes[s]
					if sn := sl.ec.SevSnp; sn != nil {
						if ch.flipProduct {
							if sn.Product == spb.SevProduct_SEV_PRODUCT_GENOA {
								sn.Product = spb.SevProduct_SEV_PRODUCT_MILAN
							} else {
								sn.Product = spb.SevProduct_SEV_PRODUCT_GENOA
							}
						}
						if ch.dropCount {
							sn.LaunchVmsas = 0
						}
					}
					if td := sl.ec.Tdx; td != nil && ch.toggleEarly {
						td.IncludeEarlyAccept = !td.IncludeEarlyAccept
					}
					sl.ec.Timestamp = sl.ec.Timestamp.Add(ch.dt)
				}
				if sl.ec.SevSnp != nil {
					res.reqImageID = sl.ec.SevSnp.ImageID
				}
				g, err := endorse.GoldenMeasurement(ctx)
				res.req = cloneRequest(sl.ec)
				res.gerr, res.ran = err, true
				if err != nil {
					continue
				}
				res.g = proto.Clone(g).(*epb.VMGoldenMeasurement)
				res.e, res.eerr = endorse.SignDoc(ctx, g)
			}
		}(s, sl)
	}
	close(start)
	wg.Wait()
	c.Eval(2 * k * concRounds)
	if !bytes.Equal(shared, sharedBefore) {
		c.Oracle(i, "endorse.GoldenMeasurement/concurrent", "image-bytes-changed", gname, "the image shared by several requests was modified")
	}
	for s, sl := range slots {
		if sl.panicked != "" {
			c.Count("panic-observed-not-judged-here/concurrent", 1)
			continue
		}
		for round := range sl.res {
			res := &sl.res[round]
			if !res.ran {
				continue
			}
			j := &judge{c: c, i: i, gname: fmt.Sprintf("%s — request %d (%s) round %d: %s", gname, s, sl.kind, round, describe(res.req))}
			const entry, sentry = "endorse.GoldenMeasurement/concurrent", "endorse.SignDoc/concurrent"
			x.concCalls++
			if sl.kind[0] != 'w' {
				x.concMustFail++
				if res.gerr == nil {
					if sl.kind == "unknown-shape" {
						j.bad(entry, "unknown-shape-measured", "shapes %v: no error, TDX rows: %v", res.req.Tdx.MachineShapes, rows(res.g))
					} else {
						j.bad(entry, "unmeasurable-image-measured", "%s: no error", sl.kind)
					}
				} else {
					c.Cell("concurrent|%s|refused", sl.kind)
				}
				continue
			}
			if res.gerr != nil {
				j.bad(entry, "well-formed-request-refused", "%v", res.gerr)
				continue
			}
			j.checkGolden(entry, res.g, res.req, res.reqImageID)
			if j.n == 0 {
				x.checkSigned(j, sentry, res.e, res.eerr, res.g, res.req.Timestamp)
			}
			c.Cell("concurrent|%s|round=%d|snp=%v|tdx=%v|ok=%v", sl.kind, round, res.req.SevSnp != nil, res.req.Tdx != nil, j.n == 0)
		}
	}
}
