package c06

// Two families appended after the "ids" family (fifth round of seeded changes). Again each adds a dimension every
// earlier family held constant:
//
//	edges     SEV-SNP metadata sections at the ends of the 32-bit address field the image stores them in, and at its
//	          sign boundary: a section (of every kind, 1..2048 pages) that ends exactly at 4 GiB, that crosses 4 GiB
//	          (address + length does not fit 32 bits), that ends one page below, that starts at address 0, that ends
//	          at / starts at / crosses 2 GiB. (fw.Random and the "layouts" family keep every section inside
//	          0x800000.. and 0xff000000..0xff200000, as the repository's own fixtures do, so arithmetic on the 32-bit
//	          fields never came near a carry.) Library and command.
//	products  the AMD product line of the request over the WHOLE enum of the dependency, not only the two lines the
//	          tool's width table knows: Milan, Genoa, Turin (which the --snp_product flag parser accepts), unset, values
//	          beyond the enum and negative ones. One call; a second call on the same request value after a call for
//	          another product line (refused or not); the shipped command with --snp_product.
//
// Both are judged by judge.checkGolden (rule snp-measurement-differs-from-recomputation and friends) against a copy of
// the request taken before the call. What a refusal means:
//
//   - edges: a section that reaches into the guest-physical range of the ROM itself ([4 GiB - image size, 4 GiB)) or
//     beyond 4 GiB is not among the malformed classes C04 lists, but the property does not promise such an image is
//     accepted either: a refusal is counted, not judged; whatever IS signed must be the 64-bit recomputation. Sections
//     at 0 and around 2 GiB are ordinary well-formed layouts (refusal judged, as in "layouts").
//   - products: only Milan and Genoa must be answered. For Turin a refusal is counted, not judged; an answer must be
//     the launch measurement with Turin's 52-bit VMSA GPA. A value that names no product line has no launch
//     measurement of its own; the property names no default product, so an answer is only required to be the launch
//     measurement of the image for some product line, the same in every entry (acceptances are reported as a note).

import (
	"fmt"
	"math/rand/v2"

	"github.com/google/gce-tcb-verifier/ovmf/abi"
	spb "github.com/google/go-sev-guest/proto/sevsnp"

	"verifharness/gen/endreq"
	"verifharness/gen/fw"
	"verifharness/props/c04/snpref"
)

type r5 struct {
	edgeCompared, edgeAt4G, edgeCross4G, edgeAt0, edgeAt2G, edgeCLI, edgeRefusedLenient int
	prodCompared, prodMilan, prodGenoa, prodSecondCall, prodCLI                       int
	turinAsked, turinAnswered, noLineAsked, noLineAnswered                            int
	malformedRefused, malformedAnswered                                               int
}

func (x *ext) runRound5(i int) {
	c := x.c
	nEdges, nProducts := c.N(64, 512), c.N(54, 432)
	for k := 0; k < nEdges; k, i = k+1, i+1 {
		if c.Mine(i) {
			x.edges(i, k)
		}
	}
	for k := 0; k < nProducts; k, i = k+1, i+1 {
		if c.Mine(i) {
			x.products(i, k)
		}
	}
	nMalformed := c.N(24, 192)
	for k := 0; k < nMalformed; k, i = k+1, i+1 {
		if c.Mine(i) {
			x.malformed(i, k)
		}
	}
	q := &x.r5
	c.Count("malformed/requests-refused", q.malformedRefused)
	c.Count("malformed/requests-answered", q.malformedAnswered)
	c.Floor("malformed-snp-metadata-requests-made", q.malformedRefused+q.malformedAnswered > 0)
	c.Count("edges/documents-compared", q.edgeCompared)
	c.Count("edges/documents-with-a-section-ending-at-4GiB", q.edgeAt4G)
	c.Count("edges/documents-with-a-section-crossing-4GiB", q.edgeCross4G)
	c.Count("edges/documents-with-a-section-at-address-0", q.edgeAt0)
	c.Count("edges/documents-with-a-section-at-2GiB", q.edgeAt2G)
	c.Count("edges/documents-through-the-command", q.edgeCLI)
	c.Count("edges/refused-not-judged(section-inside-the-rom-range-or-beyond-4GiB)", q.edgeRefusedLenient)
	c.Count("products/documents-compared", q.prodCompared)
	c.Count("products/documents-for-milan", q.prodMilan)
	c.Count("products/documents-for-genoa", q.prodGenoa)
	c.Count("products/documents-on-a-request-used-for-another-product-before", q.prodSecondCall)
	c.Count("products/documents-through-the-command", q.prodCLI)
	c.Count("products/turin-requests", q.turinAsked)
	c.Count("products/turin-requests-answered-and-compared", q.turinAnswered)
	c.Count("products/requests-naming-no-product-line", q.noLineAsked)
	c.Count("products/requests-naming-no-product-line-answered", q.noLineAnswered)
	// the floors say the dimension was produced (a tree may refuse these requests: then nothing is signed)
	c.Floor("edges-4GiB-boundary-exercised", q.edgeAt4G+q.edgeCross4G+q.edgeRefusedLenient > 0)
	c.Floor("edges-address-0-compared", q.edgeAt0 > 0)
	c.Floor("edges-2GiB-compared", q.edgeAt2G > 0)
	c.Floor("products-milan-compared", q.prodMilan > 0)
	c.Floor("products-genoa-compared", q.prodGenoa > 0)
	c.Floor("products-turin-requested", q.turinAsked > 0)
	c.Floor("products-value-naming-no-product-line-requested", q.noLineAsked > 0)
}

// ---------------------------------------------------------------------------------------------------------------
// edges

var edgeModes = []string{"ends-at-4GiB", "crosses-4GiB", "ends-one-page-below-4GiB", "starts-at-0", "ends-at-2GiB", "starts-at-2GiB", "crosses-2GiB", "many-pages-ending-at-4GiB"}
var edgeKinds = []uint32{abi.SevCpuidSection, abi.SevSecretSection, abi.SevUnmeasuredSection, abi.SevSvsmCaaSection}
var edgeKindNames = []string{"cpuid", "secrets", "unmeasured", "svsm-caa"}

// placeAtEdge moves section idx of secs to the boundary mode names; straddling modes need at least two pages.
func placeAtEdge(r *rand.Rand, secs []abi.SevMetadataSection, idx int, mode string) {
	pages := uint64(secs[idx].Length / 0x1000)
	switch mode {
	case "crosses-4GiB", "crosses-2GiB":
		if pages < 2 {
			pages = 2 + uint64(r.IntN(3))
		}
	case "many-pages-ending-at-4GiB":
		pages = 256 << r.IntN(4)
	}
	length := pages * 0x1000
	var addr uint64
	switch mode {
	case "ends-at-4GiB", "many-pages-ending-at-4GiB":
		addr = 1<<32 - length
	case "crosses-4GiB":
		addr = 1<<32 - 0x1000*uint64(1+r.IntN(int(pages-1)))
	case "ends-one-page-below-4GiB":
		addr = 1<<32 - 0x1000 - length
	case "starts-at-0":
		addr = 0
	case "ends-at-2GiB":
		addr = 1<<31 - length
	case "starts-at-2GiB":
		addr = 1 << 31
	case "crosses-2GiB":
		addr = 1<<31 - 0x1000*uint64(1+r.IntN(int(pages-1)))
	}
	secs[idx].Address, secs[idx].Length = uint32(addr), uint32(length)
}

type edgeInfo struct {
	li            layoutInfo
	mode, kind    string
	second        string
	at4G, cross4G bool
	at0, at2G     bool
	lenient       bool // a section inside the ROM's range or beyond 4 GiB
}

func (e edgeInfo) String() string {
	s := fmt.Sprintf("%s section %s", e.kind, e.mode)
	if e.second != "" {
		s += ", " + e.second
	}
	return s + "; " + e.li.String()
}

// edgeImage draws a "layouts" section list and moves the section of the kind k selects (an SVSM calling area is
// added when the list has none) to the boundary k selects; half the time a second section goes to a boundary of the
// other group. The list stays well-formed in the words of C04 (checked with the model's classifier).
func edgeImage(r *rand.Rand, k, maxSize int) ([]byte, edgeInfo) {
	for {
		spec := fw.Random(r, maxSize)
		secs, li := snpLayout(r, k>>5)
		// (k + k/8) % 8: a shard sees every k with one residue of the shard count, and must still see every mode
		mi := (k + k/8) % 8
		e := edgeInfo{mode: edgeModes[mi], kind: edgeKindNames[(k/8)%4]}
		kind := edgeKinds[(k/8)%4]
		idx := -1
		for n, s := range secs {
			if s.Kind == kind {
				idx = n
				break
			}
		}
		if idx < 0 {
			secs = append(secs, abi.SevMetadataSection{Kind: kind, Length: 0x1000 * uint32(1+r.IntN(2))})
			idx = len(secs) - 1
			li.caa++
		}
		placeAtEdge(r, secs, idx, e.mode)
		if len(secs) > 1 && r.IntN(2) == 0 {
			other := idx
			for other == idx {
				other = r.IntN(len(secs))
			}
			var m2 string
			if mi <= 2 || mi == 7 { // first one near 4 GiB: second at 0 or around 2 GiB
				m2 = edgeModes[3+r.IntN(4)]
			} else {
				m2 = []string{"ends-at-4GiB", "crosses-4GiB", "ends-one-page-below-4GiB"}[r.IntN(3)]
			}
			placeAtEdge(r, secs, other, m2)
			e.second = fmt.Sprintf("%s section %s", abiKindName(secs[other].Kind), m2)
		}
		if r.IntN(2) == 0 {
			r.Shuffle(len(secs), func(a, b int) { secs[a], secs[b] = secs[b], secs[a] })
		}
		var ref []snpref.Section
		for _, s := range secs {
			ref = append(ref, snpref.Section{Addr: s.Address, Len: s.Length, Kind: s.Kind})
		}
		if len(snpref.Classify(ref)) != 0 {
			continue // the two moved sections collided: draw again
		}
		li.cpuidPages, li.secretPages = 0, 0
		for _, s := range secs {
			switch s.Kind {
			case abi.SevCpuidSection:
				li.cpuidPages = int(s.Length / 0x1000)
			case abi.SevSecretSection:
				li.secretPages = int(s.Length / 0x1000)
			}
		}
		spec.Sections = secs
		li.reset = "below-flash"
		if r.IntN(4) == 0 {
			spec.ResetAddr = r.Uint32()
			li.reset = "anywhere"
		}
		img, err := fw.Build(r, spec)
		if err != nil {
			continue
		}
		romBase := uint64(1)<<32 - uint64(len(img))
		for _, s := range secs {
			start, end := uint64(s.Address), uint64(s.Address)+uint64(s.Length)
			switch {
			case end == 1<<32:
				e.at4G = true
			case end > 1<<32:
				e.cross4G = true
			}
			if end > romBase {
				e.lenient = true
			}
			if start == 0 {
				e.at0 = true
			}
			if start <= 1<<31 && end >= 1<<31 {
				e.at2G = true
			}
		}
		e.li = li
		return img, e
	}
}

func abiKindName(kind uint32) string {
	for n, k := range edgeKinds {
		if k == kind {
			return edgeKindNames[n]
		}
	}
	return fmt.Sprint(kind)
}

func (x *ext) edges(i, k int) {
	c := x.c
	r := c.Rand(i)
	ec := endreq.Random(r, endreq.Opts{MaxImage: 64 << 10, AllowNoTDX: true, CheapTDX: true}, i)
	img, e := edgeImage(r, k, 128<<10)
	ec.Image = img
	if ec.SevSnp == nil {
		ec.SevSnp = randSnp(r)
	}
	viaCLI := (k/8+k/32)%2 == 1
	via := "library"
	if viaCLI {
		via = "command"
	}
	gname := fmt.Sprintf("edges#%d %s via %s on %s", i, e, via, describe(ec))
	entry := "endorse.GoldenMeasurement/edges"
	if viaCLI {
		entry = "cmd endorse/edges"
	}
	c.Begin(i, gname, entry, nil)
	defer c.End(i)
	j := &judge{c: c, i: i, gname: gname}
	ok := false
	if viaCLI {
		ok = x.judgeThroughCommand(j, r, i, entry, ec)
	} else {
		_, ok = x.judgeThroughLibrary(j, i, entry, "endorse.SignDoc/edges", ec, e.lenient)
	}
	q := &x.r5
	outcome := fmt.Sprintf("ok=%v", ok)
	if ok {
		q.edgeCompared++
		if e.at4G {
			q.edgeAt4G++
		}
		if e.cross4G {
			q.edgeCross4G++
		}
		if e.at0 {
			q.edgeAt0++
		}
		if e.at2G {
			q.edgeAt2G++
		}
		if viaCLI {
			q.edgeCLI++
		}
	} else if j.n == 0 {
		outcome = "refused-or-not-judged"
		if e.lenient {
			q.edgeRefusedLenient++
		}
	}
	c.Cell("edges|%s|%s|second=%v|explicit=%v|via=%s|%s", e.kind, e.mode, e.second != "", ec.SevSnp.LaunchVmsas != 0, via, outcome)
	if k%16 == 0 {
		c.Sample(map[string]any{"request": gname, "outcome": outcome})
	}
}

// ---------------------------------------------------------------------------------------------------------------
// products

type productKind struct {
	name   string
	strict bool // the tool must answer (Milan, Genoa); otherwise a refusal is counted, not judged
	value  func(r *rand.Rand) spb.SevProduct_SevProductName
}

func fixedProduct(p spb.SevProduct_SevProductName) func(*rand.Rand) spb.SevProduct_SevProductName {
	return func(*rand.Rand) spb.SevProduct_SevProductName { return p }
}

var productKinds = []productKind{
	{"Milan", true, fixedProduct(spb.SevProduct_SEV_PRODUCT_MILAN)},
	{"Genoa", true, fixedProduct(spb.SevProduct_SEV_PRODUCT_GENOA)},
	{"Turin", false, fixedProduct(spb.SevProduct_SEV_PRODUCT_TURIN)},
	{"unset", false, fixedProduct(spb.SevProduct_SEV_PRODUCT_UNKNOWN)},
	{"beyond-the-enum", false, func(r *rand.Rand) spb.SevProduct_SevProductName {
		return spb.SevProduct_SevProductName(4 + r.IntN(1000))
	}},
	{"negative", false, func(r *rand.Rand) spb.SevProduct_SevProductName {
		return spb.SevProduct_SevProductName(-1 - r.IntN(1000))
	}},
}

// products is one case of the "products" family. k fixes the way the request reaches the code, the product line asked
// for and (for the second-call mode) the product line the same request value was used for before.
func (x *ext) products(i, k int) {
	c := x.c
	r := c.Rand(i)
	ec := endreq.Random(r, endreq.Opts{MaxImage: 64 << 10, AllowNoTDX: true, CheapTDX: true}, i)
	if ec.SevSnp == nil {
		ec.SevSnp = randSnp(r)
	}
	if ec.SevSnp.LaunchVmsas == 0 && r.IntN(2) == 0 {
		ec.SevSnp.LaunchVmsas = endreq.GCECounts[r.IntN(len(endreq.GCECounts))] // keep most cases cheap
	}
	n := len(productKinds)
	mode := []string{"one-call", "after-a-call-for-another-product", "command"}[k%3]
	pk, fk := (k/3)%n, (k/(3*n))%n
	main, first := productKinds[pk], productKinds[fk]
	if mode == "command" && pk > 2 {
		mode = "one-call" // the flag cannot spell a value that names no product line
	}
	want := main.value(r)
	before := first.value(r)
	gname := fmt.Sprintf("products#%d product=%s(%d) %s", i, main.name, int32(want), mode)
	if mode == "after-a-call-for-another-product" {
		gname += fmt.Sprintf(" (%s(%d))", first.name, int32(before))
	}
	gname += " on " + describe(ec)
	entry, sentry := "endorse.GoldenMeasurement/products", "endorse.SignDoc/products"
	if mode == "command" {
		entry = "cmd endorse/products"
	}
	c.Begin(i, gname, entry, nil)
	defer c.End(i)
	j := &judge{c: c, i: i, gname: gname}
	q := &x.r5
	ok := false
	switch mode {
	case "one-call":
		ec.SevSnp.Product = want
		_, ok = x.judgeThroughLibrary(j, i, entry, sentry, ec, !main.strict)
	case "after-a-call-for-another-product":
		// whatever the first call left behind (in the request value, in the library) — an answer or a refusal — the
		// second call is about the product line asked for now
		ec.SevSnp.Product = before
		x.judgeThroughLibrary(j, i, entry, sentry, ec, !first.strict)
		if j.n == 0 {
			ec.SevSnp.Product = want
			_, ok = x.judgeThroughLibrary(j, i, entry, sentry, ec, !main.strict)
		}
	default:
		ec.SevSnp.Product = want
		ok = x.judgeThroughCommand(j, r, i, entry, ec)
	}
	switch main.name {
	case "Milan", "Genoa":
	case "Turin":
		q.turinAsked++
	default:
		q.noLineAsked++
	}
	outcome := fmt.Sprintf("ok=%v", ok)
	if ok {
		q.prodCompared++
		switch main.name {
		case "Milan":
			q.prodMilan++
		case "Genoa":
			q.prodGenoa++
		case "Turin":
			q.turinAnswered++
		default:
			q.noLineAnswered++
			c.Note("observed, not judged beyond consistency: a request whose product names no product line (%s) was answered", main.name)
		}
		switch mode {
		case "after-a-call-for-another-product":
			q.prodSecondCall++
		case "command":
			q.prodCLI++
		}
	} else if j.n == 0 {
		outcome = "refused-or-not-judged"
	}
	if mode == "after-a-call-for-another-product" {
		c.Cell("products|%s|after=%s|%s", main.name, first.name, outcome)
	} else {
		c.Cell("products|%s|%s|explicit=%v|%s", main.name, mode, ec.SevSnp.LaunchVmsas != 0, outcome)
	}
	if k%9 == 0 {
		c.Sample(map[string]any{"request": gname, "outcome": outcome})
	}
}

// ---------------------------------------------------------------------------------------------------------------
// malformed: a "layouts" section list with ONE defect of the classes C04 lists (unknown kind, misaligned or empty
// range, overlap, duplicate CPUID / secrets section, missing mandatory kind). Such an image has no launch measurement;
// a document that carries SNP entries for it is reported by checkGolden (snp-measured-for-malformed-image). The
// earlier must-fail images only broke the metadata signature.

var malformedClasses = []string{"unknown-kind", "misaligned-range", "empty-range", "overlap", "duplicate-cpuid-or-secrets", "missing-mandatory-kind"}

func malformedImage(r *rand.Rand, k int) ([]byte, string) {
	for {
		spec := fw.Random(r, 128<<10)
		secs, _ := snpLayout(r, k/6)
		cls := malformedClasses[k%6]
		n := r.IntN(len(secs))
		free := uint32(0x40000000 + 0x1000*r.IntN(1<<16)) // far from both regions of snpLayout
		detail := ""
		switch cls {
		case "unknown-kind":
			kind := []uint32{0, 5, 6, 0x10, 0x80000001, 0xffffffff}[r.IntN(6)]
			if r.IntN(2) == 0 {
				secs = append(secs, abi.SevMetadataSection{Address: free, Length: 0x1000 * uint32(1+r.IntN(3)), Kind: kind})
				detail = fmt.Sprintf("extra section of kind %#x", kind)
			} else {
				detail = fmt.Sprintf("%s section turned into kind %#x", abiKindName(secs[n].Kind), kind)
				secs[n].Kind = kind
			}
		case "misaligned-range":
			off := uint32(1 + r.IntN(0xfff))
			if r.IntN(2) == 0 {
				secs[n].Address += off
				detail = fmt.Sprintf("%s section address +%#x", abiKindName(secs[n].Kind), off)
			} else {
				secs[n].Length += off
				detail = fmt.Sprintf("%s section length +%#x", abiKindName(secs[n].Kind), off)
			}
		case "empty-range":
			secs[n].Length = 0
			detail = fmt.Sprintf("%s section of length 0", abiKindName(secs[n].Kind))
		case "overlap":
			m := n
			for m == n {
				m = r.IntN(len(secs))
			}
			secs[m].Address = secs[n].Address + secs[n].Length - 0x1000
			detail = fmt.Sprintf("%s section starts on the last page of the %s section", abiKindName(secs[m].Kind), abiKindName(secs[n].Kind))
		case "duplicate-cpuid-or-secrets":
			kind := []uint32{abi.SevCpuidSection, abi.SevSecretSection}[r.IntN(2)]
			secs = append(secs, abi.SevMetadataSection{Address: free, Length: 0x1000, Kind: kind})
			detail = fmt.Sprintf("second %s section", abiKindName(kind))
		default:
			kind := []uint32{abi.SevCpuidSection, abi.SevSecretSection, abi.SevUnmeasuredSection}[r.IntN(3)]
			var keep []abi.SevMetadataSection
			for _, s := range secs {
				if s.Kind != kind {
					keep = append(keep, s)
				}
			}
			secs = keep
			detail = fmt.Sprintf("no %s section", abiKindName(kind))
		}
		if r.IntN(2) == 0 {
			r.Shuffle(len(secs), func(a, b int) { secs[a], secs[b] = secs[b], secs[a] })
		}
		var ref []snpref.Section
		for _, s := range secs {
			ref = append(ref, snpref.Section{Addr: s.Address, Len: s.Length, Kind: s.Kind})
		}
		got := snpref.Classify(ref)
		if len(got) == 0 {
			continue
		}
		spec.Sections = secs
		img, err := fw.Build(r, spec)
		if err != nil {
			continue
		}
		return img, fmt.Sprintf("%s (%s; model: %v)", cls, detail, got)
	}
}

func (x *ext) malformed(i, k int) {
	c := x.c
	r := c.Rand(i)
	ec := endreq.Random(r, endreq.Opts{MaxImage: 64 << 10, AllowNoTDX: true, CheapTDX: true}, i)
	if ec.SevSnp == nil {
		ec.SevSnp = randSnp(r)
	}
	img, what := malformedImage(r, k)
	ec.Image = img
	gname := fmt.Sprintf("malformed#%d %s on %s", i, what, describe(ec))
	entry := "endorse.GoldenMeasurement/malformed"
	c.Begin(i, gname, entry, nil)
	defer c.End(i)
	j := &judge{c: c, i: i, gname: gname}
	// lenient: the refusal is the expected outcome; an answer is judged by checkGolden
	g, _ := x.judgeThroughLibrary(j, i, entry, "endorse.SignDoc/malformed", ec, true)
	outcome := "refused"
	if g != nil {
		outcome = "ANSWERED"
		x.r5.malformedAnswered++
		if j.n == 0 {
			j.bad(entry, "unmeasurable-image-measured", "SNP metadata %s: no error, %d SNP entries", what, len(g.GetSevSnp().GetMeasurements()))
		}
	} else if j.n == 0 {
		x.r5.malformedRefused++
	}
	c.Cell("malformed|%s|explicit=%v|%s", malformedClasses[k%6], ec.SevSnp.LaunchVmsas != 0, outcome)
}
