package c06

import (
	"bytes"
	"fmt"
	"math/rand/v2"
	"sort"
	"strings"
	"time"

	"github.com/google/gce-tcb-verifier/endorse"
	epb "github.com/google/gce-tcb-verifier/proto/endorsement"
	"github.com/google/gce-tcb-verifier/sev"
	"github.com/google/gce-tcb-verifier/tdx"
	spb "github.com/google/go-sev-guest/proto/sevsnp"
	"github.com/google/uuid"
	"google.golang.org/protobuf/proto"

	"verifharness/authority"
	"verifharness/core"
	"verifharness/doubles"
	"verifharness/gen/endreq"
	"verifharness/gen/fw"
)

var bogusShapes = []string{"bogus-shape", "c3-standard-5", "", "C3-STANDARD-4"}

// seqState remembers how the live request was made unmeasurable, so that the next step can repair it in place.
type seqState struct {
	bogusAt   int // index+1 of the unknown shape name in the list
	tdxBroken bool
	snpBroken bool
	saved     [4]byte
}

func (s *seqState) broken() bool { return s.bogusAt != 0 || s.tdxBroken || s.snpBroken }

func randUUID(r *rand.Rand) string {
	b := make([]byte, 16)
	for i := range b {
		b[i] = byte(r.IntN(256))
	}
	return uuid.Must(uuid.FromBytes(b)).String()
}

func randBytes(r *rand.Rand, n int) []byte {
	b := make([]byte, n)
	for i := range b {
		b[i] = byte(r.IntN(256))
	}
	return b
}

func randSnp(r *rand.Rand) *sev.SnpEndorsementRequest {
	req := &sev.SnpEndorsementRequest{Product: spb.SevProduct_SEV_PRODUCT_MILAN}
	if r.IntN(2) == 0 {
		req.Product = spb.SevProduct_SEV_PRODUCT_GENOA
	}
	if r.IntN(2) == 0 {
		req.LaunchVmsas = endreq.GCECounts[r.IntN(len(endreq.GCECounts))]
	}
	req.Svn = uint32(r.IntN(1000))
	if r.IntN(2) == 0 {
		req.FamilyID = randUUID(r)
	}
	if r.IntN(2) == 0 {
		req.ImageID = randUUID(r)
	}
	return req
}

func randShapes(r *rand.Rand, n int) []string {
	perm := r.Perm(len(endreq.Shapes))
	var o []string
	for i := 0; i < n; i++ {
		o = append(o, endreq.Shapes[perm[i]])
	}
	return o
}

func randTdx(r *rand.Rand) *tdx.EndorsementRequest {
	return &tdx.EndorsementRequest{Svn: uint32(r.IntN(1000)), IncludeEarlyAccept: r.IntN(2) == 0, MachineShapes: randShapes(r, r.IntN(3))}
}

// edit changes one thing of the live request in place and names it. It never makes the request unmeasurable.
func edit(r *rand.Rand, ec *endorse.Context) (name string, imageChanged bool) {
	for {
		switch r.IntN(20) {
		case 0:
			ec.Image = fw.Image(r, 128<<10)
			return "image-replaced", true
		case 1:
			copy(ec.Image, sameSizeImage(r, len(ec.Image)))
			return "image-buffer-refilled", true
		case 2:
			if ec.SevSnp != nil {
				old := ec.SevSnp.LaunchVmsas
				for ec.SevSnp.LaunchVmsas == old {
					switch r.IntN(3) {
					case 0:
						ec.SevSnp.LaunchVmsas = 0
					case 1:
						ec.SevSnp.LaunchVmsas = endreq.GCECounts[r.IntN(len(endreq.GCECounts))]
					default:
						ec.SevSnp.LaunchVmsas = uint32(3 + r.IntN(20))
					}
				}
				if old == 0 {
					return "vmsas-default-to-explicit", false
				} else if ec.SevSnp.LaunchVmsas == 0 {
					return "vmsas-explicit-to-default", false
				}
				return "vmsas-changed", false
			}
		case 3:
			if ec.SevSnp != nil {
				if ec.SevSnp.Product == spb.SevProduct_SEV_PRODUCT_GENOA {
					ec.SevSnp.Product = spb.SevProduct_SEV_PRODUCT_MILAN
				} else {
					ec.SevSnp.Product = spb.SevProduct_SEV_PRODUCT_GENOA
				}
				return "product-flipped", false
			}
		case 4:
			if ec.SevSnp != nil {
				ec.SevSnp.Svn += 1 + uint32(r.IntN(40))
				return "snp-svn-changed", false
			}
		case 5:
			if ec.SevSnp != nil {
				if ec.SevSnp.FamilyID != "" && r.IntN(3) == 0 {
					ec.SevSnp.FamilyID = ""
					return "family-id-cleared", false
				}
				ec.SevSnp.FamilyID = randUUID(r)
				return "family-id-changed", false
			}
		case 6:
			if ec.SevSnp != nil {
				if ec.SevSnp.ImageID != "" && r.IntN(2) == 0 {
					ec.SevSnp.ImageID = ""
					return "image-id-cleared", false
				}
				ec.SevSnp.ImageID = randUUID(r)
				return "image-id-changed", false
			}
		case 7:
			if ec.SevSnp != nil {
				switch {
				case len(ec.SvsmSnpMeasurement) == 48 && r.IntN(2) == 0:
					copy(ec.SvsmSnpMeasurement, randBytes(r, 48))
					return "svsm-buffer-refilled", false
				case len(ec.SvsmSnpMeasurement) > 0 && r.IntN(3) == 0:
					ec.SvsmSnpMeasurement = nil
					return "svsm-cleared", false
				}
				ec.SvsmSnpMeasurement = randBytes(r, 48)
				return "svsm-changed", false
			}
		case 8:
			if ec.SevSnp != nil {
				ec.SevSnp = randSnp(r)
				return "snp-request-replaced", false
			}
		case 9:
			if ec.Tdx != nil {
				ec.Tdx.MachineShapes = randShapes(r, r.IntN(3))
				return "shapes-replaced", false
			}
		case 10:
			if ec.Tdx != nil && len(ec.Tdx.MachineShapes) > 0 {
				k := r.IntN(len(ec.Tdx.MachineShapes))
				old := ec.Tdx.MachineShapes[k]
				for ec.Tdx.MachineShapes[k] == old {
					ec.Tdx.MachineShapes[k] = endreq.Shapes[r.IntN(len(endreq.Shapes))]
				}
				return "shape-edited-in-place", false
			}
		case 11:
			if ec.Tdx != nil {
				if n := len(ec.Tdx.MachineShapes); n > 0 && (n >= 3 || r.IntN(2) == 0) {
					ec.Tdx.MachineShapes = ec.Tdx.MachineShapes[:n-1]
					return "shapes-truncated", false
				}
				ec.Tdx.MachineShapes = append(ec.Tdx.MachineShapes, endreq.Shapes[r.IntN(len(endreq.Shapes))])
				return "shape-appended", false
			}
		case 12:
			if ec.Tdx != nil {
				ec.Tdx.IncludeEarlyAccept = !ec.Tdx.IncludeEarlyAccept
				return "early-accept-toggled", false
			}
		case 13:
			if ec.Tdx != nil {
				ec.Tdx.Svn += 1 + uint32(r.IntN(40))
				return "tdx-svn-changed", false
			}
		case 14:
			if ec.Tdx != nil {
				ec.Tdx = randTdx(r)
				return "tdx-request-replaced", false
			}
		case 15:
			ec.ClSpec = uint64(r.IntN(3)) * (1 + uint64(r.IntN(1<<30)))
			return "clspec-changed", false
		case 16:
			switch {
			case len(ec.Commit) == 20 && r.IntN(2) == 0:
				copy(ec.Commit, randBytes(r, 20))
				return "commit-buffer-refilled", false
			case len(ec.Commit) > 0 && r.IntN(3) == 0:
				ec.Commit = nil
				return "commit-cleared", false
			}
			ec.Commit = randBytes(r, 20)
			return "commit-changed", false
		case 17:
			ec.Timestamp = ec.Timestamp.Add(time.Duration(r.IntN(2000000)-1000000) * time.Second).Add(time.Duration(r.IntN(1e9)))
			return "timestamp-changed", false
		case 18:
			if ec.SevSnp != nil && ec.Tdx != nil {
				if r.IntN(2) == 0 {
					ec.SevSnp = nil
					return "snp-dropped", false
				}
				ec.Tdx = nil
				return "tdx-dropped", false
			}
		case 19:
			if ec.SevSnp == nil {
				ec.SevSnp = randSnp(r)
				return "snp-added", false
			}
			if ec.Tdx == nil {
				ec.Tdx = randTdx(r)
				return "tdx-added", false
			}
		}
	}
}

// breakRequest makes the live request unmeasurable in place; "" when it did nothing.
func breakRequest(r *rand.Rand, ec *endorse.Context, s *seqState) string {
	switch r.IntN(3) {
	case 0:
		if ec.Tdx != nil {
			k := r.IntN(len(ec.Tdx.MachineShapes) + 1)
			l := append([]string(nil), ec.Tdx.MachineShapes[:k]...)
			l = append(l, bogusShapes[r.IntN(len(bogusShapes))])
			ec.Tdx.MachineShapes = append(l, ec.Tdx.MachineShapes[k:]...)
			s.bogusAt = k + 1
			return "unknown-shape-inserted"
		}
	case 1:
		if ec.Tdx != nil {
			copy(s.saved[:], ec.Image[0x110:])
			copy(ec.Image[0x110:], "XDVF")
			s.tdxBroken = true
			return "tdx-metadata-broken-in-place"
		}
	default:
		if ec.SevSnp != nil {
			copy(s.saved[:], ec.Image[0:])
			copy(ec.Image[0:4], "XSEV")
			s.snpBroken = true
			return "snp-metadata-broken-in-place"
		}
	}
	return ""
}

func repairRequest(ec *endorse.Context, s *seqState) string {
	defer func() { *s = seqState{} }()
	switch {
	case s.bogusAt != 0:
		k := s.bogusAt - 1
		ec.Tdx.MachineShapes = append(ec.Tdx.MachineShapes[:k:k], ec.Tdx.MachineShapes[k+1:]...)
		return "unknown-shape-removed"
	case s.tdxBroken:
		copy(ec.Image[0x110:], s.saved[:])
		return "tdx-metadata-restored-in-place"
	default:
		copy(ec.Image[0:], s.saved[:])
		return "snp-metadata-restored-in-place"
	}
}

// scribble overwrites everything the caller received that the library allocated for it (not Commit and the SVSM
// measurement, which are the caller's own slices handed through).
func scribble(g *epb.VMGoldenMeasurement) {
	fill := func(b []byte, v byte) {
		for i := range b {
			b[i] = v
		}
	}
	fill(g.Digest, 0xd1)
	if s := g.SevSnp; s != nil {
		fill(s.FamilyId, 0xfa)
		fill(s.ImageId, 0x1d)
		first := true
		for k, m := range s.Measurements {
			fill(m, 0xaa)
			if first {
				delete(s.Measurements, k)
				first = false
			}
		}
		if s.Measurements != nil {
			s.Measurements[7777] = bytes.Repeat([]byte{0x77}, 48)
		}
		s.Svn, s.Policy = 0xdead, 0
	}
	if t := g.Tdx; t != nil {
		for _, row := range t.Measurements {
			fill(row.Mrtd, 0xbb)
			row.RamGib, row.EarlyAccept = 9999, !row.EarlyAccept
		}
		if len(t.Measurements) > 0 {
			t.Measurements = t.Measurements[:len(t.Measurements)-1]
		}
		t.Svn = 0xbeef
	}
	g.ClSpec = 0xc15
}

// sequence is one case of the "sequences" family.
func (x *ext) sequence(i int) {
	c := x.c
	r := c.Rand(i)
	ec := endreq.Random(r, endreq.Opts{MaxImage: 128 << 10, AllowNoTDX: true, CheapTDX: true}, i)
	steps := 3 + r.IntN(4)
	gname := fmt.Sprintf("sequence#%d of %d calls on one request value, starting from %s", i, steps, describe(ec))
	c.Begin(i, gname, "endorse.GoldenMeasurement/sequence", nil)
	defer c.End(i)
	kctx, kerr := x.a.Context(&doubles.FCtl{}, authority.Opts{})
	if kerr != nil {
		panic(kerr)
	}
	ctx := endorse.NewContext(kctx, ec) // ONE context value for every measurement and signature of the sequence
	const entry, sentry = "endorse.GoldenMeasurement/sequence", "endorse.SignDoc/sequence"
	var st seqState
	var prev *epb.VMGoldenMeasurement
	prevRandomID := ""
	var history []string
	for s := 0; s < steps; s++ {
		var edits []string
		sameImage := s > 0
		retry := false
		if s > 0 {
			if st.broken() {
				edits = append(edits, repairRequest(ec, &st))
				retry = true
			}
			for k := r.IntN(3) + 1 - len(edits); k > 0; k-- {
				name, img := edit(r, ec)
				edits = append(edits, name)
				if img {
					sameImage = false
				}
			}
			if !retry && r.IntN(4) == 0 {
				if b := breakRequest(r, ec, &st); b != "" {
					edits = append(edits, b)
					if st.tdxBroken || st.snpBroken {
						sameImage = false
					}
				}
			}
		}
		scribbled := false
		if prev != nil && r.IntN(2) == 0 {
			scribble(prev)
			scribbled = true
		}
		sort.Strings(edits)
		step := fmt.Sprintf("step %d [%s]%s", s, strings.Join(edits, ","), map[bool]string{true: " after the previous result was scribbled", false: ""}[scribbled])
		history = append(history, step)
		j := &judge{c: c, i: i, gname: gname + " — " + strings.Join(history, "; ")}
		reqImageID := ""
		if ec.SevSnp != nil {
			reqImageID = ec.SevSnp.ImageID
		}
		imgBefore := append([]byte(nil), ec.Image...)
		var g *epb.VMGoldenMeasurement
		var err error
		m := c.Guard(i, entry, j.gname, core.Budget{PanicNotJudged: true}, func() { g, err = endorse.GoldenMeasurement(ctx) })
		if m.Panicked {
			return
		}
		if !bytes.Equal(imgBefore, ec.Image) {
			j.bad(entry, "image-bytes-changed", "the request's image was modified")
		}
		x.seqSteps++
		if st.broken() {
			if err == nil {
				if st.bogusAt != 0 {
					j.bad(entry, "unknown-shape-measured", "shapes %v: no error, TDX rows: %v", ec.Tdx.MachineShapes, rows(g))
				} else {
					j.bad(entry, "unmeasurable-image-measured", "no error (snp entries %d, tdx rows %d)", len(g.GetSevSnp().GetMeasurements()), len(g.GetTdx().GetMeasurements()))
				}
				return
			}
			for _, e := range edits {
				c.Cell("sequence|%s|refused", e)
			}
			prev = nil
			continue
		}
		if err != nil {
			j.bad(entry, "well-formed-request-refused", "%v", err)
			return
		}
		j.checkGolden(entry, g, ec, reqImageID)
		if reqImageID == "" && g.GetSevSnp() != nil {
			id := uuidString(g.SevSnp.ImageId)
			if id == prevRandomID {
				j.bad(entry, "snp-image-id-not-a-random-uuid", "two requests without an image id got the same id %s", id)
			}
			prevRandomID = id
		}
		if j.n != 0 {
			return
		}
		if sameImage {
			x.seqSameImage++
		}
		if scribbled {
			x.seqScribbled++
		}
		if retry {
			x.seqRetried++
		}
		for _, e := range edits {
			c.Cell("sequence|%s|same-image=%v|scribbled=%v|equal-to-recomputation", e, sameImage, scribbled)
			c.Count("sequence/edit/"+e, 1)
		}
		// the message itself (not a copy) goes on to be signed, as in endorse.VirtualFirmware
		unsigned := proto.Clone(g).(*epb.VMGoldenMeasurement)
		var e *epb.VMLaunchEndorsement
		signRetried := false
		if r.IntN(4) == 0 {
			// a signing attempt fails at the authority or the signer; the caller retries later with the same message
			at := []string{"signer.Sign", "ca.CABundle", "ca.Certificate", "ca.PrimarySigningKeyVersion"}[r.IntN(4)]
			fctx, ferr := x.a.Context(&doubles.FCtl{Match: at, MatchKind: doubles.FaultError}, authority.Opts{})
			if ferr != nil {
				panic(ferr)
			}
			var e0 *epb.VMLaunchEndorsement
			var err0 error
			c.Guard(i, sentry, j.gname, core.Budget{PanicNotJudged: true}, func() { e0, err0 = endorse.SignDoc(endorse.NewContext(fctx, ec), g) })
			if err0 == nil {
				// the fault was not reached: then this is an ordinary signature
				if !x.checkSigned(j, sentry, e0, err0, unsigned, ec.Timestamp) {
					return
				}
			} else {
				signRetried = true
			}
			ec.Timestamp = ec.Timestamp.Add(time.Duration(1+r.IntN(100000)) * time.Second)
		}
		c.Guard(i, sentry, j.gname, core.Budget{PanicNotJudged: true}, func() { e, err = endorse.SignDoc(ctx, g) })
		if !x.checkSigned(j, sentry, e, err, unsigned, ec.Timestamp) {
			return
		}
		if signRetried {
			x.seqSignRetried++
			c.Cell("sequence|signing-fault-then-retry-under-a-later-timestamp|payload-ok")
		}
		prev = g
	}
}
