// Package tcgref is an independent encoder/decoder pair for the TCG event-log structures the
// repository reads and writes (TCG PC Client Platform Firmware Profile 1.06: TCG_PCClientPCREvent,
// TCG_PCR_EVENT2, TPML_DIGEST_VALUES / TPMT_HA, and TCG_Sp800_155_PlatformId_Event3), plus the
// two size-prefixed array forms they are built from. It shares no code with the repository.
package tcgref

import (
	"bytes"
	"errors"
	"fmt"
)

// Signature of the SP800-155 Event3 payload.
var Evt3Signature = []byte("SP800-155 Event3")

// AlgSize is the digest size per TPM_ALG_ID the repository knows.
var AlgSize = map[uint16]int{0x0004: 20, 0x000B: 32, 0x000C: 48}

// Digest is TPMT_HA.
type Digest struct {
	Alg  uint16
	Data []byte
}

// Event2 is TCG_PCR_EVENT2; Data is the raw event payload.
type Event2 struct {
	PCR, Type uint32
	Digests   []Digest
	Data      []byte
}

// PCEvent is TCG_PCClientPCREvent.
type PCEvent struct {
	PCR, Type uint32
	SHA1      [20]byte
	Data      []byte
}

// Log is a crypto-agile log: a TCG_PCClientPCREvent header followed by TCG_PCR_EVENT2 records to
// the end of the data.
type Log struct {
	Header PCEvent
	Events []Event2
}

// Evt3 is TCG_Sp800_155_PlatformId_Event3 without its signature. GUID is in RFC byte order.
type Evt3 struct {
	PlatformManufacturerID                                                  uint32
	GUID                                                                    [16]byte
	PlatformManufacturerStr, PlatformModel, PlatformVersion, FirmwareManStr string
	FirmwareManufacturerID                                                  uint32
	FirmwareVersion                                                         string
	RIMLocatorType                                                          uint32
	RIMLocator                                                              []byte
	PlatformCertLocatorType                                                 uint32
	PlatformCertLocator                                                     []byte
}

// ---- encoder ----

// Enc is an append-style little-endian encoder.
type Enc struct{ B []byte }

func (e *Enc) U8(x uint8)   { e.B = append(e.B, x) }
func (e *Enc) U16(x uint16) { e.B = append(e.B, byte(x), byte(x>>8)) }
func (e *Enc) U32(x uint32) { e.B = append(e.B, byte(x), byte(x>>8), byte(x>>16), byte(x>>24)) }
func (e *Enc) Raw(b []byte) { e.B = append(e.B, b...) }

// GUID writes an RFC-order GUID as an EFI_GUID.
func (e *Enc) GUID(g [16]byte) {
	e.Raw([]byte{g[3], g[2], g[1], g[0], g[5], g[4], g[7], g[6]})
	e.Raw(g[8:])
}

// CStr writes a UINT8-sized, NUL-terminated string (the size counts the terminator).
func (e *Enc) CStr(s string) {
	e.U8(uint8(len(s) + 1))
	e.Raw([]byte(s))
	e.U8(0)
}

// Arr32 writes a UINT32-sized byte array.
func (e *Enc) Arr32(b []byte) {
	e.U32(uint32(len(b)))
	e.Raw(b)
}

// Digest writes a TPMT_HA.
func (e *Enc) Digest(d Digest) {
	e.U16(d.Alg)
	e.Raw(d.Data)
}

// Digests writes TPML_DIGEST_VALUES.
func (e *Enc) Digests(ds []Digest) {
	e.U32(uint32(len(ds)))
	for _, d := range ds {
		e.Digest(d)
	}
}

// Event2 writes a TCG_PCR_EVENT2.
func (e *Enc) Event2(v Event2) {
	e.U32(v.PCR)
	e.U32(v.Type)
	e.Digests(v.Digests)
	e.Arr32(v.Data)
}

// PCEvent writes a TCG_PCClientPCREvent.
func (e *Enc) PCEvent(v PCEvent) {
	e.U32(v.PCR)
	e.U32(v.Type)
	e.Raw(v.SHA1[:])
	e.Arr32(v.Data)
}

// Log writes a whole log.
func (e *Enc) Log(l Log) {
	e.PCEvent(l.Header)
	for _, v := range l.Events {
		e.Event2(v)
	}
}

// Evt3Body writes the event without signature.
func (e *Enc) Evt3Body(v Evt3) {
	e.U32(v.PlatformManufacturerID)
	e.GUID(v.GUID)
	e.CStr(v.PlatformManufacturerStr)
	e.CStr(v.PlatformModel)
	e.CStr(v.PlatformVersion)
	e.CStr(v.FirmwareManStr)
	e.U32(v.FirmwareManufacturerID)
	e.CStr(v.FirmwareVersion)
	e.U32(v.RIMLocatorType)
	e.Arr32(v.RIMLocator)
	e.U32(v.PlatformCertLocatorType)
	e.Arr32(v.PlatformCertLocator)
}

// Evt3Bytes is signature followed by body.
func Evt3Bytes(v Evt3) []byte {
	e := &Enc{B: append([]byte{}, Evt3Signature...)}
	e.Evt3Body(v)
	return e.B
}

// ---- decoder ----

// ErrShort is returned when the data ends inside a structure.
var ErrShort = errors.New("tcgref: data ends inside a structure")

// Dec is a strict bounds-checked decoder. MaxDeclared is the largest size or count field seen.
type Dec struct {
	B           []byte
	Off         int
	MaxDeclared uint32
	Err         error
}

func (d *Dec) take(n int) []byte {
	if d.Err != nil {
		return nil
	}
	if n < 0 || len(d.B)-d.Off < n {
		d.Err = ErrShort
		return nil
	}
	s := d.B[d.Off : d.Off+n]
	d.Off += n
	return s
}

func (d *Dec) declared(n uint32) {
	if n > d.MaxDeclared {
		d.MaxDeclared = n
	}
}

// Rest is the number of unread bytes.
func (d *Dec) Rest() int { return len(d.B) - d.Off }

func (d *Dec) U8() uint8 {
	s := d.take(1)
	if s == nil {
		return 0
	}
	return s[0]
}
func (d *Dec) U16() uint16 {
	s := d.take(2)
	if s == nil {
		return 0
	}
	return uint16(s[0]) | uint16(s[1])<<8
}
func (d *Dec) U32() uint32 {
	s := d.take(4)
	if s == nil {
		return 0
	}
	return uint32(s[0]) | uint32(s[1])<<8 | uint32(s[2])<<16 | uint32(s[3])<<24
}

// GUID reads an EFI_GUID into RFC order.
func (d *Dec) GUID() (g [16]byte) {
	s := d.take(16)
	if s == nil {
		return
	}
	return [16]byte{s[3], s[2], s[1], s[0], s[5], s[4], s[7], s[6], s[8], s[9], s[10], s[11], s[12], s[13], s[14], s[15]}
}

// CStr reads a UINT8-sized NUL-terminated string.
func (d *Dec) CStr() string {
	n := d.U8()
	d.declared(uint32(n))
	s := d.take(int(n))
	if d.Err != nil {
		return ""
	}
	if len(s) == 0 || s[len(s)-1] != 0 {
		d.Err = fmt.Errorf("tcgref: string without terminator")
		return ""
	}
	return string(s[:len(s)-1])
}

// Arr32 reads a UINT32-sized byte array.
func (d *Dec) Arr32() []byte {
	n := d.U32()
	d.declared(n)
	if d.Err == nil && uint64(n) > uint64(d.Rest()) {
		d.Err = ErrShort
		return nil
	}
	return append([]byte(nil), d.take(int(n))...)
}

// Digest reads a TPMT_HA.
func (d *Dec) Digest() Digest {
	a := d.U16()
	if d.Err != nil {
		return Digest{}
	}
	n, ok := AlgSize[a]
	if !ok {
		d.Err = fmt.Errorf("tcgref: unknown algorithm %#x", a)
		return Digest{}
	}
	return Digest{Alg: a, Data: append([]byte(nil), d.take(n)...)}
}

// Digests reads TPML_DIGEST_VALUES.
func (d *Dec) Digests() []Digest {
	n := d.U32()
	d.declared(n)
	var out []Digest
	for i := uint32(0); i < n && d.Err == nil; i++ {
		out = append(out, d.Digest())
	}
	if d.Err != nil {
		return nil
	}
	return out
}

// Event2 reads a TCG_PCR_EVENT2.
func (d *Dec) Event2() Event2 {
	var v Event2
	v.PCR = d.U32()
	v.Type = d.U32()
	v.Digests = d.Digests()
	v.Data = d.Arr32()
	return v
}

// PCEvent reads a TCG_PCClientPCREvent.
func (d *Dec) PCEvent() PCEvent {
	var v PCEvent
	v.PCR = d.U32()
	v.Type = d.U32()
	copy(v.SHA1[:], d.take(20))
	v.Data = d.Arr32()
	return v
}

// Log reads a whole log; the data must end on an event boundary.
func (d *Dec) Log() Log {
	var l Log
	l.Header = d.PCEvent()
	for d.Err == nil && d.Rest() > 0 {
		l.Events = append(l.Events, d.Event2())
	}
	return l
}

// Evt3Body reads the event (without signature); trailing zero bytes are permitted padding (GUID HOB
// data is padded to 8 bytes and edk2 reports the padded length as the event size).
func (d *Dec) Evt3Body() Evt3 {
	var v Evt3
	v.PlatformManufacturerID = d.U32()
	v.GUID = d.GUID()
	v.PlatformManufacturerStr = d.CStr()
	v.PlatformModel = d.CStr()
	v.PlatformVersion = d.CStr()
	v.FirmwareManStr = d.CStr()
	v.FirmwareManufacturerID = d.U32()
	v.FirmwareVersion = d.CStr()
	v.RIMLocatorType = d.U32()
	v.RIMLocator = d.Arr32()
	v.PlatformCertLocatorType = d.U32()
	v.PlatformCertLocator = d.Arr32()
	if d.Err == nil {
		for _, x := range d.B[d.Off:] {
			if x != 0 {
				d.Err = fmt.Errorf("tcgref: non-zero padding")
				break
			}
		}
		d.Off = len(d.B)
	}
	return v
}

// HasEvt3Signature reports whether event data starts with the SP800-155 Event3 signature.
func HasEvt3Signature(b []byte) bool {
	return len(b) >= 16 && bytes.Equal(b[:16], Evt3Signature)
}

// EqualEvt3 compares two events field by field.
func EqualEvt3(a, b Evt3) (bool, string) {
	switch {
	case a.PlatformManufacturerID != b.PlatformManufacturerID:
		return false, "PlatformManufacturerID"
	case a.GUID != b.GUID:
		return false, "ReferenceManifestGUID"
	case a.PlatformManufacturerStr != b.PlatformManufacturerStr:
		return false, "PlatformManufacturerStr"
	case a.PlatformModel != b.PlatformModel:
		return false, "PlatformModel"
	case a.PlatformVersion != b.PlatformVersion:
		return false, "PlatformVersion"
	case a.FirmwareManStr != b.FirmwareManStr:
		return false, "FirmwareManufacturerStr"
	case a.FirmwareManufacturerID != b.FirmwareManufacturerID:
		return false, "FirmwareManufacturerID"
	case a.FirmwareVersion != b.FirmwareVersion:
		return false, "FirmwareVersion"
	case a.RIMLocatorType != b.RIMLocatorType:
		return false, "RIMLocatorType"
	case !bytes.Equal(a.RIMLocator, b.RIMLocator):
		return false, "RIMLocator"
	case a.PlatformCertLocatorType != b.PlatformCertLocatorType:
		return false, "PlatformCertLocatorType"
	case !bytes.Equal(a.PlatformCertLocator, b.PlatformCertLocator):
		return false, "PlatformCertLocator"
	}
	return true, ""
}

// SelfTest pins the encoder against the literal SP800-155 example of the specification's shape
// (bytes written out by hand) and checks that decode inverts encode.
func SelfTest() error {
	v := Evt3{PlatformManufacturerID: 11129, GUID: [16]byte{0xc5, 0x1b, 0x6d, 0x7f, 0x9c, 0x2a, 0x42, 0xd6, 0xbe, 0x47, 0xca, 0x13, 0x68, 0xbd, 0xc3, 0x33},
		PlatformManufacturerStr: "GCE", PlatformModel: "M", PlatformVersion: "", FirmwareManStr: "V", FirmwareManufacturerID: 54494, FirmwareVersion: "2.0",
		RIMLocatorType: 3, RIMLocator: []byte{1, 2, 3}, PlatformCertLocatorType: 0}
	want := []byte{0x79, 0x2b, 0, 0,
		0x7f, 0x6d, 0x1b, 0xc5, 0x2a, 0x9c, 0xd6, 0x42, 0xbe, 0x47, 0xca, 0x13, 0x68, 0xbd, 0xc3, 0x33,
		4, 'G', 'C', 'E', 0, 2, 'M', 0, 1, 0, 2, 'V', 0,
		0xde, 0xd4, 0, 0,
		4, '2', '.', '0', 0,
		3, 0, 0, 0, 3, 0, 0, 0, 1, 2, 3,
		0, 0, 0, 0, 0, 0, 0, 0}
	e := &Enc{}
	e.Evt3Body(v)
	if !bytes.Equal(e.B, want) {
		return fmt.Errorf("tcgref: Evt3 encoding %x differs from the hand-written bytes %x", e.B, want)
	}
	d := &Dec{B: append(append([]byte{}, want...), 0, 0, 0)}
	got := d.Evt3Body()
	if d.Err != nil {
		return d.Err
	}
	if ok, f := EqualEvt3(got, v); !ok {
		return fmt.Errorf("tcgref: decode does not invert encode at %s", f)
	}
	ev := Event2{PCR: 1, Type: 3, Digests: []Digest{{Alg: 4, Data: make([]byte, 20)}}, Data: []byte{9}}
	e2 := &Enc{}
	e2.Event2(ev)
	want2 := append(append([]byte{1, 0, 0, 0, 3, 0, 0, 0, 1, 0, 0, 0, 4, 0}, make([]byte, 20)...), 1, 0, 0, 0, 9)
	if !bytes.Equal(e2.B, want2) {
		return fmt.Errorf("tcgref: Event2 encoding differs from the hand-written bytes")
	}
	return nil
}
