// Package c18: binary codecs are mutually inverse, size-exact and strict.
//
// Every case builds one value of one structure, runs the repository's encoder and decoder on it
// and on byte strings near its encoding (every truncation, extensions, single-byte changes,
// reserved bytes set one at a time, short output buffers), and judges what comes back against
// reference offset tables and decoders written from the specifications (sub-packages abiref,
// vmsaref, hobref, tcgref).
package c18

import (
	"encoding/hex"
	"fmt"
	"math/rand/v2"
	"os"

	"verifharness/core"
	"verifharness/props/c18/abiref"
	"verifharness/props/c18/tcgref"
	"verifharness/props/c18/vmsaref"
)

func init() {
	core.Register(&core.Info{
		ID: "C18", Level: "exploration",
		Rule: "case = one value of one structure (EFI_GUID, FwGUIDEntry, SEV metadata header/section/offset, SEV-ES reset block, TDVF descriptor/section/whole metadata, " +
			"HOB generic header / PHIT / resource descriptor / GUID extension, VMSA, PAGE_INFO, ByteSizedCStr, Uint32SizedArray, TaggedDigest, digest list, TCGEventData, " +
			"TCG_PCClientPCREvent, TCG_PCR_EVENT2, SP800-155 Event3, crypto-agile log); field values are boundary-biased random numbers. " +
			"Around each value: encoding vs reference table, decode(encode), canary bytes behind the ABI size, every shorter output buffer, every truncation of the encoding, extensions, " +
			"single-byte changes, out-of-range fields, each reserved field absent / documented-size zero / one non-zero byte, three reader kinds (bytes.Buffer, bytes.Reader, file); " +
			"every []byte handed to an encoder or constructor (GUID HOB payload, event data, digests, SP800-155 locators, reset-block GUID, VMSA reserved fields, measured page) is also handed as the head of a buffer with 0xA5-filled spare capacity: same encoding as from a tight copy, all other rules again, spare bytes untouched. " +
			"Call sequences and reuse of values: every stream/slice decoder (and FwGUIDEntry.PopulateFromBytes) also decodes the case's encoding into a receiver that is not fresh (it decoded another random encoding of the structure before, or the caller built it holding another value) - same value, same length consumed, same re-encoding as into a fresh one; " +
			"every event-log encoder also runs on a value object that is overwritten in place with another value between calls and on the unchanged first value again; PutVmsa is followed by the caller editing the value in place (1-3 segment registers through the pointers the value holds after the call, 0-2 integer fields), a second PutVmsa of it, a PutVmsa of a never-written sparse save area (each register left out with probability 1, 1/2 or 1/4, or the empty message) and a third PutVmsa of the first: each page must be the ABI encoding of the value handed to that very call. " +
			"Appended cases (audit.go): results of earlier calls (decoded values, byte slices returned by MarshalToBytes / PageInfo.Bytes / SevEsResetBlockFromBytes / TDXMetadataFromBytes, GUID HOB values) are kept over 3-6 later calls on other values with failing decodes in between, judged again, then overwritten by the caller and the same inputs run once more; " +
			"the same entry points run in 4-8 goroutines at once on their own values (48 iterations per entry point, everybody released together; only values that were right alone) - same results as alone; " +
			"Marshal / WriteTo into a writer that fails after every number of accepted bytes below the encoding's length (partial or refused last write): an error must come back, and the value encodes unchanged afterwards into a writer that takes exactly the encoding; " +
			"stream decoders read their own encoding, truncations of it and encodings behind which the reader fails with a non-EOF error through readers with short reads (1 byte, 1-7, 16-64, one split point, last bytes together with io.EOF, empty reads, N-byte pieces, bufio with a 16-byte buffer): whatever is accepted is judged as through the other readers; " +
			"arrays of 511 B .. 310 KiB (sizes around 512 B, 4 KiB, 32 KiB, 64 KiB) in Uint32SizedArray / TCGEventData / TCG_PCR_EVENT2 / log, all stream probes with sampled truncations plus cuts around those sizes, pieces of 512..32769 bytes; SP800-155 events of exactly 65504 bytes and less (in range), 65505..65512 (counted) and 65513.. (out of range). " +
			"Appended cases (owned.go), the caller owns the input and goes on using it: 2-4 records of any stream structure are decoded one after the other from ONE input (bytes.Buffer over the caller's slice, bytes.Buffer used as a queue that is written to between decodes - with/without Reset, with/without pre-grown storage -, bytes.Reader, bufio.Reader with a 16..4096-byte buffer, reader with short reads), " +
			"all decoded values are kept and judged at return, after the last record and after the caller filled / inverted / rewrote its slice, refilled its queue or drained the bufio buffer; the same sequence again on fresh storage with the caller appending 1-24 bytes to every byte slice of each decoded value (result dropped) and overwriting a third of the values in place before decoding the next record, then decoding its untouched slice again; " +
			"SP800155Event3.UnmarshalFromBytes / SevEsResetBlockFromBytes / TDXMetadataFromBytes read 2-3 records one after the other from one scratch slice of the caller (same two probes). " +
			"Appended cases (again.go), the caller keeps ONE value object and hands it to the encoder call after call: a pool of 1-3 save areas and 4-8 PutVmsa calls, each on the object of the call before (7 in 10) or another one, after no edit / an in-range edit in place (registers through the held pointers, replaced or cleared, integers, reserved ranges absent <-> documented zeros) / an edit that takes it out of range (selector, attrib >= 2^16, cpl >= 2^8, one non-zero reserved byte, reserved_8/9) / the repair of one, into a fresh buffer or the (refilled or untouched) buffer of an earlier call; " +
			"the same walk (1-2 objects, 3-6 calls) for the ovmf/abi encoders with pointer receivers or arguments (FwGUIDEntry, SevMetadataSection, SevMetadata, MetadataOffset, TDXMetadataDescriptor, TDXMetadataSection, TDXMetadata through its header and section pointers with sections appended and dropped, the SEV-ES reset block with its GUID overwritten in the same backing array; out of range: Size >= 2^16, GUID not 16 bytes, SectionCount != len(Sections)): every call must encode the value the object holds at that call, or refuse it when it is out of range then. " +
			"Oracle (one-directional): encoder output equals the reference encoding and touches exactly the ABI size; decode(encode(v)) = v with exactly the encoding consumed; in-range values and documented-size zero reserved fields are accepted; " +
			"out-of-range fields and non-zero reserved fields are refused; an accepted byte string re-encodes to itself (SP800-155 trailing zero padding excepted). Refusals of malformed input are counted, never judged; a panic on malformed input counts as a refusal. " +
			"non-trivial = distinct (structure, probe, outcome) cells",
		Assumptions: []string{
			"FromBytes-style decoders that document a minimum length (TDX descriptor/section, SEV metadata, FwGUIDEntry, MetadataOffset) read the head of a larger block by design: extra bytes must not change the value, they are not required to be refused",
			"a decoder that panics on a truncated slice is counted as refusing it (totality is C07/C08's subject)",
			"VMSA fields behind XCR0 (valid_bitmap, x87_state_gpa, reserved_12) are outside the 0x670-byte launch image; PutVmsa's silence about non-zero values there is recorded as a note, not judged",
			"TDVF section counts are kept below 2^27 (the count*32 wrap is C08's subject and costs gigabytes to exercise)",
			"PAGE_INFO has unexported fields: it is driven through SnpMeasurement.Update* (digest = SHA-384 of the structure) and, for the remaining fields, by setting the unexported fields by name through reflection",
			"CreateEFIHOBGUID pads with append(), which zeroes 1..7 bytes behind len(data) in the caller's buffer when it has spare capacity; the property is about encodings, so exactly this behaviour is counted and noted (const judgeHobPadInCallersBuffer), any other write into a caller's spare capacity is judged",
			"CryptoAgileLog.Unmarshal appends to the receiver's Events: a log receiver that already holds events has them cleared by the harness before the judged decode; the appending itself is counted and noted (const judgeLogAppendOnReuse), not judged",
			"PutVmsa installs empty segment messages for the registers the caller left out (a side effect on the caller's value that encodes to the same bytes); the in-place edits of the sequence probe go through whatever segment pointers the value holds after the call, as sev.prepareVmsas does with CS",
			"EfiGUID / TaggedDigest / TCGPCClientPCREvent.Unmarshal fetch a fixed-size byte field with one r.Read and refuse a valid encoding when that Read is short (or returns its bytes together with io.EOF): counted and noted (const judgeShortReadRefusal), not judged; everything a short-read reader gets accepted is judged",
			"the concurrent cases run on the ordinary (not the -race) worker: they see shared state through wrong results, not through the race detector; a violation found there may not reproduce under --replay",
			"size fields changed by the single-byte probe are skipped when the declared size exceeds 1 MiB (allocation behaviour is C07's subject)",
		},
		ShardsQuick: 8, ShardsThor: 16, TimeoutS: 600, TimeoutThor: 3000, Run: run,
	})
}

// x is the per-case context.
type x struct {
	c     *core.Ctx
	i     int
	r     *rand.Rand
	gen   string
	st    *state
	fired map[string]bool
}

// state is per-shard.
type state struct {
	tmp      *os.File
	perRule  map[string]int
	thorough bool
}

// viol records at most one violation per (entry, rule) and case, and at most 12 per shard.
func (q *x) viol(entry, rule string, witness any, format string, a ...any) {
	k := entry + "|" + rule
	q.c.Count("violations/"+k, 1)
	if q.fired[k] {
		return
	}
	q.fired[k] = true
	q.st.perRule[k]++
	if q.st.perRule[k] > 12 {
		return
	}
	q.c.Violate(core.Violation{Kind: "oracle", Entry: entry, Site: rule, Gen: q.gen, Case: q.i, Detail: fmt.Sprintf(format, a...), Witness: witness})
}

// try runs repository code that is allowed to refuse by panicking (malformed input).
func (q *x) try(f func()) (panicked bool) {
	defer func() {
		if r := recover(); r != nil {
			panicked = true
		}
	}()
	q.c.Eval(1)
	f()
	return false
}

// must runs repository code on well-formed input: a panic there is a violation (Guard records it).
func (q *x) must(entry string, f func()) bool {
	m := q.c.Guard(q.i, entry, q.gen, core.Budget{}, f)
	return !m.Panicked
}

func hx(b []byte) string {
	if len(b) > 600 {
		return hex.EncodeToString(b[:600]) + fmt.Sprintf("…(%d bytes)", len(b))
	}
	return hex.EncodeToString(b)
}

// boundary-biased integers of a given byte width.
func pick(r *rand.Rand, width int) uint64 {
	max := ^uint64(0)
	if width < 8 {
		max = uint64(1)<<(8*uint(width)) - 1
	}
	switch r.IntN(8) {
	case 0:
		return 0
	case 1:
		return max
	case 2:
		return 1
	case 3:
		return max >> 1
	case 4:
		return (max >> 1) + 1
	case 5:
		return uint64(1) << uint(r.IntN(8*width))
	default:
		return r.Uint64() & max
	}
}

func rbytes(r *rand.Rand, n int) []byte {
	b := make([]byte, n)
	for i := range b {
		b[i] = byte(r.IntN(256))
	}
	return b
}

func rguid(r *rand.Rand) abiref.GUID {
	var g abiref.GUID
	switch r.IntN(6) {
	case 0:
		g, _ = abiref.ParseText(abiref.Vectors[r.IntN(len(abiref.Vectors))].Text)
	case 1: // all distinct bytes so that any permutation shows
		for i := range g {
			g[i] = byte(0x10*(i+1) + i)
		}
	default:
		copy(g[:], rbytes(r, 16))
	}
	return g
}

func allEq(b []byte, v byte) bool {
	for _, c := range b {
		if c != v {
			return false
		}
	}
	return true
}

type kind struct {
	name   string
	weight int
	f      func(q *x)
}

var kinds = []kind{
	{"EFI_GUID", 1, caseGUID},
	{"FwGUIDEntry", 1, caseFixed(0)},
	{"SevMetadataSection", 1, caseFixed(1)},
	{"SevMetadata", 1, caseFixed(2)},
	{"MetadataOffset", 1, caseFixed(3)},
	{"TDXMetadataDescriptor", 1, caseFixed(4)},
	{"TDXMetadataSection", 1, caseFixed(5)},
	{"SevEsResetBlock", 2, caseResetBlock},
	{"TDXMetadata", 2, caseTDXMetadata},
	{"HOB header", 1, caseHobHeader},
	{"HOB PHIT", 1, caseHobPHIT},
	{"HOB resource descriptor", 1, caseHobResource},
	{"HOB GUID extension", 2, caseHobGUID},
	{"VMSA values", 4, caseVmsaValues},
	{"VMSA reserved and range", 4, caseVmsaReserved},
	{"PAGE_INFO", 2, casePageInfo},
	{"ByteSizedCStr", 1, caseCStr},
	{"Uint32SizedArray", 1, caseArr32},
	{"EfiGUID stream", 1, caseEfiGUIDStream},
	{"TaggedDigest", 1, caseDigest},
	{"digest list", 1, caseDigests},
	{"TCGEventData", 2, caseEventData},
	{"TCGPCClientPCREvent", 1, casePCEvent},
	{"TCGPCREvent2", 2, caseEvent2},
	{"SP800155Event3", 4, caseEvt3},
	{"CryptoAgileLog", 4, caseLog},
}

var sched []int

func init() {
	// interleave so that every window of len(sched) cases visits every kind weight times
	maxw := 0
	for _, k := range kinds {
		if k.weight > maxw {
			maxw = k.weight
		}
	}
	for w := 0; w < maxw; w++ {
		for ki, k := range kinds {
			if w < k.weight {
				sched = append(sched, ki)
			}
		}
	}
}

func run(c *core.Ctx) {
	for _, err := range []error{abiref.SelfTest(), vmsaref.SelfTest(), tcgref.SelfTest()} {
		if err != nil {
			// A broken reference model must never produce a verdict.
			c.Note("reference self-test failed: %v", err)
			c.Floor("reference-models-self-consistent", false)
			return
		}
	}
	c.Floor("reference-models-self-consistent", true)
	st := &state{perRule: map[string]int{}, thorough: c.Thorough()}
	if f, err := os.CreateTemp("", "c18-reader-*"); err == nil {
		st.tmp = f
		os.Remove(f.Name()) // unlinked at once: nothing is left behind if the worker is killed
		defer f.Close()
	} else {
		c.Note("no temporary file for the file reader: %v", err)
	}
	n := c.N(20000, 500000)
	for i := 0; i < n; i++ {
		if !c.Mine(i) {
			continue
		}
		k := kinds[sched[i%len(sched)]]
		q := &x{c: c, i: i, r: c.Rand(i), gen: k.name, st: st, fired: map[string]bool{}}
		c.Begin(i, k.name, k.name, nil)
		before := floors["encoding-equals-reference"]
		k.f(q)
		if floors["encoding-equals-reference"] > before {
			matched[k.name]++
		}
		c.Count("cases/"+k.name, 1)
		c.End(i)
	}
	next := runAudit(c, st, n) // the audit's dimensions: cases n, n+1, ... (audit.go)
	next = runOwned(c, st, next) // the caller owns the input and goes on using it: cases behind the audit's (owned.go)
	runAgain(c, st, next)        // the caller keeps one value object and encodes it call after call: cases behind those (again.go)
	for _, f := range floorNames {
		c.Floor(f, floors[f] > 0)
	}
	// every structure must have been seen encoding to its reference layout at least once
	for _, k := range kinds {
		c.Floor("encoder-matched-reference/"+k.name, matched[k.name] > 0)
	}
}

// floors are set through seen(): every probe class must have been observed doing its non-trivial thing.
var floorNames = []string{
	"encoding-equals-reference", "decode-inverts-encode", "truncation-refused", "short-output-buffer-refused",
	"out-of-range-refused", "nonzero-reserved-refused", "documented-zero-reserved-accepted-some", "accepted-bytes-reencode-identically",
	"single-byte-change-refused", "single-byte-change-accepted", "log-cut-on-event-boundary-accepted", "sp800155-zero-padding-accepted",
	"sp800155-nonzero-padding-refused", "stream-readers-all-three", "vmsa-all-fields-decoded", "pageinfo-digest-checked",
	"encoding-independent-of-spare-capacity", "callers-spare-capacity-untouched",
	"encoding-independent-of-earlier-calls", "vmsa-call-sequence-checked", "decode-into-used-receiver-inverts-encode",
}
var floors = map[string]int{}
var matched = map[string]int{}

func seen(name string) { floors[name]++ }
