package c18

// Dimensions added by the workload audit (cases numbered behind the original ones):
//
//	held results      results of earlier calls (decoded values, returned byte slices) are kept while later
//	                  calls run - failing ones included -, looked at again, then edited by the caller, and
//	                  the same inputs are run once more
//	concurrent calls  the same entry points run in 4-8 goroutines at once on different values
//	failing writers   Marshal / WriteTo into a writer that stops accepting bytes at every position
//	short reads       stream decoders read through readers that return fewer bytes than asked for (one
//	                  byte, small random pieces, one split point, data together with io.EOF, empty reads,
//	                  a bufio.Reader with a 16-byte buffer) or fail part-way with another error than EOF
//	large arrays      size-prefixed arrays around 512 B / 4 KiB / 32 KiB / 64 KiB and up to ~300 KiB
//	                  (buffer growth and copy chunk sizes of the readers), SP800-155 events at exactly the
//	                  size a GUID HOB can carry
//
// Everything is judged by the rules the original cases use (encoding equals the reference, decode
// inverts encode with exactly the encoding consumed, whatever is accepted re-encodes to itself); the
// rule names added here only say which dimension exposed the difference.

import (
	"bufio"
	"bytes"
	"crypto/sha512"
	"encoding/binary"
	"errors"
	"fmt"
	"io"
	"math/rand/v2"
	"reflect"
	"sync"

	"github.com/google/gce-tcb-verifier/eventlog"
	"github.com/google/gce-tcb-verifier/ovmf/abi"
	opb "github.com/google/gce-tcb-verifier/proto/ovmf"
	"github.com/google/gce-tcb-verifier/sev"
	sgpb "github.com/google/go-sev-guest/proto/sevsnp"
	"github.com/google/uuid"
	"google.golang.org/protobuf/proto"

	"verifharness/core"
	"verifharness/props/c18/abiref"
	"verifharness/props/c18/hobref"
	"verifharness/props/c18/tcgref"
	"verifharness/props/c18/vmsaref"
)

// judgeShortReadRefusal: EfiGUID.Unmarshal, TaggedDigest.Unmarshal and TCGPCClientPCREvent.Unmarshal
// fetch their fixed-size byte fields with a single r.Read and refuse when it returns fewer bytes than
// the field has (or returns the last bytes together with io.EOF), which io.Reader permits. A valid
// encoding read through such a reader (pipe, socket, bufio.Reader, decompressor) is therefore refused.
// Whether "decoding the encoding yields the same value" covers the way a conforming reader cuts the
// byte string into Read results is for the coordinator to decide: refusals are counted and noted,
// everything such a reader gets ACCEPTED is judged like any other accepted input.
const judgeShortReadRefusal = true

var auditKinds = []kind{
	{"audit: held results", 5, caseHeld},
	{"audit: concurrent calls", 1, caseConcurrent},
	{"audit: failing writers", 5, caseFailWriter},
	{"audit: short reads", 7, caseChunked},
	{"audit: large arrays", 1, caseLarge},
}

var auditSched []int

func init() {
	maxw := 0
	for _, k := range auditKinds {
		maxw = max(maxw, k.weight)
	}
	for w := 0; w < maxw; w++ {
		for ki, k := range auditKinds {
			if w < k.weight {
				auditSched = append(auditSched, ki)
			}
		}
	}
	floorNames = append(floorNames,
		"held-results-unchanged-by-later-calls", "results-independent-of-edits-to-earlier-results", "concurrent-calls-same-results",
		"failing-writer-error-reported", "encoding-after-failed-write-unchanged", "short-read-decode-inverts-encode",
		"large-array-round-trip", "evt3-at-hob-limit-accepted", "evt3-over-hob-limit-refused", "nested-out-of-range-item-refused")
}

// runAudit runs the appended cases: numbers first .. first+count-1.
func runAudit(c *core.Ctx, st *state, first int) int {
	n := c.N(1900, 38000)
	for j := 0; j < n; j++ {
		i := first + j
		if !c.Mine(i) {
			continue
		}
		k := auditKinds[auditSched[j%len(auditSched)]]
		q := &x{c: c, i: i, r: c.Rand(i), gen: k.name, st: st, fired: map[string]bool{}}
		c.Begin(i, k.name, k.name, nil)
		k.f(q)
		c.Count("cases/"+k.name, 1)
		c.End(i)
	}
	return first + n
}

var streamMakers = []func(q *x) (stream, codec, []byte){
	mkCStr, mkArr32, mkEfiGUID,
	func(q *x) (stream, codec, []byte) { s, v, w, _ := mkDigest(q); return s, v, w },
	mkDigests, mkEventData, mkPCEvent, mkEvent2, mkLog,
}

func fastBytes(r *rand.Rand, n int) []byte {
	b := make([]byte, n)
	i := 0
	for ; i+8 <= n; i += 8 {
		binary.LittleEndian.PutUint64(b[i:], r.Uint64())
	}
	for ; i < n; i++ {
		b[i] = byte(r.IntN(256))
	}
	return b
}

func xorAll(b []byte) {
	for i := range b {
		b[i] ^= 0xFF
	}
}

// scribble overwrites, in place, every byte slice a decoded event-log value holds: what a caller does
// who recycles the buffers of a value it is done with.
func scribble(v any) {
	switch d := v.(type) {
	case *eventlog.ByteSizedCStr:
		d.Data = "scribbled"
	case *eventlog.Uint32SizedArray:
		xorAll(d.Data)
	case *eventlog.EfiGUID:
		xorAll(d.UUID[:])
	case *eventlog.TaggedDigest:
		if d != nil {
			xorAll(d.Digest)
		}
	case *eventlog.Uint32SizedArrayT[*eventlog.TaggedDigest]:
		for _, e := range d.Array {
			scribble(e)
		}
	case *eventlog.TCGEventData:
		switch e := d.Event.(type) {
		case *eventlog.UnknownEvent:
			xorAll(e.Data)
			if len(e.Data) == 0 {
				e.Data = []byte{0xEE} // the event object itself is put to another use
			}
		case *eventlog.SP800155Event3:
			scribble(e)
		}
	case *eventlog.SP800155Event3:
		d.PlatformModel.Data, d.FirmwareVersion.Data = "scribbled", "scribbled"
		d.PlatformManufacturerID, d.RIMLocatorType = ^d.PlatformManufacturerID, ^d.RIMLocatorType
		xorAll(d.RIMLocator.Data)
		xorAll(d.PlatformCertLocator.Data)
		xorAll(d.ReferenceManifestGUID.UUID[:])
	case *eventlog.TCGPCClientPCREvent:
		xorAll(d.SHA1Digest[:])
		scribble(&d.EventData)
	case *eventlog.TCGPCREvent2:
		if d != nil {
			scribble(&d.Digests)
			scribble(&d.EventData)
		}
	case *eventlog.CryptoAgileLog:
		scribble(&d.Header)
		for _, e := range d.Events {
			scribble(e)
		}
	}
}

// ---- held results ----

type heldDec struct {
	s          stream
	val        codec
	want, keep []byte
	dec        codec
}

type heldBytes struct {
	entry, what string
	got, want   []byte
}

func guidHobBytes(g abiref.GUID, data []byte) []byte {
	padded := (len(data) + 7) &^ 7
	e := &tcgref.Enc{}
	e.U16(hobref.TypeGUIDExt)
	e.U16(uint16(hobref.GUIDHobSize + padded))
	e.U32(0)
	e.GUID(g)
	e.Raw(data)
	e.Raw(make([]byte, padded-len(data)))
	return e.B
}

func caseHeld(q *x) {
	c := q.c
	const eUn3, eMa3 = "eventlog.SP800155Event3.UnmarshalFromBytes", "eventlog.SP800155Event3.MarshalToBytes"
	m := 3 + q.r.IntN(4)
	var hs []heldDec
	failed := 0
	for k := 0; k < m; k++ {
		s, val, want := streamMakers[q.r.IntN(len(streamMakers))](q)
		if q.r.IntN(2) == 0 { // a call of the same decoder that fails, just before the good one
			cut := q.r.IntN(len(want))
			if r, _, ok := q.open(q.r.IntN(2), want[:cut]); ok {
				d := s.fresh()
				var err error
				if q.try(func() { err = d.Unmarshal(r) }) || err != nil {
					failed++
				}
			}
		}
		kind := q.r.IntN(2)
		r, left, ok := q.open(kind, want)
		if !ok {
			continue
		}
		d := s.fresh()
		var err error
		if !q.must(s.eUn(), func() { err = d.Unmarshal(r) }) {
			continue
		}
		wit := map[string]any{"input": hx(want), "reader": rdNames[kind], "failed_calls_before": failed}
		if err != nil {
			q.viol(s.eUn(), "valid-encoding-refused", wit, "%s: decoder refuses its own encoding %s (after %d failed and %d successful decodes in this sequence): %v", s.name, hx(want), failed, len(hs), err)
			continue
		}
		if left() != 0 {
			q.viol(s.eUn(), "consumed-length-differs-from-abi", wit, "%s: decoder left %d of %d bytes unread", s.name, left(), len(want))
			continue
		}
		if ok, why := s.same(d); !ok {
			q.viol(s.eUn(), "decoded-value-differs", wit, "%s: decode(encode(v)) != v (after %d failed and %d successful decodes in this sequence): %s", s.name, failed, len(hs), why)
			continue
		}
		hs = append(hs, heldDec{s: s, val: val, want: want, keep: append([]byte(nil), want...), dec: d})
	}
	var hb []heldBytes
	// SP800-155 events: the byte slices MarshalToBytes returns and the values UnmarshalFromBytes fills
	type heldEvt struct {
		v    tcgref.Evt3
		want []byte
		dec  *eventlog.SP800155Event3
	}
	var evs []heldEvt
	for k := 2 + q.r.IntN(2); k > 0; k-- {
		v := randEvt3(q)
		want := tcgref.Evt3Bytes(v)
		var b []byte
		var err error
		if !q.must(eMa3, func() { b, err = repoEvt3(v).MarshalToBytes() }) || err != nil || !bytes.Equal(b, want) {
			c.Count("held-setup-skipped/SP800155Event3 (judged by its own cases)", 1)
			continue
		}
		d := &eventlog.SP800155Event3{}
		body := append([]byte(nil), want[16:]...)
		if !q.must(eUn3, func() { err = d.UnmarshalFromBytes(body) }) || err != nil {
			c.Count("held-setup-skipped/SP800155Event3 (judged by its own cases)", 1)
			continue
		}
		hb = append(hb, heldBytes{eMa3, "the byte slice SP800155Event3.MarshalToBytes returned", b, want})
		evs = append(evs, heldEvt{v, want, d})
	}
	// SEV-ES reset blocks and whole TDVF metadata decoded from byte slices
	type heldBlk struct {
		v   abiref.Value
		enc []byte
		got *opb.SevEsResetBlock
	}
	var blks []heldBlk
	for k := 2; k > 0; k-- {
		v := randValue(q, abiref.ResetBlock)
		v.U["size"] &= 0xFFFF
		enc := abiref.ResetBlock.Encode(v)
		var got *opb.SevEsResetBlock
		var err error
		if !q.must("abi.SevEsResetBlockFromBytes", func() { got, err = abi.SevEsResetBlockFromBytes(enc) }) || err != nil || got == nil {
			continue
		}
		blks = append(blks, heldBlk{v, enc, got})
	}
	sameBlk := func(b heldBlk, got *opb.SevEsResetBlock) bool {
		g := b.v.G["guid"]
		return got != nil && uint64(got.Addr) == b.v.U["addr"] && uint64(got.Size) == b.v.U["size"] && bytes.Equal(got.Guid, g[:])
	}
	type heldTdx struct {
		enc  []byte
		secs []abiref.Value
		hv   abiref.Value
		got  *abi.TDXMetadata
	}
	var tdxs []heldTdx
	sameTdx := func(t heldTdx, got *abi.TDXMetadata) bool {
		if got == nil || got.Header == nil || len(got.Sections) != len(t.secs) {
			return false
		}
		h := got.Header
		if uint64(h.Signature) != t.hv.U["signature"] || uint64(h.Length) != t.hv.U["length"] || uint64(h.Version) != t.hv.U["version"] || int(h.SectionCount) != len(t.secs) {
			return false
		}
		for k := range t.secs {
			if got.Sections[k] == nil {
				return false
			}
			if ok, _ := abiref.TDXSection.Equal(tdxSectionValue(got.Sections[k]), t.secs[k]); !ok {
				return false
			}
		}
		return true
	}
	for k := 2; k > 0; k-- {
		n := 1 + q.r.IntN(4)
		hv := randValue(q, abiref.TDXDesc)
		hv.U["section_count"] = uint64(n)
		enc := abiref.TDXDesc.Encode(hv)
		var secs []abiref.Value
		for j := 0; j < n; j++ {
			sv := randValue(q, abiref.TDXSection)
			secs = append(secs, sv)
			enc = append(enc, abiref.TDXSection.Encode(sv)...)
		}
		var got *abi.TDXMetadata
		var err error
		if !q.must("abi.TDXMetadataFromBytes", func() { got, err = abi.TDXMetadataFromBytes(enc) }) || err != nil {
			continue
		}
		t := heldTdx{enc, secs, hv, got}
		if sameTdx(t, got) {
			tdxs = append(tdxs, t)
		}
	}
	// GUID HOBs built one after the other, written afterwards
	type heldHob struct {
		h    abi.EFIHOBGUID
		want []byte
	}
	var hobs []heldHob
	for k := 2 + q.r.IntN(2); k > 0; k-- {
		g := rguid(q.r)
		data := rbytes(q.r, 1+q.r.IntN(120))
		in := append(make([]byte, 0, len(data)), data...) // len == cap: the constructor has to allocate for the padding
		var h abi.EFIHOBGUID
		var err error
		if !q.must("abi.CreateEFIHOBGUID", func() { h, err = abi.CreateEFIHOBGUID(uuid.UUID(g), in) }) || err != nil {
			continue
		}
		hobs = append(hobs, heldHob{h, guidHobBytes(g, data)})
	}
	// PAGE_INFO structures serialised one after the other
	for k := 2; k > 0; k-- {
		var pi sev.PageInfo
		rv := reflect.ValueOf(&pi).Elem()
		var w vmsaref.PageInfo
		copy(w.DigestCur[:], rbytes(q.r, 48))
		copy(w.Contents[:], rbytes(q.r, 48))
		w.Length, w.PageType, w.GPA = uint16(pick(q.r, 2)), uint8(pick(q.r, 1)), pick(q.r, 8)
		if !(setUnexported(rv, "digestCur", w.DigestCur) && setUnexported(rv, "contents", w.Contents) && setUnexported(rv, "length", w.Length) &&
			setUnexported(rv, "pageType", w.PageType) && setUnexported(rv, "gpa", w.GPA)) {
			break
		}
		var b []byte
		var err error
		if !q.must("sev.PageInfo.Bytes", func() { b, err = pi.Bytes() }) || err != nil || !bytes.Equal(b, w.Encode()) {
			continue
		}
		hb = append(hb, heldBytes{"sev.PageInfo.Bytes", "the byte slice PageInfo.Bytes returned", b, w.Encode()})
	}

	// --- everything held is looked at again, after all the later calls ---
	good := true
	for k, h := range hs {
		if !bytes.Equal(h.want, h.keep) {
			c.Count("harness/reference-encoding-changed", 1)
			continue
		}
		wit := map[string]any{"input": hx(h.want), "position_in_sequence": k, "later_decodes": len(hs) - 1 - k, "failed_calls_in_sequence": failed}
		if ok, why := h.s.same(h.dec); !ok {
			good = false
			q.viol(h.s.eUn(), "result-changed-by-later-calls", wit, "%s: the value decoded from %s was right when Unmarshal returned and is different after %d later decoder/encoder calls on other values: %s", h.s.name, hx(h.want), len(hs)-1-k+len(evs), why)
			continue
		}
		q.accepted(h.s, "value kept while later calls ran", h.want, len(h.want), h.dec, rdBuffer)
	}
	for _, b := range hb {
		if !bytes.Equal(b.got, b.want) {
			good = false
			q.viol(b.entry, "result-changed-by-later-calls", map[string]any{"now": hx(b.got), "reference_encoding": hx(b.want)}, "%s was the reference encoding when the call returned and reads %s after later calls on other values; reference %s", b.what, hx(b.got), hx(b.want))
		}
	}
	for _, e := range evs {
		if ok, f := tcgref.EqualEvt3(fromRepoEvt3(e.dec), e.v); !ok {
			good = false
			q.viol(eUn3, "result-changed-by-later-calls", map[string]any{"input": hx(e.want[16:])}, "SP800155Event3: field %s of a decoded event changed while later events were decoded and encoded", f)
		}
	}
	for _, b := range blks {
		if !sameBlk(b, b.got) {
			good = false
			q.viol("abi.SevEsResetBlockFromBytes", "result-changed-by-later-calls", map[string]any{"input": hx(b.enc), "now": fmt.Sprint(b.got)}, "the reset block decoded from %s reads %v after a later decode of another block", hx(b.enc), b.got)
		}
	}
	for _, t := range tdxs {
		if !sameTdx(t, t.got) {
			good = false
			q.viol("abi.TDXMetadataFromBytes", "result-changed-by-later-calls", map[string]any{"input": hx(t.enc)}, "the TDVF metadata decoded from %s changed after a later decode of other metadata", hx(t.enc))
		}
	}
	for _, h := range hobs {
		var buf bytes.Buffer
		var err error
		if !q.must("abi.EFIHOBGUID.WriteTo", func() { _, err = h.h.WriteTo(&buf) }) {
			continue
		}
		if err != nil || !bytes.Equal(buf.Bytes(), h.want) {
			good = false
			q.viol("abi.EFIHOBGUID.WriteTo", "result-changed-by-later-calls", map[string]any{"encoded": hx(buf.Bytes()), "reference_encoding": hx(h.want)},
				"a GUID HOB built by CreateEFIHOBGUID and written after %d other HOBs were built encodes as %s (err=%v); its GUID and payload give %s", len(hobs)-1, hx(buf.Bytes()), err, hx(h.want))
		}
	}
	if good && len(hs) > 0 {
		seen("held-results-unchanged-by-later-calls")
		c.Cell("held results|%d decoded values, encoder results, HOBs kept over later calls (failed ones among them: %v)|unchanged", min(len(hs), 3), failed > 0)
		for _, h := range hs {
			c.Cell("%s|decoded value kept while later calls ran|unchanged, re-encodes to its input", h.s.name)
		}
	}

	// --- the caller recycles what it got back; the same inputs once more ---
	for _, h := range hs {
		scribble(h.dec)
	}
	for _, b := range hb {
		xorAll(b.got)
	}
	for _, e := range evs {
		scribble(e.dec)
	}
	for _, b := range blks {
		xorAll(b.got.Guid)
		b.got.Addr, b.got.Size = ^b.got.Addr, ^b.got.Size
	}
	for _, t := range tdxs {
		t.got.Header.Length ^= 0xFFFFFFFF
		for _, s := range t.got.Sections {
			s.DataOffset ^= 0xFFFFFFFF
			s.MemorySize ^= 0xFFFFFFFF
		}
	}
	good = true
	for _, h := range hs {
		if !bytes.Equal(h.want, h.keep) {
			c.Count("harness/reference-encoding-changed", 1)
			continue
		}
		d := h.s.fresh()
		r := bytes.NewReader(h.keep)
		var err error
		if !q.must(h.s.eUn(), func() { err = d.Unmarshal(r) }) {
			continue
		}
		wit := map[string]any{"input": hx(h.keep)}
		if err != nil {
			good = false
			q.viol(h.s.eUn(), "valid-encoding-refused", wit, "%s: decoder refuses its own encoding %s after the caller overwrote the values earlier decodes returned: %v", h.s.name, hx(h.keep), err)
			continue
		}
		if ok, why := h.s.same(d); !ok || r.Len() != 0 {
			good = false
			q.viol(h.s.eUn(), "result-depends-on-edits-to-earlier-results", wit, "%s: decoding %s again after the caller overwrote the byte slices of earlier results gives another value (%d bytes unread): %s", h.s.name, hx(h.keep), r.Len(), why)
			continue
		}
		var b bytes.Buffer
		if q.must(h.s.eMa(), func() { err = h.val.Marshal(&b) }) && (err != nil || !bytes.Equal(b.Bytes(), h.keep)) {
			good = false
			q.viol(h.s.eMa(), "result-depends-on-edits-to-earlier-results", map[string]any{"encoded": hx(b.Bytes()), "reference_encoding": hx(h.keep)},
				"%s: the unchanged value encodes as %s (err=%v) after the caller overwrote earlier results; reference %s", h.s.name, hx(b.Bytes()), err, hx(h.keep))
		}
	}
	for _, e := range evs {
		var b []byte
		var err error
		if q.must(eMa3, func() { b, err = repoEvt3(e.v).MarshalToBytes() }) && (err != nil || !bytes.Equal(b, e.want)) {
			good = false
			q.viol(eMa3, "result-depends-on-edits-to-earlier-results", map[string]any{"encoded": hx(b), "reference_encoding": hx(e.want)},
				"SP800155Event3.MarshalToBytes gives %s (err=%v) after the caller overwrote the byte slices earlier calls returned; reference %s", hx(b), err, hx(e.want))
		}
		d := &eventlog.SP800155Event3{}
		if q.must(eUn3, func() { err = d.UnmarshalFromBytes(append([]byte(nil), e.want[16:]...)) }) {
			if ok, f := tcgref.EqualEvt3(fromRepoEvt3(d), e.v); err != nil || !ok {
				good = false
				q.viol(eUn3, "result-depends-on-edits-to-earlier-results", map[string]any{"input": hx(e.want[16:])}, "SP800155Event3 decoded again after the caller overwrote earlier results: err=%v, field %s differs", err, f)
			}
		}
	}
	for _, b := range blks {
		var got *opb.SevEsResetBlock
		var err error
		if q.must("abi.SevEsResetBlockFromBytes", func() { got, err = abi.SevEsResetBlockFromBytes(b.enc) }) && (err != nil || !sameBlk(b, got)) {
			good = false
			q.viol("abi.SevEsResetBlockFromBytes", "result-depends-on-edits-to-earlier-results", map[string]any{"input": hx(b.enc), "decoded": fmt.Sprint(got)}, "the reset block %s decodes as %v (err=%v) after the caller overwrote an earlier result", hx(b.enc), got, err)
		}
	}
	for _, t := range tdxs {
		var got *abi.TDXMetadata
		var err error
		if q.must("abi.TDXMetadataFromBytes", func() { got, err = abi.TDXMetadataFromBytes(t.enc) }) && (err != nil || !sameTdx(t, got)) {
			good = false
			q.viol("abi.TDXMetadataFromBytes", "result-depends-on-edits-to-earlier-results", map[string]any{"input": hx(t.enc)}, "TDVF metadata %s decodes differently (err=%v) after the caller overwrote an earlier result", hx(t.enc), err)
		}
	}
	if good && len(hs) > 0 {
		seen("results-independent-of-edits-to-earlier-results")
		c.Cell("held results|caller overwrites what earlier calls returned, same inputs again|same results")
	}
	// an empty but non-nil byte slice is the same value as an absent one
	for _, p := range []struct {
		name string
		v    codec
		want []byte
	}{
		{"Uint32SizedArray", &eventlog.Uint32SizedArray{Data: []byte{}}, []byte{0, 0, 0, 0}},
		{"TCGEventData", &eventlog.TCGEventData{Event: &eventlog.UnknownEvent{Data: []byte{}}}, []byte{0, 0, 0, 0}},
		{"Uint32SizedArrayT[TaggedDigest]", &eventlog.Uint32SizedArrayT[*eventlog.TaggedDigest]{Array: []*eventlog.TaggedDigest{}}, []byte{0, 0, 0, 0}},
		{"TCGPCREvent2", &eventlog.TCGPCREvent2{PCRIndex: 7, EventType: 9, Digests: eventlog.Uint32SizedArrayT[*eventlog.TaggedDigest]{Array: []*eventlog.TaggedDigest{}}, EventData: eventlog.TCGEventData{Event: &eventlog.UnknownEvent{Data: []byte{}}}},
			[]byte{7, 0, 0, 0, 9, 0, 0, 0, 0, 0, 0, 0, 0, 0, 0, 0}},
	} {
		var b bytes.Buffer
		var err error
		entry := "eventlog." + p.name + ".Marshal"
		if !q.must(entry, func() { err = p.v.Marshal(&b) }) {
			continue
		}
		if err != nil {
			q.viol(entry, "in-range-value-refused", nil, "%s with empty, non-nil slices is refused: %v", p.name, err)
		} else if !bytes.Equal(b.Bytes(), p.want) {
			q.viol(entry, "encoding-differs-from-abi", map[string]any{"encoded": hx(b.Bytes()), "reference_encoding": hx(p.want)}, "%s with empty, non-nil slices encodes as %s, the layout gives %s", p.name, hx(b.Bytes()), hx(p.want))
		} else {
			c.Cell("%s|empty non-nil slices|encoded like absent ones", p.name)
		}
	}
}

// ---- concurrent calls ----

type ctask struct {
	entry, what string
	run         func() string // "" = the results are the reference ones
}

func safely(f func() string) (out string) {
	defer func() {
		if r := recover(); r != nil {
			out = fmt.Sprint("panic: ", r)
		}
	}()
	return f()
}

const nConKinds = 8

// conTask builds one task of the given kind (sub selects the structure) from the case's PRNG; the
// closure it returns touches nothing but its own values.
func conTask(q *x, kind, sub int) (ctask, bool) {
	switch kind {
	case 0, 1: // stream structures
		s, val, want := streamMakers[sub%len(streamMakers)](q)
		return ctask{s.eMa() + " + " + s.eUn(), s.name, func() string {
			var b bytes.Buffer
			if err := val.Marshal(&b); err != nil || !bytes.Equal(b.Bytes(), want) {
				return fmt.Sprintf("encoded %s (err=%v), reference %s", hx(b.Bytes()), err, hx(want))
			}
			d := s.fresh()
			r := bytes.NewReader(want)
			if err := d.Unmarshal(r); err != nil {
				return fmt.Sprintf("own encoding %s refused: %v", hx(want), err)
			}
			if r.Len() != 0 {
				return fmt.Sprintf("%d of %d bytes left unread", r.Len(), len(want))
			}
			if ok, why := s.same(d); !ok {
				return "decode(encode(v)) != v: " + why
			}
			return ""
		}}, true
	case 2: // packed ovmf/abi structures
		fc := fixedCodecs[sub%len(fixedCodecs)]
		v := randValue(q, fc.lay)
		want := fc.lay.Encode(v)
		return ctask{fc.entryPut + " + " + fc.entryDec, fc.lay.Name, func() string {
			buf := make([]byte, fc.lay.Size)
			if err := fc.put(v, buf); err != nil || !bytes.Equal(buf, want) {
				return fmt.Sprintf("encoded %s (err=%v), reference %s", hx(buf), err, hx(want))
			}
			got, err := fc.dec(want)
			if err != nil {
				return fmt.Sprintf("own encoding refused: %v", err)
			}
			if ok, why := fc.lay.Equal(got, v); !ok {
				return "decode(encode(v)) != v: " + why
			}
			return ""
		}}, true
	case 3: // VMSA
		v, want, ok := randVmsaP(q, []int{2, 4, 8}[sub%3])
		if !ok {
			return ctask{}, false
		}
		ref := make([]byte, vmsaref.Size)
		var err error
		wire, _ := proto.Marshal(v)
		if !q.must(entryVmsa, func() { err = sev.PutVmsa(v, ref) }) || err != nil || !checkVmsaPage(q, ref, want, map[string]any{"vmcb_save_area_proto": hx(wire)}) {
			return ctask{}, false
		}
		return ctask{entryVmsa, "VMSA", func() string {
			p := bytes.Repeat([]byte{canary}, vmsaref.Size)
			if err := sev.PutVmsa(v, p); err != nil || !bytes.Equal(p, ref) {
				return fmt.Sprintf("page differs from the one written when called alone (err=%v) for save area %s", err, hx(wire))
			}
			return ""
		}}, true
	case 4: // GUID HOB
		g := rguid(q.r)
		data := rbytes(q.r, 1+q.r.IntN(100))
		want := guidHobBytes(g, data)
		return ctask{"abi.CreateEFIHOBGUID + abi.EFIHOBGUID.WriteTo", "HOB GUID extension", func() string {
			in := append(make([]byte, 0, len(data)), data...)
			h, err := abi.CreateEFIHOBGUID(uuid.UUID(g), in)
			if err != nil {
				return "refused: " + err.Error()
			}
			var b bytes.Buffer
			if _, err := h.WriteTo(&b); err != nil || !bytes.Equal(b.Bytes(), want) {
				return fmt.Sprintf("encoded %s (err=%v), reference %s", hx(b.Bytes()), err, hx(want))
			}
			return ""
		}}, true
	case 5: // SP800-155 event
		v := randEvt3(q)
		want := tcgref.Evt3Bytes(v)
		return ctask{"eventlog.SP800155Event3.MarshalToBytes + UnmarshalFromBytes", "SP800155Event3", func() string {
			b, err := repoEvt3(v).MarshalToBytes()
			if err != nil || !bytes.Equal(b, want) {
				return fmt.Sprintf("encoded %s (err=%v), reference %s", hx(b), err, hx(want))
			}
			d := &eventlog.SP800155Event3{}
			if err := d.UnmarshalFromBytes(want[16:]); err != nil {
				return "own encoding refused: " + err.Error()
			}
			if ok, f := tcgref.EqualEvt3(fromRepoEvt3(d), v); !ok {
				return "decode(encode(v)) differs in " + f
			}
			return ""
		}}, true
	case 6: // SEV-ES reset block
		v := randValue(q, abiref.ResetBlock)
		v.U["size"] &= 0xFFFF
		want := abiref.ResetBlock.Encode(v)
		g := v.G["guid"]
		return ctask{"abi.PutSevEsResetBlock + abi.SevEsResetBlockFromBytes", "SevEsResetBlock", func() string {
			buf := make([]byte, abiref.ResetBlock.Size)
			if err := abi.PutSevEsResetBlock(buf, &opb.SevEsResetBlock{Addr: uint32(v.U["addr"]), Size: uint32(v.U["size"]), Guid: g[:]}); err != nil || !bytes.Equal(buf, want) {
				return fmt.Sprintf("encoded %s (err=%v), reference %s", hx(buf), err, hx(want))
			}
			got, err := abi.SevEsResetBlockFromBytes(want)
			if err != nil || got == nil || uint64(got.Addr) != v.U["addr"] || uint64(got.Size) != v.U["size"] || !bytes.Equal(got.Guid, g[:]) {
				return fmt.Sprintf("decode(encode(v)) = %v, err=%v", got, err)
			}
			return ""
		}}, true
	default: // PAGE_INFO through the measurement
		prod := []sgpb.SevProduct_SevProductName{sgpb.SevProduct_SEV_PRODUCT_MILAN, sgpb.SevProduct_SEV_PRODUCT_GENOA}[sub%2]
		var ref vmsaref.PageInfo
		copy(ref.DigestCur[:], rbytes(q.r, 48))
		gpa := pick(q.r, 8) &^ 0xFFF
		pt := sev.PageType(1 + q.r.IntN(6))
		data := fastBytes(q.r, 4096)
		ref.Length, ref.PageType, ref.GPA, ref.Contents = vmsaref.PageInfoSize, uint8(pt), gpa, sha512.Sum384(data)
		want := sha512.Sum384(ref.Encode())
		return ctask{"sev.SnpMeasurement.Update4K", "PAGE_INFO", func() string {
			ms := &sev.SnpMeasurement{Product: prod, Digest: ref.DigestCur}
			if err := ms.Update4K(gpa, data, pt); err != nil || ms.Digest != want {
				return fmt.Sprintf("digest %x (err=%v), SHA-384 of the ABI PAGE_INFO is %x", ms.Digest, err, want)
			}
			return ""
		}}, true
	}
}

func caseConcurrent(q *x) {
	c := q.c
	G := 4 + q.r.IntN(5)
	steps := 6
	iters := 48
	type step struct{ kind, sub int }
	plan := make([]step, steps)
	for k := range plan {
		plan[k] = step{q.r.IntN(nConKinds), q.r.IntN(1 << 16)}
	}
	tasks := make([][]ctask, G)
	skip := make([][]bool, G)
	for g := 0; g < G; g++ {
		tasks[g] = make([]ctask, steps)
		skip[g] = make([]bool, steps)
		for k, p := range plan {
			t, ok := conTask(q, p.kind, p.sub)
			if ok { // alone first: only what is right alone is run concurrently
				c.Eval(1)
				if d := safely(t.run); d != "" {
					ok = false
					c.Count("concurrent-setup-skipped (wrong when called alone: judged by the structure's own cases)", 1)
				}
			}
			tasks[g][k], skip[g][k] = t, !ok
		}
	}
	barriers := make([]sync.WaitGroup, steps)
	for k := range barriers {
		barriers[k].Add(G)
	}
	failures := make([][]string, G) // written by goroutine g only, read after wg.Wait
	var wg sync.WaitGroup
	for g := 0; g < G; g++ {
		failures[g] = make([]string, steps)
		wg.Add(1)
		go func(g int) {
			defer wg.Done()
			for k := 0; k < steps; k++ {
				barriers[k].Done()
				barriers[k].Wait() // everybody enters the same entry point together
				if skip[g][k] {
					continue
				}
				for it := 0; it < iters; it++ {
					if d := safely(tasks[g][k].run); d != "" {
						failures[g][k] = fmt.Sprintf("iteration %d: %s", it, d)
						break
					}
				}
			}
		}(g)
	}
	wg.Wait()
	c.Eval(G * steps * iters)
	good, ran := true, 0
	for g := 0; g < G; g++ {
		for k := 0; k < steps; k++ {
			if skip[g][k] {
				continue
			}
			ran++
			t := tasks[g][k]
			if failures[g][k] != "" {
				good = false
				q.viol(t.entry, "result-differs-under-concurrent-calls", map[string]any{"structure": t.what, "goroutines": G, "detail": failures[g][k]},
					"%s: right when called alone, wrong while %d goroutines run the same entry point on their own values: %s", t.what, G, failures[g][k])
			} else {
				c.Cell("%s|same entry point in several goroutines at once, own values|same results as alone", t.what)
			}
		}
	}
	if good && ran > 0 {
		seen("concurrent-calls-same-results")
		c.Max("concurrent-goroutines", int64(G))
	}
}

// ---- failing writers ----

var errInjectedWrite = errors.New("injected write fault")

// faultWriter accepts limit bytes in total. The Write that would exceed the limit returns an error,
// after taking the bytes that still fit (partial) or none of them.
type faultWriter struct {
	limit   int
	partial bool
	got     []byte
}

func (w *faultWriter) Write(p []byte) (int, error) {
	room := w.limit - len(w.got)
	if len(p) <= room {
		w.got = append(w.got, p...)
		return len(p), nil
	}
	if w.partial && room > 0 {
		w.got = append(w.got, p[:room]...)
		return room, errInjectedWrite
	}
	return 0, errInjectedWrite
}

func caseFailWriter(q *x) {
	c := q.c
	var name, entry string
	var write func(w io.Writer) (int64, bool, error) // bytes reported (if the API reports them), error
	switch q.r.IntN(5) {
	case 0:
		var h writerTo
		switch q.r.IntN(4) {
		case 0:
			hh, _ := randHeader(q)
			h, name, entry = hh, "HOB header", "abi.EFIHOBGenericHeader.WriteTo"
		case 1:
			hh, _ := randHeader(q)
			h, name, entry = abi.EFIHOBHandoffInfoTable{Header: hh, Version: uint32(pick(q.r, 4)), EfiMemoryTop: abi.EFIPhysicalAddress(pick(q.r, 8)), EfiEndOfHobList: abi.EFIPhysicalAddress(pick(q.r, 8))}, "HOB PHIT", "abi.EFIHOBHandoffInfoTable.WriteTo"
		case 2:
			hh, _ := randHeader(q)
			h, name, entry = abi.EFIHOBResourceDescriptor{Header: hh, Owner: efiguid(rguid(q.r)), PhysicalStart: abi.EFIPhysicalAddress(pick(q.r, 8)), ResourceLength: pick(q.r, 8)}, "HOB resource descriptor", "abi.EFIHOBResourceDescriptor.WriteTo"
		default:
			data := rbytes(q.r, 1+q.r.IntN(60))
			hg, err := abi.CreateEFIHOBGUID(uuid.UUID(rguid(q.r)), data[:len(data):len(data)])
			if err != nil {
				return
			}
			h, name, entry = hg, "HOB GUID extension", "abi.EFIHOBGUID.WriteTo"
		}
		write = func(w io.Writer) (int64, bool, error) { n, err := h.WriteTo(w); return n, true, err }
	default:
		s, val, _ := streamMakers[q.r.IntN(len(streamMakers))](q)
		name, entry = s.name, s.eMa()
		write = func(w io.Writer) (int64, bool, error) { return 0, false, val.Marshal(w) }
	}
	// the encoding, from a writer that takes everything (judged against the reference by the structure's own cases)
	var ref bytes.Buffer
	var err error
	if !q.must(entry, func() { _, _, err = write(&ref) }) || err != nil {
		return
	}
	want := append([]byte(nil), ref.Bytes()...)
	var limits []int
	if len(want) <= 96 {
		for k := 0; k < len(want); k++ {
			limits = append(limits, k)
		}
	} else {
		limits = []int{0, 1, len(want) - 1, len(want) / 2}
		for k := 0; k < 12; k++ {
			limits = append(limits, q.r.IntN(len(want)))
		}
	}
	for _, lim := range limits {
		w := &faultWriter{limit: lim, partial: q.r.IntN(2) == 0}
		var n int64
		var hasN bool
		if !q.must(entry, func() { n, hasN, err = write(w) }) {
			continue
		}
		if err == nil {
			q.viol(entry, "success-reported-for-incomplete-encoding", map[string]any{"writer_accepted_bytes": lim, "encoding_len": len(want), "delivered": hx(w.got), "reported_n": n},
				"%s: the writer failed after %d of the %d bytes of the encoding, the encoder reports success (n=%d, has n: %v); delivered: %s", name, lim, len(want), n, hasN, hx(w.got))
			continue
		}
		seen("failing-writer-error-reported")
		c.Count("failing-writer-error-reported/"+name, 1)
		if bytes.HasPrefix(want, w.got) {
			c.Count("failing-writer-delivered-a-prefix-of-the-encoding", 1)
		} else {
			c.Count("failing-writer-delivered-other-bytes (not judged)", 1)
		}
		c.Cell("%s|writer fails before the encoding is complete|error returned", name)
	}
	// a writer that takes exactly the encoding and not a byte more
	{
		w := &faultWriter{limit: len(want)}
		var n int64
		var hasN bool
		if q.must(entry, func() { n, hasN, err = write(w) }) {
			switch {
			case err != nil:
				q.viol(entry, "in-range-value-refused", map[string]any{"encoding_len": len(want)}, "%s: the encoder fails on a writer that accepts exactly the %d bytes of the encoding: %v", name, len(want), err)
			case !bytes.Equal(w.got, want):
				q.viol(entry, "encoding-depends-on-earlier-calls", map[string]any{"encoded": hx(w.got), "first_encoding": hx(want)}, "%s: after writes that failed the same value encodes as %s, before them as %s", name, hx(w.got), hx(want))
			case hasN && n != int64(len(want)):
				q.viol(entry, "reported-length-differs-from-written", nil, "%s: WriteTo returned %d but wrote %d bytes", name, n, len(want))
			default:
				seen("encoding-after-failed-write-unchanged")
				c.Cell("%s|same value after failed writes, writer takes exactly the encoding|same encoding", name)
			}
		}
	}
	nestedOutOfRange(q)
}

// nestedOutOfRange: one item of a multi-item value is out of range (a digest whose length is not its
// algorithm's, an SP800-155 string too long for its UINT8 size) while the items before and behind it
// are fine: the encoder of the whole (event, log) must refuse, not leave the item out or emit it.
func nestedOutOfRange(q *x) {
	c := q.c
	_, rl := randLog(q)
	for len(rl.Events) < 2 {
		_, ev := randEvent2(q)
		rl.Events = append(rl.Events, ev)
	}
	k := q.r.IntN(len(rl.Events))
	ev := *rl.Events[k]
	what, kindOfItem := "", "digest"
	if q.r.IntN(3) == 0 {
		kindOfItem = "SP800-155 string"
		v := randEvt3(q)
		bad := repoEvt3(v)
		bad.PlatformVersion.Data = string(bytes.Repeat([]byte{'v'}, 255+q.r.IntN(20)))
		ev.EventData = eventlog.TCGEventData{Event: bad}
		what = fmt.Sprintf("an SP800-155 event with a %d-byte PlatformVersion", len(bad.PlatformVersion.Data))
	} else {
		d := randDigest(q)
		var digs eventlog.Uint32SizedArrayT[*eventlog.TaggedDigest]
		digs.Array = append(digs.Array, ev.Digests.Array...)
		at := q.r.IntN(len(digs.Array) + 1)
		badD := &eventlog.TaggedDigest{AlgID: d.Alg, Digest: d.Data[:len(d.Data)-1-q.r.IntN(3)]}
		if q.r.IntN(3) == 0 {
			badD = &eventlog.TaggedDigest{AlgID: []uint16{0, 5, 0xD, 0xFFFF}[q.r.IntN(4)], Digest: d.Data}
		}
		digs.Array = append(digs.Array[:at:at], append([]*eventlog.TaggedDigest{badD}, digs.Array[at:]...)...)
		ev.Digests = digs
		what = fmt.Sprintf("digest %d of %d with algorithm %#x and %d bytes", at, len(digs.Array), badD.AlgID, len(badD.Digest))
	}
	events := append([]*eventlog.TCGPCREvent2(nil), rl.Events...)
	events[k] = &ev
	bad := &eventlog.CryptoAgileLog{Header: rl.Header, Events: events}
	for _, p := range []struct {
		entry, name string
		v           codec
	}{{"eventlog.TCGPCREvent2.Marshal", "TCGPCREvent2", &ev}, {"eventlog.CryptoAgileLog.Marshal", "CryptoAgileLog", bad}} {
		var b bytes.Buffer
		var err error
		if q.try(func() { err = p.v.Marshal(&b) }) {
			c.Count("refused-by-panic/"+p.entry, 1)
			continue
		}
		if err == nil {
			q.viol(p.entry, "out-of-range-field-accepted", map[string]any{"item": what, "event_index": k, "events": len(events), "encoded": hx(b.Bytes())},
				"%s.Marshal reports success although event %d of %d carries %s; it wrote %d bytes", p.name, k, len(events), what, b.Len())
		} else {
			seen("out-of-range-refused")
			seen("nested-out-of-range-item-refused")
			c.Cell("%s|one item among valid ones out of range (%s)|refused", p.name, kindOfItem)
		}
	}
}

// ---- short reads ----

const (
	chOne     = iota // one byte per Read
	chSmall          // 1..7 bytes per Read
	chMedium         // 16..64 bytes per Read
	chSplit          // everything asked for, except that one Read stops at a split point
	chDataEOF        // everything asked for; the Read that delivers the last byte returns io.EOF with it
	chZero           // every other Read returns (0, nil)
	chBig            // at most chunk bytes per Read
	chBufio          // bufio.Reader with a 16-byte buffer over a bytes.Reader
	nChModes
)

var chNames = []string{"one byte per Read", "1..7 bytes per Read", "16..64 bytes per Read", "one Read cut short at a split point", "last bytes returned together with io.EOF",
	"every other Read returns (0, nil)", "at most N bytes per Read", "bufio.Reader with a 16-byte buffer"}

func init() {
	rdNames = append(rdNames, chNames...) // reader names for messages: rdFile+1+mode
}

var errInjectedRead = errors.New("injected read fault")

type chunkReader struct {
	b        []byte
	off      int
	mode     int
	r        *rand.Rand
	split    int
	chunk    int
	zeroNext bool
	endErr   error // returned instead of io.EOF behind the last byte
}

func (c *chunkReader) Read(p []byte) (int, error) {
	if len(p) == 0 {
		return 0, nil
	}
	rem := len(c.b) - c.off
	if rem == 0 {
		if c.endErr != nil {
			return 0, c.endErr
		}
		return 0, io.EOF
	}
	n := min(len(p), rem)
	switch c.mode {
	case chOne:
		n = 1
	case chSmall:
		n = min(n, 1+c.r.IntN(7))
	case chMedium:
		n = min(n, 16+c.r.IntN(49))
	case chSplit:
		if c.off < c.split {
			n = min(n, c.split-c.off)
		}
	case chZero:
		c.zeroNext = !c.zeroNext
		if c.zeroNext {
			return 0, nil
		}
	case chBig:
		n = min(n, c.chunk)
	}
	copy(p, c.b[c.off:c.off+n])
	c.off += n
	if c.mode == chDataEOF && c.off == len(c.b) && c.endErr == nil {
		return n, io.EOF
	}
	return n, nil
}

// openChunked returns a reader of the given mode over b and a function telling how many bytes the decoder has not taken.
func openChunked(q *x, mode int, b []byte, chunk int) (io.Reader, func() int) {
	if mode == chBufio {
		under := bytes.NewReader(b)
		br := bufio.NewReaderSize(under, 16)
		return br, func() int { return under.Len() + br.Buffered() }
	}
	cr := &chunkReader{b: b, mode: mode, r: rand.New(rand.NewPCG(q.r.Uint64(), uint64(mode))), chunk: chunk}
	if len(b) > 1 {
		cr.split = 1 + q.r.IntN(len(b)-1)
	}
	return cr, func() int { return len(b) - cr.off }
}

// chunkedDecode reads the valid encoding want (optionally followed by other bytes) through one short-read reader.
func chunkedDecode(q *x, s stream, want []byte, mode, chunk int, follow bool) {
	c := q.c
	in := want
	if follow {
		in = append(append([]byte{}, want...), rbytes(q.r, 1+q.r.IntN(6))...)
	}
	r, left := openChunked(q, mode, in, chunk)
	d := s.fresh()
	var err error
	if !q.must(s.eUn(), func() { err = d.Unmarshal(r) }) {
		return
	}
	how := chNames[mode]
	wit := map[string]any{"input": hx(in), "reader": how, "encoding_len": len(want)}
	if err != nil {
		if judgeShortReadRefusal {
			q.viol(s.eUn(), "valid-encoding-refused-through-short-reads", wit, "%s: decoder refuses its own encoding %s (%d bytes) when the reader delivers it as: %s: %v", s.name, hx(want), len(want), how, err)
		} else {
			c.Count("unjudged/valid encoding refused through a reader with short reads/structure="+s.name, 1)
			c.Count("unjudged/valid encoding refused through a reader with short reads/reader="+how, 1)
			c.Note("stream decoders that hold an EFI_GUID, a TPMT_HA digest or the SHA-1 digest of the log header refuse a valid encoding when the reader returns fewer bytes than asked for, or the last bytes together with io.EOF (single r.Read at eventlog/unmarshal.go EfiGUID.Unmarshal, eventlog/tpm.go TaggedDigest.Unmarshal, eventlog/event.go TCGPCClientPCREvent.Unmarshal); counted, not judged (const judgeShortReadRefusal)")
		}
		return
	}
	if got := len(in) - left(); got != len(want) {
		q.viol(s.eUn(), "consumed-length-differs-from-abi", wit, "%s: decoder consumed %d bytes of a %d-byte encoding (reader: %s)", s.name, got, len(want), how)
		return
	}
	if ok, why := s.same(d); !ok {
		q.viol(s.eUn(), "decoded-value-differs", wit, "%s: decode(encode(v)) != v when the reader delivers the encoding as: %s: %s", s.name, how, why)
		return
	}
	q.accepted(s, "own encoding, reader: "+how, in, len(want), d, rdFile+1+mode)
	seen("short-read-decode-inverts-encode")
	c.Count("short-read-decodes-accepted/"+s.name, 1)
	c.Cell("%s|decode(encode), reader: %s|same value, exact length", s.name, how)
}

func caseChunked(q *x) {
	c := q.c
	s, _, want := streamMakers[q.r.IntN(len(streamMakers))](q)
	for mode := 0; mode < nChModes; mode++ {
		chunk := 2 + q.r.IntN(40)
		chunkedDecode(q, s, want, mode, chunk, false)
		if !s.toEOF && mode != chBufio && q.r.IntN(2) == 0 {
			chunkedDecode(q, s, want, mode, chunk, true)
		}
	}
	// truncated encodings through short-read readers: whatever is accepted must re-encode to itself
	for k := 0; k < 6; k++ {
		cut := q.r.IntN(len(want))
		mode := q.r.IntN(nChModes - 1) // not bufio: it reads ahead, the consumed count would be a guess
		r, left := openChunked(q, mode, want[:cut], 2+q.r.IntN(40))
		d := s.fresh()
		var err error
		if q.try(func() { err = d.Unmarshal(r) }) {
			c.Count("refused-by-panic/"+s.eUn(), 1)
			continue
		}
		if err != nil {
			seen("truncation-refused")
			c.Count("truncations-refused-through-short-reads/"+s.name, 1)
			continue
		}
		c.Count("truncations-accepted-through-short-reads/"+s.name, 1)
		q.accepted(s, fmt.Sprintf("encoding cut to %d of %d bytes, reader: %s", cut, len(want), chNames[mode]), want[:cut], cut-left(), d, rdFile+1+mode)
	}
	// a reader that fails with another error than EOF part-way, or right behind the last byte
	for k := 0; k < 3; k++ {
		cut := len(want)
		if k > 0 {
			cut = q.r.IntN(len(want) + 1)
		}
		cr := &chunkReader{b: want[:cut], mode: []int{chSplit, chSmall, chBig}[k], r: rand.New(rand.NewPCG(q.r.Uint64(), 7)), chunk: 64, endErr: errInjectedRead}
		d := s.fresh()
		var err error
		if q.try(func() { err = d.Unmarshal(cr) }) {
			c.Count("refused-by-panic/"+s.eUn(), 1)
			continue
		}
		if err != nil {
			c.Count("reader-fault-refused/"+s.name, 1)
			c.Cell("%s|reader fails with an error other than EOF|refused", s.name)
			continue
		}
		// accepted: only what was delivered can have been decoded
		c.Count("reader-fault-accepted/"+s.name, 1)
		c.Cell("%s|reader fails with an error other than EOF behind a complete encoding|accepted, re-encoding compared", s.name)
		q.accepted(s, fmt.Sprintf("reader delivers %d of %d bytes and then fails with a non-EOF error", cut, len(want)), want[:cut], cr.off, d, rdFile+1+cr.mode)
	}
}

// ---- large arrays ----

var largeSizes = []int{511, 512, 513, 1023, 1025, 4095, 4096, 4097, 8191, 8193, 32767, 32768, 32769, 65535, 65536, 65537}

func caseLarge(q *x) {
	c := q.c
	if q.r.IntN(5) == 0 {
		caseEvt3Limit(q)
		return
	}
	n := largeSizes[q.r.IntN(len(largeSizes))]
	switch q.r.IntN(8) {
	case 0:
		n = 66000 + q.r.IntN(70000)
	case 1:
		n = 140000 + q.r.IntN(180000)
	}
	data := fastBytes(q.r, n)
	if q.r.IntN(6) == 0 {
		data[n-1] = 0 // ends in a zero byte: indistinguishable from padding unless sizes are honoured
	}
	var s stream
	var val codec
	var want []byte
	switch q.r.IntN(4) {
	case 0:
		s, val, want = mkArr32Of(q, data)
	case 1:
		s, val, want = mkEventDataOf(q, data, eventlog.TCGEventData{Event: &eventlog.UnknownEvent{Data: data}})
	case 2:
		v, rv := randEvent2(q)
		v.Data, rv.EventData = data, eventlog.TCGEventData{Event: &eventlog.UnknownEvent{Data: data}}
		s, val, want = mkEvent2Of(q, v, rv)
	default:
		l, rl := randLog(q)
		v, rv := randEvent2(q)
		v.Data, rv.EventData = data, eventlog.TCGEventData{Event: &eventlog.UnknownEvent{Data: data}}
		at := q.r.IntN(len(l.Events) + 1)
		l.Events = append(l.Events[:at:at], append([]tcgref.Event2{v}, l.Events[at:]...)...)
		rl.Events = append(rl.Events[:at:at], append([]*eventlog.TCGPCREvent2{rv}, rl.Events[at:]...)...)
		s, val, want = mkLogOf(q, l, rl)
	}
	s.sampleCuts = true
	before := floors["decode-inverts-encode"]
	checkStream(q, s, val, want)
	if floors["decode-inverts-encode"] > before {
		seen("large-array-round-trip")
		c.Max("largest-array-round-tripped", int64(n))
		bucket := "<= 4 KiB"
		switch {
		case n > 65536:
			bucket = "> 64 KiB"
		case n > 32768:
			bucket = "32..64 KiB"
		case n > 4097:
			bucket = "4..32 KiB"
		}
		c.Cell("%s|array of %s|round trip through the three readers", s.name, bucket)
	}
	// through readers that hand the data over in pieces around the usual buffer sizes
	for _, chunk := range []int{512, 1000, 4096, 32768, 32769} {
		if chunk < len(want) {
			chunkedDecode(q, s, want, chBig, chunk, false)
		}
	}
	chunkedDecode(q, s, want, chDataEOF, 0, false)
	chunkedDecode(q, s, want, chSplit, 0, false)
	// cuts around internal buffer sizes, counted from the start and from the end of the encoding
	var cuts []int
	for _, b := range []int{512, 4096, 32768, 65536} {
		for _, d := range []int{-1, 0, 1} {
			if k := b + d; k > 0 && k < len(want) {
				cuts = append(cuts, k)
			}
			if k := len(want) - b + d; k > 0 && k < len(want) {
				cuts = append(cuts, k)
			}
		}
	}
	for _, k := range cuts {
		kind := q.r.IntN(2)
		r, left, _ := q.open(kind, want[:k])
		d := s.fresh()
		var err error
		if q.try(func() { err = d.Unmarshal(r) }) {
			c.Count("refused-by-panic/"+s.eUn(), 1)
			continue
		}
		if err != nil {
			seen("truncation-refused")
			c.Count("truncations-refused/large "+s.name, 1)
			continue
		}
		c.Count("truncations-accepted/large "+s.name, 1)
		q.accepted(s, fmt.Sprintf("encoding cut to %d of %d bytes", k, len(want)), want[:k], k-left(), d, kind)
	}
}

// caseEvt3Limit: SP800-155 events whose encoding is exactly as large as a GUID HOB can carry, a little
// larger (HobLength would not be 8-byte aligned or wraps: counted only), and too large.
func caseEvt3Limit(q *x) {
	c := q.c
	const eUn, eMa = "eventlog.SP800155Event3.UnmarshalFromBytes", "eventlog.SP800155Event3.MarshalToBytes"
	v := randEvt3(q)
	if len(v.PlatformCertLocator) > 64 {
		v.PlatformCertLocator = v.PlatformCertLocator[:64]
	}
	v.RIMLocator = nil
	base := len(tcgref.Evt3Bytes(v))
	for _, target := range []int{hobref.MaxGUIDHobData - q.r.IntN(3)*8, hobref.MaxGUIDHobData, hobref.MaxGUIDHobData + 1 + q.r.IntN(8), abi.MaxGUIDHOBDataSize + 1, abi.MaxGUIDHOBDataSize + 2 + q.r.IntN(4000)} {
		v.RIMLocator = fastBytes(q.r, target-base)
		want := tcgref.Evt3Bytes(v)
		rv := repoEvt3(v)
		var b []byte
		var err error
		switch {
		case target <= hobref.MaxGUIDHobData:
			if !q.must(eMa, func() { b, err = rv.MarshalToBytes() }) {
				continue
			}
			if err != nil {
				q.viol(eMa, "in-range-value-refused", map[string]any{"encoding_len": target}, "SP800155Event3.MarshalToBytes refuses an event of %d bytes, which a GUID HOB can carry (limit %d): %v", target, hobref.MaxGUIDHobData, err)
				continue
			}
			if !bytes.Equal(b, want) {
				q.viol(eMa, "encoding-differs-from-abi", map[string]any{"encoding_len": target, "encoded": hx(b), "reference_encoding": hx(want)}, "SP800155Event3 of %d bytes: encoded %d bytes that differ from the reference layout", target, len(b))
				continue
			}
			d := &eventlog.SP800155Event3{}
			if !q.must(eUn, func() { err = d.UnmarshalFromBytes(want[16:]) }) {
				continue
			}
			if ok, f := tcgref.EqualEvt3(fromRepoEvt3(d), v); err != nil || !ok {
				q.viol(eUn, "decoded-value-differs", map[string]any{"encoding_len": target}, "SP800155Event3 of %d bytes: decode(encode(v)) fails or differs (err=%v, field %s)", target, err, f)
				continue
			}
			seen("evt3-at-hob-limit-accepted")
			seen("encoding-equals-reference")
			seen("decode-inverts-encode")
			c.Cell("SP800155Event3|event of exactly / just under the size a GUID HOB carries|encoded to the reference layout, decoded back")
		case target <= abi.MaxGUIDHOBDataSize:
			if !q.try(func() { b, err = rv.MarshalToBytes() }) {
				c.Count(fmt.Sprintf("unjudged/SP800155Event3 of 65505..65512 bytes (fits 16 bits, not 8-byte aligned) accepted=%v", err == nil), 1)
			}
		default:
			if !q.try(func() { b, err = rv.MarshalToBytes() }) && err == nil {
				q.viol(eMa, "out-of-range-field-accepted", map[string]any{"encoding_len": target}, "SP800155Event3.MarshalToBytes emits a %d-byte event, more than a GUID HOB can carry", len(b))
			} else {
				seen("evt3-over-hob-limit-refused")
				seen("out-of-range-refused")
				c.Cell("SP800155Event3|event one byte / a few KiB over what a GUID HOB carries|refused")
			}
		}
	}
}
