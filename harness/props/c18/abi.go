package c18

import (
	"bytes"
	"fmt"

	"github.com/google/gce-tcb-verifier/ovmf/abi"
	opb "github.com/google/gce-tcb-verifier/proto/ovmf"
	"github.com/google/uuid"

	"verifharness/props/c18/abiref"
)

const canary = 0xA5

// fixedCodec adapts one packed structure of ovmf/abi to the reference layout.
type fixedCodec struct {
	entryPut, entryDec string
	lay                abiref.Layout
	put                func(v abiref.Value, data []byte) error
	dec                func(b []byte) (abiref.Value, error)
	exact              bool // the decoder demands exactly the ABI size
	// decUsed (optional) decodes into a receiver that holds prev, for decoders that fill a caller's value
	decUsed func(prev abiref.Value, b []byte) (abiref.Value, error)
}

var fixedCodecs = []fixedCodec{
	{"abi.FwGUIDEntry.Put", "abi.FwGUIDEntry.PopulateFromBytes", abiref.FwGUIDEntry,
		func(v abiref.Value, d []byte) error {
			return (&abi.FwGUIDEntry{Size: uint16(v.U["size"]), GUID: uuid.UUID(v.G["guid"])}).Put(d)
		},
		func(b []byte) (abiref.Value, error) {
			var f abi.FwGUIDEntry
			err := f.PopulateFromBytes(b)
			v := abiref.NewValue()
			v.U["size"], v.G["guid"] = uint64(f.Size), abiref.GUID(f.GUID)
			return v, err
		}, false,
		func(prev abiref.Value, b []byte) (abiref.Value, error) {
			f := abi.FwGUIDEntry{Size: uint16(prev.U["size"]), GUID: uuid.UUID(prev.G["guid"])}
			err := f.PopulateFromBytes(b)
			v := abiref.NewValue()
			v.U["size"], v.G["guid"] = uint64(f.Size), abiref.GUID(f.GUID)
			return v, err
		}},
	{"abi.SevMetadataSection.Put", "abi.SevMetadataSectionFromBytes", abiref.SevSection,
		func(v abiref.Value, d []byte) error {
			return (&abi.SevMetadataSection{Address: uint32(v.U["address"]), Length: uint32(v.U["length"]), Kind: uint32(v.U["kind"])}).Put(d)
		},
		func(b []byte) (abiref.Value, error) {
			s := abi.SevMetadataSectionFromBytes(b)
			v := abiref.NewValue()
			v.U["address"], v.U["length"], v.U["kind"] = uint64(s.Address), uint64(s.Length), uint64(s.Kind)
			return v, nil
		}, false, nil},
	{"abi.SevMetadata.Put", "abi.SevMetadataFromBytes", abiref.SevMetadata,
		func(v abiref.Value, d []byte) error {
			return (&abi.SevMetadata{Signature: uint32(v.U["signature"]), Length: uint32(v.U["length"]), Version: uint32(v.U["version"]), Sections: uint32(v.U["sections"])}).Put(d)
		},
		func(b []byte) (abiref.Value, error) {
			s := abi.SevMetadataFromBytes(b)
			v := abiref.NewValue()
			v.U["signature"], v.U["length"], v.U["version"], v.U["sections"] = uint64(s.Signature), uint64(s.Length), uint64(s.Version), uint64(s.Sections)
			return v, nil
		}, false, nil},
	{"abi.MetadataOffset.Put", "abi.MetadataOffsetFromBytes", abiref.MetaOffset,
		func(v abiref.Value, d []byte) error {
			return (&abi.MetadataOffset{Offset: uint32(v.U["offset"]), GUIDEntry: abi.FwGUIDEntry{Size: uint16(v.U["size"]), GUID: uuid.UUID(v.G["guid"])}}).Put(d)
		},
		func(b []byte) (abiref.Value, error) {
			s, err := abi.MetadataOffsetFromBytes(b)
			v := abiref.NewValue()
			if err != nil {
				return v, err
			}
			v.U["offset"], v.U["size"], v.G["guid"] = uint64(s.Offset), uint64(s.GUIDEntry.Size), abiref.GUID(s.GUIDEntry.GUID)
			return v, nil
		}, false, nil},
	{"abi.TDXMetadataDescriptor.Put", "abi.TDXMetadataDescriptorFromBytes", abiref.TDXDesc,
		func(v abiref.Value, d []byte) error {
			return (&abi.TDXMetadataDescriptor{Signature: uint32(v.U["signature"]), Length: uint32(v.U["length"]), Version: uint32(v.U["version"]), SectionCount: uint32(v.U["section_count"])}).Put(d)
		},
		func(b []byte) (abiref.Value, error) {
			s, err := abi.TDXMetadataDescriptorFromBytes(b)
			v := abiref.NewValue()
			if err != nil {
				return v, err
			}
			v.U["signature"], v.U["length"], v.U["version"], v.U["section_count"] = uint64(s.Signature), uint64(s.Length), uint64(s.Version), uint64(s.SectionCount)
			return v, nil
		}, false, nil},
	{"abi.TDXMetadataSection.Put", "abi.TDXMetadataSectionFromBytes", abiref.TDXSection,
		func(v abiref.Value, d []byte) error { return tdxSection(v).Put(d) },
		func(b []byte) (abiref.Value, error) {
			s, err := abi.TDXMetadataSectionFromBytes(b)
			if err != nil {
				return abiref.NewValue(), err
			}
			return tdxSectionValue(s), nil
		}, false, nil},
}

func tdxSection(v abiref.Value) *abi.TDXMetadataSection {
	return &abi.TDXMetadataSection{DataOffset: uint32(v.U["data_offset"]), DataSize: uint32(v.U["data_size"]), MemoryBase: abi.EFIPhysicalAddress(v.U["memory_base"]),
		MemorySize: v.U["memory_size"], SectionType: uint32(v.U["section_type"]), Attributes: uint32(v.U["attributes"])}
}

func tdxSectionValue(s *abi.TDXMetadataSection) abiref.Value {
	v := abiref.NewValue()
	v.U["data_offset"], v.U["data_size"], v.U["memory_base"], v.U["memory_size"], v.U["section_type"], v.U["attributes"] =
		uint64(s.DataOffset), uint64(s.DataSize), uint64(s.MemoryBase), s.MemorySize, uint64(s.SectionType), uint64(s.Attributes)
	return v
}

func randValue(q *x, l abiref.Layout) abiref.Value {
	v := abiref.NewValue()
	for _, f := range l.Fields {
		if f.Size == 16 {
			v.G[f.Name] = rguid(q.r)
		} else {
			v.U[f.Name] = pick(q.r, f.Size)
		}
	}
	return v
}

func caseFixed(k int) func(q *x) {
	return func(q *x) { checkFixed(q, fixedCodecs[k], randValue(q, fixedCodecs[k].lay)) }
}

// lengths to probe below n: all of them in the thorough tier, a spread in the quick tier.
func (q *x) shorter(n int) []int {
	if q.st.thorough || n <= 8 {
		out := make([]int, n)
		for i := range out {
			out[i] = i
		}
		return out
	}
	return q.sampled(n)
}

// sampled is the quick tier's spread of lengths below n.
func (q *x) sampled(n int) []int {
	out := []int{0, 1, n - 1, n / 2}
	for k := 0; k < 4; k++ {
		out = append(out, q.r.IntN(n))
	}
	return out
}

func checkFixed(q *x, fc fixedCodec, v abiref.Value) {
	c := q.c
	S := fc.lay.Size
	want := fc.lay.Encode(v)
	name := fc.lay.Name
	witness := map[string]any{"value": fmt.Sprint(v), "reference_encoding": hx(want)}
	c.Sample(map[string]any{"case": q.i, "structure": name, "value": fmt.Sprintf("%v %x", v.U, v.G), "reference_encoding": hx(want)})

	// encode into an exactly-sized and into an oversized, canary-filled buffer
	var enc []byte
	for _, extra := range []int{0, 1 + q.r.IntN(9)} {
		buf := bytes.Repeat([]byte{canary}, S+extra)
		var err error
		if !q.must(fc.entryPut, func() { err = fc.put(v, buf) }) {
			return
		}
		if err != nil {
			q.viol(fc.entryPut, "in-range-value-refused", witness, "%s: encoder refuses an in-range value into %d bytes: %v", name, len(buf), err)
			return
		}
		if !bytes.Equal(buf[:S], want) {
			q.viol(fc.entryPut, "encoding-differs-from-abi", witness, "%s: encoded %s, ABI layout gives %s", name, hx(buf[:S]), hx(want))
		} else {
			seen("encoding-equals-reference")
			c.Cell("%s|encode|equals reference layout", name)
		}
		if !allEq(buf[S:], canary) {
			q.viol(fc.entryPut, "wrote-beyond-abi-size", witness, "%s: bytes behind offset %d were written: %s", name, S, hx(buf[S:]))
		}
		enc = buf[:S]
	}
	// shorter output buffers must be refused
	for _, n := range q.shorter(S) {
		buf := bytes.Repeat([]byte{canary}, n)
		var err error
		if q.try(func() { err = fc.put(v, buf) }) {
			c.Count("refused-by-panic/"+fc.entryPut, 1)
			continue
		}
		if err == nil {
			q.viol(fc.entryPut, "short-output-buffer-accepted", witness, "%s: encoder reports success into %d < %d bytes", name, n, S)
		} else {
			seen("short-output-buffer-refused")
			c.Cell("%s|encode into short buffer|refused", name)
		}
	}
	// decode inverts encode (on the reference bytes, so an encoder fault does not mask a decoder fault)
	var got abiref.Value
	var err error
	if !q.must(fc.entryDec, func() { got, err = fc.dec(want) }) {
		return
	}
	if err != nil {
		q.viol(fc.entryDec, "valid-encoding-refused", witness, "%s: decoder refuses the valid encoding %s: %v", name, hx(want), err)
	} else if ok, why := fc.lay.Equal(got, v); !ok {
		q.viol(fc.entryDec, "decoded-value-differs", witness, "%s: decode(encode(v)) != v: %s", name, why)
	} else {
		seen("decode-inverts-encode")
		c.Cell("%s|decode(encode)|same value", name)
	}
	_ = enc
	if fc.decUsed != nil { // the same into a receiver that holds another value
		prev := randValue(q, fc.lay)
		var g3 abiref.Value
		var e4 error
		if q.must(fc.entryDec, func() { g3, e4 = fc.decUsed(prev, want) }) {
			wit := map[string]any{"value": fmt.Sprint(v), "reference_encoding": hx(want), "receiver_held": fmt.Sprint(prev)}
			if e4 != nil {
				q.viol(fc.entryDec, "valid-encoding-refused", wit, "%s: decoder refuses the valid encoding %s into a receiver that holds another value: %v", name, hx(want), e4)
			} else if ok, why := fc.lay.Equal(g3, v); !ok {
				q.viol(fc.entryDec, "decoded-value-depends-on-receiver", wit, "%s: decode(encode(v)) != v when decoding into a receiver that held %v: %s", name, prev, why)
			} else {
				seen("decode-into-used-receiver-inverts-encode")
				c.Cell("%s|decode(encode) into a receiver the caller built holding another value|same value", name)
			}
		}
	}
	// truncations
	for _, n := range q.shorter(S) {
		var e2 error
		if q.try(func() { _, e2 = fc.dec(want[:n:n]) }) {
			c.Count("refused-by-panic/"+fc.entryDec, 1)
			c.Cell("%s|truncated encoding|refused by panic", name)
			seen("truncation-refused")
			continue
		}
		if e2 == nil {
			q.viol(fc.entryDec, "truncated-encoding-accepted", map[string]any{"input": hx(want[:n])}, "%s: decoder accepts %d of %d bytes", name, n, S)
		} else {
			seen("truncation-refused")
			c.Cell("%s|truncated encoding|refused", name)
		}
	}
	// extension by non-zero bytes
	ext := append(append([]byte{}, want...), byte(1+q.r.IntN(255)))
	var g2 abiref.Value
	var e3 error
	if q.try(func() { g2, e3 = fc.dec(ext) }) {
		c.Count("refused-by-panic/"+fc.entryDec, 1)
	} else if e3 != nil {
		c.Cell("%s|extended encoding|refused", name)
	} else if fc.exact {
		q.viol(fc.entryDec, "extended-encoding-accepted", map[string]any{"input": hx(ext)}, "%s: exact-size decoder accepts %d bytes", name, len(ext))
	} else if ok, why := fc.lay.Equal(g2, v); !ok {
		q.viol(fc.entryDec, "extension-changes-value", map[string]any{"input": hx(ext)}, "%s: a byte behind the structure changes the decoded value: %s", name, why)
	} else {
		c.Cell("%s|extended block|head decoded, value unchanged", name)
	}
}

// ---- EFI_GUID ----

func caseGUID(q *x) {
	c := q.c
	g := rguid(q.r)
	v := abiref.NewValue()
	v.G["guid"] = g
	checkFixed(q, fixedCodec{"abi.PutUUID", "abi.FromEFIGUID", abiref.EFIGUID,
		func(v abiref.Value, d []byte) error { return abi.PutUUID(d, uuid.UUID(v.G["guid"])) },
		func(b []byte) (abiref.Value, error) {
			u, err := abi.FromEFIGUID(b)
			o := abiref.NewValue()
			o.G["guid"] = abiref.GUID(u)
			return o, err
		}, true, nil}, v)
	// the structured form
	var eg abi.EFIGUID
	if !q.must("abi.FromUUID", func() { eg = abi.FromUUID(uuid.UUID(g)) }) {
		return
	}
	d1, d2, d3, d4 := g.Parts()
	if eg.Data1 != d1 || eg.Data2 != d2 || eg.Data3 != d3 || eg.Data4 != d4 {
		q.viol("abi.FromUUID", "decoded-value-differs", map[string]any{"guid": hx(g[:])}, "FromUUID(%x) = %+v, want Data1=%#x Data2=%#x Data3=%#x Data4=%x", g, eg, d1, d2, d3, d4)
	} else {
		c.Cell("EFI_GUID|FromUUID|Data1..4 as in the text form")
	}
	want := g.ToEFI()
	checkFixed(q, fixedCodec{"abi.EFIGUID.Put", "abi.FromEFIGUID", abiref.EFIGUID,
		func(v abiref.Value, d []byte) error {
			a, b, cc, dd := v.G["guid"].Parts()
			return abi.EFIGUID{Data1: a, Data2: b, Data3: cc, Data4: dd}.Put(d)
		},
		func(b []byte) (abiref.Value, error) {
			u, err := abi.FromEFIGUID(b)
			o := abiref.NewValue()
			o.G["guid"] = abiref.GUID(u)
			return o, err
		}, true, nil}, v)
	_ = want
}

// ---- SEV-ES reset block (proto value: Size is wider than its 16-bit ABI field, Guid is a byte string) ----

func caseResetBlock(q *x) {
	c := q.c
	const entryPut, entryDec = "abi.PutSevEsResetBlock", "abi.SevEsResetBlockFromBytes"
	codec := fixedCodec{entryPut, entryDec, abiref.ResetBlock,
		func(v abiref.Value, d []byte) error {
			g := v.G["guid"]
			return abi.PutSevEsResetBlock(d, &opb.SevEsResetBlock{Addr: uint32(v.U["addr"]), Size: uint32(v.U["size"]), Guid: g[:]})
		},
		func(b []byte) (abiref.Value, error) {
			s, err := abi.SevEsResetBlockFromBytes(b)
			o := abiref.NewValue()
			if err != nil {
				return o, err
			}
			o.U["addr"], o.U["size"] = uint64(s.Addr), uint64(s.Size)
			if len(s.Guid) != 16 {
				return o, nil // compares unequal below
			}
			o.G["guid"] = abiref.GUID(s.Guid)
			return o, nil
		}, true, nil}
	v := randValue(q, abiref.ResetBlock)
	checkFixed(q, codec, v)

	// the GUID byte string as the head of a buffer with dirty spare capacity
	if abiref.ResetBlock.Fits(v) {
		gg := v.G["guid"]
		mk := func(guid []byte) ([]byte, error) {
			out := bytes.Repeat([]byte{canary}, abiref.ResetBlock.Size)
			var e error
			if !q.must(entryPut, func() {
				e = abi.PutSevEsResetBlock(out, &opb.SevEsResetBlock{Addr: uint32(v.U["addr"]), Size: uint32(v.U["size"]), Guid: guid})
			}) {
				return nil, fmt.Errorf("panic")
			}
			return out, e
		}
		tight, e1 := mk(gg[:16:16])
		var recs []dirtyRec
		got, e2 := mk(dirty(gg[:], &recs))
		if e1 == nil {
			q.judgeSpare(entryPut, "SevEsResetBlock", tight, got, e2, recs)
		}
	}
	// out-of-range: Size does not fit 16 bits
	big := uint32(0x10000)
	switch q.r.IntN(4) {
	case 0:
		big = 0x10000 + uint32(q.r.IntN(0x10000))
	case 1:
		big = 0xFFFFFFFF
	case 2:
		big = uint32(1)<<uint(16+q.r.IntN(16)) | uint32(q.r.IntN(0x10000))
	}
	g := v.G["guid"]
	buf := bytes.Repeat([]byte{canary}, abiref.ResetBlock.Size)
	var err error
	blk := &opb.SevEsResetBlock{Addr: uint32(v.U["addr"]), Size: big, Guid: g[:]}
	if q.try(func() { err = abi.PutSevEsResetBlock(buf, blk) }) {
		c.Count("refused-by-panic/"+entryPut, 1)
	} else if err == nil {
		detail := ""
		if d, e := abi.SevEsResetBlockFromBytes(buf); e == nil {
			detail = fmt.Sprintf("; the bytes decode back as Size=%#x", d.Size)
		}
		q.viol(entryPut, "out-of-range-field-accepted", map[string]any{"addr": blk.Addr, "size": blk.Size, "guid": hx(blk.Guid), "encoded": hx(buf)},
			"PutSevEsResetBlock accepts Size=%#x, which does not fit the 16-bit ABI field%s", big, detail)
	} else {
		seen("out-of-range-refused")
		c.Cell("SevEsResetBlock|Size >= 2^16|refused")
	}
	// out-of-range: GUID that is not 16 bytes
	for _, n := range []int{0, 15, 17} {
		blk := &opb.SevEsResetBlock{Addr: 1, Size: 2, Guid: rbytes(q.r, n)}
		var err error
		if q.try(func() { err = abi.PutSevEsResetBlock(buf, blk) }) {
			c.Count("refused-by-panic/"+entryPut, 1)
		} else if err == nil {
			q.viol(entryPut, "out-of-range-field-accepted", map[string]any{"guid": hx(blk.Guid)}, "PutSevEsResetBlock accepts a %d-byte GUID", n)
		} else {
			seen("out-of-range-refused")
			c.Cell("SevEsResetBlock|GUID not 16 bytes|refused")
		}
	}
}

// ---- whole TDVF metadata (descriptor + sections) ----

func caseTDXMetadata(q *x) {
	c := q.c
	const entryPut, entryDec = "abi.TDXMetadata.Put", "abi.TDXMetadataFromBytes"
	n := q.r.IntN(7)
	if q.r.IntN(10) == 0 {
		n = 8 + q.r.IntN(56)
	}
	hv := randValue(q, abiref.TDXDesc)
	hv.U["section_count"] = uint64(n)
	m := &abi.TDXMetadata{Header: &abi.TDXMetadataDescriptor{Signature: uint32(hv.U["signature"]), Length: uint32(hv.U["length"]), Version: uint32(hv.U["version"]), SectionCount: uint32(n)}}
	want := abiref.TDXDesc.Encode(hv)
	var svs []abiref.Value
	for k := 0; k < n; k++ {
		sv := randValue(q, abiref.TDXSection)
		svs = append(svs, sv)
		m.Sections = append(m.Sections, tdxSection(sv))
		want = append(want, abiref.TDXSection.Encode(sv)...)
	}
	S := len(want)
	witness := map[string]any{"reference_encoding": hx(want), "sections": n}
	var sz uint32
	if q.must("abi.TDXMetadata.Size", func() { sz = m.Size() }) && int(sz) != S {
		q.viol("abi.TDXMetadata.Size", "size-differs-from-abi", witness, "Size() = %d, want 16+32*%d = %d", sz, n, S)
	}
	extra := q.r.IntN(5)
	buf := bytes.Repeat([]byte{canary}, S+extra)
	var err error
	if !q.must(entryPut, func() { err = m.Put(buf) }) {
		return
	}
	if err != nil {
		q.viol(entryPut, "in-range-value-refused", witness, "TDXMetadata.Put refuses a consistent value: %v", err)
		return
	}
	if !bytes.Equal(buf[:S], want) {
		q.viol(entryPut, "encoding-differs-from-abi", witness, "TDXMetadata: encoded %s, ABI layout gives %s", hx(buf[:S]), hx(want))
	} else {
		seen("encoding-equals-reference")
		c.Cell("TDXMetadata|encode|equals reference layout")
	}
	if !allEq(buf[S:], canary) {
		q.viol(entryPut, "wrote-beyond-abi-size", witness, "TDXMetadata: bytes behind offset %d were written", S)
	}
	for _, k := range q.shorter(S) {
		b := bytes.Repeat([]byte{canary}, k)
		var e error
		if q.try(func() { e = m.Put(b) }) {
			c.Count("refused-by-panic/"+entryPut, 1)
		} else if e == nil {
			q.viol(entryPut, "short-output-buffer-accepted", witness, "TDXMetadata.Put reports success into %d < %d bytes", k, S)
		} else {
			seen("short-output-buffer-refused")
			c.Cell("TDXMetadata|encode into short buffer|refused")
		}
	}
	// inconsistent values are refused: nil header, count != len(sections)
	var e error
	if !q.try(func() { e = (&abi.TDXMetadata{Sections: m.Sections}).Put(buf) }) && e == nil {
		q.viol(entryPut, "out-of-range-field-accepted", nil, "TDXMetadata.Put accepts a nil header")
	} else {
		seen("out-of-range-refused")
	}
	bad := &abi.TDXMetadata{Header: &abi.TDXMetadataDescriptor{SectionCount: uint32(n + 1)}, Sections: m.Sections}
	big := make([]byte, S+64)
	if !q.try(func() { e = bad.Put(big) }) && e == nil {
		q.viol(entryPut, "out-of-range-field-accepted", nil, "TDXMetadata.Put accepts SectionCount=%d with %d sections", n+1, n)
	} else {
		seen("out-of-range-refused")
		c.Cell("TDXMetadata|section count != sections|refused")
	}
	// decode inverts encode
	var got *abi.TDXMetadata
	if !q.must(entryDec, func() { got, err = abi.TDXMetadataFromBytes(want) }) {
		return
	}
	same := func(got *abi.TDXMetadata) (bool, string) {
		if got == nil || got.Header == nil {
			return false, "no header"
		}
		if got.Header.Signature != m.Header.Signature || got.Header.Length != m.Header.Length || got.Header.Version != m.Header.Version || got.Header.SectionCount != uint32(n) {
			return false, fmt.Sprintf("header %+v", *got.Header)
		}
		if len(got.Sections) != n {
			return false, fmt.Sprintf("%d sections, want %d", len(got.Sections), n)
		}
		for k := range svs {
			if ok, why := abiref.TDXSection.Equal(tdxSectionValue(got.Sections[k]), svs[k]); !ok {
				return false, fmt.Sprintf("section %d: %s", k, why)
			}
		}
		return true, ""
	}
	if err != nil {
		q.viol(entryDec, "valid-encoding-refused", witness, "TDXMetadataFromBytes refuses a valid encoding: %v", err)
	} else if ok, why := same(got); !ok {
		q.viol(entryDec, "decoded-value-differs", witness, "TDXMetadata: decode(encode(v)) != v: %s", why)
	} else {
		seen("decode-inverts-encode")
		c.Cell("TDXMetadata|decode(encode)|same value")
	}
	// every truncation is refused (the count says how much must be there)
	for _, k := range q.shorter(S) {
		var g *abi.TDXMetadata
		var e error
		if q.try(func() { g, e = abi.TDXMetadataFromBytes(want[:k:k]) }) {
			c.Count("refused-by-panic/"+entryDec, 1)
			seen("truncation-refused")
			continue
		}
		if e == nil {
			// accepted: then it must re-encode to what was given
			re := make([]byte, 16+32*len(g.Sections))
			if e2 := g.Put(re); e2 != nil || !bytes.Equal(re, want[:k]) {
				q.viol(entryDec, "truncated-encoding-accepted", map[string]any{"input": hx(want[:k])}, "TDXMetadataFromBytes accepts %d of %d bytes (count %d) and yields %d sections", k, S, n, len(g.Sections))
			}
		} else {
			seen("truncation-refused")
			c.Cell("TDXMetadata|truncated encoding|refused")
		}
	}
	// trailing bytes behind the declared sections do not change the value
	ext := append(append([]byte{}, want...), rbytes(q.r, 1+q.r.IntN(40))...)
	var g2 *abi.TDXMetadata
	if !q.try(func() { g2, e = abi.TDXMetadataFromBytes(ext) }) && e == nil {
		if ok, why := same(g2); !ok {
			q.viol(entryDec, "extension-changes-value", map[string]any{"input": hx(ext)}, "TDXMetadata: bytes behind the declared sections change the value: %s", why)
		} else {
			c.Cell("TDXMetadata|extended block|head decoded, value unchanged")
		}
	}
}
