// Package abiref holds reference offset tables, written from the edk2 sources and the UEFI
// specification, for the packed little-endian structures that OVMF images carry: EFI_GUID, GUIDed
// table entries, the SEV metadata records, the SEV-ES reset block and the TDVF metadata records.
// It shares no code with the repository under test.
package abiref

import (
	"fmt"
)

// GUID is a GUID in RFC 4122 byte order (the order of the text form).
type GUID [16]byte

// ToEFI converts RFC order to the EFI_GUID memory layout: Data1 (uint32), Data2 (uint16) and
// Data3 (uint16) are little-endian, Data4 is a byte array (UEFI 2.10, Appendix A).
func (g GUID) ToEFI() [16]byte {
	return [16]byte{g[3], g[2], g[1], g[0], g[5], g[4], g[7], g[6], g[8], g[9], g[10], g[11], g[12], g[13], g[14], g[15]}
}

// FromEFI converts an EFI_GUID memory image to RFC order.
func FromEFI(e [16]byte) GUID {
	return GUID{e[3], e[2], e[1], e[0], e[5], e[4], e[7], e[6], e[8], e[9], e[10], e[11], e[12], e[13], e[14], e[15]}
}

// ParseText parses "xxxxxxxx-xxxx-xxxx-xxxx-xxxxxxxxxxxx".
func ParseText(s string) (GUID, error) {
	var g GUID
	if len(s) != 36 || s[8] != '-' || s[13] != '-' || s[18] != '-' || s[23] != '-' {
		return g, fmt.Errorf("bad guid text %q", s)
	}
	k := 0
	for i := 0; i < 36; {
		if s[i] == '-' {
			i++
			continue
		}
		var v byte
		for j := 0; j < 2; j++ {
			c := s[i+j]
			switch {
			case c >= '0' && c <= '9':
				v = v<<4 | (c - '0')
			case c >= 'a' && c <= 'f':
				v = v<<4 | (c - 'a' + 10)
			case c >= 'A' && c <= 'F':
				v = v<<4 | (c - 'A' + 10)
			default:
				return g, fmt.Errorf("bad guid text %q", s)
			}
		}
		g[k] = v
		k++
		i += 2
	}
	return g, nil
}

// Parts returns Data1..Data4 of the GUID.
func (g GUID) Parts() (d1 uint32, d2, d3 uint16, d4 [8]byte) {
	d1 = uint32(g[0])<<24 | uint32(g[1])<<16 | uint32(g[2])<<8 | uint32(g[3])
	d2 = uint16(g[4])<<8 | uint16(g[5])
	d3 = uint16(g[6])<<8 | uint16(g[7])
	copy(d4[:], g[8:])
	return
}

// Literal vectors (text form, bytes as they appear in edk2's ResetVectorVtf0.asm) that pin the
// reading of the layout independently of any code.
var Vectors = []struct {
	Text string
	EFI  [16]byte
}{
	{"96b582de-1fb2-45f7-baea-a366c55a082d", [16]byte{0xDE, 0x82, 0xB5, 0x96, 0xB2, 0x1F, 0xF7, 0x45, 0xBA, 0xEA, 0xA3, 0x66, 0xC5, 0x5A, 0x08, 0x2D}},
	{"00f771de-1a7e-4fcb-890e-68c77e2fb44e", [16]byte{0xDE, 0x71, 0xF7, 0x00, 0x7E, 0x1A, 0xCB, 0x4F, 0x89, 0x0E, 0x68, 0xC7, 0x7E, 0x2F, 0xB4, 0x4E}},
	{"6a7b6885-92bc-40cd-9fb5-300f9d1eb0ed", [16]byte{0x85, 0x68, 0x7b, 0x6a, 0xbc, 0x92, 0xcd, 0x40, 0x9f, 0xb5, 0x30, 0x0f, 0x9d, 0x1e, 0xb0, 0xed}},
}

// SelfTest checks the conversion against the literal vectors.
func SelfTest() error {
	for _, v := range Vectors {
		g, err := ParseText(v.Text)
		if err != nil {
			return err
		}
		if g.ToEFI() != v.EFI || FromEFI(v.EFI) != g {
			return fmt.Errorf("abiref GUID conversion disagrees with literal vector %s", v.Text)
		}
	}
	for _, l := range Layouts {
		if err := l.check(); err != nil {
			return err
		}
	}
	return nil
}

// F is one field of a packed structure: Size 1, 2, 4, 8 = little-endian unsigned; Size 16 = EFI_GUID.
type F struct {
	Name string
	Off  int
	Size int
}

// Layout is a packed structure.
type Layout struct {
	Name   string
	Size   int
	Fields []F
}

func (l Layout) check() error {
	cover := make([]bool, l.Size)
	for _, f := range l.Fields {
		for i := f.Off; i < f.Off+f.Size; i++ {
			if i >= l.Size || cover[i] {
				return fmt.Errorf("abiref layout %s: field %s overlaps or exceeds", l.Name, f.Name)
			}
			cover[i] = true
		}
	}
	for i, c := range cover {
		if !c {
			return fmt.Errorf("abiref layout %s: byte %d uncovered", l.Name, i)
		}
	}
	return nil
}

// Value is a structure value: integers and GUIDs by field name.
type Value struct {
	U map[string]uint64
	G map[string]GUID
}

// NewValue makes an empty value.
func NewValue() Value { return Value{U: map[string]uint64{}, G: map[string]GUID{}} }

// Equal compares two values over the fields of l.
func (l Layout) Equal(a, b Value) (bool, string) {
	for _, f := range l.Fields {
		if f.Size == 16 {
			if a.G[f.Name] != b.G[f.Name] {
				return false, fmt.Sprintf("%s.%s: %x != %x", l.Name, f.Name, a.G[f.Name], b.G[f.Name])
			}
		} else if a.U[f.Name] != b.U[f.Name] {
			return false, fmt.Sprintf("%s.%s: %#x != %#x", l.Name, f.Name, a.U[f.Name], b.U[f.Name])
		}
	}
	return true, ""
}

// Fits reports whether every integer of v fits its field.
func (l Layout) Fits(v Value) bool {
	for _, f := range l.Fields {
		if f.Size < 8 && v.U[f.Name]>>(8*uint(f.Size)) != 0 {
			return false
		}
	}
	return true
}

// Encode writes v (which must fit) in the ABI layout.
func (l Layout) Encode(v Value) []byte {
	b := make([]byte, l.Size)
	for _, f := range l.Fields {
		if f.Size == 16 {
			e := v.G[f.Name].ToEFI()
			copy(b[f.Off:], e[:])
			continue
		}
		x := v.U[f.Name]
		for i := 0; i < f.Size; i++ {
			b[f.Off+i] = byte(x >> (8 * uint(i)))
		}
	}
	return b
}

// Decode reads the first l.Size bytes of b.
func (l Layout) Decode(b []byte) (Value, error) {
	v := NewValue()
	if len(b) < l.Size {
		return v, fmt.Errorf("%s: %d bytes < %d", l.Name, len(b), l.Size)
	}
	for _, f := range l.Fields {
		if f.Size == 16 {
			var e [16]byte
			copy(e[:], b[f.Off:f.Off+16])
			v.G[f.Name] = FromEFI(e)
			continue
		}
		var x uint64
		for i := f.Size - 1; i >= 0; i-- {
			x = x<<8 | uint64(b[f.Off+i])
		}
		v.U[f.Name] = x
	}
	return v, nil
}

// The layouts. Sources: edk2 OvmfPkg/ResetVector/Ia16/ResetVectorVtf0.asm (GUIDed table: data,
// DW size, DB guid; SEV-ES reset block: DD addr, DW size, DB guid; metadata offset: DD offset, DW
// size, DB guid), OvmfPkg/ResetVector/X64/OvmfSevMetadata.asm (header: DD signature, DD length, DD
// version, DD sections; section: DD base, DD size, DD type), OvmfPkg/ResetVector/X64/
// IntelTdxMetadata.asm and the TDVF design guide (descriptor: signature, length, version, section
// count; section: data offset, raw data size, memory address (Q), memory data size (Q), type,
// attributes).
var (
	EFIGUID     = Layout{"EFI_GUID", 16, []F{{"guid", 0, 16}}}
	FwGUIDEntry = Layout{"FwGUIDEntry", 18, []F{{"size", 0, 2}, {"guid", 2, 16}}}
	SevSection  = Layout{"SevMetadataSection", 12, []F{{"address", 0, 4}, {"length", 4, 4}, {"kind", 8, 4}}}
	SevMetadata = Layout{"SevMetadata", 16, []F{{"signature", 0, 4}, {"length", 4, 4}, {"version", 8, 4}, {"sections", 12, 4}}}
	MetaOffset  = Layout{"MetadataOffset", 22, []F{{"offset", 0, 4}, {"size", 4, 2}, {"guid", 6, 16}}}
	ResetBlock  = Layout{"SevEsResetBlock", 22, []F{{"addr", 0, 4}, {"size", 4, 2}, {"guid", 6, 16}}}
	TDXDesc     = Layout{"TDXMetadataDescriptor", 16, []F{{"signature", 0, 4}, {"length", 4, 4}, {"version", 8, 4}, {"section_count", 12, 4}}}
	TDXSection  = Layout{"TDXMetadataSection", 32, []F{{"data_offset", 0, 4}, {"data_size", 4, 4}, {"memory_base", 8, 8}, {"memory_size", 16, 8}, {"section_type", 24, 4}, {"attributes", 28, 4}}}

	Layouts = []Layout{EFIGUID, FwGUIDEntry, SevSection, SevMetadata, MetaOffset, ResetBlock, TDXDesc, TDXSection}
)
