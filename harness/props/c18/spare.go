package c18

import (
	"bytes"

	"github.com/google/gce-tcb-verifier/eventlog"
)

// A []byte value handed to an encoder may be the head of a larger, reused buffer. The encoding must
// depend on the value alone (not on what lies behind it in the backing array), and the encoder must
// leave those bytes alone. dirtyRec remembers one such buffer.
type dirtyRec struct {
	buf []byte // len = value length, cap = len + spare, spare filled with canary
}

const spareBytes = 16

// dirty returns a copy of v with spareBytes of canary-filled spare capacity behind it.
func dirty(v []byte, recs *[]dirtyRec) []byte {
	buf := make([]byte, len(v), len(v)+spareBytes)
	copy(buf, v)
	full := buf[:cap(buf)]
	for i := len(v); i < len(full); i++ {
		full[i] = canary
	}
	*recs = append(*recs, dirtyRec{buf: buf})
	return buf
}

// spareIntact reports whether every spare byte still holds the canary.
func spareIntact(recs []dirtyRec) (bool, int) {
	for k, r := range recs {
		if !allEq(r.buf[len(r.buf):cap(r.buf)], canary) {
			return false, k
		}
	}
	return true, -1
}

// dirtyEventData copies event data, giving every byte-slice field dirty spare capacity.
func dirtyEventData(d eventlog.TCGEventData, recs *[]dirtyRec) eventlog.TCGEventData {
	switch e := d.Event.(type) {
	case *eventlog.UnknownEvent:
		if e.Data == nil {
			return eventlog.TCGEventData{Event: &eventlog.UnknownEvent{}}
		}
		return eventlog.TCGEventData{Event: &eventlog.UnknownEvent{Data: dirty(e.Data, recs)}}
	case *eventlog.SP800155Event3:
		c := *e
		c.RIMLocator.Data = dirty(e.RIMLocator.Data, recs)
		c.PlatformCertLocator.Data = dirty(e.PlatformCertLocator.Data, recs)
		return eventlog.TCGEventData{Event: &c}
	}
	return d
}

func dirtyDigests(a eventlog.Uint32SizedArrayT[*eventlog.TaggedDigest], recs *[]dirtyRec) eventlog.Uint32SizedArrayT[*eventlog.TaggedDigest] {
	var out eventlog.Uint32SizedArrayT[*eventlog.TaggedDigest]
	for _, d := range a.Array {
		out.Array = append(out.Array, &eventlog.TaggedDigest{AlgID: d.AlgID, Digest: dirty(d.Digest, recs)})
	}
	return out
}

// dirtyClone rebuilds an eventlog value with every []byte field replaced by a dirty-capacity copy.
func dirtyClone(val codec, recs *[]dirtyRec) codec {
	switch v := val.(type) {
	case *eventlog.Uint32SizedArray:
		return &eventlog.Uint32SizedArray{Data: dirty(v.Data, recs)}
	case *eventlog.TaggedDigest:
		return &eventlog.TaggedDigest{AlgID: v.AlgID, Digest: dirty(v.Digest, recs)}
	case *eventlog.Uint32SizedArrayT[*eventlog.TaggedDigest]:
		c := dirtyDigests(*v, recs)
		return &c
	case *eventlog.TCGEventData:
		c := dirtyEventData(*v, recs)
		return &c
	case *eventlog.TCGPCClientPCREvent:
		c := *v
		c.EventData = dirtyEventData(v.EventData, recs)
		return &c
	case *eventlog.TCGPCREvent2:
		return dirtyEvent2(v, recs)
	case *eventlog.CryptoAgileLog:
		c := &eventlog.CryptoAgileLog{Header: v.Header}
		c.Header.EventData = dirtyEventData(v.Header.EventData, recs)
		for _, e := range v.Events {
			c.Events = append(c.Events, dirtyEvent2(e, recs))
		}
		return c
	}
	return nil // no byte-slice fields (strings, GUID arrays)
}

func dirtyEvent2(v *eventlog.TCGPCREvent2, recs *[]dirtyRec) *eventlog.TCGPCREvent2 {
	return &eventlog.TCGPCREvent2{PCRIndex: v.PCRIndex, EventType: v.EventType, Digests: dirtyDigests(v.Digests, recs), EventData: dirtyEventData(v.EventData, recs)}
}

// judgeSpare applies the two spare-capacity rules to an encoding obtained from dirty-capacity inputs.
// tight is the encoding of the same value from tight copies; got the one from the dirty inputs.
func (q *x) judgeSpare(entry, name string, tight, got []byte, gotErr error, recs []dirtyRec) {
	if len(recs) == 0 {
		return
	}
	if gotErr != nil || !bytes.Equal(tight, got) {
		q.viol(entry, "encoding-depends-on-spare-capacity", map[string]any{"encoding_from_tight_copy": hx(tight), "encoding_from_buffer_with_dirty_spare_capacity": hx(got)},
			"%s: the same value encodes as %s from a tight copy but as %s (err=%v) when its byte slices have 0xA5-filled spare capacity behind them", name, hx(tight), hx(got), gotErr)
	} else {
		seen("encoding-independent-of-spare-capacity")
		q.c.Cell("%s|byte-slice fields with dirty spare capacity|same encoding", name)
	}
	if ok, k := spareIntact(recs); !ok {
		r := recs[k]
		q.viol(entry, "wrote-into-callers-spare-capacity", map[string]any{"value_len": len(r.buf), "spare_after": hx(r.buf[len(r.buf):cap(r.buf)])},
			"%s: the encoder changed bytes behind the end of a %d-byte input slice in the caller's buffer: %s", name, len(r.buf), hx(r.buf[len(r.buf):cap(r.buf)]))
	} else {
		seen("callers-spare-capacity-untouched")
	}
}
