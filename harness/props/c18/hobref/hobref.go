// Package hobref is an independent decoder for the PI hand-off blocks the repository can only
// write (UEFI Platform Initialization specification 1.6, volume 3, section 5): the generic header,
// the PHIT HOB, the resource descriptor HOB and the GUID extension HOB.
// It shares no code with the repository under test.
package hobref

import (
	"fmt"

	"verifharness/props/c18/abiref"
)

// Sizes from the PI specification.
const (
	HeaderSize   = 8  // UINT16 HobType, UINT16 HobLength, UINT32 Reserved
	PHITSize     = 56 // header, UINT32 Version, UINT32 BootMode, 5 x EFI_PHYSICAL_ADDRESS
	ResourceSize = 48 // header, EFI_GUID Owner, UINT32 ResourceType, UINT32 ResourceAttribute, UINT64 PhysicalStart, UINT64 ResourceLength
	GUIDHobSize  = 24 // header, EFI_GUID Name; data follows

	TypeHandoff    = 0x0001
	TypeResource   = 0x0003
	TypeGUIDExt    = 0x0004
	TypeEndOfList  = 0xFFFF
	MaxHobLength   = 0xFFF8 // largest 8-byte-aligned value of the 16-bit HobLength
	MaxGUIDHobData = MaxHobLength - GUIDHobSize
)

func le(b []byte) uint64 {
	var x uint64
	for i := len(b) - 1; i >= 0; i-- {
		x = x<<8 | uint64(b[i])
	}
	return x
}

// Header is EFI_HOB_GENERIC_HEADER.
type Header struct {
	Type, Length uint16
	Reserved     uint32
}

// DecodeHeader reads a generic header.
func DecodeHeader(b []byte) (Header, error) {
	if len(b) < HeaderSize {
		return Header{}, fmt.Errorf("hobref: header needs 8 bytes, have %d", len(b))
	}
	return Header{Type: uint16(le(b[0:2])), Length: uint16(le(b[2:4])), Reserved: uint32(le(b[4:8]))}, nil
}

// PHIT is EFI_HOB_HANDOFF_INFO_TABLE.
type PHIT struct {
	Header                                                     Header
	Version, BootMode                                          uint32
	MemoryTop, MemoryBottom, FreeTop, FreeBottom, EndOfHobList uint64
}

// DecodePHIT reads a PHIT HOB of exactly PHITSize bytes.
func DecodePHIT(b []byte) (PHIT, error) {
	if len(b) != PHITSize {
		return PHIT{}, fmt.Errorf("hobref: PHIT is %d bytes, have %d", PHITSize, len(b))
	}
	h, _ := DecodeHeader(b)
	return PHIT{Header: h, Version: uint32(le(b[8:12])), BootMode: uint32(le(b[12:16])),
		MemoryTop: le(b[16:24]), MemoryBottom: le(b[24:32]), FreeTop: le(b[32:40]), FreeBottom: le(b[40:48]), EndOfHobList: le(b[48:56])}, nil
}

// Resource is EFI_HOB_RESOURCE_DESCRIPTOR.
type Resource struct {
	Header                Header
	Owner                 abiref.GUID
	Type, Attribute       uint32
	PhysicalStart, Length uint64
}

// DecodeResource reads a resource descriptor HOB of exactly ResourceSize bytes.
func DecodeResource(b []byte) (Resource, error) {
	if len(b) != ResourceSize {
		return Resource{}, fmt.Errorf("hobref: resource descriptor is %d bytes, have %d", ResourceSize, len(b))
	}
	h, _ := DecodeHeader(b)
	var e [16]byte
	copy(e[:], b[8:24])
	return Resource{Header: h, Owner: abiref.FromEFI(e), Type: uint32(le(b[24:28])), Attribute: uint32(le(b[28:32])),
		PhysicalStart: le(b[32:40]), Length: le(b[40:48])}, nil
}

// GUIDHob is EFI_HOB_GUID_TYPE with its data.
type GUIDHob struct {
	Header Header
	Name   abiref.GUID
	Data   []byte
}

// DecodeGUIDHob reads a GUID extension HOB occupying all of b.
func DecodeGUIDHob(b []byte) (GUIDHob, error) {
	if len(b) < GUIDHobSize {
		return GUIDHob{}, fmt.Errorf("hobref: GUID HOB needs %d bytes, have %d", GUIDHobSize, len(b))
	}
	h, _ := DecodeHeader(b)
	var e [16]byte
	copy(e[:], b[8:24])
	return GUIDHob{Header: h, Name: abiref.FromEFI(e), Data: append([]byte{}, b[24:]...)}, nil
}
