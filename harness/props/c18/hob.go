package c18

import (
	"bytes"
	"fmt"
	"io"

	"github.com/google/gce-tcb-verifier/ovmf/abi"
	"github.com/google/uuid"

	"verifharness/props/c18/abiref"
	"verifharness/props/c18/hobref"
)

func efiguid(g abiref.GUID) abi.EFIGUID {
	a, b, c, d := g.Parts()
	return abi.EFIGUID{Data1: a, Data2: b, Data3: c, Data4: d}
}

type writerTo interface {
	WriteTo(io.Writer) (int64, error)
}

// writeHob runs a WriteTo on a well-formed value and checks the byte count it reports.
func writeHob(q *x, entry, name string, h writerTo, size int, witness any) ([]byte, bool) {
	var buf bytes.Buffer
	var n int64
	var err error
	if !q.must(entry, func() { n, err = h.WriteTo(&buf) }) {
		return nil, false
	}
	if err != nil {
		q.viol(entry, "in-range-value-refused", witness, "%s: WriteTo refuses a well-formed value: %v", name, err)
		return nil, false
	}
	if buf.Len() != size {
		q.viol(entry, "encoding-length-differs-from-abi", witness, "%s: wrote %d bytes, the PI specification gives %d", name, buf.Len(), size)
		return nil, false
	}
	if n != int64(buf.Len()) {
		q.viol(entry, "reported-length-differs-from-written", witness, "%s: WriteTo returned %d but wrote %d bytes", name, n, buf.Len())
	}
	return buf.Bytes(), true
}

func randHeader(q *x) (abi.EFIHOBGenericHeader, hobref.Header) {
	t, l := uint16(pick(q.r, 2)), uint16(pick(q.r, 2))
	return abi.EFIHOBGenericHeader{HobType: t, HobLength: l}, hobref.Header{Type: t, Length: l}
}

func caseHobHeader(q *x) {
	const entry = "abi.EFIHOBGenericHeader.WriteTo"
	h, want := randHeader(q)
	b, ok := writeHob(q, entry, "EFI_HOB_GENERIC_HEADER", h, hobref.HeaderSize, fmt.Sprintf("%+v", h))
	if !ok {
		return
	}
	got, _ := hobref.DecodeHeader(b)
	if got != want {
		q.viol(entry, "encoding-differs-from-abi", map[string]any{"value": fmt.Sprintf("%+v", h), "encoded": hx(b)}, "generic header %+v encodes to %s, which reads back as %+v", h, hx(b), got)
		return
	}
	seen("encoding-equals-reference")
	q.c.Cell("HOB header|encode|fields at PI offsets, reserved zero")
}

func caseHobPHIT(q *x) {
	const entry = "abi.EFIHOBHandoffInfoTable.WriteTo"
	h, hw := randHeader(q)
	if q.r.IntN(2) == 0 {
		h = abi.EFIHOBGenericHeader{HobType: abi.EFIHOBTypeHandoff, HobLength: abi.SizeOfEFIHOBHandoffInfoTable}
		hw = hobref.Header{Type: hobref.TypeHandoff, Length: hobref.PHITSize}
	}
	want := hobref.PHIT{Header: hw, Version: uint32(pick(q.r, 4)), BootMode: uint32(pick(q.r, 4)), MemoryTop: pick(q.r, 8), MemoryBottom: pick(q.r, 8),
		FreeTop: pick(q.r, 8), FreeBottom: pick(q.r, 8), EndOfHobList: pick(q.r, 8)}
	t := abi.EFIHOBHandoffInfoTable{Header: h, Version: want.Version, BootMode: abi.EFIBootMode(want.BootMode),
		EfiMemoryTop: abi.EFIPhysicalAddress(want.MemoryTop), EfiMemoryBottom: abi.EFIPhysicalAddress(want.MemoryBottom),
		EfiFreeMemoryTop: abi.EFIPhysicalAddress(want.FreeTop), EfiFreeMemoryBottom: abi.EFIPhysicalAddress(want.FreeBottom), EfiEndOfHobList: abi.EFIPhysicalAddress(want.EndOfHobList)}
	b, ok := writeHob(q, entry, "EFI_HOB_HANDOFF_INFO_TABLE", t, hobref.PHITSize, fmt.Sprintf("%+v", t))
	if !ok {
		return
	}
	got, _ := hobref.DecodePHIT(b)
	if got != want {
		q.viol(entry, "encoding-differs-from-abi", map[string]any{"value": fmt.Sprintf("%+v", t), "encoded": hx(b)}, "PHIT %+v encodes to %s, which reads back as %+v", t, hx(b), got)
		return
	}
	seen("encoding-equals-reference")
	q.c.Cell("HOB PHIT|encode|fields at PI offsets")
}

func caseHobResource(q *x) {
	const entry = "abi.EFIHOBResourceDescriptor.WriteTo"
	h, hw := randHeader(q)
	if q.r.IntN(2) == 0 {
		h = abi.EFIHOBGenericHeader{HobType: abi.EFIHOBTypeResourceDescriptor, HobLength: abi.SizeofEFIHOBResourceDescriptor}
		hw = hobref.Header{Type: hobref.TypeResource, Length: hobref.ResourceSize}
	}
	want := hobref.Resource{Header: hw, Owner: rguid(q.r), Type: uint32(pick(q.r, 4)), Attribute: uint32(pick(q.r, 4)), PhysicalStart: pick(q.r, 8), Length: pick(q.r, 8)}
	d := abi.EFIHOBResourceDescriptor{Header: h, Owner: efiguid(want.Owner), ResourceType: abi.EFIResourceType(want.Type),
		ResourceAttribute: abi.EFIResourceAttributeType(want.Attribute), PhysicalStart: abi.EFIPhysicalAddress(want.PhysicalStart), ResourceLength: want.Length}
	b, ok := writeHob(q, entry, "EFI_HOB_RESOURCE_DESCRIPTOR", d, hobref.ResourceSize, fmt.Sprintf("%+v", d))
	if !ok {
		return
	}
	got, _ := hobref.DecodeResource(b)
	if got != want {
		q.viol(entry, "encoding-differs-from-abi", map[string]any{"value": fmt.Sprintf("%+v", d), "encoded": hx(b)}, "resource descriptor %+v encodes to %s, which reads back as %+v", d, hx(b), got)
		return
	}
	seen("encoding-equals-reference")
	q.c.Cell("HOB resource descriptor|encode|fields at PI offsets")
}

func caseHobGUID(q *x) {
	c := q.c
	const entryC, entryW = "abi.CreateEFIHOBGUID", "abi.EFIHOBGUID.WriteTo"
	g := rguid(q.r)
	var n int
	switch q.r.IntN(10) {
	case 0:
		n = 0
	case 1:
		n = 8 * q.r.IntN(8)
	case 2: // around the largest representable HOB
		n = hobref.MaxGUIDHobData - 9 + q.r.IntN(12)
	case 3:
		n = hobref.MaxGUIDHobData + 9 + q.r.IntN(64)
	default:
		n = 1 + q.r.IntN(200)
	}
	data := rbytes(q.r, n)
	if n > 0 && q.r.IntN(3) == 0 {
		data[n-1] = 0xFF // last payload byte non-zero so that padding is distinguishable
	}
	orig := append([]byte{}, data...)
	// (a) from a tight copy (len == cap)
	tightIn := make([]byte, n)
	copy(tightIn, orig)
	tight, tightOK := hobGUIDProbe(q, g, orig, tightIn[:n:n], "tight copy")
	// (b) from the head of a larger buffer whose spare capacity is dirty: every rule again, the same
	// bytes as (a), and the caller's spare bytes left alone
	var recs []dirtyRec
	d := dirty(orig, &recs)
	got, gotOK := hobGUIDProbe(q, g, orig, d, "head of a buffer with 0xA5-filled spare capacity")
	if tightOK != gotOK || !bytes.Equal(tight, got) {
		q.viol(entryW, "encoding-depends-on-spare-capacity", map[string]any{"guid": hx(g[:]), "data": hx(orig), "encoding_from_tight_copy": hx(tight), "encoding_from_buffer_with_dirty_spare_capacity": hx(got)},
			"GUID HOB for the same %d data bytes: %s from a tight copy, %s when the slice has 0xA5-filled spare capacity behind it", n, hx(tight), hx(got))
	} else if tightOK {
		seen("encoding-independent-of-spare-capacity")
		c.Cell("HOB GUID extension|payload with dirty spare capacity (len%%8=%d)|same encoding", n%8)
	}
	if ok, _ := spareIntact(recs); !ok {
		spare := d[n:cap(d)]
		pad := (n+7)&^7 - n
		if !judgeHobPadInCallersBuffer && pad <= len(spare) && allEq(spare[:pad], 0) && allEq(spare[pad:], canary) {
			c.Count("unjudged/CreateEFIHOBGUID wrote its zero padding into the caller's spare capacity", 1)
			c.Note("CreateEFIHOBGUID appends its 1..7 zero pad bytes in place when the payload slice has spare capacity, i.e. it zeroes bytes behind len(data) in the caller's buffer (the encoding itself is right); counted, not judged")
		} else {
			q.viol(entryC, "wrote-into-callers-spare-capacity", map[string]any{"data_len": n, "spare_after": hx(spare)},
				"CreateEFIHOBGUID / WriteTo changed bytes behind the end of the %d-byte payload in the caller's buffer: %s", n, hx(spare))
		}
	} else {
		seen("callers-spare-capacity-untouched")
	}
}

// judgeHobPadInCallersBuffer: the repository's CreateEFIHOBGUID pads with append(), which writes
// the zero pad into the caller's spare capacity. The property speaks about encodings, not about the
// caller's memory, so this one behaviour is counted and noted; anything else written there is judged.
const judgeHobPadInCallersBuffer = false

// hobGUIDProbe runs Create + WriteTo on one input slice and judges the result; it returns the encoding.
func hobGUIDProbe(q *x, g abiref.GUID, orig, data []byte, how string) ([]byte, bool) {
	c := q.c
	const entryC, entryW = "abi.CreateEFIHOBGUID", "abi.EFIHOBGUID.WriteTo"
	n := len(orig)
	witness := map[string]any{"guid": hx(g[:]), "data_len": n, "data": hx(orig), "input_slice": how}
	var h abi.EFIHOBGUID
	var err error
	if !q.must(entryC, func() { h, err = abi.CreateEFIHOBGUID(uuid.UUID(g), data) }) {
		return nil, false
	}
	padded := (n + 7) &^ 7
	fits := hobref.GUIDHobSize+padded <= hobref.MaxHobLength
	if err != nil {
		if fits {
			q.viol(entryC, "in-range-value-refused", witness, "CreateEFIHOBGUID refuses %d data bytes (HOB length %d fits 16 bits): %v", n, hobref.GUIDHobSize+padded, err)
		} else {
			seen("out-of-range-refused")
			c.Cell("HOB GUID extension|data too long for a 16-bit HobLength|refused by Create")
		}
		return nil, false
	}
	var buf bytes.Buffer
	var wn int64
	var werr error
	if !q.must(entryW, func() { wn, werr = h.WriteTo(&buf) }) {
		return nil, false
	}
	if !fits {
		// Create let it through: the encoder as a whole must still not emit it.
		if werr == nil {
			q.viol(entryW, "out-of-range-field-accepted", witness, "a GUID HOB with %d data bytes (length %d > 0xFFF8) was written; header says HobLength=%d", n, hobref.GUIDHobSize+padded, h.Header.HobLength)
		} else {
			seen("out-of-range-refused")
			c.Count("guid-hob-oversize-passed-by-Create-refused-by-WriteTo", 1)
			c.Note("CreateEFIHOBGUID accepts %d..%d data bytes although 24+len exceeds the 16-bit HobLength (the header then says %d); WriteTo refuses such a HOB, so nothing malformed is emitted", hobref.MaxGUIDHobData+1, abi.MaxGUIDHOBDataSize, h.Header.HobLength)
			c.Cell("HOB GUID extension|data too long for a 16-bit HobLength|passed by Create, refused by WriteTo")
		}
		return nil, false
	}
	if werr != nil {
		q.viol(entryW, "in-range-value-refused", witness, "EFIHOBGUID.WriteTo refuses the HOB CreateEFIHOBGUID built for %d data bytes: %v", n, werr)
		return nil, false
	}
	b := buf.Bytes()
	if len(b) != hobref.GUIDHobSize+padded {
		q.viol(entryW, "encoding-length-differs-from-abi", witness, "GUID HOB for %d data bytes is %d bytes, want 24+%d (8-byte aligned)", n, len(b), padded)
		return nil, false
	}
	if wn != int64(len(b)) {
		q.viol(entryW, "reported-length-differs-from-written", witness, "WriteTo returned %d but wrote %d bytes", wn, len(b))
	}
	got, _ := hobref.DecodeGUIDHob(b)
	wantData := append(append([]byte{}, orig...), make([]byte, padded-n)...)
	switch {
	case got.Header != hobref.Header{Type: hobref.TypeGUIDExt, Length: uint16(len(b))}:
		q.viol(entryW, "encoding-differs-from-abi", witness, "GUID HOB header reads back as %+v, want type 4, length %d, reserved 0", got.Header, len(b))
	case got.Name != g:
		q.viol(entryW, "encoding-differs-from-abi", witness, "GUID HOB name reads back as %x, want %x", got.Name, g)
	case !bytes.Equal(got.Data, wantData):
		q.viol(entryW, "encoding-differs-from-abi", witness, "GUID HOB data is not the payload followed by %d zero bytes", padded-n)
	default:
		seen("encoding-equals-reference")
		if padded != n {
			c.Cell("HOB GUID extension|payload not a multiple of 8|zero-padded to 8-byte alignment")
		} else {
			c.Cell("HOB GUID extension|payload a multiple of 8|no padding")
		}
	}
	// out-of-range: wrong type or a length that is not header+data
	bad := h
	bad.Header.HobType = uint16(pick(q.r, 2))
	if bad.Header.HobType != abi.EFIHOBTypeGUIDExtension {
		var e error
		if !q.try(func() { _, e = bad.WriteTo(io.Discard) }) && e == nil {
			q.viol(entryW, "out-of-range-field-accepted", witness, "EFIHOBGUID.WriteTo accepts HobType=%#x", bad.Header.HobType)
		} else {
			seen("out-of-range-refused")
			c.Cell("HOB GUID extension|wrong HobType|refused")
		}
	}
	bad = h
	bad.Header.HobLength += uint16(1 + q.r.IntN(16))
	var e error
	if !q.try(func() { _, e = bad.WriteTo(io.Discard) }) && e == nil {
		q.viol(entryW, "out-of-range-field-accepted", witness, "EFIHOBGUID.WriteTo accepts HobLength=%d for %d data bytes", bad.Header.HobLength, len(h.Data))
	} else {
		seen("out-of-range-refused")
		c.Cell("HOB GUID extension|HobLength != 24+len(data)|refused")
	}
	return b, true
}
