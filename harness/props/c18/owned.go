package c18

// Dimension added after the fourth review round (cases numbered behind the audit's): the caller owns
// the decoder's input and goes on using it.
//
//	one input, several records   2-4 records (of any stream structure) are decoded one after the other
//	                             from ONE reader: a bytes.Buffer over the caller's slice, a bytes.Buffer
//	                             used as a queue (records written to it as they arrive, with and without
//	                             Reset, with and without pre-grown storage), a bytes.Reader, a
//	                             bufio.Reader with a 16..4096-byte buffer, a reader with short reads.
//	                             Every decoded value is kept, judged when its call returns, judged again
//	                             when all records are decoded and once more after the caller has put its
//	                             storage to another use (filled it, written the next records into it,
//	                             drained and refilled the bufio buffer).
//	edits of decoded values      the same sequence once more on fresh storage; now the caller appends to
//	                             every byte slice of each decoded value (result dropped) and overwrites
//	                             some of them in place before it decodes the next record; afterwards it
//	                             decodes its own, untouched, input again.
//	slice decoders               SP800155Event3.UnmarshalFromBytes, SevEsResetBlockFromBytes and
//	                             TDXMetadataFromBytes read record after record from one scratch slice of
//	                             the caller; same two probes.
//
// Judged strictly by decode(encode(v)) = v: a value that was right when the decoder returned must be the
// same value (and re-encode to the bytes it was decoded from) while the caller does what it likes with
// ITS buffer, and a valid encoding that the caller has not touched must decode to its value whatever the
// caller did to values decoded before. eventlog.UnknownEvent.UnmarshalFromBytes is documented to store
// the given slice and is not probed.

import (
	"bufio"
	"bytes"
	"fmt"
	"io"
	"math/rand/v2"

	"github.com/google/gce-tcb-verifier/eventlog"
	"github.com/google/gce-tcb-verifier/ovmf/abi"
	opb "github.com/google/gce-tcb-verifier/proto/ovmf"

	"verifharness/core"
	"verifharness/props/c18/abiref"
	"verifharness/props/c18/tcgref"
)

const (
	ruleReuse = "result-changed-by-callers-later-use-of-input"
	ruleEdit  = "input-changed-by-edit-of-decoded-value"
)

var ownedKinds = []kind{
	{"owned input: one reader, several records", 3, caseSharedInput},
	{"owned input: slice decoders", 1, caseOwnedSlice},
}

var ownedSched []int

func init() {
	maxw := 0
	for _, k := range ownedKinds {
		maxw = max(maxw, k.weight)
	}
	for w := 0; w < maxw; w++ {
		for ki, k := range ownedKinds {
			if w < k.weight {
				ownedSched = append(ownedSched, ki)
			}
		}
	}
	floorNames = append(floorNames,
		"records-decoded-in-sequence-from-one-input", "decoded-values-unchanged-by-callers-reuse-of-input",
		"input-unchanged-by-edits-of-decoded-values", "queue-buffer-reused-its-storage", "slice-decoder-results-unchanged-by-reuse-of-scratch")
}

// runOwned runs the appended cases: numbers first .. first+count-1.
func runOwned(c *core.Ctx, st *state, first int) int {
	n := c.N(1200, 24000)
	for j := 0; j < n; j++ {
		i := first + j
		if !c.Mine(i) {
			continue
		}
		k := ownedKinds[ownedSched[j%len(ownedSched)]]
		q := &x{c: c, i: i, r: c.Rand(i), gen: k.name, st: st, fired: map[string]bool{}}
		c.Begin(i, k.name, k.name, nil)
		k.f(q)
		c.Count("cases/"+k.name, 1)
		c.End(i)
	}
	return first + n
}

// appendAll appends junk to every byte slice a decoded event-log value holds and drops the result: the
// value itself is not changed by that, only bytes behind the slices' lengths can be.
func appendAll(v any, junk []byte) {
	switch d := v.(type) {
	case *eventlog.Uint32SizedArray:
		_ = append(d.Data, junk...)
	case *eventlog.TaggedDigest:
		if d != nil {
			_ = append(d.Digest, junk...)
		}
	case *eventlog.Uint32SizedArrayT[*eventlog.TaggedDigest]:
		for _, e := range d.Array {
			appendAll(e, junk)
		}
	case *eventlog.TCGEventData:
		switch e := d.Event.(type) {
		case *eventlog.UnknownEvent:
			_ = append(e.Data, junk...)
		case *eventlog.SP800155Event3:
			appendAll(e, junk)
		}
	case *eventlog.SP800155Event3:
		_ = append(d.RIMLocator.Data, junk...)
		_ = append(d.PlatformCertLocator.Data, junk...)
	case *eventlog.TCGPCClientPCREvent:
		appendAll(&d.EventData, junk)
	case *eventlog.TCGPCREvent2:
		if d != nil {
			appendAll(&d.Digests, junk)
			appendAll(&d.EventData, junk)
		}
	case *eventlog.CryptoAgileLog:
		appendAll(&d.Header, junk)
		for _, e := range d.Events {
			appendAll(e, junk)
		}
	}
}

// ---- one input, several records ----

const (
	omBufWhole      = iota // bytes.NewBuffer over the caller's slice that holds all records
	omBufQueue             // one bytes.Buffer as a queue: records are written as they arrive and decoded one by one
	omBufQueueReset        // the same; the caller calls Reset when the queue has run empty
	omReader               // bytes.Reader over the caller's slice
	omBufio                // bufio.Reader over the caller's slice
	omChunk                // a reader with short reads over the caller's slice
	nOwnedModes
)

var omNames = []string{"a bytes.Buffer over the caller's slice", "a bytes.Buffer used as a queue", "a bytes.Buffer used as a queue and Reset when empty",
	"a bytes.Reader over the caller's slice", "a bufio.Reader over the caller's slice", "a reader with short reads over the caller's slice"}

type ownedRec struct {
	s   stream
	val codec
	enc []byte
}

type ownedPlan struct {
	mode       int
	recs       []ownedRec
	total      int
	batchStart []bool // queue modes: the records from k up to the next start are written before record k is decoded
	viaMarshal []bool // queue modes: record k reaches the queue through its own Marshal
	pregrow    bool
	bufioSize  int
	chMode     int
	chunk      int
	split      int
	seed       uint64
	tail       []byte   // bytes behind the last record
	junk       [][]byte // what the caller appends to the byte slices of the value decoded from record k
	scrib      []bool   // the caller overwrites the value decoded from record k in place
	reuseHow   int
}

type ownedInput struct {
	r       io.Reader
	left    func() int
	scratch []byte // the caller's slice (nil in the queue modes)
	queue   *bytes.Buffer
	br      *bufio.Reader
	kind    int // index into rdNames
}

func (p *ownedPlan) concat() []byte {
	b := make([]byte, 0, p.total+len(p.tail))
	for _, r := range p.recs {
		b = append(b, r.enc...)
	}
	return append(b, p.tail...)
}

func (p *ownedPlan) open() *ownedInput {
	in := &ownedInput{}
	switch p.mode {
	case omBufWhole:
		in.scratch = p.concat()
		b := bytes.NewBuffer(in.scratch)
		in.r, in.left, in.kind = b, b.Len, rdBuffer
	case omBufQueue, omBufQueueReset:
		in.queue = &bytes.Buffer{}
		if p.pregrow {
			in.queue.Grow(p.total + 64)
		}
		in.r, in.left, in.kind = in.queue, in.queue.Len, rdBuffer
	case omReader:
		in.scratch = p.concat()
		b := bytes.NewReader(in.scratch)
		in.r, in.left, in.kind = b, b.Len, rdReader
	case omBufio:
		in.scratch = p.concat()
		under := bytes.NewReader(in.scratch)
		in.br = bufio.NewReaderSize(under, p.bufioSize)
		in.r, in.left, in.kind = in.br, func() int { return under.Len() + in.br.Buffered() }, rdFile+1+chBufio
	default:
		in.scratch = p.concat()
		cr := &chunkReader{b: in.scratch, mode: p.chMode, r: rand.New(rand.NewPCG(p.seed, uint64(p.chMode))), chunk: p.chunk, split: p.split}
		in.r, in.left, in.kind = cr, func() int { return len(cr.b) - cr.off }, rdFile+1+p.chMode
	}
	return in
}

// feed makes record k available in the queue modes (with the records of its batch).
func (p *ownedPlan) feed(q *x, in *ownedInput, k int) bool {
	if in.queue == nil || !p.batchStart[k] {
		return true
	}
	if p.mode == omBufQueueReset && k > 0 && in.queue.Len() == 0 {
		in.queue.Reset()
	}
	for j := k; j < len(p.recs) && (j == k || !p.batchStart[j]); j++ {
		rec := p.recs[j]
		if p.viaMarshal[j] {
			at := in.queue.Len()
			var err error
			if !q.must(rec.s.eMa(), func() { err = rec.val.Marshal(in.queue) }) || err != nil || !bytes.Equal(in.queue.Bytes()[at:], rec.enc) {
				q.c.Count("owned-setup-skipped (encoder wrong or refusing: judged by the structure's own cases)", 1)
				return false
			}
		} else {
			in.queue.Write(rec.enc)
		}
	}
	return true
}

// runSeq decodes the plan's records one after the other from one input. edits=false: every discrepancy is
// judged by the ordinary rules. edits=true (only run when the sequence was right without them): the caller
// appends to / overwrites each decoded value before it decodes the next record.
func (p *ownedPlan) runSeq(q *x, edits bool) (*ownedInput, []codec, bool) {
	in := p.open()
	how := omNames[p.mode]
	var decs []codec
	edited := 0
	for k, rec := range p.recs {
		if !p.feed(q, in, k) {
			return in, decs, false
		}
		before := in.left()
		d := rec.s.fresh()
		var err error
		if !q.must(rec.s.eUn(), func() { err = d.Unmarshal(in.r) }) {
			return in, decs, false
		}
		wit := map[string]any{"input": hx(rec.enc), "reader": how, "record": k, "records": len(p.recs), "encoding_len": len(rec.enc)}
		consumed := before - in.left()
		var bad, rule string
		switch {
		case err != nil:
			rule, bad = "valid-encoding-refused", fmt.Sprintf("is refused: %v", err)
		case consumed != len(rec.enc):
			rule, bad = "consumed-length-differs-from-abi", fmt.Sprintf("decoder consumed %d bytes", consumed)
		default:
			if ok, why := rec.s.same(d); !ok {
				rule, bad = "decoded-value-differs", "decode(encode(v)) != v: "+why
			}
		}
		if bad != "" {
			if edits {
				q.viol(rec.s.eUn(), ruleEdit, wit, "%s: record %d of %d read from %s decodes correctly when the caller leaves the values decoded before it alone; after the caller appended to the byte slices of %d earlier decoded value(s) (and overwrote some in place) the same record %s (%d bytes) %s",
					rec.s.name, k, len(p.recs), how, edited, hx(rec.enc), len(rec.enc), bad)
			} else {
				q.viol(rec.s.eUn(), rule, wit, "%s: record %d of %d decoded one after the other from %s: own encoding %s (%d bytes) %s", rec.s.name, k, len(p.recs), how, hx(rec.enc), len(rec.enc), bad)
			}
			return in, decs, false
		}
		decs = append(decs, d)
		if edits {
			appendAll(d, p.junk[k])
			edited++
			if ok, why := rec.s.same(d); !ok { // append with the result dropped cannot change the value itself
				q.viol(rec.s.eUn(), ruleEdit, wit, "%s: appending to the byte slices of a decoded value (result dropped) changed another field of the same value: %s", rec.s.name, why)
				return in, decs, false
			}
			if p.scrib[k] {
				scribble(d)
			}
		}
	}
	return in, decs, true
}

// reuse: the caller puts its storage to another use.
func (p *ownedPlan) reuse(q *x, in *ownedInput) string {
	if in.br != nil {
		io.Copy(io.Discard, in.br) // whatever is left goes through the bufio buffer
	}
	if in.queue != nil {
		n := max(in.queue.Cap(), 64)
		in.queue.Reset()
		in.queue.Write(bytes.Repeat([]byte{0xEE}, n))
		return "reset its queue and wrote the next records into it"
	}
	s := in.scratch[:cap(in.scratch)]
	switch p.reuseHow {
	case 0:
		for i := range s {
			s[i] = 0xEE
		}
		return "filled its slice with 0xEE"
	case 1:
		xorAll(s)
		return "inverted every byte of its slice"
	default:
		for i, j := 0, len(s)-1; i < j; i, j = i+1, j-1 {
			s[i], s[j] = s[j], s[i]
		}
		return "wrote other bytes into its slice"
	}
}

func caseSharedInput(q *x) {
	c := q.c
	p := &ownedPlan{mode: q.r.IntN(nOwnedModes)}
	K := 2 + q.r.IntN(3)
	for k := 0; k < K; k++ {
		pickFrom := len(streamMakers) - 1 // the log reads to the end of input: last record only
		if k == K-1 {
			pickFrom = len(streamMakers)
		}
		s, val, enc := streamMakers[q.r.IntN(pickFrom)](q)
		p.recs = append(p.recs, ownedRec{s, val, enc})
		p.total += len(enc)
		p.batchStart = append(p.batchStart, k == 0 || q.r.IntN(3) != 0)
		p.viaMarshal = append(p.viaMarshal, q.r.IntN(2) == 0)
		p.junk = append(p.junk, rbytes(q.r, 1+q.r.IntN(24)))
		if q.r.IntN(3) == 0 {
			p.junk[k] = bytes.Repeat([]byte{0xFF}, 4+q.r.IntN(8))
		}
		p.scrib = append(p.scrib, q.r.IntN(3) == 0)
	}
	p.pregrow = q.r.IntN(2) == 0
	p.bufioSize = []int{16, 17, 64, 512, 4096}[q.r.IntN(5)]
	p.chMode = q.r.IntN(nChModes - 1)
	p.chunk = 2 + q.r.IntN(40)
	p.split = 1 + q.r.IntN(p.total)
	p.seed = q.r.Uint64()
	p.reuseHow = q.r.IntN(3)
	last := p.recs[K-1].s
	if !last.toEOF && p.mode != omBufQueue && p.mode != omBufQueueReset {
		if p.mode == omBufio {
			p.tail = rbytes(q.r, p.bufioSize+1+q.r.IntN(40))
		} else if q.r.IntN(2) == 0 {
			p.tail = rbytes(q.r, 1+q.r.IntN(40))
		}
	}
	how := omNames[p.mode]

	// --- the sequence, the caller leaving alone what it got back ---
	in, decs, ok := p.runSeq(q, false)
	if !ok {
		return
	}
	seen("records-decoded-in-sequence-from-one-input")
	held := func(when string) bool {
		good := true
		for k, d := range decs {
			rec := p.recs[k]
			if same, why := rec.s.same(d); !same {
				good = false
				q.viol(rec.s.eUn(), ruleReuse, map[string]any{"input": hx(rec.enc), "reader": how, "record": k, "records": len(decs), "when": when},
					"%s: the value decoded from record %d of %d (%s, read from %s) was right when Unmarshal returned and is another value %s: %s", rec.s.name, k, len(decs), hx(rec.enc), how, when, why)
			}
		}
		return good
	}
	good := held("after the caller decoded the records that follow it from the same input")
	if in.queue != nil && p.pregrow {
		seen("queue-buffer-reused-its-storage")
	}
	what := p.reuse(q, in)
	good = held("after the caller "+what) && good
	if good {
		for k, d := range decs {
			rec := p.recs[k]
			q.accepted(rec.s, "value kept while the caller reused its input ("+how+")", rec.enc, len(rec.enc), d, in.kind)
			c.Cell("%s|decoded from %s, kept while the caller read on and reused its storage|unchanged, re-encodes to its input", rec.s.name, how)
		}
		seen("decoded-values-unchanged-by-callers-reuse-of-input")
		c.Cell("one input, several records|%s, %d records|all values right at return and after the caller reused its storage", how, min(len(decs), 4))
	}

	// --- the same sequence on fresh storage, the caller editing what it got back ---
	in, decs, ok = p.runSeq(q, true)
	if !ok {
		return
	}
	good = true
	if in.scratch != nil {
		// the caller's own slice, which it has not written to, must still hold the records' values
		r := bytes.NewReader(in.scratch)
		for k, rec := range p.recs {
			d := rec.s.fresh()
			var err error
			before := r.Len()
			if !q.must(rec.s.eUn(), func() { err = d.Unmarshal(r) }) {
				good = false
				break
			}
			if same, why := rec.s.same(d); err != nil || !same || before-r.Len() != len(rec.enc) {
				good = false
				q.viol(rec.s.eUn(), ruleEdit, map[string]any{"original_input": hx(rec.enc), "record": k, "records": len(p.recs), "reader": how, "callers_slice_now": hx(in.scratch)},
					"%s: the caller's slice held the valid encoding %s as record %d of %d and was never written to by the caller; after the values decoded from it (through %s) were appended to and overwritten in place, decoding the same slice again gives err=%v, %d bytes consumed, %s",
					rec.s.name, hx(rec.enc), k, len(p.recs), how, err, before-r.Len(), why)
				break
			}
		}
	}
	if good {
		seen("input-unchanged-by-edits-of-decoded-values")
		c.Cell("one input, several records|%s, caller appends to and overwrites each decoded value before decoding the next|following records and the caller's input unchanged", how)
		for _, rec := range p.recs {
			c.Cell("%s|caller edits the decoded value, then decodes what follows in the same input|what follows decodes to its value", rec.s.name)
		}
	}
}

// ---- slice decoders on a scratch slice of the caller ----

func caseOwnedSlice(q *x) {
	ownedEvt3(q)
	ownedResetBlock(q)
	ownedTDX(q)
}

func ownedEvt3(q *x) {
	c := q.c
	const eUn, eMa = "eventlog.SP800155Event3.UnmarshalFromBytes", "eventlog.SP800155Event3.MarshalToBytes"
	type heldEvt struct {
		v    tcgref.Evt3
		want []byte
		d    *eventlog.SP800155Event3
	}
	K := 2 + q.r.IntN(2)
	var vs []tcgref.Evt3
	var wants [][]byte
	maxLen := 0
	for k := 0; k < K; k++ {
		v := randEvt3(q)
		w := tcgref.Evt3Bytes(v)
		vs, wants = append(vs, v), append(wants, w)
		maxLen = max(maxLen, len(w)-16)
	}
	scratch := make([]byte, maxLen+8+q.r.IntN(64))
	var hs []heldEvt
	check := func(when string) bool {
		good := true
		for k, h := range hs {
			ok, f := tcgref.EqualEvt3(fromRepoEvt3(h.d), h.v)
			if !ok {
				good = false
				q.viol(eUn, ruleReuse, map[string]any{"input": hx(h.want[16:]), "record": k, "when": when},
					"SP800155Event3: field %s of the event decoded from the caller's scratch slice (%s) was right when UnmarshalFromBytes returned and is different %s", f, hx(h.want[16:]), when)
				continue
			}
			var re []byte
			var err error
			if q.must(eMa, func() { re, err = h.d.MarshalToBytes() }) && (err != nil || !bytes.Equal(re, h.want)) {
				good = false
				q.viol(eUn, ruleReuse, map[string]any{"input": hx(h.want[16:]), "reencoded": hx(re), "when": when},
					"SP800155Event3: the event decoded from %s no longer re-encodes to the bytes it was decoded from %s: %s (err=%v)", hx(h.want[16:]), when, hx(re), err)
			}
		}
		return good
	}
	good := true
	for k := 0; k < K; k++ {
		body := wants[k][16:]
		n := copy(scratch, body)
		pad := q.r.IntN(2) * q.r.IntN(9)
		for i := n; i < n+pad; i++ {
			scratch[i] = 0
		}
		d := &eventlog.SP800155Event3{}
		var err error
		if !q.must(eUn, func() { err = d.UnmarshalFromBytes(scratch[:n+pad]) }) {
			return
		}
		if err != nil {
			q.viol(eUn, "valid-encoding-refused", map[string]any{"input": hx(scratch[:n+pad])}, "SP800155Event3 refuses its own encoding (record %d read from the caller's scratch slice, %d bytes of zero padding): %v", k, pad, err)
			return
		}
		if ok, f := tcgref.EqualEvt3(fromRepoEvt3(d), vs[k]); !ok {
			q.viol(eUn, "decoded-value-differs", map[string]any{"input": hx(scratch[:n+pad])}, "SP800155Event3: decode(encode(v)) differs in %s (record %d read from the caller's scratch slice)", f, k)
			return
		}
		// the events decoded before this one, now that the scratch slice holds this one
		good = check(fmt.Sprintf("after the caller copied record %d into the same scratch slice and decoded it", k)) && good
		hs = append(hs, heldEvt{vs[k], wants[k], d})
	}
	for i := range scratch {
		scratch[i] = 0xEE
	}
	good = check("after the caller filled its scratch slice with 0xEE") && good
	if good {
		seen("slice-decoder-results-unchanged-by-reuse-of-scratch")
		seen("decoded-values-unchanged-by-callers-reuse-of-input")
		c.Cell("SP800155Event3|records decoded one after the other from one scratch slice of the caller|every event unchanged, re-encodes to its input")
	}
	// the caller edits a decoded event; its scratch slice, which it does not touch, must decode as before
	k := q.r.IntN(K)
	body := wants[k][16:]
	n := copy(scratch, body)
	in := scratch[:n]
	d := &eventlog.SP800155Event3{}
	var err error
	if !q.must(eUn, func() { err = d.UnmarshalFromBytes(in) }) || err != nil {
		return
	}
	junk := rbytes(q.r, 1+q.r.IntN(24))
	for step, edit := range []func(){func() { appendAll(d, junk) }, func() { scribble(d) }} {
		edit()
		if step == 0 {
			if ok, f := tcgref.EqualEvt3(fromRepoEvt3(d), vs[k]); !ok {
				q.viol(eUn, ruleEdit, map[string]any{"input": hx(body)}, "SP800155Event3: appending to the locators of a decoded event (result dropped) changed its field %s", f)
				return
			}
		}
		d2 := &eventlog.SP800155Event3{}
		if !q.must(eUn, func() { err = d2.UnmarshalFromBytes(in) }) {
			return
		}
		if ok, f := tcgref.EqualEvt3(fromRepoEvt3(d2), vs[k]); err != nil || !ok {
			q.viol(eUn, ruleEdit, map[string]any{"original_input": hx(body), "callers_slice_now": hx(in), "edit": []string{"append to the locators, result dropped", "overwrite in place"}[step]},
				"SP800155Event3: the caller's scratch slice held the valid encoding %s and was not written to by the caller; after the caller edited the event decoded from it (%s) the same slice decodes with err=%v, field %s differing; it now reads %s",
				hx(body), []string{"appended to its locators", "overwrote its fields in place"}[step], err, f, hx(in))
			return
		}
	}
	seen("input-unchanged-by-edits-of-decoded-values")
	c.Cell("SP800155Event3|caller appends to and overwrites the decoded event, decodes its scratch slice again|same value")
}

func ownedResetBlock(q *x) {
	c := q.c
	const entry = "abi.SevEsResetBlockFromBytes"
	type heldBlk struct {
		v   abiref.Value
		enc []byte
		got *opb.SevEsResetBlock
	}
	same := func(v abiref.Value, got *opb.SevEsResetBlock) bool {
		g := v.G["guid"]
		return got != nil && uint64(got.Addr) == v.U["addr"] && uint64(got.Size) == v.U["size"] && bytes.Equal(got.Guid, g[:])
	}
	scratch := make([]byte, abiref.ResetBlock.Size, abiref.ResetBlock.Size+q.r.IntN(40))
	var hs []heldBlk
	check := func(when string) bool {
		good := true
		for _, h := range hs {
			if !same(h.v, h.got) {
				good = false
				q.viol(entry, ruleReuse, map[string]any{"input": hx(h.enc), "now": fmt.Sprint(h.got), "when": when},
					"the reset block decoded from the caller's scratch slice (%s) was right when the call returned and reads %v %s", hx(h.enc), h.got, when)
			}
		}
		return good
	}
	good := true
	for k := 0; k < 3; k++ {
		v := randValue(q, abiref.ResetBlock)
		v.U["size"] &= 0xFFFF
		enc := abiref.ResetBlock.Encode(v)
		copy(scratch, enc)
		var got *opb.SevEsResetBlock
		var err error
		if !q.must(entry, func() { got, err = abi.SevEsResetBlockFromBytes(scratch) }) {
			return
		}
		if err != nil || !same(v, got) {
			q.viol(entry, "decoded-value-differs", map[string]any{"input": hx(enc)}, "SEV-ES reset block %s read from the caller's scratch slice decodes as %v (err=%v)", hx(enc), got, err)
			return
		}
		good = check(fmt.Sprintf("after the caller copied block %d into the same scratch slice and decoded it", k)) && good
		hs = append(hs, heldBlk{v, enc, got})
	}
	last := hs[len(hs)-1]
	// the caller edits the last result; its scratch slice must decode as before
	_ = append(last.got.Guid, rbytes(q.r, 1+q.r.IntN(8))...)
	editOK := same(last.v, last.got)
	xorAll(last.got.Guid)
	var again *opb.SevEsResetBlock
	var err error
	if q.must(entry, func() { again, err = abi.SevEsResetBlockFromBytes(scratch) }) {
		if !editOK || err != nil || !same(last.v, again) {
			q.viol(entry, ruleEdit, map[string]any{"original_input": hx(last.enc), "callers_slice_now": hx(scratch)},
				"the caller's scratch slice held the reset block %s and was not written to by the caller; after the caller appended to and overwrote the Guid of the block decoded from it, the slice reads %s and decodes as %v (err=%v)", hx(last.enc), hx(scratch), again, err)
		} else {
			seen("input-unchanged-by-edits-of-decoded-values")
			c.Cell("SevEsResetBlock|caller appends to and overwrites the decoded Guid, decodes its scratch slice again|same value")
		}
	}
	hs = hs[:len(hs)-1]
	for i := range scratch {
		scratch[i] = 0xEE
	}
	good = check("after the caller filled its scratch slice with 0xEE") && good
	if good {
		seen("slice-decoder-results-unchanged-by-reuse-of-scratch")
		c.Cell("SevEsResetBlock|blocks decoded one after the other from one scratch slice of the caller|every block unchanged")
	}
}

func ownedTDX(q *x) {
	c := q.c
	const entry = "abi.TDXMetadataFromBytes"
	type heldTdx struct {
		enc  []byte
		hv   abiref.Value
		secs []abiref.Value
		got  *abi.TDXMetadata
	}
	same := func(t heldTdx, got *abi.TDXMetadata) bool {
		if got == nil || got.Header == nil || len(got.Sections) != len(t.secs) {
			return false
		}
		h := got.Header
		if uint64(h.Signature) != t.hv.U["signature"] || uint64(h.Length) != t.hv.U["length"] || uint64(h.Version) != t.hv.U["version"] || int(h.SectionCount) != len(t.secs) {
			return false
		}
		for k := range t.secs {
			if got.Sections[k] == nil {
				return false
			}
			if ok, _ := abiref.TDXSection.Equal(tdxSectionValue(got.Sections[k]), t.secs[k]); !ok {
				return false
			}
		}
		return true
	}
	scratch := make([]byte, abiref.TDXDesc.Size+4*abiref.TDXSection.Size)
	var hs []heldTdx
	check := func(when string) bool {
		good := true
		for _, h := range hs {
			if !same(h, h.got) {
				good = false
				q.viol(entry, ruleReuse, map[string]any{"input": hx(h.enc), "when": when}, "the TDVF metadata decoded from the caller's scratch slice (%s) was right when the call returned and is different %s", hx(h.enc), when)
			}
		}
		return good
	}
	good := true
	for k := 0; k < 2; k++ {
		n := 1 + q.r.IntN(4)
		t := heldTdx{hv: randValue(q, abiref.TDXDesc)}
		t.hv.U["section_count"] = uint64(n)
		t.enc = abiref.TDXDesc.Encode(t.hv)
		for j := 0; j < n; j++ {
			sv := randValue(q, abiref.TDXSection)
			t.secs = append(t.secs, sv)
			t.enc = append(t.enc, abiref.TDXSection.Encode(sv)...)
		}
		copy(scratch, t.enc)
		var err error
		if !q.must(entry, func() { t.got, err = abi.TDXMetadataFromBytes(scratch[:len(t.enc)]) }) {
			return
		}
		if err != nil || !same(t, t.got) {
			c.Count("owned-setup-skipped (TDVF metadata: judged by its own cases)", 1)
			return
		}
		good = check(fmt.Sprintf("after the caller copied metadata %d into the same scratch slice and decoded it", k)) && good
		hs = append(hs, t)
	}
	last := hs[len(hs)-1]
	last.got.Header.Length ^= 0xFFFFFFFF
	for _, s := range last.got.Sections {
		s.DataOffset ^= 0xFFFFFFFF
		s.MemorySize ^= 0xFFFFFFFF
	}
	var again *abi.TDXMetadata
	var err error
	if q.must(entry, func() { again, err = abi.TDXMetadataFromBytes(scratch[:len(last.enc)]) }) {
		if err != nil || !same(last, again) {
			q.viol(entry, ruleEdit, map[string]any{"original_input": hx(last.enc), "callers_slice_now": hx(scratch[:len(last.enc)])},
				"the caller's scratch slice held the TDVF metadata %s and was not written to by the caller; after the caller overwrote fields of the metadata decoded from it, the slice decodes differently (err=%v)", hx(last.enc), err)
		} else {
			seen("input-unchanged-by-edits-of-decoded-values")
			c.Cell("TDXMetadata|caller overwrites the decoded metadata, decodes its scratch slice again|same value")
		}
	}
	hs = hs[:len(hs)-1]
	for i := range scratch {
		scratch[i] = 0xEE
	}
	good = check("after the caller filled its scratch slice with 0xEE") && good
	if good {
		seen("slice-decoder-results-unchanged-by-reuse-of-scratch")
		c.Cell("TDXMetadata|metadata decoded one after the other from one scratch slice of the caller|unchanged")
	}
}
