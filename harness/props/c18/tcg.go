package c18

import (
	"bytes"
	"fmt"
	"io"
	"reflect"

	"github.com/google/gce-tcb-verifier/eventlog"
	"github.com/google/uuid"

	"verifharness/props/c18/tcgref"
)

type codec interface {
	Unmarshal(io.Reader) error
	Marshal(io.Writer) error
}

// stream describes one stream-decoded structure for the generic probes.
type stream struct {
	name  string // structure name, also the entry-point prefix
	fresh func() codec
	// canon re-encodes, with the reference codec, the reference decoding of b, with SP800-155 padding
	// removed; ok=false when b is not exactly one valid encoding. maxDeclared is the largest size field met.
	canon func(b []byte) (out []byte, ok bool, maxDeclared uint32)
	// same compares a decoded repository value with the case's value.
	same   func(c codec) (bool, string)
	toEOF  bool // the decoder reads to the end of input (log)
	padded bool // encodings may carry documented zero padding inside (event data)
	// another returns one more in-range value of the structure (a freshly built repository value) and
	// its reference encoding: the earlier contents of a reused receiver / value object.
	another func() (codec, []byte)
	// sampleCuts: probe a sample of truncation lengths in both tiers (encodings of hundreds of KiB)
	sampleCuts bool
}

// judgeLogAppendOnReuse: CryptoAgileLog.Unmarshal appends the events it reads to cel.Events, so a
// log decoded into a value that already holds events comes out as the old events followed by the new
// ones. Whether "decoding the encoding yields the same value" covers a receiver whose event list the
// caller did not clear is not settled by the property text for an appending reader, so this one
// behaviour is counted and noted; the receiver's event list is cleared by the harness (as a caller
// aware of the appending would) and everything else about the reused receiver is judged.
const judgeLogAppendOnReuse = false

// assign overwrites the value object *dst with the contents of *src (same pointer type).
func assign(dst, src codec) bool {
	d, s := reflect.ValueOf(dst), reflect.ValueOf(src)
	if d.Kind() != reflect.Pointer || s.Kind() != reflect.Pointer || d.Type() != s.Type() || d.IsNil() || s.IsNil() {
		return false
	}
	d.Elem().Set(s.Elem())
	return true
}

func (s stream) eUn() string { return "eventlog." + s.name + ".Unmarshal" }
func (s stream) eMa() string { return "eventlog." + s.name + ".Marshal" }

const maxDeclaredOK = 1 << 20

// reader kinds
const (
	rdBuffer = iota
	rdReader
	rdFile
)

var rdNames = []string{"bytes.Buffer", "bytes.Reader", "file"}

// open returns a reader over b and a function telling how many bytes are left unread.
func (q *x) open(kind int, b []byte) (io.Reader, func() int, bool) {
	switch kind {
	case rdBuffer:
		r := bytes.NewBuffer(append([]byte(nil), b...))
		return r, r.Len, true
	case rdReader:
		r := bytes.NewReader(b)
		return r, r.Len, true
	default:
		f := q.st.tmp
		if f == nil {
			return nil, nil, false
		}
		if err := f.Truncate(0); err != nil {
			return nil, nil, false
		}
		if _, err := f.WriteAt(b, 0); err != nil {
			return nil, nil, false
		}
		if _, err := f.Seek(0, io.SeekStart); err != nil {
			return nil, nil, false
		}
		return f, func() int {
			pos, _ := f.Seek(0, io.SeekCurrent)
			return len(b) - int(pos)
		}, true
	}
}

// accepted judges an input the decoder accepted: what it consumed must re-encode to itself.
func (q *x) accepted(s stream, probe string, in []byte, consumed int, d codec, kind int) {
	c := q.c
	if consumed < 0 || consumed > len(in) {
		consumed = len(in)
	}
	var re bytes.Buffer
	var err error
	if q.try(func() { err = d.Marshal(&re) }) || err != nil {
		q.viol(s.eUn(), "accepted-bytes-do-not-reencode", map[string]any{"input": hx(in), "reader": rdNames[kind], "probe": probe},
			"%s accepts %d bytes (%s) but the decoded value cannot be encoded again: %v", s.name, len(in), probe, err)
		return
	}
	head := in[:consumed]
	if bytes.Equal(re.Bytes(), head) {
		seen("accepted-bytes-reencode-identically")
		return
	}
	if s.padded {
		a, ok1, _ := s.canon(head)
		b, ok2, _ := s.canon(re.Bytes())
		if ok1 && ok2 && bytes.Equal(a, b) {
			c.Count("accepted-with-sp800155-zero-padding/"+s.name, 1)
			seen("accepted-bytes-reencode-identically")
			return
		}
	}
	q.viol(s.eUn(), "accepted-bytes-reencode-differently", map[string]any{"input": hx(in), "reencoded": hx(re.Bytes()), "reader": rdNames[kind], "probe": probe},
		"%s accepts %s (%d bytes, consumed %d, via %s, probe: %s) and re-encodes it as %s (%d bytes)", s.name, hx(in), len(in), consumed, rdNames[kind], probe, hx(re.Bytes()), re.Len())
}

// checkStream runs all probes around one value. marshal encodes the case's repository value.
func checkStream(q *x, s stream, val codec, want []byte) {
	c := q.c
	witness := map[string]any{"reference_encoding": hx(want)}
	if len(want) < 200 {
		c.Sample(map[string]any{"case": q.i, "structure": s.name, "reference_encoding": hx(want), "probes": "3 readers x (exact, followed); every truncation; single-byte changes"})
	}
	// 1. encoder
	var enc bytes.Buffer
	var err error
	if !q.must(s.eMa(), func() { err = val.Marshal(&enc) }) {
		return
	}
	if err != nil {
		q.viol(s.eMa(), "in-range-value-refused", witness, "%s: Marshal refuses an in-range value: %v", s.name, err)
		return
	}
	if !bytes.Equal(enc.Bytes(), want) {
		q.viol(s.eMa(), "encoding-differs-from-abi", witness, "%s: encoded %s, the specification's layout gives %s", s.name, hx(enc.Bytes()), hx(want))
	} else {
		seen("encoding-equals-reference")
		c.Cell("%s|encode|equals reference layout", s.name)
	}
	// 1b. the same value with dirty spare capacity behind every byte-slice field
	{
		var recs []dirtyRec
		if dv := dirtyClone(val, &recs); dv != nil && len(recs) > 0 {
			var e2 bytes.Buffer
			var err2 error
			if q.must(s.eMa(), func() { err2 = dv.Marshal(&e2) }) {
				q.judgeSpare(s.eMa(), s.name, enc.Bytes(), e2.Bytes(), err2, recs)
			}
		}
	}
	// 1c. call sequences on the encoder: a reused value object first holding this value, then overwritten
	//     in place with another value, then the case's own value object once more. Every encoding must be
	//     the one of the value the object holds at the time of the call.
	if s.another != nil {
		seqWitness := func(step string, got, ref []byte) map[string]any {
			return map[string]any{"step": step, "encoded": hx(got), "reference_encoding": hx(ref)}
		}
		marshal := func(o codec) ([]byte, error, bool) {
			var b bytes.Buffer
			var e error
			ok := q.must(s.eMa(), func() { e = o.Marshal(&b) })
			return b.Bytes(), e, ok
		}
		obj := s.fresh()
		if assign(obj, val) {
			good := true
			if b1, e1, ok := marshal(obj); ok && (e1 != nil || !bytes.Equal(b1, enc.Bytes())) {
				good = false
				q.viol(s.eMa(), "encoding-depends-on-earlier-calls", seqWitness("a second value object with the same contents", b1, enc.Bytes()),
					"%s: a second value object with the same contents encodes as %s (err=%v), the first gave %s", s.name, hx(b1), e1, hx(enc.Bytes()))
			}
			ov, oenc := s.another()
			if assign(obj, ov) {
				if b2, e2, ok := marshal(obj); ok && (e2 != nil || !bytes.Equal(b2, oenc)) {
					good = false
					q.viol(s.eMa(), "encoding-depends-on-earlier-calls", seqWitness("value object encoded, overwritten in place with another value, encoded again", b2, oenc),
						"%s: a value object that was encoded once and then overwritten in place with another value encodes as %s (err=%v); the layout of the value it holds gives %s", s.name, hx(b2), e2, hx(oenc))
				}
			}
			if b3, e3, ok := marshal(val); ok && (e3 != nil || !bytes.Equal(b3, enc.Bytes())) {
				good = false
				q.viol(s.eMa(), "encoding-depends-on-earlier-calls", seqWitness("the same unchanged value encoded a second time after other encodings", b3, enc.Bytes()),
					"%s: the same unchanged value encodes as %s the first time and as %s (err=%v) after other values were encoded", s.name, hx(enc.Bytes()), hx(b3), e3)
			}
			if good {
				seen("encoding-independent-of-earlier-calls")
				c.Cell("%s|value object reused for another value, then the first value again|each encoding is the held value's", s.name)
			}
		}
	}
	// 2. decode inverts encode, with exactly the encoding consumed, through the three reader kinds,
	//    with and without bytes following the encoding
	readers := 0
	for kind := rdBuffer; kind <= rdFile; kind++ {
		for _, follow := range []bool{false, true} {
			in := want
			if follow {
				if s.toEOF {
					continue
				}
				in = append(append([]byte{}, want...), rbytes(q.r, 1+q.r.IntN(6))...)
			}
			r, left, ok := q.open(kind, in)
			if !ok {
				continue
			}
			d := s.fresh()
			var err error
			if !q.must(s.eUn(), func() { err = d.Unmarshal(r) }) {
				continue
			}
			probe := "own encoding"
			if follow {
				probe = "own encoding followed by other bytes"
			}
			if err != nil {
				q.viol(s.eUn(), "valid-encoding-refused", map[string]any{"input": hx(in), "reader": rdNames[kind], "encoding_len": len(want)},
					"%s: decoder refuses its own encoding %s (%d bytes, %s) read from a %s: %v", s.name, hx(want), len(want), probe, rdNames[kind], err)
				continue
			}
			if got := len(in) - left(); got != len(want) {
				q.viol(s.eUn(), "consumed-length-differs-from-abi", map[string]any{"input": hx(in), "reader": rdNames[kind]},
					"%s: decoder consumed %d bytes of a %d-byte encoding (%s, %s)", s.name, got, len(want), probe, rdNames[kind])
				continue
			}
			if ok, why := s.same(d); !ok {
				q.viol(s.eUn(), "decoded-value-differs", map[string]any{"input": hx(in), "reader": rdNames[kind]}, "%s: decode(encode(v)) != v via %s: %s", s.name, rdNames[kind], why)
				continue
			}
			q.accepted(s, probe, in, len(want), d, kind)
			seen("decode-inverts-encode")
			c.Cell("%s|decode(encode) via %s|same value, exact length", s.name, rdNames[kind])
			if !follow {
				readers |= 1 << kind
			}
		}
	}
	if readers == 7 {
		seen("stream-readers-all-three")
	}
	// 2b. the same through a receiver that is not fresh: it decoded another encoding before, or the caller
	//     built it holding another value. What it held before must not show in the result.
	if s.another != nil {
		for kind := rdBuffer; kind <= rdFile; kind++ {
			ov, oenc := s.another()
			d, how := ov, "a receiver the caller built holding another value"
			if q.r.IntN(3) != 0 {
				d, how = s.fresh(), "a receiver that decoded another encoding before"
				r0, _, ok := q.open(kind, oenc)
				if !ok {
					continue
				}
				var e0 error
				if q.try(func() { e0 = d.Unmarshal(r0) }) || e0 != nil {
					c.Count("used-receiver-setup-refused/"+s.name, 1) // judged by that value's own case
					continue
				}
			}
			if l, ok := d.(*eventlog.CryptoAgileLog); ok && !judgeLogAppendOnReuse {
				if held := len(l.Events); held > 0 {
					cp := &eventlog.CryptoAgileLog{Header: l.Header, Events: append([]*eventlog.TCGPCREvent2(nil), l.Events...)}
					if r1, _, ok := q.open(rdReader, want); ok {
						var e1 error
						if !q.try(func() { e1 = cp.Unmarshal(r1) }) && e1 == nil {
							if sameOK, _ := s.same(cp); !sameOK {
								c.Count("unjudged/CryptoAgileLog.Unmarshal into a log that already holds events keeps them in front of the decoded ones", 1)
								c.Note("CryptoAgileLog.Unmarshal appends to cel.Events without clearing it: decoding into a log value that already holds N events yields those N events followed by the decoded ones (re-encoding gives more bytes than were accepted); counted, not judged (const judgeLogAppendOnReuse) - the harness clears Events itself before judging a reused log receiver")
							}
						}
					}
				}
				l.Events = nil
			}
			r, left, ok := q.open(kind, want)
			if !ok {
				continue
			}
			var err error
			if !q.must(s.eUn(), func() { err = d.Unmarshal(r) }) {
				continue
			}
			wit := map[string]any{"input": hx(want), "receiver": how, "receiver_held_encoding": hx(oenc), "reader": rdNames[kind]}
			if err != nil {
				q.viol(s.eUn(), "valid-encoding-refused", wit, "%s: decoder refuses its own encoding %s (%d bytes) read from a %s into %s: %v", s.name, hx(want), len(want), rdNames[kind], how, err)
				continue
			}
			if got := len(want) - left(); got != len(want) {
				q.viol(s.eUn(), "consumed-length-differs-from-abi", wit, "%s: decoder consumed %d bytes of a %d-byte encoding (into %s, %s)", s.name, got, len(want), how, rdNames[kind])
				continue
			}
			q.accepted(s, "own encoding into "+how, want, len(want), d, kind)
			if ok, why := s.same(d); !ok {
				q.viol(s.eUn(), "decoded-value-depends-on-receiver", wit, "%s: decode(encode(v)) != v when decoding into %s (which held the value encoded as %s): %s", s.name, how, hx(oenc), why)
				continue
			}
			seen("decode-into-used-receiver-inverts-encode")
			c.Cell("%s|decode(encode) into %s|same value, exact length", s.name, how)
		}
	}
	// 3. every truncation, through bytes.Buffer and bytes.Reader; a sample through the file
	cuts := q.shorter(len(want))
	if s.sampleCuts {
		cuts = q.sampled(len(want))
	}
	if len(want) <= 1500 { // every length, both tiers: these encodings are small
		cuts = cuts[:0]
		for k := 0; k < len(want); k++ {
			cuts = append(cuts, k)
		}
	}
	fileCut := -1
	if len(cuts) > 0 {
		fileCut = cuts[q.r.IntN(len(cuts))]
	}
	for _, k := range cuts {
		for kind := rdBuffer; kind <= rdFile; kind++ {
			if kind == rdFile && k != fileCut {
				continue
			}
			r, left, ok := q.open(kind, want[:k])
			if !ok {
				continue
			}
			d := s.fresh()
			var err error
			if q.try(func() { err = d.Unmarshal(r) }) {
				c.Count("refused-by-panic/"+s.eUn(), 1)
				continue
			}
			if err != nil {
				seen("truncation-refused")
				c.Count("truncations-refused/"+s.name, 1)
				continue
			}
			c.Count("truncations-accepted/"+s.name, 1)
			before := q.fired[s.eUn()+"|accepted-bytes-reencode-differently"]
			q.accepted(s, fmt.Sprintf("encoding cut to %d of %d bytes", k, len(want)), want[:k], k-left(), d, kind)
			if s.toEOF && !before && !q.fired[s.eUn()+"|accepted-bytes-reencode-differently"] {
				seen("log-cut-on-event-boundary-accepted")
				c.Cell("%s|cut on an event boundary|accepted as the shorter log", s.name)
			}
		}
	}
	if len(cuts) > 0 {
		c.Cell("%s|truncated encoding|probed at %s", s.name, map[bool]string{true: "every length", false: "sampled lengths"}[len(cuts) == len(want)])
	}
	// 4. single-byte changes: whatever is accepted must re-encode to itself
	var positions []int
	if q.st.thorough && len(want) <= 400 {
		for k := range want {
			positions = append(positions, k)
		}
	} else {
		for k := 0; k < 24 && len(want) > 0; k++ {
			positions = append(positions, q.r.IntN(len(want)))
		}
	}
	for _, p := range positions {
		mut := append([]byte{}, want...)
		mut[p] ^= byte(1 + q.r.IntN(255))
		if q.r.IntN(4) == 0 {
			mut[p] = want[p] ^ byte(1<<uint(q.r.IntN(8)))
		}
		if _, _, md := s.canon(mut); md > maxDeclaredOK {
			c.Count("single-byte-change-skipped-declared-size-over-1MiB", 1)
			continue
		}
		kind := q.r.IntN(2)
		r, left, _ := q.open(kind, mut)
		d := s.fresh()
		var err error
		if q.try(func() { err = d.Unmarshal(r) }) {
			c.Count("refused-by-panic/"+s.eUn(), 1)
			continue
		}
		if err != nil {
			seen("single-byte-change-refused")
			c.Count("single-byte-changes-refused/"+s.name, 1)
			c.Cell("%s|single byte changed|refused", s.name)
			continue
		}
		seen("single-byte-change-accepted")
		c.Count("single-byte-changes-accepted/"+s.name, 1)
		c.Cell("%s|single byte changed|accepted, re-encoding compared", s.name)
		q.accepted(s, fmt.Sprintf("byte %d changed from %#02x to %#02x", p, want[p], mut[p]), mut, len(mut)-left(), d, kind)
	}
}

// ---- generators ----

func rstr(q *x, max int) string {
	var n int
	switch q.r.IntN(12) {
	case 0:
		n = 0
	case 1:
		n = max
	case 2:
		n = max - 1
	default:
		n = 1 + q.r.IntN(40)
		if n > max {
			n = max
		}
	}
	b := make([]byte, n)
	nul := q.r.IntN(20) == 0
	for i := range b {
		b[i] = byte(1 + q.r.IntN(255))
		if nul && q.r.IntN(6) == 0 {
			b[i] = 0
		}
	}
	return string(b)
}

func rarr(q *x) []byte {
	switch q.r.IntN(10) {
	case 0:
		return nil
	case 1:
		return rbytes(q.r, 200+q.r.IntN(200))
	case 2: // ends in zero bytes: indistinguishable from padding unless sizes are honoured
		return append(rbytes(q.r, q.r.IntN(20)), make([]byte, 1+q.r.IntN(8))...)
	default:
		return rbytes(q.r, 1+q.r.IntN(60))
	}
}

func randEvt3(q *x) tcgref.Evt3 {
	var g [16]byte
	copy(g[:], rbytes(q.r, 16))
	mx := 40
	if q.r.IntN(8) == 0 {
		mx = 254 // the longest string a UINT8 size (which counts the terminator) can describe
	}
	return tcgref.Evt3{PlatformManufacturerID: uint32(pick(q.r, 4)), GUID: g,
		PlatformManufacturerStr: rstr(q, mx), PlatformModel: rstr(q, mx), PlatformVersion: rstr(q, 8), FirmwareManStr: rstr(q, 20),
		FirmwareManufacturerID: uint32(pick(q.r, 4)), FirmwareVersion: rstr(q, 8),
		RIMLocatorType: uint32(q.r.IntN(5)), RIMLocator: rarr(q), PlatformCertLocatorType: uint32(pick(q.r, 4)), PlatformCertLocator: rarr(q)}
}

func repoEvt3(v tcgref.Evt3) *eventlog.SP800155Event3 {
	return &eventlog.SP800155Event3{PlatformManufacturerID: v.PlatformManufacturerID, ReferenceManifestGUID: eventlog.EfiGUID{UUID: uuid.UUID(v.GUID)},
		PlatformManufacturerStr: eventlog.ByteSizedCStr{Data: v.PlatformManufacturerStr}, PlatformModel: eventlog.ByteSizedCStr{Data: v.PlatformModel},
		PlatformVersion: eventlog.ByteSizedCStr{Data: v.PlatformVersion}, FirmwareManufacturerStr: eventlog.ByteSizedCStr{Data: v.FirmwareManStr},
		FirmwareManufacturerID: v.FirmwareManufacturerID, FirmwareVersion: eventlog.ByteSizedCStr{Data: v.FirmwareVersion},
		RIMLocatorType: v.RIMLocatorType, RIMLocator: eventlog.Uint32SizedArray{Data: v.RIMLocator},
		PlatformCertLocatorType: v.PlatformCertLocatorType, PlatformCertLocator: eventlog.Uint32SizedArray{Data: v.PlatformCertLocator}}
}

func fromRepoEvt3(e *eventlog.SP800155Event3) tcgref.Evt3 {
	return tcgref.Evt3{PlatformManufacturerID: e.PlatformManufacturerID, GUID: [16]byte(e.ReferenceManifestGUID.UUID),
		PlatformManufacturerStr: e.PlatformManufacturerStr.Data, PlatformModel: e.PlatformModel.Data, PlatformVersion: e.PlatformVersion.Data,
		FirmwareManStr: e.FirmwareManufacturerStr.Data, FirmwareManufacturerID: e.FirmwareManufacturerID, FirmwareVersion: e.FirmwareVersion.Data,
		RIMLocatorType: e.RIMLocatorType, RIMLocator: e.RIMLocator.Data, PlatformCertLocatorType: e.PlatformCertLocatorType, PlatformCertLocator: e.PlatformCertLocator.Data}
}

// randEventData returns raw event bytes and the repository value that stands for them.
func randEventData(q *x) ([]byte, eventlog.TCGEventData) {
	switch q.r.IntN(4) {
	case 0:
		if q.r.IntN(2) == 0 {
			return nil, eventlog.TCGEventData{}
		}
		return nil, eventlog.TCGEventData{Event: &eventlog.UnknownEvent{}}
	case 1:
		v := randEvt3(q)
		return tcgref.Evt3Bytes(v), eventlog.TCGEventData{Event: repoEvt3(v)}
	default:
		b := rbytes(q.r, 1+q.r.IntN(40))
		return b, eventlog.TCGEventData{Event: &eventlog.UnknownEvent{Data: b}}
	}
}

// sameEventData compares decoded event data with raw bytes on decoded fields (no struct identity).
func sameEventData(d *eventlog.TCGEventData, raw []byte) (bool, string) {
	if tcgref.HasEvt3Signature(raw) {
		e, ok := d.Event.(*eventlog.SP800155Event3)
		if !ok {
			return false, fmt.Sprintf("event data with the SP800-155 Event3 signature decoded as %T", d.Event)
		}
		dec := &tcgref.Dec{B: raw[16:]}
		want := dec.Evt3Body()
		if dec.Err != nil {
			return false, "reference cannot decode the case's own event: " + dec.Err.Error()
		}
		if ok, f := tcgref.EqualEvt3(fromRepoEvt3(e), want); !ok {
			return false, "SP800-155 Event3 field " + f + " differs"
		}
		return true, ""
	}
	switch e := d.Event.(type) {
	case nil:
		if len(raw) != 0 {
			return false, "no event decoded from non-empty data"
		}
	case *eventlog.UnknownEvent:
		if !bytes.Equal(e.Data, raw) {
			return false, fmt.Sprintf("event data %x decoded as %x", raw, e.Data)
		}
	default:
		return false, fmt.Sprintf("unsigned event data decoded as %T", d.Event)
	}
	return true, ""
}

func randDigest(q *x) tcgref.Digest {
	alg := []uint16{4, 0xB, 0xC}[q.r.IntN(3)]
	return tcgref.Digest{Alg: alg, Data: rbytes(q.r, tcgref.AlgSize[alg])}
}

func repoDigests(ds []tcgref.Digest) eventlog.Uint32SizedArrayT[*eventlog.TaggedDigest] {
	var out eventlog.Uint32SizedArrayT[*eventlog.TaggedDigest]
	for _, d := range ds {
		out.Array = append(out.Array, &eventlog.TaggedDigest{AlgID: d.Alg, Digest: d.Data})
	}
	return out
}

func sameDigests(got []*eventlog.TaggedDigest, want []tcgref.Digest) (bool, string) {
	if len(got) != len(want) {
		return false, fmt.Sprintf("%d digests, want %d", len(got), len(want))
	}
	for i := range want {
		if got[i] == nil || got[i].AlgID != want[i].Alg || !bytes.Equal(got[i].Digest, want[i].Data) {
			return false, fmt.Sprintf("digest %d differs", i)
		}
	}
	return true, ""
}

func randEvent2(q *x) (tcgref.Event2, *eventlog.TCGPCREvent2) {
	v := tcgref.Event2{PCR: uint32(q.r.IntN(24)), Type: uint32(pick(q.r, 4))}
	if q.r.IntN(4) == 0 {
		v.PCR = uint32(pick(q.r, 4))
	}
	for k := q.r.IntN(4); k > 0; k-- {
		v.Digests = append(v.Digests, randDigest(q))
	}
	raw, ed := randEventData(q)
	if tcgref.HasEvt3Signature(raw) {
		v.Type = 3 // EV_NO_ACTION
	}
	v.Data = raw
	return v, &eventlog.TCGPCREvent2{PCRIndex: v.PCR, EventType: v.Type, Digests: repoDigests(v.Digests), EventData: ed}
}

func randPCEvent(q *x) (tcgref.PCEvent, *eventlog.TCGPCClientPCREvent) {
	v := tcgref.PCEvent{PCR: uint32(pick(q.r, 4)), Type: uint32(pick(q.r, 4))}
	copy(v.SHA1[:], rbytes(q.r, 20))
	var ed eventlog.TCGEventData
	if q.r.IntN(3) == 0 {
		v.Data = append([]byte("Spec ID Event03\x00"), rbytes(q.r, q.r.IntN(24))...)
		ed = eventlog.TCGEventData{Event: &eventlog.UnknownEvent{Data: v.Data}}
	} else {
		v.Data, ed = randEventData(q)
	}
	return v, &eventlog.TCGPCClientPCREvent{PCRIndex: v.PCR, EventType: v.Type, SHA1Digest: v.SHA1, EventData: ed}
}

// normData strips documented zero padding from SP800-155 event data (reference side).
func normData(outer *tcgref.Dec, b []byte) []byte {
	if !tcgref.HasEvt3Signature(b) {
		return b
	}
	d := &tcgref.Dec{B: b[16:]}
	v := d.Evt3Body()
	if d.MaxDeclared > outer.MaxDeclared { // sizes inside the payload count for the allocation guard
		outer.MaxDeclared = d.MaxDeclared
	}
	if d.Err != nil {
		return b
	}
	return tcgref.Evt3Bytes(v)
}

// canonOf builds a canon function from a reference decode+encode pair; whole=true demands that all of b is used.
func canonOf(f func(d *tcgref.Dec, e *tcgref.Enc)) func(b []byte) ([]byte, bool, uint32) {
	return func(b []byte) ([]byte, bool, uint32) {
		d := &tcgref.Dec{B: b}
		e := &tcgref.Enc{}
		f(d, e)
		if d.Err != nil || d.Rest() != 0 {
			return nil, false, d.MaxDeclared
		}
		return e.B, true, d.MaxDeclared
	}
}

// ---- cases ----

func mkCStr(q *x) (stream, codec, []byte) {
	v := rstr(q, 254)
	e := &tcgref.Enc{}
	e.CStr(v)
	s := stream{name: "ByteSizedCStr", fresh: func() codec { return &eventlog.ByteSizedCStr{} },
		canon: canonOf(func(d *tcgref.Dec, e *tcgref.Enc) { e.CStr(d.CStr()) }),
		same: func(c codec) (bool, string) {
			g := c.(*eventlog.ByteSizedCStr).Data
			return g == v, fmt.Sprintf("%q decoded as %q", v, g)
		},
		another: func() (codec, []byte) {
			o := rstr(q, 254)
			oe := &tcgref.Enc{}
			oe.CStr(o)
			return &eventlog.ByteSizedCStr{Data: o}, oe.B
		}}
	return s, &eventlog.ByteSizedCStr{Data: v}, e.B
}

func caseCStr(q *x) {
	s, val, want := mkCStr(q)
	checkStream(q, s, val, want)
	// out-of-range: a string whose size with terminator does not fit the UINT8 size
	long := &eventlog.ByteSizedCStr{Data: string(bytes.Repeat([]byte{'a'}, 255+q.r.IntN(300)))}
	var err error
	var w bytes.Buffer
	if !q.try(func() { err = long.Marshal(&w) }) && err == nil {
		q.viol(s.eMa(), "out-of-range-field-accepted", map[string]any{"string_len": len(long.Data), "encoded": hx(w.Bytes())}, "ByteSizedCStr.Marshal accepts a %d-byte string (size with terminator exceeds 255)", len(long.Data))
	} else {
		seen("out-of-range-refused")
		q.c.Cell("ByteSizedCStr|string longer than 254 bytes|refused")
	}
}

func mkArr32(q *x) (stream, codec, []byte) { return mkArr32Of(q, rarr(q)) }

// mkArr32Of describes a Uint32SizedArray holding v.
func mkArr32Of(q *x, v []byte) (stream, codec, []byte) {
	e := &tcgref.Enc{}
	e.Arr32(v)
	s := stream{name: "Uint32SizedArray", fresh: func() codec { return &eventlog.Uint32SizedArray{} },
		canon: canonOf(func(d *tcgref.Dec, e *tcgref.Enc) { e.Arr32(d.Arr32()) }),
		same: func(c codec) (bool, string) {
			g := c.(*eventlog.Uint32SizedArray).Data
			if bytes.Equal(g, v) {
				return true, ""
			}
			return false, fmt.Sprintf("%s decoded as %s", hx(v), hx(g))
		},
		another: func() (codec, []byte) {
			o := rarr(q)
			oe := &tcgref.Enc{}
			oe.Arr32(o)
			return &eventlog.Uint32SizedArray{Data: o}, oe.B
		}}
	return s, &eventlog.Uint32SizedArray{Data: v}, e.B
}

func caseArr32(q *x) {
	s, val, want := mkArr32(q)
	checkStream(q, s, val, want)
}

func mkEfiGUID(q *x) (stream, codec, []byte) {
	g := rguid(q.r)
	e := &tcgref.Enc{}
	e.GUID(g)
	s := stream{name: "EfiGUID", fresh: func() codec { return &eventlog.EfiGUID{} },
		canon: canonOf(func(d *tcgref.Dec, e *tcgref.Enc) { e.GUID(d.GUID()) }),
		same: func(c codec) (bool, string) {
			u := c.(*eventlog.EfiGUID).UUID
			return [16]byte(u) == [16]byte(g), fmt.Sprintf("%x decoded as %x", g, u)
		},
		another: func() (codec, []byte) {
			o := rguid(q.r)
			oe := &tcgref.Enc{}
			oe.GUID(o)
			return &eventlog.EfiGUID{UUID: uuid.UUID(o)}, oe.B
		}}
	return s, &eventlog.EfiGUID{UUID: uuid.UUID(g)}, e.B
}

func caseEfiGUIDStream(q *x) {
	s, val, want := mkEfiGUID(q)
	checkStream(q, s, val, want)
}

func mkDigest(q *x) (stream, codec, []byte, tcgref.Digest) {
	v := randDigest(q)
	e := &tcgref.Enc{}
	e.Digest(v)
	s := stream{name: "TaggedDigest", fresh: func() codec { return &eventlog.TaggedDigest{} },
		canon: canonOf(func(d *tcgref.Dec, e *tcgref.Enc) { e.Digest(d.Digest()) }),
		same: func(c codec) (bool, string) {
			return sameDigests([]*eventlog.TaggedDigest{c.(*eventlog.TaggedDigest)}, []tcgref.Digest{v})
		},
		another: func() (codec, []byte) {
			o := randDigest(q)
			oe := &tcgref.Enc{}
			oe.Digest(o)
			return &eventlog.TaggedDigest{AlgID: o.Alg, Digest: o.Data}, oe.B
		}}
	return s, &eventlog.TaggedDigest{AlgID: v.Alg, Digest: v.Data}, e.B, v
}

func caseDigest(q *x) {
	s, val, want, v := mkDigest(q)
	checkStream(q, s, val, want)
	// out-of-range: digest length that is not the algorithm's, unknown algorithm
	bad := []*eventlog.TaggedDigest{
		{AlgID: v.Alg, Digest: v.Data[:len(v.Data)-1]},
		{AlgID: v.Alg, Digest: append(append([]byte{}, v.Data...), 0)},
		{AlgID: []uint16{0, 5, 0xD, 0x12, 0xFFFF}[q.r.IntN(5)], Digest: v.Data},
	}
	for k, b := range bad {
		var err error
		var w bytes.Buffer
		if !q.try(func() { err = b.Marshal(&w) }) && err == nil {
			q.viol(s.eMa(), "out-of-range-field-accepted", map[string]any{"alg": b.AlgID, "digest_len": len(b.Digest), "encoded": hx(w.Bytes())},
				"TaggedDigest.Marshal accepts algorithm %#x with a %d-byte digest", b.AlgID, len(b.Digest))
		} else {
			seen("out-of-range-refused")
			q.c.Cell("TaggedDigest|%s|refused", []string{"digest one byte short", "digest one byte long", "unknown algorithm"}[k])
		}
	}
}

func mkDigests(q *x) (stream, codec, []byte) {
	var v []tcgref.Digest
	for k := q.r.IntN(5); k > 0; k-- {
		v = append(v, randDigest(q))
	}
	e := &tcgref.Enc{}
	e.Digests(v)
	rv := repoDigests(v)
	s := stream{name: "Uint32SizedArrayT[TaggedDigest]", fresh: func() codec { return &eventlog.Uint32SizedArrayT[*eventlog.TaggedDigest]{} },
		canon: canonOf(func(d *tcgref.Dec, e *tcgref.Enc) { e.Digests(d.Digests()) }),
		same: func(c codec) (bool, string) {
			return sameDigests(c.(*eventlog.Uint32SizedArrayT[*eventlog.TaggedDigest]).Array, v)
		},
		another: func() (codec, []byte) {
			var o []tcgref.Digest
			for k := q.r.IntN(5); k > 0; k-- {
				o = append(o, randDigest(q))
			}
			oe := &tcgref.Enc{}
			oe.Digests(o)
			ro := repoDigests(o)
			return &ro, oe.B
		}}
	return s, &rv, e.B
}

func caseDigests(q *x) {
	s, val, want := mkDigests(q)
	checkStream(q, s, val, want)
}

func mkEventData(q *x) (stream, codec, []byte) {
	raw, ed := randEventData(q)
	return mkEventDataOf(q, raw, ed)
}

// mkEventDataOf describes a TCGEventData whose raw payload is raw and whose repository value is ed.
func mkEventDataOf(q *x, raw []byte, ed eventlog.TCGEventData) (stream, codec, []byte) {
	e := &tcgref.Enc{}
	e.Arr32(raw)
	s := stream{name: "TCGEventData", padded: true, fresh: func() codec { return &eventlog.TCGEventData{} },
		canon: canonOf(func(d *tcgref.Dec, e *tcgref.Enc) { e.Arr32(normData(d, d.Arr32())) }),
		same:  func(c codec) (bool, string) { return sameEventData(c.(*eventlog.TCGEventData), raw) },
		another: func() (codec, []byte) {
			oraw, oed := randEventData(q)
			oe := &tcgref.Enc{}
			oe.Arr32(oraw)
			return &oed, oe.B
		}}
	return s, &ed, e.B
}

func caseEventData(q *x) {
	s, val, want := mkEventData(q)
	checkStream(q, s, val, want)
}

func mkPCEvent(q *x) (stream, codec, []byte) {
	v, rv := randPCEvent(q)
	e := &tcgref.Enc{}
	e.PCEvent(v)
	s := stream{name: "TCGPCClientPCREvent", padded: true, fresh: func() codec { return &eventlog.TCGPCClientPCREvent{} },
		canon: canonOf(func(d *tcgref.Dec, e *tcgref.Enc) {
			p := d.PCEvent()
			p.Data = normData(d, p.Data)
			e.PCEvent(p)
		}),
		same: func(c codec) (bool, string) { return samePCEvent(c.(*eventlog.TCGPCClientPCREvent), v) },
		another: func() (codec, []byte) {
			o, ro := randPCEvent(q)
			oe := &tcgref.Enc{}
			oe.PCEvent(o)
			return ro, oe.B
		}}
	return s, rv, e.B
}

func casePCEvent(q *x) {
	s, val, want := mkPCEvent(q)
	checkStream(q, s, val, want)
}

func samePCEvent(g *eventlog.TCGPCClientPCREvent, v tcgref.PCEvent) (bool, string) {
	if g.PCRIndex != v.PCR || g.EventType != v.Type || g.SHA1Digest != v.SHA1 {
		return false, fmt.Sprintf("header fields pcr=%d type=%d sha1=%x, want %d %d %x", g.PCRIndex, g.EventType, g.SHA1Digest, v.PCR, v.Type, v.SHA1)
	}
	return sameEventData(&g.EventData, v.Data)
}

func sameEvent2(g *eventlog.TCGPCREvent2, v tcgref.Event2) (bool, string) {
	if g == nil {
		return false, "nil event"
	}
	if g.PCRIndex != v.PCR || g.EventType != v.Type {
		return false, fmt.Sprintf("pcr=%d type=%d, want %d %d", g.PCRIndex, g.EventType, v.PCR, v.Type)
	}
	if ok, why := sameDigests(g.Digests.Array, v.Digests); !ok {
		return false, why
	}
	return sameEventData(&g.EventData, v.Data)
}

func mkEvent2(q *x) (stream, codec, []byte) {
	v, rv := randEvent2(q)
	return mkEvent2Of(q, v, rv)
}

// mkEvent2Of describes the TCG_PCR_EVENT2 v / rv.
func mkEvent2Of(q *x, v tcgref.Event2, rv *eventlog.TCGPCREvent2) (stream, codec, []byte) {
	e := &tcgref.Enc{}
	e.Event2(v)
	s := stream{name: "TCGPCREvent2", padded: true, fresh: func() codec { return &eventlog.TCGPCREvent2{} },
		canon: canonOf(func(d *tcgref.Dec, e *tcgref.Enc) {
			p := d.Event2()
			p.Data = normData(d, p.Data)
			e.Event2(p)
		}),
		same: func(c codec) (bool, string) { return sameEvent2(c.(*eventlog.TCGPCREvent2), v) },
		another: func() (codec, []byte) {
			o, ro := randEvent2(q)
			oe := &tcgref.Enc{}
			oe.Event2(o)
			return ro, oe.B
		}}
	return s, rv, e.B
}

func caseEvent2(q *x) {
	s, val, want := mkEvent2(q)
	checkStream(q, s, val, want)
}

func randLog(q *x) (tcgref.Log, *eventlog.CryptoAgileLog) {
	hv, hr := randPCEvent(q)
	l := tcgref.Log{Header: hv}
	rl := &eventlog.CryptoAgileLog{Header: *hr}
	for k := 1 + q.r.IntN(4); k > 0; k-- {
		v, rv := randEvent2(q)
		l.Events = append(l.Events, v)
		rl.Events = append(rl.Events, rv)
	}
	if q.r.IntN(12) == 0 {
		l.Events, rl.Events = nil, nil
	}
	return l, rl
}

func mkLog(q *x) (stream, codec, []byte) {
	l, rl := randLog(q)
	return mkLogOf(q, l, rl)
}

// mkLogOf describes the crypto-agile log l / rl.
func mkLogOf(q *x, l tcgref.Log, rl *eventlog.CryptoAgileLog) (stream, codec, []byte) {
	e := &tcgref.Enc{}
	e.Log(l)
	s := stream{name: "CryptoAgileLog", padded: true, toEOF: true, fresh: func() codec { return &eventlog.CryptoAgileLog{} },
		canon: canonOf(func(d *tcgref.Dec, e *tcgref.Enc) {
			p := d.Log()
			p.Header.Data = normData(d, p.Header.Data)
			for i := range p.Events {
				p.Events[i].Data = normData(d, p.Events[i].Data)
			}
			e.Log(p)
		}),
		same: func(c codec) (bool, string) {
			g := c.(*eventlog.CryptoAgileLog)
			if ok, why := samePCEvent(&g.Header, l.Header); !ok {
				return false, "header: " + why
			}
			if len(g.Events) != len(l.Events) {
				return false, fmt.Sprintf("%d events decoded, %d encoded", len(g.Events), len(l.Events))
			}
			for i := range l.Events {
				if ok, why := sameEvent2(g.Events[i], l.Events[i]); !ok {
					return false, fmt.Sprintf("event %d: %s", i, why)
				}
			}
			return true, ""
		},
		another: func() (codec, []byte) {
			o, ro := randLog(q)
			oe := &tcgref.Enc{}
			oe.Log(o)
			return ro, oe.B
		}}
	return s, rl, e.B
}

func caseLog(q *x) {
	s, rl, want := mkLog(q)
	checkStream(q, s, rl, want)
	// a partial record behind the last event is not the end of the log
	var extra []byte
	switch q.r.IntN(3) {
	case 0:
		extra = rbytes(q.r, 1+q.r.IntN(3))
	case 1: // whole fields of a next event, then nothing
		x := &tcgref.Enc{}
		x.U32(uint32(q.r.IntN(24)))
		if q.r.IntN(2) == 0 {
			x.U32(uint32(q.r.IntN(8)))
			if q.r.IntN(2) == 0 {
				x.U32(0)
			}
		}
		extra = x.B
	default: // a next event that announces more event data than there is
		v, _ := randEvent2(q)
		x := &tcgref.Enc{}
		x.Event2(v)
		if len(v.Data) > 0 {
			extra = x.B[:len(x.B)-len(v.Data)]
		} else {
			extra = x.B[:len(x.B)-1-q.r.IntN(3)]
		}
	}
	in := append(append([]byte{}, want...), extra...)
	kind := q.r.IntN(3)
	r, left, ok := q.open(kind, in)
	if !ok {
		return
	}
	d := &eventlog.CryptoAgileLog{}
	var err error
	if q.try(func() { err = d.Unmarshal(r) }) {
		q.c.Count("refused-by-panic/"+s.eUn(), 1)
		return
	}
	if err != nil {
		seen("truncation-refused")
		q.c.Cell("CryptoAgileLog|partial record behind the last event|refused")
		return
	}
	q.accepted(s, fmt.Sprintf("complete log followed by %d bytes of an incomplete record", len(extra)), in, len(in)-left(), d, kind)
}

// ---- SP800-155 Event3 (slice decoder with documented zero padding) ----

func caseEvt3(q *x) {
	c := q.c
	const eUn, eMa = "eventlog.SP800155Event3.UnmarshalFromBytes", "eventlog.SP800155Event3.MarshalToBytes"
	v := randEvt3(q)
	want := tcgref.Evt3Bytes(v)
	body := want[16:]
	rv := repoEvt3(v)
	witness := map[string]any{"reference_encoding": hx(want)}
	var enc []byte
	var err error
	if !q.must(eMa, func() { enc, err = rv.MarshalToBytes() }) {
		return
	}
	if err != nil {
		q.viol(eMa, "in-range-value-refused", witness, "SP800155Event3.MarshalToBytes refuses an in-range value: %v", err)
		return
	}
	if !bytes.Equal(enc, want) {
		q.viol(eMa, "encoding-differs-from-abi", witness, "SP800155Event3 encoded as %s, the specification's layout gives %s", hx(enc), hx(want))
	} else {
		seen("encoding-equals-reference")
		c.Cell("SP800155Event3|encode|equals reference layout")
	}
	{
		var recs []dirtyRec
		dv := dirtyEventData(eventlog.TCGEventData{Event: rv}, &recs).Event.(*eventlog.SP800155Event3)
		var e2 []byte
		var err2 error
		if q.must(eMa, func() { e2, err2 = dv.MarshalToBytes() }) {
			q.judgeSpare(eMa, "SP800155Event3", enc, e2, err2, recs)
		}
	}
	// accepted judges an accepted body: fields and re-encoding equal up to trailing zeros
	accepted := func(probe string, in []byte, d *eventlog.SP800155Event3) {
		re, e := d.MarshalToBytes()
		if e != nil || len(re) < 16 {
			q.viol(eUn, "accepted-bytes-do-not-reencode", map[string]any{"input": hx(in), "probe": probe}, "SP800155Event3 accepts %d bytes (%s) but cannot encode the result: %v", len(in), probe, e)
			return
		}
		re = re[16:]
		if len(re) <= len(in) && bytes.Equal(re, in[:len(re)]) && allEq(in[len(re):], 0) {
			seen("accepted-bytes-reencode-identically")
			return
		}
		q.viol(eUn, "accepted-bytes-reencode-differently", map[string]any{"input": hx(in), "reencoded": hx(re), "probe": probe},
			"SP800155Event3.UnmarshalFromBytes accepts %s (%d bytes, probe: %s) and re-encodes it as %s (%d bytes): not the input up to trailing zero padding", hx(in), len(in), probe, hx(re), len(re))
	}
	// decode(encode) with 0..8 bytes of zero padding
	for _, pad := range []int{0, 1 + q.r.IntN(8)} {
		in := append(append([]byte{}, body...), make([]byte, pad)...)
		d := &eventlog.SP800155Event3{}
		if !q.must(eUn, func() { err = d.UnmarshalFromBytes(in) }) {
			continue
		}
		if err != nil {
			q.viol(eUn, "valid-encoding-refused", map[string]any{"input": hx(in), "zero_padding": pad}, "SP800155Event3 refuses its own encoding with %d bytes of zero padding: %v", pad, err)
			continue
		}
		if ok, f := tcgref.EqualEvt3(fromRepoEvt3(d), v); !ok {
			q.viol(eUn, "decoded-value-differs", map[string]any{"input": hx(in)}, "SP800155Event3: decode(encode(v)) differs in %s", f)
			continue
		}
		accepted(fmt.Sprintf("own encoding with %d zero bytes of padding", pad), in, d)
		seen("decode-inverts-encode")
		if pad > 0 {
			seen("sp800155-zero-padding-accepted")
			c.Cell("SP800155Event3|own encoding + zero padding|same value")
		} else {
			c.Cell("SP800155Event3|decode(encode)|same value")
		}
	}
	// a receiver that is not fresh: it decoded another event before, or the caller built it holding one
	for k := 0; k < 2; k++ {
		ov := randEvt3(q)
		obody := tcgref.Evt3Bytes(ov)[16:]
		d, how := repoEvt3(ov), "a receiver the caller built holding another event"
		if k == 0 {
			d, how = &eventlog.SP800155Event3{}, "a receiver that decoded another event before"
			var e0 error
			if q.try(func() { e0 = d.UnmarshalFromBytes(obody) }) || e0 != nil {
				c.Count("used-receiver-setup-refused/SP800155Event3", 1)
				continue
			}
		}
		in := append(append([]byte{}, body...), make([]byte, q.r.IntN(2)*(1+q.r.IntN(8)))...)
		if !q.must(eUn, func() { err = d.UnmarshalFromBytes(in) }) {
			continue
		}
		wit := map[string]any{"input": hx(in), "receiver": how, "receiver_held_encoding": hx(obody)}
		if err != nil {
			q.viol(eUn, "valid-encoding-refused", wit, "SP800155Event3 refuses its own encoding when decoding into %s: %v", how, err)
			continue
		}
		accepted("own encoding into "+how, in, d)
		if ok, f := tcgref.EqualEvt3(fromRepoEvt3(d), v); !ok {
			q.viol(eUn, "decoded-value-depends-on-receiver", wit, "SP800155Event3: decode(encode(v)) differs in %s when decoding into %s (which held the event encoded as %s)", f, how, hx(obody))
			continue
		}
		seen("decode-into-used-receiver-inverts-encode")
		c.Cell("SP800155Event3|decode(encode) into %s|same value", how)
	}
	// the encoder on a reused value object: overwritten in place with another event, then this one again
	{
		ov := randEvt3(q)
		owant := tcgref.Evt3Bytes(ov)
		obj := repoEvt3(v)
		good := true
		for step, w := range [][]byte{want, owant, want} {
			if step == 1 {
				*obj = *repoEvt3(ov)
			} else if step == 2 {
				*obj = *rv
			}
			var b []byte
			var e error
			if !q.must(eMa, func() { b, e = obj.MarshalToBytes() }) {
				good = false
				break
			}
			if e != nil || !bytes.Equal(b, w) {
				good = false
				q.viol(eMa, "encoding-depends-on-earlier-calls", map[string]any{"step": step, "encoded": hx(b), "reference_encoding": hx(w)},
					"SP800155Event3: a value object encoded, overwritten in place with another event and encoded again gives %s (err=%v) at step %d; the layout of the event it holds gives %s", hx(b), e, step, hx(w))
			}
		}
		if good {
			seen("encoding-independent-of-earlier-calls")
			c.Cell("SP800155Event3|value object reused for another event, then the first again|each encoding is the held value's")
		}
	}
	// non-zero padding is not padding
	{
		pad := make([]byte, 1+q.r.IntN(8))
		pad[q.r.IntN(len(pad))] = byte(1 + q.r.IntN(255))
		in := append(append([]byte{}, body...), pad...)
		d := &eventlog.SP800155Event3{}
		if q.try(func() { err = d.UnmarshalFromBytes(in) }) {
			c.Count("refused-by-panic/"+eUn, 1)
		} else if err == nil {
			q.viol(eUn, "nonzero-padding-accepted", map[string]any{"input": hx(in)}, "SP800155Event3 accepts trailing bytes %s that are not zero padding", hx(pad))
		} else {
			seen("sp800155-nonzero-padding-refused")
			c.Cell("SP800155Event3|own encoding + non-zero trailing bytes|refused")
		}
	}
	// every truncation of the body
	for k := 0; k < len(body); k++ {
		in := body[:k]
		d := &eventlog.SP800155Event3{}
		if q.try(func() { err = d.UnmarshalFromBytes(in) }) {
			c.Count("refused-by-panic/"+eUn, 1)
			continue
		}
		if err != nil {
			seen("truncation-refused")
			c.Count("truncations-refused/SP800155Event3", 1)
			continue
		}
		c.Count("truncations-accepted/SP800155Event3", 1)
		accepted(fmt.Sprintf("body cut to %d of %d bytes", k, len(body)), in, d)
	}
	c.Cell("SP800155Event3|truncated encoding|probed at every length")
	// single-byte changes
	canon := canonOf(func(d *tcgref.Dec, e *tcgref.Enc) { e.Evt3Body(d.Evt3Body()) })
	n := 24
	if q.st.thorough && len(body) <= 400 {
		n = len(body)
	}
	for k := 0; k < n; k++ {
		p := k
		if n != len(body) {
			p = q.r.IntN(len(body))
		}
		mut := append([]byte{}, body...)
		mut[p] ^= byte(1 + q.r.IntN(255))
		if _, _, md := canon(mut); md > maxDeclaredOK {
			c.Count("single-byte-change-skipped-declared-size-over-1MiB", 1)
			continue
		}
		d := &eventlog.SP800155Event3{}
		if q.try(func() { err = d.UnmarshalFromBytes(mut) }) {
			c.Count("refused-by-panic/"+eUn, 1)
			continue
		}
		if err != nil {
			seen("single-byte-change-refused")
			c.Cell("SP800155Event3|single byte changed|refused")
			continue
		}
		seen("single-byte-change-accepted")
		c.Cell("SP800155Event3|single byte changed|accepted, re-encoding compared")
		accepted(fmt.Sprintf("byte %d changed from %#02x to %#02x", p, body[p], mut[p]), mut, d)
	}
	// out-of-range: a string too long for its UINT8 size; an event too large for a GUID HOB
	long := repoEvt3(v)
	long.PlatformModel.Data = string(bytes.Repeat([]byte{'m'}, 255+q.r.IntN(10)))
	var b2 []byte
	if !q.try(func() { b2, err = long.MarshalToBytes() }) && err == nil {
		q.viol(eMa, "out-of-range-field-accepted", map[string]any{"encoded": hx(b2)}, "SP800155Event3.MarshalToBytes accepts a %d-byte PlatformModel", len(long.PlatformModel.Data))
	} else {
		seen("out-of-range-refused")
		c.Cell("SP800155Event3|string longer than 254 bytes|refused")
	}
	if q.r.IntN(16) == 0 {
		huge := repoEvt3(v)
		huge.RIMLocator.Data = make([]byte, 0x10000)
		if !q.try(func() { b2, err = huge.MarshalToBytes() }) && err == nil {
			q.viol(eMa, "out-of-range-field-accepted", nil, "SP800155Event3.MarshalToBytes emits a %d-byte event, more than a GUID HOB can carry", len(b2))
		} else {
			seen("out-of-range-refused")
			c.Cell("SP800155Event3|event larger than a GUID HOB|refused")
		}
	}
}
