package c18

import (
	"bytes"
	"crypto/sha512"
	"fmt"
	"reflect"
	"sort"
	"unsafe"

	spb "github.com/google/gce-tcb-verifier/proto/sev"
	"github.com/google/gce-tcb-verifier/sev"
	sgpb "github.com/google/go-sev-guest/proto/sevsnp"
	"google.golang.org/protobuf/proto"
	"google.golang.org/protobuf/reflect/protoreflect"

	"verifharness/props/c18/vmsaref"
)

const entryVmsa = "sev.PutVmsa"

// vmsaValue is the reference-side value of a save area, by APM field name.
type vmsaValue struct {
	ints map[string]uint64
	segs map[string]vmsaref.SegVal
}

// setField stores an integer into the proto field with the table's name.
func setField(m protoreflect.Message, name string, v uint64) bool {
	fd := m.Descriptor().Fields().ByName(protoreflect.Name(name))
	if fd == nil {
		return false
	}
	switch fd.Kind() {
	case protoreflect.Uint64Kind:
		m.Set(fd, protoreflect.ValueOfUint64(v))
	case protoreflect.Uint32Kind:
		m.Set(fd, protoreflect.ValueOfUint32(uint32(v)))
	default:
		return false
	}
	return true
}

func setBytes(m protoreflect.Message, name string, b []byte) bool {
	fd := m.Descriptor().Fields().ByName(protoreflect.Name(name))
	if fd == nil || fd.Kind() != protoreflect.BytesKind {
		return false
	}
	if b == nil {
		m.Clear(fd)
	} else {
		m.Set(fd, protoreflect.ValueOfBytes(b))
	}
	return true
}

func setSeg(m protoreflect.Message, name string, s vmsaref.SegVal, sel, attr uint32) bool {
	fd := m.Descriptor().Fields().ByName(protoreflect.Name(name))
	if fd == nil || fd.Kind() != protoreflect.MessageKind {
		return false
	}
	m.Set(fd, protoreflect.ValueOfMessage((&spb.VmcbSeg{Selector: sel, Attrib: attr, Limit: s.Limit, Base: s.Base}).ProtoReflect()))
	return true
}

// randVmsa builds an in-range save area; nil segments and absent reserved fields occur.
func randVmsa(q *x) (*spb.VmcbSaveArea, vmsaValue, bool) { return randVmsaP(q, 8) }

// randVmsaP leaves each segment register out with probability 1/absentIn.
func randVmsaP(q *x, absentIn int) (*spb.VmcbSaveArea, vmsaValue, bool) {
	v := &spb.VmcbSaveArea{}
	m := v.ProtoReflect()
	want := vmsaValue{ints: map[string]uint64{}, segs: map[string]vmsaref.SegVal{}}
	distinct := q.r.IntN(3) == 0 // every field its own marker value: swapped offsets cannot cancel
	ok := true
	for k, f := range vmsaref.Table {
		switch f.Kind {
		case vmsaref.Seg:
			if q.r.IntN(absentIn) == 0 {
				want.segs[f.Name] = vmsaref.SegVal{} // absent segment = all zero
				continue
			}
			s := vmsaref.SegVal{Selector: uint16(pick(q.r, 2)), Attrib: uint16(pick(q.r, 2)), Limit: uint32(pick(q.r, 4)), Base: pick(q.r, 8)}
			if distinct {
				s = vmsaref.SegVal{Selector: uint16(0x1100 + k), Attrib: uint16(0x2200 + k), Limit: 0x33000000 + uint32(k), Base: 0x4400000000000000 + uint64(k)}
			}
			want.segs[f.Name] = s
			ok = setSeg(m, f.Name, s, uint32(s.Selector), uint32(s.Attrib)) && ok
		case vmsaref.Int:
			x := pick(q.r, f.Size)
			if distinct {
				x = (0x5500000000000000 + uint64(k)*0x0101010101) & (^uint64(0) >> (64 - 8*uint(f.Size)))
			}
			want.ints[f.Name] = x
			ok = setField(m, f.Name, x) && ok
		}
	}
	return v, want, ok
}

// zeroReserved gives every reserved byte range independently: absent or the documented number of zero bytes.
func zeroReserved(q *x, v *spb.VmcbSaveArea) map[string]bool {
	m := v.ProtoReflect()
	present := map[string]bool{}
	for _, f := range vmsaref.Table {
		if f.Kind != vmsaref.Rsvd || f.Name == "reserved_8" || f.Name == "reserved_9" {
			continue
		}
		if q.r.IntN(2) == 0 {
			setBytes(m, f.Name, make([]byte, f.Size))
			present[f.Name] = true
		}
	}
	return present
}

func checkVmsaPage(q *x, page []byte, want vmsaValue, witness any) bool {
	return checkVmsaPageAs(q, "encoding-differs-from-abi", "", page, want, witness)
}

// checkVmsaPageAs judges a page under the given rule name; step says where in a call sequence it was written.
func checkVmsaPageAs(q *x, rule, step string, page []byte, want vmsaValue, witness any) bool {
	d, err := vmsaref.Decode(page)
	if err != nil {
		return false
	}
	if step != "" {
		step = " (" + step + ")"
	}
	good := true
	names := make([]string, 0, len(want.ints)+len(want.segs))
	for name := range want.ints {
		names = append(names, name)
	}
	for name := range want.segs {
		names = append(names, name)
	}
	sort.Strings(names) // the first mismatch reported is the same on every run
	for _, name := range names {
		if w, isInt := want.ints[name]; isInt {
			if d.Ints[name] != w {
				f, _ := vmsaref.Lookup(name)
				q.viol(entryVmsa, rule, witness, "VMSA field %s = %#x reads back as %#x at offset %#x (%d bytes)%s", name, w, d.Ints[name], f.Off, f.Size, step)
				good = false
			}
			continue
		}
		if w := want.segs[name]; d.Segs[name] != w {
			f, _ := vmsaref.Lookup(name)
			q.viol(entryVmsa, rule, witness, "VMSA segment %s = %+v reads back as %+v at offset %#x%s", name, w, d.Segs[name], f.Off, step)
			good = false
		}
	}
	if len(d.NonZero) > 0 {
		q.viol(entryVmsa, rule, witness, "VMSA reserved / launch-zero ranges carry non-zero bytes: %v%s", d.NonZero, step)
		good = false
	}
	return good
}

// vmsaSequence continues after a successful PutVmsa(v): the caller customises the value it just wrote
// in place (segment registers through the pointers the value holds by now - PutVmsa fills in the ones
// that were left out - and a few integer fields), writes it again, writes a second, sparse save area
// that was never written before, and the first one once more. The bytes of every call must be the ABI
// encoding of the value handed to that call; nothing of an earlier call may show.
func vmsaSequence(q *x, v *spb.VmcbSaveArea, want vmsaValue, size int) {
	c := q.c
	m := v.ProtoReflect()
	before, _ := proto.Marshal(v)
	var segNames, leftOut, intNames []string
	for _, f := range vmsaref.Table {
		switch f.Kind {
		case vmsaref.Seg:
			segNames = append(segNames, f.Name)
			if want.segs[f.Name] == (vmsaref.SegVal{}) {
				leftOut = append(leftOut, f.Name)
			}
		case vmsaref.Int:
			intNames = append(intNames, f.Name)
		}
	}
	var edits []string
	for k := 1 + q.r.IntN(3); k > 0; k-- {
		name := segNames[q.r.IntN(len(segNames))]
		if len(leftOut) > 0 && q.r.IntN(2) == 0 {
			name = leftOut[q.r.IntN(len(leftOut))]
		}
		fd := m.Descriptor().Fields().ByName(protoreflect.Name(name))
		if fd == nil || fd.Kind() != protoreflect.MessageKind {
			return
		}
		seg, ok := m.Mutable(fd).Message().Interface().(*spb.VmcbSeg) // the segment the value holds, made if there is none
		if !ok {
			return
		}
		switch q.r.IntN(4) {
		case 0:
			seg.Base = pick(q.r, 8) | 1
		case 1:
			seg.Base, seg.Limit = pick(q.r, 8), uint32(pick(q.r, 4))|1
		case 2:
			seg.Selector = uint32(pick(q.r, 2)) | 1
		default:
			seg.Selector, seg.Attrib, seg.Limit, seg.Base = uint32(pick(q.r, 2)), uint32(pick(q.r, 2))|1, uint32(pick(q.r, 4)), pick(q.r, 8)
		}
		want.segs[name] = vmsaref.SegVal{Selector: uint16(seg.Selector), Attrib: uint16(seg.Attrib), Limit: seg.Limit, Base: seg.Base}
		edits = append(edits, fmt.Sprintf("%s={sel %#x attr %#x limit %#x base %#x}", name, seg.Selector, seg.Attrib, seg.Limit, seg.Base))
	}
	for k := q.r.IntN(3); k > 0; k-- {
		name := intNames[q.r.IntN(len(intNames))]
		f, _ := vmsaref.Lookup(name)
		x := pick(q.r, f.Size)
		if !setField(m, name, x) {
			return
		}
		want.ints[name] = x
		edits = append(edits, fmt.Sprintf("%s=%#x", name, x))
	}
	witness := map[string]any{"vmcb_save_area_proto_at_first_call": hx(before), "edits_in_place_after_first_call": edits}
	page := bytes.Repeat([]byte{canary}, size)
	var err error
	if !q.must(entryVmsa, func() { err = sev.PutVmsa(v, page) }) {
		return
	}
	good := true
	if err != nil {
		q.viol(entryVmsa, "in-range-value-refused", witness, "PutVmsa refuses an in-range save area that it wrote before and that was then edited in place (%v): %v", edits, err)
		return
	}
	good = checkVmsaPageAs(q, "encoding-after-in-place-edit-differs-from-abi", "second write of a value after the caller edited it in place: "+fmt.Sprint(edits), page, want, witness) && good
	// a second save area, never written before, with many registers left out (sometimes all of them)
	absentIn := []int{1, 2, 2, 4}[q.r.IntN(4)]
	b, wantB, ok := randVmsaP(q, absentIn)
	if !ok {
		return
	}
	if q.r.IntN(4) == 0 {
		b, wantB = &spb.VmcbSaveArea{}, vmsaValue{ints: map[string]uint64{}, segs: map[string]vmsaref.SegVal{}}
		for _, n := range segNames {
			wantB.segs[n] = vmsaref.SegVal{}
		}
		for _, n := range intNames {
			wantB.ints[n] = 0
		}
	}
	wireB, _ := proto.Marshal(b)
	witness["second_save_area_proto"] = hx(wireB)
	pageB := bytes.Repeat([]byte{canary}, size)
	if !q.must(entryVmsa, func() { err = sev.PutVmsa(b, pageB) }) {
		return
	}
	if err != nil {
		q.viol(entryVmsa, "in-range-value-refused", witness, "PutVmsa refuses an in-range save area: %v", err)
		return
	}
	good = checkVmsaPageAs(q, "encoding-depends-on-earlier-calls", "a save area written for the first time, after another one was written, edited in place and written again", pageB, wantB, witness) && good
	if !allEq(pageB[vmsaref.Size:], canary) {
		q.viol(entryVmsa, "wrote-beyond-abi-size", witness, "PutVmsa wrote behind offset %#x", vmsaref.Size)
	}
	// the first value once more, unchanged since its last write
	page3 := bytes.Repeat([]byte{canary}, size)
	if !q.must(entryVmsa, func() { err = sev.PutVmsa(v, page3) }) {
		return
	}
	if err != nil || !bytes.Equal(page3, page) {
		good = false
		q.viol(entryVmsa, "encoding-depends-on-earlier-calls", witness, "the same unchanged save area is written differently (err=%v) after another save area was written in between", err)
	}
	if good {
		seen("encoding-independent-of-earlier-calls")
		seen("vmsa-call-sequence-checked")
		c.Cell("VMSA|written, edited in place (%d registers were left out), written again|only the edited fields change", min(len(leftOut), 3))
		c.Cell("VMSA|sparse save area written after other writes (1 in %d registers left out)|encoding of that value alone", absentIn)
	}
}

func caseVmsaValues(q *x) {
	c := q.c
	v, want, ok := randVmsa(q)
	if !ok {
		c.Note("a VMSA table name has no proto field of the expected kind; the VMSA checks cannot run")
		return
	}
	present := zeroReserved(q, v)
	wire, _ := proto.Marshal(v)
	witness := map[string]any{"vmcb_save_area_proto": hx(wire)}
	size := vmsaref.Size
	switch q.r.IntN(3) {
	case 0:
		size = 4096
	case 1:
		size = vmsaref.Size + 1 + q.r.IntN(64)
	}
	page := bytes.Repeat([]byte{canary}, size)
	var err error
	if !q.must(entryVmsa, func() { err = sev.PutVmsa(v, page) }) {
		return
	}
	if err != nil {
		// Name the documented-size reserved field that is at fault, then go on without it so that the
		// offsets are still observed.
		culprit := ""
		bare := proto.Clone(v).(*spb.VmcbSaveArea)
		for name := range present {
			setBytes(bare.ProtoReflect(), name, nil)
		}
		var be error
		if q.try(func() { be = sev.PutVmsa(bare, bytes.Repeat([]byte{canary}, size)) }) || be != nil {
			q.viol(entryVmsa, "in-range-value-refused", witness, "PutVmsa refuses an in-range save area without any reserved field: %v", be)
			return
		}
		names := make([]string, 0, len(present))
		for name := range present {
			names = append(names, name)
		}
		sort.Strings(names)
		for _, name := range names {
			one := proto.Clone(bare).(*spb.VmcbSaveArea)
			f0, _ := vmsaref.Lookup(name)
			setBytes(one.ProtoReflect(), name, make([]byte, f0.Size))
			var e error
			if !q.try(func() { e = sev.PutVmsa(one, bytes.Repeat([]byte{canary}, size)) }) && e != nil {
				culprit = name
				f, _ := vmsaref.Lookup(name)
				q.viol(entryVmsa, "documented-zero-reserved-refused", map[string]any{"field": name, "zero_bytes": f.Size},
					"PutVmsa refuses %s given as its documented %d zero bytes (offsets %#x:%#x): %v", name, f.Size, f.Off, f.Off+f.Size, e)
				setBytes(v.ProtoReflect(), name, nil)
				delete(present, name)
			}
		}
		if culprit == "" {
			q.viol(entryVmsa, "in-range-value-refused", witness, "PutVmsa refuses an in-range save area: %v", err)
			return
		}
		page = bytes.Repeat([]byte{canary}, size)
		if !q.must(entryVmsa, func() { err = sev.PutVmsa(v, page) }) {
			return
		}
		if err != nil {
			q.viol(entryVmsa, "in-range-value-refused", witness, "PutVmsa refuses an in-range save area: %v", err)
			return
		}
	}
	for name := range present {
		seen("documented-zero-reserved-accepted-some")
		c.Cell("VMSA|%s as documented-size zeros|accepted", name)
	}
	if !allEq(page[vmsaref.Size:], canary) {
		q.viol(entryVmsa, "wrote-beyond-abi-size", witness, "PutVmsa wrote behind offset %#x", vmsaref.Size)
	}
	if len(present) > 0 { // the reserved byte strings as heads of buffers with dirty spare capacity
		var recs []dirtyRec
		one := proto.Clone(v).(*spb.VmcbSaveArea)
		for name := range present {
			f, _ := vmsaref.Lookup(name)
			setBytes(one.ProtoReflect(), name, dirty(make([]byte, f.Size), &recs))
		}
		page2 := bytes.Repeat([]byte{canary}, size)
		var e2 error
		if q.must(entryVmsa, func() { e2 = sev.PutVmsa(one, page2) }) {
			q.judgeSpare(entryVmsa, "VMSA", page, page2, e2, recs)
		}
	}
	if checkVmsaPage(q, page, want, witness) {
		seen("encoding-equals-reference")
		seen("vmsa-all-fields-decoded")
		c.Cell("VMSA|encode|%d fields at APM offsets, reserved and tail zero", len(want.ints)+len(want.segs))
	}
	vmsaSequence(q, v, want, size)
}

func caseVmsaReserved(q *x) {
	c := q.c
	v, want, ok := randVmsa(q)
	if !ok {
		return
	}
	m := v.ProtoReflect()
	page := make([]byte, 4096)
	refused := func(what string, witness map[string]any, cell string) {
		var err error
		if q.try(func() { err = sev.PutVmsa(v, page) }) {
			c.Count("refused-by-panic/"+entryVmsa, 1)
			return
		}
		if err == nil {
			q.viol(entryVmsa, what, witness, "PutVmsa accepts %s", cell)
		} else {
			if what == "nonzero-reserved-accepted" {
				seen("nonzero-reserved-refused")
			} else {
				seen("out-of-range-refused")
			}
			c.Cell("VMSA|%s|refused", cell)
		}
	}
	switch q.r.IntN(6) {
	case 0, 1: // one reserved range at its documented size with a single non-zero byte
		var rs []vmsaref.Field
		for _, f := range vmsaref.Table {
			if f.Kind == vmsaref.Rsvd {
				rs = append(rs, f)
			}
		}
		f := rs[q.r.IntN(len(rs))]
		if f.Name == "reserved_8" || f.Name == "reserved_9" {
			x := uint64(1) << uint(q.r.IntN(64))
			setField(m, f.Name, x)
			refused("nonzero-reserved-accepted", map[string]any{"field": f.Name, "value": x}, f.Name+" non-zero")
			return
		}
		b := make([]byte, f.Size)
		pos := q.r.IntN(f.Size)
		if q.r.IntN(4) == 0 {
			pos = []int{0, f.Size - 1}[q.r.IntN(2)]
		}
		b[pos] = byte(1 << uint(q.r.IntN(8)))
		setBytes(m, f.Name, b)
		refused("nonzero-reserved-accepted", map[string]any{"field": f.Name, "bytes": hx(b)}, fmt.Sprintf("%s with one non-zero byte", f.Name))
	case 2: // out-of-range segment selector / attribute, or CPL
		segs := []string{"es", "cs", "ss", "ds", "fs", "gs", "gdtr", "ldtr", "idtr", "tr"}
		name := segs[q.r.IntN(len(segs))]
		over := uint32(0x10000)
		if q.r.IntN(2) == 0 {
			over = 0x10000 + uint32(q.r.Uint32()>>q.r.IntN(16))
			if over < 0x10000 {
				over = 0xFFFFFFFF
			}
		}
		s := want.segs[name]
		switch q.r.IntN(3) {
		case 0:
			setSeg(m, name, s, over, uint32(s.Attrib))
			refused("out-of-range-field-accepted", map[string]any{"segment": name, "selector": over}, "segment selector >= 2^16")
		case 1:
			setSeg(m, name, s, uint32(s.Selector), over)
			refused("out-of-range-field-accepted", map[string]any{"segment": name, "attrib": over}, "segment attrib >= 2^16")
		default:
			cpl := uint64(0x100)
			if q.r.IntN(2) == 0 {
				cpl = 0x100 + uint64(q.r.Uint32()>>q.r.IntN(24))
			}
			setField(m, "cpl", cpl&0xFFFFFFFF)
			if cpl&0xFFFFFFFF >= 0x100 {
				refused("out-of-range-field-accepted", map[string]any{"cpl": cpl}, "cpl >= 2^8")
			}
		}
	case 3: // output buffer sizes around the ABI size
		for _, n := range []int{0, q.r.IntN(vmsaref.Size), vmsaref.Size - 1} {
			buf := make([]byte, n)
			var err error
			if q.try(func() { err = sev.PutVmsa(v, buf) }) {
				c.Count("refused-by-panic/"+entryVmsa, 1)
			} else if err == nil {
				q.viol(entryVmsa, "short-output-buffer-accepted", nil, "PutVmsa reports success into %d < %#x bytes", n, vmsaref.Size)
			} else {
				seen("short-output-buffer-refused")
				c.Cell("VMSA|encode into short buffer|refused")
			}
		}
		buf := bytes.Repeat([]byte{canary}, vmsaref.Size)
		var err error
		if q.must(entryVmsa, func() { err = sev.PutVmsa(v, buf) }) {
			if err != nil {
				q.viol(entryVmsa, "in-range-value-refused", nil, "PutVmsa refuses an exactly %#x-byte buffer: %v", vmsaref.Size, err)
			} else if checkVmsaPage(q, buf, want, nil) {
				seen("encoding-equals-reference")
				c.Cell("VMSA|encode into exactly 0x670 bytes|accepted")
			}
		}
	case 4: // wrong-size all-zero reserved range: observed, not judged
		f, _ := vmsaref.Lookup([]string{"reserved_1", "reserved_5", "reserved_11"}[q.r.IntN(3)])
		n := f.Size + []int{-1, 1, 8}[q.r.IntN(3)]
		setBytes(m, f.Name, make([]byte, n))
		var err error
		if !q.try(func() { err = sev.PutVmsa(v, page) }) {
			c.Count(fmt.Sprintf("unjudged/vmsa %s as %d zero bytes (documented %d) accepted=%v", f.Name, n, f.Size, err == nil), 1)
		}
	case 5: // fields behind XCR0: observed, not judged
		switch q.r.IntN(3) {
		case 0:
			b := make([]byte, 16)
			b[q.r.IntN(16)] = 1
			v.ValidBitmap = b
		case 1:
			v.X87StateGpa = 1 + q.r.Uint64N(1<<40)
		default:
			b := make([]byte, 1016)
			b[q.r.IntN(1016)] = 1
			v.Reserved_12 = b
		}
		var err error
		if !q.try(func() { err = sev.PutVmsa(v, page) }) {
			c.Count(fmt.Sprintf("unjudged/vmsa non-zero valid_bitmap|x87_state_gpa|reserved_12 accepted=%v", err == nil), 1)
			if err == nil && allEq(page[0x3F0:vmsaref.Size], 0) {
				c.Note("PutVmsa accepts non-zero valid_bitmap / x87_state_gpa / reserved_12 and writes zeros for them (fields behind XCR0 are not part of the 0x670-byte launch image); not judged")
			}
		}
	}
}

// ---- PAGE_INFO ----

func setUnexported(rv reflect.Value, name string, val any) bool {
	f := rv.FieldByName(name)
	if !f.IsValid() || !f.CanAddr() {
		return false
	}
	w := reflect.NewAt(f.Type(), unsafe.Pointer(f.UnsafeAddr())).Elem()
	x := reflect.ValueOf(val)
	if !x.Type().AssignableTo(w.Type()) {
		return false
	}
	w.Set(x)
	return true
}

func casePageInfo(q *x) {
	c := q.c
	// (a) through the public measurement API: the digest pins every byte of the structure
	const entryU = "sev.SnpMeasurement.Update4K"
	prod := []sgpb.SevProduct_SevProductName{sgpb.SevProduct_SEV_PRODUCT_MILAN, sgpb.SevProduct_SEV_PRODUCT_GENOA}[q.r.IntN(2)]
	ms := &sev.SnpMeasurement{Product: prod}
	copy(ms.Digest[:], rbytes(q.r, 48))
	gpa := pick(q.r, 8) &^ 0xFFF
	pt := sev.PageType(1 + q.r.IntN(6))
	var ref vmsaref.PageInfo
	ref.DigestCur = ms.Digest
	ref.Length = vmsaref.PageInfoSize
	ref.PageType = uint8(pt)
	ref.GPA = gpa
	data := rbytes(q.r, 4096)
	var err error
	zero := q.r.IntN(2) == 0
	entry := entryU
	if zero {
		entry = "sev.SnpMeasurement.ZeroContentUpdate4K"
		if !q.must(entry, func() { err = ms.ZeroContentUpdate4K(gpa, pt) }) {
			return
		}
	} else {
		ref.Contents = sha512.Sum384(data)
		if !q.must(entry, func() { err = ms.Update4K(gpa, data, pt) }) {
			return
		}
	}
	if !zero && err == nil { // the page contents as the head of a buffer with dirty spare capacity
		var recs []dirtyRec
		ms2 := &sev.SnpMeasurement{Product: prod, Digest: ref.DigestCur}
		var e2 error
		if q.must(entry, func() { e2 = ms2.Update4K(gpa, dirty(data, &recs), pt) }) {
			q.judgeSpare(entry, "PAGE_INFO contents", ms.Digest[:], ms2.Digest[:], e2, recs)
		}
	}
	wantDigest := sha512.Sum384(ref.Encode())
	witness := map[string]any{"page_info_reference": hx(ref.Encode())}
	if err != nil {
		q.viol(entry, "in-range-value-refused", witness, "%s refuses gpa=%#x type=%d: %v", entry, gpa, pt, err)
	} else if ms.Digest != wantDigest {
		q.viol(entry, "encoding-differs-from-abi", witness, "digest after %s is %x; SHA-384 of the ABI PAGE_INFO (gpa=%#x type=%d len=0x70) is %x", entry, ms.Digest, gpa, pt, wantDigest)
	} else {
		seen("pageinfo-digest-checked")
		seen("encoding-equals-reference")
		c.Cell("PAGE_INFO|%s|digest equals SHA-384 of the ABI structure", entry)
	}
	// (b) all fields, set by name
	var pi sev.PageInfo
	rv := reflect.ValueOf(&pi).Elem()
	var w vmsaref.PageInfo
	copy(w.DigestCur[:], rbytes(q.r, 48))
	copy(w.Contents[:], rbytes(q.r, 48))
	w.Length, w.PageType, w.IMI = uint16(pick(q.r, 2)), uint8(pick(q.r, 1)), uint8(q.r.IntN(2))
	w.VMPL1, w.VMPL2, w.VMPL3 = uint8(pick(q.r, 1)), uint8(pick(q.r, 1)), uint8(pick(q.r, 1))
	w.GPA = pick(q.r, 8)
	okSet := setUnexported(rv, "digestCur", w.DigestCur) && setUnexported(rv, "contents", w.Contents) && setUnexported(rv, "length", w.Length) &&
		setUnexported(rv, "pageType", w.PageType) && setUnexported(rv, "imi", w.IMI) && setUnexported(rv, "vmpl1Perms", w.VMPL1) &&
		setUnexported(rv, "vmpl2Perms", w.VMPL2) && setUnexported(rv, "vmpl3Perms", w.VMPL3) && setUnexported(rv, "gpa", w.GPA)
	if !okSet || rv.NumField() != 9 {
		c.Count("pageinfo-fields-not-settable-by-name", 1)
		c.Note("sev.PageInfo no longer has the nine fields the all-fields probe sets by name; only the digest route ran")
		return
	}
	const entryP = "sev.PageInfo.Put"
	want := w.Encode()
	extra := q.r.IntN(9)
	buf := bytes.Repeat([]byte{canary}, vmsaref.PageInfoSize+extra)
	if !q.must(entryP, func() { err = pi.Put(buf) }) {
		return
	}
	wit2 := map[string]any{"value": fmt.Sprintf("%+v", w), "reference_encoding": hx(want)}
	if err != nil {
		q.viol(entryP, "in-range-value-refused", wit2, "PageInfo.Put refuses: %v", err)
		return
	}
	if !bytes.Equal(buf[:vmsaref.PageInfoSize], want) {
		got, _ := vmsaref.DecodePageInfo(buf)
		q.viol(entryP, "encoding-differs-from-abi", wit2, "PageInfo.Put gives %s (reads back as %+v), ABI layout gives %s", hx(buf[:vmsaref.PageInfoSize]), got, hx(want))
	} else {
		seen("encoding-equals-reference")
		c.Cell("PAGE_INFO|Put with every field set|equals reference layout")
	}
	if !allEq(buf[vmsaref.PageInfoSize:], canary) {
		q.viol(entryP, "wrote-beyond-abi-size", wit2, "PageInfo.Put wrote behind offset 0x70")
	}
	var bb []byte
	if q.must("sev.PageInfo.Bytes", func() { bb, err = pi.Bytes() }) && (err != nil || !bytes.Equal(bb, want)) {
		q.viol("sev.PageInfo.Bytes", "encoding-differs-from-abi", wit2, "PageInfo.Bytes gives %s err=%v, ABI layout gives %s", hx(bb), err, hx(want))
	}
	for _, n := range q.shorter(vmsaref.PageInfoSize) {
		b := make([]byte, n)
		var e error
		if q.try(func() { e = pi.Put(b) }) {
			c.Count("refused-by-panic/"+entryP, 1)
		} else if e == nil {
			q.viol(entryP, "short-output-buffer-accepted", nil, "PageInfo.Put reports success into %d < 0x70 bytes", n)
		} else {
			seen("short-output-buffer-refused")
			c.Cell("PAGE_INFO|encode into short buffer|refused")
		}
	}
}
