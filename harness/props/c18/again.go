package c18

// Dimension added after the fifth review round (cases numbered behind the owned-input ones): the caller
// keeps ONE value object and hands it to the encoder call after call.
//
//	VMSA                 a pool of 1-3 save areas and 4-8 PutVmsa calls. Every call takes the object of
//	                     the call before it (7 in 10) or another one of the pool, after the caller did one
//	                     of: nothing; an in-range edit in place (segment registers through the pointers the
//	                     value holds, a register replaced by a new message or cleared, integer fields, a
//	                     reserved range switched between absent and its documented zeros); an edit that
//	                     takes the value out of range (selector / attrib >= 2^16, cpl >= 2^8, one non-zero
//	                     reserved byte, non-zero reserved_8/9); the repair of such an edit. The page is a
//	                     fresh canary-filled buffer or the buffer of an earlier call (as it was left, or
//	                     refilled).
//	ovmf/abi structures  the same for the encoders with pointer receivers / pointer arguments
//	                     (FwGUIDEntry, SevMetadataSection, SevMetadata, MetadataOffset,
//	                     TDXMetadataDescriptor, TDXMetadataSection, TDXMetadata with its header and section
//	                     pointers, the SEV-ES reset block proto with its GUID byte string edited in the
//	                     same backing array): 1-2 objects, 3-6 calls, fields assigned in place between the
//	                     calls; the reset block's Size >= 2^16 / GUID of another length than 16 and
//	                     TDXMetadata's SectionCount != len(Sections) are the out-of-range edits.
//
// Judged by the property as it stands, per call: the value the object holds at the time of the call is
// in range - then the call must succeed and its bytes must be the ABI encoding of exactly that value - or
// it is out of range / carries a non-zero reserved field - then the call must refuse it. What an object
// held at an earlier call, which object the call before was given, and what the output buffer held are
// not part of the value.

import (
	"bytes"
	"fmt"

	"github.com/google/gce-tcb-verifier/ovmf/abi"
	opb "github.com/google/gce-tcb-verifier/proto/ovmf"
	spb "github.com/google/gce-tcb-verifier/proto/sev"
	"github.com/google/gce-tcb-verifier/sev"
	"github.com/google/uuid"
	"google.golang.org/protobuf/proto"
	"google.golang.org/protobuf/reflect/protoreflect"

	"verifharness/core"
	"verifharness/props/c18/abiref"
	"verifharness/props/c18/vmsaref"
)

const (
	ruleAfterEdit    = "encoding-after-in-place-edit-differs-from-abi"
	ruleEarlierCalls = "encoding-depends-on-earlier-calls"
)

var againKinds = []kind{
	{"same object again: VMSA", 3, caseVmsaAgain},
	{"same object again: ovmf/abi structures", 2, caseFixedAgain},
}

var againSched []int

func init() {
	maxw := 0
	for _, k := range againKinds {
		maxw = max(maxw, k.weight)
	}
	for w := 0; w < maxw; w++ {
		for ki, k := range againKinds {
			if w < k.weight {
				againSched = append(againSched, ki)
			}
		}
	}
	floorNames = append(floorNames,
		"same-object-encoded-again-after-in-place-edit", "same-object-encoded-again-unedited",
		"encoded-object-made-out-of-range-refused", "refused-object-repaired-accepted")
}

// runAgain runs the appended cases: numbers first .. first+count-1.
func runAgain(c *core.Ctx, st *state, first int) int {
	n := c.N(800, 16000)
	for j := 0; j < n; j++ {
		i := first + j
		if !c.Mine(i) {
			continue
		}
		k := againKinds[againSched[j%len(againSched)]]
		q := &x{c: c, i: i, r: c.Rand(i), gen: k.name, st: st, fired: map[string]bool{}}
		c.Begin(i, k.name, k.name, nil)
		k.f(q)
		c.Count("cases/"+k.name, 1)
		c.End(i)
	}
	return first + n
}

// againStep is what the walk decided for one call.
type againStep struct {
	obj     int
	same    bool   // the object of the call before
	edit    string // "no edit", "in-range edit", "out-of-range edit", "repair"
	buf     string // "fresh buffer", "buffer of an earlier call", "buffer of an earlier call refilled"
	written bool   // the object was encoded successfully before
	edited  bool   // ... and edited since
}

// pickStep draws object, kind of edit and buffer of the next call. faults[k] = outstanding out-of-range edits of object k.
func pickStep(q *x, last int, faults []int) againStep {
	s := againStep{obj: last}
	if last < 0 || q.r.IntN(10) >= 7 {
		s.obj = q.r.IntN(len(faults))
	}
	s.same = s.obj == last
	switch x := q.r.IntN(10); {
	case faults[s.obj] > 0 && q.r.IntN(5) < 3:
		s.edit = "repair"
	case x < 2:
		s.edit = "no edit"
	case x < 7:
		s.edit = "in-range edit"
	default:
		s.edit = "out-of-range edit"
	}
	s.buf = []string{"fresh buffer", "buffer of an earlier call", "buffer of an earlier call refilled"}[q.r.IntN(3)]
	return s
}

func (s againStep) rule(first bool) string {
	switch {
	case s.written && s.edited:
		return ruleAfterEdit
	case first:
		return "encoding-differs-from-abi"
	}
	return ruleEarlierCalls
}

func (s againStep) String() string {
	w := "the object of the call before"
	if !s.same {
		w = "another object than the call before"
	}
	return fmt.Sprintf("%s, %s, %s", w, s.edit, s.buf)
}

// held notes a judged call that came out right.
func (s againStep) held(q *x, structure string, valid, wasInvalid bool) {
	switch {
	case !valid:
		if s.written {
			seen("encoded-object-made-out-of-range-refused")
		}
		q.c.Cell("%s|%s|refused", structure, s)
		return
	case wasInvalid:
		seen("refused-object-repaired-accepted")
	case s.same && s.written && s.edited:
		seen("same-object-encoded-again-after-in-place-edit")
	case s.same && s.written:
		seen("same-object-encoded-again-unedited")
	}
	q.c.Cell("%s|%s|encoding of the value held at the call", structure, s)
}

// ---- VMSA ----

type vmsaFault struct {
	field, rule, what string
	undo              func() string
}

type vmsaObj struct {
	v         *spb.VmcbSaveArea
	want      vmsaValue
	faults    []vmsaFault
	busy      map[string]bool // fields under an outstanding out-of-range edit: left alone by in-range edits
	written   bool
	edited    bool
	refusedAt bool // the last call on it was a (correct) refusal
}

func (o *vmsaObj) seg(name string) *spb.VmcbSeg {
	m := o.v.ProtoReflect()
	fd := m.Descriptor().Fields().ByName(protoreflect.Name(name))
	if fd == nil || fd.Kind() != protoreflect.MessageKind {
		return nil
	}
	s, _ := m.Mutable(fd).Message().Interface().(*spb.VmcbSeg)
	return s
}

var vmsaSegNames, vmsaIntNames, vmsaRsvdBytes []string

func init() {
	for _, f := range vmsaref.Table {
		switch f.Kind {
		case vmsaref.Seg:
			vmsaSegNames = append(vmsaSegNames, f.Name)
		case vmsaref.Int:
			vmsaIntNames = append(vmsaIntNames, f.Name)
		case vmsaref.Rsvd:
			if f.Name != "reserved_8" && f.Name != "reserved_9" {
				vmsaRsvdBytes = append(vmsaRsvdBytes, f.Name)
			}
		}
	}
}

// editInRange changes the value in place and keeps it in range; the model follows.
func (o *vmsaObj) editInRange(q *x) (edits []string, ok bool) {
	m := o.v.ProtoReflect()
	nSeg, nInt := q.r.IntN(3), q.r.IntN(3)
	if nSeg+nInt == 0 {
		nSeg = 1
	}
	for ; nSeg > 0; nSeg-- {
		name := vmsaSegNames[q.r.IntN(len(vmsaSegNames))]
		if o.busy[name] {
			continue
		}
		nv := vmsaref.SegVal{Selector: uint16(pick(q.r, 2)), Attrib: uint16(pick(q.r, 2)), Limit: uint32(pick(q.r, 4)), Base: pick(q.r, 8)}
		switch q.r.IntN(8) {
		case 0: // the register is cleared
			fd := m.Descriptor().Fields().ByName(protoreflect.Name(name))
			if fd == nil {
				return nil, false
			}
			m.Clear(fd)
			nv = vmsaref.SegVal{}
			edits = append(edits, name+" cleared")
		case 1: // the register gets a new message
			if !setSeg(m, name, nv, uint32(nv.Selector), uint32(nv.Attrib)) {
				return nil, false
			}
			edits = append(edits, fmt.Sprintf("%s=new message %+v", name, nv))
		default: // through the pointer the value holds (made if there is none)
			seg := o.seg(name)
			if seg == nil {
				return nil, false
			}
			old := o.want.segs[name]
			switch q.r.IntN(3) {
			case 0:
				nv = vmsaref.SegVal{Selector: old.Selector, Attrib: old.Attrib, Limit: old.Limit, Base: nv.Base ^ 1}
			case 1:
				nv = vmsaref.SegVal{Selector: nv.Selector ^ 1, Attrib: old.Attrib, Limit: old.Limit, Base: old.Base}
			}
			seg.Selector, seg.Attrib, seg.Limit, seg.Base = uint32(nv.Selector), uint32(nv.Attrib), nv.Limit, nv.Base
			edits = append(edits, fmt.Sprintf("%s in place=%+v", name, nv))
		}
		o.want.segs[name] = nv
	}
	for ; nInt > 0; nInt-- {
		name := vmsaIntNames[q.r.IntN(len(vmsaIntNames))]
		if o.busy[name] {
			continue
		}
		f, _ := vmsaref.Lookup(name)
		xv := pick(q.r, f.Size)
		if xv == o.want.ints[name] {
			xv ^= 1
		}
		if !setField(m, name, xv) {
			return nil, false
		}
		o.want.ints[name] = xv
		edits = append(edits, fmt.Sprintf("%s=%#x", name, xv))
	}
	if q.r.IntN(4) == 0 { // a reserved range between absent and its documented zeros
		name := vmsaRsvdBytes[q.r.IntN(len(vmsaRsvdBytes))]
		if !o.busy[name] {
			f, _ := vmsaref.Lookup(name)
			if q.r.IntN(2) == 0 {
				setBytes(m, name, nil)
				edits = append(edits, name+" absent")
			} else {
				setBytes(m, name, make([]byte, f.Size))
				edits = append(edits, fmt.Sprintf("%s=%d zero bytes", name, f.Size))
			}
		}
	}
	return edits, true
}

// editOutOfRange takes one field out of its range (or sets a reserved byte) and remembers how to repair it.
func (o *vmsaObj) editOutOfRange(q *x) (string, bool) {
	m := o.v.ProtoReflect()
	for try := 0; try < 8; try++ {
		switch q.r.IntN(5) {
		case 0, 1: // selector / attrib of a segment register
			name := vmsaSegNames[q.r.IntN(len(vmsaSegNames))]
			if o.busy[name] {
				continue
			}
			seg := o.seg(name)
			if seg == nil {
				return "", false
			}
			over := uint32(0x10000)
			if q.r.IntN(2) == 0 {
				over = 0x10000 | q.r.Uint32()>>uint(q.r.IntN(16))
			}
			attrib := q.r.IntN(2) == 0
			what := fmt.Sprintf("%s.selector=%#x", name, over)
			if attrib {
				seg.Attrib = over
				what = fmt.Sprintf("%s.attrib=%#x", name, over)
			} else {
				seg.Selector = over
			}
			o.busy[name] = true
			o.faults = append(o.faults, vmsaFault{name, "out-of-range-field-accepted", what, func() string {
				s, w := o.seg(name), o.want.segs[name]
				s.Selector, s.Attrib = uint32(w.Selector), uint32(w.Attrib)
				return fmt.Sprintf("%s.selector/attrib back to %#x/%#x", name, w.Selector, w.Attrib)
			}})
			return what, true
		case 2:
			if o.busy["cpl"] {
				continue
			}
			cpl := uint64(0x100)
			if q.r.IntN(2) == 0 {
				cpl = 0x100 | uint64(q.r.Uint32()>>uint(q.r.IntN(24)))
			}
			if !setField(m, "cpl", cpl) {
				return "", false
			}
			o.busy["cpl"] = true
			what := fmt.Sprintf("cpl=%#x", cpl)
			o.faults = append(o.faults, vmsaFault{"cpl", "out-of-range-field-accepted", what, func() string {
				setField(o.v.ProtoReflect(), "cpl", o.want.ints["cpl"])
				return fmt.Sprintf("cpl back to %#x", o.want.ints["cpl"])
			}})
			return what, true
		case 3:
			name := vmsaRsvdBytes[q.r.IntN(len(vmsaRsvdBytes))]
			if o.busy[name] {
				continue
			}
			f, _ := vmsaref.Lookup(name)
			b := make([]byte, f.Size)
			b[q.r.IntN(f.Size)] = byte(1 << uint(q.r.IntN(8)))
			if !setBytes(m, name, b) {
				return "", false
			}
			o.busy[name] = true
			what := fmt.Sprintf("%s=%s", name, hx(b))
			zeros := q.r.IntN(2) == 0
			o.faults = append(o.faults, vmsaFault{name, "nonzero-reserved-accepted", what, func() string {
				if zeros {
					setBytes(o.v.ProtoReflect(), name, make([]byte, f.Size))
					return fmt.Sprintf("%s back to %d zero bytes", name, f.Size)
				}
				setBytes(o.v.ProtoReflect(), name, nil)
				return name + " absent again"
			}})
			return what, true
		default:
			name := []string{"reserved_8", "reserved_9"}[q.r.IntN(2)]
			if o.busy[name] {
				continue
			}
			xv := uint64(1) << uint(q.r.IntN(64))
			if !setField(m, name, xv) {
				return "", false
			}
			o.busy[name] = true
			what := fmt.Sprintf("%s=%#x", name, xv)
			o.faults = append(o.faults, vmsaFault{name, "nonzero-reserved-accepted", what, func() string {
				setField(o.v.ProtoReflect(), name, 0)
				return name + " back to 0"
			}})
			return what, true
		}
	}
	return "", true // every drawn field is already out of range: no further edit
}

func (o *vmsaObj) repair(q *x) string {
	k := q.r.IntN(len(o.faults))
	f := o.faults[k]
	o.faults = append(o.faults[:k:k], o.faults[k+1:]...)
	delete(o.busy, f.field)
	return f.undo()
}

func caseVmsaAgain(q *x) {
	c := q.c
	objs := make([]*vmsaObj, 1+q.r.IntN(3))
	witness := map[string]any{}
	for k := range objs {
		v, want, ok := randVmsaP(q, []int{8, 8, 2, 1}[q.r.IntN(4)])
		if !ok {
			return
		}
		if q.r.IntN(2) == 0 {
			zeroReserved(q, v)
		}
		wire, _ := proto.Marshal(v)
		witness[fmt.Sprintf("save_area_%d_proto_at_start", k)] = hx(wire)
		objs[k] = &vmsaObj{v: v, want: want, busy: map[string]bool{}}
	}
	size := vmsaref.Size
	switch q.r.IntN(3) {
	case 0:
		size = 4096
	case 1:
		size = vmsaref.Size + 1 + q.r.IntN(64)
	}
	shared := bytes.Repeat([]byte{canary}, size)
	var log []string
	witness["calls"] = &log
	last := -1
	nf := make([]int, len(objs))
	for step, steps := 0, 4+q.r.IntN(5); step < steps; step++ {
		for k, o := range objs {
			nf[k] = len(o.faults)
		}
		s := pickStep(q, last, nf)
		o := objs[s.obj]
		wasInvalid := len(o.faults) > 0 && o.refusedAt
		var what string
		switch s.edit {
		case "repair":
			what = o.repair(q)
		case "in-range edit":
			edits, ok := o.editInRange(q)
			if !ok {
				return
			}
			what = fmt.Sprint(edits)
		case "out-of-range edit":
			w, ok := o.editOutOfRange(q)
			if !ok {
				return
			}
			if what = w; w == "" {
				s.edit = "no edit"
			}
		}
		if s.edit != "no edit" {
			o.edited = true
		}
		s.written, s.edited = o.written, o.edited
		page := shared
		switch s.buf {
		case "fresh buffer":
			page = bytes.Repeat([]byte{canary}, size)
		case "buffer of an earlier call refilled":
			for k := range page {
				page[k] = canary
			}
		}
		valid := len(o.faults) == 0
		log = append(log, fmt.Sprintf("call %d: save area %d (%s) %s -> %s", step, s.obj, s, what, map[bool]string{true: "in range", false: "out of range"}[valid]))
		last = s.obj
		var err error
		if !valid {
			f := o.faults[0]
			if q.try(func() { err = sev.PutVmsa(o.v, page) }) {
				c.Count("refused-by-panic/"+entryVmsa, 1)
			} else if err == nil {
				q.viol(entryVmsa, f.rule, witness, "PutVmsa accepts a save area with %s at call %d of a sequence (%s; outstanding: %d out-of-range edits): %v", f.what, step, s, len(o.faults), log)
				return
			} else {
				if f.rule == "nonzero-reserved-accepted" {
					seen("nonzero-reserved-refused")
				} else {
					seen("out-of-range-refused")
				}
				s.held(q, "VMSA", false, false)
			}
			o.refusedAt = true
			if !allEq(page[vmsaref.Size:], canary) {
				q.viol(entryVmsa, "wrote-beyond-abi-size", witness, "PutVmsa wrote behind offset %#x", vmsaref.Size)
			}
			continue
		}
		if !q.must(entryVmsa, func() { err = sev.PutVmsa(o.v, page) }) {
			return
		}
		if err != nil {
			q.viol(entryVmsa, "in-range-value-refused", witness, "PutVmsa refuses an in-range save area at call %d of a sequence (%s): %v; calls: %v", step, s, err, log)
			return
		}
		if !allEq(page[vmsaref.Size:], canary) {
			q.viol(entryVmsa, "wrote-beyond-abi-size", witness, "PutVmsa wrote behind offset %#x", vmsaref.Size)
		}
		if !checkVmsaPageAs(q, s.rule(step == 0), fmt.Sprintf("call %d of a sequence: %s; calls: %v", step, s, log), page, o.want, witness) {
			return
		}
		s.held(q, "VMSA", true, wasInvalid)
		o.written, o.edited, o.refusedAt = true, false, false
	}
}

// ---- ovmf/abi structures with pointer receivers ----

type liveFixed struct {
	entry string
	lay   abiref.Layout
	mk    func() any
	set   func(o any, v abiref.Value) // assigns the fields in place
	put   func(o any, d []byte) error
}

var liveFixeds = []liveFixed{
	{"abi.FwGUIDEntry.Put", abiref.FwGUIDEntry, func() any { return &abi.FwGUIDEntry{} },
		func(o any, v abiref.Value) {
			f := o.(*abi.FwGUIDEntry)
			f.Size, f.GUID = uint16(v.U["size"]), uuid.UUID(v.G["guid"])
		},
		func(o any, d []byte) error { return o.(*abi.FwGUIDEntry).Put(d) }},
	{"abi.SevMetadataSection.Put", abiref.SevSection, func() any { return &abi.SevMetadataSection{} },
		func(o any, v abiref.Value) {
			s := o.(*abi.SevMetadataSection)
			s.Address, s.Length, s.Kind = uint32(v.U["address"]), uint32(v.U["length"]), uint32(v.U["kind"])
		},
		func(o any, d []byte) error { return o.(*abi.SevMetadataSection).Put(d) }},
	{"abi.SevMetadata.Put", abiref.SevMetadata, func() any { return &abi.SevMetadata{} },
		func(o any, v abiref.Value) {
			s := o.(*abi.SevMetadata)
			s.Signature, s.Length, s.Version, s.Sections = uint32(v.U["signature"]), uint32(v.U["length"]), uint32(v.U["version"]), uint32(v.U["sections"])
		},
		func(o any, d []byte) error { return o.(*abi.SevMetadata).Put(d) }},
	{"abi.MetadataOffset.Put", abiref.MetaOffset, func() any { return &abi.MetadataOffset{} },
		func(o any, v abiref.Value) {
			s := o.(*abi.MetadataOffset)
			s.Offset, s.GUIDEntry.Size, s.GUIDEntry.GUID = uint32(v.U["offset"]), uint16(v.U["size"]), uuid.UUID(v.G["guid"])
		},
		func(o any, d []byte) error { return o.(*abi.MetadataOffset).Put(d) }},
	{"abi.TDXMetadataDescriptor.Put", abiref.TDXDesc, func() any { return &abi.TDXMetadataDescriptor{} },
		func(o any, v abiref.Value) {
			s := o.(*abi.TDXMetadataDescriptor)
			s.Signature, s.Length, s.Version, s.SectionCount = uint32(v.U["signature"]), uint32(v.U["length"]), uint32(v.U["version"]), uint32(v.U["section_count"])
		},
		func(o any, d []byte) error { return o.(*abi.TDXMetadataDescriptor).Put(d) }},
	{"abi.TDXMetadataSection.Put", abiref.TDXSection, func() any { return &abi.TDXMetadataSection{} },
		func(o any, v abiref.Value) { *o.(*abi.TDXMetadataSection) = *tdxSection(v) },
		func(o any, d []byte) error { return o.(*abi.TDXMetadataSection).Put(d) }},
}

// reshuffle gives some (or all) fields of v new in-range values.
func reshuffle(q *x, l abiref.Layout, v abiref.Value) []string {
	nv := randValue(q, l)
	all := q.r.IntN(2) == 0
	one := q.r.IntN(len(l.Fields))
	var edits []string
	for k, f := range l.Fields {
		if !all && k != one {
			continue
		}
		if f.Size == 16 {
			g := nv.G[f.Name]
			if g == v.G[f.Name] {
				g[q.r.IntN(16)] ^= 0x80
			}
			v.G[f.Name] = g
			edits = append(edits, fmt.Sprintf("%s=%x", f.Name, g))
		} else {
			u := nv.U[f.Name]
			if u == v.U[f.Name] {
				u ^= 1
			}
			v.U[f.Name] = u
			edits = append(edits, fmt.Sprintf("%s=%#x", f.Name, u))
		}
	}
	return edits
}

// againObj is one live object of the ovmf/abi walk: the model (enc gives the reference encoding of what
// it holds) and the edits the caller can make.
type againObj struct {
	faults  int
	written bool
	edited  bool
	refused bool
	inRange func() string         // an in-range edit in place
	outOf   func() (string, bool) // an out-of-range edit (false: the structure has none)
	repair  func() string
	put     func(d []byte) error
	enc     func() []byte
	fault   func() string // describes one outstanding out-of-range edit
}

func caseFixedAgain(q *x) {
	which := q.r.IntN(len(liveFixeds) + 4) // the reset block and the whole TDVF metadata twice as often as one flat structure
	n := 1 + q.r.IntN(2)
	objs := make([]*againObj, n)
	var entry, structure string
	maxSize := 0
	switch {
	case which < len(liveFixeds):
		lf := liveFixeds[which]
		entry, structure, maxSize = lf.entry, lf.lay.Name, lf.lay.Size
		for k := range objs {
			o, v := lf.mk(), randValue(q, lf.lay)
			lf.set(o, v)
			objs[k] = &againObj{
				inRange: func() string { e := reshuffle(q, lf.lay, v); lf.set(o, v); return fmt.Sprint(e) },
				outOf:   func() (string, bool) { return "", false },
				put:     func(d []byte) error { return lf.put(o, d) },
				enc:     func() []byte { return lf.lay.Encode(v) },
			}
		}
	case which < len(liveFixeds)+2:
		entry, structure, maxSize = "abi.PutSevEsResetBlock", "SevEsResetBlock", abiref.ResetBlock.Size
		for k := range objs {
			objs[k] = resetBlockObj(q)
		}
	default:
		entry, structure, maxSize = "abi.TDXMetadata.Put", "TDXMetadata", 16+32*12
		for k := range objs {
			objs[k] = tdxMetadataObj(q)
		}
	}
	extra := q.r.IntN(9)
	shared := bytes.Repeat([]byte{canary}, maxSize+extra)
	var log []string
	witness := map[string]any{"structure": structure, "calls": &log}
	last := -1
	nf := make([]int, n)
	for step, steps := 0, 3+q.r.IntN(4); step < steps; step++ {
		for k, o := range objs {
			nf[k] = o.faults
		}
		s := pickStep(q, last, nf)
		o := objs[s.obj]
		wasInvalid := o.faults > 0 && o.refused
		var what string
		switch s.edit {
		case "repair":
			what = o.repair()
			o.faults--
		case "in-range edit":
			what = o.inRange()
		case "out-of-range edit":
			w, ok := o.outOf()
			if ok {
				what = w
				o.faults++
			} else {
				s.edit = "in-range edit"
				what = o.inRange()
			}
		}
		if s.edit != "no edit" {
			o.edited = true
		}
		s.written, s.edited = o.written, o.edited
		buf := shared
		switch s.buf {
		case "fresh buffer":
			buf = bytes.Repeat([]byte{canary}, len(shared))
		case "buffer of an earlier call refilled":
			for k := range buf {
				buf[k] = canary
			}
		}
		valid := o.faults == 0
		log = append(log, fmt.Sprintf("call %d: object %d (%s) %s -> %s", step, s.obj, s, what, map[bool]string{true: "in range", false: "out of range"}[valid]))
		last = s.obj
		var err error
		if !valid {
			if q.try(func() { err = o.put(buf) }) {
				q.c.Count("refused-by-panic/"+entry, 1)
			} else if err == nil {
				q.viol(entry, "out-of-range-field-accepted", witness, "%s: the encoder accepts a value with %s at call %d of a sequence (%s): %v", structure, o.fault(), step, s, log)
				return
			} else {
				seen("out-of-range-refused")
				s.held(q, structure, false, false)
			}
			o.refused = true
			continue
		}
		want := o.enc()
		before := append([]byte(nil), buf...)
		if !q.must(entry, func() { err = o.put(buf) }) {
			return
		}
		if err != nil {
			q.viol(entry, "in-range-value-refused", witness, "%s: the encoder refuses an in-range value at call %d of a sequence (%s): %v; reference encoding %s; calls: %v", structure, step, s, err, hx(want), log)
			return
		}
		if !bytes.Equal(buf[len(want):], before[len(want):]) {
			q.viol(entry, "wrote-beyond-abi-size", witness, "%s: bytes behind offset %d were written", structure, len(want))
		}
		if !bytes.Equal(buf[:len(want)], want) {
			q.viol(entry, s.rule(step == 0), witness, "%s: call %d of a sequence (%s) encodes %s, the ABI layout of the value the object holds at that call gives %s; calls: %v", structure, step, s, hx(buf[:len(want)]), hx(want), log)
			return
		}
		s.held(q, structure, true, wasInvalid)
		o.written, o.edited, o.refused = true, false, false
	}
}

func resetBlockObj(q *x) *againObj {
	v := randValue(q, abiref.ResetBlock)
	g := v.G["guid"]
	blk := &opb.SevEsResetBlock{Addr: uint32(v.U["addr"]), Size: uint32(v.U["size"]), Guid: append([]byte(nil), g[:]...)}
	sizeOver, guidLen := false, false
	o := &againObj{
		put: func(d []byte) error { return abi.PutSevEsResetBlock(d, blk) },
		enc: func() []byte { return abiref.ResetBlock.Encode(v) },
	}
	setGuid := func() string {
		g := v.G["guid"]
		if len(blk.Guid) == 16 && q.r.IntN(2) == 0 {
			copy(blk.Guid, g[:]) // same backing array
			return "guid bytes overwritten in place"
		}
		blk.Guid = append([]byte(nil), g[:]...)
		return "guid replaced by a new slice"
	}
	o.inRange = func() string {
		before := v.G["guid"]
		e := reshuffle(q, abiref.ResetBlock, v)
		if !sizeOver {
			blk.Size = uint32(v.U["size"])
		}
		blk.Addr = uint32(v.U["addr"])
		if !guidLen && v.G["guid"] != before {
			e = append(e, setGuid())
		}
		return fmt.Sprint(e)
	}
	o.outOf = func() (string, bool) {
		if !sizeOver && (guidLen || q.r.IntN(2) == 0) {
			sizeOver = true
			blk.Size = 0x10000 | q.r.Uint32()>>uint(q.r.IntN(16))
			return fmt.Sprintf("size=%#x", blk.Size), true
		}
		if guidLen {
			return "", false
		}
		guidLen = true
		if k := q.r.IntN(18); k < 16 {
			blk.Guid = blk.Guid[:k]
		} else {
			blk.Guid = append(blk.Guid, byte(q.r.IntN(256)))
		}
		return fmt.Sprintf("guid of %d bytes", len(blk.Guid)), true
	}
	o.repair = func() string {
		if sizeOver && (!guidLen || q.r.IntN(2) == 0) {
			sizeOver = false
			blk.Size = uint32(v.U["size"])
			return fmt.Sprintf("size back to %#x", blk.Size)
		}
		guidLen = false
		if cap(blk.Guid) >= 16 {
			blk.Guid = blk.Guid[:16] // setGuid may now reuse the backing array
		}
		return "guid of 16 bytes again: " + setGuid()
	}
	o.fault = func() string { return fmt.Sprintf("size=%#x, guid of %d bytes", blk.Size, len(blk.Guid)) }
	return o
}

func tdxMetadataObj(q *x) *againObj {
	hv := randValue(q, abiref.TDXDesc)
	n := q.r.IntN(5)
	hv.U["section_count"] = uint64(n)
	m := &abi.TDXMetadata{Header: &abi.TDXMetadataDescriptor{}}
	setHeader := func() {
		m.Header.Signature, m.Header.Length, m.Header.Version = uint32(hv.U["signature"]), uint32(hv.U["length"]), uint32(hv.U["version"])
	}
	setHeader()
	m.Header.SectionCount = uint32(n)
	var svs []abiref.Value
	for k := 0; k < n; k++ {
		sv := randValue(q, abiref.TDXSection)
		svs = append(svs, sv)
		m.Sections = append(m.Sections, tdxSection(sv))
	}
	countOff := false
	o := &againObj{
		put: func(d []byte) error { return m.Put(d) },
		enc: func() []byte {
			hv.U["section_count"] = uint64(len(svs))
			b := abiref.TDXDesc.Encode(hv)
			for _, sv := range svs {
				b = append(b, abiref.TDXSection.Encode(sv)...)
			}
			return b
		},
	}
	o.inRange = func() string {
		switch k := q.r.IntN(4); {
		case k == 0: // header fields through the header pointer
			cnt := hv.U["section_count"]
			e := reshuffle(q, abiref.TDXDesc, hv)
			hv.U["section_count"] = cnt
			setHeader()
			return "header " + fmt.Sprint(e)
		case k == 1 && len(svs) < 10 && !countOff: // one more section (not while the count is off: it could come to match)
			sv := randValue(q, abiref.TDXSection)
			svs = append(svs, sv)
			m.Sections = append(m.Sections, tdxSection(sv))
			m.Header.SectionCount = uint32(len(svs))
			return "section appended"
		case k == 2 && len(svs) > 0 && !countOff: // last section dropped
			svs = svs[:len(svs)-1]
			m.Sections = m.Sections[:len(m.Sections)-1]
			m.Header.SectionCount = uint32(len(svs))
			return "last section dropped"
		case len(svs) > 0: // one section through its pointer
			j := q.r.IntN(len(svs))
			e := reshuffle(q, abiref.TDXSection, svs[j])
			*m.Sections[j] = *tdxSection(svs[j])
			return fmt.Sprintf("section %d in place %v", j, e)
		}
		cnt := hv.U["section_count"]
		e := reshuffle(q, abiref.TDXDesc, hv)
		hv.U["section_count"] = cnt
		setHeader()
		return "header " + fmt.Sprint(e)
	}
	o.outOf = func() (string, bool) {
		if countOff {
			return "", false
		}
		countOff = true
		d := uint32(1 + q.r.IntN(3))
		if q.r.IntN(2) == 0 && uint32(len(svs)) >= d {
			m.Header.SectionCount = uint32(len(svs)) - d
		} else {
			m.Header.SectionCount = uint32(len(svs)) + d
		}
		return fmt.Sprintf("section_count=%d with %d sections", m.Header.SectionCount, len(svs)), true
	}
	o.repair = func() string {
		countOff = false
		m.Header.SectionCount = uint32(len(svs))
		return fmt.Sprintf("section_count back to %d", len(svs))
	}
	o.fault = func() string { return fmt.Sprintf("section_count=%d with %d sections", m.Header.SectionCount, len(svs)) }
	return o
}
