// Package vmsaref is an independent decoder for the two SEV structures the repository can only
// encode: the SEV-ES VM save area (AMD64 APM vol. 2, appendix B, table B-4, in the revision that
// Linux's struct sev_es_save_area and the repository's proto follow) and the SEV-SNP PAGE_INFO
// structure (SEV-SNP firmware ABI 1.51, SNP_LAUNCH_UPDATE, table "PAGE_INFO structure").
// It shares no code with the repository under test.
package vmsaref

import (
	"fmt"
)

// Kind of a VMSA table entry.
type Kind int

const (
	// Seg is a 16-byte segment register: selector u16, attrib u16, limit u32, base u64.
	Seg Kind = iota
	// Int is a little-endian unsigned integer of Size bytes.
	Int
	// Rsvd is a must-be-zero byte range.
	Rsvd
	// Tail is a range the launch state does not carry (written as zero).
	Tail
)

// Field is one row of the save-area table.
type Field struct {
	Name string
	Size int
	Kind Kind
	Off  int // computed from the running sum of sizes
}

// Size is the size of the save area proper; the rest of the 4 KiB page is not described.
const Size = 0x670

// Table lists the save area in structure order with sizes; offsets follow by summation and are
// cross-checked against the offsets the APM prints (Anchors), which gives two readings.
var Table = []Field{
	{Name: "es", Size: 16, Kind: Seg}, {Name: "cs", Size: 16, Kind: Seg}, {Name: "ss", Size: 16, Kind: Seg},
	{Name: "ds", Size: 16, Kind: Seg}, {Name: "fs", Size: 16, Kind: Seg}, {Name: "gs", Size: 16, Kind: Seg},
	{Name: "gdtr", Size: 16, Kind: Seg}, {Name: "ldtr", Size: 16, Kind: Seg}, {Name: "idtr", Size: 16, Kind: Seg},
	{Name: "tr", Size: 16, Kind: Seg},
	{Name: "reserved_1", Size: 43, Kind: Rsvd},
	{Name: "cpl", Size: 1, Kind: Int},
	{Name: "reserved_2", Size: 4, Kind: Rsvd},
	{Name: "efer", Size: 8, Kind: Int},
	{Name: "reserved_3", Size: 104, Kind: Rsvd},
	{Name: "xss", Size: 8, Kind: Int}, {Name: "cr4", Size: 8, Kind: Int}, {Name: "cr3", Size: 8, Kind: Int},
	{Name: "cr0", Size: 8, Kind: Int}, {Name: "dr7", Size: 8, Kind: Int}, {Name: "dr6", Size: 8, Kind: Int},
	{Name: "rflags", Size: 8, Kind: Int}, {Name: "rip", Size: 8, Kind: Int},
	{Name: "reserved_4", Size: 88, Kind: Rsvd},
	{Name: "rsp", Size: 8, Kind: Int},
	{Name: "reserved_5", Size: 24, Kind: Rsvd},
	{Name: "rax", Size: 8, Kind: Int}, {Name: "star", Size: 8, Kind: Int}, {Name: "lstar", Size: 8, Kind: Int},
	{Name: "cstar", Size: 8, Kind: Int}, {Name: "sfmask", Size: 8, Kind: Int}, {Name: "kernel_gs_base", Size: 8, Kind: Int},
	{Name: "sysenter_cs", Size: 8, Kind: Int}, {Name: "sysenter_esp", Size: 8, Kind: Int}, {Name: "sysenter_eip", Size: 8, Kind: Int},
	{Name: "cr2", Size: 8, Kind: Int},
	{Name: "reserved_6", Size: 32, Kind: Rsvd},
	{Name: "g_pat", Size: 8, Kind: Int}, {Name: "dbgctl", Size: 8, Kind: Int}, {Name: "br_from", Size: 8, Kind: Int},
	{Name: "br_to", Size: 8, Kind: Int}, {Name: "last_excp_from", Size: 8, Kind: Int}, {Name: "last_excp_to", Size: 8, Kind: Int},
	{Name: "reserved_7", Size: 80, Kind: Rsvd},
	{Name: "pkru", Size: 4, Kind: Int},
	{Name: "reserved_7a", Size: 20, Kind: Rsvd},
	{Name: "reserved_8", Size: 8, Kind: Rsvd},
	{Name: "rcx", Size: 8, Kind: Int}, {Name: "rdx", Size: 8, Kind: Int}, {Name: "rbx", Size: 8, Kind: Int},
	{Name: "reserved_9", Size: 8, Kind: Rsvd},
	{Name: "rbp", Size: 8, Kind: Int}, {Name: "rsi", Size: 8, Kind: Int}, {Name: "rdi", Size: 8, Kind: Int},
	{Name: "r8", Size: 8, Kind: Int}, {Name: "r9", Size: 8, Kind: Int}, {Name: "r10", Size: 8, Kind: Int},
	{Name: "r11", Size: 8, Kind: Int}, {Name: "r12", Size: 8, Kind: Int}, {Name: "r13", Size: 8, Kind: Int},
	{Name: "r14", Size: 8, Kind: Int}, {Name: "r15", Size: 8, Kind: Int},
	{Name: "reserved_10", Size: 16, Kind: Rsvd},
	{Name: "sw_exit_code", Size: 8, Kind: Int}, {Name: "sw_exit_info_1", Size: 8, Kind: Int}, {Name: "sw_exit_info_2", Size: 8, Kind: Int},
	{Name: "sw_scratch", Size: 8, Kind: Int}, {Name: "sev_features", Size: 8, Kind: Int},
	{Name: "reserved_11", Size: 48, Kind: Rsvd},
	{Name: "xcr0", Size: 8, Kind: Int},
	{Name: "tail", Size: Size - 0x3F0, Kind: Tail}, // valid_bitmap, x87_state_gpa and the FPU/AVX image: zero at launch
}

// Anchors are offsets as printed in the APM table, used only to cross-check the summation.
var Anchors = map[string]int{
	"es": 0x0, "cs": 0x10, "tr": 0x90, "cpl": 0xCB, "efer": 0xD0, "xss": 0x140, "cr4": 0x148, "cr3": 0x150, "cr0": 0x158,
	"dr7": 0x160, "dr6": 0x168, "rflags": 0x170, "rip": 0x178, "rsp": 0x1D8, "rax": 0x1F8, "star": 0x200, "kernel_gs_base": 0x220,
	"sysenter_cs": 0x228, "cr2": 0x240, "g_pat": 0x268, "dbgctl": 0x270, "last_excp_to": 0x290, "pkru": 0x2E8,
	"rcx": 0x308, "rdx": 0x310, "rbx": 0x318, "rbp": 0x328, "rsi": 0x330, "rdi": 0x338, "r8": 0x340, "r15": 0x378,
	"sw_exit_code": 0x390, "sw_exit_info_1": 0x398, "sw_exit_info_2": 0x3A0, "sw_scratch": 0x3A8, "sev_features": 0x3B0,
	"xcr0": 0x3E8, "tail": 0x3F0,
}

func init() {
	off := 0
	for i := range Table {
		Table[i].Off = off
		off += Table[i].Size
	}
}

// SelfTest checks the table's internal consistency.
func SelfTest() error {
	off := 0
	seen := map[string]bool{}
	for _, f := range Table {
		if f.Off != off {
			return fmt.Errorf("vmsaref: offsets not computed")
		}
		if a, ok := Anchors[f.Name]; ok && a != f.Off {
			return fmt.Errorf("vmsaref: %s at %#x by summation, %#x in the APM", f.Name, f.Off, a)
		}
		if seen[f.Name] {
			return fmt.Errorf("vmsaref: duplicate %s", f.Name)
		}
		seen[f.Name] = true
		off += f.Size
	}
	if off != Size {
		return fmt.Errorf("vmsaref: table covers %#x bytes, want %#x", off, Size)
	}
	for n := range Anchors {
		if !seen[n] {
			return fmt.Errorf("vmsaref: anchor %s has no row", n)
		}
	}
	return nil
}

// SegVal is a decoded segment register.
type SegVal struct {
	Selector, Attrib uint16
	Limit            uint32
	Base             uint64
}

// Decoded is a decoded save area.
type Decoded struct {
	Ints    map[string]uint64
	Segs    map[string]SegVal
	NonZero []string // reserved / tail ranges that contain a non-zero byte, as "name+0xoff"
}

func le(b []byte) uint64 {
	var x uint64
	for i := len(b) - 1; i >= 0; i-- {
		x = x<<8 | uint64(b[i])
	}
	return x
}

// Decode reads a save area from the first Size bytes of b.
func Decode(b []byte) (*Decoded, error) {
	if len(b) < Size {
		return nil, fmt.Errorf("vmsaref: %d bytes < %#x", len(b), Size)
	}
	d := &Decoded{Ints: map[string]uint64{}, Segs: map[string]SegVal{}}
	for _, f := range Table {
		s := b[f.Off : f.Off+f.Size]
		switch f.Kind {
		case Seg:
			d.Segs[f.Name] = SegVal{Selector: uint16(le(s[0:2])), Attrib: uint16(le(s[2:4])), Limit: uint32(le(s[4:8])), Base: le(s[8:16])}
		case Int:
			d.Ints[f.Name] = le(s)
		case Rsvd, Tail:
			for i, x := range s {
				if x != 0 {
					d.NonZero = append(d.NonZero, fmt.Sprintf("%s+%#x(page offset %#x)", f.Name, i, f.Off+i))
					break
				}
			}
		}
	}
	return d, nil
}

// Lookup returns the table row of a name.
func Lookup(name string) (Field, bool) {
	for _, f := range Table {
		if f.Name == name {
			return f, true
		}
	}
	return Field{}, false
}

// ---- PAGE_INFO ----

// PageInfoSize is the size of PAGE_INFO.
const PageInfoSize = 0x70

// PageInfo is the SNP PAGE_INFO structure: 00h DIGEST_CUR[48], 30h CONTENTS[48], 60h LENGTH (16
// bits), 62h PAGE_TYPE, 63h bit 0 IMI_PAGE (bits 7:1 reserved), 64h reserved, 65h VMPL1_PERMS, 66h
// VMPL2_PERMS, 67h VMPL3_PERMS, 68h GPA (64 bits).
type PageInfo struct {
	DigestCur, Contents [48]byte
	Length              uint16
	PageType, IMI       uint8
	Rsvd64              uint8
	VMPL1, VMPL2, VMPL3 uint8
	GPA                 uint64
}

// Encode writes the structure.
func (p PageInfo) Encode() []byte {
	b := make([]byte, PageInfoSize)
	copy(b[0x00:], p.DigestCur[:])
	copy(b[0x30:], p.Contents[:])
	b[0x60] = byte(p.Length)
	b[0x61] = byte(p.Length >> 8)
	b[0x62] = p.PageType
	b[0x63] = p.IMI
	b[0x64] = p.Rsvd64
	b[0x65] = p.VMPL1
	b[0x66] = p.VMPL2
	b[0x67] = p.VMPL3
	for i := 0; i < 8; i++ {
		b[0x68+i] = byte(p.GPA >> (8 * uint(i)))
	}
	return b
}

// DecodePageInfo reads the structure.
func DecodePageInfo(b []byte) (PageInfo, error) {
	var p PageInfo
	if len(b) < PageInfoSize {
		return p, fmt.Errorf("vmsaref: PAGE_INFO %d bytes < %#x", len(b), PageInfoSize)
	}
	copy(p.DigestCur[:], b[0x00:0x30])
	copy(p.Contents[:], b[0x30:0x60])
	p.Length = uint16(le(b[0x60:0x62]))
	p.PageType = b[0x62]
	p.IMI = b[0x63]
	p.Rsvd64 = b[0x64]
	p.VMPL1, p.VMPL2, p.VMPL3 = b[0x65], b[0x66], b[0x67]
	p.GPA = le(b[0x68:0x70])
	return p, nil
}
