package c17

import (
	"context"
	"fmt"
	"runtime/debug"
	"sync"

	"github.com/google/gce-tcb-verifier/gcetcbendorsement"
	epb "github.com/google/gce-tcb-verifier/proto/endorsement"
	cpb "github.com/google/go-sev-guest/proto/check"
	tcpb "github.com/google/go-tdx-guest/proto/checkconfig"
	"google.golang.org/protobuf/proto"

	"verifharness/core"
)

// Family "concurrent": a verifier service derives policies for many requests at once from the
// base policies (and endorsement values) it holds once. 4 | 8 | 16 goroutines are released on a
// barrier; each runs a pre-drawn list of 24..63 calls (both entry points, all endorsements and all
// bases of one world, every option) with option values of its own. Nothing is judged while the
// goroutines run (each writes only into its own job slots). Afterwards every call is judged by
// sevJudge / tdxJudge exactly as a call made alone would be, the shared bases are compared with
// their snapshots, and every other derived policy is edited to show that the rest (and the bases)
// do not share memory with it.

type cjob struct {
	sev   bool
	j, bk int // endorsement, base (-1 = none)
	req   uint32
	allow bool
	ram   int
	ow    bool

	sres     *cpb.Policy
	tres     *tcpb.Policy
	err      error
	panicMsg string
	site     string
}

type concTally struct {
	cases, calls, derived, refused, maxG, sharedEndDerived int
	edited, comparedAfterEdit                              int
}

func concFamily(c *core.Ctx, first, n int, t *tally, ct *concTally) {
	ctx := context.Background()
	for i := first; i < first+n; i++ {
		if !c.Mine(i) {
			continue
		}
		r := c.Rand(i)
		w := genWorld(r, 2+r.IntN(2))
		G := []int{4, 8, 16}[r.IntN(3)]
		sharedEnds := r.IntN(3) != 0
		gname := fmt.Sprintf("case#%d concurrent goroutines=%d endorsements=%d shared-endorsement-values=%v", i, G, len(w.gs), sharedEnds)
		c.Begin(i, gname, "SevPolicy+TdxPolicy", w.gs[0])
		ends := make([][]*epb.VMLaunchEndorsement, G) // [goroutine][endorsement]
		for g := 0; g < G; g++ {
			for j := range w.gs {
				if sharedEnds && g > 0 {
					ends[g] = append(ends[g], ends[0][j])
				} else {
					ends[g] = append(ends[g], &epb.VMLaunchEndorsement{SerializedUefiGolden: cp(w.gs[j]), Signature: rbytes(r, 16)})
				}
			}
		}
		jobs := make([][]*cjob, G)
		for g := 0; g < G; g++ {
			L := 24 + r.IntN(40)
			for k := 0; k < L; k++ {
				jb := &cjob{sev: r.IntN(5) < 3, j: r.IntN(len(w.gs)), ow: r.IntN(3) == 0, allow: r.IntN(4) != 0}
				e := w.es[jb.j]
				switch x := r.IntN(10); {
				case x < 2:
					jb.bk = -1
				case x < 8:
					jb.bk = jb.j
				default:
					jb.bk = r.IntN(len(w.gs))
				}
				if jb.sev {
					var present []uint32
					for _, key := range vmsaKeys {
						if _, ok := e.meas[key]; ok {
							present = append(present, key)
						}
					}
					at := uint32(0)
					if jb.bk >= 0 {
						_, _, _, at = relateSev(w.sev[jb.bk].p, e)
					}
					switch x := r.IntN(20); {
					case x < 5:
					case x < 12 && at != 0:
						jb.req = at
					case x < 18 && len(present) > 0:
						jb.req = present[r.IntN(len(present))]
					case x < 18:
					default:
						jb.req = 3
					}
				} else {
					switch x := r.IntN(10); {
					case x < 4:
					case x < 9 && len(e.rows) > 0:
						jb.ram = int(e.rows[r.IntN(len(e.rows))].ram)
					default:
						jb.ram = 48
					}
				}
				jobs[g] = append(jobs[g], jb)
			}
		}
		// --- the concurrent stage: repository code only, no monitor state shared
		start := make(chan struct{})
		var wg sync.WaitGroup
		total := 0
		for g := 0; g < G; g++ {
			total += len(jobs[g])
			wg.Add(1)
			go func(g int) {
				defer wg.Done()
				<-start
				for _, jb := range jobs[g] {
					runJob(ctx, w, ends[g], jb)
				}
			}(g)
		}
		close(start)
		wg.Wait()
		c.Eval(total)
		ct.cases++
		ct.calls += total
		if G > ct.maxG {
			ct.maxG = G
		}
		// --- judging, alone
		var keptRes []*kept
		for g := 0; g < G; g++ {
			for k, jb := range jobs[g] {
				e := w.es[jb.j]
				entry := entTdx
				if jb.sev {
					entry = entSev
				}
				call := fmt.Sprintf("%s | goroutine %d call %d: %s endorsement#%d base#%d vmsas=%d allow_unspecified=%v ram_gib=%d overwrite=%v", gname, g, k, entry, jb.j, jb.bk, jb.req, jb.allow, jb.ram, jb.ow)
				if jb.panicMsg != "" {
					c.Violate(core.Violation{Kind: "panic", Entry: entry, Site: jb.site, Gen: call, Case: i, Detail: jb.panicMsg})
					continue
				}
				more := map[string]any{"concurrent_goroutines": G, "shared_endorsement_values": sharedEnds}
				ok := false
				var res proto.Message
				if jb.sev {
					var base, snap *cpb.Policy
					if jb.bk >= 0 {
						base, snap = w.sev[jb.bk].p, w.sevSnap[jb.bk]
					}
					pr, mk, sr, _ := relateSev(snap, e)
					o := &sevObs{i: i, call: call, e: e, end: ends[g][jb.j], polRel: pr, measKind: mk, svnRel: sr, base: base, snap: snap,
						req: jb.req, ow: jb.ow, allow: jb.allow, res: jb.sres, err: jb.err, more: more}
					ok, res = sevJudge(c, t, o), jb.sres
				} else {
					var base, snap *tcpb.Policy
					if jb.bk >= 0 {
						base, snap = w.tdx[jb.bk].p, w.tdxSnap[jb.bk]
					}
					o := &tdxObs{i: i, call: call, e: e, end: ends[g][jb.j], kind: relateTdx(snap, e), base: base, snap: snap, ram: jb.ram, ow: jb.ow, res: jb.tres, err: jb.err, more: more}
					ok, res = tdxJudge(c, t, o), jb.tres
				}
				outcome := "refused"
				if ok {
					outcome = "derived"
					ct.derived++
					if sharedEnds {
						ct.sharedEndDerived++
					}
					keptRes = append(keptRes, keep(res, k, call))
				} else if jb.err != nil {
					ct.refused++
				}
				c.Cell("conc|goroutines=%d|shared-endorsement-values=%v|%s|base=%s|%s", G, sharedEnds, entry, map[bool]string{true: "none", false: "shared"}[jb.bk < 0], outcome)
			}
		}
		if d := w.basesIntact(); d != "" {
			c.Violate(core.Violation{Kind: "oracle", Entry: "SevPolicy+TdxPolicy", Site: "base-mutated", Gen: gname, Case: i,
				Detail: d + " while goroutines derived policies from it concurrently"})
		}
		// every other derived policy is edited; bases and the remaining policies must not notice
		for x := 0; x < len(keptRes); x += 2 {
			scramble(keptRes[x].msg.ProtoReflect(), 0)
			ct.edited++
		}
		if d := w.basesIntact(); d != "" {
			c.Violate(core.Violation{Kind: "oracle", Entry: "SevPolicy+TdxPolicy", Site: "result-aliases-base", Gen: gname, Case: i,
				Detail: d + " when policies derived concurrently were edited"})
		}
		for x := 1; x < len(keptRes); x += 2 {
			ct.comparedAfterEdit++
			if k := keptRes[x]; !k.intact() {
				c.Violate(core.Violation{Kind: "oracle", Entry: "SevPolicy+TdxPolicy", Site: "results-share-memory", Gen: k.what, Case: i,
					Detail:  fmt.Sprintf("a derived policy changed in %v when other derived policies were edited", diffFields(k.msg.ProtoReflect(), k.clone.ProtoReflect())),
					Witness: map[string]any{"returned": js(k.clone), "now": js(k.msg)}})
			}
		}
		c.End(i)
	}
}

func runJob(ctx context.Context, w *world, ends []*epb.VMLaunchEndorsement, jb *cjob) {
	defer func() {
		if p := recover(); p != nil {
			jb.panicMsg = fmt.Sprint(p)
			jb.site = core.PanicSite(debug.Stack())
		}
	}()
	if jb.sev {
		o := &gcetcbendorsement.SevPolicyOptions{LaunchVmsas: jb.req, Overwrite: jb.ow, AllowUnspecifiedVmsas: jb.allow}
		if jb.bk >= 0 {
			o.Base = w.sev[jb.bk].p
		}
		jb.sres, jb.err = gcetcbendorsement.SevPolicy(ctx, ends[jb.j], o)
		return
	}
	o := &gcetcbendorsement.TdxPolicyOptions{RAMGiB: jb.ram, Overwrite: jb.ow}
	if jb.bk >= 0 {
		o.Base = w.tdx[jb.bk].p
	}
	jb.tres, jb.err = gcetcbendorsement.TdxPolicy(ctx, ends[jb.j], o)
}

func (ct *concTally) report(c *core.Ctx) {
	c.Count("conc/cases", ct.cases)
	c.Count("conc/calls", ct.calls)
	c.Count("conc/derived", ct.derived)
	c.Count("conc/refused", ct.refused)
	c.Count("conc/derived-from-endorsement-values-shared-by-all-goroutines", ct.sharedEndDerived)
	c.Count("conc/derived-policies-edited-afterwards", ct.edited)
	c.Count("conc/derived-policies-compared-after-the-others-were-edited", ct.comparedAfterEdit)
	c.Max("conc/goroutines", int64(ct.maxG))
	c.Floor("conc:derived-and-refused-concurrently-from-shared-bases-and-endorsement-values", ct.derived > 0 && ct.refused > 0 && ct.sharedEndDerived > 0 && ct.comparedAfterEdit > 0)
}
