package c17

import (
	"bytes"
	"fmt"
	"math/rand/v2"

	epb "github.com/google/gce-tcb-verifier/proto/endorsement"
	cpb "github.com/google/go-sev-guest/proto/check"
	tcpb "github.com/google/go-tdx-guest/proto/checkconfig"
	"google.golang.org/protobuf/proto"
)

// A world is what one caller holds during a history of derivations (kept.go) or what several
// goroutines share (conc.go): a few endorsements (unrelated ones and siblings that differ in one
// respect), and for each of them an SEV and a TDX base policy drawn in relation to it.

type world struct {
	gs  [][]byte // serialized golden measurements
	es  []*endorsed
	sev []*sevBase
	tdx []*tdxBase
	// snapshots of the bases, taken before any repository code ran
	sevSnap  []*cpb.Policy
	sevBytes [][]byte
	tdxSnap  []*tcpb.Policy
	tdxBytes [][]byte
}

func cloneEndorsed(e *endorsed) *endorsed {
	n := *e
	n.meas = map[uint32][]byte{}
	for k, v := range e.meas {
		n.meas[k] = cp(v)
	}
	n.rows = append([]row(nil), e.rows...)
	return &n
}

// sibling returns a second endorsement that differs from (g, e) in one or two respects only
// (another measurement for one VMSA count, another SVN, another bundle, one more TDX row, ...), so
// that base policies compatible with the one are partly compatible with the other.
func sibling(r *rand.Rand, g *epb.VMGoldenMeasurement, e *endorsed) (*epb.VMGoldenMeasurement, *endorsed) {
	g2 := proto.Clone(g).(*epb.VMGoldenMeasurement)
	e2 := cloneEndorsed(e)
	changes := 1 + r.IntN(2)
	for k := 0; k < changes; k++ {
		switch r.IntN(5) {
		case 0: // one measurement replaced / added
			key := vmsaKeys[r.IntN(len(vmsaKeys))]
			e2.meas[key] = rbytes(r, 48)
			if g2.SevSnp != nil {
				if g2.SevSnp.Measurements == nil { // proto.Clone leaves an empty map nil
					g2.SevSnp.Measurements = map[uint32][]byte{}
				}
				g2.SevSnp.Measurements[key] = cp(e2.meas[key])
			}
		case 1:
			e2.svn = uint32(r.IntN(5))
			if g2.SevSnp != nil {
				g2.SevSnp.Svn = e2.svn
			}
		case 2:
			e2.bundle = genBundle(r)
			if g2.SevSnp != nil {
				g2.SevSnp.CaBundle = cp(e2.bundle.pem)
			}
		case 3: // one more row, half of the time for a RAM size that is listed already
			rw := row{ram: []uint32{16, 32, 64}[r.IntN(3)], mrtd: rbytes(r, 48)}
			if len(e2.rows) > 0 && r.IntN(2) == 0 {
				rw.ram = e2.rows[r.IntN(len(e2.rows))].ram
			}
			e2.rows = append(e2.rows, rw)
			if g2.Tdx != nil {
				g2.Tdx.Measurements = append(g2.Tdx.Measurements, &epb.VMTdx_Measurement{RamGib: rw.ram, Mrtd: cp(rw.mrtd)})
			}
		default: // one MRTD replaced
			if len(e2.rows) > 0 {
				x := r.IntN(len(e2.rows))
				e2.rows[x].mrtd = rbytes(r, 48)
				if g2.Tdx != nil {
					g2.Tdx.Measurements[x].Mrtd = cp(e2.rows[x].mrtd)
				}
			}
		}
	}
	// the relation label of svsm_measurement is only used in cells; recompute it roughly
	if len(e2.svsm) > 0 {
		e2.svsmRel = "fresh"
		for _, m := range e2.meas {
			if bytes.Equal(m, e2.svsm) {
				e2.svsmRel = "listed"
			}
		}
	}
	return g2, e2
}

func genWorld(r *rand.Rand, n int) *world {
	w := &world{}
	var g0 *epb.VMGoldenMeasurement
	var e0 *endorsed
	for j := 0; j < n; j++ {
		var g *epb.VMGoldenMeasurement
		var e *endorsed
		fresh := j == 0 || r.IntN(2) == 0
		if fresh {
			g, e = genEndorsement(r)
		} else {
			g, e = sibling(r, g0, e0) // g0 is decorated already
		}
		sb := genSevBase(r, e)
		tb := genTdxBase(r, e)
		if fresh {
			decorate(r, g, e, sb)
		}
		if j == 0 {
			g0, e0 = g, e
		}
		b, err := proto.Marshal(g)
		if err != nil {
			panic(err)
		}
		w.gs, w.es, w.sev, w.tdx = append(w.gs, b), append(w.es, e), append(w.sev, sb), append(w.tdx, tb)
		var ss *cpb.Policy
		var sbts []byte
		if sb.p != nil {
			ss, sbts = proto.Clone(sb.p).(*cpb.Policy), detBytes(sb.p)
		}
		var ts *tcpb.Policy
		var tbts []byte
		if tb.p != nil {
			ts, tbts = proto.Clone(tb.p).(*tcpb.Policy), detBytes(tb.p)
		}
		w.sevSnap, w.sevBytes, w.tdxSnap, w.tdxBytes = append(w.sevSnap, ss), append(w.sevBytes, sbts), append(w.tdxSnap, ts), append(w.tdxBytes, tbts)
	}
	return w
}

// basesIntact compares every base of the world with its snapshot; it returns a description of the
// first difference ("" = all unchanged). Bases found changed are replaced by a copy of their
// snapshot so that one defect is reported once.
func (w *world) basesIntact() string {
	for k, sb := range w.sev {
		if sb.p == nil {
			continue
		}
		if !proto.Equal(sb.p, w.sevSnap[k]) || !bytes.Equal(detBytes(sb.p), w.sevBytes[k]) {
			d := fmt.Sprintf("SEV base #%d changed in %v", k, diffFields(sb.p.ProtoReflect(), w.sevSnap[k].ProtoReflect()))
			sb.p, sb.idSp, sb.authSp = proto.Clone(w.sevSnap[k]).(*cpb.Policy), nil, nil
			return d
		}
		if !sb.idSp.intact() || !sb.authSp.intact() {
			sb.p, sb.idSp, sb.authSp = proto.Clone(w.sevSnap[k]).(*cpb.Policy), nil, nil
			return fmt.Sprintf("the spare capacity behind a trusted key list of SEV base #%d was written", k)
		}
	}
	for k, tb := range w.tdx {
		if tb.p == nil {
			continue
		}
		if !proto.Equal(tb.p, w.tdxSnap[k]) || !bytes.Equal(detBytes(tb.p), w.tdxBytes[k]) {
			d := fmt.Sprintf("TDX base #%d changed in %v", k, diffFields(tb.p.ProtoReflect(), w.tdxSnap[k].ProtoReflect()))
			tb.p, tb.anySp = proto.Clone(w.tdxSnap[k]).(*tcpb.Policy), nil
			return d
		}
		if !tb.anySp.intact() {
			tb.p, tb.anySp = proto.Clone(w.tdxSnap[k]).(*tcpb.Policy), nil
			return fmt.Sprintf("the spare capacity behind any_mr_td of TDX base #%d was written", k)
		}
	}
	return ""
}

// relateSev names the relation of the guarded fields of an arbitrary base policy to an endorsement
// (the labels the generator of the main family knows by construction).
func relateSev(p *cpb.Policy, e *endorsed) (polRel, measKind, svnRel string, matchesAt uint32) {
	if p == nil {
		return "nil-base", "nil-base", "nil-base", 0
	}
	switch {
	case p.Policy == 0:
		polRel = "unset"
	case p.Policy == e.policy:
		polRel = "equal"
	default:
		polRel = "differs"
	}
	measKind = "unset"
	if len(p.Measurement) > 0 {
		measKind = "foreign"
		for _, k := range vmsaKeys {
			m, ok := e.meas[k]
			if !ok {
				continue
			}
			if bytes.Equal(m, p.Measurement) {
				measKind, matchesAt = "endorsed", k
				break
			}
			if len(m) == len(p.Measurement) {
				d := 0
				for x := range m {
					for y := m[x] ^ p.Measurement[x]; y != 0; y &= y - 1 {
						d++
					}
				}
				if d == 1 {
					measKind = "neighbour"
				}
			}
		}
	}
	switch {
	case p.MinimumGuestSvn == 0:
		svnRel = "unset"
	case p.MinimumGuestSvn <= e.svn:
		svnRel = "le"
	default:
		svnRel = "gt"
	}
	return
}

func relateTdx(p *tcpb.Policy, e *endorsed) string {
	if p == nil {
		return "nil-base"
	}
	q := p.GetTdQuoteBodyPolicy()
	if q == nil {
		return "no-body"
	}
	if q.AnyMrTd == nil {
		return "unset"
	}
	if len(q.AnyMrTd) == 0 {
		return "empty-list"
	}
	all := e.listed(0)
	for _, m := range q.AnyMrTd {
		found := false
		for _, l := range all {
			if bytes.Equal(l, m) {
				found = true
			}
		}
		if !found {
			return "foreign"
		}
	}
	return "endorsed"
}

// kept is a policy some earlier call returned and the caller still holds.
type kept struct {
	msg    proto.Message
	clone  proto.Message
	bytes  []byte
	step   int
	what   string
	edited bool
}

func keep(m proto.Message, step int, what string) *kept {
	return &kept{msg: m, clone: proto.Clone(m), bytes: detBytes(m), step: step, what: what}
}

func (k *kept) resnap() { k.clone, k.bytes = proto.Clone(k.msg), detBytes(k.msg) }

func (k *kept) intact() bool {
	return proto.Equal(k.msg, k.clone) && bytes.Equal(detBytes(k.msg), k.bytes)
}
