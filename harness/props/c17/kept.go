package c17

import (
	"context"
	"fmt"
	"math/rand/v2"
	"strings"

	"github.com/google/gce-tcb-verifier/gcetcbendorsement"
	epb "github.com/google/gce-tcb-verifier/proto/endorsement"
	cpb "github.com/google/go-sev-guest/proto/check"
	tcpb "github.com/google/go-tdx-guest/proto/checkconfig"
	"google.golang.org/protobuf/proto"

	"verifharness/core"
)

// Family "kept": one caller makes a history of 12..24 derivations and keeps what callers keep.
//
//   - ONE SevPolicyOptions and ONE TdxPolicyOptions value for the whole history, of which only the
//     fields that change are written between calls (or fresh option values: drawn per history);
//   - ONE VMLaunchEndorsement value whose serialized_uefi_golden buffer is refilled in place when
//     the caller turns to another endorsement, signature field left as it was (or a fresh value per
//     call);
//   - the base policies of all endorsements of its world, used again and again and in turn;
//   - every policy a call returned: compared again with its value at return time after every later
//     call (and after the caller refilled its endorsement buffer); a quarter of them is edited by
//     the caller (every byte and nested scalar changed), after which bases and the other kept
//     results must read as before; unedited results are fed back as the base of later calls.
//
// Calls on undecodable endorsement bytes and refused calls stand between the good ones. Every call
// is judged by sevJudge / tdxJudge, i.e. by the same clauses as in the main family, against the
// snapshot of the base the caller last wrote into its options.

// judgeOptionsBase: "leaves the caller's base policy unchanged" is read to include the Base field of
// the options value the caller passed (no base before the call, some base after it = changed).
const judgeOptionsBase = true

type keptTally struct {
	sessions, steps, derived                                    int
	keptOptsDerivedAfterChangeOfBase, keptOptsDerivedToNil      int
	refilledDerived, sameBufferOtherEndorsement                 int
	afterRefused, afterUndecodable, chainDerived, chainRefused  int
	recompared, edited, derivedAfterEdit, nilAfterEditedNil     int
	otherEndorsementSameBase, undecodableRefused, undecodableOK int
}

type callerState struct {
	so        gcetcbendorsement.SevPolicyOptions // the value the caller keeps
	to        gcetcbendorsement.TdxPolicyOptions
	soBelief  gcetcbendorsement.SevPolicyOptions // what the caller last wrote
	toBelief  gcetcbendorsement.TdxPolicyOptions
	end       *epb.VMLaunchEndorsement
	arena     []byte
	curEnd    int  // endorsement the kept value holds (-1 none, -2 undecodable bytes)
	keptOpts  bool // one options value for the history
	keptEnd   bool // one endorsement value for the history
	results   []*kept
	lastSev   *kept // last unedited SEV result
	lastTdx   *kept
	hist      []string
	prevKind  string // outcome of the previous step: "" | derived | refused | undecodable
	editedNil bool   // the caller edited the result of a nil-base SEV derivation earlier
	sevBaseOf map[*cpb.Policy]int
}

func keptFamily(c *core.Ctx, first, n int, t *tally, kt *keptTally) {
	ctx := context.Background()
	for i := first; i < first+n; i++ {
		if !c.Mine(i) {
			continue
		}
		r := c.Rand(i)
		w := genWorld(r, 2+r.IntN(2))
		st := &callerState{keptOpts: r.IntN(4) != 0, keptEnd: r.IntN(4) != 0, curEnd: -1}
		max := 0
		for _, g := range w.gs {
			if len(g) > max {
				max = len(g)
			}
		}
		st.arena = make([]byte, max+8)
		st.end = &epb.VMLaunchEndorsement{Signature: rbytes(r, 16)}
		steps := 12 + r.IntN(13)
		gname := fmt.Sprintf("case#%d kept-history endorsements=%d kept-options=%v kept-endorsement-value=%v steps=%d", i, len(w.gs), st.keptOpts, st.keptEnd, steps)
		c.Begin(i, gname, "SevPolicy+TdxPolicy", w.gs[0])
		kt.sessions++
		for s := 0; s < steps; s++ {
			keptStep(c, ctx, i, s, r, gname, w, st, t, kt)
		}
		c.End(i)
	}
}

// setEndorsement makes the caller's endorsement value hold endorsement j (-2: undecodable bytes).
func (st *callerState) setEndorsement(r *rand.Rand, w *world, j int, raw []byte) (refilled bool) {
	if !st.keptEnd {
		st.end = &epb.VMLaunchEndorsement{SerializedUefiGolden: cp(raw), Signature: rbytes(r, 16)}
		st.curEnd = j
		return false
	}
	if st.curEnd == j && j >= 0 {
		return false
	}
	refilled = st.curEnd != -1
	n := copy(st.arena, raw)
	st.end.SerializedUefiGolden = st.arena[:n] // same backing array, signature field left alone
	st.curEnd = j
	return refilled
}

func (st *callerState) checkKept(c *core.Ctx, entry, rule, call string, i int, when string) {
	for _, k := range st.results {
		if !k.intact() {
			c.Violate(core.Violation{Kind: "oracle", Entry: entry, Site: rule, Gen: call, Case: i,
				Detail:  fmt.Sprintf("the policy returned at step %d (%s) no longer reads as returned %s: changed in %v", k.step, k.what, when, diffFields(k.msg.ProtoReflect(), k.clone.ProtoReflect())),
				Witness: map[string]any{"history": st.hist, "returned": js(k.clone), "now": js(k.msg)}})
			k.resnap()
		}
	}
}

func keptStep(c *core.Ctx, ctx context.Context, i, s int, r *rand.Rand, gname string, w *world, st *callerState, t *tally, kt *keptTally) {
	kt.steps++
	isSev := r.IntN(5) < 3
	// which endorsement
	j := st.curEnd
	if j < 0 || r.IntN(2) == 0 {
		j = r.IntN(len(w.gs))
	}
	e := w.es[j]
	undecodable := r.IntN(12) == 0
	raw := w.gs[j]
	if undecodable {
		switch r.IntN(3) {
		case 0:
			raw = append(cp(raw[:len(raw)/2]), 0xff) // field number 31, wire type 7
		case 1:
			raw = append(cp(raw), 0x3a, 0x7f) // sev_snp announced with 127 bytes, none follow
		default:
			raw = []byte{0x3a, 0x05, 0x08}
		}
	}
	other := st.curEnd >= 0 && st.curEnd != j
	tgt := j
	if undecodable {
		tgt = -2
	}
	refilled := st.setEndorsement(r, w, tgt, raw)
	if refilled {
		st.checkKept(c, "SevPolicy+TdxPolicy", "earlier-result-changed", gname, i, "after the caller refilled its endorsement buffer with other bytes")
	}
	ow := r.IntN(3) == 0
	prev := st.prevKind
	var derived bool
	var desc, outcome string
	if isSev {
		// which base
		var base *cpb.Policy
		baseKind := "nil"
		var chain *kept
		switch x := r.IntN(20); {
		case x < 4:
		case x < 11:
			base, baseKind = w.sev[j].p, "own"
		case x < 13:
			k := r.IntN(len(w.sev))
			base, baseKind = w.sev[k].p, "other"
		case x < 18 && st.lastSev != nil:
			chain = st.lastSev
			base, baseKind = chain.msg.(*cpb.Policy), "earlier-result"
		default:
			base, baseKind = st.soBelief.Base, "as-before"
		}
		if base == nil && baseKind != "as-before" {
			baseKind = "nil"
		}
		var snap *cpb.Policy
		if base != nil {
			snap = proto.Clone(base).(*cpb.Policy)
		}
		polRel, measKind, svnRel, matchesAt := relateSev(base, e)
		// which request
		var present, absent []uint32
		for _, k := range vmsaKeys {
			if _, ok := e.meas[k]; ok {
				present = append(present, k)
			} else {
				absent = append(absent, k)
			}
		}
		absent = append(absent, 3)
		var req uint32
		switch x := r.IntN(20); {
		case x < 5:
		case x < 12 && matchesAt != 0:
			req = matchesAt
		case x < 17 && len(present) > 0:
			req = present[r.IntN(len(present))]
		case x < 17:
		default:
			req = absent[r.IntN(len(absent))]
		}
		allow := r.IntN(4) != 0
		want := gcetcbendorsement.SevPolicyOptions{Base: base, LaunchVmsas: req, Overwrite: ow, AllowUnspecifiedVmsas: allow}
		opts := &gcetcbendorsement.SevPolicyOptions{}
		baseWritten := true
		if st.keptOpts {
			opts = &st.so
			// only the fields that change are written
			baseWritten = st.soBelief.Base != want.Base
			if baseWritten {
				opts.Base = want.Base
			}
			if st.soBelief.LaunchVmsas != want.LaunchVmsas {
				opts.LaunchVmsas = want.LaunchVmsas
			}
			if st.soBelief.Overwrite != want.Overwrite {
				opts.Overwrite = want.Overwrite
			}
			if st.soBelief.AllowUnspecifiedVmsas != want.AllowUnspecifiedVmsas {
				opts.AllowUnspecifiedVmsas = want.AllowUnspecifiedVmsas
			}
		} else {
			*opts = want
		}
		prevBase := st.soBelief.Base
		st.soBelief = want
		desc = fmt.Sprintf("step %d: SevPolicy endorsement#%d%s base=%s vmsas=%d overwrite=%v allow_unspecified=%v", s, j, map[bool]string{true: "(undecodable bytes)", false: ""}[undecodable], baseKind, req, ow, allow)
		call := gname + " | " + desc
		var res *cpb.Policy
		var err error
		m := c.Guard(i, entSev, call, core.Budget{}, func() { res, err = gcetcbendorsement.SevPolicy(ctx, st.end, opts) })
		o := &sevObs{i: i, call: call, e: e, end: st.end, polRel: polRel, measKind: measKind, svnRel: svnRel, base: base, snap: snap,
			req: req, ow: ow, allow: allow, res: res, err: err, more: map[string]any{"history": append([]string(nil), st.hist...), "one_options_value_kept": st.keptOpts, "one_endorsement_value_kept": st.keptEnd}}
		outcome = "refused"
		if m.Panicked {
			outcome = "panicked"
		} else {
			// the options value still says what the caller wrote into it
			// (not written back: a caller that does not look goes on with what the call left there, and
			// the next derivations are judged against what the caller believes it passes)
			if judgeOptionsBase && opts.Base != want.Base {
				o.viol(c, "options-base-replaced", "after the call the caller's options value holds another base policy (%s) than the one the caller put there (%s)", js(opts.Base), js(snap))
			}
			if opts.LaunchVmsas != want.LaunchVmsas || opts.Overwrite != want.Overwrite || opts.AllowUnspecifiedVmsas != want.AllowUnspecifiedVmsas {
				c.Note("SevPolicy changed a field other than Base of the caller's options value (not judged by C17; the caller wrote it again)")
				b := opts.Base
				*opts = want
				opts.Base = b
			}
			if undecodable {
				if err == nil {
					kt.undecodableOK++ // not judged: the truncated bytes may be a complete message
				} else {
					kt.undecodableRefused++
				}
				outcome = "undecodable"
			} else if sevJudge(c, t, o) {
				derived, outcome = true, "derived"
				kt.derived++
				if st.keptOpts && baseWritten && s > 0 {
					kt.keptOptsDerivedAfterChangeOfBase++
					if base == nil && prevBase != nil {
						kt.keptOptsDerivedToNil++
					}
				}
				if chain != nil {
					kt.chainDerived++
				}
				if base == nil && st.editedNil {
					kt.nilAfterEditedNil++
				}
				k := keep(res, s, desc)
				st.results = append(st.results, k)
				st.lastSev = k
				if r.IntN(4) == 0 || (base == nil && r.IntN(2) == 0) { // the caller edits what it was given
					editResult(c, o.viol, w, st, k, i, call)
					kt.edited++
					if base == nil {
						st.editedNil = true
					}
					st.lastSev = nil
				}
			} else if chain != nil && err != nil {
				kt.chainRefused++
			}
		}
		if d := w.basesIntact(); d != "" {
			o.viol(c, "base-mutated", "%s during this call (err=%v); the base passed was %s", d, err, baseKind)
		}
		c.Cell("kept|sev|options=%s|base=%s|%s", keptOrFresh(st.keptOpts), baseKind, outcome)
		c.Cell("kept|sev|endorsement-value=%s|after=%s|%s", endMode(st.keptEnd, refilled), prev, outcome)
		st.checkKept(c, entSev, "earlier-result-changed", call, i, "after "+desc)
	} else {
		var base *tcpb.Policy
		baseKind := "nil"
		var chain *kept
		switch x := r.IntN(20); {
		case x < 4:
		case x < 11:
			base, baseKind = w.tdx[j].p, "own"
		case x < 13:
			k := r.IntN(len(w.tdx))
			base, baseKind = w.tdx[k].p, "other"
		case x < 18 && st.lastTdx != nil:
			chain = st.lastTdx
			base, baseKind = chain.msg.(*tcpb.Policy), "earlier-result"
		default:
			base, baseKind = st.toBelief.Base, "as-before"
		}
		if base == nil && baseKind != "as-before" {
			baseKind = "nil"
		}
		var snap *tcpb.Policy
		if base != nil {
			snap = proto.Clone(base).(*tcpb.Policy)
		}
		ram := 0
		switch x := r.IntN(10); {
		case x < 4:
		case x < 8 && len(e.rows) > 0:
			ram = int(e.rows[r.IntN(len(e.rows))].ram)
		default:
			ram = []int{48, -16, 1<<32 + 16, -1}[r.IntN(4)]
		}
		want := gcetcbendorsement.TdxPolicyOptions{Base: base, RAMGiB: ram, Overwrite: ow}
		opts := &gcetcbendorsement.TdxPolicyOptions{}
		baseWritten := true
		if st.keptOpts {
			opts = &st.to
			baseWritten = st.toBelief.Base != want.Base
			if baseWritten {
				opts.Base = want.Base
			}
			if st.toBelief.RAMGiB != want.RAMGiB {
				opts.RAMGiB = want.RAMGiB
			}
			if st.toBelief.Overwrite != want.Overwrite {
				opts.Overwrite = want.Overwrite
			}
		} else {
			*opts = want
		}
		st.toBelief = want
		desc = fmt.Sprintf("step %d: TdxPolicy endorsement#%d%s base=%s ram_gib=%d overwrite=%v", s, j, map[bool]string{true: "(undecodable bytes)", false: ""}[undecodable], baseKind, ram, ow)
		call := gname + " | " + desc
		var res *tcpb.Policy
		var err error
		m := c.Guard(i, entTdx, call, core.Budget{}, func() { res, err = gcetcbendorsement.TdxPolicy(ctx, st.end, opts) })
		o := &tdxObs{i: i, call: call, e: e, end: st.end, kind: relateTdx(base, e), base: base, snap: snap, ram: ram, ow: ow, res: res, err: err,
			more: map[string]any{"history": append([]string(nil), st.hist...), "one_options_value_kept": st.keptOpts, "one_endorsement_value_kept": st.keptEnd}}
		outcome = "refused"
		if m.Panicked {
			outcome = "panicked"
		} else {
			// (not written back: a caller that does not look goes on with what the call left there, and
			// the next derivations are judged against what the caller believes it passes)
			if judgeOptionsBase && opts.Base != want.Base {
				o.viol(c, "options-base-replaced", "after the call the caller's options value holds another base policy (%s) than the one the caller put there (%s)", js(opts.Base), js(snap))
			}
			if opts.RAMGiB != want.RAMGiB || opts.Overwrite != want.Overwrite {
				c.Note("TdxPolicy changed a field other than Base of the caller's options value (not judged by C17; the caller wrote it again)")
				b := opts.Base
				*opts = want
				opts.Base = b
			}
			if undecodable {
				if err == nil {
					kt.undecodableOK++
				} else {
					kt.undecodableRefused++
				}
				outcome = "undecodable"
			} else if tdxJudge(c, t, o) {
				derived, outcome = true, "derived"
				kt.derived++
				if st.keptOpts && baseWritten && s > 0 {
					kt.keptOptsDerivedAfterChangeOfBase++
				}
				if chain != nil {
					kt.chainDerived++
				}
				k := keep(res, s, desc)
				st.results = append(st.results, k)
				st.lastTdx = k
				if r.IntN(4) == 0 {
					editResult(c, o.viol, w, st, k, i, call)
					kt.edited++
					st.lastTdx = nil
				}
			} else if chain != nil && err != nil {
				kt.chainRefused++
			}
		}
		if d := w.basesIntact(); d != "" {
			o.viol(c, "base-mutated", "%s during this call (err=%v); the base passed was %s", d, err, baseKind)
		}
		c.Cell("kept|tdx|options=%s|base=%s|%s", keptOrFresh(st.keptOpts), baseKind, outcome)
		c.Cell("kept|tdx|endorsement-value=%s|after=%s|%s", endMode(st.keptEnd, refilled), prev, outcome)
		st.checkKept(c, entTdx, "earlier-result-changed", call, i, "after "+desc)
	}
	kt.recompared += len(st.results)
	if derived {
		if refilled {
			kt.refilledDerived++
		}
		if other {
			kt.otherEndorsementSameBase++
		}
		switch prev {
		case "refused":
			kt.afterRefused++
		case "undecodable":
			kt.afterUndecodable++
		}
		for _, k := range st.results {
			if k.edited && k.step < s {
				kt.derivedAfterEdit++
				break
			}
		}
	}
	st.prevKind = outcome
	if len(st.hist) < 40 {
		st.hist = append(st.hist, strings.TrimPrefix(desc, "step ")+" -> "+outcome)
	}
}

// editResult: the caller changes every byte and nested scalar of a policy it was given; its bases
// and the other policies it holds must not notice.
func editResult(c *core.Ctx, viol func(c *core.Ctx, rule, format string, a ...any), w *world, st *callerState, k *kept, i int, call string) {
	scramble(k.msg.ProtoReflect(), 0)
	k.edited = true
	k.resnap()
	if d := w.basesIntact(); d != "" {
		viol(c, "result-aliases-base", "%s when the caller edited the returned policy", d)
	}
	st.checkKept(c, "SevPolicy+TdxPolicy", "results-share-memory", call, i, fmt.Sprintf("after the caller edited the policy returned at step %d", k.step))
}

func keptOrFresh(b bool) string {
	if b {
		return "one-kept-value"
	}
	return "fresh-each-call"
}

func endMode(keptEnd, refilled bool) string {
	switch {
	case !keptEnd:
		return "fresh-each-call"
	case refilled:
		return "kept-and-just-refilled"
	}
	return "kept"
}

func (kt *keptTally) report(c *core.Ctx) {
	c.Count("kept/histories", kt.sessions)
	c.Count("kept/calls", kt.steps)
	c.Count("kept/derived", kt.derived)
	c.Count("kept/derived-through-the-one-options-value-after-its-base-field-was-rewritten", kt.keptOptsDerivedAfterChangeOfBase)
	c.Count("kept/derived-through-the-one-options-value-after-its-base-went-back-to-nil", kt.keptOptsDerivedToNil)
	c.Count("kept/derived-from-the-one-endorsement-value-just-refilled-in-place", kt.refilledDerived)
	c.Count("kept/derived-from-another-endorsement-than-the-call-before", kt.otherEndorsementSameBase)
	c.Count("kept/derived-right-after-a-refused-call", kt.afterRefused)
	c.Count("kept/derived-right-after-a-call-on-undecodable-bytes", kt.afterUndecodable)
	c.Count("kept/derived-from-an-earlier-result-as-base", kt.chainDerived)
	c.Count("kept/refused-an-earlier-result-as-base", kt.chainRefused)
	c.Count("kept/earlier-results-compared-again", kt.recompared)
	c.Count("kept/results-edited-by-the-caller", kt.edited)
	c.Count("kept/derived-after-the-caller-edited-an-earlier-result", kt.derivedAfterEdit)
	c.Count("kept/derived-from-nil-base-after-an-edited-nil-base-result", kt.nilAfterEditedNil)
	c.Count("kept/undecodable-bytes-refused", kt.undecodableRefused)
	c.Count("kept/undecodable-bytes-accepted(not judged)", kt.undecodableOK)
	c.Floor("kept:derived-through-one-options-value-after-base-rewritten-and-back-to-nil", kt.keptOptsDerivedAfterChangeOfBase > 0 && kt.keptOptsDerivedToNil > 0)
	c.Floor("kept:derived-from-endorsement-value-refilled-in-place", kt.refilledDerived > 0)
	c.Floor("kept:derived-right-after-refused-and-undecodable-calls", kt.afterRefused > 0 && kt.afterUndecodable > 0)
	c.Floor("kept:earlier-results-compared-again-and-fed-back-as-base", kt.recompared > 0 && kt.chainDerived > 0)
	c.Floor("kept:derived-after-caller-edited-earlier-results(also-nil-base)", kt.derivedAfterEdit > 0 && kt.nilAfterEditedNil > 0)
}
