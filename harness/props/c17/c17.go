// Package c17: policy derivation never weakens or mutates the caller's policy.
//
// SevPolicy / TdxPolicy are run on protoreflect-generated base policies (every
// field independently set or unset, guarded fields biased towards values that are
// compatible with the endorsement) against generated endorsements, for every
// combination of overwrite / allow-unspecified and several VMSA counts / RAM
// sizes. The endorsement fields that derivation does not use are populated too
// (svsm_measurement related to the base and the measurement table, a second CA
// bundle at golden level, cert, commit, timestamp, TDX SVN, unknown fields), so
// that a derivation that starts reading one of them is judged against the same
// clauses about the base policy. A reference model written from the property text says what a successful
// derivation may look like; refusals are never judged, only counted.
//
// Further families judged by the same rules: kept.go (what one caller keeps over a
// history of calls), conc.go (concurrent derivations from shared bases), bounds.go
// (value edges and equivalent encodings); world.go holds what they share.
package c17

import (
	"bytes"
	"context"
	"encoding/pem"
	"fmt"
	"math/rand/v2"
	"sort"
	"strings"

	"github.com/google/gce-tcb-verifier/gcetcbendorsement"
	epb "github.com/google/gce-tcb-verifier/proto/endorsement"
	cpb "github.com/google/go-sev-guest/proto/check"
	tcpb "github.com/google/go-tdx-guest/proto/checkconfig"
	"google.golang.org/protobuf/encoding/protojson"
	"google.golang.org/protobuf/encoding/protowire"
	"google.golang.org/protobuf/proto"
	"google.golang.org/protobuf/reflect/protoreflect"
	"google.golang.org/protobuf/types/known/timestamppb"

	"verifharness/core"
	"verifharness/gen"
)

const (
	entSev = "SevPolicy"
	entTdx = "TdxPolicy"
)

func init() {
	core.Register(&core.Info{
		ID: "C17", Level: "exploration",
		Rule: "case = (generated endorsement: guest policy, SVN, measurement table, CA bundle of 12 shapes, 0..4 TDX rows, and every endorsement field the derivation has no business reading populated as a decoy: svsm_measurement unset / fresh / equal to a listed measurement / equal to the base's measurement, golden-level ca_bundle / cert / commit / timestamp, TDX svn, unknown fields; SEV base policy nil or protoreflect-filled with every field independently set/unset, spare capacity behind the key lists, optional unknown fields, guarded fields drawn as unset / equal to the endorsement / conflicting; TDX base likewise). " +
			"Each case calls SevPolicy for overwrite x allow-unspecified x VMSA count in {0, listed, listed-and-equal-to-base, unlisted} and TdxPolicy for overwrite x RAM size in {0, listed, unlisted, negative, >32 bit}. " +
			"Oracle (successes only; refusals are counted, not judged): base equals its snapshot (proto.Equal, deterministic bytes, sentinels behind the key lists) after every call; result is a different object and flipping every byte / nested scalar of it leaves base unchanged; " +
			"without overwrite a set guest policy / measurement / any_mr_td survives and minimum_guest_svn is unchanged and not above the endorsed SVN; written measurement, guest policy, MRTD list and appended keys are the endorsement's (guest policy with overwrite may stay the base's non-zero value, as documented); malformed CA bundles and unlisted / unspecified VMSA counts are not accepted; every other field (and unknown fields) equals base or the documented default. " +
			"Further families, numbered after these cases and judged by the same rules (sevJudge / tdxJudge) against a snapshot of the base the caller passed: " +
			"(kept.go) histories of 12..24 calls by one caller who keeps ONE options value per entry point of which only changed fields are rewritten, ONE endorsement value whose serialized_uefi_golden buffer is refilled in place (signature left alone), the bases of 2-3 endorsements (unrelated and siblings differing in one respect), and every returned policy: compared again after every later call and after the buffer was refilled (earlier-result-changed), a quarter edited by the caller (results-share-memory, result-aliases-base), unedited ones fed back as base; refused calls and calls on undecodable bytes in between; the Base field of the options value must still be the caller's (options-base-replaced). " +
			"(conc.go) 4|8|16 goroutines released on a barrier, 24..63 pre-drawn calls each on the shared bases and (shared or own) endorsement values of one world; judged after the join exactly as a call made alone, bases compared with their snapshots, every other result edited. " +
			"(bounds.go) the main case on edges and equivalent encodings: zero-length / one-byte listed measurements requested; guest policies one bit (of 64) apart, endorsed policy 0 / all-ones; SVN and minimum at 0, 1, 2^31-1, 2^31, 2^32-1; VMSA counts 0, 255..257, 65536, 2^31, 2^32-1 as keys and requests; bundles with blank lines, CRLF, PEM headers, empty / one-byte body, CERTIFICATE REQUEST blocks, no final newline; TDX rows and requests for RAM sizes around 0, 2^31, 2^32, up to 24 rows with repeated MRTDs; the serialized golden re-encoded (field order, sev_snp / tdx split into two merging occurrences, decoy scalar / map entry ahead of the real one, non-minimal varints; accepted only if the protobuf library decodes it to an equal message). " +
			"non-trivial = distinct (overwrite, relation of each guarded base field to the endorsement, VMSA/RAM request kind, bundle shape, relation of svsm_measurement to the base and the measurement table, outcome) cells",
		Assumptions: []string{
			"with overwrite and a non-zero base guest policy the result may carry either the base's or the endorsement's guest policy (sevpolicy.go documents the former)",
			"with overwrite minimum_guest_svn is not judged (it is a guarded field, and overwrite lifts the guard)",
			"a successful derivation without overwrite whose base minimum_guest_svn exceeds the endorsed SVN counts as a violation (the conflict check named in the property's mechanism list)",
			"CA bundle shapes whose treatment the property does not fix (text before the first block, white space after the last) are only judged when accepted: the appended keys must then be the bundle's certificates",
			"a result measurement equal to the endorsement's non-empty svsm_measurement counts as 'of the endorsement' (counted, not judged by measurement-not-endorsed / unlisted-vmsas-accepted); the base's own set measurement must still survive without overwrite whatever the endorsement carries",
			"the MRTD allow-list is compared as a multiset (order is not part of the property)",
			"SevPolicy/TdxPolicy do not check signatures, so endorsements are unsigned payloads",
			"'returns a new policy' is read to include: a policy returned earlier still reads as returned after later derivations, after the caller reused its endorsement buffer and after the caller edited another returned policy",
			"'leaves the caller's base policy unchanged' is read to include the Base field of the options value the caller passed (kept.go const judgeOptionsBase); other option fields are only noted",
			"the property holds for every call whatever ran before or runs at the same time in the process (a verifier service derives policies from one shared base concurrently); a call that refuses where the same call alone would derive is counted, not judged",
			"bundle encodings whose treatment the property does not fix (blank lines between blocks, CRLF, PEM headers, empty body, no final newline) are only judged when accepted: the appended keys must then be the blocks' bodies; CERTIFICATE REQUEST blocks must be refused (strict type)"},
		ShardsQuick: 8, ShardsThor: 16, TimeoutS: 600, TimeoutThor: 3000, Run: run,
	})
}

// ---------------------------------------------------------------- generators

func rbytes(r *rand.Rand, n int) []byte {
	b := make([]byte, n)
	for i := range b {
		b[i] = byte(r.IntN(256))
	}
	return b
}

func cp(b []byte) []byte { return append([]byte(nil), b...) }

// fill sets every field of m independently with probability 1/2.
func fill(r *rand.Rand, m protoreflect.Message, depth int) {
	fds := m.Descriptor().Fields()
	for i := 0; i < fds.Len(); i++ {
		fd := fds.Get(i)
		if r.IntN(2) == 0 {
			continue
		}
		scalar := func() protoreflect.Value {
			switch fd.Kind() {
			case protoreflect.BoolKind:
				return protoreflect.ValueOfBool(r.IntN(3) != 0)
			case protoreflect.Uint32Kind, protoreflect.Fixed32Kind:
				return protoreflect.ValueOfUint32(uint32(r.IntN(6)))
			case protoreflect.Uint64Kind, protoreflect.Fixed64Kind:
				if r.IntN(2) == 0 {
					return protoreflect.ValueOfUint64(r.Uint64())
				}
				return protoreflect.ValueOfUint64(uint64(r.IntN(4)) * 0x10000)
			case protoreflect.Int32Kind, protoreflect.Sint32Kind, protoreflect.Sfixed32Kind:
				return protoreflect.ValueOfInt32(int32(r.IntN(7)) - 3)
			case protoreflect.Int64Kind, protoreflect.Sint64Kind, protoreflect.Sfixed64Kind:
				return protoreflect.ValueOfInt64(int64(r.IntN(7)) - 3)
			case protoreflect.StringKind:
				return protoreflect.ValueOfString([]string{"0.0", "1.55", "255.255", "junk", ""}[r.IntN(5)])
			case protoreflect.BytesKind:
				return protoreflect.ValueOfBytes(rbytes(r, []int{0, 1, 8, 16, 32, 47, 48, 48, 64}[r.IntN(9)]))
			case protoreflect.EnumKind:
				vs := fd.Enum().Values()
				return protoreflect.ValueOfEnum(vs.Get(r.IntN(vs.Len())).Number())
			case protoreflect.FloatKind:
				return protoreflect.ValueOfFloat32(float32(r.IntN(5)))
			case protoreflect.DoubleKind:
				return protoreflect.ValueOfFloat64(float64(r.IntN(5)))
			}
			return protoreflect.Value{}
		}
		switch {
		case fd.IsMap():
		case fd.IsList():
			l := m.Mutable(fd).List()
			n := r.IntN(3)
			for k := 0; k < n; k++ {
				if fd.Kind() == protoreflect.MessageKind {
					e := l.NewElement()
					fill(r, e.Message(), depth+1)
					l.Append(e)
				} else if v := scalar(); v.IsValid() {
					l.Append(v)
				}
			}
		case fd.Kind() == protoreflect.MessageKind:
			if depth < 4 {
				fill(r, m.Mutable(fd).Message(), depth+1) // may stay empty: presence of an empty message must survive too
			}
		default:
			if v := scalar(); v.IsValid() {
				m.Set(fd, v)
			}
		}
	}
	if r.IntN(10) == 0 { // unknown fields are "unrelated base fields" as well
		u := protowire.AppendTag(nil, protowire.Number(1000+r.IntN(50)), protowire.VarintType)
		u = protowire.AppendVarint(u, r.Uint64())
		m.SetUnknown(u)
	}
}

type bundle struct {
	kind       string
	pem        []byte
	ids, auths [][]byte // certificates the bundle contributes when it is accepted
	mustRefuse bool     // not a (identity[, author]) CERTIFICATE bundle
	unjudged   bool     // acceptance and refusal both tolerated
}

func pemBlock(typ string, der []byte) []byte {
	return pem.EncodeToMemory(&pem.Block{Type: typ, Bytes: der})
}

func genBundle(r *rand.Rand) *bundle {
	d1, d2, d3 := rbytes(r, 20+r.IntN(60)), rbytes(r, 20+r.IntN(60)), rbytes(r, 30)
	c1, c2, c3 := pemBlock("CERTIFICATE", d1), pemBlock("CERTIFICATE", d2), pemBlock("CERTIFICATE", d3)
	cat := func(p ...[]byte) []byte { return bytes.Join(p, nil) }
	switch r.IntN(16) {
	case 0, 1, 2:
		return &bundle{kind: "none"}
	case 3, 4, 5:
		return &bundle{kind: "id", pem: c1, ids: [][]byte{d1}}
	case 6, 7, 8:
		return &bundle{kind: "id+author", pem: cat(c1, c2), ids: [][]byte{d1}, auths: [][]byte{d2}}
	case 9:
		return &bundle{kind: "three-blocks", pem: cat(c1, c2, c3), mustRefuse: true}
	case 10:
		return &bundle{kind: "not-pem", pem: []byte("MIIB" + strings.Repeat("q", 1+r.IntN(40)) + "\n"), mustRefuse: true}
	case 11:
		return &bundle{kind: "first-not-certificate", pem: cat(pemBlock("PUBLIC KEY", d1), c2), mustRefuse: true}
	case 12:
		return &bundle{kind: "second-not-certificate", pem: cat(c1, pemBlock("RSA PRIVATE KEY", d2)), mustRefuse: true}
	case 13:
		if r.IntN(2) == 0 {
			return &bundle{kind: "text-after-id", pem: cat(c1, []byte("trailing text")), mustRefuse: true}
		}
		return &bundle{kind: "text-after-author", pem: cat(c1, c2, []byte("trailing text")), mustRefuse: true}
	case 14:
		if r.IntN(2) == 0 {
			return &bundle{kind: "text-before-id", pem: cat([]byte("subject=identity\n"), c1, c2), ids: [][]byte{d1}, auths: [][]byte{d2}, unjudged: true}
		}
		return &bundle{kind: "newline-after-last", pem: cat(c1, []byte("\n")), ids: [][]byte{d1}, unjudged: true}
	default:
		return &bundle{kind: "id-with-same-author", pem: cat(c1, c1), ids: [][]byte{d1}, auths: [][]byte{d1}}
	}
}

// endorsed is the oracle's own copy of what the endorsement says (never handed to the repository).
type endorsed struct {
	hasSnp, hasTdx bool
	policy         uint64
	svn            uint32
	meas           map[uint32][]byte
	bundle         *bundle
	rows           []row
	svsm           []byte // VMSevSnp.svsm_measurement as sent (nil = unset)
	svsmRel        string // unset | fresh | listed | base | short
	decoys         string // which further endorsement fields were populated
}

type row struct {
	ram  uint32
	mrtd []byte
}

var vmsaKeys = []uint32{1, 2, 4, 8, 64, 255}

func genEndorsement(r *rand.Rand) (*epb.VMGoldenMeasurement, *endorsed) {
	e := &endorsed{hasSnp: r.IntN(40) != 0, hasTdx: r.IntN(40) != 0, meas: map[uint32][]byte{}}
	g := &epb.VMGoldenMeasurement{ClSpec: uint64(r.IntN(1000)), Digest: rbytes(r, 48)}
	switch r.IntN(10) {
	case 0:
		e.policy = 0
	case 1:
		e.policy = 0x30000
	case 2:
		e.policy = gen.ProdPolicy() | 1<<19
	case 3:
		e.policy = r.Uint64()
	default:
		e.policy = gen.ProdPolicy()
	}
	e.svn = uint32(r.IntN(5))
	pool := [][]byte{rbytes(r, 48), rbytes(r, 48), rbytes(r, 48)}
	for _, k := range vmsaKeys {
		switch r.IntN(8) {
		case 0, 1, 2:
		case 3:
			e.meas[k] = rbytes(r, 48)
		case 4:
			if r.IntN(4) == 0 {
				e.meas[k] = rbytes(r, 47)
			} else {
				e.meas[k] = pool[0]
			}
		default:
			e.meas[k] = pool[r.IntN(len(pool))]
		}
	}
	e.bundle = genBundle(r)
	if e.hasSnp {
		s := &epb.VMSevSnp{Svn: e.svn, Policy: e.policy, Measurements: map[uint32][]byte{}, CaBundle: cp(e.bundle.pem), FamilyId: rbytes(r, 16), ImageId: rbytes(r, 16)}
		for k, v := range e.meas {
			s.Measurements[k] = cp(v)
		}
		g.SevSnp = s
	}
	rams := []uint32{0, 16, 16, 16, 32, 64, 0xffffffff}
	n := r.IntN(5)
	for i := 0; i < n; i++ {
		rw := row{ram: rams[r.IntN(len(rams))], mrtd: rbytes(r, 48)}
		if r.IntN(6) == 0 {
			rw.mrtd = pool[r.IntN(len(pool))]
		}
		e.rows = append(e.rows, rw)
	}
	if e.hasTdx {
		t := &epb.VMTdx{}
		for _, rw := range e.rows {
			t.Measurements = append(t.Measurements, &epb.VMTdx_Measurement{RamGib: rw.ram, Mrtd: cp(rw.mrtd), EarlyAccept: r.IntN(2) == 0})
		}
		g.Tdx = t
	}
	return g, e
}

// decorate populates the endorsement fields that policy derivation does not use (or that the
// property does not name as a source of policy values) with values that look like the real
// thing: a second measurement next to the per-VMSA table, a second CA bundle one level up,
// signer certificate, commit, timestamp, TDX SVN, unknown fields. Whatever the derivation
// makes of them, the clauses of the property about the base policy are judged as before.
// Drawn after the base policies so that svsm_measurement can be related to the base.
func decorate(r *rand.Rand, g *epb.VMGoldenMeasurement, e *endorsed, sb *sevBase) {
	var keys []uint32
	for _, k := range vmsaKeys {
		if len(e.meas[k]) > 0 {
			keys = append(keys, k)
		}
	}
	e.svsmRel = "unset"
	switch x := r.IntN(12); {
	case x < 3:
	case x < 4:
		e.svsm, e.svsmRel = rbytes(r, []int{1, 32, 47, 64}[r.IntN(4)]), "short"
	case x < 6 && len(keys) > 0:
		e.svsm, e.svsmRel = cp(e.meas[keys[r.IntN(len(keys))]]), "listed"
	case x < 8 && sb.p != nil && len(sb.p.Measurement) > 0:
		e.svsm, e.svsmRel = cp(sb.p.Measurement), "base"
		if sb.measKind == "endorsed" {
			e.svsmRel = "listed"
		}
	default:
		e.svsm, e.svsmRel = rbytes(r, 48), "fresh"
	}
	var d []string
	if g.SevSnp != nil {
		g.SevSnp.SvsmMeasurement = cp(e.svsm)
		if r.IntN(8) == 0 {
			g.SevSnp.ProtoReflect().SetUnknown(unknownField(r))
			d = append(d, "snp-unknown")
		}
	}
	if r.IntN(2) == 0 { // a bundle of another shape and with other certificates than sev_snp.ca_bundle
		g.CaBundle = genBundle(r).pem
		d = append(d, "golden-ca-bundle")
	}
	if r.IntN(2) == 0 {
		g.Cert = rbytes(r, 40+r.IntN(40))
		d = append(d, "cert")
	}
	if r.IntN(2) == 0 {
		g.Commit = rbytes(r, 20)
		d = append(d, "commit")
	}
	if r.IntN(2) == 0 {
		g.Timestamp = &timestamppb.Timestamp{Seconds: int64(r.IntN(1 << 31)), Nanos: int32(r.IntN(1000000000))}
		d = append(d, "timestamp")
	}
	if g.Tdx != nil {
		if r.IntN(2) == 0 {
			g.Tdx.Svn = uint32(1 + r.IntN(5))
			d = append(d, "tdx-svn")
		}
		if r.IntN(8) == 0 {
			g.Tdx.ProtoReflect().SetUnknown(unknownField(r))
			d = append(d, "tdx-unknown")
		}
	}
	if r.IntN(8) == 0 {
		g.ProtoReflect().SetUnknown(unknownField(r))
		d = append(d, "golden-unknown")
	}
	e.decoys = strings.Join(d, ",")
}

func unknownField(r *rand.Rand) []byte {
	u := protowire.AppendTag(nil, protowire.Number(1000+r.IntN(50)), protowire.BytesType)
	return protowire.AppendBytes(u, rbytes(r, 48))
}

func (e *endorsed) isSvsm(m []byte) bool { return len(e.svsm) > 0 && bytes.Equal(m, e.svsm) }

// listed returns the MRTDs the endorsement lists for a RAM request (0 = all).
func (e *endorsed) listed(ram int) [][]byte {
	var out [][]byte
	for _, rw := range e.rows {
		if ram == 0 || (ram > 0 && uint64(ram) == uint64(rw.ram)) {
			out = append(out, rw.mrtd)
		}
	}
	return out
}

// spare gives a key list two unused slots holding sentinels, so that an append
// through a shallow copy of the base would be seen.
type spare struct {
	full [][]byte
	n    int
	s    [2][]byte
}

func withSpare(r *rand.Rand, list [][]byte) ([][]byte, *spare) {
	n := len(list)
	full := make([][]byte, n+2)
	copy(full, list)
	sp := &spare{full: full, n: n}
	for k := 0; k < 2; k++ {
		sp.s[k] = []byte(fmt.Sprintf("SENTINEL-%d-%x", k, r.Uint32()))
		full[n+k] = sp.s[k]
	}
	return full[: n : n+2], sp
}

func (s *spare) intact() bool {
	if s == nil {
		return true
	}
	for k := 0; k < 2; k++ {
		got := s.full[s.n+k]
		if len(got) != len(s.s[k]) || (len(got) > 0 && &got[0] != &s.s[k][0]) {
			return false
		}
	}
	return true
}

type sevBase struct {
	p             *cpb.Policy
	polRel        string // nil-base | unset | equal | differs
	measKind      string // unset | endorsed | neighbour | foreign
	svnRel        string // unset | le | gt
	idSp, authSp  *spare
	measMatchesAt uint32 // VMSA count whose endorsed measurement equals the base's (0 = none)
}

func genSevBase(r *rand.Rand, e *endorsed) *sevBase {
	b := &sevBase{polRel: "nil-base", measKind: "nil-base", svnRel: "nil-base"}
	if r.IntN(8) == 0 {
		return b
	}
	p := &cpb.Policy{}
	if r.IntN(10) != 0 {
		fill(r, p.ProtoReflect(), 0)
	}
	switch x := r.IntN(20); {
	case x < 7:
		p.Policy = 0
	case x < 15:
		p.Policy = e.policy
	default:
		p.Policy = []uint64{gen.ProdPolicy(), 0x30000, e.policy ^ 1<<16, e.policy | 1<<19, 1}[r.IntN(5)]
	}
	switch {
	case p.Policy == 0:
		b.polRel = "unset"
	case p.Policy == e.policy:
		b.polRel = "equal"
	default:
		b.polRel = "differs"
	}
	var keys []uint32
	for _, k := range vmsaKeys {
		if len(e.meas[k]) > 0 {
			keys = append(keys, k)
		}
	}
	b.measKind = "unset"
	p.Measurement = nil
	switch x := r.IntN(20); {
	case x < 6:
	case x < 7:
		p.Measurement = []byte{} // set in Go, unset on the wire
	case x < 15 && len(keys) > 0:
		k := keys[r.IntN(len(keys))]
		p.Measurement = cp(e.meas[k])
		b.measKind, b.measMatchesAt = "endorsed", k
	case x < 17 && len(keys) > 0:
		m := cp(e.meas[keys[r.IntN(len(keys))]])
		m[r.IntN(len(m))] ^= 1 << r.IntN(8)
		p.Measurement, b.measKind = m, "neighbour"
	default:
		p.Measurement, b.measKind = rbytes(r, 48), "foreign"
	}
	switch x := r.IntN(20); {
	case x < 8:
		p.MinimumGuestSvn, b.svnRel = 0, "unset"
	case x < 15:
		p.MinimumGuestSvn = uint32(r.IntN(int(e.svn) + 1))
		b.svnRel = "le"
		if p.MinimumGuestSvn == 0 {
			b.svnRel = "unset"
		}
	default:
		p.MinimumGuestSvn, b.svnRel = e.svn+1+uint32(r.IntN(3)), "gt"
	}
	p.TrustedIdKeys, b.idSp = withSpare(r, p.TrustedIdKeys)
	p.TrustedAuthorKeys, b.authSp = withSpare(r, p.TrustedAuthorKeys)
	b.p = p
	return b
}

type tdxBase struct {
	p     *tcpb.Policy
	kind  string // nil-base | no-body | unset | empty-list | endorsed | foreign
	anySp *spare
}

func genTdxBase(r *rand.Rand, e *endorsed) *tdxBase {
	b := &tdxBase{kind: "nil-base"}
	if r.IntN(6) == 0 {
		return b
	}
	p := &tcpb.Policy{}
	fill(r, p.ProtoReflect(), 0)
	if r.IntN(5) == 0 {
		p.TdQuoteBodyPolicy = nil
	} else if p.TdQuoteBodyPolicy == nil {
		p.TdQuoteBodyPolicy = &tcpb.TDQuoteBodyPolicy{}
	}
	if q := p.TdQuoteBodyPolicy; q == nil {
		b.kind = "no-body"
	} else {
		switch x := r.IntN(20); {
		case x < 8:
			q.AnyMrTd, b.kind = nil, "unset"
		case x < 10:
			q.AnyMrTd, b.kind = [][]byte{}, "empty-list"
		case x < 15 && len(e.rows) > 0:
			b.kind = "endorsed"
			q.AnyMrTd = nil
			for _, m := range e.listed(0) {
				if r.IntN(2) == 0 || len(q.AnyMrTd) == 0 {
					q.AnyMrTd = append(q.AnyMrTd, cp(m))
				}
			}
		default:
			b.kind = "foreign"
			q.AnyMrTd = [][]byte{rbytes(r, 48)}
			if r.IntN(2) == 0 {
				q.AnyMrTd = append(q.AnyMrTd, rbytes(r, 48))
			}
		}
		if len(q.AnyMrTd) > 0 {
			q.AnyMrTd, b.anySp = withSpare(r, q.AnyMrTd)
		}
	}
	b.p = p
	return b
}

// ---------------------------------------------------------------- oracle helpers

func detBytes(m proto.Message) []byte {
	b, err := proto.MarshalOptions{Deterministic: true}.Marshal(m)
	if err != nil {
		return []byte("marshal error: " + err.Error())
	}
	return b
}

func valueEqual(fd protoreflect.FieldDescriptor, a, b protoreflect.Value) bool {
	switch {
	case fd.IsList():
		la, lb := a.List(), b.List()
		if la.Len() != lb.Len() {
			return false
		}
		for i := 0; i < la.Len(); i++ {
			if !singleEqual(fd, la.Get(i), lb.Get(i)) {
				return false
			}
		}
		return true
	case fd.IsMap():
		return false // neither policy message has maps
	}
	return singleEqual(fd, a, b)
}

func singleEqual(fd protoreflect.FieldDescriptor, a, b protoreflect.Value) bool {
	switch fd.Kind() {
	case protoreflect.MessageKind, protoreflect.GroupKind:
		return proto.Equal(a.Message().Interface(), b.Message().Interface())
	case protoreflect.BytesKind:
		return bytes.Equal(a.Bytes(), b.Bytes())
	}
	return a.Interface() == b.Interface()
}

// diffFields names the fields (and "<unknown>") in which two messages of one type differ.
func diffFields(a, b protoreflect.Message) []string {
	var out []string
	fds := a.Descriptor().Fields()
	for i := 0; i < fds.Len(); i++ {
		fd := fds.Get(i)
		if a.Has(fd) != b.Has(fd) {
			out = append(out, string(fd.Name()))
			continue
		}
		if a.Has(fd) && !valueEqual(fd, a.Get(fd), b.Get(fd)) {
			out = append(out, string(fd.Name()))
		}
	}
	if !bytes.Equal(a.GetUnknown(), b.GetUnknown()) {
		out = append(out, "<unknown>")
	}
	return out
}

// scramble flips every byte of every bytes value in place and changes every scalar
// of nested messages of m: whatever m shares with another message changes there too.
func scramble(m protoreflect.Message, depth int) {
	m.Range(func(fd protoreflect.FieldDescriptor, v protoreflect.Value) bool {
		flip := func(b []byte) {
			for i := range b {
				b[i] ^= 0xa5
			}
		}
		bump := func(v protoreflect.Value) (protoreflect.Value, bool) {
			switch fd.Kind() {
			case protoreflect.BoolKind:
				return protoreflect.ValueOfBool(!v.Bool()), true
			case protoreflect.Uint32Kind, protoreflect.Fixed32Kind:
				return protoreflect.ValueOfUint32(uint32(v.Uint()) + 1), true
			case protoreflect.Uint64Kind, protoreflect.Fixed64Kind:
				return protoreflect.ValueOfUint64(v.Uint() + 1), true
			case protoreflect.Int32Kind, protoreflect.Sint32Kind, protoreflect.Sfixed32Kind:
				return protoreflect.ValueOfInt32(int32(v.Int()) + 1), true
			case protoreflect.Int64Kind, protoreflect.Sint64Kind, protoreflect.Sfixed64Kind:
				return protoreflect.ValueOfInt64(v.Int() + 1), true
			case protoreflect.StringKind:
				return protoreflect.ValueOfString(v.String() + "!"), true
			case protoreflect.EnumKind:
				return protoreflect.ValueOfEnum(v.Enum() + 1), true
			}
			return v, false
		}
		switch {
		case fd.IsMap():
		case fd.IsList():
			l := v.List()
			for i := 0; i < l.Len(); i++ {
				switch fd.Kind() {
				case protoreflect.BytesKind:
					flip(l.Get(i).Bytes())
				case protoreflect.MessageKind:
					scramble(l.Get(i).Message(), depth+1)
				default:
					if nv, ok := bump(l.Get(i)); ok {
						l.Set(i, nv)
					}
				}
			}
			if fd.Kind() == protoreflect.BytesKind {
				l.Append(protoreflect.ValueOfBytes([]byte("appended-by-the-monitor")))
			}
		case fd.Kind() == protoreflect.MessageKind:
			scramble(v.Message(), depth+1)
		case fd.Kind() == protoreflect.BytesKind:
			flip(v.Bytes())
		default:
			if nv, ok := bump(v); ok {
				m.Set(fd, nv)
			}
		}
		return true
	})
	m.SetUnknown(append(cp(m.GetUnknown()), 0xf8, 0x3e, 0x01)) // field 1007 varint 1
}

func bytesListEqual(a, b [][]byte) bool {
	if len(a) != len(b) {
		return false
	}
	for i := range a {
		if !bytes.Equal(a[i], b[i]) {
			return false
		}
	}
	return true
}

func multisetEqual(a, b [][]byte) bool {
	if len(a) != len(b) {
		return false
	}
	sa, sb := make([]string, len(a)), make([]string, len(b))
	for i := range a {
		sa[i], sb[i] = string(a[i]), string(b[i])
	}
	sort.Strings(sa)
	sort.Strings(sb)
	for i := range sa {
		if sa[i] != sb[i] {
			return false
		}
	}
	return true
}

func cat(a, b [][]byte) [][]byte {
	out := make([][]byte, 0, len(a)+len(b))
	out = append(out, a...)
	return append(out, b...)
}

func js(m proto.Message) string {
	if m == nil || !m.ProtoReflect().IsValid() {
		return "null"
	}
	b, err := protojson.MarshalOptions{}.Marshal(m)
	if err != nil {
		return "unprintable: " + err.Error()
	}
	return string(b)
}

func stripDigits(s string) string {
	return strings.Map(func(r rune) rune {
		if r >= '0' && r <= '9' {
			return '#'
		}
		return r
	}, s)
}

// ---------------------------------------------------------------- run

type tally struct {
	sevOK, sevOKFilled, sevOKNil, sevOKOverwriteDiffers         int
	sevKeepPolicy, sevKeepMeas, sevKeepSvn                      int
	sevKeepMeasBesideSvsm, sevOKWithSvsm, sevSvsmInResult       int
	tdxOKDecorated                                              int
	sevRefPolicy, sevRefMeas, sevRefSvn, sevRefBundle, sevRefNo int
	sevKeysAppended, sevKeysBoth                                int
	tdxOK, tdxOKFilled, tdxGuardRefused, tdxOverwritten         int
	surprisingRefusals                                          int
	// edges (bounds.go)
	sevShortDerived, sevShortKept, sevShortRefused int // endorsed measurement of 0 or 1 bytes requested
	sevBigCountDerived, tdxEdgeDerived             int
}

func run(c *core.Ctx) {
	ctx := context.Background()
	n := c.N(5000, 100000)
	var t tally
	for i := 0; i < n; i++ {
		if !c.Mine(i) {
			continue
		}
		r := c.Rand(i)
		g, e := genEndorsement(r)
		sb := genSevBase(r, e)
		tb := genTdxBase(r, e)
		decorate(r, g, e, sb)
		gb, merr := proto.Marshal(g)
		if merr != nil {
			panic(merr)
		}
		end := &epb.VMLaunchEndorsement{SerializedUefiGolden: gb, Signature: rbytes(r, 16)}
		endSnap := cp(end.SerializedUefiGolden)
		gname := fmt.Sprintf("case#%d snp=%v tdx=%v bundle=%s svsm=%s decoys[%s] sevbase[policy=%s meas=%s minsvn=%s] tdxbase[%s]", i, e.hasSnp, e.hasTdx, e.bundle.kind, e.svsmRel, e.decoys, sb.polRel, sb.measKind, sb.svnRel, tb.kind)
		c.Begin(i, gname, "SevPolicy+TdxPolicy", end.SerializedUefiGolden)
		sevCase(c, ctx, i, r, gname, end, e, sb, &t, vmsaKeys)
		tdxCase(c, ctx, i, r, gname, end, e, tb, &t, nil)
		if !bytes.Equal(endSnap, end.SerializedUefiGolden) {
			c.Note("the endorsement passed to the derivation was modified (not part of C17; seen in case %d)", i)
		}
		c.End(i)
	}
	c.Count("sev/derived", t.sevOK)
	c.Count("sev/derived-from-filled-base", t.sevOKFilled)
	c.Count("sev/derived-from-nil-base", t.sevOKNil)
	c.Count("sev/derived-with-overwrite-over-conflicting-base", t.sevOKOverwriteDiffers)
	c.Count("sev/kept-set-guest-policy", t.sevKeepPolicy)
	c.Count("sev/kept-set-measurement", t.sevKeepMeas)
	c.Count("sev/kept-set-min-guest-svn", t.sevKeepSvn)
	c.Count("sev/kept-set-measurement-beside-a-different-svsm-measurement", t.sevKeepMeasBesideSvsm)
	c.Count("sev/derived-from-endorsement-with-svsm-measurement", t.sevOKWithSvsm)
	c.Count("sev/result-measurement-is-svsm-measurement-not-the-vmsa-row(not judged)", t.sevSvsmInResult)
	c.Count("tdx/derived-from-endorsement-with-unused-fields-set", t.tdxOKDecorated)
	c.Count("sev/refused-guest-policy-conflict", t.sevRefPolicy)
	c.Count("sev/refused-measurement-conflict", t.sevRefMeas)
	c.Count("sev/refused-min-guest-svn-conflict", t.sevRefSvn)
	c.Count("sev/refused-malformed-bundle", t.sevRefBundle)
	c.Count("sev/refused-unlisted-or-unspecified-vmsas", t.sevRefNo)
	c.Count("sev/derived-with-appended-keys", t.sevKeysAppended)
	c.Count("sev/derived-with-identity-and-author-key", t.sevKeysBoth)
	c.Count("tdx/derived", t.tdxOK)
	c.Count("tdx/derived-from-filled-base", t.tdxOKFilled)
	c.Count("tdx/refused-existing-any-mr-td", t.tdxGuardRefused)
	c.Count("tdx/overwrote-existing-any-mr-td", t.tdxOverwritten)
	c.Count("refusals-the-model-did-not-expect(not judged)", t.surprisingRefusals)
	c.Floor("sev-derived-from-filled-base", t.sevOKFilled > 0)
	c.Floor("sev-derived-from-nil-base", t.sevOKNil > 0)
	c.Floor("sev-kept-set-guest-policy-measurement-minsvn", t.sevKeepPolicy > 0 && t.sevKeepMeas > 0 && t.sevKeepSvn > 0)
	c.Floor("sev-kept-set-measurement-beside-a-different-svsm-measurement", t.sevKeepMeasBesideSvsm > 0)
	c.Floor("derived-from-endorsements-with-unused-fields-set", t.sevOKWithSvsm > 0 && t.tdxOKDecorated > 0)
	c.Floor("sev-refused-each-guarded-conflict", t.sevRefPolicy > 0 && t.sevRefMeas > 0 && t.sevRefSvn > 0)
	c.Floor("sev-overwrite-over-conflicting-base", t.sevOKOverwriteDiffers > 0)
	c.Floor("sev-keys-appended-and-malformed-bundle-refused", t.sevKeysBoth > 0 && t.sevRefBundle > 0)
	c.Floor("tdx-derived-from-filled-base", t.tdxOKFilled > 0)
	c.Floor("tdx-guard-refused-and-overwrite-replaced", t.tdxGuardRefused > 0 && t.tdxOverwritten > 0)

	// further families, numbered after the main family's cases; judged by the same sevJudge / tdxJudge
	var tx tally
	kt, ct, bt := &keptTally{}, &concTally{}, &boundsTally{}
	first := n
	nk := c.N(1000, 10000)
	keptFamily(c, first, nk, &tx, kt)
	first += nk
	nc := c.N(96, 800)
	concFamily(c, first, nc, &tx, ct)
	first += nc
	nb := c.N(3000, 40000)
	boundsFamily(c, first, nb, &tx, bt)
	kt.report(c)
	ct.report(c)
	bt.report(c, &tx)
	c.Count("families/sev-derived", tx.sevOK)
	c.Count("families/tdx-derived", tx.tdxOK)
	c.Count("families/sev-kept-set-guarded-field", tx.sevKeepPolicy+tx.sevKeepMeas+tx.sevKeepSvn)
	c.Count("families/refused-guarded-conflict", tx.sevRefPolicy+tx.sevRefMeas+tx.sevRefSvn+tx.tdxGuardRefused)
	c.Count("families/refusals-the-model-did-not-expect(not judged)", tx.surprisingRefusals)
}

// sevObs is one observed SevPolicy call: what was passed (base as passed and its snapshot taken
// before the call), what the oracle knows about the endorsement, and what came back.
type sevObs struct {
	i                        int
	call                     string
	e                        *endorsed
	end                      *epb.VMLaunchEndorsement
	polRel, measKind, svnRel string
	base, snap               *cpb.Policy
	req                      uint32
	ow, allow                bool
	res                      *cpb.Policy
	err                      error
	sample                   bool
	more                     map[string]any // further witness entries (history of a session, ...)
}

func (o *sevObs) witness() any {
	w := map[string]any{"base": js(o.snap), "base_is_nil": o.snap == nil, "endorsement_serialized_uefi_golden": o.end.GetSerializedUefiGolden(),
		"launch_vmsas": o.req, "overwrite": o.ow, "allow_unspecified_vmsas": o.allow, "result": js(o.res), "error": fmt.Sprint(o.err),
		"endorsed_measurement_for_launch_vmsas": fmt.Sprintf("%x", o.e.meas[o.req]), "endorsed_svsm_measurement": fmt.Sprintf("%x", o.e.svsm)}
	for k, v := range o.more {
		w[k] = v
	}
	return w
}

func (o *sevObs) viol(c *core.Ctx, rule, format string, a ...any) {
	c.Violate(core.Violation{Kind: "oracle", Entry: entSev, Site: rule, Gen: o.call, Case: o.i, Detail: fmt.Sprintf(format, a...), Witness: o.witness()})
}

func sevCase(c *core.Ctx, ctx context.Context, i int, r *rand.Rand, gname string, end *epb.VMLaunchEndorsement, e *endorsed, sb *sevBase, t *tally, keys []uint32) {
	base := sb.p
	var snap *cpb.Policy
	var snapBytes []byte
	if base != nil {
		snap = proto.Clone(base).(*cpb.Policy)
		snapBytes = detBytes(base)
	}
	// VMSA requests
	var present, absent []uint32
	for _, k := range keys {
		if _, ok := e.meas[k]; ok {
			present = append(present, k)
		} else {
			absent = append(absent, k)
		}
	}
	absent = append(absent, 3, 1<<31)
	reqs := []uint32{0, absent[r.IntN(len(absent))]}
	if len(present) > 0 {
		reqs = append(reqs, present[r.IntN(len(present))])
	}
	if sb.measMatchesAt != 0 {
		reqs = append(reqs, sb.measMatchesAt)
	}
	baseBroken := false
	for _, req := range reqs {
		for combo := 0; combo < 4; combo++ {
			ow, allow := combo&1 != 0, combo&2 != 0
			if baseBroken { // already reported: continue the case on a fresh copy of the snapshot
				base = proto.Clone(snap).(*cpb.Policy)
				sb.idSp, sb.authSp = nil, nil
				baseBroken = false
			}
			opts := &gcetcbendorsement.SevPolicyOptions{Base: base, LaunchVmsas: req, Overwrite: ow, AllowUnspecifiedVmsas: allow}
			call := fmt.Sprintf("%s | vmsas=%d overwrite=%v allow_unspecified=%v", gname, req, ow, allow)
			var res *cpb.Policy
			var err error
			m := c.Guard(i, entSev, call, core.Budget{}, func() { res, err = gcetcbendorsement.SevPolicy(ctx, end, opts) })
			if m.Panicked {
				continue
			}
			o := &sevObs{i: i, call: call, e: e, end: end, polRel: sb.polRel, measKind: sb.measKind, svnRel: sb.svnRel, base: base, snap: snap,
				req: req, ow: ow, allow: allow, res: res, err: err, sample: i%397 == 0 && combo == 0}
			// --- the caller's policy is never touched, whatever the outcome
			if base != nil && !baseBroken {
				if !proto.Equal(base, snap) || !bytes.Equal(detBytes(base), snapBytes) {
					o.viol(c, "base-mutated", "the caller's base policy changed in %v during the call (err=%v)", diffFields(base.ProtoReflect(), snap.ProtoReflect()), err)
					baseBroken = true
				} else if !sb.idSp.intact() || !sb.authSp.intact() {
					o.viol(c, "base-backing-array-written", "the derivation wrote behind the end of the caller's trusted key list (append through a shallow copy)")
					baseBroken = true
				}
			}
			if !sevJudge(c, t, o) {
				continue
			}
			// the result shares no memory with the base (last: this destroys res)
			if base != nil && res != base && !baseBroken {
				scramble(res.ProtoReflect(), 0)
				if !proto.Equal(base, snap) || !bytes.Equal(detBytes(base), snapBytes) {
					o.viol(c, "result-aliases-base", "changing the returned policy changed the caller's base policy in %v", diffFields(base.ProtoReflect(), snap.ProtoReflect()))
					baseBroken = true
				} else if !sb.idSp.intact() || !sb.authSp.intact() {
					o.viol(c, "result-aliases-base", "appending to a key list of the returned policy wrote into the backing array of the caller's list")
					baseBroken = true
				}
			}
		}
	}
}

// sevJudge applies the clauses of the property to one observed SevPolicy call. It reports whether
// a policy was derived and judged (the caller may then probe it for shared memory).
func sevJudge(c *core.Ctx, t *tally, o *sevObs) bool {
	e, base, snap, req, ow, allow, res, err := o.e, o.base, o.snap, o.req, o.ow, o.allow, o.res, o.err
	viol := func(rule, format string, a ...any) { o.viol(c, rule, format, a...) }
	sb := o // relation labels
	// the reference the result is compared with: the snapshot, or the documented default
	ref := snap
	if ref == nil {
		ref = &cpb.Policy{Policy: gen.ProdPolicy(), MinimumVersion: "0.0"}
	}
	// what the property lets a success look like
	vmsaKind := "vmsas=0"
	if req != 0 {
		vmsaKind = "vmsas=unlisted"
		if _, ok := e.meas[req]; ok {
			vmsaKind = "vmsas=listed"
		}
	}
	expect := "ok"
	switch {
	case !e.hasSnp:
		expect = "no-sev-snp"
	case !ow && ref.Policy != 0 && ref.Policy != e.policy:
		expect = "guest-policy-conflict"
	case !ow && req != 0 && len(ref.Measurement) != 0 && !bytes.Equal(ref.Measurement, e.meas[req]):
		expect = "measurement-conflict"
	case !ow && ref.MinimumGuestSvn != 0 && e.svn < ref.MinimumGuestSvn:
		expect = "min-guest-svn-conflict"
	case req == 0 && !allow:
		expect = "vmsas-unspecified"
	case vmsaKind == "vmsas=unlisted":
		expect = "vmsas-unlisted"
	case e.bundle.mustRefuse:
		expect = "malformed-bundle"
	case e.bundle.unjudged:
		expect = "bundle-unjudged"
	}
	outcome := "refused"
	if err == nil {
		outcome = "derived"
	}
	c.Cell("sev-guarded|ow=%v|policy=%s|meas=%s|minsvn=%s|%s", ow, sb.polRel, sb.measKind, sb.svnRel, outcome)
	c.Cell("sev-request|ow=%v|allow=%v|%s|expect=%s|%s", ow, allow, vmsaKind, expect, outcome)
	c.Cell("sev-bundle|%s|%s", e.bundle.kind, outcome)
	c.Cell("sev-svsm|ow=%v|svsm=%s|meas=%s|%s|%s", ow, e.svsmRel, sb.measKind, vmsaKind, outcome)
	if err != nil {
		switch expect {
		case "ok":
			t.surprisingRefusals++
			c.Note("SevPolicy refused a derivation the model would allow (not judged), first seen form: %s", stripDigits(err.Error()))
		case "guest-policy-conflict":
			t.sevRefPolicy++
		case "measurement-conflict":
			t.sevRefMeas++
			if m, ok := e.meas[req]; ok && len(m) <= 1 {
				t.sevShortRefused++
				c.Cell("sev-short-measurement|len=%d|base-meas=%s|ow=%v|refused", len(m), sb.measKind, ow)
			}
		case "min-guest-svn-conflict":
			t.sevRefSvn++
		case "malformed-bundle":
			t.sevRefBundle++
		case "vmsas-unspecified", "vmsas-unlisted":
			t.sevRefNo++
		}
		return false
	}
	// --- a derivation succeeded
	if !e.hasSnp {
		c.Count("sev/derived-without-sev-snp-part(not judged)", 1)
		return false
	}
	if res == nil {
		viol("nil-result", "SevPolicy returned neither a policy nor an error")
		return false
	}
	t.sevOK++
	if len(e.svsm) > 0 {
		t.sevOKWithSvsm++
	}
	if base == nil {
		t.sevOKNil++
	} else {
		t.sevOKFilled++
	}
	if base != nil && res == base {
		viol("result-is-base", "SevPolicy returned the caller's base policy object instead of a new policy")
	}
	// guarded fields
	if !ow && base != nil {
		if ref.Policy != 0 {
			if res.Policy != ref.Policy {
				viol("guest-policy-overwritten", "base guest policy %#x replaced by %#x without overwrite", ref.Policy, res.Policy)
			} else {
				t.sevKeepPolicy++
			}
		}
		if len(ref.Measurement) != 0 {
			if !bytes.Equal(res.Measurement, ref.Measurement) {
				viol("measurement-overwritten", "base measurement %x replaced by %x without overwrite", ref.Measurement, res.Measurement)
			} else {
				t.sevKeepMeas++
				if len(e.svsm) > 0 && !bytes.Equal(e.svsm, ref.Measurement) {
					t.sevKeepMeasBesideSvsm++
				}
			}
		}
		if ref.MinimumGuestSvn != 0 {
			if res.MinimumGuestSvn != ref.MinimumGuestSvn {
				viol("min-guest-svn-changed", "base minimum_guest_svn %d became %d without overwrite", ref.MinimumGuestSvn, res.MinimumGuestSvn)
			} else if e.svn < ref.MinimumGuestSvn {
				viol("min-guest-svn-conflict-accepted", "base minimum_guest_svn %d rejects the endorsed SVN %d, yet the derivation succeeded without overwrite", ref.MinimumGuestSvn, e.svn)
			} else {
				t.sevKeepSvn++
			}
		}
	} else if expect == "ok" && (sb.polRel == "differs" || sb.measKind == "neighbour" || sb.measKind == "foreign" || sb.svnRel == "gt") {
		t.sevOKOverwriteDiffers++
	}
	// values written are the endorsement's
	switch {
	case !ow || ref.Policy == 0:
		if res.Policy != e.policy {
			viol("guest-policy-not-endorsed", "result guest policy %#x, endorsement says %#x (base had %#x, overwrite=%v)", res.Policy, e.policy, ref.Policy, ow)
		}
	default: // documented: with overwrite a non-zero base guest policy wins
		if res.Policy != e.policy && res.Policy != ref.Policy {
			viol("guest-policy-not-endorsed", "result guest policy %#x is neither the endorsement's %#x nor the base's %#x", res.Policy, e.policy, ref.Policy)
		}
	}
	if req != 0 {
		want, ok := e.meas[req]
		if ok && len(want) <= 1 {
			t.sevShortDerived++
			if !ow && base != nil && len(ref.Measurement) != 0 {
				t.sevShortKept++
			}
			c.Cell("sev-short-measurement|len=%d|base-meas=%s|ow=%v|derived", len(want), sb.measKind, ow)
		}
		if ok && req > 255 {
			t.sevBigCountDerived++
			c.Cell("sev-vmsa-count|%s|derived", countClass(req))
		}
		switch {
		case ok && bytes.Equal(res.Measurement, want):
		case e.isSvsm(res.Measurement): // the endorsement's other measurement: "of the endorsement", not judged here
			t.sevSvsmInResult++
		case !ok:
			viol("unlisted-vmsas-accepted", "the endorsement lists no measurement for %d VMSAs, yet a policy was derived (measurement %x)", req, res.Measurement)
		default:
			viol("measurement-not-endorsed", "result measurement %x, endorsement lists %x for %d VMSAs (svsm_measurement %x)", res.Measurement, want, req, e.svsm)
		}
	} else {
		if !allow {
			viol("unspecified-vmsas-accepted", "launch_vmsas=0 without allow-unspecified produced a policy")
		}
		if len(res.Measurement) != 0 && !bytes.Equal(res.Measurement, ref.Measurement) && e.isSvsm(res.Measurement) {
			t.sevSvsmInResult++
		} else if len(res.Measurement) != 0 && !bytes.Equal(res.Measurement, ref.Measurement) {
			viol("measurement-not-endorsed", "no VMSA count given, yet the result carries measurement %x (base had %x)", res.Measurement, ref.Measurement)
		}
	}
	// trusted keys = base lists ++ bundle certificates
	if e.bundle.mustRefuse {
		viol("malformed-bundle-accepted", "CA bundle of shape %q was accepted; identity keys %x author keys %x", e.bundle.kind, res.TrustedIdKeys, res.TrustedAuthorKeys)
	} else {
		wantID, wantAuth := cat(ref.TrustedIdKeys, e.bundle.ids), cat(ref.TrustedAuthorKeys, e.bundle.auths)
		if !bytesListEqual(res.TrustedIdKeys, wantID) {
			viol("trusted-id-keys-wrong", "trusted_id_keys %x, want base ++ bundle identity certificate = %x (bundle %s)", res.TrustedIdKeys, wantID, e.bundle.kind)
		}
		if !bytesListEqual(res.TrustedAuthorKeys, wantAuth) {
			viol("trusted-author-keys-wrong", "trusted_author_keys %x, want base ++ bundle author certificate = %x (bundle %s)", res.TrustedAuthorKeys, wantAuth, e.bundle.kind)
		}
		if len(e.bundle.ids) > 0 {
			t.sevKeysAppended++
		}
		if len(e.bundle.auths) > 0 {
			t.sevKeysBoth++
		}
	}
	// every other field is carried over
	for _, f := range diffFields(res.ProtoReflect(), ref.ProtoReflect()) {
		switch f {
		case "policy", "measurement", "trusted_id_keys", "trusted_author_keys", "minimum_guest_svn":
		default:
			viol("unrelated-field-changed", "field %s of the result differs from the base (base %s)", f, js(ref))
		}
	}
	if o.sample {
		c.Sample(map[string]any{"case": o.i, "entry": entSev, "base": js(snap), "launch_vmsas": req, "overwrite": ow, "allow_unspecified": allow, "endorsed_policy": e.policy, "endorsed_svn": e.svn, "bundle": e.bundle.kind, "result": js(res)})
	}
	return true
}

// tdxObs is one observed TdxPolicy call.
type tdxObs struct {
	i          int
	call       string
	e          *endorsed
	end        *epb.VMLaunchEndorsement
	kind       string // relation of the base's any_mr_td to the endorsement
	base, snap *tcpb.Policy
	ram        int
	ow         bool
	res        *tcpb.Policy
	err        error
	sample     bool
	more       map[string]any
}

func (o *tdxObs) witness() any {
	w := map[string]any{"base": js(o.snap), "base_is_nil": o.snap == nil, "endorsement_serialized_uefi_golden": o.end.GetSerializedUefiGolden(),
		"ram_gib": o.ram, "overwrite": o.ow, "result": js(o.res), "error": fmt.Sprint(o.err)}
	for k, v := range o.more {
		w[k] = v
	}
	return w
}

func (o *tdxObs) viol(c *core.Ctx, rule, format string, a ...any) {
	c.Violate(core.Violation{Kind: "oracle", Entry: entTdx, Site: rule, Gen: o.call, Case: o.i, Detail: fmt.Sprintf(format, a...), Witness: o.witness()})
}

func countClass(n uint32) string {
	switch {
	case n == 0:
		return "0"
	case n < 256:
		return "<256"
	case n <= 65536:
		return "256..65536"
	case n < 0xffffffff:
		return ">=2^31"
	}
	return "2^32-1"
}

func tdxCase(c *core.Ctx, ctx context.Context, i int, r *rand.Rand, gname string, end *epb.VMLaunchEndorsement, e *endorsed, tb *tdxBase, t *tally, moreRams []int) {
	base := tb.p
	var snap *tcpb.Policy
	var snapBytes []byte
	if base != nil {
		snap = proto.Clone(base).(*tcpb.Policy)
		snapBytes = detBytes(base)
	}
	rams := []int{0, 48, -16, 1<<32 + 16}
	if len(e.rows) > 0 {
		rams = append(rams, int(e.rows[r.IntN(len(e.rows))].ram))
	}
	edgeFrom := len(rams)
	rams = append(rams, moreRams...)
	baseBroken := false
	for ri, ram := range rams {
		for _, ow := range []bool{false, true} {
			if baseBroken {
				base = proto.Clone(snap).(*tcpb.Policy)
				tb.anySp = nil
				baseBroken = false
			}
			opts := &gcetcbendorsement.TdxPolicyOptions{Base: base, RAMGiB: ram, Overwrite: ow}
			call := fmt.Sprintf("%s | ram_gib=%d overwrite=%v", gname, ram, ow)
			var res *tcpb.Policy
			var err error
			m := c.Guard(i, entTdx, call, core.Budget{}, func() { res, err = gcetcbendorsement.TdxPolicy(ctx, end, opts) })
			if m.Panicked {
				continue
			}
			o := &tdxObs{i: i, call: call, e: e, end: end, kind: tb.kind, base: base, snap: snap, ram: ram, ow: ow, res: res, err: err, sample: i%397 == 1 && !ow}
			if base != nil && !baseBroken {
				if !proto.Equal(base, snap) || !bytes.Equal(detBytes(base), snapBytes) {
					o.viol(c, "base-mutated", "the caller's base policy changed in %v during the call (err=%v)", diffFields(base.ProtoReflect(), snap.ProtoReflect()), err)
					baseBroken = true
				} else if !tb.anySp.intact() {
					o.viol(c, "base-backing-array-written", "the derivation wrote behind the end of the caller's any_mr_td list (append through a shallow copy)")
					baseBroken = true
				}
			}
			derived := tdxJudge(c, t, o)
			if ri >= edgeFrom {
				c.Cell("tdx-ram-edge|ram_gib=%d|listed=%v|ow=%v|derived=%v", ram, len(e.listed(ram)) > 0, ow, derived)
				if derived {
					t.tdxEdgeDerived++
				}
			}
			if !derived {
				continue
			}
			if base != nil && res != base && !baseBroken {
				scramble(res.ProtoReflect(), 0)
				if !proto.Equal(base, snap) || !bytes.Equal(detBytes(base), snapBytes) {
					o.viol(c, "result-aliases-base", "changing the returned policy changed the caller's base policy in %v", diffFields(base.ProtoReflect(), snap.ProtoReflect()))
					baseBroken = true
				} else if !tb.anySp.intact() {
					o.viol(c, "result-aliases-base", "appending to any_mr_td of the returned policy wrote into the backing array of the caller's list")
					baseBroken = true
				}
			}
		}
	}
}

// tdxJudge applies the clauses of the property to one observed TdxPolicy call; true = a policy was
// derived and judged.
func tdxJudge(c *core.Ctx, t *tally, o *tdxObs) bool {
	e, base, snap, ram, ow, res, err := o.e, o.base, o.snap, o.ram, o.ow, o.res, o.err
	viol := func(rule, format string, a ...any) { o.viol(c, rule, format, a...) }
	ref := snap
	if ref == nil {
		ref = &tcpb.Policy{}
	}
	refAny := ref.GetTdQuoteBodyPolicy().GetAnyMrTd()
	listed := e.listed(ram)
	ramKind := "ram=0"
	if ram != 0 {
		ramKind = "ram=unlisted"
		if len(listed) > 0 {
			ramKind = "ram=listed"
		}
	}
	expect := "ok"
	switch {
	case !e.hasTdx:
		expect = "no-tdx"
	case len(listed) == 0:
		expect = "nothing-listed"
	case !ow && len(refAny) > 0:
		expect = "any-mr-td-guard"
	}
	outcome := "refused"
	if err == nil {
		outcome = "derived"
	}
	c.Cell("tdx|ow=%v|base=%s|%s|expect=%s|%s", ow, o.kind, ramKind, expect, outcome)
	if err != nil {
		switch expect {
		case "ok":
			t.surprisingRefusals++
			c.Note("TdxPolicy refused a derivation the model would allow (not judged), first seen form: %s", stripDigits(err.Error()))
		case "any-mr-td-guard":
			t.tdxGuardRefused++
		}
		return false
	}
	if !e.hasTdx {
		c.Count("tdx/derived-without-tdx-part(not judged)", 1)
		return false
	}
	if res == nil {
		viol("nil-result", "TdxPolicy returned neither a policy nor an error")
		return false
	}
	t.tdxOK++
	if e.decoys != "" {
		t.tdxOKDecorated++
	}
	if base != nil {
		t.tdxOKFilled++
	}
	if base != nil && res == base {
		viol("result-is-base", "TdxPolicy returned the caller's base policy object instead of a new policy")
	}
	got := res.GetTdQuoteBodyPolicy().GetAnyMrTd()
	if len(refAny) > 0 {
		if !ow {
			viol("any-mr-td-overwritten", "base any_mr_td %x replaced by %x without overwrite", refAny, got)
		} else {
			t.tdxOverwritten++
		}
	}
	if !multisetEqual(got, listed) {
		viol("any-mr-td-not-endorsed", "result any_mr_td %x, the endorsement lists %x for ram_gib=%d (base had %x)", got, listed, ram, refAny)
	}
	// unrelated fields: header policy, unknown fields, every body field but any_mr_td
	for _, f := range diffFields(res.ProtoReflect(), ref.ProtoReflect()) {
		if f != "td_quote_body_policy" {
			viol("unrelated-field-changed", "field %s of the result differs from the base (base %s)", f, js(ref))
		}
	}
	rb, fb := res.GetTdQuoteBodyPolicy(), ref.GetTdQuoteBodyPolicy()
	if fb == nil {
		fb = &tcpb.TDQuoteBodyPolicy{}
	}
	if rb == nil {
		rb = &tcpb.TDQuoteBodyPolicy{}
	}
	for _, f := range diffFields(rb.ProtoReflect(), fb.ProtoReflect()) {
		if f != "any_mr_td" {
			viol("unrelated-field-changed", "field td_quote_body_policy.%s of the result differs from the base (base %s)", f, js(ref))
		}
	}
	if o.sample {
		c.Sample(map[string]any{"case": o.i, "entry": entTdx, "base": js(snap), "ram_gib": ram, "overwrite": ow, "listed_mrtds": len(listed), "result": js(res)})
	}
	return true
}
