package c17

import (
	"bytes"
	"context"
	"fmt"
	"math/rand/v2"
	"strings"

	epb "github.com/google/gce-tcb-verifier/proto/endorsement"
	"google.golang.org/protobuf/encoding/protowire"
	"google.golang.org/protobuf/proto"

	"verifharness/core"
)

// Family "bounds": the main family's case (same call matrix, same judge) on endorsements and base
// policies at the edges of their value ranges and in equivalent but unusual encodings:
//
//   - zero-length and one-byte measurements in the table, requested, against a base that pins a
//     measurement / pins none / pins the same short value;
//   - guest policies that differ from the endorsed one in exactly one of the 64 bits, endorsed
//     policy 0 or all-ones;
//   - SVN and minimum_guest_svn at 0, 1, 2^31-1, 2^31, 2^32-1 and next to each other;
//   - VMSA counts 0, 255, 256, 257, 65536, 2^31, 2^32-1 as table keys and as requests;
//   - CA bundles: blank line between the blocks, CRLF line ends, PEM headers, an empty or one-byte
//     certificate body, "CERTIFICATE REQUEST" blocks;
//   - TDX rows for RAM sizes 0, 1, 2^31-1, 2^31, 2^32-1, many rows, repeated MRTDs; requests -1,
//     -2^31, 2^31, 2^32-1, 2^32, 2^32+size;
//   - the serialized golden measurement re-encoded without changing its meaning: top-level fields
//     in another order, sev_snp / tdx split into two occurrences that merge, a decoy value for a
//     scalar ahead of the real one, a decoy map entry ahead of the real one, non-minimal varints
//     for tags and lengths.

type boundsTally struct {
	cases                                                   int
	shortMeasCases                                          int
	oneBitPolicyRefused, oneBitHighRefused, oneBitOverwrite int
	svnEdgeDerived, svnEdgeRefused                          int
	newBundleDerived, newBundleRefused, ramEdgeCalls        int
	reencoded, reencodedDerived, reencodeFallback           int
}

var edgeKeys = []uint32{0, 1, 255, 256, 257, 65536, 1 << 31, 0xffffffff}

func genBundleB(r *rand.Rand) *bundle {
	d1, d2 := rbytes(r, 20+r.IntN(60)), rbytes(r, 20+r.IntN(60))
	c1, c2 := pemBlock("CERTIFICATE", d1), pemBlock("CERTIFICATE", d2)
	cat := func(p ...[]byte) []byte { return bytes.Join(p, nil) }
	crlf := func(b []byte) []byte { return bytes.ReplaceAll(b, []byte("\n"), []byte("\r\n")) }
	withHeader := func(der []byte) []byte {
		s := string(pemBlock("CERTIFICATE", der))
		return []byte(strings.Replace(s, "-----BEGIN CERTIFICATE-----\n", "-----BEGIN CERTIFICATE-----\nSubject: identity\n\n", 1))
	}
	switch r.IntN(9) {
	case 0:
		return &bundle{kind: "blank-line-between", pem: cat(c1, []byte("\n"), c2), ids: [][]byte{d1}, auths: [][]byte{d2}, unjudged: true}
	case 1:
		return &bundle{kind: "spaces-between", pem: cat(c1, []byte("  \n\t\n"), c2), ids: [][]byte{d1}, auths: [][]byte{d2}, unjudged: true}
	case 2:
		return &bundle{kind: "crlf", pem: crlf(cat(c1, c2)), ids: [][]byte{d1}, auths: [][]byte{d2}, unjudged: true}
	case 3:
		return &bundle{kind: "pem-header", pem: cat(withHeader(d1), c2), ids: [][]byte{d1}, auths: [][]byte{d2}, unjudged: true}
	case 4:
		return &bundle{kind: "empty-body-id", pem: cat(pemBlock("CERTIFICATE", nil), c2), ids: [][]byte{nil}, auths: [][]byte{d2}, unjudged: true}
	case 5:
		one := rbytes(r, 1)
		return &bundle{kind: "one-byte-author", pem: cat(c1, pemBlock("CERTIFICATE", one)), ids: [][]byte{d1}, auths: [][]byte{one}, unjudged: true}
	case 6:
		return &bundle{kind: "certificate-request-id", pem: cat(pemBlock("CERTIFICATE REQUEST", d1), c2), mustRefuse: true}
	case 7:
		return &bundle{kind: "certificate-request-author", pem: cat(c1, pemBlock("CERTIFICATE REQUEST", d2)), mustRefuse: true}
	default:
		return &bundle{kind: "no-final-newline", pem: bytes.TrimRight(cat(c1, c2), "\n"), ids: [][]byte{d1}, auths: [][]byte{d2}, unjudged: true}
	}
}

func boundsFamily(c *core.Ctx, first, n int, t *tally, bt *boundsTally) {
	ctx := context.Background()
	for i := first; i < first+n; i++ {
		if !c.Mine(i) {
			continue
		}
		r := c.Rand(i)
		g, e := genEndorsement(r)
		e.hasSnp, e.hasTdx = true, true
		if g.SevSnp == nil {
			g.SevSnp = &epb.VMSevSnp{Measurements: map[uint32][]byte{}}
		}
		if g.Tdx == nil {
			g.Tdx = &epb.VMTdx{}
		}
		var variants []string
		pick := func(name string) bool {
			if r.IntN(3) == 0 {
				variants = append(variants, name)
				return true
			}
			return false
		}
		// --- the endorsement's side of each edge
		keys := vmsaKeys
		var shortKey uint32
		vShort, vKeys := pick("short-measurement"), pick("vmsa-count-edges")
		if vKeys {
			keys = edgeKeys
			e.meas = map[uint32][]byte{}
			for _, k := range edgeKeys {
				if r.IntN(2) == 0 {
					e.meas[k] = rbytes(r, 48)
				}
			}
		}
		if vShort {
			shortKey = keys[1+r.IntN(len(keys)-1)] // never key 0: launch_vmsas=0 means "unspecified"
			e.meas[shortKey] = rbytes(r, r.IntN(2))
			if r.IntN(3) == 0 {
				e.meas[keys[1+r.IntN(len(keys)-1)]] = []byte{}
			}
		}
		vPolicy := pick("guest-policy-one-bit")
		if vPolicy {
			switch r.IntN(4) {
			case 0:
				e.policy = 0
			case 1:
				e.policy = ^uint64(0)
			}
		}
		vSvn := pick("svn-edges")
		svnEdges := []uint32{0, 1, 0x7fffffff, 0x80000000, 0xffffffff}
		if vSvn {
			e.svn = svnEdges[r.IntN(len(svnEdges))]
		}
		vBundle := pick("bundle-encodings")
		if vBundle {
			e.bundle = genBundleB(r)
		}
		vRam := pick("ram-size-edges")
		var moreRams []int
		if vRam {
			ramEdges := []uint32{0, 1, 16, 0x7fffffff, 0x80000000, 0xffffffff}
			e.rows = nil
			for k, nrows := 0, 1+r.IntN(24); k < nrows; k++ {
				rw := row{ram: ramEdges[r.IntN(len(ramEdges))], mrtd: rbytes(r, 48)}
				if k > 0 && r.IntN(5) == 0 {
					rw.mrtd = e.rows[r.IntN(len(e.rows))].mrtd // one MRTD listed twice
				}
				e.rows = append(e.rows, rw)
			}
			all := []int{-1, -1 << 31, 1 << 31, 1<<32 - 1, 1 << 32, 1<<32 + 1, 1<<32 + 16, 1, 16, 1<<31 - 1}
			for k := 0; k < 4; k++ {
				moreRams = append(moreRams, all[r.IntN(len(all))])
			}
		}
		if len(variants) == 0 || r.IntN(2) == 0 {
			variants = append(variants, "re-encoded-golden")
		}
		reenc := variants[len(variants)-1] == "re-encoded-golden"
		// write the oracle's view back into the message
		s := g.SevSnp
		s.Svn, s.Policy, s.CaBundle, s.Measurements = e.svn, e.policy, cp(e.bundle.pem), map[uint32][]byte{}
		for k, v := range e.meas {
			s.Measurements[k] = cp(v)
		}
		g.Tdx.Measurements = nil
		for _, rw := range e.rows {
			g.Tdx.Measurements = append(g.Tdx.Measurements, &epb.VMTdx_Measurement{RamGib: rw.ram, Mrtd: cp(rw.mrtd), EarlyAccept: r.IntN(2) == 0})
		}
		// --- the base's side
		sb := genSevBase(r, e)
		tb := genTdxBase(r, e)
		if p := sb.p; p != nil {
			if vShort {
				switch r.IntN(4) {
				case 0:
					p.Measurement, sb.measKind = nil, "unset"
				case 1:
					p.Measurement, sb.measKind = cp(e.meas[shortKey]), "endorsed"
					if len(p.Measurement) == 0 {
						sb.measKind = "unset"
					}
				default:
					p.Measurement, sb.measKind = rbytes(r, 48), "foreign"
				}
				sb.measMatchesAt = shortKey // "also request this count"
			} else if vKeys {
				p.Measurement, sb.measKind, sb.measMatchesAt = nil, "unset", 0
				for _, k := range edgeKeys[1:] {
					if m, ok := e.meas[k]; ok && r.IntN(2) == 0 {
						p.Measurement, sb.measKind, sb.measMatchesAt = cp(m), "endorsed", k
						break
					}
				}
			}
			if vPolicy {
				bit := r.IntN(64)
				p.Policy = e.policy ^ 1<<bit
				sb.polRel = "differs"
				if p.Policy == 0 {
					sb.polRel = "unset"
				}
			}
			if vSvn {
				switch r.IntN(4) {
				case 0:
					p.MinimumGuestSvn = e.svn
				case 1:
					p.MinimumGuestSvn = e.svn + 1 // wraps to 0 = unset at the top
				case 2:
					p.MinimumGuestSvn = e.svn - 1 // wraps to 2^32-1 at the bottom
				default:
					p.MinimumGuestSvn = svnEdges[r.IntN(len(svnEdges))]
				}
				switch {
				case p.MinimumGuestSvn == 0:
					sb.svnRel = "unset"
				case p.MinimumGuestSvn <= e.svn:
					sb.svnRel = "le"
				default:
					sb.svnRel = "gt"
				}
			}
		}
		decorate(r, g, e, sb)
		gb, merr := proto.Marshal(g)
		if merr != nil {
			panic(merr)
		}
		if reenc {
			if nb, ok := reencode(r, gb, g); ok {
				gb = nb
				bt.reencoded++
			} else {
				bt.reencodeFallback++
				variants[len(variants)-1] = "re-encoding-failed"
				reenc = false
			}
		}
		end := &epb.VMLaunchEndorsement{SerializedUefiGolden: gb, Signature: rbytes(r, 16)}
		vs := strings.Join(variants, "+")
		gname := fmt.Sprintf("case#%d bounds[%s] bundle=%s svn=%d policy=%#x sevbase[policy=%s meas=%s minsvn=%s] tdxbase[%s] rows=%d", i, vs, e.bundle.kind, e.svn, e.policy, sb.polRel, sb.measKind, sb.svnRel, tb.kind, len(e.rows))
		c.Begin(i, gname, "SevPolicy+TdxPolicy", end.SerializedUefiGolden)
		bt.cases++
		before := *t
		sevCase(c, ctx, i, r, gname, end, e, sb, t, keys)
		tdxCase(c, ctx, i, r, gname, end, e, tb, t, moreRams)
		// what this case added to the main tallies, booked under the edges it was drawn with
		dSev, dTdx := t.sevOK-before.sevOK, t.tdxOK-before.tdxOK
		refPol, refSvn := t.sevRefPolicy-before.sevRefPolicy, t.sevRefSvn-before.sevRefSvn
		for _, v := range variants {
			c.Cell("bounds|%s|sev-derived=%v|tdx-derived=%v", v, dSev > 0, dTdx > 0)
		}
		if vShort {
			bt.shortMeasCases++
		}
		if vPolicy && sb.p != nil {
			bt.oneBitPolicyRefused += refPol
			if sb.p.Policy^e.policy >= 1<<32 {
				bt.oneBitHighRefused += refPol
			}
			bt.oneBitOverwrite += t.sevOKOverwriteDiffers - before.sevOKOverwriteDiffers
		}
		if vSvn {
			bt.svnEdgeDerived += dSev
			bt.svnEdgeRefused += refSvn
			c.Cell("bounds|svn-edges|svn=%#x|minsvn=%s|derived=%v|svn-refused=%v", e.svn, sb.svnRel, dSev > 0, refSvn > 0)
		}
		if vBundle {
			bt.newBundleDerived += dSev
			bt.newBundleRefused += t.sevRefBundle - before.sevRefBundle
		}
		if vRam {
			bt.ramEdgeCalls += 2 * len(moreRams)
		}
		if reenc {
			bt.reencodedDerived += dSev + dTdx
		}
		c.End(i)
	}
}

// ---- re-encoding

type wfield struct {
	num protowire.Number
	typ protowire.Type
	val []byte // encoded value: for bytes fields the payload without its length
}

func splitFields(b []byte) ([]wfield, bool) {
	var out []wfield
	for len(b) > 0 {
		num, typ, n := protowire.ConsumeTag(b)
		if n < 0 {
			return nil, false
		}
		b = b[n:]
		if typ == protowire.BytesType {
			v, m := protowire.ConsumeBytes(b)
			if m < 0 {
				return nil, false
			}
			out = append(out, wfield{num, typ, cp(v)})
			b = b[m:]
			continue
		}
		m := protowire.ConsumeFieldValue(num, typ, b)
		if m < 0 {
			return nil, false
		}
		out = append(out, wfield{num, typ, cp(b[:m])})
		b = b[m:]
	}
	return out, true
}

// padVarint encodes v with pad superfluous continuation bytes.
func padVarint(dst []byte, v uint64, pad int) []byte {
	b := protowire.AppendVarint(nil, v)
	if pad > 0 && len(b)+pad <= 9 {
		b[len(b)-1] |= 0x80
		for k := 1; k < pad; k++ {
			b = append(b, 0x80)
		}
		b = append(b, 0x00)
	}
	return append(dst, b...)
}

func (f wfield) appendTo(dst []byte, r *rand.Rand) []byte {
	pad := func() int {
		if f.num < 1000 && r.IntN(3) == 0 { // unknown fields are kept as raw bytes: their encoding is part of their value
			return 1 + r.IntN(2)
		}
		return 0
	}
	dst = padVarint(dst, protowire.EncodeTag(f.num, f.typ), pad())
	if f.typ == protowire.BytesType {
		dst = padVarint(dst, uint64(len(f.val)), pad())
	}
	return append(dst, f.val...)
}

func encodeFields(fs []wfield, r *rand.Rand) []byte {
	var b []byte
	for _, f := range fs {
		b = f.appendTo(b, r)
	}
	return b
}

// reencode writes the serialized golden measurement gb in another, equivalent form. The result is
// accepted only if the protobuf library (not the repository) decodes it to a message equal to g.
func reencode(r *rand.Rand, gb []byte, g *epb.VMGoldenMeasurement) ([]byte, bool) {
	top, ok := splitFields(gb)
	if !ok {
		return nil, false
	}
	var out []wfield
	firstOf := map[protowire.Number]int{} // position of the first half of a split field
	for _, f := range top {
		if (f.num != 7 && f.num != 8) || f.typ != protowire.BytesType {
			out = append(out, f)
			continue
		}
		inner, ok := splitFields(f.val)
		if !ok {
			return nil, false
		}
		var a, b []wfield
		cut := r.IntN(len(inner) + 1) // tdx: the rows keep their order, so the first occurrence takes a prefix
		for x, in := range inner {
			if (f.num == 7 && r.IntN(2) == 0) || (f.num == 8 && x < cut) {
				a = append(a, in)
				continue
			}
			b = append(b, in)
			if f.num != 7 {
				continue
			}
			// a decoy ahead of the real value: last one wins
			switch {
			case (in.num == 1 || in.num == 5) && in.typ == protowire.VarintType:
				a = append(a, wfield{in.num, in.typ, protowire.AppendVarint(nil, 1+r.Uint64N(1<<20))})
			case in.num == 6 && in.typ == protowire.BytesType:
				a = append(a, wfield{in.num, in.typ, pemBlock("CERTIFICATE", rbytes(r, 24))})
			case in.num == 2 && in.typ == protowire.BytesType && r.IntN(2) == 0:
				// map entry with the same key and another value
				if ent, ok := splitFields(in.val); ok {
					var dec []wfield
					for _, x := range ent {
						if x.num == 1 {
							dec = append(dec, x)
						}
					}
					dec = append(dec, wfield{2, protowire.BytesType, rbytes(r, 48)})
					a = append(a, wfield{in.num, in.typ, encodeFields(dec, r)})
				}
			}
		}
		firstOf[f.num] = len(out)
		out = append(out, wfield{f.num, f.typ, encodeFields(a, r)}, wfield{f.num, f.typ, encodeFields(b, r)})
	}
	// another order of the top-level fields; the two halves of a split field keep theirs
	perm := r.Perm(len(out))
	sh := make([]wfield, len(out))
	pos := make([]int, len(out))
	for to, from := range perm {
		sh[to], pos[from] = out[from], to
	}
	for _, at := range firstOf {
		if pa, pb := pos[at], pos[at+1]; pa > pb {
			sh[pa], sh[pb] = sh[pb], sh[pa]
		}
	}
	nb := encodeFields(sh, r)
	back := &epb.VMGoldenMeasurement{}
	if err := proto.Unmarshal(nb, back); err != nil || !proto.Equal(back, g) || bytes.Equal(nb, gb) {
		return nil, false
	}
	return nb, true
}

func (bt *boundsTally) report(c *core.Ctx, t *tally) {
	c.Count("bounds/cases", bt.cases)
	c.Count("bounds/cases-with-a-zero-or-one-byte-measurement-listed", bt.shortMeasCases)
	c.Count("bounds/zero-or-one-byte-measurement-requested:derived", t.sevShortDerived)
	c.Count("bounds/zero-or-one-byte-measurement-requested:derived-keeping-the-base's-equal-measurement", t.sevShortKept)
	c.Count("bounds/zero-or-one-byte-measurement-requested:refused-for-the-base's-measurement", t.sevShortRefused)
	c.Count("bounds/guest-policy-one-bit-apart:refused", bt.oneBitPolicyRefused)
	c.Count("bounds/guest-policy-one-bit-apart-in-the-upper-32-bits:refused", bt.oneBitHighRefused)
	c.Count("bounds/guest-policy-one-bit-apart:derived-with-overwrite", bt.oneBitOverwrite)
	c.Count("bounds/svn-edges:derived", bt.svnEdgeDerived)
	c.Count("bounds/svn-edges:refused-min-guest-svn-conflict", bt.svnEdgeRefused)
	c.Count("bounds/vmsa-count-above-255-requested:derived", t.sevBigCountDerived)
	c.Count("bounds/bundle-encodings:derived", bt.newBundleDerived)
	c.Count("bounds/bundle-encodings:refused-certificate-request", bt.newBundleRefused)
	c.Count("bounds/ram-size-edges:calls", bt.ramEdgeCalls)
	c.Count("bounds/ram-size-edges:derived", t.tdxEdgeDerived)
	c.Count("bounds/re-encoded-goldens", bt.reencoded)
	c.Count("bounds/re-encoded-goldens:derived", bt.reencodedDerived)
	c.Count("bounds/re-encoding-not-equivalent(fell back to canonical bytes)", bt.reencodeFallback)
	c.Floor("bounds:zero-or-one-byte-measurement-derived-and-base-measurement-guarded", t.sevShortDerived > 0 && t.sevShortRefused > 0)
	c.Floor("bounds:guest-policy-one-bit-apart-refused(also-upper-32-bits)-and-overwritten", bt.oneBitPolicyRefused > 0 && bt.oneBitHighRefused > 0 && bt.oneBitOverwrite > 0)
	c.Floor("bounds:svn-and-vmsa-count-edges-derived-and-refused", bt.svnEdgeDerived > 0 && bt.svnEdgeRefused > 0 && t.sevBigCountDerived > 0)
	c.Floor("bounds:bundle-encodings-derived-and-refused", bt.newBundleDerived > 0 && bt.newBundleRefused > 0)
	c.Floor("bounds:ram-size-edges-derived", t.tdxEdgeDerived > 0)
	c.Floor("bounds:re-encoded-goldens-derived", bt.reencodedDerived > 0)
}
