// Package props links every property package into the worker.
package props

import (
	_ "verifharness/props/c01"
)
