package c05

// Families added by the audit against the recurring classes of missed changes (state a caller keeps
// between calls, process-wide state inside the library incl. what a FAILED call leaves behind, counts
// at the capacity of the TD-HOB section and beyond 8/16-bit products). Every verdict comes from the
// rules that already judge the other families (valid-rejected, mrtd-mismatch, region-*, tdhob-*,
// unsigned-rows, shape-banks, regions-changed-after-later-call, concurrent-call-differs-from-model);
// calls on model-invalid inputs are made for what they leave behind and are counted, never judged.

import (
	"bytes"
	"encoding/hex"
	"fmt"
	"math/rand/v2"
	"runtime"
	"sync"

	"github.com/google/gce-tcb-verifier/ovmf"
	"github.com/google/gce-tcb-verifier/ovmf/abi"
	epb "github.com/google/gce-tcb-verifier/proto/endorsement"
	"github.com/google/gce-tcb-verifier/tdx"

	"verifharness/core"
	"verifharness/props/c05/tdxref"
)

const eMeas = "tdx.Measurement"

// failKinds: model-invalid images / configurations, named after the place where the repository gives up.
var failKinds = []string{
	"no-metadata-guid",       // metadata not found
	"bad-signature",          // descriptor validation
	"fv-sum",                 // section validation
	"overlap-late",           // section-to-region loop, after earlier regions were built
	"hob-too-small",          // hand-off block generation, after all regions were built
	"unaligned-base",         // tdx.MRTD only: region loop of the measurement, after earlier regions were extended
	"tempmem-extend-default", // tdx.MRTD only: same place, default mode (contents not defined by the property)
}

type audit struct {
	afterFail    map[string]int // judged-equal calls made right after a failing call of the kind
	failErr      map[string]int // failing calls of the kind that returned an error
	optsTrans    map[string]int // judged-equal tdx.MRTD through the one kept LaunchOptions, by mode transition
	refillSame   int            // judged-equal call right after the image buffer was refilled in place, same length
	refillOther  int
	afterScrib   int // judged-equal call right after the caller wrote over an earlier result
	scribTemp    int // ... where temporary-memory buffers were among the bytes written over
	optsFailed   int // judged-equal tdx.MRTD through the kept LaunchOptions last used for a call that failed
	bankKept     int // judged-equal call with the bank slice of the previous call handed in again
	rowsKeptReq  int
	measAPI      int
	fitExact     int
	fit255       int
	fit1365      int
	fitManySec   int
	fitOverflow  int
	cfGood       int
	cfFailErr    int
	cfFullyEqual int
}

func newAudit() audit {
	return audit{afterFail: map[string]int{}, failErr: map[string]int{}, optsTrans: map[string]int{}}
}

func entryFor(m tdxref.Mode) string {
	switch m {
	case tdxref.ModeLegacy:
		return eLegacy
	case tdxref.ModeLegacyEarly:
		return eEarly
	}
	return eDefault
}

func extractFor(m tdxref.Mode, fw []byte, gb []ovmf.GuestPhysicalRegion) ([]*ovmf.MaterialGuestPhysicalRegion, error) {
	switch m {
	case tdxref.ModeLegacy:
		return ovmf.ExtractMaterialGuestPhysicalRegionsTDHOBBug(fw, gb)
	case tdxref.ModeLegacyEarly:
		return ovmf.ExtractMaterialGuestPhysicalRegionsNoUnacceptedMemory(fw, gb)
	}
	return ovmf.ExtractMaterialGuestPhysicalRegions(fw)
}

// smallSpec: a fully specified layout (no temporary memory flagged EXTEND: that is a failing kind here)
// with at most 96 pages of memory, so that a case of many calls stays cheap.
func smallSpec(r *rand.Rand, pages int) *spec {
	var sp *spec
	for try := 0; try < 10; try++ {
		sp = genSpecPages(r, pages)
		tot := uint64(0)
		for _, s := range sp.Sections {
			tot += s.MemSize
		}
		if tot <= 96*page {
			break
		}
	}
	for k := range sp.Sections {
		if sp.Sections[k].Type == tdxref.TypeTempMem {
			sp.Sections[k].Attr &^= tdxref.AttrExtendMR
		}
	}
	return sp
}

func hobCap(sizeBytes uint64) int {
	return int((sizeBytes - tdxref.PhitLen - tdxref.EndLen) / tdxref.ResLen)
}

// isolatedBanks returns n banks above `above`, each giving exactly one unaccepted range (touching banks
// are not merged), in ascending order.
func isolatedBanks(r *rand.Rand, above uint64, n int) []tdxref.Range {
	cur := (above + page) &^ (page - 1)
	out := make([]tdxref.Range, 0, n)
	for k := 0; k < n; k++ {
		b := tdxref.Range{Start: cur, Length: uint64(1+r.IntN(3)) * page}
		cur = b.End()
		if r.IntN(3) > 0 {
			cur += uint64(1+r.IntN(2)) * page
		}
		if r.IntN(24) == 0 {
			b.Start += 0x800
			b.Length -= 0x800 + uint64(r.IntN(2))*0x10
		}
		out = append(out, b)
	}
	return out
}

func maxEnd(secs []tdxref.Section, banks []tdxref.Range) uint64 {
	hi := uint64(0)
	for _, s := range secs {
		if s.End() > hi {
			hi = s.End()
		}
	}
	for _, b := range banks {
		if b.End() > hi {
			hi = b.End()
		}
	}
	return hi
}

// makeFailing derives a model-invalid image (or, for hob-too-small, a bank list the TD-HOB section
// cannot hold) from a valid one. img aliases nothing of fw unless it IS fw (hob-too-small).
func makeFailing(r *rand.Rand, kind string, sp *spec, fw []byte) (img []byte, banks []tdxref.Range, ms []tdxref.Mode, ok bool) {
	secs := append([]tdxref.Section{}, sp.Sections...)
	ms = modes
	nonEmpty := func() (idx []int) {
		for k, s := range secs {
			if s.MemSize != 0 {
				idx = append(idx, k)
			}
		}
		return
	}
	img = append([]byte{}, fw...)
	switch kind {
	case "no-metadata-guid":
		for k := sp.DescOff - 16; k < sp.DescOff; k++ {
			img[k] = 0
		}
		return img, nil, ms, true
	case "bad-signature":
		img[sp.DescOff+r.IntN(4)] ^= 0xff
		return img, nil, ms, true
	case "fv-sum":
		for k := range secs {
			if secs[k].Type <= tdxref.TypeCFV {
				secs[k].DataSize += page
				secs[k].MemSize += page
				break
			}
		}
	case "overlap-late":
		ne := nonEmpty()
		if len(ne) < 2 {
			return nil, nil, nil, false
		}
		secs[ne[len(ne)-1]].MemBase = secs[ne[0]].MemBase
	case "unaligned-base":
		ne := nonEmpty()
		if len(ne) < 2 {
			return nil, nil, nil, false
		}
		secs[ne[1+r.IntN(len(ne)-1)]].MemBase += 0x800
	case "tempmem-extend-default":
		ms = modes[:1]
		found := false
		for k := range secs {
			if secs[k].Type == tdxref.TypeTempMem && secs[k].MemSize != 0 && k > 0 {
				secs[k].Attr |= tdxref.AttrExtendMR
				found = true
				break
			}
		}
		if !found {
			if sp.DescOff+16+32*(len(secs)+1) > sp.Size-tableReserve {
				return nil, nil, nil, false
			}
			secs = append(secs, tdxref.Section{MemBase: (maxEnd(secs, nil) + 2*page) &^ (page - 1), MemSize: uint64(1+r.IntN(2)) * page, Type: tdxref.TypeTempMem, Attr: tdxref.AttrExtendMR})
		}
	case "hob-too-small":
		ms = modes[1:]
		var hob tdxref.Section
		for _, s := range secs {
			if s.Type == tdxref.TypeTDHOB {
				hob = s
			}
		}
		n := hobCap(hob.MemSize) - len(secs) + 1 + r.IntN(3)
		banks = isolatedBanks(r, maxEnd(secs, nil), n)
		if r.IntN(2) == 0 {
			r.Shuffle(len(banks), func(a, b int) { banks[a], banks[b] = banks[b], banks[a] })
		}
		return fw, banks, ms, true
	default:
		return nil, nil, nil, false
	}
	writeSections(img, sp.DescOff, secs)
	return img, nil, ms, true
}

// modelRejects: a failing call must be outside the model (or, for tempmem-extend-default, outside what
// the property defines), otherwise it would have to be judged.
func modelRejects(kind string, img []byte, banks []tdxref.Range, m tdxref.Mode) bool {
	mb := banks
	if m == tdxref.ModeDefault {
		mb = nil
	}
	exp, err := tdxref.Measure(img, mb, m)
	if err != nil {
		return true
	}
	return kind == "tempmem-extend-default" && m == tdxref.ModeDefault && hasTempExtend(exp.Layout.Sections)
}

// unjudged runs a call whose outcome carries no verdict for C05 (a panic there is C08's business).
func (r *runner) unjudged(i int, entry, gen string, f func() error) string {
	outcome := "no-error"
	r.guard(i, entry, gen, func() {
		defer func() {
			if p := recover(); p != nil {
				outcome = "panic"
			}
		}()
		if err := f(); err != nil {
			outcome = "error"
		}
	})
	return outcome
}

// judgeWith makes the call(s) for one model-valid configuration with values the CALLER keeps (options
// struct, bank slice, image buffer) and judges them by the single-call rules.
func (r *runner) judgeWith(i int, gen string, fw []byte, mb []tdxref.Range, m tdxref.Mode, opts *tdx.LaunchOptions, gb []ovmf.GuestPhysicalRegion,
	doExtract, doMRTD, retain bool, more map[string]any) (ok bool, exp *tdxref.Expected, regions []*ovmf.MaterialGuestPhysicalRegion) {
	c := r.c
	exp, merr := tdxref.Measure(fw, mb, m)
	if merr != nil {
		c.Count("model-invalid/sequence", 1)
		c.Note("model-invalid example: %v", merr)
		return false, nil, nil
	}
	ok = true
	if doExtract {
		entry := entryFor(m)
		var rerr error
		pm := r.guard(i, entry, gen, func() { regions, rerr = extractFor(m, fw, gb) })
		c.Count("calls/"+entry, 1)
		if pm.Panicked || !r.checkRegions(i, gen, entry, fw, exp, mb, m, regions, rerr) {
			ok = false
		}
		r.recheckKept(i, gen)
		if ok && retain {
			r.keep(i, &kept{entry: entry, gen: gen, fw: fw, exp: exp, banks: mb, mode: m, regions: regions})
		}
	}
	if doMRTD {
		var got [48]byte
		var gerr error
		pm := r.guard(i, eMRTD, gen, func() { got, gerr = tdx.MRTD(opts, fw) })
		c.Count("calls/"+eMRTD+"/"+m.String(), 1)
		r.recheckKept(i, gen+" (tdx.MRTD)")
		w := func() map[string]any {
			x := map[string]any{"got": hex.EncodeToString(got[:]), "want": hex.EncodeToString(exp.MRTD[:]), "unaccepted": exp.Unaccepted,
				"options": fmt.Sprintf("%+v", *opts)}
			for k, v := range more {
				x[k] = v
			}
			return witness(fw, exp.Layout, mb, m, x)
		}
		switch {
		case pm.Panicked:
			ok = false
		case gerr != nil:
			r.viol(i, eMRTD, "valid-rejected", gen, w(), "model-valid image and configuration rejected: %v", gerr)
			ok = false
		case got != exp.MRTD:
			r.viol(i, eMRTD, "mrtd-mismatch", gen, w(), "MRTD %x..., model %x... (%d page-add, %d extend records, %d unaccepted ranges)", got[:6], exp.MRTD[:6], exp.PageAdds, exp.Extends, len(exp.Unaccepted))
			ok = false
		default:
			r.equalByMode[m]++
		}
	}
	return ok, exp, regions
}

// ---- sequence family: one caller, one image buffer, one options value, one bank slice, one request ----

func (r *runner) caseSequence(i int) {
	c := r.c
	rr := c.Rand(i)
	const maxPages = 16
	buf := make([]byte, maxPages*page)             // the caller's image buffer, refilled in place
	opts := &tdx.LaunchOptions{}                   // the caller's options value, fields changed between calls
	bankArr := make([]ovmf.GuestPhysicalRegion, 0) // the caller's bank slice, refilled in place
	req := &tdx.EndorsementRequest{}               // the caller's endorsement request
	shapeArr := make([]string, 0, 4)
	c.Begin(i, "sequence", "all", nil)
	defer c.End(i)

	var sp *spec
	var fw []byte
	var banks []tdxref.Range          // what the caller means (own copy)
	var gb []ovmf.GuestPhysicalRegion // what the caller hands over (kept)
	bankKind := "nil"
	prev, prevOpts := "first", "fresh"
	step := 0
	gen := func(what string) string { return fmt.Sprintf("sequence/step%d/%s/after=%s", step, what, prev) }

	newImage := func(same bool) bool {
		r.flushKept(i) // retained regions alias the buffer that is overwritten now
		pages := 2 + rr.IntN(maxPages-1)
		if same && sp != nil {
			pages = sp.Size / page
		}
		nsp := smallSpec(rr, pages)
		fw = buf[:nsp.Size]
		buildImageInto(rr, nsp, fw)
		sp = nsp
		return r.selfCheck(i, gen("image"), fw, sp)
	}
	drawBanks := func() {
		switch k := rr.IntN(8); {
		case k == 0 && gb != nil:
			bankKind = "kept" // the very slice of the previous call, untouched by the caller
			return
		case k <= 1:
			banks, bankKind = tdxref.Shapes[rr.IntN(len(tdxref.Shapes))].Banks, "shape"
		case k == 2:
			banks, gb, bankKind = nil, nil, "nil"
			return
		case k == 3:
			banks, gb, bankKind = nil, bankArr[:0], "empty" // not nil; whatever the array held stays behind the length
			return
		default:
			banks, bankKind = genBanks(rr, sp.Sections, map[string]bool{}), "generated"
		}
		bankArr = append(bankArr[:0], toGPR(banks)...) // in place while the capacity lasts
		gb = bankArr
		if len(gb) == 0 {
			bankKind = "empty"
		}
	}
	setOpts := func(m tdxref.Mode) []tdxref.Range {
		opts.MeasureAllRegions = m != tdxref.ModeDefault
		opts.DisableUnacceptedMemory = m == tdxref.ModeLegacyEarly
		if m == tdxref.ModeDefault { // the default configuration describes no RAM (first assumption)
			if gb != nil && rr.IntN(2) == 0 {
				opts.GuestRAMBanks = gb[:0]
			} else {
				opts.GuestRAMBanks = nil
			}
			return nil
		}
		opts.GuestRAMBanks = gb
		return banks
	}

	if !newImage(false) {
		return
	}
	forceGood := false
	nSteps := 8 + rr.IntN(9)
	for step = 1; step <= nSteps; step++ {
		k := rr.IntN(100)
		if forceGood {
			k = 0
		}
		forceGood = false
		switch {
		case k < 35: // a judged call
			m := modes[rr.IntN(3)]
			drawBanks()
			mb := setOpts(m)
			how := rr.IntN(3)
			g := gen("call/" + m.String() + "/banks-" + bankKind)
			egb := gb
			if m == tdxref.ModeDefault {
				egb = nil
			}
			ok, exp, _ := r.judgeWith(i, g, fw, mb, m, opts, egb, how >= 1, how <= 1, true, map[string]any{"previous_step": prev, "options_last_used_for": prevOpts})
			if ok {
				hows := []string{"mrtd", "extract+mrtd-same-slice", "extract"}[how]
				c.Cell("sequence|%s|after=%s|%s|banks=%s", m, prev, hows, bankKind)
				c.Count("sequence/judged-equal", 1)
				switch {
				case len(prev) > 5 && prev[:5] == "fail:":
					r.aud.afterFail[prev[5:]]++
				case prev == "refill-same-size":
					r.aud.refillSame++
				case prev == "refill-other-size":
					r.aud.refillOther++
				case prev == "scribble" || prev == "scribble+tempmem":
					r.aud.afterScrib++
					if prev == "scribble+tempmem" && m != tdxref.ModeDefault {
						r.aud.scribTemp++
					}
				}
				if how <= 1 {
					r.aud.optsTrans[prevOpts+"->"+m.String()]++
					if len(prevOpts) > 7 && prevOpts[:7] == "failed-" {
						r.aud.optsFailed++
					}
				}
				if bankKind == "kept" && m != tdxref.ModeDefault {
					r.aud.bankKept++
				}
				c.Max("sections", int64(len(exp.Layout.Sections)))
			}
			if how <= 1 {
				prevOpts = m.String()
			}
			prev = "good:" + m.String()

		case k < 55: // a call that fails (or whose outcome the property does not define), for what it leaves behind
			kind := failKinds[rr.IntN(len(failKinds))]
			img, fbanks, ms, ok := makeFailing(rr, kind, sp, fw)
			if !ok {
				c.Count("sequence/failing-call/"+kind+"/not-constructible", 1)
				continue
			}
			m := ms[rr.IntN(len(ms))]
			if fbanks == nil && m != tdxref.ModeDefault && rr.IntN(2) == 0 {
				fbanks = banks
			}
			if !modelRejects(kind, img, fbanks, m) {
				c.Count("sequence/failing-call/"+kind+"/model-accepts-skipped", 1)
				continue
			}
			inPlace := &img[0] != &fw[0] && rr.IntN(4) == 0
			var saved []byte
			if inPlace { // the caller's own buffer holds the bad image for this call
				r.flushKept(i)
				saved = append([]byte{}, fw...)
				copy(fw, img)
				img = fw
			}
			useMRTD := rr.IntN(10) < 7 || kind == "unaligned-base" || kind == "tempmem-extend-default"
			fgb := toGPR(fbanks)
			entry := entryFor(m)
			if useMRTD {
				entry = eMRTD
				opts.MeasureAllRegions = m != tdxref.ModeDefault
				opts.DisableUnacceptedMemory = m == tdxref.ModeLegacyEarly
				opts.GuestRAMBanks = fgb
				if m == tdxref.ModeDefault {
					opts.GuestRAMBanks = nil
				}
				prevOpts = "failed-" + m.String()
			}
			g := gen("failing/" + kind + "/" + m.String())
			out := r.unjudged(i, entry, g, func() error {
				if useMRTD {
					_, err := tdx.MRTD(opts, img)
					return err
				}
				_, err := extractFor(m, img, fgb)
				return err
			})
			c.Count("sequence/failing-call/"+kind+"/"+entry+"/"+out, 1)
			if inPlace {
				copy(fw, saved)
				c.Count("sequence/failing-call/in-callers-buffer", 1)
			} else {
				r.recheckKept(i, g) // a failed call must not change what earlier calls returned
			}
			if out == "error" {
				r.aud.failErr[kind]++
				prev = "fail:" + kind
			} else {
				prev = "unjudged-" + out + ":" + kind
			}
			forceGood = true

		case k < 67: // the caller reads another image into the same buffer
			same := rr.IntN(5) < 3
			if !newImage(same) {
				return
			}
			if same {
				prev = "refill-same-size"
			} else {
				prev = "refill-other-size"
			}
			c.Count("sequence/image-buffer-refilled-in-place/"+prev, 1)
			forceGood = true

		case k < 77: // the caller writes over results it owns (generated contents only: TD-HOB, temporary memory, structs, bank list)
			m := modes[rr.IntN(3)]
			if rr.IntN(3) > 0 {
				m = modes[1+rr.IntN(2)]
			}
			if gb == nil && banks != nil {
				gb = toGPR(banks)
			}
			mb, egb := banks, gb
			if m == tdxref.ModeDefault {
				mb, egb = nil, nil
			}
			g := gen("scribble/" + m.String())
			ok, exp, regions := r.judgeWith(i, g, fw, mb, m, opts, egb, true, false, false, nil)
			if !ok {
				prev = "good:" + m.String()
				continue
			}
			nb, temp := 0, false
			for k, s := range exp.Layout.Sections {
				g := regions[k]
				if s.Type == tdxref.TypeTDHOB || s.Type == tdxref.TypeTempMem {
					for x := range g.HostBuffer {
						g.HostBuffer[x] = 0xa5 ^ byte(x)
					}
					nb += len(g.HostBuffer)
					if s.Type == tdxref.TypeTempMem && len(g.HostBuffer) > 0 {
						temp = true
					}
				}
				g.GPR.Start ^= 0xfff000
				g.GPR.Length += page
				g.TDVFAttributes = ^g.TDVFAttributes
				g.HostBuffer = nil
				regions[k] = nil
			}
			// the per-shape launch options are the caller's as well
			sh := tdxref.Shapes[rr.IntN(len(tdxref.Shapes))]
			for pass := 0; pass < 2; pass++ {
				var o *tdx.LaunchOptions
				pm := r.guard(i, eShape, g+"/"+sh.Name, func() { o = tdx.LaunchOptionsDefaultTDHOBBug(sh.Name) })
				if pm.Panicked || o == nil {
					break
				}
				got := fromGPR(o.GuestRAMBanks)
				if !sameRanges(got, sh.Banks) || !o.MeasureAllRegions || o.DisableUnacceptedMemory {
					r.viol(i, eShape, "shape-banks", g+"/"+sh.Name, map[string]any{"shape": sh.Name, "got": got, "want": sh.Banks, "measure_all": o.MeasureAllRegions, "early": o.DisableUnacceptedMemory, "pass": pass},
						"launch options of %s (call %d, the caller changed the value it got from the call before): banks %v measureAll=%v early=%v, model banks %v", sh.Name, pass+1, got, o.MeasureAllRegions, o.DisableUnacceptedMemory, sh.Banks)
					break
				}
				for x := range o.GuestRAMBanks {
					o.GuestRAMBanks[x] = ovmf.GuestPhysicalRegion{Start: abi.EFIPhysicalAddress(x) * page, Length: page}
				}
				o.MeasureAllRegions, o.DisableUnacceptedMemory = false, true
				if pass == 1 {
					c.Count("sequence/shape-options-intact-after-caller-edit", 1)
				}
			}
			c.Count("sequence/result-bytes-written-over", nb)
			prev = "scribble"
			if temp {
				prev = "scribble+tempmem"
			}
			forceGood = true

		case k < 87: // endorsement rows through the one kept request value
			req.Svn = rr.Uint32()
			req.IncludeEarlyAccept = rr.IntN(2) == 0
			bogus := rr.IntN(10) < 3
			shapeKind := "list"
			switch rr.IntN(5) {
			case 0:
				req.MachineShapes, shapeKind = nil, "nil"
			case 1:
				req.MachineShapes, shapeKind = shapeArr[:0], "empty"
			default:
				shapeArr = shapeArr[:0]
				for n := 1 + rr.IntN(3); n > 0; n-- {
					shapeArr = append(shapeArr, tdxref.Shapes[rr.IntN(len(tdxref.Shapes))].Name)
				}
				req.MachineShapes = shapeArr
			}
			if bogus {
				pos := rr.IntN(len(req.MachineShapes) + 1)
				ms := append([]string{}, req.MachineShapes[:pos]...)
				ms = append(ms, "c3-standard-5")
				req.MachineShapes = append(ms, req.MachineShapes[pos:]...)
				g := gen("failing/rows-unknown-shape")
				out := r.unjudged(i, eRows, g, func() error { _, err := tdx.UnsignedTDX(fw, req); return err })
				c.Count("sequence/failing-call/rows-unknown-shape/"+eRows+"/"+out, 1)
				r.recheckKept(i, g)
				if out == "error" {
					r.aud.failErr["rows-unknown-shape"]++
					prev = "fail:rows-unknown-shape"
				} else {
					prev = "unjudged-" + out + ":rows-unknown-shape"
				}
				forceGood = true
				continue
			}
			g := gen(fmt.Sprintf("rows/%s/%dshapes/early=%v", shapeKind, len(req.MachineShapes), req.IncludeEarlyAccept))
			if r.judgeRows(i, g, fw, req, prev) {
				r.aud.rowsKeptReq++
				c.Cell("sequence|rows|after=%s|shapes=%s|early=%v", prev, shapeKind, req.IncludeEarlyAccept)
			}
			prev = "rows"

		case k < 94: // the regions of two calls measured through the repository's own Measurement values, interleaved
			m := modes[1+rr.IntN(2)]
			if gb == nil && banks != nil {
				gb = toGPR(banks)
			}
			g := gen("measurement-api/" + m.String())
			okL, expL, regL := r.judgeWith(i, g, fw, banks, m, opts, gb, true, false, true, nil)
			okD, expD, regD := r.judgeWith(i, g+"+default", fw, nil, tdxref.ModeDefault, opts, nil, true, false, true, nil)
			if okL && okD {
				var dl, dd [48]byte
				var err error
				pm := r.guard(i, eMeas, g, func() {
					ml, md := tdx.NewMeasurementTDHOBBug(), tdx.NewMeasurement()
					for x := 0; x < len(regL) && err == nil; x++ {
						if err = ml.InitMemoryRegion(regL[x]); err == nil {
							err = md.InitMemoryRegion(regD[x])
						}
					}
					if err == nil {
						dl, dd = ml.Finalize(), md.Finalize()
					}
				})
				switch {
				case pm.Panicked:
				case err != nil:
					r.viol(i, eMeas, "valid-rejected", g, witness(fw, expL.Layout, banks, m, nil), "regions of a model-valid image rejected by InitMemoryRegion: %v", err)
				case dl != expL.MRTD || dd != expD.MRTD:
					r.viol(i, eMeas, "mrtd-mismatch", g, witness(fw, expL.Layout, banks, m, map[string]any{"got": hex.EncodeToString(dl[:]), "want": hex.EncodeToString(expL.MRTD[:]),
						"got_default": hex.EncodeToString(dd[:]), "want_default": hex.EncodeToString(expD.MRTD[:])}),
						"two Measurement values fed region by region in turn: %s %x... (model %x...), default %x... (model %x...)", m, dl[:6], expL.MRTD[:6], dd[:6], expD.MRTD[:6])
				default:
					r.aud.measAPI++
					c.Cell("sequence|measurement-api|%s+default|after=%s", m, prev)
				}
			}
			prev = "measurement-api"

		default: // early accept without measure-all: outside the three modes of the property, made for what it leaves behind
			drawBanks()
			opts.MeasureAllRegions, opts.DisableUnacceptedMemory, opts.GuestRAMBanks = false, true, gb
			g := gen("early-accept-without-measure-all")
			var got [48]byte
			out := r.unjudged(i, eMRTD, g, func() (err error) { got, err = tdx.MRTD(opts, fw); return })
			if exp, err := tdxref.Measure(fw, banks, tdxref.ModeLegacyEarly); err == nil && out == "no-error" {
				if got == exp.MRTD {
					c.Count("observed/early-accept-without-measure-all/equals-legacy-early-model", 1)
				} else {
					c.Count("observed/early-accept-without-measure-all/differs-from-legacy-early-model", 1)
				}
			} else {
				c.Count("observed/early-accept-without-measure-all/"+out, 1)
			}
			r.recheckKept(i, g)
			prev, prevOpts = "early-only", "early-only"
		}
	}
	r.flushKept(i)
}

// judgeRows: tdx.UnsignedTDX for a model-valid, fully specified image; afterwards the caller writes
// over the rows it got.
func (r *runner) judgeRows(i int, g string, fw []byte, req *tdx.EndorsementRequest, prev string) bool {
	c := r.c
	type row struct {
		ram   uint32
		early bool
		mrtd  [48]byte
		what  string
	}
	var want []row
	for _, n := range req.MachineShapes {
		sh := tdxref.ShapeByName(n)
		for _, m := range modes[1:] {
			if m == tdxref.ModeLegacyEarly && !req.IncludeEarlyAccept {
				continue
			}
			exp, err := tdxref.Measure(fw, sh.Banks, m)
			if err != nil {
				c.Count("model-invalid/sequence-rows", 1)
				return false
			}
			want = append(want, row{sh.RAMGiB, m.EarlyAll(), exp.MRTD, n + "/" + m.String()})
		}
	}
	dexp, err := tdxref.Measure(fw, nil, tdxref.ModeDefault)
	if err != nil || hasTempExtend(dexp.Layout.Sections) {
		c.Count("model-invalid/sequence-rows", 1)
		return false
	}
	want = append(want, row{0, false, dexp.MRTD, "default"})
	var out *epb.VMTdx
	var uerr error
	svn := req.Svn
	names := append([]string{}, req.MachineShapes...)
	pm := r.guard(i, eRows, g, func() { out, uerr = tdx.UnsignedTDX(fw, req) })
	c.Count("calls/"+eRows, 1)
	r.recheckKept(i, g)
	if pm.Panicked {
		return false
	}
	wit := map[string]any{"shapes": names, "include_early_accept": req.IncludeEarlyAccept, "layout": dexp.Layout, "image_len": len(fw), "previous_step": prev}
	if uerr != nil {
		r.viol(i, eRows, "valid-rejected", g, wit, "model-valid image rejected: %v", uerr)
		return false
	}
	rows := out.GetMeasurements()
	if out.GetSvn() != svn || len(rows) != len(want) {
		r.viol(i, eRows, "unsigned-rows", g, wit, "svn %d (want %d), %d rows (want %d)", out.GetSvn(), svn, len(rows), len(want))
		return false
	}
	for k, wr := range want {
		gr := rows[k]
		if gr.GetRamGib() != wr.ram || gr.GetEarlyAccept() != wr.early || !bytes.Equal(gr.GetMrtd(), wr.mrtd[:]) {
			wit["row"] = k
			wit["got"] = map[string]any{"ram_gib": gr.GetRamGib(), "early_accept": gr.GetEarlyAccept(), "mrtd": hex.EncodeToString(gr.GetMrtd())}
			wit["want"] = map[string]any{"ram_gib": wr.ram, "early_accept": wr.early, "mrtd": hex.EncodeToString(wr.mrtd[:])}
			r.viol(i, eRows, "unsigned-rows", g, wit, "row %d (%s): ram_gib=%d early=%v mrtd=%x..., model ram_gib=%d early=%v mrtd=%x...", k, wr.what,
				gr.GetRamGib(), gr.GetEarlyAccept(), gr.GetMrtd()[:min(6, len(gr.GetMrtd()))], wr.ram, wr.early, wr.mrtd[:6])
			return false
		}
		r.rowsChecked++
	}
	for _, gr := range rows { // the rows are the caller's now
		for x := range gr.Mrtd {
			gr.Mrtd[x] ^= 0xff
		}
		gr.RamGib, gr.EarlyAccept = 9999, !gr.EarlyAccept
	}
	for x := range req.MachineShapes {
		if x < len(names) && req.MachineShapes[x] != names[x] {
			c.Count("observed/request-shape-list-changed-by-call", 1)
		}
	}
	return true
}

// ---- capacity family: descriptor counts at the capacity of the TD-HOB section and past 8/16-bit products ----

// fitSpec draws a model-valid layout with exactly nsec sections and a TD-HOB section of hobPages pages.
func fitSpec(r *rand.Rand, nsec, hobPages int) *spec {
	sp := &spec{Feat: map[string]bool{}}
	nfv := 1 + r.IntN(min(4, nsec-1))
	types := []uint32{tdxref.TypeBFV, tdxref.TypeTDHOB}
	for k := 1; k < nfv; k++ {
		types = append(types, uint32(r.IntN(2)))
	}
	for len(types) < nsec {
		types = append(types, tdxref.TypeTempMem)
	}
	r.Shuffle(len(types), func(a, b int) { types[a], types[b] = types[b], types[a] })
	need := 16 + 32*nsec + tableReserve + 48
	pages := max(2, nfv, (need+page-1)/page) + r.IntN(3)
	sp.Size = pages * page
	// FV sizes: a composition of the image pages
	fvPages := make([]int, nfv)
	for k := range fvPages {
		fvPages[k] = 1
	}
	for k := nfv; k < pages; k++ {
		fvPages[r.IntN(nfv)]++
	}
	sizes := make([]uint64, nsec)
	sp.Sections = make([]tdxref.Section, nsec)
	fv, off := 0, 0
	var zero []int
	for k, t := range types {
		s := &sp.Sections[k]
		s.Type = t
		switch t {
		case tdxref.TypeBFV, tdxref.TypeCFV:
			s.DataOffset, s.DataSize = uint32(off), uint32(fvPages[fv]*page)
			s.MemSize = uint64(s.DataSize)
			off += fvPages[fv] * page
			fv++
			if r.IntN(4) > 0 {
				s.Attr = tdxref.AttrExtendMR
			}
		case tdxref.TypeTDHOB:
			s.MemSize = uint64(hobPages) * page
			if r.IntN(4) == 0 {
				s.Attr = tdxref.AttrExtendMR
			}
		default:
			s.MemSize = uint64(1+r.IntN(2)) * page
			if r.IntN(12) == 0 {
				s.MemSize = 0
				zero = append(zero, k)
			}
		}
		sizes[k] = s.MemSize
	}
	bases := placeMemory(r, sizes)
	for k := range sp.Sections {
		sp.Sections[k].MemBase = bases[k]
	}
	for _, k := range zero { // an empty section sits at an edge of another one, never inside
		o := sp.Sections[r.IntN(nsec)]
		sp.Sections[k].MemBase = o.End()
		sp.Feat["zero-size-sec"] = true
	}
	maxOff := sp.Size - tableReserve - (16 + 32*nsec)
	sp.DescOff = (16 + r.IntN(maxOff-16+1)) &^ 15
	if sp.DescOff < 16 {
		sp.DescOff = 16
	}
	return sp
}

func pagesFor(total int) int {
	return int((tdxref.HOBSize(total, 0) + page - 1) / page)
}

func (r *runner) caseFit(i int) {
	c := r.c
	rr := c.Rand(i)
	var h, total int
	what := ""
	overflow := false
	nsec := 0
	switch k := rr.IntN(12); {
	case k < 4:
		h = 1
		total = hobCap(page) - []int{0, 0, 1, 2}[rr.IntN(4)]
		what = "one-page"
	case k == 4:
		h = 4
		total = hobCap(4*page) - rr.IntN(2)
		what = "four-pages"
	case k == 5:
		h = 2 + rr.IntN(2)
		total = hobCap(uint64(h)*page) - rr.IntN(3)
		what = "two-three-pages"
	case k <= 7:
		total = 254 + rr.IntN(5)
		h = pagesFor(total) + rr.IntN(2)
		what = "around-256"
	case k <= 9:
		total = 1364 + rr.IntN(5)
		h = pagesFor(total) + rr.IntN(2)
		what = "around-1365"
	case k == 10:
		h = 1 + rr.IntN(2)
		total = hobCap(uint64(h)*page) + 1
		overflow = true
		what = "one-too-many"
	default:
		h, total, nsec = 1, hobCap(page), hobCap(page)
		what = "sections-fill-the-block"
	}
	if nsec == 0 {
		nsec = 2 + rr.IntN(min(total-1, 12))
		if rr.IntN(4) == 0 {
			nsec = 2 + rr.IntN(min(total-1, 83))
		}
	}
	sp := fitSpec(rr, nsec, h)
	fw := buildImage(rr, sp)
	capacity := hobCap(uint64(h) * page)
	gen := fmt.Sprintf("capacity/%s/%dsec/tdhob-%dpages/%d-of-%d-descriptors", what, nsec, h, total, capacity)
	c.Begin(i, gen, "all", nil)
	defer c.End(i)
	if !r.selfCheck(i, gen, fw, sp) {
		return
	}
	feat := map[string]bool{}
	for k, v := range sp.Feat {
		feat[k] = v
	}
	// bank list with exactly total-nsec unaccepted ranges
	un := total - nsec
	var banks []tdxref.Range
	if un > 0 && rr.IntN(2) == 0 {
		banks = genBanks(rr, sp.Sections, feat)
		if len(tdxref.Unaccepted(sp.Sections, banks)) > un || tdxref.ValidBanks(banks) != nil {
			banks = nil
		}
	}
	if more := un - len(tdxref.Unaccepted(sp.Sections, banks)); more > 0 {
		banks = append(banks, isolatedBanks(rr, maxEnd(sp.Sections, banks), more)...)
	}
	if rr.IntN(4) > 0 {
		rr.Shuffle(len(banks), func(a, b int) { banks[a], banks[b] = banks[b], banks[a] })
	}
	if got := len(tdxref.Unaccepted(sp.Sections, banks)); got != un {
		c.Count("capacity/construction-missed", 1)
		return
	}
	if overflow { // the list does not fit: no verdict; made first, then the same image with one bank fewer, which fits exactly
		for _, m := range modes[1:] {
			if !modelRejects("hob-too-small", fw, banks, m) {
				c.Count("capacity/one-too-many/model-accepts-skipped", 1)
				return
			}
			fgb := toGPR(banks)
			useMRTD := rr.IntN(2) == 0
			entry := entryFor(m)
			if useMRTD {
				entry = eMRTD
			}
			out := r.unjudged(i, entry, gen+"/"+m.String(), func() error {
				if useMRTD {
					_, err := tdx.MRTD(optsFor(m, banks), fw)
					return err
				}
				_, err := extractFor(m, fw, fgb)
				return err
			})
			c.Count("capacity/one-too-many/"+entry+"/"+out, 1)
			if out == "error" {
				r.aud.fitOverflow++
			}
		}
		// drop one bank that contributes exactly one range
		for k := len(banks) - 1; k >= 0; k-- {
			rest := append(append([]tdxref.Range{}, banks[:k]...), banks[k+1:]...)
			if len(tdxref.Unaccepted(sp.Sections, rest)) == un-1 {
				banks = rest
				break
			}
		}
		total--
		if len(tdxref.Unaccepted(sp.Sections, banks)) != total-nsec {
			c.Count("capacity/construction-missed", 1)
			return
		}
		feat["after-one-too-many"] = true
	}
	switch total {
	case capacity:
		feat["tdhob-exactly-full"] = true
	case capacity - 1:
		feat["tdhob-one-free"] = true
	}
	feat["descriptors>255"] = total > 255
	feat["descriptors*48>65535"] = total*tdxref.ResLen > 65535
	feat["sections>10"] = nsec > 10
	ms := modes[1:]
	if un == 0 {
		ms = modes
	}
	eq := r.measure(i, "capacity", gen, fw, banks, ms, feat, false)
	r.flushKept(i)
	c.Max("capacity/descriptors", int64(total))
	if eq == len(ms) {
		c.Count("capacity/measured-equal/"+what, 1)
		if total == capacity {
			r.aud.fitExact++
		}
		if total > 255 {
			r.aud.fit255++
		}
		if total*tdxref.ResLen > 65535 {
			r.aud.fit1365++
		}
		if nsec > 10 {
			r.aud.fitManySec++
		}
	}
}

// ---- concurrent family with failing calls among the good ones ----

type cjob struct {
	fw      []byte
	banks   []tdxref.Range
	mode    tdxref.Mode
	exp     *tdxref.Expected // nil: a failing call, not judged
	name    string
	extract bool
	fail    string
}

func (r *runner) caseConcFail(i int) {
	c := r.c
	rr := c.Rand(i)
	var jobs []*cjob
	nImg := 1 + rr.IntN(2)
	nBad := 0
	for k := 0; k < nImg; k++ {
		sp := smallSpec(rr, 2+rr.IntN(15))
		fw := buildImage(rr, sp)
		if !r.selfCheck(i, "concurrent-with-failing", fw, sp) {
			return
		}
		lists := [][]tdxref.Range{tdxref.Shapes[rr.IntN(len(tdxref.Shapes))].Banks, genBanks(rr, sp.Sections, map[string]bool{})}
		if rr.IntN(2) == 0 {
			lists = append(lists, genBanks(rr, sp.Sections, map[string]bool{}))
		}
		for li, b := range lists {
			for _, m := range modes {
				if m == tdxref.ModeDefault && li > 0 {
					continue
				}
				mb := b
				if m == tdxref.ModeDefault {
					mb = nil
				}
				exp, err := tdxref.Measure(fw, mb, m)
				if err != nil {
					continue
				}
				jobs = append(jobs, &cjob{fw: fw, banks: mb, mode: m, exp: exp, name: fmt.Sprintf("img%d/list%d/%s", k, li, m), extract: rr.IntN(4) == 0})
			}
		}
		for n := 2 + rr.IntN(3); n > 0; n-- {
			kind := failKinds[rr.IntN(len(failKinds))]
			if rr.IntN(2) == 0 { // the kinds that fail after records were hashed
				kind = []string{"unaligned-base", "tempmem-extend-default"}[rr.IntN(2)]
			}
			img, fb, ms, ok := makeFailing(rr, kind, sp, fw)
			if !ok {
				continue
			}
			m := ms[rr.IntN(len(ms))]
			if fb == nil && m != tdxref.ModeDefault {
				fb = lists[rr.IntN(len(lists))]
			}
			if m == tdxref.ModeDefault {
				fb = nil
			}
			if !modelRejects(kind, img, fb, m) {
				continue
			}
			ext := rr.IntN(4) == 0 && kind != "unaligned-base" && kind != "tempmem-extend-default"
			jobs = append(jobs, &cjob{fw: img, banks: fb, mode: m, name: fmt.Sprintf("img%d/failing-%s/%s", k, kind, m), extract: ext, fail: kind})
			nBad++
		}
	}
	nG := 4 + rr.IntN(9)
	rounds := 2 + rr.IntN(3)
	gen := fmt.Sprintf("concurrent-with-failing/%dgoroutines/%dimages/%dgood+%dfailing/%drounds", nG, nImg, len(jobs)-nBad, nBad, rounds)
	c.Begin(i, gen, "all", nil)
	defer c.End(i)
	if nBad == 0 || len(jobs)-nBad < 2 {
		c.Count("concurrent-with-failing/not-constructible", 1)
		return
	}
	orders := make([][]int, nG)
	for g := range orders {
		orders[g] = rr.Perm(len(jobs))
	}
	var wg sync.WaitGroup
	var mu sync.Mutex
	good, goodWant, failErr, failOther := 0, 0, 0, 0
	reported := map[string]bool{}
	start := make(chan struct{})
	r.brk.cas.Store(int64(i))
	r.brk.entry.Store(eMRTD)
	r.brk.gen.Store(gen)
	r.brk.limit.Store(int64(batchCPULimit))
	cpu0 := procCPU()
	r.brk.start.Store(cpu0 | 1)
	for g := 0; g < nG; g++ {
		wg.Add(1)
		go func(g int) {
			defer wg.Done()
			<-start
			for round := 0; round < rounds; round++ {
				for _, ji := range orders[g] {
					j := jobs[ji]
					entry := eMRTD
					if j.extract {
						entry = entryFor(j.mode)
					}
					bad, outcome := "", "no-error"
					more := map[string]any{"goroutines": nG, "job": j.name}
					func() {
						defer func() {
							if p := recover(); p != nil {
								if j.exp == nil {
									outcome = "panic"
									return
								}
								c.Violate(core.Violation{Kind: "panic", Entry: entry, Site: "concurrent-call-panic", Gen: gen + "/" + j.name, Case: i, Detail: fmt.Sprint(p)})
								bad = "panic (reported)"
							}
						}()
						if !j.extract {
							got, err := tdx.MRTD(optsFor(j.mode, j.banks), j.fw)
							switch {
							case j.exp == nil:
								if err != nil {
									outcome = "error"
								}
							case err != nil:
								bad = fmt.Sprintf("error %v", err)
							case got != j.exp.MRTD:
								bad = fmt.Sprintf("MRTD %x..., model (and every serial call) %x...", got[:6], j.exp.MRTD[:6])
								more["got"] = hex.EncodeToString(got[:])
								more["want"] = hex.EncodeToString(j.exp.MRTD[:])
							}
							return
						}
						regions, err := extractFor(j.mode, j.fw, toGPR(j.banks))
						runtime.Gosched()
						switch {
						case j.exp == nil:
							if err != nil {
								outcome = "error"
							}
						case err != nil:
							bad = fmt.Sprintf("error %v", err)
						case len(regions) != len(j.exp.Layout.Sections) || regions[j.exp.HOBIndex] == nil:
							bad = fmt.Sprintf("%d regions", len(regions))
						case !bytes.Equal(regions[j.exp.HOBIndex].HostBuffer, j.exp.HOB):
							bad = "TD-HOB bytes differ from the model"
						default:
							d, derr := digestOfRegions(j.exp, j.mode, regions)
							if derr != nil || d != j.exp.MRTD {
								bad = fmt.Sprintf("digest of the returned regions %x..., model %x... (%v)", d[:6], j.exp.MRTD[:6], derr)
							}
						}
					}()
					mu.Lock()
					switch {
					case j.exp == nil:
						if outcome == "error" {
							failErr++
						} else {
							failOther++
						}
					case bad == "":
						good++
						goodWant++
					default:
						goodWant++
						if !reported[entry+j.name] && bad != "panic (reported)" {
							reported[entry+j.name] = true
							r.viol(i, entry, ruleConcurrent, gen+"/"+j.name, witness(j.fw, j.exp.Layout, j.banks, j.mode, more),
								"with %d goroutines calling at the same time, failing calls among them, %s: %s", nG, j.name, bad)
						}
					}
					mu.Unlock()
				}
			}
		}(g)
	}
	close(start)
	wg.Wait()
	r.brk.start.Store(0)
	c.Max("concurrent/batch_process_cpu_ms", (procCPU()-cpu0)/1e6)
	r.brk.limit.Store(int64(callCPULimit))
	c.Eval(nG * rounds * len(jobs))
	c.Count("concurrent-with-failing/good-calls-equal", good)
	c.Count("concurrent-with-failing/failing-calls/error", failErr)
	c.Count("concurrent-with-failing/failing-calls/no-error-or-panic", failOther)
	r.aud.cfGood += good
	r.aud.cfFailErr += failErr
	r.concOK += good
	if good == goodWant && failErr > 0 {
		r.aud.cfFullyEqual++
		c.Cell("concurrent-with-failing|g=%s|images=%d|good=%s|failing=%s", bucket(nG/2), nImg, bucket((len(jobs)-nBad)/2), bucket(nBad))
	}
}

// auditSummary writes the counters and floors of the three families.
func (r *runner) auditSummary() {
	c := r.c
	a := &r.aud
	for _, k := range append(append([]string{}, failKinds...), "rows-unknown-shape") {
		c.Count("sequence/failing-call-returned-error/"+k, a.failErr[k])
		c.Count("sequence/judged-equal-right-after-failing-call/"+k, a.afterFail[k])
		c.Floor("sequence/judged-right-after-failing-call/"+k, a.afterFail[k] > 0)
	}
	for k, v := range a.optsTrans {
		c.Count("sequence/options-value-reused/"+k, v)
	}
	c.Count("sequence/judged-equal-right-after-refill-in-place/same-size", a.refillSame)
	c.Count("sequence/judged-equal-right-after-refill-in-place/other-size", a.refillOther)
	c.Count("sequence/judged-equal-right-after-caller-wrote-over-results", a.afterScrib)
	c.Count("sequence/judged-equal-right-after-caller-wrote-over-tempmem-buffers", a.scribTemp)
	c.Count("sequence/judged-equal-with-kept-bank-slice", a.bankKept)
	c.Count("sequence/rows-equal-through-kept-request", a.rowsKeptReq)
	c.Count("sequence/interleaved-measurement-values-equal", a.measAPI)
	c.Floor("sequence/image-buffer-refilled-in-place-same-size", a.refillSame > 0)
	c.Floor("sequence/image-buffer-refilled-in-place-other-size", a.refillOther > 0)
	c.Floor("sequence/options-reused-legacy-early-to-legacy", a.optsTrans["legacy-early->legacy"] > 0)
	c.Floor("sequence/options-reused-legacy-to-default", a.optsTrans["legacy->default"]+a.optsTrans["legacy-early->default"] > 0)
	c.Floor("sequence/options-reused-after-failed-call", a.optsFailed > 0)
	c.Floor("sequence/judged-after-caller-wrote-over-tempmem-buffers", a.scribTemp > 0)
	c.Floor("sequence/kept-bank-slice-judged", a.bankKept > 0)
	c.Floor("sequence/rows-through-kept-request", a.rowsKeptReq > 0)
	c.Floor("sequence/interleaved-measurement-values", a.measAPI > 0)
	c.Count("capacity/tdhob-exactly-full-equal", a.fitExact)
	c.Count("capacity/more-than-255-descriptors-equal", a.fit255)
	c.Count("capacity/more-than-65535-descriptor-bytes-equal", a.fit1365)
	c.Count("capacity/more-than-10-sections-equal", a.fitManySec)
	c.Count("capacity/one-too-many-returned-error", a.fitOverflow)
	c.Floor("capacity/tdhob-exactly-full-measured", a.fitExact > 0)
	c.Floor("capacity/more-than-255-descriptors-measured", a.fit255 > 0)
	c.Floor("capacity/more-than-65535-descriptor-bytes-measured", a.fit1365 > 0)
	c.Floor("capacity/more-than-10-sections-measured", a.fitManySec > 0)
	c.Floor("concurrent-with-failing/good-calls-compared-next-to-failing-ones", a.cfGood > 0 && a.cfFailErr > 0 && a.cfFullyEqual > 0)
}
