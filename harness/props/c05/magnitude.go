package c05

// Magnitude family: the SIZES the metadata declares, at and around the limits of what is valid.
//
// Every other family declares a few pages to a few MiB of TD-HOB / temporary memory. The repository
// refuses images whose TD-HOB and temporary-memory sections add up to MORE than 64 MiB (its documented
// resource bound, DESIGN 8.2 F08: "combined TD-HOB + temporary-memory size <= 64 MiB"; the message of
// the validation says "larger than 0x4000000 bytes"), so a layout that adds up to exactly the bound, or
// to a page less, is valid TDVF metadata and has an MRTD like any other. The family draws the total
// from strata around the bound (the bound itself, one page under, a few pages under, half of it, the
// 16 MiB where one section passes 65536 MR.EXTEND chunks, anything between 1 MiB and the bound), cuts
// it into 1..6 sections in every way (the TD-HOB alone, one large temporary-memory section, two exact
// halves, equal parts, single pages plus the rest), declares them in any order between the firmware
// volumes (images up to 2 MiB, so that firmware volumes and scratch memory together exceed the bound),
// optionally with empty temporary-memory sections that follow the section at which the bound is
// reached, and optionally after a call for a layout that is past the bound (one page more, one more
// section, the bound itself more; made for what it leaves behind, counted, never judged).
//
// The verdicts are those of every other family (valid-rejected, mrtd-mismatch, region-*, tdhob-*,
// unsigned-rows, regions-changed-after-later-call).

import (
	"fmt"
	"math/rand/v2"
	"sort"

	"github.com/google/gce-tcb-verifier/tdx"

	"verifharness/props/c05/tdxref"
)

const (
	// scratchBound: TD-HOB + temporary memory may add up to this many bytes, and not to more.
	scratchBound      = 64 * tdxref.MiB
	scratchBoundPages = scratchBound / page
	// largeScratch: above this total the legacy modes (which hash every byte three times here: model,
	// tdx.MRTD, retained regions) run for every fourth case only and nothing is retained across modes.
	largeScratch = 8 * tdxref.MiB
)

type magStats struct {
	atBound        map[tdxref.Mode]int // judged-equal MRTDs with the total exactly at the bound
	underBound     map[tdxref.Mode]int // ... one page under
	other          map[tdxref.Mode]int
	afterOverBound int // judged-equal at-bound measurements right after a call past the bound
	emptyAfterFull int // judged-equal with an empty section declared after the bound was reached
	bigSection     int // judged-equal in a legacy mode with one section of >= 16 MiB (65536+ chunks)
	fvPlusOver     int // judged-equal where firmware volumes + scratch memory exceed the bound
	overErr        int
	overNoErr      int
	rows           int
	small          int // judged-equal with a total of 1..8 MiB: all three modes, each result retained while the others run
}

func newMagStats() magStats {
	return magStats{atBound: map[tdxref.Mode]int{}, underBound: map[tdxref.Mode]int{}, other: map[tdxref.Mode]int{}}
}

// scratchTotal adds up the TD-HOB and temporary-memory sizes; over = the sum is past the bound (or wrapped).
func scratchTotal(secs []tdxref.Section) (total uint64, over bool) {
	for _, s := range secs {
		if s.Type != tdxref.TypeTDHOB && s.Type != tdxref.TypeTempMem {
			continue
		}
		if s.MemSize > scratchBound || total+s.MemSize > scratchBound {
			over = true
		}
		total += s.MemSize
	}
	return total, over
}

// composePages cuts total pages into n parts >= 1 page.
func composePages(r *rand.Rand, total uint64, n int, how string) []uint64 {
	parts := make([]uint64, n)
	switch how {
	case "equal":
		for k := range parts {
			parts[k] = total / uint64(n)
		}
		parts[r.IntN(n)] += total % uint64(n)
	case "small+rest":
		left := total
		for k := 1; k < n; k++ {
			parts[k] = uint64(1 + r.IntN(16))
			if r.IntN(3) == 0 {
				parts[k] = 1
			}
			left -= parts[k]
		}
		parts[0] = left
		r.Shuffle(n, func(a, b int) { parts[a], parts[b] = parts[b], parts[a] })
	default: // uniform cuts
		seen := map[uint64]bool{}
		var cuts []uint64
		for len(cuts) < n-1 {
			x := 1 + r.Uint64N(total-1)
			if !seen[x] {
				seen[x] = true
				cuts = append(cuts, x)
			}
		}
		sort.Slice(cuts, func(a, b int) bool { return cuts[a] < cuts[b] })
		prev := uint64(0)
		for k, x := range cuts {
			parts[k] = x - prev
			prev = x
		}
		parts[n-1] = total - prev
	}
	return parts
}

// magSpec draws a model-valid layout whose TD-HOB and temporary-memory sections have the given sizes
// (in pages; scratch[hob] is the TD-HOB), with nfv firmware volumes partitioning an image of imgPages.
func magSpec(r *rand.Rand, scratch []uint64, hob, imgPages, nfv int) *spec {
	sp := &spec{Feat: map[string]bool{}, Size: imgPages * page}
	type proto struct {
		typ   uint32
		pages uint64
	}
	fvPages := make([]uint64, nfv)
	for k := range fvPages {
		fvPages[k] = 1
	}
	for k := nfv; k < imgPages; k++ {
		fvPages[r.IntN(nfv)]++
	}
	ps := []proto{{tdxref.TypeBFV, fvPages[0]}}
	for k := 1; k < nfv; k++ {
		ps = append(ps, proto{uint32(r.IntN(2)), fvPages[k]})
	}
	for k, p := range scratch {
		t := uint32(tdxref.TypeTempMem)
		if k == hob {
			t = tdxref.TypeTDHOB
		}
		ps = append(ps, proto{t, p})
	}
	r.Shuffle(len(ps), func(a, b int) { ps[a], ps[b] = ps[b], ps[a] })
	// data: the firmware volumes partition the image, slots handed out in a random order
	slotOf := map[int]int{}
	{
		var fvIdx []int
		for k, p := range ps {
			if p.typ <= tdxref.TypeCFV {
				fvIdx = append(fvIdx, k)
			}
		}
		r.Shuffle(len(fvIdx), func(a, b int) { fvIdx[a], fvIdx[b] = fvIdx[b], fvIdx[a] })
		off := 0
		for _, k := range fvIdx {
			slotOf[k] = off
			off += int(ps[k].pages) * page
		}
	}
	sizes := make([]uint64, len(ps))
	sp.Sections = make([]tdxref.Section, len(ps))
	for k, p := range ps {
		s := &sp.Sections[k]
		s.Type = p.typ
		s.MemSize = p.pages * page
		switch p.typ {
		case tdxref.TypeBFV, tdxref.TypeCFV:
			s.DataOffset, s.DataSize = uint32(slotOf[k]), uint32(s.MemSize)
			if r.IntN(4) > 0 {
				s.Attr = tdxref.AttrExtendMR
			}
		case tdxref.TypeTDHOB:
			if r.IntN(4) == 0 {
				s.Attr = tdxref.AttrExtendMR
			}
		}
		// temporary memory stays unflagged: flagged, its default-mode contents are not defined by the property
		if r.IntN(10) == 0 {
			s.Attr |= r.Uint32() &^ 1 // undefined attribute bits
		}
		if p.typ >= tdxref.TypeTDHOB && r.IntN(5) == 0 { // data fields of non-FV sections are not meaningful
			s.DataOffset, s.DataSize = r.Uint32(), r.Uint32()
		}
		sizes[k] = s.MemSize
	}
	bases := placeMemory(r, sizes)
	for k := range sp.Sections {
		sp.Sections[k].MemBase = bases[k]
	}
	return sp
}

// finishSpec chooses the descriptor offset once the section list is final. ok=false: no room.
func finishSpec(r *rand.Rand, sp *spec, spare int) bool {
	need := 16 + 32*(len(sp.Sections)+spare)
	maxOff := sp.Size - tableReserve - need
	if maxOff < 16 {
		return false
	}
	sp.DescOff = (16 + r.IntN(maxOff-16+1)) &^ 15
	if sp.DescOff < 16 {
		sp.DescOff = 16
	}
	return true
}

func (r *runner) caseMagnitude(i, idx int) {
	c := r.c
	rr := c.Rand(i)
	// ---- the total, by stratum (decided by the case's position in the family, so every run has every stratum) ----
	// slot: the 16 kinds of case rotate by one from block to block, so that every shard (case number modulo 8 or 16)
	// gets every kind and the expensive ones are not all on the same shard.
	slot := (idx%16 + idx/16) % 16
	var total uint64 // pages
	stratum := ""
	switch slot % 8 {
	case 0, 1, 2, 3:
		total, stratum = scratchBoundPages, "bound"
	case 4:
		total, stratum = scratchBoundPages-1, "bound-1page"
	case 5:
		total = []uint64{scratchBoundPages / 2, scratchBoundPages/2 - 1, scratchBoundPages/2 + 1, 4096, 4095, 4097}[rr.IntN(6)]
		stratum = "half-or-16MiB"
	case 6:
		total, stratum = scratchBoundPages-uint64(2+rr.IntN(63)), "bound-few-pages"
	default:
		total, stratum = 256+rr.Uint64N(scratchBoundPages-256+1), "1MiB..bound"
		if slot == 7 { // small enough for all three modes with the results of each retained across the others
			total = 256 + rr.Uint64N(largeScratch/page-256+1)
		}
	}
	// ---- the cut ----
	n := 1 + rr.IntN(6)
	how := []string{"uniform", "equal", "small+rest", "small+rest"}[rr.IntN(4)]
	switch rr.IntN(8) {
	case 0:
		n, how = 1, "tdhob-alone"
	case 1:
		n, how = 2, "small+rest" // a small TD-HOB and one large temporary-memory section (or the other way round)
	case 2:
		if total%2 == 0 {
			n, how = 2, "equal" // two exact halves
		}
	}
	var parts []uint64
	if n == 1 {
		parts, how = []uint64{total}, "tdhob-alone"
	} else {
		parts = composePages(rr, total, n, how)
	}
	hob := rr.IntN(n)
	// ---- the image ----
	var imgPages int
	switch k := rr.IntN(20); {
	case k < 14:
		imgPages = 2 + rr.IntN(15)
	case k < 19:
		imgPages = 17 + rr.IntN(48)
	default:
		imgPages = 512
	}
	nfv := 1 + rr.IntN(min(3, imgPages))
	sp := magSpec(rr, parts, hob, imgPages, nfv)
	feat := map[string]bool{"scratch=" + stratum: true, "cut=" + how: true}
	// empty temporary-memory sections: after the section at which the running total reaches its final value
	// (for the strata at the bound: after the bound was reached), or anywhere
	emptyAfterFull := false
	if rr.IntN(3) == 0 {
		for k := 1 + rr.IntN(2); k > 0; k-- {
			lastScratch := 0
			for x, s := range sp.Sections {
				if (s.Type == tdxref.TypeTDHOB || s.Type == tdxref.TypeTempMem) && s.MemSize != 0 {
					lastScratch = x
				}
			}
			o := sp.Sections[rr.IntN(len(sp.Sections))]
			z := tdxref.Section{Type: tdxref.TypeTempMem, MemBase: o.End()}
			pos := rr.IntN(len(sp.Sections) + 1)
			if rr.IntN(3) > 0 {
				pos = lastScratch + 1 + rr.IntN(len(sp.Sections)-lastScratch)
			}
			if pos > lastScratch {
				emptyAfterFull = true
			}
			sp.Sections = append(sp.Sections[:pos], append([]tdxref.Section{z}, sp.Sections[pos:]...)...)
		}
		feat["zero-size-sec"] = true
		feat["empty-sec-after-total-reached"] = emptyAfterFull
	}
	gen := fmt.Sprintf("magnitude/%s/%s/%dscratch-sections/%dpages/%dKiB-image", stratum, how, n, total, sp.Size>>10)
	c.Begin(i, gen, "all", nil)
	defer c.End(i)
	if !finishSpec(rr, sp, 1) {
		c.Count("magnitude/construction-missed", 1)
		return
	}
	fw := buildImage(rr, sp)
	if !r.selfCheck(i, gen, fw, sp) {
		return
	}
	if tot, over := scratchTotal(sp.Sections); over || tot != total*page {
		c.Count("magnitude/construction-missed", 1)
		return
	}
	big := false
	for _, s := range sp.Sections {
		if s.MemSize >= 16*tdxref.MiB {
			big = true
			feat["section>=16MiB"] = true
			if s.Type == tdxref.TypeTDHOB {
				feat["tdhob>=16MiB"] = true
			}
		}
	}
	fvOver := uint64(sp.Size)+total*page > scratchBound
	feat["fv+scratch>bound"] = fvOver
	c.Max("magnitude/scratch_bytes", int64(total*page))

	// ---- optionally first: a layout PAST the bound (no verdict; what it leaves behind is what matters) ----
	afterOver := false
	if rr.IntN(3) == 0 {
		secs := append([]tdxref.Section{}, sp.Sections...)
		var idxs []int
		for k, s := range secs {
			if (s.Type == tdxref.TypeTDHOB || s.Type == tdxref.TypeTempMem) && s.MemSize != 0 {
				idxs = append(idxs, k)
			}
		}
		kind := ""
		need := scratchBoundPages - total + 1 // pages to add to get one page past the bound
		switch rr.IntN(3) {
		case 0:
			kind = "one-page-past"
			secs[idxs[rr.IntN(len(idxs))]].MemSize += need * page
		case 1:
			kind = "one-more-section"
			secs = append(secs, tdxref.Section{Type: tdxref.TypeTempMem, MemBase: (maxEnd(secs, nil) + 2*page) &^ (page - 1), MemSize: need * page})
		default:
			kind = "bound-more" // harmless whatever a broken build does with it: 128 MiB at most
			secs[idxs[rr.IntN(len(idxs))]].MemSize += scratchBound
		}
		if _, over := scratchTotal(secs); over {
			img := append([]byte{}, fw...)
			writeSections(img, sp.DescOff, secs)
			m := modes[rr.IntN(3)]
			useMRTD := rr.IntN(2) == 0
			entry := entryFor(m)
			if useMRTD {
				entry = eMRTD
			}
			out := r.unjudged(i, entry, gen+"/past-the-bound/"+kind+"/"+m.String(), func() error {
				if useMRTD {
					_, err := tdx.MRTD(optsFor(m, nil), img)
					return err
				}
				_, err := extractFor(m, img, nil)
				return err
			})
			c.Count("magnitude/past-the-bound/"+kind+"/"+entry+"/"+out, 1)
			if out == "error" {
				r.mag.overErr++
				afterOver = true
				feat["after-call-past-the-bound"] = true
			} else {
				r.mag.overNoErr++
			}
		}
	}

	// ---- the judged calls ----
	var banks []tdxref.Range
	if rr.IntN(3) == 0 {
		banks = tdxref.Shapes[rr.IntN(len(tdxref.Shapes))].Banks
		feat["shape"] = true
	} else {
		banks = genBanks(rr, sp.Sections, feat)
	}
	large := total*page > largeScratch
	ms := []tdxref.Mode{tdxref.ModeDefault}
	switch {
	case !large:
		ms = append([]tdxref.Mode{}, modes...) // a copy: the order is changed below
	case slot%4 == 0: // strata "bound" and "bound-1page"
		ms = append(ms, modes[1+rr.IntN(2)])
	}
	if rr.IntN(2) == 0 { // the order of the modes is the caller's
		ms[0], ms[len(ms)-1] = ms[len(ms)-1], ms[0]
	}
	for _, m := range ms {
		eq := r.measure(i, "magnitude", gen, fw, banks, []tdxref.Mode{m}, feat, false)
		if large {
			r.flushKept(i) // the regions of one large result are tens of MiB
		}
		if eq != 1 {
			continue
		}
		if !large {
			r.mag.small++
		}
		c.Count("magnitude/measured-equal/"+stratum+"/"+m.String(), 1)
		switch stratum {
		case "bound":
			r.mag.atBound[m]++
			if afterOver {
				r.mag.afterOverBound++
			}
		case "bound-1page":
			r.mag.underBound[m]++
		default:
			r.mag.other[m]++
		}
		if emptyAfterFull {
			r.mag.emptyAfterFull++
		}
		if big && m != tdxref.ModeDefault {
			r.mag.bigSection++
		}
		if fvOver {
			r.mag.fvPlusOver++
		}
	}
	r.flushKept(i)

	// ---- endorsement rows for a layout at the bound: the default row, and for every 16th case one shape ----
	if slot%8 == 2 {
		req := &tdx.EndorsementRequest{Svn: rr.Uint32()}
		if slot == 2 {
			req.MachineShapes = []string{tdxref.Shapes[rr.IntN(len(tdxref.Shapes))].Name}
		}
		g := fmt.Sprintf("%s/rows/%dshapes", gen, len(req.MachineShapes))
		if r.judgeRows(i, g, fw, req, "magnitude") {
			r.mag.rows++
			c.Cell("magnitude|rows|%s|shapes=%d", stratum, len(req.MachineShapes))
		}
		r.flushKept(i)
	}
}

func (r *runner) magnitudeSummary() {
	c := r.c
	g := &r.mag
	sum := func(m map[tdxref.Mode]int, legacyOnly bool) (n int) {
		for k, v := range m {
			if !legacyOnly || k != tdxref.ModeDefault {
				n += v
			}
		}
		return
	}
	c.Count("magnitude/scratch-exactly-at-bound-equal", sum(g.atBound, false))
	c.Count("magnitude/scratch-exactly-at-bound-equal/legacy-modes", sum(g.atBound, true))
	c.Count("magnitude/scratch-one-page-under-bound-equal", sum(g.underBound, false))
	c.Count("magnitude/scratch-other-totals-equal", sum(g.other, false))
	c.Count("magnitude/at-bound-equal-right-after-call-past-the-bound", g.afterOverBound)
	c.Count("magnitude/equal-with-empty-section-after-total-reached", g.emptyAfterFull)
	c.Count("magnitude/equal-with-section-of-16MiB-or-more-extended", g.bigSection)
	c.Count("magnitude/equal-with-fv-plus-scratch-past-bound", g.fvPlusOver)
	c.Count("magnitude/past-the-bound-returned-error", g.overErr)
	c.Count("magnitude/past-the-bound-returned-no-error", g.overNoErr)
	c.Count("magnitude/rows-equal-at-bound", g.rows)
	c.Floor("magnitude/scratch-exactly-at-bound-measured/default", g.atBound[tdxref.ModeDefault] > 0)
	c.Floor("magnitude/scratch-exactly-at-bound-measured/legacy-modes", sum(g.atBound, true) > 0)
	c.Floor("magnitude/scratch-one-page-under-bound-measured", sum(g.underBound, false) > 0)
	c.Count("magnitude/equal-with-1-to-8-MiB-all-modes-retained", g.small)
	c.Floor("magnitude/section-of-16MiB-or-more-extended", g.bigSection > 0)
	c.Floor("magnitude/1-to-8-MiB-measured-in-all-modes", g.small > 0)
}
