package c05

import (
	"bytes"
	"encoding/hex"
	"fmt"
	"runtime"
	"sync"

	"github.com/google/gce-tcb-verifier/ovmf"
	"github.com/google/gce-tcb-verifier/tdx"

	"verifharness/core"
	"verifharness/props/c05/tdxref"
)

// ---- retention: what an Extract* call returned must stay what the model prescribes for THAT call,
// also after later calls for other bank lists / modes / images (no buffer shared between results). ----

const (
	ruleRetained   = "regions-changed-after-later-call"
	ruleConcurrent = "concurrent-call-differs-from-model"
	keepMax        = 3
)

type kept struct {
	entry, gen string
	fw         []byte
	exp        *tdxref.Expected
	banks      []tdxref.Range
	mode       tdxref.Mode
	regions    []*ovmf.MaterialGuestPhysicalRegion
	reported   bool
}

// digestOfRegions measures returned regions with the model's record stream (the mode decides which
// sections are extended, exactly as in the single-call oracle).
func digestOfRegions(exp *tdxref.Expected, m tdxref.Mode, regions []*ovmf.MaterialGuestPhysicalRegion) ([48]byte, error) {
	regs := make([]tdxref.RegionData, len(regions))
	for k, g := range regions {
		regs[k] = tdxref.RegionData{Base: uint64(g.GPR.Start), Size: g.GPR.Length, Data: g.HostBuffer, Extend: tdxref.Extended(exp.Layout.Sections[k], m)}
	}
	return tdxref.DigestRegions(regs)
}

// keep remembers a result that compared equal; the oldest of more than keepMax is measured once more and dropped.
func (r *runner) keep(i int, k *kept) {
	r.kept = append(r.kept, k)
	if len(r.kept) > keepMax {
		r.recheckDigest(i, r.kept[0], "dropped from the retention window")
		r.kept = r.kept[1:]
	}
}

// recheckKept looks at the TD-HOB bytes of every retained result after a later call.
func (r *runner) recheckKept(i int, later string) {
	for _, k := range r.kept {
		if k.reported {
			continue
		}
		r.c.Count("retention/tdhob-rechecks", 1)
		hob := k.regions[k.exp.HOBIndex].HostBuffer
		if !bytes.Equal(hob, k.exp.HOB) {
			k.reported = true
			rule, detail := tdxref.CheckHOB(hob, k.exp.Layout.Sections, k.exp.Unaccepted, k.mode.EarlyAll(), k.exp.Layout.Sections[k.exp.HOBIndex].MemBase, k.exp.Layout.Sections[k.exp.HOBIndex].MemSize)
			r.viol(i, k.entry, ruleRetained, k.gen, witness(k.fw, k.exp.Layout, k.banks, k.mode, map[string]any{"later_call": later,
				"tdhob_now": hex.EncodeToString(trim(hob)), "tdhob_want": hex.EncodeToString(trim(k.exp.HOB))}),
				"TD-HOB bytes of an earlier result (equal to the model when it was returned) changed after the later call %s: now %s %s", later, rule, detail)
		}
	}
}

func (r *runner) recheckDigest(i int, k *kept, when string) {
	if k.reported || (k.mode == tdxref.ModeDefault && hasTempExtend(k.exp.Layout.Sections)) {
		return
	}
	r.c.Count("retention/digest-rechecks", 1)
	d, err := digestOfRegions(k.exp, k.mode, k.regions)
	if err != nil || d != k.exp.MRTD {
		k.reported = true
		r.viol(i, k.entry, ruleRetained, k.gen, witness(k.fw, k.exp.Layout, k.banks, k.mode, map[string]any{"when": when, "digest_now": hex.EncodeToString(d[:]), "want": hex.EncodeToString(k.exp.MRTD[:])}),
			"digest measured from an earlier result's regions (%s) is %x..., the model for that call is %x... (err=%v)", when, d[:6], k.exp.MRTD[:6], err)
		return
	}
	r.retainedOK++
}

// flushKept ends a case: every retained result is measured once more, then forgotten (retention never
// crosses a case boundary, so a replay of one case sees the same sequence of calls).
func (r *runner) flushKept(i int) {
	for _, k := range r.kept {
		r.recheckDigest(i, k, "end of case")
	}
	r.kept = nil
}

// ---- concurrent family: the same calls from several goroutines at once; every result must be the model's. ----

type job struct {
	fw    []byte
	banks []tdxref.Range
	mode  tdxref.Mode
	exp   *tdxref.Expected
	name  string
	// extract: call the regions entry point instead of tdx.MRTD, let other goroutines run, then look at the result
	extract bool
}

func (r *runner) caseConcurrent(i int) {
	c := r.c
	rr := c.Rand(i)
	nImg := 1 + rr.IntN(3)
	var jobs []*job
	for k := 0; k < nImg; k++ {
		sp := genSpec(rr)
		for tries := 0; sp.Size > 128<<10 && (tries < 20 && !(k == 0 && i%8 == 0 && sp.Size <= 1<<20)); tries++ {
			sp = genSpec(rr) // mostly small images; every 8th case keeps one up to 1 MiB so that calls overlap for milliseconds
		}
		fw := buildImage(rr, sp)
		if !r.selfCheck(i, "concurrent", fw, sp) {
			return
		}
		var lists [][]tdxref.Range
		var names []string
		for _, x := range rr.Perm(len(tdxref.Shapes))[:2+rr.IntN(3)] {
			lists = append(lists, tdxref.Shapes[x].Banks)
			names = append(names, tdxref.Shapes[x].Name)
		}
		for n := 1 + rr.IntN(3); n > 0; n-- {
			lists = append(lists, genBanks(rr, sp.Sections, map[string]bool{}))
			names = append(names, "generated")
		}
		for li, b := range lists {
			for _, m := range modes {
				if m == tdxref.ModeDefault && li > 0 {
					continue
				}
				mb := b
				if m == tdxref.ModeDefault {
					mb = nil
				}
				exp, err := tdxref.Measure(fw, mb, m)
				if err != nil || (m == tdxref.ModeDefault && hasTempExtend(exp.Layout.Sections)) {
					continue
				}
				jobs = append(jobs, &job{fw: fw, banks: mb, mode: m, exp: exp, name: fmt.Sprintf("img%d/%s/%s", k, names[li], m), extract: rr.IntN(3) == 0})
			}
		}
	}
	nG := 4 + rr.IntN(13)
	rounds := 2 + rr.IntN(3)
	// bound the work of one case (~32 MiB of image bytes measured in total, a few hundred ms of CPU)
	rr.Shuffle(len(jobs), func(a, b int) { jobs[a], jobs[b] = jobs[b], jobs[a] })
	perRound := func() (n int) { // bytes hashed per pass over the job list (record stream incl. temporary memory; twice when the regions are measured again)
		for _, j := range jobs {
			b := j.exp.PageAdds*128 + j.exp.Extends*384
			if j.extract {
				b *= 2
			}
			n += b
		}
		return
	}
	for nG*rounds*perRound() > 32<<20 {
		switch {
		case rounds > 1:
			rounds--
		case len(jobs) > 6:
			jobs = jobs[:len(jobs)-1]
		case nG > 4:
			nG--
		default:
			jobs = jobs[:len(jobs)-1]
		}
		if len(jobs) < 2 {
			break
		}
	}
	gen := fmt.Sprintf("concurrent/%dgoroutines/%dimages/%djobs/%drounds", nG, nImg, len(jobs), rounds)
	c.Begin(i, gen, "all", nil)
	defer c.End(i)
	if len(jobs) < 2 {
		return
	}
	// each goroutine walks the job list from its own offset, so different configurations are in flight together
	orders := make([][]int, nG)
	for g := range orders {
		orders[g] = rr.Perm(len(jobs))
	}
	var wg sync.WaitGroup
	var mu sync.Mutex
	okCalls, okExtract := 0, 0
	reported := map[string]bool{}
	start := make(chan struct{})
	r.brk.cas.Store(int64(i))
	r.brk.entry.Store(eMRTD)
	r.brk.gen.Store(gen)
	r.brk.limit.Store(int64(batchCPULimit)) // the whole batch is one guarded unit: ~0.3 s of honest work
	cpu0 := procCPU()
	r.brk.start.Store(cpu0 | 1)
	for g := 0; g < nG; g++ {
		wg.Add(1)
		go func(g int) {
			defer wg.Done()
			<-start
			for round := 0; round < rounds; round++ {
				for _, ji := range orders[g] {
					j := jobs[ji]
					entry := eMRTD
					if j.extract {
						entry = map[tdxref.Mode]string{tdxref.ModeDefault: eDefault, tdxref.ModeLegacy: eLegacy, tdxref.ModeLegacyEarly: eEarly}[j.mode]
					}
					bad := ""
					more := map[string]any{"goroutines": nG, "job": j.name}
					func() {
						defer func() {
							if p := recover(); p != nil {
								c.Violate(core.Violation{Kind: "panic", Entry: entry, Site: "concurrent-call-panic", Gen: gen + "/" + j.name, Case: i, Detail: fmt.Sprint(p)})
							}
						}()
						if !j.extract {
							got, err := tdx.MRTD(optsFor(j.mode, j.banks), j.fw)
							if err != nil {
								bad = fmt.Sprintf("error %v", err)
							} else if got != j.exp.MRTD {
								bad = fmt.Sprintf("MRTD %x..., model (and every serial call) %x...", got[:6], j.exp.MRTD[:6])
								more["got"] = hex.EncodeToString(got[:])
								more["want"] = hex.EncodeToString(j.exp.MRTD[:])
							}
							return
						}
						var regions []*ovmf.MaterialGuestPhysicalRegion
						var err error
						gb := toGPR(j.banks)
						switch j.mode {
						case tdxref.ModeDefault:
							regions, err = ovmf.ExtractMaterialGuestPhysicalRegions(j.fw)
						case tdxref.ModeLegacy:
							regions, err = ovmf.ExtractMaterialGuestPhysicalRegionsTDHOBBug(j.fw, gb)
						default:
							regions, err = ovmf.ExtractMaterialGuestPhysicalRegionsNoUnacceptedMemory(j.fw, gb)
						}
						runtime.Gosched() // the result belongs to this caller: others running now must not change it
						runtime.Gosched()
						switch {
						case err != nil:
							bad = fmt.Sprintf("error %v", err)
						case len(regions) != len(j.exp.Layout.Sections) || regions[j.exp.HOBIndex] == nil:
							bad = fmt.Sprintf("%d regions", len(regions))
						case !bytes.Equal(regions[j.exp.HOBIndex].HostBuffer, j.exp.HOB):
							rule, detail := tdxref.CheckHOB(regions[j.exp.HOBIndex].HostBuffer, j.exp.Layout.Sections, j.exp.Unaccepted, j.mode.EarlyAll(),
								j.exp.Layout.Sections[j.exp.HOBIndex].MemBase, j.exp.Layout.Sections[j.exp.HOBIndex].MemSize)
							bad = fmt.Sprintf("TD-HOB bytes differ from the model: %s %s", rule, detail)
						default:
							d, derr := digestOfRegions(j.exp, j.mode, regions)
							if derr != nil || d != j.exp.MRTD {
								bad = fmt.Sprintf("digest of the returned regions %x..., model %x... (%v)", d[:6], j.exp.MRTD[:6], derr)
							}
						}
					}()
					mu.Lock()
					if bad == "" {
						if j.extract {
							okExtract++
						} else {
							okCalls++
						}
					} else if !reported[entry+j.name] {
						reported[entry+j.name] = true
						r.viol(i, entry, ruleConcurrent, gen+"/"+j.name, witness(j.fw, j.exp.Layout, j.banks, j.mode, more), "with %d goroutines calling at the same time, %s: %s", nG, j.name, bad)
					}
					mu.Unlock()
				}
			}
		}(g)
	}
	close(start)
	wg.Wait()
	r.brk.start.Store(0)
	c.Max("concurrent/batch_process_cpu_ms", (procCPU()-cpu0)/1e6)
	r.brk.limit.Store(int64(callCPULimit))
	c.Eval(nG * rounds * len(jobs))
	c.Count("concurrent/tdx.MRTD-equal", okCalls)
	c.Count("concurrent/extract-equal", okExtract)
	c.Max("concurrent/goroutines", int64(nG))
	r.concOK += okCalls + okExtract
	if okCalls+okExtract == nG*rounds*len(jobs) {
		c.Cell("concurrent|g=%s|images=%d|jobs=%s", bucket(nG/2), nImg, bucket(len(jobs)/2))
	}
}
