// Package c05: the TDX golden MRTD equals the TDX build-time measurement of the TDVF layout.
//
// Monitor: an independent reference model (props/c05/tdxref: TDVF metadata reader + validity
// predicate, TD-HOB builder and TD-HOB decoder, MEM.PAGE.ADD / MR.EXTEND record stream, own machine
// shape table) is compared with what the real repository code returns at the public boundary:
// tdx.MRTD, ovmf.ExtractMaterialGuestPhysicalRegions{,TDHOBBug,NoUnacceptedMemory},
// tdx.LaunchOptionsDefaultTDHOBBug and tdx.UnsignedTDX.
package c05

import (
	"bytes"
	"crypto/sha256"
	"encoding/base64"
	"encoding/hex"
	"fmt"
	"math/rand/v2"
	"os"
	"sort"
	"strings"
	"sync/atomic"
	"syscall"
	"testing"
	"time"

	"github.com/google/gce-tcb-verifier/ovmf"
	"github.com/google/gce-tcb-verifier/ovmf/abi"
	epb "github.com/google/gce-tcb-verifier/proto/endorsement"
	"github.com/google/gce-tcb-verifier/tdx"
	"github.com/google/gce-tcb-verifier/testing/fakeovmf"

	"verifharness/core"
	"verifharness/props/c05/tdxref"
)

func init() {
	core.Register(&core.Info{
		ID: "C05", Level: "exploration",
		Rule: "case kinds: (example) the repository's 2 MiB example image; (shapes) a generated model-valid TDVF image measured for each of the six GCE shapes through LaunchOptionsDefaultTDHOBBug in legacy and early-accept mode plus tdx.UnsignedTDX over a random shape list; " +
			"(layout) generated images 8 KiB..2 MiB with 2..8 metadata sections (+0..2 empty temporary-memory sections at any position, incl. before the TD HOB and last) in any declared order (types BFV/CFV/TD-HOB/TempMem, EXTEND on/off, undefined attribute bits, memory anywhere below 2^40: touching, straddling 3/4 GiB, data ranges partitioned or overlapping/unaligned, descriptor at any offset, extra GUID-table entries) " +
			"with generated non-overlapping RAM bank lists (touching, nested around sections, zero length, unsorted, unaligned, straddling 4 GiB, above 2^40) in the three launch modes; " +
			"(retention, inside shapes/layout/example) the regions of the previous 1-3 Extract* calls are kept while later calls for other modes / bank lists / images run, then looked at again; (concurrent) 4-16 goroutines call tdx.MRTD and ovmf.Extract* at the same time for different shapes / bank lists / modes on the same and on different images; " +
			"(grid) small-scope exhaustive: every placement of <=2 extra sections and <=2 banks (incl. an empty bank) on a 6-point page grid around 4 GiB, both legacy modes; " +
			"(sequence) one caller making 8-16 calls with values it keeps: one image buffer refilled in place (same and other length), one LaunchOptions value whose fields are changed between calls in every order, one bank slice refilled in place / handed in again / nil / empty, one EndorsementRequest; " +
			"between the judged calls: calls that fail at each place the repository can give up (metadata not found, descriptor, section validation, overlap after earlier regions were built, TD-HOB too small after all regions were built, unaligned base and EXTEND-flagged temporary memory after records were hashed, unknown shape after earlier rows) incl. in the caller's own buffer, the caller writing over generated results it got (TD-HOB and temporary-memory buffers, region structs, per-shape options, rows), two tdx.Measurement values fed in turn, early accept without measure-all (observed only); " +
			"(capacity) 2..84 sections and up to 1368 banks so that the TD-HOB section is exactly full / has one or two descriptors to spare / gets one too many first (TD-HOB of 1-4 and 6-30 pages; descriptor counts around 84, 169, 254, 340, 256 and 65536/48); " +
			"(concurrent-with-failing) 4-12 goroutines, failing calls of the same kinds among the good ones; " +
			"(magnitude) TD-HOB + temporary memory adding up to exactly the 64 MiB the repository allows / one page less / a few pages less / half of it / around 16 MiB (65536 MR.EXTEND chunks in one section) / 1 MiB..64 MiB, cut into 1-6 sections in every way (TD-HOB alone, one large section, exact halves, equal parts, single pages plus the rest) declared in any order between the firmware volumes of an 8 KiB..2 MiB image, " +
			"empty temporary-memory sections after the section that completes the total, first a call for a layout past the bound (one page, one section, 64 MiB more; counted, not judged), the three modes and the default / one-shape endorsement rows; " +
			"(directive) 1-3 EMPTY temporary-memory sections whose base lies strictly inside a firmware volume / the TD HOB / temporary memory (also two at one address; declared before or after the enclosing section, first, last, before the TD HOB; inside and at the edges of RAM banks), temporary memory flagged EXTEND in 1..all sections, " +
			"and for every extractor the returned regions measured the way they themselves direct: by the model's record stream with MR.EXTEND where the region's own EXTEND bit is set, by the repository's tdx.NewMeasurement() (follows the directive) and tdx.NewMeasurementTDHOBBug() (forces). " +
			"Oracle: for a model-valid image/configuration tdx.MRTD must return the model's SHA-384 record stream digest; regions returned by ovmf.Extract* must be the declared sections in declared order with the image bytes / the model's TD-HOB (decoded by an independent HOB reader: hand-off table, one system-memory descriptor per section, unaccepted = RAM minus sections ascending with the early-accept rule, end marker, zero padding); " +
			"shape bank lists must equal the model's table; every UnsignedTDX row must equal the model for its shape/mode; the grid's unaccepted descriptors must equal a per-page characteristic-function sweep. " +
			"regions measured as they direct must give the model's MRTD of the mode their extractor stands for (so the regions of the two legacy extractors say EXTEND for every section that has pages); a digest returned for a layout with EXTEND-flagged temporary memory in default mode must not be the stream in which a flagged section contributes page-add records only. " +
			"a result that equalled the model when it was returned must still do so (TD-HOB bytes, digest of its regions under the model's record stream) after later calls, and every concurrent call must return the model's value. " +
			"distinct non-trivial cell = (kind, mode, #sections bucket, #unaccepted bucket, layout features) with an MRTD that was computed and compared",
		Assumptions: []string{
			"the default launch configuration describes no guest RAM in the TD-HOB (tdx.LaunchOptionsDefault carries no banks and ovmf.ExtractMaterialGuestPhysicalRegions takes none); a bank list passed together with default mode is counted, not judged",
			"unaccepted memory is described bank by bank: adjacent banks are not merged (NUMA nodes stay separate descriptors)",
			"model-valid = signature/version/length, types 0..3, exactly one TD-HOB, >=1 BFV, FV data inside the image with data size = memory size and sizes adding up to the image size, page-aligned non-wrapping pairwise-disjoint memory ranges that are non-empty except for temporary memory (an empty temporary-memory section contributes its length-0 descriptor in declared order, no records, and does not take part in RAM-minus-sections), TD-HOB section large enough for its list; anything else carries no verdict here (C08)",
			"temporary-memory sections flagged EXTEND have no contents defined by the property: in default mode a refusal and an MRTD are counted, not judged (legacy modes measure zeros like every other temporary memory) - except that an MRTD equal to the record stream in which a flagged section contributes page-add records only is wrong whatever the contents are ('sections not flagged for extension contribute page-add records only')",
			"the regions returned by ovmf.ExtractMaterialGuestPhysicalRegionsTDHOBBug / ...NoUnacceptedMemory ARE the legacy measure-everything request as far as those entry points are concerned (their result is all a caller has): the EXTEND directive of every returned region that has pages must be set. LaunchOptions{DisableUnacceptedMemory} without MeasureAllRegions is a fourth flag combination outside the three modes: observed, not judged",
			"an empty temporary-memory section overlaps nothing wherever its base lies, also strictly inside another declared section or RAM bank",
			"valid metadata declares at most 64 MiB of TD-HOB plus temporary memory (the repository's documented resource bound, DESIGN 8.2 F08: '<= 64 MiB'; its validation refuses sizes 'larger than 0x4000000 bytes'): a total of exactly 64 MiB is judged like any other layout, a larger one is counted, not judged (C08)",
			"machine shapes: 4 GiB per vCPU, 3 GiB below the hole, 2 MiB firmware window below 4 GiB, NUMA nodes of 176 GiB above 4 GiB",
		},
		ShardsQuick: 8, ShardsThor: 16, TimeoutS: 600, TimeoutThor: 3000, UlimitVKB: 4 << 20, Run: run,
	})
}

const (
	eMRTD    = "tdx.MRTD"
	eDefault = "ovmf.ExtractMaterialGuestPhysicalRegions"
	eLegacy  = "ovmf.ExtractMaterialGuestPhysicalRegionsTDHOBBug"
	eEarly   = "ovmf.ExtractMaterialGuestPhysicalRegionsNoUnacceptedMemory"
	eShape   = "tdx.LaunchOptionsDefaultTDHOBBug"
	eRows    = "tdx.UnsignedTDX"
)

// guardBudget and the non-termination breaker are not part of the property: they only stop a broken
// build of the repository (an interval loop that never ends, a runaway allocation) from taking the
// machine down. The largest honest call costs ~25 ms CPU and ~4 MB.
var guardBudget = core.Budget{Alloc: 512 << 20}

const (
	callCPULimit  = 3 * time.Second  // process CPU spent inside one repository call before the shard gives up
	batchCPULimit = 90 * time.Second // same for one batch of concurrent calls (bounded to ~32 MiB of hashing, well under 1 s)
)

func procCPU() int64 {
	var ru syscall.Rusage
	if err := syscall.Getrusage(0, &ru); err != nil {
		return 0
	}
	// user time only (as core does): on a loaded machine the kernel charges reclaim / fault handling to
	// whoever faults, as system time; seen once: 3 s charged during a sub-millisecond grid call with the
	// machine at load 150. A repository loop that does not end burns user time.
	return ru.Utime.Nano()
}

// breaker ends the shard (violation recorded, summary written) when a repository call does not return:
// restarting after every such case would take hours when a defect makes most calls loop.
type breaker struct {
	start atomic.Int64 // process CPU at call start | 1; 0 = idle
	limit atomic.Int64 // 0 = callCPULimit
	cas   atomic.Int64
	entry atomic.Value
	gen   atomic.Value
}

func (b *breaker) watch(c *core.Ctx) {
	for {
		time.Sleep(100 * time.Millisecond)
		s := b.start.Load()
		lim := b.limit.Load()
		if lim == 0 {
			lim = int64(callCPULimit)
		}
		if s == 0 || procCPU()-s < lim {
			continue
		}
		entry, _ := b.entry.Load().(string)
		gen, _ := b.gen.Load().(string)
		c.Violate(core.Violation{Kind: "budget-cpu", Entry: entry, Site: entry, Gen: gen, Case: int(b.cas.Load()),
			Detail: fmt.Sprintf("call did not return within %v of CPU time (honest calls take ~25 ms); the shard stops here, later cases are unobserved", time.Duration(lim))})
		c.Note("a shard stopped early after a repository call that did not return")
		c.Finish()
		os.Exit(0)
	}
}

// guard = core.Guard (panic + allocation monitor) under the non-termination breaker.
func (r *runner) guard(i int, entry, gen string, f func()) core.Measured {
	r.brk.cas.Store(int64(i))
	r.brk.entry.Store(entry)
	r.brk.gen.Store(gen)
	r.brk.start.Store(procCPU() | 1)
	m := r.c.Guard(i, entry, gen, guardBudget, f)
	r.brk.start.Store(0)
	return m
}

var modes = []tdxref.Mode{tdxref.ModeDefault, tdxref.ModeLegacy, tdxref.ModeLegacyEarly}

type tb struct{ testing.TB }

func (tb) Helper()                   {}
func (tb) Fatalf(f string, a ...any) { panic(fmt.Sprintf("fakeovmf: "+f, a...)) }
func toGPR(b []tdxref.Range) []ovmf.GuestPhysicalRegion {
	if b == nil {
		return nil
	}
	out := make([]ovmf.GuestPhysicalRegion, len(b))
	for i, x := range b {
		out[i] = ovmf.GuestPhysicalRegion{Start: abi.EFIPhysicalAddress(x.Start), Length: x.Length}
	}
	return out
}

func fromGPR(b []ovmf.GuestPhysicalRegion) []tdxref.Range {
	out := make([]tdxref.Range, len(b))
	for i, x := range b {
		out[i] = tdxref.Range{Start: uint64(x.Start), Length: x.Length}
	}
	return out
}

func optsFor(m tdxref.Mode, banks []tdxref.Range) *tdx.LaunchOptions {
	switch m {
	case tdxref.ModeLegacy:
		return &tdx.LaunchOptions{GuestRAMBanks: toGPR(banks), MeasureAllRegions: true}
	case tdxref.ModeLegacyEarly:
		return &tdx.LaunchOptions{GuestRAMBanks: toGPR(banks), MeasureAllRegions: true, DisableUnacceptedMemory: true}
	}
	return tdx.LaunchOptionsDefault("")
}

func bucket(n int) string {
	switch {
	case n <= 2:
		return fmt.Sprint(n)
	case n <= 4:
		return "3-4"
	case n <= 8:
		return "5-8"
	}
	return "9+"
}

// features describes a configuration for the coverage cells.
func features(secs []tdxref.Section, banks, un []tdxref.Range, m tdxref.Mode, extra map[string]bool) string {
	f := map[string]bool{}
	for k, v := range extra {
		if v {
			f[k] = true
		}
	}
	ext, noext := false, false
	for _, s := range secs {
		if s.Attr&1 != 0 {
			ext = true
		} else {
			noext = true
		}
		if s.MemBase < 4*gib && s.End() > 4*gib {
			f["sec-straddles-4g"] = true
		}
		if s.MemSize == 0 {
			f["zero-size-sec"] = true
		}
	}
	if ext && noext {
		f["extend-mixed"] = true
	} else if ext {
		f["extend-all"] = true
	} else {
		f["extend-none"] = true
	}
	for i, s := range secs {
		if s.MemSize != 0 {
			continue
		}
		if i == len(secs)-1 {
			f["zero-size-last"] = true
		}
		for j := i + 1; j < len(secs); j++ {
			if secs[j].Type == tdxref.TypeTDHOB {
				f["zero-size-before-hob"] = true
			}
		}
	}
	for i := range secs {
		for j := range secs {
			if i != j && secs[i].MemSize != 0 && secs[j].MemSize != 0 && secs[i].End() == secs[j].MemBase {
				f["sec-touching"] = true
			}
		}
	}
	if m != tdxref.ModeDefault {
		sorted := true
		nz := 0
		for i, b := range banks {
			if b.Length != 0 {
				nz++
			}
			if i > 0 && banks[i-1].Start > b.Start {
				sorted = false
			}
			for j, o := range banks {
				if i != j && b.Length != 0 && o.Length != 0 && b.End() == o.Start {
					f["bank-touching"] = true
				}
			}
			for _, s := range secs {
				if b.Length != 0 && b.Start < s.MemBase && s.End() < b.End() {
					f["sec-nested-in-bank"] = true
				}
				if b.Length != 0 && s.MemBase <= b.Start && b.End() <= s.End() {
					f["bank-inside-sec"] = true
				}
				if b.Length != 0 && ((b.Start > s.MemBase && b.Start < s.End()) || (b.End() > s.MemBase && b.End() < s.End())) {
					f["bank-edge-in-sec"] = true
				}
			}
		}
		if !sorted {
			f["bank-unsorted"] = true
		}
		if nz == 0 {
			f["no-ram"] = true
		}
		for _, u := range un {
			switch {
			case u.End() <= 4*gib:
				f["un-below-4g"] = true
			case u.Start < 4*gib:
				f["un-straddles-4g"] = true
			default:
				f["un-above-4g"] = true
			}
		}
	}
	var ks []string
	for k := range f {
		ks = append(ks, k)
	}
	sort.Strings(ks)
	return strings.Join(ks, ",")
}

type runner struct {
	c *core.Ctx

	equalByMode   map[tdxref.Mode]int
	earlyAttrOn   int // unaccepted ranges observed with the early-accept attribute
	earlyAttrOff  int
	extendSkipped int // sections that contributed page-add records only
	shapesSeen    map[string]bool
	rowsChecked   int
	gridConfigs   int
	regionsOK     int
	brk           breaker
	kept          []*kept
	retainedOK    int
	zeroBeforeHOB int
	concOK        int
	aud           audit
	mag           magStats
	dir           dirStats
}

func witness(fw []byte, sp any, banks []tdxref.Range, m tdxref.Mode, more map[string]any) map[string]any {
	sum := sha256.Sum256(fw)
	w := map[string]any{"image_len": len(fw), "image_sha256": hex.EncodeToString(sum[:]), "layout": sp, "banks": banks, "mode": m.String()}
	if len(fw) <= 16<<10 {
		w["image_b64"] = base64.StdEncoding.EncodeToString(fw)
	}
	for k, v := range more {
		w[k] = v
	}
	return w
}

func (r *runner) viol(i int, entry, rule, gen string, w map[string]any, format string, a ...any) {
	r.c.Violate(core.Violation{Kind: "oracle", Entry: entry, Site: rule, Gen: gen, Case: i, Detail: fmt.Sprintf(format, a...), Witness: w})
}

// checkRegions compares the regions of one Extract* entry point with the model.
func (r *runner) checkRegions(i int, gen, entry string, fw []byte, exp *tdxref.Expected, banks []tdxref.Range, m tdxref.Mode, regions []*ovmf.MaterialGuestPhysicalRegion, err error) bool {
	w := func(more map[string]any) map[string]any { return witness(fw, exp.Layout, banks, m, more) }
	if err != nil {
		r.viol(i, entry, "valid-rejected", gen, w(nil), "model-valid image and configuration rejected: %v", err)
		return false
	}
	secs := exp.Layout.Sections
	if len(regions) != len(secs) {
		r.viol(i, entry, "region-list", gen, w(nil), "%d regions for %d declared sections", len(regions), len(secs))
		return false
	}
	ok := true
	for k, s := range secs {
		g := regions[k]
		if g == nil {
			r.viol(i, entry, "region-list", gen, w(nil), "region %d is nil", k)
			return false
		}
		if uint64(g.GPR.Start) != s.MemBase || g.GPR.Length != s.MemSize {
			r.viol(i, entry, "region-gpr", gen, w(nil), "region %d is [%#x,+%#x), declared section %d is [%#x,+%#x)", k, uint64(g.GPR.Start), g.GPR.Length, k, s.MemBase, s.MemSize)
			ok = false
			continue
		}
		// The EXTEND directive a consumer of the regions sees: in default mode exactly the declared flag.
		if m == tdxref.ModeDefault && (g.TDVFAttributes&1 != 0) != (s.Attr&1 != 0) {
			r.viol(i, entry, "region-extend-flag", gen, w(nil), "region %d attributes %#x, declared %#x", k, g.TDVFAttributes, s.Attr)
			ok = false
		}
		// From the two legacy extractors ("all TDVF metadata sections are measured") every section that has pages
		// says "extend me": the regions are all those entry points return, so the directive is the only place where
		// "measure everything" can be expressed to their consumer (an empty section has nothing to extend: not judged).
		if m != tdxref.ModeDefault && s.MemSize != 0 && g.TDVFAttributes&1 == 0 {
			r.viol(i, entry, "region-extend-flag", gen, w(nil), "region %d (declared attributes %#x) comes back from the legacy measure-everything extractor with attributes %#x: a consumer that follows the directive adds its pages without extending them", k, s.Attr, g.TDVFAttributes)
			ok = false
		}
		switch s.Type {
		case tdxref.TypeBFV, tdxref.TypeCFV:
			if !bytes.Equal(g.HostBuffer, exp.Contents(fw, k)) {
				r.viol(i, entry, "region-fv-contents", gen, w(nil), "region %d (type %d) buffer (%d bytes) differs from image[%#x:+%#x]", k, s.Type, len(g.HostBuffer), s.DataOffset, s.DataSize)
				ok = false
			}
		case tdxref.TypeTDHOB:
			early := m.EarlyAll()
			hs := secs[exp.HOBIndex]
			if rule, detail := tdxref.CheckHOB(g.HostBuffer, secs, exp.Unaccepted, early, hs.MemBase, hs.MemSize); rule != "" {
				r.viol(i, entry, rule, gen, w(map[string]any{"tdhob_got": hex.EncodeToString(trim(g.HostBuffer)), "tdhob_want": hex.EncodeToString(trim(exp.HOB))}), "%s", detail)
				ok = false
			} else if !bytes.Equal(g.HostBuffer, exp.HOB) {
				r.viol(i, entry, "tdhob-bytes", gen, w(map[string]any{"tdhob_got": hex.EncodeToString(trim(g.HostBuffer)), "tdhob_want": hex.EncodeToString(trim(exp.HOB))}), "TD-HOB decodes as prescribed but its bytes differ from the model's encoding")
				ok = false
			}
		case tdxref.TypeTempMem:
			// zeros; a nil buffer is fine where the section is not extended
			if g.HostBuffer == nil && !tdxref.Extended(s, m) {
				break
			}
			if uint64(len(g.HostBuffer)) != s.MemSize || !allZero(g.HostBuffer) {
				if m == tdxref.ModeDefault && s.Attr&1 != 0 {
					r.c.Count("unspecified/tempmem-extend-default-buffer", 1)
					break
				}
				r.viol(i, entry, "region-tempmem-contents", gen, w(nil), "region %d (temporary memory) buffer has %d bytes / non-zero content, want %d zero bytes", k, len(g.HostBuffer), s.MemSize)
				ok = false
			}
		}
	}
	if ok {
		r.regionsOK++
	}
	return ok
}

func trim(b []byte) []byte {
	n := len(b)
	for n > 0 && b[n-1] == 0 {
		n--
	}
	if n+8 < len(b) {
		n += 8
	} else {
		n = len(b)
	}
	return b[:n]
}

func allZero(b []byte) bool {
	for _, x := range b {
		if x != 0 {
			return false
		}
	}
	return true
}

func hasTempExtend(secs []tdxref.Section) bool {
	for _, s := range secs {
		if s.Type == tdxref.TypeTempMem && s.Attr&1 != 0 && s.MemSize != 0 { // an empty section has nothing to extend
			return true
		}
	}
	return false
}

// measureAll runs the three (or the given) modes of one image/bank list through the regions entry
// point and tdx.MRTD and compares with the model.
func (r *runner) measure(i int, kind, gen string, fw []byte, banks []tdxref.Range, ms []tdxref.Mode, feat map[string]bool, sample bool) (equal int) {
	c := r.c
	for _, m := range ms {
		mb := banks
		if m == tdxref.ModeDefault {
			mb = nil
		}
		exp, merr := tdxref.Measure(fw, mb, m)
		if merr != nil {
			c.Count("model-invalid/"+kind, 1)
			c.Note("model-invalid example: %v", merr)
			continue
		}
		g := gen + "/" + m.String()
		// regions
		var regions []*ovmf.MaterialGuestPhysicalRegion
		var rerr error
		entry := map[tdxref.Mode]string{tdxref.ModeDefault: eDefault, tdxref.ModeLegacy: eLegacy, tdxref.ModeLegacyEarly: eEarly}[m]
		gb := toGPR(mb)
		pm := r.guard(i, entry, g, func() {
			switch m {
			case tdxref.ModeDefault:
				regions, rerr = ovmf.ExtractMaterialGuestPhysicalRegions(fw)
			case tdxref.ModeLegacy:
				regions, rerr = ovmf.ExtractMaterialGuestPhysicalRegionsTDHOBBug(fw, gb)
			case tdxref.ModeLegacyEarly:
				regions, rerr = ovmf.ExtractMaterialGuestPhysicalRegionsNoUnacceptedMemory(fw, gb)
			}
		})
		c.Count("calls/"+entry, 1)
		if !pm.Panicked {
			ok := r.checkRegions(i, g, entry, fw, exp, mb, m, regions, rerr)
			r.recheckKept(i, g) // earlier results must not have changed because of this call
			if ok {
				r.keep(i, &kept{entry: entry, gen: g, fw: fw, exp: exp, banks: mb, mode: m, regions: regions})
			}
		}
		// MRTD
		var got [48]byte
		var gerr error
		opts := optsFor(m, mb)
		pm = r.guard(i, eMRTD, g, func() { got, gerr = tdx.MRTD(opts, fw) })
		c.Count("calls/"+eMRTD+"/"+m.String(), 1)
		r.recheckKept(i, g+" (tdx.MRTD)")
		if pm.Panicked {
			continue
		}
		unspecified := m == tdxref.ModeDefault && hasTempExtend(exp.Layout.Sections)
		switch {
		case unspecified:
			if gerr != nil {
				c.Count("unspecified/tempmem-extend-default/rejected", 1)
				c.Note("observation (no verdict): default mode with a temporary-memory section flagged EXTEND is rejected by tdx.MRTD (InitMemoryRegion: gpr.Length does not match source data size 0)")
			} else if got == exp.MRTD {
				c.Count("unspecified/tempmem-extend-default/zeros-measured", 1)
			} else if which := flagIgnored(fw, exp, got); which != "" {
				// whatever the contents of temporary memory are taken to be, a FLAGGED section contributes MR.EXTEND
				// records: a digest equal to the stream in which it contributes page-add records only is wrong.
				r.viol(i, eMRTD, ruleFlagIgnored, g, witness(fw, exp.Layout, mb, m, map[string]any{"got": hex.EncodeToString(got[:]), "sections_measured_as_unflagged": which}),
					"tdx.MRTD returned %x..., which is the record stream in which the EXTEND-flagged temporary-memory section(s) %s contribute page-add records only", got[:6], which)
			} else {
				c.Count("unspecified/tempmem-extend-default/other-value", 1)
			}
			continue
		case gerr != nil:
			r.viol(i, eMRTD, "valid-rejected", g, witness(fw, exp.Layout, mb, m, nil), "model-valid image and configuration rejected: %v", gerr)
			continue
		case got != exp.MRTD:
			r.viol(i, eMRTD, "mrtd-mismatch", g, witness(fw, exp.Layout, mb, m, map[string]any{"got": hex.EncodeToString(got[:]), "want": hex.EncodeToString(exp.MRTD[:]),
				"unaccepted": exp.Unaccepted, "page_adds": exp.PageAdds, "extends": exp.Extends}),
				"MRTD %x..., model %x... (%d page-add, %d extend records, %d unaccepted ranges)", got[:6], exp.MRTD[:6], exp.PageAdds, exp.Extends, len(exp.Unaccepted))
			continue
		}
		r.equalByMode[m]++
		equal++
		for _, u := range exp.Unaccepted {
			if tdxref.UnacceptedAttr(u, m.EarlyAll())&tdxref.AttrNeedsEarlyAccept != 0 {
				r.earlyAttrOn++
			} else {
				r.earlyAttrOff++
			}
		}
		for k, s := range exp.Layout.Sections {
			if !tdxref.Extended(s, m) {
				r.extendSkipped++
			}
			if s.MemSize == 0 {
				c.Count("zero-size-tempmem/measured-equal/"+m.String(), 1)
				if k < exp.HOBIndex && m != tdxref.ModeDefault {
					r.zeroBeforeHOB++
				}
				if k == len(exp.Layout.Sections)-1 {
					c.Count("zero-size-tempmem/declared-last", 1)
				}
			}
		}
		c.Cell("%s|%s|sec=%s|un=%s|%s", kind, m, bucket(len(exp.Layout.Sections)), bucket(len(exp.Unaccepted)), features(exp.Layout.Sections, mb, exp.Unaccepted, m, feat))
		c.Max("sections", int64(len(exp.Layout.Sections)))
		c.Max("unaccepted_ranges", int64(len(exp.Unaccepted)))
		c.Max("image_bytes", int64(len(fw)))
		c.Max("extend_records", int64(exp.Extends))
		if sample && m != tdxref.ModeDefault {
			c.Sample(map[string]any{"case": i, "gen": g, "image_len": len(fw), "sections": exp.Layout.Sections, "banks": mb, "unaccepted": exp.Unaccepted,
				"page_adds": exp.PageAdds, "extends": exp.Extends, "mrtd": hex.EncodeToString(exp.MRTD[:])})
		}
	}
	// Observation only: a bank list handed to tdx.MRTD together with default mode is not described in the TD-HOB.
	if len(banks) > 0 && len(ms) == 3 && i%16 == 0 {
		exp, merr := tdxref.Measure(fw, nil, tdxref.ModeDefault)
		if merr == nil && !hasTempExtend(exp.Layout.Sections) {
			var got [48]byte
			var gerr error
			pm := r.guard(i, eMRTD, gen+"/default+banks", func() { got, gerr = tdx.MRTD(&tdx.LaunchOptions{GuestRAMBanks: toGPR(banks)}, fw) })
			if !pm.Panicked && gerr == nil {
				if got == exp.MRTD {
					c.Count("observed/default-mode-with-banks/equals-no-ram-model", 1)
				} else {
					c.Count("observed/default-mode-with-banks/differs-from-no-ram-model", 1)
				}
			}
		}
	}
	return equal
}

// selfCheck makes sure the image the generator wrote is read back by the model as the spec.
func (r *runner) selfCheck(i int, gen string, fw []byte, sp *spec) bool {
	l, err := tdxref.Parse(fw)
	if err == nil {
		err = l.Valid(len(fw))
	}
	if err == nil && (l.DescriptorOffset != sp.DescOff || len(l.Sections) != len(sp.Sections)) {
		err = fmt.Errorf("descriptor offset/sections differ from the spec")
	}
	if err == nil {
		for k := range l.Sections {
			if l.Sections[k] != sp.Sections[k] {
				err = fmt.Errorf("section %d differs from the spec", k)
			}
		}
	}
	if err != nil {
		r.c.Violate(core.Violation{Kind: "harness-selfcheck", Entry: "generator", Site: "generator-model-disagree", Gen: gen, Case: i, Detail: err.Error(), Witness: sp})
		return false
	}
	return true
}

func (r *runner) caseExample(i int) {
	c := r.c
	gen := "example/fakeovmf.CleanExample(2MiB)"
	c.Begin(i, gen, "all", nil)
	fw := fakeovmf.CleanExample(tb{}, 2<<20)
	rr := c.Rand(i)
	r.measure(i, "example", gen+"/no-ram", fw, nil, modes, nil, false)
	for _, sh := range []string{"c3-standard-4", "c3-standard-88", "c3-standard-176"} {
		r.measure(i, "example", gen+"/"+sh, fw, tdxref.ShapeByName(sh).Banks, modes[1:], map[string]bool{"shape": true}, false)
	}
	l, _ := tdxref.Parse(fw)
	for k := 0; k < 3 && l != nil; k++ {
		feat := map[string]bool{}
		r.measure(i, "example", gen+"/generated-banks", fw, genBanks(rr, l.Sections, feat), modes[1:], feat, false)
	}
	r.flushKept(i)
	// directed: the example with one more, EMPTY temporary-memory section (a descriptor of length 0, no pages)
	// declared first / right before the TD HOB / right after it / last, at bases that touch other sections or RAM.
	if l != nil {
		hobAt := 0
		for k, s := range l.Sections {
			if s.Type == tdxref.TypeTDHOB {
				hobAt = k
			}
		}
		for _, d := range []struct {
			name string
			pos  int
			base uint64
		}{{"first", 0, 0x808000}, {"before-hob", hobAt, 0x80b000}, {"after-hob", hobAt + 1, 0}, {"last", len(l.Sections), 4 * gib}, {"before-hob-and-last", hobAt, 0x100000}} {
			secs := append([]tdxref.Section{}, l.Sections[:d.pos]...)
			secs = append(secs, tdxref.Section{MemBase: d.base, Type: tdxref.TypeTempMem})
			secs = append(secs, l.Sections[d.pos:]...)
			if d.name == "before-hob-and-last" {
				secs = append(secs, tdxref.Section{MemBase: 0x809000, Type: tdxref.TypeTempMem, Attr: 1})
			}
			fw2 := append([]byte{}, fw...)
			writeSections(fw2, l.DescriptorOffset, secs)
			g := gen + "/zero-size-tempmem-" + d.name
			if !r.selfCheck(i, g, fw2, &spec{Size: len(fw2), DescOff: l.DescriptorOffset, Sections: secs}) {
				continue
			}
			feat := map[string]bool{"directed": true}
			r.measure(i, "example", g+"/no-ram", fw2, nil, modes, feat, false)
			r.measure(i, "example", g+"/c3-standard-4", fw2, tdxref.ShapeByName("c3-standard-4").Banks, modes[1:], feat, false)
			r.flushKept(i)
		}
	}
	c.End(i)
}

func (r *runner) caseShapes(i int) {
	c := r.c
	rr := c.Rand(i)
	sp := genSpec(rr)
	for sp.Size > 256<<10 { // 25+ measurements per case: keep the image small
		sp = genSpec(rr)
	}
	fw := buildImage(rr, sp)
	gen := fmt.Sprintf("shapes/%dsec/%dKiB", len(sp.Sections), sp.Size>>10)
	c.Begin(i, gen, "all", nil)
	defer c.End(i)
	if !r.selfCheck(i, gen, fw, sp) {
		return
	}
	// per-shape launch options
	type key struct {
		shape string
		early bool
	}
	want := map[key][48]byte{}
	valid := true
	for _, sh := range tdxref.Shapes {
		var o *tdx.LaunchOptions
		pm := r.guard(i, eShape, gen+"/"+sh.Name, func() { o = tdx.LaunchOptionsDefaultTDHOBBug(sh.Name) })
		if pm.Panicked || o == nil {
			continue
		}
		got := fromGPR(o.GuestRAMBanks)
		same := len(got) == len(sh.Banks) && o.MeasureAllRegions && !o.DisableUnacceptedMemory
		for k := 0; same && k < len(got); k++ {
			same = got[k] == sh.Banks[k]
		}
		if !same {
			r.viol(i, eShape, "shape-banks", gen+"/"+sh.Name, map[string]any{"shape": sh.Name, "got": got, "want": sh.Banks, "measure_all": o.MeasureAllRegions, "early": o.DisableUnacceptedMemory},
				"launch options of %s: banks %v measureAll=%v early=%v, model banks %v", sh.Name, got, o.MeasureAllRegions, o.DisableUnacceptedMemory, sh.Banks)
		}
		// The measurement of the shape: repository's options against the model's own bank table.
		for _, m := range modes[1:] {
			exp, merr := tdxref.Measure(fw, sh.Banks, m)
			if merr != nil {
				valid = false
				c.Count("model-invalid/shapes", 1)
				continue
			}
			want[key{sh.Name, m.EarlyAll()}] = exp.MRTD
			o.DisableUnacceptedMemory = m.EarlyAll()
			var mr [48]byte
			var gerr error
			g := gen + "/" + sh.Name + "/" + m.String()
			pm := r.guard(i, eMRTD, g, func() { mr, gerr = tdx.MRTD(o, fw) })
			c.Count("calls/"+eMRTD+"/shape/"+m.String(), 1)
			if pm.Panicked {
				continue
			}
			if gerr != nil {
				r.viol(i, eMRTD, "valid-rejected", g, witness(fw, exp.Layout, sh.Banks, m, map[string]any{"shape": sh.Name}), "model-valid image rejected for %s: %v", sh.Name, gerr)
				continue
			}
			if mr != exp.MRTD {
				r.viol(i, eMRTD, "mrtd-mismatch", g, witness(fw, exp.Layout, sh.Banks, m, map[string]any{"shape": sh.Name, "got": hex.EncodeToString(mr[:]), "want": hex.EncodeToString(exp.MRTD[:]), "unaccepted": exp.Unaccepted}),
					"%s %s: MRTD %x..., model %x...", sh.Name, m, mr[:6], exp.MRTD[:6])
				continue
			}
			r.equalByMode[m]++
			r.shapesSeen[sh.Name] = true
			c.Cell("shapes|%s|%s|sec=%s|un=%s|%s", sh.Name, m, bucket(len(exp.Layout.Sections)), bucket(len(exp.Unaccepted)), features(exp.Layout.Sections, sh.Banks, exp.Unaccepted, m, nil))
			c.Max("unaccepted_ranges", int64(len(exp.Unaccepted)))
		}
	}
	if !valid {
		return
	}
	// regions for one shape per case (TD-HOB decoded)
	sh := tdxref.Shapes[rr.IntN(len(tdxref.Shapes))]
	r.measure(i, "shapes", gen+"/"+sh.Name+"/regions", fw, sh.Banks, modes, map[string]bool{"shape": true}, i%8 == 1)
	sh2 := tdxref.Shapes[rr.IntN(len(tdxref.Shapes))] // a later call for another bank list while the results above are retained
	r.measure(i, "shapes", gen+"/"+sh2.Name+"/regions-2", fw, sh2.Banks, modes[1:2], map[string]bool{"shape": true}, false)
	r.flushKept(i)
	// UnsignedTDX rows over a random shape list (subset, any order, repeats allowed)
	n := 1 + rr.IntN(len(tdxref.Shapes))
	if rr.IntN(6) == 0 {
		n = 0
	}
	var names []string
	for k := 0; k < n; k++ {
		names = append(names, tdxref.Shapes[rr.IntN(len(tdxref.Shapes))].Name)
	}
	if rr.IntN(3) == 0 {
		names = nil
		for _, s := range tdxref.Shapes {
			names = append(names, s.Name)
		}
	}
	early := rr.IntN(2) == 0
	svn := rr.Uint32()
	dexp, derr := tdxref.Measure(fw, nil, tdxref.ModeDefault)
	if derr != nil {
		return
	}
	tempExt := hasTempExtend(dexp.Layout.Sections)
	var out *epb.VMTdx
	var uerr error
	g := fmt.Sprintf("%s/rows/%dshapes/early=%v", gen, len(names), early)
	pm := r.guard(i, eRows, g, func() {
		out, uerr = tdx.UnsignedTDX(fw, &tdx.EndorsementRequest{Svn: svn, IncludeEarlyAccept: early, MachineShapes: names})
	})
	c.Count("calls/"+eRows, 1)
	if pm.Panicked {
		return
	}
	wit := map[string]any{"shapes": names, "include_early_accept": early, "layout": dexp.Layout, "image_len": len(fw)}
	if uerr != nil {
		if tempExt {
			c.Count("unspecified/tempmem-extend-default/rows-rejected", 1)
			return
		}
		r.viol(i, eRows, "valid-rejected", g, wit, "model-valid image rejected: %v", uerr)
		return
	}
	type row struct {
		ram   uint32
		early bool
		mrtd  [48]byte
		what  string
		judge bool
	}
	var wantRows []row
	for _, nme := range names {
		sh := tdxref.ShapeByName(nme)
		wantRows = append(wantRows, row{sh.RAMGiB, false, want[key{nme, false}], nme + "/legacy", true})
		if early {
			wantRows = append(wantRows, row{sh.RAMGiB, true, want[key{nme, true}], nme + "/legacy-early", true})
		}
	}
	wantRows = append(wantRows, row{0, false, dexp.MRTD, "default", !tempExt})
	rows := out.GetMeasurements()
	if out.GetSvn() != svn || len(rows) != len(wantRows) {
		r.viol(i, eRows, "unsigned-rows", g, wit, "svn %d (want %d), %d rows (want %d)", out.GetSvn(), svn, len(rows), len(wantRows))
		return
	}
	for k, wr := range wantRows {
		gr := rows[k]
		if !wr.judge {
			c.Count("unspecified/tempmem-extend-default/row", 1)
			if len(gr.GetMrtd()) == 48 {
				var gm [48]byte
				copy(gm[:], gr.GetMrtd())
				if which := flagIgnored(fw, dexp, gm); which != "" {
					wit["row"] = k
					r.viol(i, eRows, ruleFlagIgnored, g, wit, "row %d (default): MRTD %x... is the record stream in which the EXTEND-flagged temporary-memory section(s) %s contribute page-add records only", k, gm[:6], which)
				}
			}
			continue
		}
		if gr.GetRamGib() != wr.ram || gr.GetEarlyAccept() != wr.early || !bytes.Equal(gr.GetMrtd(), wr.mrtd[:]) {
			wit["row"] = k
			wit["got"] = map[string]any{"ram_gib": gr.GetRamGib(), "early_accept": gr.GetEarlyAccept(), "mrtd": hex.EncodeToString(gr.GetMrtd())}
			wit["want"] = map[string]any{"ram_gib": wr.ram, "early_accept": wr.early, "mrtd": hex.EncodeToString(wr.mrtd[:])}
			r.viol(i, eRows, "unsigned-rows", g, wit, "row %d (%s): ram_gib=%d early=%v mrtd=%x..., model ram_gib=%d early=%v mrtd=%x...", k, wr.what,
				gr.GetRamGib(), gr.GetEarlyAccept(), gr.GetMrtd()[:min(6, len(gr.GetMrtd()))], wr.ram, wr.early, wr.mrtd[:6])
			return
		}
		r.rowsChecked++
		c.Cell("rows|%s|early=%v", wr.what, early)
	}
}

func (r *runner) caseLayout(i int) {
	c := r.c
	rr := c.Rand(i)
	sp := genSpec(rr)
	fw := buildImage(rr, sp)
	banks := genBanks(rr, sp.Sections, sp.Feat)
	gen := fmt.Sprintf("layout/%dsec/%dKiB/%dbanks", len(sp.Sections), sp.Size>>10, len(banks))
	c.Begin(i, gen, "all", nil)
	defer c.End(i)
	if !r.selfCheck(i, gen, fw, sp) {
		return
	}
	r.measure(i, "layout", gen, fw, banks, modes, sp.Feat, i%64 == 5)
	// a later call for another bank list (sometimes another image) while the results above are retained
	if rr.IntN(4) == 0 {
		sp2 := genSpec(rr)
		for sp2.Size > 64<<10 {
			sp2 = genSpec(rr)
		}
		fw2 := buildImage(rr, sp2)
		if r.selfCheck(i, gen+"/image-2", fw2, sp2) {
			r.measure(i, "layout", gen+"/image-2", fw2, genBanks(rr, sp2.Sections, sp2.Feat), modes[1:2], sp2.Feat, false)
		}
	} else {
		f2 := map[string]bool{}
		r.measure(i, "layout", gen+"/banks-2", fw, genBanks(rr, sp.Sections, f2), modes[1+rr.IntN(2):][:1], f2, false)
	}
	r.flushKept(i)
}

// ---- small-scope exhaustive grid ----

var gridPts = func() [6]uint64 {
	var g [6]uint64
	for k := range g {
		g[k] = 4*gib + uint64(k)*page - 3*page
	}
	return g
}()

type ival struct{ a, b int } // grid point indices, a<=b

func gridIntervals() []ival {
	var out []ival
	for a := 0; a < 6; a++ {
		for b := a + 1; b < 6; b++ {
			out = append(out, ival{a, b})
		}
	}
	return out
}

// gridSectionConfigs: all ordered lists of <=2 disjoint non-empty intervals.
func gridSectionConfigs() [][]ival {
	out := [][]ival{{}}
	iv := gridIntervals()
	for _, x := range iv {
		out = append(out, []ival{x})
	}
	for _, x := range iv {
		for _, y := range iv {
			if x != y && (x.b <= y.a || y.b <= x.a) {
				out = append(out, []ival{x, y})
			}
		}
	}
	return out
}

// gridBankConfigs: all ordered lists of <=2 non-overlapping banks, plus (empty bank, bank) pairs.
func gridBankConfigs() [][]ival {
	out := gridSectionConfigs()
	for _, x := range gridIntervals() {
		for p := 0; p < 6; p++ {
			out = append(out, []ival{{p, p}, x})
		}
	}
	return out
}

// cellSweep is the third formulation of "RAM minus sections": the characteristic function over the
// five grid cells, bank by bank in ascending order, maximal runs.
func cellSweep(secs, banks []ival) []tdxref.Range {
	var covered [5]bool
	for _, s := range secs {
		for k := s.a; k < s.b; k++ {
			covered[k] = true
		}
	}
	bs := make([]ival, 0, len(banks))
	for _, b := range banks {
		if b.b > b.a {
			bs = append(bs, b)
		}
	}
	sort.Slice(bs, func(i, j int) bool { return bs[i].a < bs[j].a })
	var out []tdxref.Range
	for _, b := range bs {
		k := b.a
		for k < b.b {
			if covered[k] {
				k++
				continue
			}
			e := k
			for e < b.b && !covered[e] {
				e++
			}
			out = append(out, tdxref.Range{Start: gridPts[k], Length: gridPts[e] - gridPts[k]})
			k = e
		}
	}
	return out
}

func gridImage(extra []ival) ([]byte, *spec) {
	sp := &spec{Size: 2 * page, DescOff: 0x110}
	bfv := tdxref.Section{DataOffset: 0, DataSize: 2 * page, MemBase: 4*gib - 2*tdxref.MiB, MemSize: 2 * page, Type: tdxref.TypeBFV, Attr: 1}
	hob := tdxref.Section{MemBase: 0x809000, MemSize: page, Type: tdxref.TypeTDHOB}
	tm := func(x ival) tdxref.Section {
		return tdxref.Section{MemBase: gridPts[x.a], MemSize: gridPts[x.b] - gridPts[x.a], Type: tdxref.TypeTempMem}
	}
	sp.Sections = []tdxref.Section{bfv}
	if len(extra) > 0 {
		sp.Sections = append(sp.Sections, tm(extra[0]))
	}
	sp.Sections = append(sp.Sections, hob)
	if len(extra) > 1 {
		sp.Sections = append(sp.Sections, tm(extra[1]))
	}
	return buildImage(rand.New(rand.NewPCG(5, 5)), sp), sp
}

func ivalRanges(x []ival) []tdxref.Range {
	out := make([]tdxref.Range, len(x))
	for i, v := range x {
		out[i] = tdxref.Range{Start: gridPts[v.a], Length: gridPts[v.b] - gridPts[v.a]}
	}
	return out
}

func (r *runner) caseGrid(i, cfg int, secCfg []ival, bankCfgs [][]ival) {
	c := r.c
	gen := fmt.Sprintf("grid/sections=%v", secCfg)
	c.Begin(i, gen, "all", nil)
	defer c.End(i)
	fw, sp := gridImage(secCfg)
	if !r.selfCheck(i, gen, fw, sp) {
		return
	}
	for _, bc := range bankCfgs {
		banks := ivalRanges(bc)
		wantUn := cellSweep(secCfg, bc)
		for _, m := range modes[1:] {
			g := fmt.Sprintf("%s/banks=%v/%s", gen, bc, m)
			exp, merr := tdxref.Measure(fw, banks, m)
			if merr != nil {
				c.Violate(core.Violation{Kind: "harness-selfcheck", Entry: "model", Site: "grid-model-invalid", Gen: g, Case: i, Detail: merr.Error()})
				continue
			}
			if !sameRanges(exp.Unaccepted, wantUn) {
				c.Violate(core.Violation{Kind: "harness-selfcheck", Entry: "model", Site: "grid-model-vs-cellsweep", Gen: g, Case: i,
					Detail: fmt.Sprintf("boundary sweep %v, cell sweep %v", exp.Unaccepted, wantUn)})
				continue
			}
			var regions []*ovmf.MaterialGuestPhysicalRegion
			var rerr error
			entry := eLegacy
			if m == tdxref.ModeLegacyEarly {
				entry = eEarly
			}
			gb := toGPR(banks)
			pm := r.guard(i, entry, g, func() {
				if m == tdxref.ModeLegacy {
					regions, rerr = ovmf.ExtractMaterialGuestPhysicalRegionsTDHOBBug(fw, gb)
				} else {
					regions, rerr = ovmf.ExtractMaterialGuestPhysicalRegionsNoUnacceptedMemory(fw, gb)
				}
			})
			if pm.Panicked {
				continue
			}
			okRegions := false
			if rerr != nil {
				r.viol(i, entry, "valid-rejected", g, witness(fw, exp.Layout, banks, m, nil), "grid configuration rejected: %v", rerr)
			} else if exp.HOBIndex >= len(regions) || regions[exp.HOBIndex] == nil {
				r.viol(i, entry, "region-list", g, witness(fw, exp.Layout, banks, m, nil), "%d regions", len(regions))
			} else {
				// the unaccepted descriptors as an independent reader sees them, against the cell sweep
				d, derr := tdxref.DecodeHOB(regions[exp.HOBIndex].HostBuffer)
				var gotUn []tdxref.Range
				attrOK := true
				if derr == nil {
					for _, res := range d.Resources {
						if res.Type == tdxref.ResUnaccepted {
							u := tdxref.Range{Start: res.Start, Length: res.Length}
							gotUn = append(gotUn, u)
							wantAttr := uint32(7)
							if u.End() <= 4*gib || m == tdxref.ModeLegacyEarly {
								wantAttr |= 0x10000000
							}
							if res.Attr != wantAttr {
								attrOK = false
							}
						}
					}
				}
				switch {
				case derr != nil:
					r.viol(i, entry, "tdhob-structure", g, witness(fw, exp.Layout, banks, m, nil), "%v", derr)
				case !sameRanges(gotUn, wantUn):
					r.viol(i, entry, "grid-unaccepted", g, witness(fw, exp.Layout, banks, m, map[string]any{"got": gotUn, "want": wantUn}), "TD-HOB unaccepted ranges %v, page sweep gives %v", gotUn, wantUn)
				case !attrOK:
					r.viol(i, entry, "tdhob-early-accept-attr", g, witness(fw, exp.Layout, banks, m, map[string]any{"resources": d.Resources}), "early-accept attribute of an unaccepted range is wrong: %+v", d.Resources)
				default:
					okRegions = r.checkRegions(i, g, entry, fw, exp, banks, m, regions, rerr)
				}
			}
			var got [48]byte
			var gerr error
			opts := optsFor(m, banks)
			pm = r.guard(i, eMRTD, g, func() { got, gerr = tdx.MRTD(opts, fw) })
			if pm.Panicked {
				continue
			}
			if gerr != nil {
				r.viol(i, eMRTD, "valid-rejected", g, witness(fw, exp.Layout, banks, m, nil), "grid configuration rejected: %v", gerr)
				continue
			}
			if got != exp.MRTD {
				r.viol(i, eMRTD, "mrtd-mismatch", g, witness(fw, exp.Layout, banks, m, map[string]any{"got": hex.EncodeToString(got[:]), "want": hex.EncodeToString(exp.MRTD[:]), "unaccepted": exp.Unaccepted}),
					"MRTD %x..., model %x...", got[:6], exp.MRTD[:6])
				continue
			}
			if okRegions {
				r.gridConfigs++
				r.equalByMode[m]++
				c.Cell("grid|%s|sec=%d|banks=%d|un=%d|%s", m, len(secCfg), len(bc), len(wantUn), features(exp.Layout.Sections, banks, exp.Unaccepted, m, nil))
			}
		}
	}
	c.Count("grid/section-configs-done", 1)
	_ = cfg
}

func sameRanges(a, b []tdxref.Range) bool {
	if len(a) != len(b) {
		return false
	}
	for i := range a {
		if a[i] != b[i] {
			return false
		}
	}
	return true
}

func run(c *core.Ctx) {
	r := &runner{c: c, equalByMode: map[tdxref.Mode]int{}, shapesSeen: map[string]bool{}, aud: newAudit(), mag: newMagStats(), dir: newDirStats()}
	go r.brk.watch(c)
	nShapes := c.N(120, 1500)
	nLayout := c.N(2400, 28000)
	secCfgs := gridSectionConfigs()
	bankCfgs := gridBankConfigs()
	nConc := c.N(48, 600)
	total := 1 + nShapes + nLayout + len(secCfgs) + nConc
	// families appended later keep the case numbers (and PRNG streams) of everything above
	nSeq := c.N(200, 2400)
	nFit := c.N(96, 1200)
	nCF := c.N(40, 480)
	nMag := c.N(48, 576) // multiples of 16: every stratum of the family in every run
	nDir := c.N(160, 1920) // multiples of 8: every kind of the family on every shard
	gridRan := false
	for i := 0; i < total+nSeq+nFit+nCF+nMag+nDir; i++ {
		if !c.Mine(i) {
			continue
		}
		// order: example, concurrent, shapes, layout, grid (the concurrent family runs early so that its
		// findings are not cut off by the per-shard cap on logged violations)
		j := i - 1 - nConc
		switch {
		case i == 0:
			r.caseExample(i)
		case i <= nConc:
			r.caseConcurrent(i)
		case j < nShapes:
			r.caseShapes(i)
		case j < nShapes+nLayout:
			r.caseLayout(i)
		case i >= total+nSeq+nFit+nCF+nMag:
			r.caseDirective(i, i-(total+nSeq+nFit+nCF+nMag))
		case i >= total+nSeq+nFit+nCF:
			r.caseMagnitude(i, i-(total+nSeq+nFit+nCF))
		case i >= total+nSeq+nFit:
			r.caseConcFail(i)
		case i >= total+nSeq:
			r.caseFit(i)
		case i >= total:
			r.caseSequence(i)
		default:
			k := j - nShapes - nLayout
			r.caseGrid(i, k, secCfgs[k], bankCfgs)
			gridRan = true
		}
	}
	c.Count("mrtd-equal/default", r.equalByMode[tdxref.ModeDefault])
	c.Count("mrtd-equal/legacy", r.equalByMode[tdxref.ModeLegacy])
	c.Count("mrtd-equal/legacy-early", r.equalByMode[tdxref.ModeLegacyEarly])
	c.Count("regions-equal", r.regionsOK)
	c.Count("unaccepted/with-early-accept-attr", r.earlyAttrOn)
	c.Count("unaccepted/without-early-accept-attr", r.earlyAttrOff)
	c.Count("sections/page-add-only", r.extendSkipped)
	c.Count("unsigned-rows-equal", r.rowsChecked)
	c.Count("grid/configurations-equal", r.gridConfigs)
	c.Note("grid sub-space: %d section placements x %d bank lists x 2 legacy modes, enumerated completely in every run", len(secCfgs), len(bankCfgs))
	for _, m := range modes {
		c.Floor("mrtd-compared-equal/"+m.String(), r.equalByMode[m] > 0)
	}
	c.Floor("unaccepted-with-and-without-early-accept", r.earlyAttrOn > 0 && r.earlyAttrOff > 0)
	c.Floor("page-add-only-sections-seen", r.extendSkipped > 0)
	for _, sh := range tdxref.Shapes {
		c.Floor("shape-measured/"+sh.Name, r.shapesSeen[sh.Name])
	}
	c.Floor("unsigned-rows-compared", r.rowsChecked > 0)
	c.Floor("grid-ran", gridRan && r.gridConfigs > 0)
	c.Floor("regions-compared-equal", r.regionsOK > 0)
	c.Count("retention/results-still-equal-at-end-of-window", r.retainedOK)
	c.Floor("retained-results-rechecked", r.retainedOK > 0)
	c.Count("zero-size-tempmem/before-tdhob-legacy-equal", r.zeroBeforeHOB)
	c.Floor("zero-size-tempmem-before-tdhob-measured", r.zeroBeforeHOB > 0)
	c.Floor("concurrent-calls-compared", r.concOK > 0)
	r.auditSummary()
	r.magnitudeSummary()
	r.directiveSummary()
	for _, sh := range tdxref.Shapes {
		if r.shapesSeen[sh.Name] {
			c.Count("shape-equal/"+sh.Name, 1)
		}
	}
}
