// Package tdxref is an independent reference model of the TDX build-time measurement (MRTD) of a
// TDVF image, written from the property text, the Intel TDX module specification (TDH.MEM.PAGE.ADD /
// TDH.MR.EXTEND extension buffers), the TDVF design guide (metadata descriptor, TD-HOB) and the
// UEFI PI specification (HOB layouts). It shares no code with the repository: own little-endian
// readers/writers, own GUID encoding, own interval arithmetic, own machine-shape table.
package tdxref

import (
	"crypto/sha512"
	"encoding/binary"
	"encoding/hex"
	"errors"
	"fmt"
	"sort"
	"strings"
)

const (
	Page = 4096
	GiB  = uint64(1) << 30
	MiB  = uint64(1) << 20

	TypeBFV     = 0
	TypeCFV     = 1
	TypeTDHOB   = 2
	TypeTempMem = 3

	AttrExtendMR = 1

	// GUIDs as they are printed in edk2 (registry format).
	GUIDTableFooter   = "96b582de-1fb2-45f7-baea-a366c55a082d"
	GUIDTdxMetaOffset = "e47a6535-984a-4798-865e-4685a7bf8ec2"
	GUIDTdvfMetadata  = "e9eaf9f3-168e-44d5-a8eb-7f4d8738f6ae"

	// The GUIDed table ends 0x20 bytes before the end of the ROM (reset vector).
	TableEndOffset = 0x20
	EntrySize      = 18 // u16 size + 16-byte GUID

	// PI HOB constants.
	HobTypeHandoff  = 1
	HobTypeResource = 3
	HobTypeEnd      = 0xffff
	PhitLen         = 56
	ResLen          = 48
	EndLen          = 8
	PhitVersion     = 9

	ResSystemMemory = 0
	ResUnaccepted   = 7

	AttrPresent          = 1
	AttrInitialized      = 2
	AttrTested           = 4
	AttrNeedsEarlyAccept = 0x10000000
)

// Mode is one of the three launch modes the property names.
type Mode int

const (
	ModeDefault     Mode = iota // only EXTEND-flagged sections are extended; no RAM described
	ModeLegacy                  // legacy: measure everything; early accept only below 4 GiB
	ModeLegacyEarly             // legacy: measure everything; all unaccepted memory needs early accept
)

func (m Mode) String() string {
	return [...]string{"default", "legacy", "legacy-early"}[m]
}

// MeasureAll reports whether every section is extended regardless of its flag.
func (m Mode) MeasureAll() bool { return m != ModeDefault }

// EarlyAll reports whether every unaccepted range carries the early-accept attribute.
func (m Mode) EarlyAll() bool { return m == ModeLegacyEarly }

// Section is one TDVF metadata section (32 bytes in the image).
type Section struct {
	DataOffset uint32 `json:"data_offset"`
	DataSize   uint32 `json:"data_size"`
	MemBase    uint64 `json:"mem_base"`
	MemSize    uint64 `json:"mem_size"`
	Type       uint32 `json:"type"`
	Attr       uint32 `json:"attr"`
}

func (s Section) End() uint64 { return s.MemBase + s.MemSize }

// Range is a half-open guest-physical range [Start, Start+Length).
type Range struct {
	Start  uint64 `json:"start"`
	Length uint64 `json:"length"`
}

func (r Range) End() uint64 { return r.Start + r.Length }

// GUIDBytes encodes a registry-format GUID the way EFI stores it (first three fields little endian).
func GUIDBytes(s string) [16]byte {
	raw, err := hex.DecodeString(strings.ReplaceAll(s, "-", ""))
	if err != nil || len(raw) != 16 {
		panic("tdxref: bad guid literal " + s)
	}
	var out [16]byte
	out[0], out[1], out[2], out[3] = raw[3], raw[2], raw[1], raw[0]
	out[4], out[5] = raw[5], raw[4]
	out[6], out[7] = raw[7], raw[6]
	copy(out[8:], raw[8:])
	return out
}

// Layout is what the model reads out of an image.
type Layout struct {
	DescriptorOffset int       `json:"descriptor_offset"`
	Sections         []Section `json:"sections"`
}

func le16(b []byte) uint16 { return binary.LittleEndian.Uint16(b) }
func le32(b []byte) uint32 { return binary.LittleEndian.Uint32(b) }
func le64(b []byte) uint64 { return binary.LittleEndian.Uint64(b) }

// Parse locates the TDVF metadata through the GUIDed table at the end of the image and reads the
// descriptor and its sections. An error means "the model does not consider this a TDVF image".
func Parse(fw []byte) (*Layout, error) {
	n := len(fw)
	footerAt := n - TableEndOffset - EntrySize
	if footerAt < 0 {
		return nil, errors.New("image too small for a GUIDed table footer")
	}
	footer := GUIDBytes(GUIDTableFooter)
	if string(fw[footerAt+2:footerAt+18]) != string(footer[:]) {
		return nil, errors.New("no GUIDed table footer")
	}
	total := int(le16(fw[footerAt:]))
	tableEnd := n - TableEndOffset
	if total < EntrySize || total > tableEnd {
		return nil, errors.New("GUIDed table size out of range")
	}
	tableStart := tableEnd - total
	// walk entries from the footer downwards in address
	want := GUIDBytes(GUIDTdxMetaOffset)
	pos := footerAt // exclusive end of the next entry
	var block []byte
	seen := map[[16]byte]bool{}
	for pos > tableStart {
		if pos-tableStart < EntrySize {
			return nil, errors.New("GUIDed table: trailing bytes smaller than an entry")
		}
		sz := int(le16(fw[pos-EntrySize:]))
		var g [16]byte
		copy(g[:], fw[pos-16:pos])
		if sz < EntrySize || sz > pos-tableStart {
			return nil, errors.New("GUIDed table: entry size out of range")
		}
		if seen[g] {
			return nil, errors.New("GUIDed table: duplicate GUID")
		}
		seen[g] = true
		if g == want {
			block = fw[pos-sz : pos]
		}
		pos -= sz
	}
	if block == nil {
		return nil, errors.New("no TDX metadata offset entry")
	}
	if len(block) != 4+EntrySize {
		return nil, errors.New("TDX metadata offset entry has unexpected size")
	}
	fromEnd := int64(le32(block))
	descAt := int64(n) - fromEnd
	if descAt < 16 || descAt+16 > int64(n) {
		return nil, errors.New("TDX metadata offset out of range")
	}
	tg := GUIDBytes(GUIDTdvfMetadata)
	if string(fw[descAt-16:descAt]) != string(tg[:]) {
		return nil, errors.New("TDVF metadata GUID not found in front of the descriptor")
	}
	d := fw[descAt:]
	if le32(d[0:]) != 0x46564454 {
		return nil, errors.New("descriptor signature is not 'TDVF'")
	}
	length, version, count := le32(d[4:]), le32(d[8:]), le32(d[12:])
	if version != 1 {
		return nil, errors.New("descriptor version is not 1")
	}
	if uint64(length) != 16+32*uint64(count) {
		return nil, errors.New("descriptor length is not 16+32*count")
	}
	if 16+32*uint64(count) > uint64(len(d)) {
		return nil, errors.New("sections do not fit in the image")
	}
	l := &Layout{DescriptorOffset: int(descAt)}
	for i := 0; i < int(count); i++ {
		b := d[16+32*i:]
		l.Sections = append(l.Sections, Section{
			DataOffset: le32(b[0:]), DataSize: le32(b[4:]), MemBase: le64(b[8:]), MemSize: le64(b[16:]),
			Type: le32(b[24:]), Attr: le32(b[28:]),
		})
	}
	return l, nil
}

// Valid is the model's validity predicate for the metadata of an image of the given size. It is
// deliberately narrow: everything outside it carries no verdict for C05 (C08 owns hostile images).
func (l *Layout) Valid(fwLen int) error {
	var hobs, bfvs int
	var fvSum uint64
	for i, s := range l.Sections {
		if s.MemBase%Page != 0 || s.MemSize%Page != 0 {
			return fmt.Errorf("section %d: memory range not page aligned", i)
		}
		if s.MemSize == 0 && s.Type != TypeTempMem {
			// Only temporary memory may be declared with no pages: it then contributes its resource
			// descriptor (length 0) in declared order and nothing else. An empty firmware volume or
			// TD-HOB is not valid metadata.
			return fmt.Errorf("section %d: empty memory range", i)
		}
		if s.MemBase+s.MemSize < s.MemBase {
			return fmt.Errorf("section %d: memory range wraps", i)
		}
		switch s.Type {
		case TypeBFV, TypeCFV:
			if s.Type == TypeBFV {
				bfvs++
			}
			if s.DataSize == 0 || uint64(s.DataOffset)+uint64(s.DataSize) > uint64(fwLen) {
				return fmt.Errorf("section %d: data range outside the image", i)
			}
			if uint64(s.DataSize) != s.MemSize {
				return fmt.Errorf("section %d: data size differs from memory size", i)
			}
			fvSum += uint64(s.DataSize)
		case TypeTDHOB:
			hobs++
		case TypeTempMem:
		default:
			return fmt.Errorf("section %d: unknown type %d", i, s.Type)
		}
	}
	if hobs != 1 {
		return fmt.Errorf("%d TD-HOB sections", hobs)
	}
	if bfvs < 1 {
		return errors.New("no BFV section")
	}
	if fvSum != uint64(fwLen) {
		return errors.New("firmware volume sizes do not add up to the image size")
	}
	for i := range l.Sections {
		for j := i + 1; j < len(l.Sections); j++ {
			a, b := l.Sections[i], l.Sections[j]
			if a.MemSize == 0 || b.MemSize == 0 {
				continue // an empty range intersects nothing
			}
			if a.MemBase < b.End() && b.MemBase < a.End() {
				return fmt.Errorf("sections %d and %d overlap in memory", i, j)
			}
		}
	}
	return nil
}

// ValidBanks: a RAM bank list is usable when no bank wraps and the non-empty banks are pairwise disjoint.
func ValidBanks(banks []Range) error {
	for i, a := range banks {
		if a.Start+a.Length < a.Start {
			return fmt.Errorf("bank %d wraps", i)
		}
		if a.Length == 0 {
			continue
		}
		for j := i + 1; j < len(banks); j++ {
			b := banks[j]
			if b.Length != 0 && a.Start < b.End() && b.Start < a.End() {
				return fmt.Errorf("banks %d and %d overlap", i, j)
			}
		}
	}
	return nil
}

// Unaccepted computes "every part of guest RAM not covered by a declared section", bank by bank in
// ascending order, by a boundary sweep: the bank is cut at every section boundary inside it, each
// piece is classified as covered/uncovered, and maximal uncovered runs are emitted.
func Unaccepted(secs []Section, banks []Range) []Range {
	bs := make([]Range, 0, len(banks))
	for _, b := range banks {
		if b.Length != 0 {
			bs = append(bs, b)
		}
	}
	sort.SliceStable(bs, func(i, j int) bool { return bs[i].Start < bs[j].Start })
	var out []Range
	for _, b := range bs {
		cuts := []uint64{b.Start, b.End()}
		for _, s := range secs {
			if s.MemSize == 0 {
				continue // empty sections cover nothing and do not cut the bank
			}
			if s.MemBase > b.Start && s.MemBase < b.End() {
				cuts = append(cuts, s.MemBase)
			}
			if s.End() > b.Start && s.End() < b.End() {
				cuts = append(cuts, s.End())
			}
		}
		sort.Slice(cuts, func(i, j int) bool { return cuts[i] < cuts[j] })
		runStart, inRun := uint64(0), false
		for k := 0; k+1 < len(cuts); k++ {
			lo, hi := cuts[k], cuts[k+1]
			if lo == hi {
				continue
			}
			covered := false
			for _, s := range secs {
				if s.MemSize != 0 && s.MemBase <= lo && hi <= s.End() {
					covered = true
					break
				}
			}
			if covered {
				if inRun {
					out = append(out, Range{runStart, lo - runStart})
					inRun = false
				}
			} else if !inRun {
				runStart, inRun = lo, true
			}
		}
		if inRun {
			out = append(out, Range{runStart, b.End() - runStart})
		}
	}
	return out
}

// UnacceptedAttr is the resource attribute of an unaccepted range.
func UnacceptedAttr(r Range, earlyAll bool) uint32 {
	a := uint32(AttrPresent | AttrInitialized | AttrTested)
	if r.End() <= 4*GiB || earlyAll {
		a |= AttrNeedsEarlyAccept
	}
	return a
}

// HOBSize is the number of bytes the TD-HOB list needs before padding.
func HOBSize(nsec, nun int) uint64 { return PhitLen + ResLen*uint64(nsec+nun) + EndLen }

// BuildHOB serialises the TD hand-off block: hand-off table, one system-memory descriptor per declared
// section in declared order, the unaccepted ranges, the end marker, zero padding up to size.
func BuildHOB(secs []Section, un []Range, earlyAll bool, base, size uint64) ([]byte, error) {
	need := HOBSize(len(secs), len(un))
	if need > size {
		return nil, fmt.Errorf("TD-HOB needs %d bytes, section has %d", need, size)
	}
	b := make([]byte, 0, size)
	u16 := func(v uint16) { b = binary.LittleEndian.AppendUint16(b, v) }
	u32 := func(v uint32) { b = binary.LittleEndian.AppendUint32(b, v) }
	u64 := func(v uint64) { b = binary.LittleEndian.AppendUint64(b, v) }
	// EFI_HOB_HANDOFF_INFO_TABLE
	u16(HobTypeHandoff)
	u16(PhitLen)
	u32(0)
	u32(PhitVersion)
	u32(0) // BOOT_WITH_FULL_CONFIGURATION
	u64(0) // EfiMemoryTop
	u64(0) // EfiMemoryBottom
	u64(0) // EfiFreeMemoryTop
	u64(0) // EfiFreeMemoryBottom
	u64(base + PhitLen + ResLen*uint64(len(secs)+len(un)))
	res := func(typ, attr uint32, start, length uint64) {
		u16(HobTypeResource)
		u16(ResLen)
		u32(0)
		u64(0) // owner GUID
		u64(0)
		u32(typ)
		u32(attr)
		u64(start)
		u64(length)
	}
	for _, s := range secs {
		res(ResSystemMemory, AttrPresent|AttrInitialized|AttrTested, s.MemBase, s.MemSize)
	}
	for _, r := range un {
		res(ResUnaccepted, UnacceptedAttr(r, earlyAll), r.Start, r.Length)
	}
	u16(HobTypeEnd)
	u16(EndLen)
	u32(0)
	b = append(b, make([]byte, size-uint64(len(b)))...)
	return b, nil
}

// Expected is the model's full answer for one image and configuration.
type Expected struct {
	Layout     *Layout
	Unaccepted []Range
	HOB        []byte
	HOBIndex   int
	MRTD       [48]byte
	PageAdds   int
	Extends    int
}

// Contents returns the bytes the model places in section i (nil for temporary memory = zeros).
func (e *Expected) Contents(fw []byte, i int) []byte {
	s := e.Layout.Sections[i]
	switch s.Type {
	case TypeBFV, TypeCFV:
		return fw[s.DataOffset : s.DataOffset+s.DataSize]
	case TypeTDHOB:
		return e.HOB
	}
	return nil
}

// Extended reports whether section i contributes MR.EXTEND records in the mode.
func Extended(s Section, m Mode) bool { return m.MeasureAll() || s.Attr&AttrExtendMR != 0 }

// Measure computes the expected MRTD. It returns an error when the image or configuration is outside
// the model's validity predicate.
func Measure(fw []byte, banks []Range, mode Mode) (*Expected, error) {
	l, err := Parse(fw)
	if err != nil {
		return nil, err
	}
	if err := l.Valid(len(fw)); err != nil {
		return nil, err
	}
	if err := ValidBanks(banks); err != nil {
		return nil, err
	}
	e := &Expected{Layout: l, HOBIndex: -1}
	for i, s := range l.Sections {
		if s.Type == TypeTDHOB {
			e.HOBIndex = i
		}
	}
	e.Unaccepted = Unaccepted(l.Sections, banks)
	hs := l.Sections[e.HOBIndex]
	e.HOB, err = BuildHOB(l.Sections, e.Unaccepted, mode.EarlyAll(), hs.MemBase, hs.MemSize)
	if err != nil {
		return nil, err
	}
	h := sha512.New384()
	zero := make([]byte, 256)
	for i, s := range l.Sections {
		data := e.Contents(fw, i)
		ext := Extended(s, mode)
		for p := uint64(0); p < s.MemSize; p += Page {
			var rec [128]byte
			copy(rec[:], "MEM.PAGE.ADD")
			binary.LittleEndian.PutUint64(rec[16:], s.MemBase+p)
			h.Write(rec[:])
			e.PageAdds++
			if !ext {
				continue
			}
			for c := uint64(0); c < Page; c += 256 {
				var x [128]byte
				copy(x[:], "MR.EXTEND")
				binary.LittleEndian.PutUint64(x[16:], s.MemBase+p+c)
				h.Write(x[:])
				if data == nil {
					h.Write(zero)
				} else {
					h.Write(data[p+c : p+c+256])
				}
				e.Extends++
			}
		}
	}
	copy(e.MRTD[:], h.Sum(nil))
	return e, nil
}

// Shape is the model's own description of a GCE machine shape that supports TDX.
type Shape struct {
	Name   string
	RAMGiB uint32
	Banks  []Range
}

// Shapes: C3 machine types have 4 GiB per vCPU; the guest sees 3 GiB below the PCI hole, the 2 MiB
// firmware window below 4 GiB, and the rest above 4 GiB in NUMA nodes of at most 176 GiB each (the
// first node already holds the low 3 GiB). Written out as literals, not computed.
var Shapes = []Shape{
	{"c3-standard-4", 16, []Range{{0, 3 * GiB}, {4*GiB - 2*MiB, 2 * MiB}, {4 * GiB, 13 * GiB}}},
	{"c3-standard-8", 32, []Range{{0, 3 * GiB}, {4*GiB - 2*MiB, 2 * MiB}, {4 * GiB, 29 * GiB}}},
	{"c3-standard-22", 88, []Range{{0, 3 * GiB}, {4*GiB - 2*MiB, 2 * MiB}, {4 * GiB, 85 * GiB}}},
	{"c3-standard-44", 176, []Range{{0, 3 * GiB}, {4*GiB - 2*MiB, 2 * MiB}, {4 * GiB, 173 * GiB}}},
	{"c3-standard-88", 352, []Range{{0, 3 * GiB}, {4*GiB - 2*MiB, 2 * MiB}, {4 * GiB, 173 * GiB}, {177 * GiB, 176 * GiB}}},
	{"c3-standard-176", 704, []Range{{0, 3 * GiB}, {4*GiB - 2*MiB, 2 * MiB}, {4 * GiB, 173 * GiB}, {177 * GiB, 176 * GiB},
		{353 * GiB, 176 * GiB}, {529 * GiB, 176 * GiB}}},
}

// ShapeByName looks a shape up.
func ShapeByName(n string) *Shape {
	for i := range Shapes {
		if Shapes[i].Name == n {
			return &Shapes[i]
		}
	}
	return nil
}

// RegionData is one populated guest-physical range as a consumer of the regions would measure it.
type RegionData struct {
	Base, Size uint64
	Data       []byte // nil = zeros
	Extend     bool
}

// DigestRegions runs the model's MEM.PAGE.ADD / MR.EXTEND record stream over already materialised
// regions (the regions an Extract* call returned), page by page in the given order.
func DigestRegions(regs []RegionData) ([48]byte, error) {
	var out [48]byte
	h := sha512.New384()
	zero := make([]byte, 256)
	for k, r := range regs {
		if r.Extend && r.Data != nil && uint64(len(r.Data)) != r.Size {
			return out, fmt.Errorf("region %d: %d data bytes for %d bytes of memory", k, len(r.Data), r.Size)
		}
		for p := uint64(0); p < r.Size; p += Page {
			var rec [128]byte
			copy(rec[:], "MEM.PAGE.ADD")
			binary.LittleEndian.PutUint64(rec[16:], r.Base+p)
			h.Write(rec[:])
			if !r.Extend {
				continue
			}
			for c := uint64(0); c < Page; c += 256 {
				var x [128]byte
				copy(x[:], "MR.EXTEND")
				binary.LittleEndian.PutUint64(x[16:], r.Base+p+c)
				h.Write(x[:])
				if r.Data == nil {
					h.Write(zero)
				} else {
					h.Write(r.Data[p+c : p+c+256])
				}
			}
		}
	}
	copy(out[:], h.Sum(nil))
	return out, nil
}
