package tdxref

import (
	"fmt"
)

// HOB decoder: reads a PI HOB list as the TDVF (the consumer) would, from the offset tables of the PI
// specification. The repository can only encode HOBs; this is the independent reader used to look at
// the TD-HOB bytes returned by ovmf.ExtractMaterialGuestPhysicalRegions*.

// Phit is a decoded EFI_HOB_HANDOFF_INFO_TABLE.
type Phit struct {
	Version, BootMode                                        uint32
	MemoryTop, MemoryBottom, FreeMemoryTop, FreeMemoryBottom uint64
	EndOfHobList                                             uint64
}

// Resource is a decoded EFI_HOB_RESOURCE_DESCRIPTOR.
type Resource struct {
	Owner  [16]byte
	Type   uint32
	Attr   uint32
	Start  uint64
	Length uint64
}

// DecodedHOB is a decoded TD-HOB list.
type DecodedHOB struct {
	Phit      Phit
	Resources []Resource
	EndOffset int // offset of the end-of-list HOB
	Used      int // bytes up to and including the end marker
}

// DecodeHOB walks the list. Every structural deviation is an error naming the place.
func DecodeHOB(b []byte) (*DecodedHOB, error) {
	if len(b) < PhitLen {
		return nil, fmt.Errorf("hob: %d bytes, shorter than a hand-off table", len(b))
	}
	hdr := func(off int) (typ, length uint16, reserved uint32) {
		return le16(b[off:]), le16(b[off+2:]), le32(b[off+4:])
	}
	t, l, r := hdr(0)
	if t != HobTypeHandoff || l != PhitLen || r != 0 {
		return nil, fmt.Errorf("hob: first HOB header type=%#x len=%d reserved=%#x, want hand-off table (1, 56, 0)", t, l, r)
	}
	d := &DecodedHOB{Phit: Phit{
		Version: le32(b[8:]), BootMode: le32(b[12:]),
		MemoryTop: le64(b[16:]), MemoryBottom: le64(b[24:]), FreeMemoryTop: le64(b[32:]), FreeMemoryBottom: le64(b[40:]),
		EndOfHobList: le64(b[48:]),
	}}
	off := PhitLen
	for {
		if off+8 > len(b) {
			return nil, fmt.Errorf("hob: list runs off the buffer at offset %d without an end marker", off)
		}
		t, l, r = hdr(off)
		if r != 0 {
			return nil, fmt.Errorf("hob: reserved header field %#x at offset %d", r, off)
		}
		switch t {
		case HobTypeEnd:
			if l != EndLen {
				return nil, fmt.Errorf("hob: end marker length %d", l)
			}
			d.EndOffset = off
			d.Used = off + EndLen
			return d, nil
		case HobTypeResource:
			if l != ResLen || off+ResLen > len(b) {
				return nil, fmt.Errorf("hob: resource descriptor at offset %d has length %d (buffer %d)", off, l, len(b))
			}
			var res Resource
			copy(res.Owner[:], b[off+8:off+24])
			res.Type = le32(b[off+24:])
			res.Attr = le32(b[off+28:])
			res.Start = le64(b[off+32:])
			res.Length = le64(b[off+40:])
			d.Resources = append(d.Resources, res)
			off += ResLen
		default:
			return nil, fmt.Errorf("hob: unexpected HOB type %#x at offset %d", t, off)
		}
	}
}

// CheckHOB compares decoded TD-HOB bytes against what the property prescribes for the sections,
// unaccepted ranges and mode. It returns a short stable rule name and a detail text, or "" when equal.
func CheckHOB(b []byte, secs []Section, un []Range, earlyAll bool, base, size uint64) (rule, detail string) {
	if uint64(len(b)) != size {
		return "tdhob-size", fmt.Sprintf("TD-HOB buffer has %d bytes, section size is %d", len(b), size)
	}
	d, err := DecodeHOB(b)
	if err != nil {
		return "tdhob-structure", err.Error()
	}
	p := d.Phit
	if p.Version != PhitVersion || p.BootMode != 0 || p.MemoryTop != 0 || p.MemoryBottom != 0 || p.FreeMemoryTop != 0 || p.FreeMemoryBottom != 0 {
		return "tdhob-phit", fmt.Sprintf("hand-off table fields %+v", p)
	}
	if p.EndOfHobList != base+uint64(d.EndOffset) {
		return "tdhob-phit", fmt.Sprintf("EfiEndOfHobList=%#x, end marker is at %#x", p.EndOfHobList, base+uint64(d.EndOffset))
	}
	if len(d.Resources) != len(secs)+len(un) {
		return "tdhob-descriptor-count", fmt.Sprintf("%d resource descriptors, want %d sections + %d unaccepted; got %s", len(d.Resources), len(secs), len(un), fmtRes(d.Resources))
	}
	for i, s := range secs {
		r := d.Resources[i]
		if r.Owner != [16]byte{} || r.Type != ResSystemMemory || r.Attr != AttrPresent|AttrInitialized|AttrTested || r.Start != s.MemBase || r.Length != s.MemSize {
			return "tdhob-section-descriptor", fmt.Sprintf("descriptor %d = %s, want system memory attr 7 [%#x,+%#x) (declared section %d)", i, fmtRes([]Resource{r}), s.MemBase, s.MemSize, i)
		}
	}
	for i, u := range un {
		r := d.Resources[len(secs)+i]
		if r.Owner != [16]byte{} || r.Type != ResUnaccepted || r.Start != u.Start || r.Length != u.Length {
			return "tdhob-unaccepted", fmt.Sprintf("unaccepted descriptor %d = %s, want [%#x,+%#x); all got %s", i, fmtRes([]Resource{r}), u.Start, u.Length, fmtRes(d.Resources[len(secs):]))
		}
		if r.Attr != UnacceptedAttr(u, earlyAll) {
			return "tdhob-early-accept-attr", fmt.Sprintf("unaccepted [%#x,+%#x) has attr %#x, want %#x (earlyAll=%v)", u.Start, u.Length, r.Attr, UnacceptedAttr(u, earlyAll), earlyAll)
		}
	}
	for i := d.Used; i < len(b); i++ {
		if b[i] != 0 {
			return "tdhob-padding", fmt.Sprintf("non-zero byte %#x at offset %d after the end marker", b[i], i)
		}
	}
	return "", ""
}

func fmtRes(rs []Resource) string {
	s := ""
	for _, r := range rs {
		s += fmt.Sprintf("{type %d attr %#x [%#x,+%#x)}", r.Type, r.Attr, r.Start, r.Length)
	}
	return s
}
