package c05

import (
	"encoding/binary"
	"math/rand/v2"
	"sort"

	"verifharness/props/c05/tdxref"
)

// Image builder: writes a TDVF-carrying image byte by byte from a spec with its own little-endian
// writers (nothing from ovmf/abi). The GUIDed table may contain other entries around the TDX one and
// the descriptor may sit at any offset.

const (
	page  = tdxref.Page
	gib   = tdxref.GiB
	top40 = uint64(1) << 40
)

type spec struct {
	Size     int              `json:"size"`
	DescOff  int              `json:"descriptor_offset"`
	Sections []tdxref.Section `json:"sections"`
	Feat     map[string]bool  `json:"-"`
}

type tableEntry struct {
	guid    [16]byte
	payload []byte
}

func randGUID(r *rand.Rand) [16]byte {
	var g [16]byte
	for i := range g {
		g[i] = byte(r.IntN(256))
	}
	return g
}

// buildImage renders the spec. extraEntries random GUID-table entries are mixed around the TDX one.
func buildImage(r *rand.Rand, sp *spec) []byte {
	fw := make([]byte, sp.Size)
	buildImageInto(r, sp, fw)
	return fw
}

// buildImageInto renders the spec over fw (len(fw) == sp.Size), whatever fw held before.
func buildImageInto(r *rand.Rand, sp *spec, fw []byte) {
	// filler: pseudo-random bytes so that chunk/page order matters
	var x uint64 = r.Uint64() | 1
	for i := 0; i+8 <= len(fw); i += 8 {
		x ^= x << 13
		x ^= x >> 7
		x ^= x << 17
		binary.LittleEndian.PutUint64(fw[i:], x)
	}
	// GUIDed table
	var entries []tableEntry
	tdxPayload := make([]byte, 4)
	binary.LittleEndian.PutUint32(tdxPayload, uint32(sp.Size-sp.DescOff))
	entries = append(entries, tableEntry{tdxref.GUIDBytes(tdxref.GUIDTdxMetaOffset), tdxPayload})
	nExtra := r.IntN(4)
	used := map[[16]byte]bool{entries[0].guid: true, tdxref.GUIDBytes(tdxref.GUIDTableFooter): true}
	for i := 0; i < nExtra; i++ {
		g := randGUID(r)
		if used[g] {
			continue
		}
		used[g] = true
		p := make([]byte, r.IntN(24))
		for k := range p {
			p[k] = byte(r.IntN(256))
		}
		entries = append(entries, tableEntry{g, p})
	}
	r.Shuffle(len(entries), func(a, b int) { entries[a], entries[b] = entries[b], entries[a] })
	total := tdxref.EntrySize
	for _, e := range entries {
		total += len(e.payload) + tdxref.EntrySize
	}
	pos := sp.Size - tdxref.TableEndOffset
	putEntry := func(g [16]byte, payload []byte, size int) {
		pos -= 16
		copy(fw[pos:], g[:])
		pos -= 2
		binary.LittleEndian.PutUint16(fw[pos:], uint16(size))
		pos -= len(payload)
		copy(fw[pos:], payload)
	}
	putEntry(tdxref.GUIDBytes(tdxref.GUIDTableFooter), nil, total)
	for _, e := range entries {
		putEntry(e.guid, e.payload, len(e.payload)+tdxref.EntrySize)
	}
	writeSections(fw, sp.DescOff, sp.Sections)
}

// writeSections writes the TDVF metadata GUID, descriptor and section table at descOff.
func writeSections(fw []byte, descOff int, secs []tdxref.Section) {
	g := tdxref.GUIDBytes(tdxref.GUIDTdvfMetadata)
	copy(fw[descOff-16:], g[:])
	d := fw[descOff:]
	binary.LittleEndian.PutUint32(d[0:], 0x46564454)
	binary.LittleEndian.PutUint32(d[4:], uint32(16+32*len(secs)))
	binary.LittleEndian.PutUint32(d[8:], 1)
	binary.LittleEndian.PutUint32(d[12:], uint32(len(secs)))
	for i, s := range secs {
		b := d[16+32*i:]
		binary.LittleEndian.PutUint32(b[0:], s.DataOffset)
		binary.LittleEndian.PutUint32(b[4:], s.DataSize)
		binary.LittleEndian.PutUint64(b[8:], s.MemBase)
		binary.LittleEndian.PutUint64(b[16:], s.MemSize)
		binary.LittleEndian.PutUint32(b[24:], s.Type)
		binary.LittleEndian.PutUint32(b[28:], s.Attr)
	}
}

// tableReserve is an upper bound of the bytes the GUIDed table can take at the end of the image.
const tableReserve = tdxref.TableEndOffset + tdxref.EntrySize + 4*(24+tdxref.EntrySize) + 8

func overlaps(placed []tdxref.Range, base, size uint64) bool {
	for _, p := range placed {
		if base < p.End() && p.Start < base+size {
			return true
		}
	}
	return false
}

// placeMemory chooses disjoint page-aligned memory ranges below 2^40 for the given sizes, preferring
// touching / nearly touching neighbours and the boundaries the repository's arithmetic cares about.
func placeMemory(r *rand.Rand, sizes []uint64) []uint64 {
	bases := make([]uint64, len(sizes))
	var placed []tdxref.Range
	order := r.Perm(len(sizes))
	for _, idx := range order {
		size := sizes[idx]
		var base uint64
		ok := false
		for try := 0; try < 60 && !ok; try++ {
			switch k := r.IntN(10); {
			case k < 3 && len(placed) > 0: // touching after
				base = placed[r.IntN(len(placed))].End()
			case k < 5 && len(placed) > 0: // touching before
				p := placed[r.IntN(len(placed))]
				if p.Start < size {
					continue
				}
				base = p.Start - size
			case k < 6 && len(placed) > 0: // small gap after
				base = placed[r.IntN(len(placed))].End() + uint64(1+r.IntN(3))*page
			default:
				anchors := []uint64{0, page, 0x800000, 0x809000, 3*gib - size, 3 * gib, 4*gib - 2*tdxref.MiB, 4*gib - size, 4 * gib,
					4*gib + page, 16 * gib, 177 * gib, top40 - size}
				if size >= 2*page {
					anchors = append(anchors, 4*gib-(size/2)&^(page-1), 3*gib-(size/2)&^(page-1)) // straddling
				}
				if r.IntN(3) == 0 {
					base = (r.Uint64() % (top40 - size)) &^ (page - 1)
				} else {
					base = anchors[r.IntN(len(anchors))]
				}
			}
			if base%page != 0 || base+size > top40 || base+size < base || overlaps(placed, base, size) {
				continue
			}
			ok = true
		}
		if !ok { // fall back: a fresh slot above everything placed so far
			var hi uint64
			for _, p := range placed {
				if p.End() > hi {
					hi = p.End()
				}
			}
			base = hi + page
		}
		bases[idx] = base
		placed = append(placed, tdxref.Range{Start: base, Length: size})
	}
	return bases
}

// genSpec draws a model-valid TDVF layout. big allows images above 256 KiB.
func genSpec(r *rand.Rand) *spec {
	var pages int
	switch k := r.IntN(100); {
	case k < 60:
		pages = 2 + r.IntN(15)
	case k < 90:
		pages = 17 + r.IntN(48)
	case k < 98:
		pages = 65 + r.IntN(192)
	default:
		pages = 512
	}
	return genSpecPages(r, pages)
}

// genSpecPages is genSpec for an image of the given number of pages (>= 2).
func genSpecPages(r *rand.Rand, pages int) *spec {
	sp := &spec{Feat: map[string]bool{}}
	sp.Size = pages * page
	nsec := 2 + r.IntN(7)
	types := []uint32{tdxref.TypeBFV, tdxref.TypeTDHOB}
	for len(types) < nsec {
		types = append(types, []uint32{tdxref.TypeBFV, tdxref.TypeCFV, tdxref.TypeCFV, tdxref.TypeTempMem, tdxref.TypeTempMem, tdxref.TypeTempMem}[r.IntN(6)])
	}
	nfv := 0
	for _, t := range types {
		if t <= tdxref.TypeCFV {
			nfv++
		}
	}
	for nfv > pages { // cannot happen with pages>=2 and nfv<=7 except tiny images: turn FVs into temp memory
		for i, t := range types[2:] {
			if t <= tdxref.TypeCFV {
				types[2+i] = tdxref.TypeTempMem
				nfv--
				break
			}
		}
	}
	r.Shuffle(len(types), func(a, b int) { types[a], types[b] = types[b], types[a] })
	// composition of the image pages into nfv parts >= 1
	cuts := map[int]bool{}
	for len(cuts) < nfv-1 {
		cuts[1+r.IntN(pages-1)] = true
	}
	var cl []int
	for c := range cuts {
		cl = append(cl, c)
	}
	sort.Ints(cl)
	cl = append(cl, pages)
	var fvPages []int
	prev := 0
	for _, c := range cl {
		fvPages = append(fvPages, c-prev)
		prev = c
	}
	r.Shuffle(len(fvPages), func(a, b int) { fvPages[a], fvPages[b] = fvPages[b], fvPages[a] })
	// data placement: a partition of the image in a random order, or arbitrary (overlapping, unaligned) ranges
	overlapData := r.IntN(6) == 0
	sp.Feat["data-overlap"] = overlapData
	slot := r.Perm(nfv) // which slot of the partition each FV takes
	slotOff := make([]int, nfv)
	{
		sizesBySlot := make([]int, nfv)
		for k := 0; k < nfv; k++ {
			sizesBySlot[slot[k]] = fvPages[k]
		}
		off := 0
		for s := 0; s < nfv; s++ {
			slotOff[s] = off
			off += sizesBySlot[s] * page
		}
	}
	sizes := make([]uint64, nsec)
	sp.Sections = make([]tdxref.Section, nsec)
	fv := 0
	for i, t := range types {
		s := &sp.Sections[i]
		s.Type = t
		switch t {
		case tdxref.TypeBFV, tdxref.TypeCFV:
			s.DataSize = uint32(fvPages[fv] * page)
			if overlapData {
				room := sp.Size - int(s.DataSize)
				if room > 0 {
					s.DataOffset = uint32(r.IntN(room + 1))
					if r.IntN(2) == 0 {
						s.DataOffset &^= page - 1
					}
				}
			} else {
				s.DataOffset = uint32(slotOff[slot[fv]])
			}
			s.MemSize = uint64(s.DataSize)
			fv++
		case tdxref.TypeTDHOB:
			s.MemSize = uint64(1+r.IntN(4)) * page
		case tdxref.TypeTempMem:
			if r.IntN(20) == 0 {
				s.MemSize = uint64(17+r.IntN(240)) * page
			} else {
				s.MemSize = uint64(1+r.IntN(16)) * page
			}
		}
		if t >= tdxref.TypeTDHOB && r.IntN(5) == 0 { // data fields of non-FV sections are not meaningful: anything goes
			s.DataOffset = r.Uint32()
			s.DataSize = r.Uint32()
		}
		if r.IntN(2) == 0 {
			s.Attr = tdxref.AttrExtendMR
		}
		if t == tdxref.TypeTempMem && r.IntN(100) >= 15 {
			s.Attr = 0 // temporary memory is normally not flagged (TDVF design guide)
		}
		if r.IntN(10) == 0 {
			s.Attr |= r.Uint32() &^ 1 // undefined attribute bits
		}
		sizes[i] = s.MemSize
	}
	bases := placeMemory(r, sizes)
	for i := range sp.Sections {
		sp.Sections[i].MemBase = bases[i]
	}
	// 0-2 EMPTY temporary-memory sections (MemorySize 0): any declared position, in particular before the
	// TD HOB and last; base = page-aligned, at another section's start or end, or a free page, never
	// strictly inside another section.
	if r.IntN(4) == 0 {
		for n := 1 + r.IntN(2); n > 0; n-- {
			z := tdxref.Section{Type: tdxref.TypeTempMem}
			if r.IntN(4) == 0 {
				z.Attr = tdxref.AttrExtendMR
			}
			for try := 0; try < 20; try++ {
				o := sp.Sections[r.IntN(len(sp.Sections))]
				switch r.IntN(6) {
				case 0:
					z.MemBase = o.MemBase
				case 1:
					z.MemBase = o.End()
				case 2:
					z.MemBase = o.End() + page
				case 3:
					z.MemBase = []uint64{0, page, 3 * gib, 4*gib - page, 4 * gib, top40}[r.IntN(6)]
				default:
					z.MemBase = (r.Uint64() % top40) &^ (page - 1)
				}
				inside := false
				for _, q := range sp.Sections {
					if q.MemSize != 0 && z.MemBase > q.MemBase && z.MemBase < q.End() {
						inside = true
					}
				}
				if !inside {
					break
				}
				z.MemBase = top40
			}
			hobAt := 0
			for k, q := range sp.Sections {
				if q.Type == tdxref.TypeTDHOB {
					hobAt = k
				}
			}
			var pos int
			switch r.IntN(4) {
			case 0:
				pos = r.IntN(hobAt + 1) // before the TD HOB
			case 1:
				pos = len(sp.Sections) // last
			default:
				pos = r.IntN(len(sp.Sections) + 1)
			}
			sp.Sections = append(sp.Sections[:pos], append([]tdxref.Section{z}, sp.Sections[pos:]...)...)
			sp.Feat["zero-size-sec"] = true
		}
		nsec = len(sp.Sections)
	}
	// descriptor offset: anywhere between the GUID in front of it and the table at the end
	need := 16 + 32*nsec
	maxOff := sp.Size - tableReserve - need
	sp.DescOff = 16 + r.IntN(maxOff-16+1)
	if r.IntN(3) > 0 {
		sp.DescOff &^= 15
		if sp.DescOff < 16 {
			sp.DescOff = 16
		}
	}
	return sp
}

// genBanks draws a non-overlapping RAM bank list from boundaries around the sections, the 3/4 GiB
// boundaries and random pages: touching, nested around sections, zero length, unsorted, straddling
// 4 GiB, above 2^40.
func genBanks(r *rand.Rand, secs []tdxref.Section, feat map[string]bool) []tdxref.Range {
	if r.IntN(25) == 0 {
		return nil
	}
	set := map[uint64]bool{0: true, page: true, 3 * gib: true, 4*gib - 2*tdxref.MiB: true, 4*gib - page: true, 4 * gib: true, 4*gib + page: true,
		top40: true, top40 + gib: true, 1 << 44: true}
	for _, s := range secs {
		set[s.MemBase] = true
		set[s.End()] = true
		if s.MemBase >= page {
			set[s.MemBase-page] = true
		}
		set[s.End()+page] = true
		if s.MemSize >= 2*page && r.IntN(2) == 0 {
			set[s.MemBase+page] = true // boundary inside a section
		}
	}
	for k := r.IntN(4); k > 0; k-- {
		set[(r.Uint64()%(top40+gib))&^(page-1)] = true
	}
	pts := make([]uint64, 0, len(set))
	for p := range set {
		pts = append(pts, p)
	}
	sort.Slice(pts, func(a, b int) bool { return pts[a] < pts[b] })
	want := 1 + r.IntN(5)
	if r.IntN(20) == 0 {
		want = 6 + r.IntN(8)
	}
	var banks []tdxref.Range
	// walk the sorted points with random strides; a bank may start where the previous one ended (touching)
	i := r.IntN(3)
	for len(banks) < want && i+1 < len(pts) {
		j := i + 1 + r.IntN(3)
		if j >= len(pts) {
			j = len(pts) - 1
		}
		b := tdxref.Range{Start: pts[i], Length: pts[j] - pts[i]}
		if r.IntN(10) == 0 {
			b.Length = 0
			feat["bank-zero-length"] = true
		} else if r.IntN(20) == 0 && b.Length > page {
			b.Start += 0x800 // unaligned bank start, still inside its slot
			b.Length -= 0x800
			if r.IntN(2) == 0 {
				b.Length -= 0x10
			}
			feat["bank-unaligned"] = true
		}
		banks = append(banks, b)
		if b.Length == 0 && r.IntN(2) == 0 {
			continue // the next bank starts at the same address as the empty one
		}
		if r.IntN(3) == 0 {
			i = j // next bank touches this one
		} else {
			i = j + 1 + r.IntN(2)
		}
	}
	if len(banks) > 1 && r.IntN(4) > 0 {
		r.Shuffle(len(banks), func(a, b int) { banks[a], banks[b] = banks[b], banks[a] })
	}
	return banks
}
