package c05

// Directive family (fifth round): three things no earlier family produced or judged.
//
//  1. DEGENERATE PLACEMENT. An empty temporary-memory section (MemorySize 0) is an empty set of pages: it
//     overlaps nothing, wherever its base address lies. Earlier families put such sections at free pages and at
//     the first / one-past-last address of other sections, never STRICTLY INSIDE another declared section (or
//     another empty section's address). Here 1..3 of them are declared with a base inside a firmware volume, the
//     TD HOB or temporary memory, before / after the enclosing section, first, last, before the TD HOB, and inside
//     / at the edges of RAM banks. Such metadata is model-valid (Layout.Valid: "an empty range intersects
//     nothing"): one length-0 descriptor in declared order, no records, no part in RAM-minus-sections.
//
//  2. THE CONSUMER'S VIEW OF THE REGIONS. ovmf.Extract* return (range, contents, directive) triples; the
//     property names them as an observation point. Earlier families measured returned regions with the MODE
//     deciding what is extended, so a directive that disagrees with the mode went unseen. Here the regions of
//     every extractor are measured the way they themselves direct: by the model's record stream with
//     Extend = the region's own EXTEND bit, and by the repository's own plain tdx.NewMeasurement() (which follows
//     the directive) next to tdx.NewMeasurementTDHOBBug() (which forces); each must give the model's MRTD for
//     the mode the extractor stands for.
//
//  3. A FLAGGED SECTION WITHOUT CONTENTS. Temporary memory flagged EXTEND in default mode: the unchanged
//     repository refuses it (counted, no verdict: the property does not say what the contents are). What the
//     property does say is that only sections NOT flagged contribute page-add records only; so a digest that is
//     returned and equals the stream in which a flagged section contributes page-add records only is wrong
//     whatever the contents are taken to be (rule flagged-section-not-extended, applied in every family).
//
// Early accept without measure-all (LaunchOptions{DisableUnacceptedMemory: true}) stays observed, not judged: it
// is a fourth flag combination, the property quantifies over three modes, and the field documentation
// ("MeasureAllRegions forces all regions to be measured") does not make it a request for measure-everything.

import (
	"encoding/hex"
	"fmt"
	"math/rand/v2"
	"strings"

	"github.com/google/gce-tcb-verifier/ovmf"
	epb "github.com/google/gce-tcb-verifier/proto/endorsement"
	"github.com/google/gce-tcb-verifier/tdx"

	"verifharness/props/c05/tdxref"
)

const (
	ruleFlagIgnored = "flagged-section-not-extended"
	ruleDirective   = "regions-by-directive-digest"
)

type dirStats struct {
	emptyInside   map[string]int // judged-equal MRTDs with an empty section strictly inside a section of the type
	emptyInsideBk int            // ... and strictly inside a RAM bank that is described (legacy modes)
	consumerOK    map[tdxref.Mode]int
	flaggedLegacy int // judged-equal legacy-mode MRTDs with flagged non-empty temporary memory
	flaggedDefErr int
	flaggedDefVal int
}

func newDirStats() dirStats {
	return dirStats{emptyInside: map[string]int{}, consumerOK: map[tdxref.Mode]int{}}
}

func typeName(t uint32) string {
	switch t {
	case tdxref.TypeBFV:
		return "bfv"
	case tdxref.TypeCFV:
		return "cfv"
	case tdxref.TypeTDHOB:
		return "tdhob"
	}
	return "tempmem"
}

// flagIgnored: got equals the default-mode record stream of the layout in which a non-empty subset of the
// EXTEND-flagged, non-empty temporary-memory sections contributes page-add records only. Returns the subset.
func flagIgnored(fw []byte, exp *tdxref.Expected, got [48]byte) string {
	var fl []int
	for k, s := range exp.Layout.Sections {
		if s.Type == tdxref.TypeTempMem && s.Attr&tdxref.AttrExtendMR != 0 && s.MemSize != 0 {
			fl = append(fl, k)
		}
	}
	if len(fl) == 0 {
		return ""
	}
	var subsets []uint
	if len(fl) <= 4 {
		for m := uint(1); m < 1<<len(fl); m++ {
			subsets = append(subsets, m)
		}
	} else {
		subsets = append(subsets, 1<<len(fl)-1)
		for k := range fl {
			subsets = append(subsets, 1<<k)
		}
	}
	for _, m := range subsets {
		skip := map[int]bool{}
		var names []string
		for b, k := range fl {
			if m&(1<<b) != 0 {
				skip[k] = true
				names = append(names, fmt.Sprint(k))
			}
		}
		regs := make([]tdxref.RegionData, len(exp.Layout.Sections))
		for k, s := range exp.Layout.Sections {
			regs[k] = tdxref.RegionData{Base: s.MemBase, Size: s.MemSize, Data: exp.Contents(fw, k), Extend: tdxref.Extended(s, tdxref.ModeDefault) && !skip[k]}
		}
		if d, err := tdxref.DigestRegions(regs); err == nil && d == got {
			return strings.Join(names, ",")
		}
	}
	return ""
}

// insertEmptyInside declares n empty temporary-memory sections whose base lies strictly inside a section of at
// least two pages. ok=false: the layout has no such section.
func insertEmptyInside(r *rand.Rand, sp *spec, n int) bool {
	var lastBase uint64
	done := 0
	for ; n > 0; n-- {
		var hosts []int
		for k, s := range sp.Sections {
			if s.MemSize >= 2*page {
				hosts = append(hosts, k)
			}
		}
		if len(hosts) == 0 {
			return done > 0
		}
		h := hosts[r.IntN(len(hosts))]
		host := sp.Sections[h]
		z := tdxref.Section{Type: tdxref.TypeTempMem, MemBase: host.MemBase + page*uint64(1+r.IntN(int(host.MemSize/page)-1))}
		if done > 0 && r.IntN(4) == 0 {
			z.MemBase = lastBase // two empty sections at one address
			sp.Feat["empty-secs-same-address"] = true
		}
		lastBase = z.MemBase
		if r.IntN(4) == 0 {
			z.Attr = tdxref.AttrExtendMR
		}
		if r.IntN(5) == 0 { // data fields of a section without data are not meaningful
			z.DataOffset, z.DataSize = r.Uint32(), r.Uint32()
		}
		hobAt := 0
		for k, q := range sp.Sections {
			if q.Type == tdxref.TypeTDHOB {
				hobAt = k
			}
		}
		var pos int
		switch r.IntN(6) {
		case 0:
			pos = h // right before the section it lies in
		case 1:
			pos = h + 1 // right after it
		case 2:
			pos = 0
		case 3:
			pos = len(sp.Sections)
		case 4:
			pos = r.IntN(hobAt + 1) // before the TD HOB
		default:
			pos = r.IntN(len(sp.Sections) + 1)
		}
		if pos <= h {
			sp.Feat["empty-inside-declared-before-host"] = true
		} else {
			sp.Feat["empty-inside-declared-after-host"] = true
		}
		sp.Feat["empty-inside-"+typeName(host.Type)] = true
		sp.Sections = append(sp.Sections[:pos], append([]tdxref.Section{z}, sp.Sections[pos:]...)...)
		done++
	}
	sp.Feat["zero-size-sec"] = true
	return true
}

func (r *runner) caseDirective(i, idx int) {
	c := r.c
	rr := c.Rand(i)
	slot := (idx%8 + idx/8) % 8 // the kinds rotate from block to block: every shard gets every kind
	kind := []string{"empty-inside", "empty-inside", "empty-inside", "flagged-tempmem", "flagged-tempmem", "plain", "plain", "empty-inside+flagged"}[slot]
	var sp *spec
	ok := false
	for try := 0; try < 40 && !ok; try++ {
		sp = genSpec(rr)
		if sp.Size > 64<<10 {
			continue
		}
		ok = true
		if strings.Contains(kind, "flagged") {
			var tm []int
			for k, s := range sp.Sections {
				if s.Type == tdxref.TypeTempMem && s.MemSize != 0 {
					tm = append(tm, k)
				}
			}
			if len(tm) == 0 {
				ok = false
				continue
			}
			forced := tm[rr.IntN(len(tm))]
			for _, k := range tm {
				if k == forced || rr.IntN(2) == 0 {
					sp.Sections[k].Attr |= tdxref.AttrExtendMR
				}
			}
		}
		if strings.Contains(kind, "empty-inside") {
			ok = insertEmptyInside(rr, sp, 1+rr.IntN(3))
		}
	}
	gen := "directive/" + kind
	if !ok || !finishSpec(rr, sp, 0) {
		c.Begin(i, gen, "all", nil)
		c.Count("directive/construction-missed", 1)
		c.End(i)
		return
	}
	fw := buildImage(rr, sp)
	var banks []tdxref.Range
	feat := map[string]bool{"kind=" + kind: true}
	for k, v := range sp.Feat {
		feat[k] = v
	}
	if rr.IntN(4) == 0 {
		banks = tdxref.Shapes[rr.IntN(len(tdxref.Shapes))].Banks
		feat["shape"] = true
	} else {
		banks = genBanks(rr, sp.Sections, feat)
	}
	gen = fmt.Sprintf("%s/%dsec/%dKiB/%dbanks", gen, len(sp.Sections), sp.Size>>10, len(banks))
	c.Begin(i, gen, "all", nil)
	defer c.End(i)
	if !r.selfCheck(i, gen, fw, sp) {
		return
	}
	// which sections hold an empty section strictly inside, and is one strictly inside a described bank
	insideTypes := map[string]bool{}
	insideBank := false
	for _, z := range sp.Sections {
		if z.MemSize != 0 {
			continue
		}
		for _, q := range sp.Sections {
			if q.MemSize != 0 && z.MemBase > q.MemBase && z.MemBase < q.End() {
				insideTypes[typeName(q.Type)] = true
			}
		}
		for _, b := range banks {
			if b.Length != 0 && z.MemBase > b.Start && z.MemBase < b.End() {
				insideBank = true
			}
		}
	}
	feat["empty-sec-inside-bank"] = insideBank
	tempExt := hasTempExtend(sp.Sections)

	for _, m := range modes {
		eq := r.measure(i, "directive", gen, fw, banks, []tdxref.Mode{m}, feat, false)
		mb := banks
		if m == tdxref.ModeDefault {
			mb = nil
		}
		if eq == 1 {
			for t := range insideTypes {
				r.dir.emptyInside[t]++
			}
			if insideBank && m != tdxref.ModeDefault {
				r.dir.emptyInsideBk++
			}
			if tempExt && m != tdxref.ModeDefault {
				r.dir.flaggedLegacy++
			}
		}
		// ---- the regions, measured the way they direct ----
		exp, merr := tdxref.Measure(fw, mb, m)
		if merr != nil {
			continue
		}
		entry := entryFor(m)
		g := gen + "/" + m.String() + "/by-directive"
		var regions []*ovmf.MaterialGuestPhysicalRegion
		var rerr error
		gb := toGPR(mb)
		pm := r.guard(i, entry, g, func() { regions, rerr = extractFor(m, fw, gb) })
		if pm.Panicked || rerr != nil || len(regions) != len(exp.Layout.Sections) {
			continue // reported by measure above (valid-rejected / region-list)
		}
		nilRegion := false
		for _, x := range regions {
			nilRegion = nilRegion || x == nil
		}
		if nilRegion {
			continue
		}
		if m == tdxref.ModeDefault && tempExt {
			// a flagged region without contents: what a consumer does with it is not the property's business
			var got [48]byte
			out := r.unjudged(i, eMeas, g+"/flagged-without-contents", func() error {
				ms := tdx.NewMeasurement()
				for _, x := range regions {
					if err := ms.InitMemoryRegion(x); err != nil {
						return err
					}
				}
				got = ms.Finalize()
				return nil
			})
			c.Count("directive/flagged-tempmem-default/tdx.Measurement/"+out, 1)
			if out == "no-error" {
				r.dir.flaggedDefVal++
				if which := flagIgnored(fw, exp, got); which != "" {
					r.viol(i, eMeas, ruleFlagIgnored, g, witness(fw, exp.Layout, mb, m, map[string]any{"got": hex.EncodeToString(got[:]), "sections_measured_as_unflagged": which}),
						"the default extractor's regions fed to tdx.NewMeasurement() give %x..., the record stream in which the EXTEND-flagged temporary-memory section(s) %s contribute page-add records only", got[:6], which)
				}
			} else {
				r.dir.flaggedDefErr++
			}
			continue
		}
		w := func(more map[string]any) map[string]any {
			var attrs []string
			for _, x := range regions {
				attrs = append(attrs, fmt.Sprintf("%#x", x.TDVFAttributes))
			}
			more["region_attributes"] = attrs
			more["want"] = hex.EncodeToString(exp.MRTD[:])
			return witness(fw, exp.Layout, mb, m, more)
		}
		// (a) the model's record stream, Extend = the region's own directive
		regs := make([]tdxref.RegionData, len(regions))
		for k, x := range regions {
			regs[k] = tdxref.RegionData{Base: uint64(x.GPR.Start), Size: x.GPR.Length, Data: x.HostBuffer, Extend: x.TDVFAttributes&tdxref.AttrExtendMR != 0}
			if x.HostBuffer != nil && !regs[k].Extend {
				regs[k].Data = nil // contents of a region that is not extended do not enter the stream
			}
		}
		good := true
		if d, derr := tdxref.DigestRegions(regs); derr != nil || d != exp.MRTD {
			good = false
			r.viol(i, entry, ruleDirective, g, w(map[string]any{"got": hex.EncodeToString(d[:])}),
				"the returned regions measured as they direct (MR.EXTEND where a region's EXTEND bit is set) give %x..., the model for %s is %x... (err=%v)", d[:6], m, exp.MRTD[:6], derr)
		}
		// (b) the repository's own consumers: the one that follows the directive, and (legacy regions) the one that forces
		var dPlain, dForce [48]byte
		var ePlain, eForce error
		force := m != tdxref.ModeDefault
		pm = r.guard(i, eMeas, g, func() {
			mp, mf := tdx.NewMeasurement(), tdx.NewMeasurementTDHOBBug()
			for _, x := range regions {
				if ePlain == nil {
					ePlain = mp.InitMemoryRegion(x)
				}
				if force && eForce == nil {
					eForce = mf.InitMemoryRegion(x)
				}
			}
			dPlain, dForce = mp.Finalize(), mf.Finalize()
		})
		if pm.Panicked {
			continue
		}
		switch {
		case ePlain != nil || (force && eForce != nil):
			good = false
			r.viol(i, eMeas, "valid-rejected", g, w(map[string]any{}), "regions of a model-valid image and configuration rejected by InitMemoryRegion: %v / %v", ePlain, eForce)
		case dPlain != exp.MRTD:
			good = false
			r.viol(i, eMeas, ruleDirective, g, w(map[string]any{"got": hex.EncodeToString(dPlain[:])}),
				"the regions of %s fed to tdx.NewMeasurement() (which extends where the region says so) give %x..., the model for %s is %x...", entry, dPlain[:6], m, exp.MRTD[:6])
		case force && dForce != exp.MRTD:
			good = false
			r.viol(i, eMeas, "mrtd-mismatch", g, w(map[string]any{"got": hex.EncodeToString(dForce[:])}),
				"the regions of %s fed to tdx.NewMeasurementTDHOBBug() give %x..., the model for %s is %x...", entry, dForce[:6], m, exp.MRTD[:6])
		}
		if good {
			r.dir.consumerOK[m]++
			c.Cell("directive|consumer|%s|%s|%s", kind, m, features(exp.Layout.Sections, mb, exp.Unaccepted, m, nil))
		}
	}
	r.flushKept(i)

	// ---- flagged temporary memory: the default endorsement row (the unchanged repository refuses the request) ----
	if tempExt && idx%2 == 0 {
		dexp, derr := tdxref.Measure(fw, nil, tdxref.ModeDefault)
		if derr != nil {
			return
		}
		var out *epb.VMTdx
		var uerr error
		g := gen + "/rows/default-only"
		pm := r.guard(i, eRows, g, func() { out, uerr = tdx.UnsignedTDX(fw, &tdx.EndorsementRequest{Svn: rr.Uint32()}) })
		if pm.Panicked {
			return
		}
		if uerr != nil {
			c.Count("unspecified/tempmem-extend-default/rows-rejected", 1)
			return
		}
		for k, row := range out.GetMeasurements() {
			if len(row.GetMrtd()) != 48 {
				continue
			}
			var gm [48]byte
			copy(gm[:], row.GetMrtd())
			if which := flagIgnored(fw, dexp, gm); which != "" {
				r.viol(i, eRows, ruleFlagIgnored, g, witness(fw, dexp.Layout, nil, tdxref.ModeDefault, map[string]any{"row": k, "got": hex.EncodeToString(gm[:]), "sections_measured_as_unflagged": which}),
					"row %d: MRTD %x... is the record stream in which the EXTEND-flagged temporary-memory section(s) %s contribute page-add records only", k, gm[:6], which)
			}
		}
	}
}

func (r *runner) directiveSummary() {
	c := r.c
	d := &r.dir
	tot := 0
	for t, n := range d.emptyInside {
		c.Count("directive/equal-with-empty-section-strictly-inside/"+t, n)
		tot += n
	}
	c.Count("directive/equal-with-empty-section-strictly-inside-a-described-bank", d.emptyInsideBk)
	for _, m := range modes {
		c.Count("directive/regions-measured-as-they-direct-equal/"+m.String(), d.consumerOK[m])
	}
	c.Count("directive/flagged-tempmem/legacy-modes-equal", d.flaggedLegacy)
	c.Count("directive/flagged-tempmem/default-regions-refused-by-consumer", d.flaggedDefErr)
	c.Count("directive/flagged-tempmem/default-regions-measured-by-consumer", d.flaggedDefVal)
	c.Floor("directive/empty-section-strictly-inside-another-measured", tot > 0)
	c.Floor("directive/empty-section-inside-firmware-volume-measured", d.emptyInside["bfv"]+d.emptyInside["cfv"] > 0)
	c.Floor("directive/legacy-regions-measured-as-they-direct", d.consumerOK[tdxref.ModeLegacy] > 0 && d.consumerOK[tdxref.ModeLegacyEarly] > 0)
	c.Floor("directive/default-regions-measured-as-they-direct", d.consumerOK[tdxref.ModeDefault] > 0)
	c.Floor("directive/flagged-tempmem-measured-in-legacy-modes", d.flaggedLegacy > 0)
}
