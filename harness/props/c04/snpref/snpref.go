// Package snpref is an independent reference model of the SEV-SNP launch digest of a
// GCE firmware image, written from the AMD SEV-SNP ABI (PAGE_INFO, SNP_LAUNCH_UPDATE), the
// AMD APM VMSA layout, the edk2 OVMF GUIDed-table / SEV metadata layout and the text of
// property C04. It shares no code with the repository: own little-endian readers, own GUID
// encoding, own VMSA offset table, 64-bit address arithmetic throughout.
package snpref

import (
	"crypto/sha512"
	"encoding/binary"
	"encoding/hex"
	"errors"
	"fmt"
	"sort"
	"strings"
)

// Section is one declared SNP metadata range.
type Section struct {
	Addr uint32 `json:"addr"`
	Len  uint32 `json:"len"`
	Kind uint32 `json:"kind"`
}

func (s Section) String() string { return fmt.Sprintf("{k%d 0x%x+0x%x}", s.Kind, s.Addr, s.Len) }

// OVMF metadata section kinds.
const (
	KindUnmeasured = 1
	KindSecrets    = 2
	KindCPUID      = 3
	KindSvsmCaa    = 4
)

// SNP_LAUNCH_UPDATE page types (SEV-SNP ABI, table "Encodings for the PAGE_TYPE field").
const (
	ptNormal     = 1
	ptVMSA       = 2
	ptZero       = 3
	ptUnmeasured = 4
	ptSecrets    = 5
	ptCPUID      = 6
)

const page = 4096

// GUIDs (text form as in edk2 ResetVectorVtf0.asm / OvmfSevMetadata.asm).
const (
	FooterGUID   = "96b582de-1fb2-45f7-baea-a366c55a082d"
	ResetGUID    = "00f771de-1a7e-4fcb-890e-68c77e2fb44e"
	MetadataGUID = "dc886566-984a-4798-a75e-5585a7bf67cc"
)

// EFIGUID encodes a textual GUID in the EFI mixed-endian in-memory form.
func EFIGUID(text string) [16]byte {
	b, err := hex.DecodeString(strings.ReplaceAll(text, "-", ""))
	if err != nil || len(b) != 16 {
		panic("bad guid " + text)
	}
	var g [16]byte
	g[0], g[1], g[2], g[3] = b[3], b[2], b[1], b[0]
	g[4], g[5] = b[5], b[4]
	g[6], g[7] = b[7], b[6]
	copy(g[8:], b[8:])
	return g
}

// ProductBits is the guest-physical address width the launch uses for the VMSA GPA.
func ProductBits(product string) uint {
	switch product {
	case "Milan":
		return 48
	case "Genoa":
		return 52
	}
	panic("unsupported product " + product)
}

func pageInfo(cur []byte, contents []byte, ptype byte, gpa uint64) []byte {
	var b [0x70]byte
	copy(b[0x00:0x30], cur)                         // DIGEST_CUR
	copy(b[0x30:0x60], contents)                    // CONTENTS
	b[0x60], b[0x61] = 0x70, 0x00                   // LENGTH
	b[0x62] = ptype                                 // PAGE_TYPE
	b[0x63] = 0                                     // IMI_PAGE
	b[0x64], b[0x65], b[0x66], b[0x67] = 0, 0, 0, 0 // reserved, VMPL1..3 permissions
	binary.LittleEndian.PutUint64(b[0x68:], gpa)
	h := sha512.Sum384(b[:])
	return h[:]
}

// VMSAPage is the 4 KiB VMSA page of a vCPU in the GCE reset state with the given rip and
// cs.base (offsets from AMD APM vol. 2, table B-4 "VMSA layout, state save area for SEV-ES").
func VMSAPage(rip, csbase uint64) []byte {
	p := make([]byte, page)
	seg := func(off int, sel, attr uint16, limit uint32, base uint64) {
		binary.LittleEndian.PutUint16(p[off:], sel)
		binary.LittleEndian.PutUint16(p[off+2:], attr)
		binary.LittleEndian.PutUint32(p[off+4:], limit)
		binary.LittleEndian.PutUint64(p[off+8:], base)
	}
	seg(0x00, 0, 0x93, 0xffff, 0)           // ES
	seg(0x10, 0xf000, 0x9b, 0xffff, csbase) // CS
	seg(0x20, 0, 0x93, 0xffff, 0)           // SS
	seg(0x30, 0, 0x93, 0xffff, 0)           // DS
	seg(0x40, 0, 0x93, 0xffff, 0)           // FS
	seg(0x50, 0, 0x93, 0xffff, 0)           // GS
	seg(0x60, 0, 0, 0xffff, 0)              // GDTR
	seg(0x70, 0, 0x82, 0xffff, 0)           // LDTR
	seg(0x80, 0, 0, 0xffff, 0)              // IDTR
	seg(0x90, 0, 0x8b, 0xffff, 0)           // TR
	q := func(off int, v uint64) { binary.LittleEndian.PutUint64(p[off:], v) }
	q(0x0D0, 0x1000)     // EFER (SVME)
	q(0x148, 0x40)       // CR4 (MCE)
	q(0x158, 0x10)       // CR0 (ET)
	q(0x160, 0x400)      // DR7
	q(0x168, 0xffff0ff0) // DR6
	q(0x170, 0x2)        // RFLAGS
	q(0x178, rip)        // RIP
	q(0x268, 0x70106)    // G_PAT
	q(0x310, 0x600)      // RDX
	q(0x3B0, 0x1)        // SEV_FEATURES (SNP active)
	q(0x3E8, 0x1)        // XCR0
	return p
}

func pageType(kind uint32) (byte, bool) {
	switch kind {
	case KindUnmeasured:
		return ptUnmeasured, true
	case KindSecrets:
		return ptSecrets, true
	case KindCPUID:
		return ptCPUID, true
	case KindSvsmCaa:
		return ptZero, true
	}
	return 0, false
}

// Prefix is the digest chain after the ROM pages and the declared metadata ranges (everything
// that does not depend on the vCPU count or the product). rom must be a multiple of 4 KiB and
// secs Classify-clean.
func Prefix(rom []byte, secs []Section) []byte {
	cur := make([]byte, 48)
	base := (uint64(1) << 32) - uint64(len(rom))
	for off := 0; off < len(rom); off += page {
		c := sha512.Sum384(rom[off : off+page])
		cur = pageInfo(cur, c[:], ptNormal, base+uint64(off))
	}
	zero := make([]byte, 48)
	for _, s := range secs {
		pt, _ := pageType(s.Kind)
		end := uint64(s.Addr) + uint64(s.Len)
		for a := uint64(s.Addr); a < end; a += page {
			cur = pageInfo(cur, zero, pt, a)
		}
	}
	return cur
}

// Finish extends a Prefix with the VMSA pages: the boot processor's, then vcpus-1 identical
// application-processor pages whose rip / cs.base are the low / high 16 bits of the reset
// block address; all at the product's highest guest-physical page.
func Finish(prefix []byte, resetAddr uint32, vcpus int, bits uint) []byte {
	cur := prefix
	high := ((uint64(1) << bits) - 1) &^ 0xfff
	bsp := sha512.Sum384(VMSAPage(0xfff0, 0xffff0000))
	ap := sha512.Sum384(VMSAPage(uint64(resetAddr)&0xffff, uint64(resetAddr)&0xffff0000))
	for i := 0; i < vcpus; i++ {
		if i == 0 {
			cur = pageInfo(cur, bsp[:], ptVMSA, high)
		} else {
			cur = pageInfo(cur, ap[:], ptVMSA, high)
		}
	}
	return cur
}

// Digest is the launch digest C04 defines (vcpus >= 1).
func Digest(rom []byte, secs []Section, resetAddr uint32, vcpus int, bits uint) []byte {
	return Finish(Prefix(rom, secs), resetAddr, vcpus, bits)
}

// Malformed classes, in the words of C04.
const (
	ClsUnknownKind = "unknown-kind"
	ClsEmpty       = "empty-range"
	ClsMisaligned  = "misaligned-range"
	ClsDuplicate   = "duplicate-cpuid-or-secrets"
	ClsMissing     = "missing-mandatory-kind"
	ClsOverlap     = "overlap"
)

// Classify returns every malformed class of C04 the section list falls in (nil = well-formed).
// All arithmetic is 64-bit: a range is [addr, addr+len) in the guest-physical address space.
func Classify(secs []Section) []string {
	var out []string
	add := func(c string) {
		for _, x := range out {
			if x == c {
				return
			}
		}
		out = append(out, c)
	}
	seen := map[uint32]int{}
	for _, s := range secs {
		if _, ok := pageType(s.Kind); !ok {
			add(ClsUnknownKind)
		}
		if s.Len == 0 {
			add(ClsEmpty)
		} else if s.Len%page != 0 {
			add(ClsMisaligned)
		}
		if s.Addr%page != 0 {
			add(ClsMisaligned)
		}
		seen[s.Kind]++
	}
	if seen[KindSecrets] > 1 || seen[KindCPUID] > 1 {
		add(ClsDuplicate)
	}
	if seen[KindUnmeasured] == 0 || seen[KindSecrets] == 0 || seen[KindCPUID] == 0 {
		add(ClsMissing)
	}
	type iv struct{ s, e uint64 }
	var ivs []iv
	for _, s := range secs {
		if s.Len == 0 {
			continue
		}
		ivs = append(ivs, iv{uint64(s.Addr), uint64(s.Addr) + uint64(s.Len)})
	}
	sort.Slice(ivs, func(i, j int) bool { return ivs[i].s < ivs[j].s })
	for i := 0; i+1 < len(ivs); i++ {
		if ivs[i].e > ivs[i+1].s {
			add(ClsOverlap)
		}
	}
	return out
}

// Parsed is what the image declares.
type Parsed struct {
	Reset   uint32
	Secs    []Section
	Version uint32
	MetaOff int // file offset of the metadata header
}

// Parse walks the GUIDed table at the end of the image and reads the SEV-ES reset block and
// the SEV metadata (edk2 layout). Any structural irregularity is an error: such images are
// outside what the model judges.
func Parse(fw []byte) (*Parsed, error) {
	const hdr = 18
	n := len(fw)
	if n < 0x20+hdr {
		return nil, errors.New("image too small for a GUIDed table footer")
	}
	foot := fw[n-0x20-hdr : n-0x20]
	fg := EFIGUID(FooterGUID)
	if string(foot[2:]) != string(fg[:]) {
		return nil, errors.New("no GUIDed table footer")
	}
	total := int(binary.LittleEndian.Uint16(foot))
	if total < hdr || n < total+0x20 {
		return nil, errors.New("bad table size")
	}
	tbl := fw[n-0x20-total : n-0x20-hdr]
	entries := map[[16]byte][]byte{}
	for rem := len(tbl); rem > 0; {
		if rem < hdr {
			return nil, errors.New("table remainder smaller than an entry header")
		}
		h := tbl[rem-hdr : rem]
		sz := int(binary.LittleEndian.Uint16(h))
		if sz < hdr || sz > rem {
			return nil, errors.New("entry size out of range")
		}
		var g [16]byte
		copy(g[:], h[2:])
		if _, dup := entries[g]; dup {
			return nil, errors.New("duplicate GUID")
		}
		entries[g] = tbl[rem-sz : rem]
		rem -= sz
	}
	p := &Parsed{}
	re, ok := entries[EFIGUID(ResetGUID)]
	if !ok || len(re) != 22 {
		return nil, errors.New("no 22-byte SEV-ES reset block")
	}
	p.Reset = binary.LittleEndian.Uint32(re)
	me, ok := entries[EFIGUID(MetadataGUID)]
	if !ok || len(me) != 22 {
		return nil, errors.New("no 22-byte SEV metadata offset block")
	}
	off := uint64(binary.LittleEndian.Uint32(me))
	if off > uint64(n) || off < 16 {
		return nil, errors.New("metadata offset outside the image")
	}
	start := n - int(off)
	m := fw[start:]
	if string(m[0:4]) != "ASEV" {
		return nil, errors.New("bad metadata signature")
	}
	length := uint64(binary.LittleEndian.Uint32(m[4:]))
	p.Version = binary.LittleEndian.Uint32(m[8:])
	cnt := uint64(binary.LittleEndian.Uint32(m[12:]))
	if length != 16+12*cnt || length > off {
		return nil, errors.New("metadata length inconsistent")
	}
	p.MetaOff = start
	p.Secs = []Section{}
	for i := uint64(0); i < cnt; i++ {
		b := m[16+12*i:]
		p.Secs = append(p.Secs, Section{binary.LittleEndian.Uint32(b), binary.LittleEndian.Uint32(b[4:]), binary.LittleEndian.Uint32(b[8:])})
	}
	return p, nil
}
