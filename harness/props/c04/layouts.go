package c04

import (
	"fmt"
	"math/rand/v2"

	"verifharness/props/c04/snpref"
)

type sec = snpref.Section

const pg = 0x1000
const top32 = uint64(1) << 32

// ---------- well-formed layouts ----------

func disjoint(secs []sec, addr uint64, length uint64) bool {
	for _, s := range secs {
		a, e := uint64(s.Addr), uint64(s.Addr)+uint64(s.Len)
		if addr < e && a < addr+length {
			return false
		}
	}
	return true
}

var anchors = []uint64{0, 0x1000, 0x00800000, 0x7fff0000, 0x80000000, 0xff000000, 0xfffe0000}

// wfLayout draws 3..12 pairwise-disjoint page-aligned sections with exactly one secrets and one
// CPUID page range, at least one unmeasured range, optional SVSM-CAA ranges; any order.
func wfLayout(r *rand.Rand) []sec {
	n := 3 + r.IntN(10)
	kinds := []uint32{1, 2, 3}
	for len(kinds) < n {
		kinds = append(kinds, []uint32{1, 1, 4}[r.IntN(3)])
	}
	r.Shuffle(len(kinds), func(a, b int) { kinds[a], kinds[b] = kinds[b], kinds[a] })
	var secs []sec
	for _, k := range kinds {
		for try := 0; ; try++ {
			var pages uint64
			switch x := r.IntN(10); {
			case x < 6:
				pages = 1
			case x < 9:
				pages = 2 + uint64(r.IntN(7))
			default:
				pages = 16 << r.IntN(5) // 16..256
			}
			length := pages * pg
			var addr uint64
			switch r.IntN(8) {
			case 0, 1, 2:
				addr = anchors[r.IntN(len(anchors))] + uint64(r.IntN(32))*pg
			case 3:
				if len(secs) > 0 { // touching the previous section
					p := secs[len(secs)-1]
					addr = uint64(p.Addr) + uint64(p.Len)
				}
			case 4:
				if len(secs) > 0 { // ending where the previous section starts
					addr = uint64(secs[len(secs)-1].Addr) - length
				}
			case 5:
				addr = top32 - length // ends exactly at 4 GiB
			case 6:
				addr = top32 - pg*uint64(1+r.IntN(4)) // last pages below 4 GiB; may end beyond 4 GiB
			default:
				addr = uint64(r.Uint32()) &^ 0xfff
			}
			if try > 60 {
				addr, length = uint64(r.Uint32())&^0xfff, pg
			}
			if addr >= top32 || !disjoint(secs, addr, length) {
				continue
			}
			secs = append(secs, sec{Addr: uint32(addr), Len: uint32(length), Kind: k})
			break
		}
	}
	return secs
}

func layoutClass(secs []sec) string {
	nb := "3-4"
	if len(secs) > 8 {
		nb = "9-12"
	} else if len(secs) > 4 {
		nb = "5-8"
	}
	topEnd, cross, k4, multi := false, false, false, false
	for _, s := range secs {
		e := uint64(s.Addr) + uint64(s.Len)
		if e == top32 {
			topEnd = true
		}
		if e > top32 {
			cross = true
		}
		if s.Kind == 4 {
			k4 = true
		}
		if s.Len > pg {
			multi = true
		}
	}
	return fmt.Sprintf("n=%s,endsAt4G=%v,crosses4G=%v,svsm=%v,multipage=%v", nb, topEnd, cross, k4, multi)
}

// ---------- random single-class perturbations ----------

var randomOps = []string{"zero-length", "length-not-page-multiple", "address-misaligned", "overlap-moved-into", "overlap-identical",
	"duplicate-cpuid", "duplicate-secrets", "missing-by-retyping", "unknown-kind-retyped", "unknown-kind-added"}

func freePage(r *rand.Rand, secs []sec) uint32 {
	for {
		a := uint64(r.Uint32()) &^ 0xfff
		if disjoint(secs, a, pg) {
			return uint32(a)
		}
	}
}

func perturb(r *rand.Rand, secs []sec, op string) []sec {
	out := append([]sec(nil), secs...)
	j := r.IntN(len(out))
	switch op {
	case "zero-length":
		out[j].Len = 0
	case "length-not-page-multiple":
		out[j].Len += []uint32{1, 0x10, 0x800, 0xfff}[r.IntN(4)]
	case "address-misaligned":
		out[j].Addr += []uint32{1, 0x10, 0x800, 0xfff}[r.IntN(4)]
	case "overlap-moved-into":
		k := (j + 1 + r.IntN(len(out)-1)) % len(out)
		out[k].Addr = out[j].Addr + uint32(r.IntN(int(out[j].Len/pg)))*pg
	case "overlap-identical":
		k := (j + 1 + r.IntN(len(out)-1)) % len(out)
		out[k].Addr, out[k].Len = out[j].Addr, out[j].Len
	case "duplicate-cpuid":
		out = append(out, sec{Addr: freePage(r, out), Len: pg, Kind: 3})
		l := len(out) - 1
		k := r.IntN(len(out))
		out[l], out[k] = out[k], out[l]
	case "duplicate-secrets":
		out = append(out, sec{Addr: freePage(r, out), Len: pg, Kind: 2})
		l := len(out) - 1
		k := r.IntN(len(out))
		out[l], out[k] = out[k], out[l]
	case "missing-by-retyping":
		victim := uint32(1 + r.IntN(3))
		to := uint32(4)
		if victim != 1 && r.IntN(2) == 0 {
			to = 1
		}
		for x := range out {
			if out[x].Kind == victim {
				out[x].Kind = to
			}
		}
	case "unknown-kind-retyped":
		out[j].Kind = []uint32{0, 5, 6, 99, 0x101, 0x80000001, 0xffffffff}[r.IntN(7)]
	case "unknown-kind-added":
		out = append(out, sec{Addr: freePage(r, out), Len: pg, Kind: []uint32{0, 5, 6, 99, 0x101, 0x80000001, 0xffffffff}[r.IntN(7)]})
		l := len(out) - 1
		k := r.IntN(len(out))
		out[l], out[k] = out[k], out[l]
	}
	return out
}

// ---------- directed enumeration: operators x boundary positions ----------

type directed struct {
	name  string // operator/variant@position/kinds/order
	class string // operator/variant@position   (cell granularity)
	secs  []sec
}

const quiet = 0x00400000 // where the sections that are not under test live

func restExcept(kinds ...uint32) []sec {
	var out []sec
	for _, k := range []uint32{1, 2, 3} {
		skip := false
		for _, x := range kinds {
			if x == k {
				skip = true
			}
		}
		if !skip {
			out = append(out, sec{Addr: quiet + (k-1)*0x10000, Len: pg, Kind: k})
		}
	}
	return out
}

func compose(order int, a, b sec, rest []sec) []sec {
	switch order {
	case 0:
		return append([]sec{a, b}, rest...)
	case 1:
		return append([]sec{b, a}, rest...)
	default:
		out := append([]sec{a}, rest...)
		return append(out, b)
	}
}

var positions = []uint64{0x1000, 0x00801000, 0x7ffff000, 0x80000000, 0xff003000, 0xffffe000, 0xfffff000}

type shape struct {
	name string
	f    func(p uint64) (aAddr, aLen, bAddr, bLen uint64)
}

var shapes = []shape{
	{"identical-1p", func(p uint64) (uint64, uint64, uint64, uint64) { return p, pg, p, pg }},
	{"identical-2p", func(p uint64) (uint64, uint64, uint64, uint64) { return p, 2 * pg, p, 2 * pg }},
	{"tail-of-A-covers-B", func(p uint64) (uint64, uint64, uint64, uint64) { return p - pg, 2 * pg, p, pg }},
	{"A-contains-B", func(p uint64) (uint64, uint64, uint64, uint64) { return p - pg, 3 * pg, p, pg }},
	{"B-starts-inside-A", func(p uint64) (uint64, uint64, uint64, uint64) { return p, 2 * pg, p + pg, pg }},
	{"A-256p-contains-B", func(p uint64) (uint64, uint64, uint64, uint64) { return p - 255*pg, 256 * pg, p, pg }},
	{"control-adjacent", func(p uint64) (uint64, uint64, uint64, uint64) { return p - pg, pg, p, pg }},
	{"control-gap", func(p uint64) (uint64, uint64, uint64, uint64) { return p - 2*pg, pg, p, pg }},
}

var kindPairs = [][2]uint32{{1, 1}, {1, 3}, {2, 1}, {4, 1}, {4, 4}, {3, 2}}

func buildDirected() []directed {
	var out []directed
	add := func(class, variant string, secs []sec) {
		out = append(out, directed{name: class + "/" + variant, class: class, secs: secs})
	}
	// overlap and its controls
	for _, sh := range shapes {
		for _, p := range positions {
			aA, aL, bA, bL := sh.f(p)
			if aA >= top32 || bA >= top32 { // does not fit in 32 bits (or p-k*page underflowed)
				continue
			}
			for _, kp := range kindPairs {
				for order := 0; order < 3; order++ {
					if order == 2 && kp != [2]uint32{1, 1} && kp != [2]uint32{1, 3} {
						continue
					}
					a := sec{Addr: uint32(aA), Len: uint32(aL), Kind: kp[0]}
					b := sec{Addr: uint32(bA), Len: uint32(bL), Kind: kp[1]}
					add(fmt.Sprintf("overlap/%s@0x%x", sh.name, p), fmt.Sprintf("k%dk%d/order%d", kp[0], kp[1], order),
						compose(order, a, b, restExcept(kp[0], kp[1])))
				}
			}
		}
	}
	// misaligned address
	for _, d := range []uint32{1, 0x10, 0x800, 0xfff} {
		for _, k := range []uint32{1, 2, 3, 4} {
			for _, p := range []uint32{0x00800000, 0xffffe000} {
				secs := append(restExcept(k), sec{Addr: p + d, Len: pg, Kind: k})
				if k == 4 {
					secs = append(restExcept(), sec{Addr: p + d, Len: pg, Kind: 4})
				}
				add(fmt.Sprintf("misaligned-address/+0x%x@0x%x", d, p), fmt.Sprintf("k%d/last", k), secs)
				rev := append([]sec{secs[len(secs)-1]}, secs[:len(secs)-1]...)
				add(fmt.Sprintf("misaligned-address/+0x%x@0x%x", d, p), fmt.Sprintf("k%d/first", k), rev)
			}
		}
	}
	// empty and non-page-multiple lengths
	for _, l := range []uint32{0, 1, 0x800, 0xfff, 0x1001, 0x1800, 0x80000800, 0xffffffff} {
		for _, k := range []uint32{1, 2, 3, 4} {
			secs := append(restExcept(k), sec{Addr: 0x00800000, Len: l, Kind: k})
			if k == 4 {
				secs = append(restExcept(), sec{Addr: 0x00800000, Len: l, Kind: 4})
			}
			add(fmt.Sprintf("bad-length/0x%x", l), fmt.Sprintf("k%d/last", k), secs)
			rev := append([]sec{secs[len(secs)-1]}, secs[:len(secs)-1]...)
			add(fmt.Sprintf("bad-length/0x%x", l), fmt.Sprintf("k%d/first", k), rev)
		}
	}
	// duplicate CPUID / secrets (disjoint ranges)
	for _, k := range []uint32{2, 3} {
		for _, pl := range []struct {
			n string
			a uint32
		}{{"far", 0x00900000}, {"adjacent", quiet + (k-1)*0x10000 + pg}, {"top-page", 0xfffff000}, {"page0", 0}} {
			base := restExcept()
			dup := sec{Addr: pl.a, Len: pg, Kind: k}
			add(fmt.Sprintf("duplicate/k%d/%s", k, pl.n), "dup-last", append(append([]sec(nil), base...), dup))
			add(fmt.Sprintf("duplicate/k%d/%s", k, pl.n), "dup-first", append([]sec{dup}, base...))
			var mid []sec
			for _, s := range base {
				mid = append(mid, s)
				if s.Kind == k {
					mid = append(mid, dup)
				}
			}
			add(fmt.Sprintf("duplicate/k%d/%s", k, pl.n), "dup-right-after", mid)
		}
	}
	// missing mandatory kind
	for _, k := range []uint32{1, 2, 3} {
		add(fmt.Sprintf("missing/k%d/removed", k), "plain", restExcept(k))
		add(fmt.Sprintf("missing/k%d/removed", k), "with-svsm", append(restExcept(k), sec{Addr: 0x00900000, Len: pg, Kind: 4}))
		add(fmt.Sprintf("missing/k%d/retyped-to-svsm", k), "plain", append(restExcept(k), sec{Addr: quiet + (k-1)*0x10000, Len: pg, Kind: 4}))
		if k != 1 {
			add(fmt.Sprintf("missing/k%d/retyped-to-unmeasured", k), "plain", append(restExcept(k), sec{Addr: quiet + (k-1)*0x10000, Len: pg, Kind: 1}))
		}
	}
	add("missing/all/no-sections", "plain", []sec{})
	add("missing/all/only-svsm", "plain", []sec{{Addr: quiet, Len: pg, Kind: 4}})
	add("missing/k2k3/only-unmeasured", "plain", []sec{{Addr: quiet, Len: pg, Kind: 1}, {Addr: quiet + 0x10000, Len: 2 * pg, Kind: 1}})
	// unknown kind
	for _, v := range []uint32{0, 5, 6, 7, 0x10, 0x101, 0x80000001, 0xffffffff} {
		extra := sec{Addr: 0x00900000, Len: pg, Kind: v}
		add(fmt.Sprintf("unknown-kind/0x%x/extra-section", v), "last", append(restExcept(), extra))
		add(fmt.Sprintf("unknown-kind/0x%x/extra-section", v), "first", append([]sec{extra}, restExcept()...))
		add(fmt.Sprintf("unknown-kind/0x%x/replaces-unmeasured", v), "plain", append(restExcept(1), sec{Addr: quiet, Len: pg, Kind: v}))
	}
	// well-formed controls at the boundaries
	add("control/minimal", "k1k2k3", restExcept())
	add("control/minimal", "k3k2k1", []sec{restExcept()[2], restExcept()[1], restExcept()[0]})
	add("control/with-svsm", "last", append(restExcept(), sec{Addr: 0x00900000, Len: pg, Kind: 4}))
	for _, k := range []uint32{1, 2, 3, 4} {
		s := append(restExcept(k), sec{Addr: 0xfffff000, Len: pg, Kind: k})
		if k == 4 {
			s = append(restExcept(), sec{Addr: 0xfffff000, Len: pg, Kind: 4})
		}
		add("control/section-is-last-page-below-4G", fmt.Sprintf("k%d", k), s)
		z := append(restExcept(k), sec{Addr: 0, Len: pg, Kind: k})
		if k == 4 {
			z = append(restExcept(), sec{Addr: 0, Len: pg, Kind: 4})
		}
		add("control/section-at-address-0", fmt.Sprintf("k%d", k), z)
	}
	add("control/section-crosses-4G", "k1-2p", append(restExcept(1), sec{Addr: 0xfffff000, Len: 2 * pg, Kind: 1}))
	add("control/section-crosses-4G", "k4-3p", append(restExcept(), sec{Addr: 0xffffe000, Len: 3 * pg, Kind: 4}))
	return out
}
