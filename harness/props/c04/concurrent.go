package c04

import (
	"bytes"
	"encoding/hex"
	"fmt"
	"math/rand/v2"
	"runtime/debug"
	"sync"

	"github.com/google/gce-tcb-verifier/sev"

	"verifharness/core"
	"verifharness/props/c04/snpref"
)

// Concurrent family: "the computation is deterministic" and the digest definition must also hold
// when several measurements run at the same time (the endorsement pipeline and a library user may
// measure from several goroutines). G goroutines are released on a barrier; each runs a
// pre-drawn list of calls on its own images and on images shared by all goroutines. Every call
// was executed once sequentially beforehand; every concurrent result is compared with the model
// and with that sequential result.

type cimage struct {
	id      string
	sp      *spec
	img     []byte
	before  []byte
	parsed  *snpref.Parsed
	classes []string
	prefix  []byte
}

type cjob struct {
	im       *cimage
	co       combo // co.vcpus == 0 only with unsigned: all GCE counts
	unsigned bool

	seq, got       map[uint32][]byte
	seqErr, gotErr error
	panicMsg, site string
}

func (j *cjob) counts() []int {
	if j.co.vcpus == 0 {
		return gceCounts
	}
	return []int{j.co.vcpus}
}

func (j *cjob) entry() string {
	if j.unsigned {
		return "sev.UnsignedSnp"
	}
	return "sev.LaunchDigest"
}

// exec runs the repository entry point of a job once.
func (j *cjob) exec() (map[uint32][]byte, error) {
	if j.unsigned {
		r, err := sev.UnsignedSnp(j.im.img, &sev.SnpEndorsementRequest{Svn: 1, ImageID: "00000000-0000-4000-8000-000000000001",
			LaunchVmsas: uint32(j.co.vcpus), Product: j.co.prod})
		if err != nil {
			return nil, err
		}
		out := map[uint32][]byte{}
		for k, v := range r.GetMeasurements() {
			out[k] = append([]byte(nil), v...)
		}
		return out, nil
	}
	d, err := sev.LaunchDigest(&sev.LaunchOptions{Vcpus: j.co.vcpus, Product: j.co.prod}, j.im.img)
	if err != nil {
		return nil, err
	}
	return map[uint32][]byte{uint32(j.co.vcpus): append([]byte(nil), d...)}, nil
}

func fmtRes(m map[uint32][]byte, err error) string {
	if err != nil {
		return "error: " + err.Error()
	}
	out := ""
	for _, n := range append([]int{3, 7, 255, 1000}, gceCounts...) {
		if v, ok := m[uint32(n)]; ok {
			out += fmt.Sprintf("[%d VMSAs: %x] ", n, v)
		}
	}
	return out
}

func sameResult(a, b map[uint32][]byte, ea, eb error) bool {
	if (ea == nil) != (eb == nil) || len(a) != len(b) {
		return false
	}
	for k, v := range a {
		if !bytes.Equal(v, b[k]) {
			return false
		}
	}
	return true
}

func (w *wl) cimage(r *rand.Rand, id string, secs []sec, pages int) *cimage {
	sp := &spec{Size: 4096 * pages, Entries: randomTable(r), MetaPos: []string{"start", "before-table", "random"}[r.IntN(3)],
		Version: 1, Reset: pickReset(r), Secs: secs}
	if err := sp.place(r); err != nil {
		w.selfcheckFailed++
		return nil
	}
	img, err := sp.build(rand.New(rand.NewPCG(r.Uint64(), 5)))
	if err != nil {
		w.selfcheckFailed++
		return nil
	}
	p, perr := snpref.Parse(img)
	if perr != nil || p.Reset != sp.Reset || !sameSecs(p.Secs, sp.Secs) {
		w.selfcheckFailed++
		return nil
	}
	im := &cimage{id: id, sp: sp, img: img, before: append([]byte(nil), img...), parsed: p, classes: snpref.Classify(p.Secs)}
	if len(im.classes) == 0 {
		im.prefix = snpref.Prefix(img, p.Secs)
	}
	return im
}

func (w *wl) concurrent(i int, r *rand.Rand) {
	c := w.c
	g := []int{4, 8, 16}[r.IntN(3)]
	rounds := 3 + r.IntN(4)
	gen := fmt.Sprintf("concurrent#%d goroutines=%d rounds=%d", i, g, rounds)
	c.Begin(i, gen, "sev.LaunchDigest+sev.UnsignedSnp (concurrent)", nil)
	defer c.End(i)

	// images: two shared well-formed, two shared malformed, one or two own per goroutine
	var shared, bad []*cimage
	for k := 0; k < 2; k++ {
		if im := w.cimage(r, fmt.Sprintf("shared%d", k), wfLayout(r), 2+r.IntN(31)); im != nil {
			shared = append(shared, im)
		}
		op := randomOps[r.IntN(len(randomOps))]
		if im := w.cimage(r, "malformed:"+op, perturb(r, wfLayout(r), op), 1+r.IntN(4)); im != nil && len(im.classes) > 0 {
			bad = append(bad, im)
		}
	}
	jobs := make([][]*cjob, g)
	for t := 0; t < g; t++ {
		var own []*cimage
		for k := 0; k < 1+r.IntN(2); k++ {
			if im := w.cimage(r, fmt.Sprintf("own%d.%d", t, k), wfLayout(r), 1+r.IntN(48)); im != nil {
				own = append(own, im)
			}
		}
		for rd := 0; rd < rounds; rd++ {
			pick := func(set []*cimage) {
				if len(set) == 0 {
					return
				}
				j := &cjob{im: set[r.IntN(len(set))], co: pickCombo(r)}
				if r.IntN(4) == 0 {
					j.unsigned = true
					if r.IntN(3) == 0 {
						j.co.vcpus = 0
					}
				}
				jobs[t] = append(jobs[t], j)
			}
			pick(own)
			pick(shared)
			if rd%2 == 0 {
				pick(own)
			}
			if rd == 1 || r.IntN(4) == 0 {
				pick(bad)
			}
		}
	}
	// sequential baseline
	njobs := 0
	for _, js := range jobs {
		for _, j := range js {
			j := j
			m := c.Guard(i, j.entry(), gen, core.Budget{}, func() { j.seq, j.seqErr = j.exec() })
			if m.Panicked {
				return
			}
			njobs++
		}
	}
	// concurrent execution behind a barrier
	var ready, done sync.WaitGroup
	start := make(chan struct{})
	for t := 0; t < g; t++ {
		ready.Add(1)
		done.Add(1)
		go func(js []*cjob) {
			defer done.Done()
			ready.Done()
			<-start
			for _, j := range js {
				func() {
					defer func() {
						if p := recover(); p != nil {
							j.panicMsg = fmt.Sprint(p)
							j.site = core.PanicSite(debug.Stack())
						}
					}()
					j.got, j.gotErr = j.exec()
				}()
			}
		}(jobs[t])
	}
	ready.Wait()
	close(start)
	done.Wait()
	c.Eval(njobs)
	// judge
	for t, js := range jobs {
		for _, j := range js {
			en, im := j.entry(), j.im
			wit := witness{Spec: im.sp, Classes: im.classes, Vcpus: j.co.vcpus, Product: j.co.pname}
			w.concCalls++
			if j.panicMsg != "" {
				c.Violate(core.Violation{Kind: "panic", Entry: en + " (concurrent)", Site: j.site, Gen: gen, Case: i, Detail: j.panicMsg, Witness: wit})
				continue
			}
			malformed := len(im.classes) > 0
			kind := "own"
			if malformed {
				kind = "malformed"
			} else if im.id[0] == 's' {
				kind = "shared"
			}
			if j.gotErr == nil && malformed {
				c.Violate(core.Violation{Kind: "oracle", Entry: en, Site: "concurrent-accepted-malformed", Gen: gen, Case: i,
					Detail:  fmt.Sprintf("goroutine %d: %s accepted image %s whose SNP metadata is malformed (%v): %v", t, en, im.id, im.classes, im.sp.Secs),
					Witness: wit})
			}
			if j.gotErr == nil && !malformed {
				ok := len(j.got) == len(j.counts())
				var got, want []byte
				bn := 0
				for _, n := range j.counts() {
					bn = n
					want = snpref.Finish(append([]byte(nil), im.prefix...), im.parsed.Reset, n, snpref.ProductBits(j.co.pname))
					got = j.got[uint32(n)]
					if !bytes.Equal(got, want) {
						ok = false
						break
					}
				}
				if !ok {
					wit.Got, wit.Want = hex.EncodeToString(got), hex.EncodeToString(want)
					c.Violate(core.Violation{Kind: "oracle", Entry: en, Site: "concurrent-call-differs-from-reference", Gen: gen, Case: i,
						Detail: fmt.Sprintf("goroutine %d of %d, image %s (%d pages), vcpus=%d %s: got %x, AMD definition gives %x; the same call made alone returned %x",
							t, g, im.id, im.sp.Size/4096, bn, j.co.pname, got, want, j.seq[uint32(bn)]),
						Witness: wit})
					c.Cell("%s|concurrent/%s|%s|%s|DIGEST-DIFFERS", en, kind, vcpuClass(j.co.vcpus), j.co.pname)
				} else {
					w.concEqual++
					c.Count("concurrent/accepted-equal/"+en, 1)
					c.Cell("%s|concurrent/%s/g=%d|%s|%s|accepted-equal", en, kind, g, vcpuClass(j.co.vcpus), j.co.pname)
				}
			}
			if j.gotErr != nil && malformed {
				w.concRefused++
				c.Count("concurrent/rejected-malformed/"+im.classes[0], 1)
				c.Cell("%s|concurrent/malformed/g=%d|%s|%s|rejected:%s", en, g, vcpuClass(j.co.vcpus), j.co.pname, im.classes[0])
			}
			if !sameResult(j.seq, j.got, j.seqErr, j.gotErr) {
				c.Violate(core.Violation{Kind: "oracle", Entry: en, Site: "concurrent-call-differs-from-sequential-call", Gen: gen, Case: i,
					Detail:  fmt.Sprintf("goroutine %d of %d, image %s, launch_vmsas=%d %s: alone %s; concurrently %s", t, g, im.id, j.co.vcpus, j.co.pname, fmtRes(j.seq, j.seqErr), fmtRes(j.got, j.gotErr)),
					Witness: wit})
			}
		}
	}
	for _, set := range [][]*cimage{shared, bad} {
		for _, im := range set {
			if !bytes.Equal(im.img, im.before) {
				c.Oracle(i, "sev.LaunchDigest", "image-bytes-changed", gen, "shared image %s differs after the concurrent calls", im.id)
			}
		}
	}
	c.Max("concurrent/goroutines", int64(g))
	c.Count("concurrent/histories", 1)
}
